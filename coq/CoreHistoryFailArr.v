(** CoreHistoryFailArr.v — the bulk array constructors (cJSON_CreateIntArray / FloatArray / DoubleArray /
    StringArray) under an ARBITRARY allocation oracle, with EXACT allocator counters on both exits.

    The loop makes [m] elements and then either is done ([m] = count: the array, as in
    CoreHistoryAllArr.v) or meets a refused request while making element [m]: the partial array is
    deleted ([CoreRefineArray.step_fail]), NULL is returned, the heap is a [clean_failure] of the
    start heap, and — what the history theorem needs — [h_next] and [h_req] of the result are known:
    [cJSON_Delete] keeps both ([Keeps_cJSON_Delete]).

    [spec_number_array_o], [spec_string_array_o]: the list model = the never-failing model when none of
    the 1 + count (resp. 1 + 2 count) requests is refused, else [refused_state S j] for the FIRST
    refused request [j]; [Step_number_array_o], [Step_string_array_o]. *)
From CJ Require Import Base Dbl Heap Forest ForestLemmas CoreSpec CoreDefs CoreRefineBase CoreRefine
  CoreRefineDelete CoreRefineReplace CoreRefineMore CoreRefineFrame CoreRefineHistory CoreRefineObject
  CoreRefineByKey CoreRefineAddObject CoreRefineHistoryObj CoreRefineCreate CoreRefineArray
  CoreLedgerGen CoreHistoryAllSteps CoreHistoryAllArr CoreHistoryAllArrStep CoreHistoryFailSteps.
From CJ.gen Require Import Constants.
From stdpp Require Import gmap.
Implicit Types (h : heap) (F : forest) (d : rdata).

(** * computations that keep both allocator counters *)
Definition Keeps {A} (m : M A) : Prop :=
  forall h a h', m h = Ret (a, h') -> h_next h' = h_next h /\ h_req h' = h_req h.

Lemma Keeps_ret {A} (a : A) : Keeps (ret a).
Proof. intros h a' h' E. by injection E as _ <-. Qed.
Lemma Keeps_fail {A} e : Keeps (@fail A e).
Proof. intros h a h' E. discriminate. Qed.
Lemma Keeps_bind {A B} (m : M A) (f : A -> M B) : Keeps m -> (forall a, Keeps (f a)) -> Keeps (bindM m f).
Proof.
  intros Hm Hf h b h' E. unfold bindM in E. destruct (m h) as [[a h1]|e] eqn:E1; [|done].
  destruct (Hm _ _ _ E1) as [A1 A2]. destruct (Hf a _ _ _ E) as [B1 B2]. split; congruence.
Qed.
Lemma Keeps_when b m : Keeps m -> Keeps (when b m).
Proof. intros H. destruct b; [done|apply Keeps_ret]. Qed.
Lemma Keeps_heap_fuel : Keeps heap_fuel.
Proof. intros h a h' E. by injection E as _ <-. Qed.
Lemma Keeps_chk p : Keeps (chk p).
Proof. intros h a h' E. unfold chk in E. destruct p; [|done]. destruct (decide _); [|done]. by injection E as _ <-. Qed.
Lemma Keeps_ld_lnk p : Keeps (ld_lnk p).
Proof.
  unfold ld_lnk. apply Keeps_bind; [apply Keeps_chk|]. intros id h a h' E.
  destruct (h_lnk h !! id); [|done]. by injection E as _ <-.
Qed.
Lemma Keeps_ld_dat p : Keeps (ld_dat p).
Proof.
  unfold ld_dat. apply Keeps_bind; [apply Keeps_chk|]. intros id h a h' E.
  destruct (h_dat h !! id); [|done]. by injection E as _ <-.
Qed.
Lemma Keeps_st_dat p v : Keeps (st_dat p v).
Proof.
  unfold st_dat. apply Keeps_bind; [apply Keeps_chk|]. intros id h a h' E.
  destruct (h_dat h !! id); [|done]. by injection E as _ <-.
Qed.
Lemma Keeps_free_block p : Keeps (free_block p).
Proof.
  intros h a h' E. unfold free_block in E. destruct p as [id|]; [|by injection E as _ <-].
  destruct (h_own h !! id) as [[]|]; try done. destruct (decide _); [|done]. by injection E as _ <-.
Qed.

Ltac kp_step :=
  lazymatch goal with
  | |- Keeps (bindM _ _) => apply Keeps_bind; [|intros ?]
  | |- Keeps (when _ _) => apply Keeps_when
  | |- Keeps (if ?b then _ else _) => destruct b
  | |- Keeps (ret _) => apply Keeps_ret
  | |- Keeps (fail _) => apply Keeps_fail
  | |- Keeps (ld_lnk _) => apply Keeps_ld_lnk
  | |- Keeps (ld_dat _) => apply Keeps_ld_dat
  | |- Keeps (st_dat _ _) => apply Keeps_st_dat
  | |- Keeps (free_block _) => apply Keeps_free_block
  | |- Keeps heap_fuel => apply Keeps_heap_fuel
  end.
Ltac kp := repeat kp_step.

Lemma Keeps_cJSON_Delete_fuel fuel : forall item, Keeps (cJSON_Delete_fuel fuel item).
Proof.
  induction fuel as [|f IH]; intros item; cbn [cJSON_Delete_fuel]; [kp|].
  unfold get_next, get_type, get_child, get_vstr, get_key, set_vstr, set_key. kp; try apply IH.
Qed.
Lemma Keeps_cJSON_Delete item : Keeps (cJSON_Delete item).
Proof. unfold cJSON_Delete. kp. apply Keeps_cJSON_Delete_fuel. Qed.

(** * the loop: [m] elements are made *)
Section BulkO.
  Context (o : nat -> bool) (h : heap) (F : forest).
  Hypothesis W : WF h F.
  Hypothesis LB : live_below h.
  Local Notation a := (h_next h).
  Variable Q : nat -> heap -> rdata -> Prop.
  Hypothesis Q_upd : forall k H d L D, Q k H d -> Q k (upd_maps H L D) d.
  Hypothesis Q_ext : forall k H H' N d, Q k H d -> Ext H H' N -> Q k H' d.
  Variable mk : Z -> M ptr.
  Variable n : nat.                            (* count *)
  Variable c : positive.                       (* requests = blocks per element *)
  Variable dk : nat -> positive -> rdata.      (* data of element k whose node block is x *)
  Variable m : nat.                            (* elements that are made *)

  (** the canonical heap when element [k] is about to be made *)
  Definition at_elem (Hc : heap) (k : nat) : Prop :=
    Zpos (h_next Hc) = (Zpos a + 1 + Zpos c * Z.of_nat k)%Z /\ h_req Hc = S (h_req h) + Pos.to_nat c * k.

  Hypothesis Hmk : forall k Hc leaves, k < m -> length leaves = k -> Inv h F Q Hc leaves -> at_elem Hc k ->
    exists H', mk (Z.of_nat k) (act Hc leaves) = Ret (Some (h_next Hc), H') /\
      grows_leaf (act Hc leaves) H' (h_next Hc) (dk k (h_next Hc)) /\ Q k H' (dk k (h_next Hc)) /\
      h_next H' = (h_next Hc + c)%positive /\ h_req H' = h_req Hc + Pos.to_nat c.

  Lemma bulk_loop_o rem : forall k leaves Hc rest,
    Inv h F Q Hc leaves -> length leaves = k -> k + rem = m -> at_elem Hc k ->
    let all := leaves ++ leaves_from c dk (h_next Hc) k rem in
    exists Hc', Inv h F Q Hc' all /\ at_elem Hc' m /\ length all = m /\
      create_array_loop mk (rem + rest) (Z.of_nat k) (Some a) (last (tid <$> leaves)) (last (tid <$> leaves)) (act Hc leaves)
      = create_array_loop mk rest (Z.of_nat m) (Some a) (last (tid <$> all)) (last (tid <$> all)) (act Hc' all).
  Proof.
    induction rem as [|rem IH]; intros k leaves Hc rest I Hlen Hn Hat; subst k; cbn zeta.
    { exists Hc. cbn [leaves_from]. rewrite app_nil_r. rewrite Nat.add_0_r in Hn. subst m. done. }
    cbn [Nat.add create_array_loop leaves_from].
    destruct (Hmk (length leaves) Hc leaves ltac:(lia) eq_refl I Hat) as (H' & Hrun & G & HQ & Hnx & Hrq).
    rewrite (bindM_Ret _ _ _ _ _ Hrun). cbn [is_null].
    destruct (step_ok h F W LB Q Q_upd Q_ext Hc leaves H' _ _ I G HQ) as (Hc1 & I1 & Hlink).
    rewrite (bindM_Ret _ _ _ _ _ Hlink).
    set (leaf := T (h_next Hc) (dk (length leaves) (h_next Hc)) []) in *.
    assert (Hkeep : h_next Hc1 = h_next H' /\ h_req Hc1 = h_req H').
    { destruct (Z.of_nat (length leaves) =? 0)%Z.
      - by destruct (set_child_keeps _ _ _ _ Hlink).
      - by destruct (suffix_object_keeps _ _ _ _ Hlink). }
    destruct Hkeep as [Hk1 Hk2]. destruct Hat as [Hat1 Hat2].
    assert (Hlast : Some (h_next Hc) = last (tid <$> (leaves ++ [leaf]))).
    { rewrite fmap_app. cbn. by rewrite last_snoc. }
    rewrite Hlast. replace (Z.of_nat (length leaves) + 1)%Z with (Z.of_nat (S (length leaves))) by lia.
    destruct (IH (S (length leaves)) (leaves ++ [leaf]) Hc1 rest I1) as (Hc2 & I2 & Hat' & Hl2 & Hr).
    { rewrite app_length. cbn. lia. }
    { lia. }
    { split; [lia|]. rewrite Hk2, Hrq, Hat2. lia. }
    cbn zeta in Hr, I2, Hl2. rewrite Hk1, Hnx in Hr, I2, Hl2. rewrite <- app_assoc in Hr, I2, Hl2. cbn [app] in Hr, I2, Hl2.
    exists Hc2. done.
  Qed.

  Variable count : Z.
  Hypothesis Hcount : (0 <= count)%Z.
  Hypothesis Hn : n = Z.to_nat count.
  Hypothesis Ho : o (h_req h) = false.          (* the array node is granted *)

  Lemma bulk_start :
    let Hc0 := new_node h arr in
    create_array_of o mk false count h =
      (r <~ create_array_loop mk n 0 (Some a) None None ;;
       match r with
       | None => ret None
       | Some nn => (cc <~ get_child (Some a) ;; when (negb (is_null cc)) (c2 <~ get_child (Some a) ;; set_prev c2 nn)) ;;; ret (Some a)
       end) (act Hc0 []) /\
    Inv h F Q Hc0 [] /\ at_elem Hc0 0.
  Proof.
    cbn zeta. unfold create_array_of. destruct (Z.ltb_spec count 0) as [Hlt|_]; [lia|]. cbn [orb].
    unfold cJSON_CreateArray.
    destruct (create_with_type_sim o c_cJSON_Array h F W LB) as [(_ & Hrun & W0 & LB0 & _)|(Ho' & _)]; [|congruence].
    rewrite (bindM_Ret _ _ _ _ _ Hrun). cbn [is_null]. fold arr in Hrun, W0, LB0.
    split; [by rewrite act_nil, Hn|]. split.
    - constructor; [exact W0| |intros j t Hj; done].
      apply (Ext_mem _ _ [a]); [|apply Ext_new_node].
      intros b. rewrite flat_singleton, flat_t_unfold. unfold arr. cbn. rewrite owned_strs_of_type. cbn. done.
    - split; cbn; lia.
  Qed.

  (** every element is made: the array *)
  Lemma bulk_array_of_ok :
    m = n ->
    let leaves := leaves_from c dk (Pos.succ a) 0 n in
    exists Hc,
      create_array_of o mk false count h = Ret (Some a, Hc) /\
      Inv h F Q Hc leaves /\ live_below Hc /\ (NoLeak h F -> NoLeak Hc (F ++ [T a arr leaves])) /\
      Zpos (h_next Hc) = (Zpos a + 1 + Zpos c * Z.of_nat n)%Z /\
      h_req Hc = S (h_req h) + Pos.to_nat c * n.
  Proof.
    intros Hmn leaves. destruct bulk_start as (Hstart & I0 & Hat0). cbn zeta in *. set (Hc0 := new_node h arr) in *.
    destruct (bulk_loop_o m 0 [] Hc0 0 I0 eq_refl eq_refl Hat0) as (Hc & I & [Hnx Hrq] & Hlen & Hr).
    cbn zeta in Hr, I. cbn [app fmap list_fmap last Z.of_nat] in Hr, I. rewrite Nat.add_0_r, Hmn in Hr.
    rewrite Hmn in I, Hnx, Hrq. change (h_next Hc0) with (Pos.succ a) in *. fold leaves in I, Hr.
    change (Z.of_nat 0) with 0%Z in Hr.
    exists Hc. rewrite Hstart. unfold bindM at 1. rewrite Hr. cbn [create_array_loop]. unfold ret at 1.
    pose proof I as [Wn En Qn]. destruct (Inv_facts h F LB Q _ _ I) as (Hin & Hla & Hda & NDk & Hks & Hlk & Hanext & LBc & Hlnka).
    set (ks := tid <$> leaves) in *.
    split; [|split; [exact I|split; [exact LBc|split; [intros NL; by apply (NoLeak_Ext' h F LB)|done]]]].
    unfold act. fold ks.
    rewrite !bindM_assoc. rewrite (run_get_child_bind _ Hc _ _ a _ Hla Hda). change (nd_child (mk_dat arr ks)) with (child_of arr ks).
    destruct (head ks) as [c0|] eqn:Hh.
    - rewrite (child_of_head _ _ _ Hh). cbn [is_null negb when].
      rewrite !bindM_assoc. rewrite (run_get_child_bind _ Hc _ _ a _ Hla Hda). change (nd_child (mk_dat arr ks)) with (child_of arr ks).
      rewrite (child_of_head _ _ _ Hh).
      assert (Hc0in : c0 ∈ ks) by (by apply head_Some_elem_of).
      rewrite head_lookup in Hh. pose proof (Hlk _ _ Hh) as Hl0.
      rewrite run_set_prev_bind by (by apply Hks || (rewrite is_Some_upd_prev, Hl0; eauto)).
      rewrite upd_prev_upd_prev. rewrite (upd_prev_id _ _ _ _ Hl0) by (by rewrite link_at_0).
      by rewrite upd_maps_id.
    - apply head_None in Hh. rewrite Hh. cbn [child_of rd_ref arr rd_of_type is_null negb when].
      by rewrite upd_maps_id.
  Qed.

  (** element [m] is refused: the partial array is deleted *)
  Variable dn dr : nat.
  Hypothesis Hfail : forall Hc leaves, length leaves = m -> Inv h F Q Hc leaves -> at_elem Hc m ->
    exists H', mk (Z.of_nat m) (act Hc leaves) = Ret (None, H') /\ clean_failure (act Hc leaves) H' /\
      Zpos (h_next H') = (Zpos (h_next Hc) + Z.of_nat dn)%Z /\ h_req H' = h_req Hc + dr.

  Lemma bulk_array_of_fail :
    m < n ->
    exists h',
      create_array_of o mk false count h = Ret (None, h') /\ clean_failure h h' /\
      Zpos (h_next h') = (Zpos a + 1 + Zpos c * Z.of_nat m + Z.of_nat dn)%Z /\
      h_req h' = S (h_req h) + Pos.to_nat c * m + dr.
  Proof.
    intros Hmn. destruct bulk_start as (Hstart & I0 & Hat0). cbn zeta in *. set (Hc0 := new_node h arr) in *.
    destruct (bulk_loop_o m 0 [] Hc0 (S (n - m - 1)) I0 eq_refl eq_refl Hat0) as (Hc & I & Hat & Hlen & Hr).
    cbn zeta in Hr, I, Hlen. cbn [app fmap list_fmap last Z.of_nat] in Hr, I, Hlen.
    replace (m + S (n - m - 1)) with n in Hr by lia. change (Z.of_nat 0) with 0%Z in Hr.
    destruct (Hfail Hc _ Hlen I Hat) as (H' & Hrun & CF & Hnx & Hrq).
    destruct (step_fail h F W LB Q Hc _ H' I CF) as (h' & Hdel & CF' & Hrq').
    destruct (Keeps_cJSON_Delete _ _ _ _ Hdel) as [Hnx' _].
    exists h'. rewrite Hstart. unfold bindM at 1. rewrite Hr. cbn [create_array_loop].
    rewrite (bindM_Ret _ _ _ _ _ Hrun). cbn [is_null]. rewrite (bindM_Ret _ _ _ _ _ Hdel).
    split; [reflexivity|]. split; [exact CF'|]. destruct Hat as [Hat1 Hat2]. split; [rewrite Hnx'; lia|lia].
  Qed.
End BulkO.

(** * the four public constructors as steps *)
Local Open Scope Z_scope.

Section ArraySteps.
  Variable o : nat -> bool.

  Lemma run_CreateNumber_ok num H :
    o (h_req H) = false -> cJSON_CreateNumber o num H = Ret (Some (h_next H), new_node H (rd_number num)).
  Proof.
    intros Ho. unfold cJSON_CreateNumber, cJSON_New_Item.
    rewrite (bindM_Ret _ _ _ _ _ (run_alloc_node_ok o H Ho)).
    cbn [is_null negb when]. rewrite !bindM_assoc.
    rewrite (bindM_Ret _ _ _ _ _ (run_set_type_plain _ _ _ c_cJSON_Number (new_node_live _ _) (new_node_dat _ _))).
    rewrite (new_node_set H _ _ (rd_of_type c_cJSON_Number)) by reflexivity. rewrite !bindM_assoc.
    rewrite (bindM_Ret _ _ _ _ _ (run_set_vdbl_plain _ _ _ num (new_node_live _ _) (new_node_dat _ _))).
    rewrite (new_node_set H _ _ (mkRD c_cJSON_Number None 0 num None None)) by reflexivity.
    rewrite (bindM_Ret _ _ _ _ _ (run_set_vint_plain _ _ _ (sat_int num) (new_node_live _ _) (new_node_dat _ _))).
    rewrite (new_node_set H _ _ (rd_number num)) by reflexivity. reflexivity.
  Qed.
  Lemma run_CreateNumber_fail num H : o (h_req H) = true -> cJSON_CreateNumber o num H = Ret (None, bump H).
  Proof. intros Ho. unfold cJSON_CreateNumber, cJSON_New_Item. by rewrite (bindM_Ret _ _ _ _ _ (run_alloc_node_fail _ _ Ho)). Qed.

  (** the array node itself is refused *)
  Lemma create_array_of_node_refused mk count h :
    0 <= count -> o (h_req h) = true -> create_array_of o mk false count h = Ret (None, bump h).
  Proof.
    intros Hc Ho. unfold create_array_of. destruct (Z.ltb_spec count 0) as [Hlt|_]; [lia|]. cbn [orb].
    unfold cJSON_CreateArray. by rewrite (bindM_Ret _ _ _ _ _ (create_with_type_fail o _ h Ho)).
  Qed.

  Lemma pos_add_0 p : pos_add p 0 = p.
  Proof. unfold pos_add. lia. Qed.

  (** ** number arrays *)
  Definition spec_number_array_o (S : astate2) (vals : list dbl) (count : Z) : astate2 * ptr :=
    match first_refusal o (req S) (Datatypes.S (Z.to_nat count)) with
    | None => spec_number_array S vals count
    | Some j => (refused_state S j, None)
    end.

  Lemma Step_number_array_o {A} (conv : A -> dbl) S (l : list A) count :
    0 <= count -> (Z.to_nat count <= length l)%nat ->
    Step (create_array_of o (fun j : Z => v <~ rd_arr l j ;; cJSON_CreateNumber o (conv v)) false count) S
         (spec_number_array_o S (conv <$> l) count).1 (spec_number_array_o S (conv <$> l) count).2.
  Proof.
    intros Hc Hlen.
    assert (HC : Cons (create_array_of o (fun j : Z => v <~ rd_arr l j ;; cJSON_CreateNumber o (conv v)) false count)).
    { apply Cons_create_array_of. intros i. cons; auto with cons. }
    set (Q := fun (k : nat) (_ : heap) (d : rdata) => d = num_dk (conv <$> l) k 1%positive).
    set (mk := fun j : Z => v <~ rd_arr l j ;; cJSON_CreateNumber o (conv v)) in *.
    (* the elements before the first refusal are made *)
    assert (Hmk : forall h m, (m <= Z.to_nat count)%nat -> (forall k, (k < m)%nat -> o (Datatypes.S (h_req h) + k)%nat = false) ->
      forall k Hck leaves, (k < m)%nat -> length leaves = k -> Inv h (a_forest S) Q Hck leaves -> at_elem h 1 Hck k ->
      exists H', mk (Z.of_nat k) (act Hck leaves) = Ret (Some (h_next Hck), H') /\
        grows_leaf (act Hck leaves) H' (h_next Hck) (num_dk (conv <$> l) k (h_next Hck)) /\ Q k H' (num_dk (conv <$> l) k (h_next Hck)) /\
        h_next H' = (h_next Hck + 1)%positive /\ h_req H' = (h_req Hck + Pos.to_nat 1)%nat).
    { intros h m Hm Hom k Hck leaves Hk Hl I [Hpos Hrq]. destruct (lookup_lt_is_Some_2 l k ltac:(lia)) as [x Hx].
      exists (new_node (act Hck leaves) (rd_number (conv x))).
      assert (Hd : num_dk (conv <$> l) k (h_next Hck) = rd_number (conv x)) by (unfold num_dk; by rewrite list_lookup_fmap, Hx).
      rewrite Hd. split_and!.
      - unfold mk. rewrite (rd_arr_in_range l k x _ _ Hx). rewrite (run_CreateNumber_ok (conv x) (act Hck leaves)); [reflexivity|].
        change (h_req (act Hck leaves)) with (h_req Hck). rewrite Hrq. rewrite <- (Hom k Hk). f_equal. lia.
      - exact (grows_number (conv x) (act Hck leaves)).
      - unfold Q, num_dk. by rewrite list_lookup_fmap, Hx.
      - cbn. lia.
      - cbn. lia. }
    unfold spec_number_array_o. destruct (first_refusal o (req S) (Datatypes.S (Z.to_nat count))) as [j|] eqn:Efr; cbn [fst snd].
    - (* refused at request j *)
      apply first_refusal_Some in Efr as (Hj & Hoj & Hbefore). unfold refused_state.
      apply Step_clean; [done|]. intros h HA. pose proof HA as [((W & _) & _) K].
      destruct (Abs3_counters _ _ HA) as [Hnx Hrq]. rewrite <- Hnx, <- Hrq in *.
      destruct (decide (j = h_req h)) as [->|Hne].
      + exists (bump h). split; [by apply create_array_of_node_refused|]. split; [apply clean_failure_bump|].
        cbn. by rewrite Nat.sub_diag, pos_add_0.
      + set (m := (j - h_req h - 1)%nat).
        assert (Hom : forall k, (k < m)%nat -> o (Datatypes.S (h_req h) + k)%nat = false) by (intros k Hk; apply Hbefore; lia).
        destruct (bulk_array_of_fail o h _ W (hk_live _ K) Q ltac:(done) ltac:(done) mk (Z.to_nat count) 1%positive
                    (num_dk (conv <$> l)) m (Hmk h m ltac:(lia) Hom) count Hc eq_refl ltac:(apply Hbefore; lia) 0%nat 1%nat)
          as (h' & E & CF & Hn' & Hq'); [|lia|].
        { intros Hck leaves Hl I [Hpos Hq]. destruct (lookup_lt_is_Some_2 l m ltac:(lia)) as [x Hx].
          exists (bump (act Hck leaves)). split_and!.
          - unfold mk. rewrite (rd_arr_in_range l m x _ _ Hx). rewrite (run_CreateNumber_fail (conv x) (act Hck leaves)); [reflexivity|].
            change (h_req (act Hck leaves)) with (h_req Hck). rewrite Hq. rewrite <- Hoj. f_equal. lia.
          - apply clean_failure_bump.
          - cbn. lia.
          - cbn. lia. }
        exists h'. split; [exact E|]. split; [exact CF|]. unfold pos_add. split; lia.
    - (* every request is granted *)
      assert (Hall : forall k, (req S <= k < req S + Datatypes.S (Z.to_nat count))%nat -> o k = false)
        by (by apply first_refusal_None).
      apply Step_intro; [done|]. intros h HA. pose proof HA as [HA2 K].
      pose proof HA2 as ((W & NL & Hnext & Hreq) & Hs & [SI1 SI2] & KO).
      assert (Hom : forall k, (k < Z.to_nat count)%nat -> o (Datatypes.S (h_req h) + k)%nat = false).
      { intros k Hk. apply Hall. unfold req; rewrite <- Hreq; lia. }
      destruct (bulk_array_of_ok o h _ W (hk_live _ K) Q ltac:(done) ltac:(done) mk (Z.to_nat count) 1%positive (num_dk (conv <$> l))
                  (Z.to_nat count) (Hmk h (Z.to_nat count) (le_n _) Hom) count Hc eq_refl ltac:(apply Hall; unfold req; rewrite <- Hreq; lia) eq_refl)
        as (Hc' & E & I & LBc & NLc & Hnx & Hrq).
      cbn zeta in E, I, NLc. exists Hc'. unfold spec_number_array. cbn [fst snd]. unfold nxt, req. rewrite <- Hnext, <- Hreq.
      split; [exact E|].
      destruct (leaves_from_numbers (conv <$> l) (Z.to_nat count) (Pos.succ (h_next h)) 0) as [Hlv|Hbad];
        [|rewrite fmap_length in Hbad; lia].
      rewrite drop_0 in Hlv. rewrite Hlv in I, NLc.
      replace (h_next h + Pos.of_succ_nat (Z.to_nat count))%positive with (h_next Hc') by lia.
      replace (Datatypes.S (h_req h) + Z.to_nat count)%nat with (h_req Hc') by lia.
      pose proof (HC _ _ _ E K) as CP.
      apply (bulk_Abs2 h S Q); try done.
      + by apply NLc.
      + intros t Ht. by destruct (number_leaves_keyless _ _ _ Ht).
      + rewrite <- Hs. apply map_eq. intros b. destruct (Pos.ltb_spec b (h_next h)) as [Hb|Hb].
        * by destruct (ext_below _ _ _ (inv_ext _ _ _ _ _ I) b Hb).
        * destruct (h_str Hc' !! b) as [s|] eqn:Eb.
          -- destruct (bulk_new_str h _ Q Hc' _ b (hk_live _ K) (cp_ok _ _ CP) I Hb ltac:(eauto)) as (t & Ht & Hbt).
             destruct (number_leaves_keyless _ _ _ Ht) as [_ Hno]. rewrite Hno in Hbt. by apply elem_of_nil in Hbt.
          -- destruct (h_str h !! b) as [s|] eqn:Eb'; [|done].
             destruct (hk_str _ K b ltac:(eauto)) as [Hl _]. pose proof (hk_live _ K b Hl). lia.
  Qed.

  (** ** string arrays: two requests per element (the node, then the copy) *)
  Definition spec_string_array_o (S : astate2) (l : list ptr) (count : Z) : astate2 * ptr :=
    match first_refusal o (req S) (Datatypes.S (2 * Z.to_nat count)) with
    | None => spec_string_array S l count
    | Some j => (refused_state S j, None)
    end.

  Lemma Step_string_array_o S (l : list ptr) count :
    0 <= count -> (Z.to_nat count <= length l)%nat -> strings_ok S l count ->
    Step (cJSON_CreateStringArray o (Some l) count) S (spec_string_array_o S l count).1 (spec_string_array_o S l count).2.
  Proof.
    intros Hc Hlen Hok.
    set (n := Z.to_nat count). set (ss := cstr_of S <$> take n l).
    assert (Hssl : length ss = n) by (unfold ss; rewrite fmap_length, take_length; lia).
    set (mk := fun j : Z => x <~ rd_arr l j ;; cJSON_CreateString o x).
    change (cJSON_CreateStringArray o (Some l) count) with (create_array_of o mk false count).
    assert (HC : Cons (create_array_of o mk false count)) by (apply (Cons_cJSON_CreateStringArray o (Some l) count)).
    (* per start heap: the leaf specification and the elements before the first refusal *)
    set (QQ := fun (h : heap) (k : nat) (H : heap) (d : rdata) =>
                exists (sb : positive) (s : bytes), ss !! k = Some s /\ d = rd_string c_cJSON_String sb /\
                  Zpos sb = Zpos (h_next h) + 2 + 2 * Z.of_nat k /\ (sb < h_next H)%positive /\ h_str H !! sb = Some (s ++ [0])).
    assert (Hpieces : forall h, Abs3 h S ->
      let Q := QQ h in
      (forall k H d L D, Q k H d -> Q k (upd_maps H L D) d) /\
      (forall k H H' N d, Q k H d -> Ext H H' N -> Q k H' d) /\
      (forall m, (m <= n)%nat -> (forall k, (k < 2 * m)%nat -> o (Datatypes.S (h_req h) + k)%nat = false) ->
       forall k Hck leaves, (k < m)%nat -> length leaves = k -> Inv h (a_forest S) Q Hck leaves -> at_elem h 2 Hck k ->
       exists H', mk (Z.of_nat k) (act Hck leaves) = Ret (Some (h_next Hck), H') /\
         grows_leaf (act Hck leaves) H' (h_next Hck) (str_dk k (h_next Hck)) /\ Q k H' (str_dk k (h_next Hck)) /\
         h_next H' = (h_next Hck + 2)%positive /\ h_req H' = (h_req Hck + Pos.to_nat 2)%nat)).
    { intros h HA Q. pose proof HA as [HA2 K]. split; [by intros k H d L D HQ|]. split.
      { intros k H H' N d (sb & s & H1 & H2 & H3 & H4 & H5) E. exists sb, s. split_and!; try done.
        - pose proof (ext_next _ _ _ E). lia.
        - destruct (ext_below _ _ _ E sb H4) as [E1 _]. etransitivity; [exact E1|exact H5]. }
      intros m Hm Hom k Hck leaves Hk Hl I [Hpos Hrq]. destruct (lookup_lt_is_Some_2 l k ltac:(lia)) as [q Hq].
      destruct (name_ok_Readable h S q HA (Hok k q ltac:(lia) Hq)) as (sb & s0 & -> & HR & Hs1 & Hs2 & Hz & Hat & Hlt).
      pose proof (Readable_act h _ (hk_live _ K) Q _ _ sb I HR) as HRa.
      assert (Hata : str_at (act Hck leaves) sb = cstr s0).
      { rewrite (str_at_act h _ (hk_live _ K) Q _ _ sb I); [done|]. by destruct HR. }
      exists (new_string (act Hck leaves) c_cJSON_String (cstr s0 ++ [0])). split_and!.
      - unfold mk. rewrite (rd_arr_in_range l k (Some sb) _ _ Hq). rewrite <- Hata. unfold cJSON_CreateString.
        rewrite (csl_run_ok o c_cJSON_String (act Hck leaves) sb HRa); [reflexivity| |].
        + change (h_req (act Hck leaves)) with (h_req Hck). rewrite Hrq. rewrite <- (Hom (2 * k)%nat ltac:(lia)). f_equal; lia.
        + change (h_req (act Hck leaves)) with (h_req Hck). rewrite Hrq. rewrite <- (Hom (2 * k + 1)%nat ltac:(lia)). f_equal; lia.
      - exact (grows_string (act Hck leaves) _).
      - exists (Pos.succ (h_next Hck)), (cstr s0). split_and!.
        + unfold ss. rewrite list_lookup_fmap, lookup_take by (unfold n in *; lia). rewrite Hq. cbn. by rewrite Hs1.
        + done.
        + lia.
        + cbn. lia.
        + cbn. by rewrite lookup_insert.
      - cbn. lia.
      - cbn. lia. }
    unfold spec_string_array_o. fold n.
    destruct (first_refusal o (req S) (Datatypes.S (2 * n))) as [j|] eqn:Efr; cbn [fst snd].
    - (* refused at request j *)
      apply first_refusal_Some in Efr as (Hj & Hoj & Hbefore). unfold refused_state.
      apply Step_clean; [done|]. intros h HA. pose proof HA as [((W & _) & _) K].
      destruct (Abs3_counters _ _ HA) as [Hnx Hrq]. rewrite <- Hnx, <- Hrq in *.
      destruct (Hpieces h HA) as (Q_upd & Q_ext & Hmk). cbn zeta in Q_upd, Q_ext, Hmk. set (Q := QQ h) in *.
      destruct (decide (j = h_req h)) as [->|Hne].
      + exists (bump h). split; [by apply create_array_of_node_refused|]. split; [apply clean_failure_bump|].
        cbn. by rewrite Nat.sub_diag, pos_add_0.
      + set (m := ((j - h_req h - 1) / 2)%nat). set (i := ((j - h_req h - 1) mod 2)%nat).
        assert (Hdm : (j - h_req h - 1 = 2 * m + i)%nat /\ (i < 2)%nat).
        { unfold m, i. split; [apply Nat.div_mod; lia|apply Nat.mod_upper_bound; lia]. }
        destruct Hdm as [Hdm Hi].
        assert (Hom : forall k, (k < 2 * m)%nat -> o (Datatypes.S (h_req h) + k)%nat = false) by (intros k Hk; apply Hbefore; lia).
        assert (Hmn : (m < n)%nat) by lia.
        destruct (bulk_array_of_fail o h _ W (hk_live _ K) Q Q_upd Q_ext mk n 2%positive
                    str_dk m (Hmk m ltac:(lia) Hom) count Hc eq_refl ltac:(apply Hbefore; lia) i (Datatypes.S i))
          as (h' & E & CF & Hn' & Hq'); [|done|].
        { intros Hck leaves Hl I [Hpos Hq]. destruct (lookup_lt_is_Some_2 l m ltac:(unfold n in *; lia)) as [q Hql].
          destruct (name_ok_Readable h S q HA (Hok m q ltac:(unfold n in *; lia) Hql)) as (sb & s0 & -> & HR & _).
          pose proof (Readable_act h _ (hk_live _ K) Q _ _ sb I HR) as HRa.
          unfold mk. rewrite (rd_arr_in_range l m (Some sb) _ _ Hql). unfold cJSON_CreateString.
          destruct i as [|[|i]]; [| |lia].
          - (* the node of element m *)
            exists (bump (act Hck leaves)). split_and!.
            + apply csl_run_fail1. change (h_req (act Hck leaves)) with (h_req Hck). rewrite Hq. rewrite <- Hoj. f_equal; lia.
            + apply clean_failure_bump.
            + cbn. lia.
            + cbn. lia.
          - (* the copy of element m: the node is released again *)
            destruct (csl_run_fail2 o c_cJSON_String (act Hck leaves) sb
                        (maps_below_act h _ _ _ _ I) (live_below_act h _ (hk_live _ K) _ _ _ I) HRa) as [E CF].
            { change (h_req (act Hck leaves)) with (h_req Hck). rewrite Hq. rewrite <- (Hbefore (j - 1)%nat ltac:(lia)). f_equal; lia. }
            { change (h_req (act Hck leaves)) with (h_req Hck). rewrite Hq. rewrite <- Hoj. f_equal; lia. }
            eexists. split; [exact E|]. split; [exact CF|]. cbn. split; lia. }
        exists h'. split; [exact E|]. split; [exact CF|]. unfold pos_add. split; lia.
    - (* every request is granted *)
      assert (Hall : forall k, (req S <= k < req S + Datatypes.S (2 * n))%nat -> o k = false) by (by apply first_refusal_None).
      apply Step_intro; [done|]. intros h HA. pose proof HA as [HA2 K].
      pose proof HA2 as ((W & NL & Hnext & Hreq) & Hs & [SI1 SI2] & KO).
      destruct (Hpieces h HA) as (Q_upd & Q_ext & Hmk). cbn zeta in Q_upd, Q_ext, Hmk. set (Q := QQ h) in *.
      assert (Hom : forall k, (k < 2 * n)%nat -> o (Datatypes.S (h_req h) + k)%nat = false).
      { intros k Hk. apply Hall. unfold req. rewrite <- Hreq. lia. }
      destruct (bulk_array_of_ok o h _ W (hk_live _ K) Q Q_upd Q_ext mk n 2%positive str_dk n (Hmk n (le_n _) Hom)
                  count Hc eq_refl ltac:(apply Hall; unfold req; rewrite <- Hreq; lia) eq_refl)
        as (Hc' & E & I & LBc & NLc & Hnx & Hrq).
      cbn zeta in E, I, NLc. rewrite <- Hssl in I, NLc. rewrite leaves_from_strings in I, NLc.
      exists Hc'. unfold spec_string_array. cbn [fst snd]. fold n. fold ss. unfold nxt, req. rewrite <- Hnext, <- Hreq.
      split; [exact E|].
      replace (h_next h + Pos.of_succ_nat (2 * n))%positive with (h_next Hc') by lia.
      replace (Datatypes.S (h_req h) + 2 * n)%nat with (h_req Hc') by lia.
      pose proof (HC _ _ _ E K) as CP.
      apply (bulk_Abs2 h S Q); try done.
      + by apply NLc.
      + intros t Ht. by apply (string_leaves_keyless _ _ _ Ht).
      + apply map_eq. intros b. rewrite add_strings_lookup.
        destruct (str_new (Pos.succ (h_next h)) ss b) as [v|] eqn:En.
        * destruct (str_new_Some _ _ _ _ En) as (k & s & Hk & Hb & ->).
          destruct (lookup_lt_is_Some_2 (string_leaves (Pos.succ (h_next h)) ss) k) as [t Ht].
          { rewrite string_leaves_length. by apply lookup_lt_Some in Hk. }
          destruct (inv_q _ _ _ _ _ I k t Ht) as (x & d & -> & sb & s' & H1 & H2 & H3 & H4 & H5).
          assert (sb = b) by lia. subst sb. pose proof (eq_trans (eq_sym H1) Hk) as Hss. injection Hss as ->. exact H5.
        * destruct (Pos.ltb_spec b (h_next h)) as [Hb|Hb].
          -- rewrite <- Hs. by destruct (ext_below _ _ _ (inv_ext _ _ _ _ _ I) b Hb).
          -- destruct (h_str Hc' !! b) as [s|] eqn:Eb.
             ++ destruct (bulk_new_str h _ Q Hc' _ b (hk_live _ K) (cp_ok _ _ CP) I Hb ltac:(eauto)) as (t & Ht & Hbt).
                apply elem_of_list_lookup in Ht as [k Hk].
                destruct (string_leaves_lookup _ _ _ _ Hk) as (xk & s' & -> & Hx & Hsk). cbn in Hbt.
                apply elem_of_list_singleton in Hbt as ->.
                rewrite (str_new_at ss _ k s' (Pos.succ xk) Hsk) in En; [done|lia].
             ++ destruct (a_str S !! b) as [s|] eqn:Eb'; [|done]. destruct (SI1 _ _ Eb'). lia.
      + intros b Hb. rewrite add_strings_lookup.
        destruct (str_new (Pos.succ (h_next h)) ss b) as [v|] eqn:En; [|done].
        destruct (str_new_Some _ _ _ _ En) as (k & s & _ & Hbk & _). lia.
  Qed.
End ArraySteps.
