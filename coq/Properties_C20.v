(** Properties_C20.v — property C20: independent trees can be used from different threads
    concurrently.  Only statements closed by [exact] / [reflexivity] on generated facts.

    PARTIAL, by the nature of the property: the theorems interleave WHOLE library calls.  That
    instruction-level interleavings add nothing when no two threads touch a common memory
    location is the data-race-freedom guarantee of C11, which is not formalised here; the
    absence of common locations is carried by the generated source facts below (re-derived from
    /repo's sources on every run) and observed on the implementation by the ThreadSanitizer run
    of the check. *)
From CJ Require Import Base Dbl Tree ParseDefs Threads ThreadsInst SourceChecks.
From CJ.gen Require Import SourceFacts.

(** for every number of threads, every list of calls per thread on thread-private data, every
    schedule and every initial value of the shared error position: at every moment each thread
    is in exactly the state (results so far, private trees, remaining calls) of its run alone *)
Theorem C20_noninterference_partial : forall sched (ts : list lib_thread) g ts' g',
  run _ _ _ _ lib_step sched (ts, g) = (ts', g') ->
  length ts' = length ts /\
  forall i t, nth_error ts i = Some t ->
    exists k t', nth_error ts' i = Some t' /\ forall g0, t' = fst (alone _ _ _ _ lib_step k t g0).
Proof. exact library_interleaving_invisible. Qed.
Print Assumptions C20_noninterference_partial.

(** a thread that has made all its calls has obtained exactly the results of running alone *)
Theorem C20_finished_as_alone_partial : forall sched (ts : list lib_thread) g ts' g' i t t',
  run _ _ _ _ lib_step sched (ts, g) = (ts', g') -> nth_error ts i = Some t -> nth_error ts' i = Some t' ->
  todo _ _ _ t' = [] -> forall g0, t' = fst (alone _ _ _ _ lib_step (length (todo _ _ _ t)) t g0).
Proof. exact library_finished_as_alone. Qed.
Print Assumptions C20_finished_as_alone_partial.

(** the generic theorem behind both: any call semantics with the footprint property *)
Theorem C20_generic : forall (P G C R : Type) (step : C -> P -> G -> R * P * G),
  (forall c p g g', res_of P G R (step c p g) = res_of P G R (step c p g') /\
                    priv_of P G R (step c p g) = priv_of P G R (step c p g')) ->
  forall sched ts g ts' g', run P G C R step sched (ts, g) = (ts', g') ->
  length ts' = length ts /\
  forall i t, nth_error ts i = Some t ->
    exists k t', nth_error ts' i = Some t' /\ forall g0, t' = fst (alone P G C R step k t g0).
Proof. exact interleaving_invisible. Qed.
Print Assumptions C20_generic.

(** SOURCE FACTS (regenerated from /repo on every run; see SourceChecks.v for the expectations):
    the only written objects with static storage duration are the documented globals ... *)
Theorem C20_statics : statics_ok = true.
Proof. reflexivity. Qed.
Print Assumptions C20_statics.
(** ... each written only by its documented writer (parser entry / InitHooks / cJSON_Version) ... *)
Theorem C20_writers : writers_ok = true.
Proof. reflexivity. Qed.
Print Assumptions C20_writers.
(** ... the global error position is read by cJSON_GetErrorPtr only, which no library function
    calls: it flows into no result of any other call ... *)
Theorem C20_error_position_isolated : error_readers_ok = true /\ error_ptr_unused = true.
Proof. split; reflexivity. Qed.
Print Assumptions C20_error_position_isolated.
(** ... and the C library functions used are thread-safe ones (locale unchanged) *)
Theorem C20_externals : externals_ok = true.
Proof. reflexivity. Qed.
Print Assumptions C20_externals.

(** non-vacuity: an interleaved two-thread run with a failing parse that changes the shared
    error position under the other thread's feet *)
Theorem C20_nonvacuous :
  let '(ts', g') := run _ _ _ _ lib_step ex_sched ([ex_t1; ex_t2], None) in
  nth_error ts' 0 = Some (fst (alone _ _ _ _ lib_step 7 ex_t1 None)) /\
  nth_error ts' 1 = Some (fst (alone _ _ _ _ lib_step 6 ex_t2 (Some 7%nat))) /\
  snd (alone _ _ _ _ lib_step 1 ex_t1 None) = Some 2%nat /\ g' = None.
Proof. exact ex_interleaved. Qed.
Print Assumptions C20_nonvacuous.
