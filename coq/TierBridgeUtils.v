(** TierBridgeUtils.v — Tier A for the two functions of cJSON_Utils.c that do their own pointer surgery
    (deviation D1): on a well-formed heap, [detach_item_from_array] (TierBridgeUtilsDefs.v) computes exactly
    what [cJSON_DetachItemFromArray] computes, and [insert_item_in_array] computes exactly what
    [cJSON_InsertItemInArray] computes for an index within 0..length, and refuses (heap untouched) past the
    end.  With the C06 simulation lemmas of the core functions this gives their refinement of the forest
    model ([u_detach_sim], [u_insert_sim_before], [u_insert_sim_append], [u_insert_refused]) — the part of
    the Tier-B presupposition that C06 itself does not cover. *)
From CJ Require Import Base Dbl Heap Forest ForestLemmas CoreSpec CoreDefs CoreRefineBase CoreRefine CoreRefineMore.
From CJ Require Import TierBridgeUtilsDefs.
From stdpp Require Import gmap.
From Coq Require Import Lia.
Local Open Scope Z_scope.

(** the two stores of [c->prev = c->next = NULL] commute *)
Lemma stores_commute (c v w : ptr) g :
  (set_prev c v ;;; set_next c w) g = (set_next c w ;;; set_prev c v) g.
Proof.
  destruct c as [id|]; [|reflexivity].
  unfold set_prev, set_next, ld_lnk, st_lnk, bindM, chk.
  destruct (decide (id ∈ h_live g)) as [Hl|Hl]; [|reflexivity].
  destruct (h_lnk g !! id) as [[n pv]|] eqn:E; [|reflexivity].
  cbn. destruct (decide (id ∈ h_live g)) as [_|]; [|contradiction]. rewrite E. cbn.
  destruct (decide (id ∈ h_live g)) as [_|]; [|contradiction]. cbn. rewrite !lookup_insert. cbn.
  destruct (decide (id ∈ h_live g)) as [_|]; [|contradiction]. cbn. rewrite !lookup_insert. cbn.
  by rewrite !insert_insert.
Qed.

Section Container.
  Context (h : heap) (F : forest) (p : positive) (d : rdata) (ks : list positive).
  Hypothesis W : WF h F.
  Hypothesis Hn : (p, d, ks) ∈ flat F.
  Hypothesis Href : is_ref d = false.

  Lemma live_p : p ∈ h_live h.
  Proof. apply (WF_ids_live _ _ _ W). rewrite ids_flat. apply elem_of_list_fmap. by exists (p, d, ks). Qed.
  Lemma live_child (k : nat) c : ks !! k = Some c -> c ∈ h_live h.
  Proof. intros Hk. apply (WF_ids_live _ _ _ W). eapply cids_in_ids; [done|]. by eapply elem_of_list_lookup_2. Qed.

  Lemma read_child : get_child (Some p) h = Ret (ks !! 0%nat, h).
  Proof.
    rewrite (run_get_child_plain h p (mk_dat d ks) live_p (WF_lookup_dat _ _ _ _ _ W Hn)).
    change (nd_child (mk_dat d ks)) with (child_of d ks).
    by rewrite (ref_ok_child_of _ _ _ _ (wf_ref _ _ W) Hn Href).
  Qed.
  Lemma read_prev (k : nat) c : ks !! k = Some c -> get_prev (Some c) h = Ret ((link_at ks k).2, h).
  Proof. intros Hk. apply run_get_prev_plain; [by eapply live_child|by eapply WF_lookup_lnk_child]. Qed.

  (** the walk of both Utils functions: where it stops and what is left of the index *)
  Lemma u_walk_sim (fuel k : nat) index :
    (length ks - k < fuel)%nat -> 0 <= index ->
    u_walk fuel (ks !! k) index h =
    Ret ((ks !! (k + Z.to_nat index)%nat, Z.max 0 (index - Z.of_nat (length ks - k))), h).
  Proof.
    revert k index. induction fuel as [|fuel IH]; intros k index Hf Hi; [lia|].
    cbn [u_walk]. destruct (ks !! k) as [c|] eqn:Hk; cbn [is_null negb andb].
    - destruct (Z.ltb_spec 0 index) as [Hlt|Hge].
      + rewrite (bindM_Ret _ _ _ _ _ (chain_get_next _ _ _ _ _ _ _ W Hn Hk)).
        apply lookup_lt_Some in Hk. rewrite IH by lia. do 3 f_equal; [f_equal; lia|lia].
      + assert (index = 0) as -> by lia. unfold ret. rewrite Nat.add_0_r, Hk. do 3 f_equal. lia.
    - apply lookup_ge_None in Hk. unfold ret. do 3 f_equal; [|lia]. symmetry. apply lookup_ge_None. lia.
  Qed.

  Lemma run_walk {B} (K : ptr * Z -> M B) which : 0 <= which ->
    (c0 <~ get_child (Some p) ;; fuel <~ heap_fuel ;; cw <~ u_walk fuel c0 which ;; K cw) h =
    K (ks !! Z.to_nat which, Z.max 0 (which - Z.of_nat (length ks))) h.
  Proof.
    intros Hw. rewrite (bindM_Ret _ _ _ _ _ read_child). unfold heap_fuel. unfold bindM at 1.
    rewrite (bindM_Ret _ _ _ _ _ (u_walk_sim (Pos.to_nat (h_next h)) 0 which ltac:(pose proof (chain_fuel _ _ _ _ _ W Hn); lia) Hw)).
    by rewrite Nat.sub_0_r.
  Qed.
End Container.

(** * detach_item_from_array *)
Theorem u_detach_eq_core h F p d cs which :
  WF h F -> find_tree p F = Some (T p d cs) -> is_ref d = false -> 0 <= which ->
  detach_item_from_array (Some p) which h = cJSON_DetachItemFromArray (Some p) which h.
Proof.
  intros W Hp Href Hw. pose proof (find_tree_flat _ _ _ _ Hp) as Hn. set (ks := tid <$> cs) in *.
  unfold detach_item_from_array. rewrite (run_walk h F p d ks W Hn Href _ which Hw). cbn [fst].
  unfold cJSON_DetachItemFromArray. destruct (Z.ltb_spec which 0); [lia|].
  rewrite (bindM_Ret _ _ _ _ _ (get_array_item_sim h F p d cs which W Hp Href Hw)).
  unfold spec_get_index, children_of. rewrite Hp. cbn [fmap option_fmap option_map tchildren]. fold ks.
  destruct (ks !! Z.to_nat which) as [x|] eqn:Hk; [|reflexivity].
  cbn [is_null]. unfold cJSON_DetachItemViaPointer. cbn [is_null orb].
  pose proof (read_child h F p d ks W Hn Href) as Hrc.
  rewrite (bindM_Ret _ _ _ _ _ Hrc).            (* left: [ac <~ get_child array] of the Utils function *)
  rewrite (bindM_Ret _ _ _ _ _ Hrc).            (* right: the read of the refusal test of the core function *)
  destruct (Z.to_nat which) as [|k'] eqn:Ek.
  - rewrite Hk, ptr_eqb_refl. cbn [negb]. rewrite bindM_ret. cbv beta iota.
    rewrite (bindM_Ret _ _ _ _ _ Hrc). by rewrite Hk, ptr_eqb_refl.
  - destruct (ks !! 0%nat) as [c0|] eqn:Hc0; [|apply lookup_ge_None in Hc0; apply lookup_lt_Some in Hk; lia].
    destruct (ks !! k') as [pv|] eqn:Hpv; [|apply lookup_ge_None in Hpv; apply lookup_lt_Some in Hk; lia].
    assert (NDks : NoDup ks).
    { apply elem_of_Permutation in Hn as [FL HFL].
      destruct (heap_lnk_of_focus _ _ _ _ _ _ (wf_nodup _ _ W) (reflexivity _) HFL) as [_ HN]. by apply NoDup_app in HN as [? _]. }
    assert (c0 <> x) by (eapply (NoDup_lookup_ne ks 0 (S k')); eauto).
    rewrite (ptr_eqb_Some_ne x c0) by done. cbn [negb].
    symmetry. rewrite bindM_assoc.
    rewrite (bindM_Ret _ _ _ _ _ (read_prev h F p d ks W Hn (S k') x Hk)). rewrite link_at_S. cbn [snd]. rewrite Hpv.
    rewrite !bindM_ret. cbn [is_null]. cbv beta iota.
    rewrite (bindM_Ret _ _ _ _ _ Hrc). by rewrite (ptr_eqb_Some_ne x c0).
Qed.

(** Utils' [detach_item_from_array] refines the forest model of cJSON_DetachItemFromArray … *)
Theorem u_detach_sim h F p d cs which tx :
  WF h F -> find_tree p F = Some (T p d cs) -> is_ref d = false -> 0 <= which ->
  cs !! Z.to_nat which = Some tx ->
  let F' := set_children p (delete (Z.to_nat which) cs) F ++ [tx] in
  spec_detach_index F (Some p) which = (F', Some (tid tx)) /\
  detach_item_from_array (Some p) which h = Ret (Some (tid tx), upd_maps h (heap_lnk_of F') (heap_dat_of F')) /\
  WF (upd_maps h (heap_lnk_of F') (heap_dat_of F')) F'.
Proof.
  intros W Hp Href Hw Hk F'. rewrite (u_detach_eq_core h F p d cs which W Hp Href Hw).
  by apply (cJSON_DetachItemFromArray_sim h F p d cs which tx).
Qed.
(** … and leaves the heap alone when there is no such element *)
Theorem u_detach_refused h F p d cs which :
  WF h F -> find_tree p F = Some (T p d cs) -> is_ref d = false -> 0 <= which ->
  cs !! Z.to_nat which = None ->
  spec_detach_index F (Some p) which = (F, None) /\ detach_item_from_array (Some p) which h = Ret (None, h).
Proof.
  intros W Hp Href Hw Hk. pose proof (find_tree_flat _ _ _ _ Hp) as Hn.
  assert (Hidx : spec_get_index F (Some p) which = None).
  { unfold spec_get_index, children_of. rewrite Hp. cbn. by rewrite list_lookup_fmap, Hk. }
  split.
  - unfold spec_detach_index. destruct (Z.ltb_spec which 0); [done|]. by rewrite Hidx.
  - unfold detach_item_from_array. rewrite (run_walk h F p d _ W Hn Href _ which Hw). cbn [fst].
    by rewrite list_lookup_fmap, Hk.
Qed.

(** * insert_item_in_array *)
Section Insert.
  Context (h : heap) (F : forest) (p x : positive) (tx : tree) (d : rdata) (cs : list tree).
  Hypothesis W : WF h F.
  Hypothesis Hpx : p <> x.
  Hypothesis Hx : find_root x F = Some tx.
  Hypothesis Hp : find_tree p (remove_root x F) = Some (T p d cs).
  Hypothesis Href : is_ref d = false.
  Notation ks := (tid <$> cs).

  Lemma HpF : find_tree p F = Some (T p d cs).
  Proof. exact (find_tree_remove_root _ _ _ _ _ (wf_nodup _ _ W) Hx Hp). Qed.
  Lemma HnF : (p, d, ks) ∈ flat F.
  Proof. apply find_tree_flat, HpF. Qed.

  Theorem u_insert_eq_core which : 0 <= which <= Z.of_nat (length cs) ->
    insert_item_in_array (Some p) which (Some x) h = cJSON_InsertItemInArray (Some p) which (Some x) h.
  Proof.
    intros Hw. unfold insert_item_in_array. rewrite (run_walk h F p d ks W HnF Href _ which ltac:(lia)). cbn [fst snd].
    rewrite fmap_length. replace (Z.max 0 (which - Z.of_nat (length cs))) with 0 by lia.
    destruct (Z.ltb_spec 0 0) as [|_]; [lia|].
    unfold cJSON_InsertItemInArray. destruct (Z.ltb_spec which 0); [lia|]. cbn [orb is_null].
    rewrite (ptr_eqb_Some_ne _ _ Hpx).
    rewrite (bindM_Ret _ _ _ _ _ (get_array_item_sim h F p d cs which W HpF Href ltac:(lia))).
    unfold spec_get_index, children_of. rewrite HpF. cbn [fmap option_fmap option_map tchildren].
    destruct (ks !! Z.to_nat which) as [a|] eqn:Ha; cbn [is_null].
    - (* insert before [a] *)
      pose proof (read_child h F p d ks W HnF Href) as Hrc.
      rewrite (bindM_Ret _ _ _ _ _ Hrc).            (* right: the read of the corruption test of the core function *)
      destruct (Z.to_nat which) as [|k'] eqn:Ek.
      + rewrite Ha, ptr_eqb_refl. cbn [negb]. by rewrite bindM_ret.
      + destruct (ks !! 0%nat) as [c0|] eqn:Hc0; [|apply lookup_ge_None in Hc0; apply lookup_lt_Some in Ha; lia].
        destruct (ks !! k') as [pv|] eqn:Hpv; [|apply lookup_ge_None in Hpv; apply lookup_lt_Some in Ha; lia].
        assert (NDks : NoDup ks).
        { pose proof HnF as Hn. apply elem_of_Permutation in Hn as [FL HFL].
          destruct (heap_lnk_of_focus _ _ _ _ _ _ (wf_nodup _ _ W) (reflexivity _) HFL) as [_ HN]. by apply NoDup_app in HN as [? _]. }
        assert (c0 <> a) by (eapply (NoDup_lookup_ne ks 0 (S k')); eauto).
        rewrite (ptr_eqb_Some_ne a c0) by done. cbn [negb]. symmetry. rewrite bindM_assoc.
        rewrite (bindM_Ret _ _ _ _ _ (read_prev h F p d ks W HnF (S k') a Ha)). rewrite link_at_S. cbn [snd]. rewrite Hpv.
        by rewrite !bindM_ret.
    - (* at the end: cJSON_AddItemToArray; the Utils function ignores its result and returns 1 *)
      destruct (add_item_to_array_sim h F p x tx d cs W Hpx Hx Hp Href) as (_ & S2 & _).
      unfold cJSON_AddItemToArray. by rewrite (bindM_Ret _ _ _ _ _ S2), S2.
  Qed.

  (** Utils' [insert_item_in_array] refines the forest model of cJSON_InsertItemInArray within the array … *)
  Theorem u_insert_sim_before which : 0 <= which -> (Z.to_nat which < length cs)%nat ->
    let F' := set_children p (insert_at (Z.to_nat which) tx cs) (remove_root x F) in
    spec_insert F (Some p) which (Some x) = (F', true) /\
    insert_item_in_array (Some p) which (Some x) h = Ret (true, upd_maps h (heap_lnk_of F') (heap_dat_of F')) /\
    WF (upd_maps h (heap_lnk_of F') (heap_dat_of F')) F'.
  Proof.
    intros Hw Hl F'. rewrite (u_insert_eq_core which ltac:(lia)). by apply (cJSON_InsertItemInArray_sim_before h F p x tx d cs which).
  Qed.
  (** … and exactly at the end (append) … *)
  Theorem u_insert_sim_append which : which = Z.of_nat (length cs) ->
    let F' := set_children p (cs ++ [tx]) (remove_root x F) in
    spec_insert F (Some p) which (Some x) = (F', true) /\
    insert_item_in_array (Some p) which (Some x) h = Ret (true, upd_maps h (heap_lnk_of F') (heap_dat_of F')) /\
    WF (upd_maps h (heap_lnk_of F') (heap_dat_of F')) F'.
  Proof.
    intros Hw F'. rewrite (u_insert_eq_core which ltac:(lia)). apply (cJSON_InsertItemInArray_sim_append h F p x tx d cs which); try done; lia.
  Qed.
  (** … and past the end it REFUSES and touches nothing, where cJSON_InsertItemInArray appends
      (Properties_C06.C06_insert_past_the_end) *)
  Theorem u_insert_refused which : Z.of_nat (length cs) < which ->
    insert_item_in_array (Some p) which (Some x) h = Ret (false, h) /\
    (spec_insert F (Some p) which (Some x)).2 = true.
  Proof.
    intros Hw. split.
    - unfold insert_item_in_array. rewrite (run_walk h F p d ks W HnF Href _ which ltac:(lia)). cbn [fst snd].
      rewrite fmap_length. destruct (Z.ltb_spec 0 (Z.max 0 (which - Z.of_nat (length cs)))); [done|lia].
    - by rewrite (proj1 (cJSON_InsertItemInArray_sim_append h F p x tx d cs which W Hpx Hx Hp Href ltac:(lia) ltac:(lia))).
  Qed.
End Insert.
