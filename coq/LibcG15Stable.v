(** LibcG15Stable.v — clause N4 of [RoundTripNum.LibcRoundTripSpec] PROVED for the reference
    implementations ([LibcPrint.fmt_g15], [LibcNum.strtod_ref]), for EVERY finite well-formed
    double, subnormal ones included:

      [ref_g15_stable]  is_finite d -> dbl_ok d -> strtod_ref (fmt_g15 d) = Some (t, k) ->
                        is_finite t -> fmt_g15 t = fmt_g15 d.

    Proof.  Let w = D * 10^(X'-14) be the 15-digit decimal printed for |d| (D, X' from
    [g_round]); strtod reads exactly w ([LibcG15Text.g_text_read]) and returns t = RN(w), the
    double nearest to w ([LibcG15Real.dec_exact_round]).  Since d is itself a double, t is at
    least as close to w as d is ([rnd_nearest]):  |t - w| <= |d - w| <= 10^(X'-14) / 2.  For
    D > 10^14 this keeps t inside the decade of w and inside the closed rounding interval of D —
    and when t sits on its boundary so does d, hence D is even and the tie goes to D
    ([g_round_unique]).  No comparison of the binary with the decimal grid is needed, which is
    why subnormal doubles need no separate treatment.  For D = 10^14 (w a power of ten, where
    the rounding interval is not symmetric) the 633 possible texts "1e-323" … "1e+309" are
    checked by computation ([pow10_table]).  Negative doubles are reduced to positive ones.

    Uses Flocq, hence the standard axioms of Coq's Reals library. *)
From Coq Require Import ZArith Reals List Bool Lia Lra Floats.SpecFloat.
From Flocq Require Import Core.Core IEEE754.BinarySingleNaN.
From CJ Require Import Base Dbl Tree LibcNum LibcPrint Grammar ParseDefs ParseComplete PrintDefs
  RoundTripNum RoundTripFlocq RoundTripZero RoundTripRefValid
  LibcG15Scale LibcG15Int LibcG15Text LibcG15Real.
Import ListNotations.
Local Open Scope Z_scope.

(** * the fraction of a well-formed double *)
Lemma bounded_emax m e : SpecFloat.bounded P E m e = true -> e <= 971.
Proof.
  unfold SpecFloat.bounded. intro H. apply andb_true_iff in H as [_ H].
  apply Z.leb_le in H. exact H.
Qed.

Lemma bounded_frac m e : SpecFloat.bounded P E m e = true ->
  0 < g_num m e < 2 ^ 1024 /\ 0 < g_den e <= 2 ^ 1074 /\
  -1200 <= Z.log2 (g_num m e) - Z.log2 (g_den e) <= 1200.
Proof.
  intro Hb. pose proof (bounded_mantissa m e Hb) as Hm. pose proof (bounded_emin m e Hb) as Hlo.
  pose proof (bounded_emax m e Hb) as Hhi.
  assert (Lm : 0 <= Z.log2 (Zpos m) < 53).
  { split; [apply Z.log2_nonneg|apply Z.log2_lt_pow2; lia]. }
  unfold g_num, g_den. destruct (Z.leb_spec 0 e) as [He|He].
  - assert (P2 : 0 < 2 ^ e) by (apply Z.pow_pos_nonneg; lia).
    split; [split; [nia|]|].
    + apply Z.lt_le_trans with (2 ^ 53 * 2 ^ e); [nia|].
      rewrite <- Z.pow_add_r by lia. apply Z.pow_le_mono_r; lia.
    + split; [split; [lia|]|].
      * apply (Z.pow_le_mono_r 2 0 1074); lia.
      * rewrite Z.log2_mul_pow2 by lia. change (Z.log2 1) with 0. lia.
  - split; [split; [lia|]|].
    + eapply Z.lt_trans; [exact Hm|]. apply Z.pow_lt_mono_r; lia.
    + split; [split; [apply Z.pow_pos_nonneg; lia|apply Z.pow_le_mono_r; lia]|].
      rewrite Z.log2_pow2 by lia. lia.
Qed.

(** * the range of the decimal exponent *)
Lemma c_2_1024 : 2 ^ 1024 < 10 ^ 309. Proof. vm_compute. reflexivity. Qed.
Lemma c_2_1074 : 10 * 2 ^ 1074 < 10 ^ 325. Proof. vm_compute. reflexivity. Qed.
Lemma c_2_1075 : 2 * 2 ^ 1074 < 10 ^ 324. Proof. vm_compute. reflexivity. Qed.

Lemma scaled_X_range num den nS dS X : 0 < num < 2 ^ 1024 -> 0 < den <= 2 ^ 1074 ->
  scaled num den nS dS X -> -324 <= X <= 308.
Proof.
  intros Hn Hd (PdS & Hr & Hf). unfold frac_eq in Hf. split.
  - destruct (Z_le_gt_dec (-324) X) as [H|H]; [exact H|exfalso].
    destruct (p10d_neg X ltac:(lia)) as [En Ed]. rewrite En, Ed, Z.mul_1_r in Hf.
    pose proof (Z.pow_le_mono_r 10 325 (- X) ltac:(lia) ltac:(lia)) as Hp.
    pose proof c_2_1074 as C. set (A := 10 ^ 325) in *. set (B := 2 ^ 1074) in *. set (T := 10 ^ (- X)) in *.
    assert (H1 : dS * A <= num * dS * T).
    { replace (num * dS * T) with (dS * (num * T)) by ring. apply Z.mul_le_mono_nonneg_l; [lia|]. nia. }
    assert (H2 : nS * den <= 10 * dS * B).
    { apply Z.le_trans with (10 * dS * den); [apply Z.mul_le_mono_nonneg_r; lia|].
      apply Z.mul_le_mono_nonneg_l; lia. }
    assert (H3 : dS * A < dS * (10 * B)) by (apply Z.mul_lt_mono_pos_l; lia).
    lia.
  - destruct (Z_le_gt_dec X 308) as [H|H]; [exact H|exfalso].
    destruct (p10n_nonneg X ltac:(lia)) as [En Ed]. rewrite En, Ed, Z.mul_1_r in Hf.
    pose proof (Z.pow_le_mono_r 10 309 X ltac:(lia) ltac:(lia)) as Hp.
    pose proof c_2_1024 as C. set (A := 10 ^ 309) in *. set (B := 2 ^ 1024) in *. set (T := 10 ^ X) in *.
    assert (H1 : dS * A <= nS * den * T).
    { replace (nS * den * T) with (nS * (den * T)) by ring.
      apply Z.le_trans with (dS * (den * T)); [|apply Z.mul_le_mono_nonneg_r; nia].
      apply Z.mul_le_mono_nonneg_l; [lia|]. nia. }
    assert (H3 : num * dS < A * dS) by (apply Z.mul_lt_mono_pos_r; lia).
    lia.
Qed.

(** when the digits are 1000…0 without the carry, the value is within 1 + 10^-14/2 of 10^X *)
Lemma scaled_pow10_low num den nS dS X : 0 < num -> 0 < den <= 2 ^ 1074 ->
  scaled num den nS dS X -> 2 * Z.abs (nS * 10 ^ 14 - 10 ^ 14 * dS) <= dS -> -323 <= X.
Proof.
  intros Hn Hd (PdS & Hr & Hf) Hq. unfold frac_eq in Hf.
  destruct (Z_le_gt_dec (-323) X) as [H|H]; [exact H|exfalso].
  destruct (p10d_neg X ltac:(lia)) as [En Ed]. rewrite En, Ed, Z.mul_1_r in Hf.
  pose proof (Z.pow_le_mono_r 10 324 (- X) ltac:(lia) ltac:(lia)) as Hp.
  assert (HnS : nS <= 2 * dS).
  { change (10 ^ 14) with 100000000000000 in Hq. lia. }
  pose proof c_2_1075 as C. set (A := 10 ^ 324) in *. set (B := 2 ^ 1074) in *. set (T := 10 ^ (- X)) in *.
  assert (H1 : dS * A <= num * dS * T).
  { replace (num * dS * T) with (dS * (num * T)) by ring. apply Z.mul_le_mono_nonneg_l; [lia|]. nia. }
  assert (H2 : nS * den <= 2 * dS * B).
  { apply Z.le_trans with (2 * dS * den); [apply Z.mul_le_mono_nonneg_r; lia|].
    apply Z.mul_le_mono_nonneg_l; lia. }
  assert (H3 : dS * A < dS * (2 * B)) by (apply Z.mul_lt_mono_pos_l; lia).
  lia.
Qed.

Lemma g_round_cases nS dS X D X' : 0 < dS -> g_round 15 nS dS X = (D, X') ->
  (D = 10 ^ 14 /\ X' = X + 1 /\ 2 * Z.abs (nS * 10 ^ 14 - 10 ^ 15 * dS) <= dS) \/
  (X' = X /\ 2 * Z.abs (nS * 10 ^ 14 - D * dS) <= dS).
Proof.
  intros PdS E. unfold g_round in E. change (15 - 1) with 14 in E.
  destruct (g_q'_spec (nS * 10 ^ 14) dS PdS) as [G _]. cbv zeta in G.
  destruct (Z.eqb_spec (g_q' (nS * 10 ^ 14) dS) (10 ^ 15)) as [Eq|_]; injection E as <- <-.
  - left. split; [reflexivity|]. split; [reflexivity|]. rewrite <- Eq. exact G.
  - right. split; [reflexivity|exact G].
Qed.

(** everything fmt_g15 computes for a well-formed finite double *)
Lemma g15_shape m e : SpecFloat.bounded P E m e = true ->
  exists nS dS X D X',
    scaled (g_num m e) (g_den e) nS dS X /\ g_round 15 nS dS X = (D, X') /\
    (forall s, fmt_g15 (S754_finite s m e) = g_text 15 s D X') /\
    10 ^ 14 <= D < 10 ^ 15 /\ -324 <= X <= 308 /\ X <= X' <= X + 1 /\
    (D = 10 ^ 14 -> -323 <= X').
Proof.
  intro Hb. destruct (bounded_frac m e Hb) as (Hn & Hd & Hl).
  destruct (g_scale_spec (g_num m e) (g_den e) ltac:(lia) ltac:(lia) Hl) as (nS & dS & X & Es & Hsc).
  destruct (g_round 15 nS dS X) as [D X'] eqn:Er.
  exists nS, dS, X, D, X'. split; [exact Hsc|]. split; [exact Er|].
  split. { intro s. unfold fmt_g15. rewrite fmt_g_finite, Es, Er. reflexivity. }
  pose proof Hsc as (PdS & Hr & Hf).
  destruct (g_round_spec 15 nS dS X D X' ltac:(lia) PdS Hr Er) as [HD _].
  pose proof (scaled_X_range _ _ _ _ _ Hn Hd Hsc) as HX.
  split; [exact HD|]. split; [exact HX|].
  destruct (g_round_cases nS dS X D X' PdS Er) as [(-> & -> & _)|[-> Hq]].
  - split; [lia|]. intros _. lia.
  - split; [lia|]. intros ->. exact (scaled_pow10_low _ _ _ _ _ (proj1 Hn) Hd Hsc Hq).
Qed.

(** * the powers of ten, by computation *)
Fixpoint beq (a b : bytes) : bool :=
  match a, b with
  | [], [] => true
  | x :: a', y :: b' => (x =? y) && beq a' b'
  | _, _ => false
  end.

Lemma beq_eq a : forall b, beq a b = true -> a = b.
Proof.
  induction a as [|x a IH]; intros [|y b] H; try discriminate; [reflexivity|].
  cbn [beq] in H. apply andb_true_iff in H as [H1 H2]. apply Z.eqb_eq in H1. subst y.
  f_equal. apply IH, H2.
Qed.

Definition pow10_entry (X' : Z) : bool :=
  let text := g_text 15 false (10 ^ 14) X' in
  match strtod_ref text with
  | Some (S754_finite false m e, _) => beq (fmt_g15 (S754_finite false m e)) text
  | Some (S754_infinity _, _) => true
  | _ => false
  end.

(** "1e-309" … "1e+309": what strtod returns for the text prints as the same text again.
    (Below 1e-309 that is false — "1e-323" reads as 2 * 2^-1074, which prints as
    "9.88131291682493e-324" — but no double prints as such a text: [g15_pow10_small].) *)
Lemma pow10_table : all_from pow10_entry (-309) 619 = true.
Proof. vm_compute. reflexivity. Qed.

Lemma pow10_case X' t k : -309 <= X' <= 309 ->
  strtod_ref (g_text 15 false (10 ^ 14) X') = Some (t, k) -> Dbl.is_finite t = true ->
  (exists mt et, t = S754_finite false mt et) /\ fmt_g15 t = g_text 15 false (10 ^ 14) X'.
Proof.
  intros HX Hs Hf.
  pose proof (all_from_spec pow10_entry 619 (-309) X' pow10_table ltac:(lia)) as T.
  unfold pow10_entry in T. cbv zeta in T. rewrite Hs in T.
  destruct t as [s|s| |[|] mt et]; try discriminate.
  split; [eexists _, _; reflexivity|]. apply beq_eq, T.
Qed.

(** * signs *)
Lemma dec_exact_opp m e : dec_to_dbl_exact true m e = SFopp (dec_to_dbl_exact false m e).
Proof.
  unfold dec_to_dbl_exact, div_to_dbl.
  destruct (m =? 0); [reflexivity|]. destruct (400 <? _); [reflexivity|].
  destruct (_ <? -400); [reflexivity|]. destruct (0 <=? e); reflexivity.
Qed.

Lemma strtod_body_neg b n1 n0 t k : strtod_body true b n1 = Some (t, k) ->
  exists t0 k0, strtod_body false b n0 = Some (t0, k0) /\ t = SFopp t0.
Proof.
  unfold strtod_body. destruct (take_digits b 0 0) as [[ip nint] s2].
  destruct (frac_part ip nint s2) as [[[mm nfrac] s3] ndot].
  destruct ((nint + nfrac =? 0)%nat); [discriminate|].
  destruct (ParseComplete.exp_part s3) as [ev nexp].
  intro H. injection H as <- _. eexists _, _. split; [reflexivity|apply dec_exact_opp].
Qed.

Lemma fmt_g_neg Pp m e : fmt_g Pp (S754_finite true m e) = 45 :: fmt_g Pp (S754_finite false m e).
Proof.
  rewrite !fmt_g_finite. destruct (g_scale (g_num m e) (g_den e)) as [[nS dS] X].
  destruct (g_round Pp nS dS X) as [D X']. reflexivity.
Qed.

(** * the positive case *)
Lemma Rabs_units a b u : (0 < u)%R -> (Rabs (a * u - b * u) = Rabs (a - b) * u)%R.
Proof.
  intro Hu. replace (a * u - b * u)%R with ((a - b) * u)%R by ring.
  rewrite Rabs_mult, (Rabs_pos_eq u) by lra. reflexivity.
Qed.

(** a power of ten below 1e-309 is printed only for a double that strtod gives back exactly:
    there the 15-digit decimal grid (<= 10^-324) is finer than the grid of the doubles (2^-1074) *)
Lemma g15_pow10_small m e t k nS dS X X' : SpecFloat.bounded P E m e = true ->
  scaled (g_num m e) (g_den e) nS dS X -> g_round 15 nS dS X = (10 ^ 14, X') ->
  -324 <= X <= 308 -> X' <= -310 ->
  strtod_ref (g_text 15 false (10 ^ 14) X') = Some (t, k) -> Dbl.is_finite t = true ->
  t = S754_finite false m e.
Proof.
  intros Hb Hsc Er HX HX' Hs Hf.
  pose proof Hsc as (PdS & Hr & _).
  assert (HXX : X <= X' <= X + 1).
  { destruct (g_round_cases nS dS X (10 ^ 14) X' PdS Er) as [(_ & EX & _)|[EX _]]; lia. }
  set (u := bpow ten (X' - 14)).
  assert (Pu : (0 < u)%R) by apply bpow_gt_0.
  set (T := IZR (10 ^ 14)).
  set (xd := (IZR (nS * 10 ^ 14) / IZR dS)%R).
  assert (Ed : rv (S754_finite false m e) = (xd * bpow ten (X - 14))%R).
  { rewrite rv_frac, (scaled_real _ _ nS dS X (g_num_pos m e) (g_den_pos e) Hsc).
    apply scaled_units. exact PdS. }
  (* d is within u/2 of w = 10^14 u *)
  assert (Hdw : (Rabs (rv (S754_finite false m e) - T * u) <= / 2 * u)%R).
  { destruct (g_round_cases nS dS X (10 ^ 14) X' PdS Er) as [(_ & EX & Hq)|[EX Hq]].
    - apply (near_ZR _ _ _ PdS) in Hq. fold xd in Hq.
      assert (E15 : IZR (10 ^ 15) = (10 * T)%R).
      { unfold T. rewrite <- mult_IZR. reflexivity. }
      rewrite E15 in Hq.
      assert (Eu : u = (10 * bpow ten (X - 14))%R).
      { unfold u. replace (X' - 14) with (X - 14 + 1) by lia. rewrite bpow_plus_1.
        change (IZR ten) with 10%R. ring. }
      pose proof (bpow_gt_0 ten (X - 14)) as Pu0. set (u0 := bpow ten (X - 14)) in *.
      rewrite Ed, Eu.
      replace (xd * u0 - T * (10 * u0))%R with ((xd - 10 * T) * u0)%R by ring.
      rewrite Rabs_mult, (Rabs_pos_eq u0) by lra. nra.
    - apply (near_ZR _ _ _ PdS) in Hq. fold xd in Hq. fold T in Hq.
      rewrite Ed. subst X'. fold u. rewrite (Rabs_units xd T u Pu). nra. }
  (* what strtod read *)
  assert (H1014 : 10 ^ 14 <= 10 ^ 14 < 10 ^ 15) by (split; [lia|reflexivity]).
  assert (HX400 : -400 <= X' <= 400) by lia.
  destruct (g_text_read false (10 ^ 14) X' H1014 HX400) as (j & n & Hj & Em & Erd).
  set (D' := 10 ^ 14 / 10 ^ j) in *.
  assert (Et : dec_to_dbl_exact false D' (X' - 14 + j) = t) by congruence. clear Hs.
  assert (Pj : 0 < 10 ^ j) by (apply Z.pow_pos_nonneg; lia).
  assert (EDD : 10 ^ 14 = D' * 10 ^ j).
  { unfold D'. pose proof (Z.div_mod (10 ^ 14) (10 ^ j) ltac:(lia)). lia. }
  assert (P14 : 0 < 10 ^ 14) by reflexivity.
  assert (PD' : 0 < D') by nia.
  assert (HD'15 : D' < 10 ^ 15).
  { assert (D' <= 10 ^ 14) by nia. assert (10 ^ 14 < 10 ^ 15) by reflexivity. lia. }
  assert (Hnd : 1 <= ndigits 2000 D' <= 15).
  { destruct (PrintStrictRef.ndigits_spec 2000 D' PD' (big_2000 D' HD'15)) as [Hk [Hlo Hhi]].
    split; [exact Hk|].
    destruct (Z_le_gt_dec (ndigits 2000 D') 15) as [Hle|Hgt]; [exact Hle|exfalso].
    pose proof (Z.pow_le_mono_r 10 15 (ndigits 2000 D' - 1) ltac:(lia) ltac:(lia)). lia. }
  rewrite <- Et in Hf.
  destruct (dec_exact_round D' (X' - 14 + j) PD' ltac:(lia) Hf) as [Vt Rt].
  rewrite Et in Vt, Rt. clear Hf Et Erd.
  assert (Ew : (IZR D' * bpow ten (X' - 14 + j) = T * u)%R).
  { unfold T. rewrite EDD, mult_IZR, IZR_pow10 by lia. rewrite bpow_plus. fold u. ring. }
  rewrite Ew in Rt.
  pose proof (rnd_nearest (T * u) (S754_finite false m e) Hb) as Hn. rewrite <- Rt in Hn.
  (* both lie on the grid 2^-1074 > 10^-324 >= u *)
  assert (Hu : (u <= bpow ten (-324))%R) by (apply bpow_le; lia).
  pose proof grid_coarse as Hg.
  destruct (rv_grid t Vt) as [kt Ekt]. destruct (rv_grid (S754_finite false m e) Hb) as [kd Ekd].
  apply (rv_inj_pos t m e Vt Hb).
  apply (grid_eq _ _ kt kd (bpow radix2 (-1074)) (bpow_gt_0 _ _) Ekt Ekd).
  set (a := rv t) in *. set (b := rv (S754_finite false m e)) in *. set (w := (T * u)%R) in *.
  replace (a - b)%R with ((a - w) - (b - w))%R by ring.
  eapply Rle_lt_trans; [apply Rabs_triang|]. rewrite Rabs_Ropp. lra.
Qed.

Theorem g15_stable_pos m e t k : SpecFloat.bounded P E m e = true ->
  strtod_ref (fmt_g15 (S754_finite false m e)) = Some (t, k) -> Dbl.is_finite t = true ->
  (exists mt et, t = S754_finite false mt et) /\ fmt_g15 t = fmt_g15 (S754_finite false m e).
Proof.
  intros Hb Hs Hf.
  destruct (g15_shape m e Hb) as (nS & dS & X & D & X' & Hsc & Er & Htxt & HD & HX & HX' & Hlow).
  rewrite (Htxt false) in *.
  destruct (Z.eq_dec D (10 ^ 14)) as [ED|HDne].
  { subst D. destruct (Z_le_gt_dec (-309) X') as [Hbig|Hsmall].
    - apply (pow10_case X' t k); try assumption. lia.
    - rewrite (g15_pow10_small m e t k nS dS X X' Hb Hsc Er HX ltac:(lia) Hs Hf).
      split; [eexists _, _; reflexivity|]. exact (Htxt false). }
  assert (HDgt : 10 ^ 14 < D) by lia.
  pose proof Hsc as (PdS & Hr & Hfr).
  destruct (g_round_spec 15 nS dS X D X' ltac:(lia) PdS Hr Er) as [_ G].
  destruct (G HDgt) as (EX & Hnear & Htie). subst X'. change (15 - 1) with 14 in Hnear, Htie.
  (* what strtod read *)
  destruct (g_text_read false D X HD ltac:(lia)) as (j & n & Hj & Em & Erd).
  rewrite Erd in Hs. injection Hs as Et _.
  set (D' := D / 10 ^ j) in *.
  assert (Pj : 0 < 10 ^ j) by (apply Z.pow_pos_nonneg; lia).
  assert (EDD : D = D' * 10 ^ j).
  { unfold D'. pose proof (Z.div_mod D (10 ^ j) ltac:(lia)). lia. }
  assert (PD' : 0 < D') by nia.
  assert (HD'15 : D' < 10 ^ 15) by nia.
  assert (Hnd : 1 <= ndigits 2000 D' <= 15).
  { destruct (PrintStrictRef.ndigits_spec 2000 D' PD' (big_2000 D' HD'15)) as [Hk [Hlo Hhi]].
    split; [exact Hk|].
    destruct (Z_le_gt_dec (ndigits 2000 D') 15) as [Hle|Hgt]; [exact Hle|exfalso].
    pose proof (Z.pow_le_mono_r 10 15 (ndigits 2000 D' - 1) ltac:(lia) ltac:(lia)). lia. }
  rewrite <- Et in Hf.
  destruct (dec_exact_round D' (X - 14 + j) PD' ltac:(lia) Hf) as [Vt Rt].
  rewrite Et in Vt, Rt. clear Hf Et Erd.
  (* reals *)
  set (u := bpow ten (X - 14)) in *.
  assert (Pu : (0 < u)%R) by apply bpow_gt_0.
  assert (Ew : (IZR D' * bpow ten (X - 14 + j) = IZR D * u)%R).
  { rewrite EDD, mult_IZR, IZR_pow10 by lia. rewrite bpow_plus. fold u. ring. }
  rewrite Ew in Rt.
  set (xd := (IZR (nS * 10 ^ 14) / IZR dS)%R).
  assert (Ed : rv (S754_finite false m e) = (xd * u)%R).
  { rewrite rv_frac, (scaled_real _ _ nS dS X (g_num_pos m e) (g_den_pos e) Hsc).
    apply scaled_units. exact PdS. }
  assert (Hdn : (Rabs (xd - IZR D) <= / 2)%R) by (apply (near_ZR _ _ _ PdS); exact Hnear).
  pose proof (rnd_nearest (IZR D * u) (S754_finite false m e) Hb) as Hn.
  rewrite <- Rt, Ed, (Rabs_units xd (IZR D) u Pu) in Hn.
  (* D as a real *)
  assert (HD1 : (IZR (10 ^ 14) + 1 <= IZR D)%R).
  { rewrite <- plus_IZR. apply IZR_le. lia. }
  assert (HD2 : (IZR D + 1 <= 10 * IZR (10 ^ 14))%R).
  { rewrite <- plus_IZR, <- mult_IZR. apply IZR_le. change (10 * 10 ^ 14) with (10 ^ 15). lia. }
  assert (P14 : (0 < IZR (10 ^ 14))%R) by (apply IZR_lt; reflexivity).
  set (T := IZR (10 ^ 14)) in *. set (Dr := IZR D) in *.
  (* t is within u/2 of w *)
  assert (Htw : (Rabs (rv t - Dr * u) <= / 2 * u)%R) by nra.
  apply Rabs_le_inv in Htw.
  assert (Htlo : (T * u < rv t)%R) by nra.
  assert (Hthi : (rv t < 10 * T * u)%R) by nra.
  (* so t is a positive finite double *)
  destruct t as [s|s| |[|] mt et].
  - exfalso. unfold rv in Htlo. cbn [SF2R] in Htlo. nra.
  - exfalso. unfold rv in Htlo. cbn [SF2R] in Htlo. nra.
  - exfalso. unfold rv in Htlo. cbn [SF2R] in Htlo. nra.
  - exfalso. pose proof (rv_neg mt et). nra.
  - split; [eexists _, _; reflexivity|].
    assert (Hbt : SpecFloat.bounded P E mt et = true) by exact Vt.
    destruct (g15_shape mt et Hbt) as (nS' & dS' & Xt & Dt & Xt' & Hsc' & Er' & Htxt' & _).
    rewrite (Htxt' false).
    pose proof Hsc' as (PdS' & Hr' & _).
    (* the same decade *)
    assert (Et : rv (S754_finite false mt et) = (IZR nS' / IZR dS' * bpow ten Xt)%R).
    { rewrite rv_frac. apply scaled_real; [apply g_num_pos|apply g_den_pos|exact Hsc']. }
    pose proof (scaled_decade nS' dS' Xt PdS' Hr') as Hdec. rewrite <- Et in Hdec.
    assert (EbX : bpow ten X = (T * u)%R).
    { unfold T, u. rewrite IZR_pow10 by lia. rewrite <- bpow_plus. f_equal. lia. }
    assert (EbX1 : bpow ten (X + 1) = (10 * T * u)%R).
    { rewrite bpow_plus_1, EbX. change (IZR ten) with 10%R. ring. }
    assert (EXt : Xt = X).
    { assert (Xt < X + 1) by (apply (lt_bpow ten); rewrite EbX1; lra).
      assert (X < Xt + 1) by (apply (lt_bpow ten); rewrite EbX; lra). lia. }
    subst Xt.
    rewrite (scaled_units nS' dS' X PdS') in Et. fold u in Et.
    set (xt := (IZR (nS' * 10 ^ 14) / IZR dS')%R) in *.
    rewrite Et, (Rabs_units xt Dr u Pu) in Hn.
    assert (Hcmp : (Rabs (xt - Dr) <= Rabs (xd - Dr))%R) by nra.
    assert (Hnear' : 2 * Z.abs (nS' * 10 ^ 14 - D * dS') <= dS').
    { apply (near_ZR _ _ _ PdS'). fold xt. fold Dr. lra. }
    assert (Htie' : 2 * Z.abs (nS' * 10 ^ 14 - D * dS') = dS' -> Z.even D = true).
    { intro Heq. apply Htie. apply (near_eq_ZR _ _ _ PdS).
      apply (near_eq_ZR _ _ _ PdS') in Heq. fold xt in Heq. fold Dr in Heq. fold xd. fold Dr. lra. }
    rewrite (g_round_unique 15 nS' dS' X D ltac:(lia) PdS' HD Hnear' Htie') in Er'.
    injection Er' as <- <-. reflexivity.
Qed.

(** * clause N4 for the reference implementations *)
Theorem ref_g15_stable d t k : Dbl.is_finite d = true -> dbl_ok d ->
  strtod_ref (fmt_g15 d) = Some (t, k) -> Dbl.is_finite t = true -> fmt_g15 t = fmt_g15 d.
Proof.
  intros Hfd Hv Hs Hft. unfold dbl_ok in Hv.
  destruct d as [s|s| |s m e]; try discriminate.
  - (* zeros *)
    destruct s; vm_compute in Hs; injection Hs as <- _; reflexivity.
  - assert (Hb : SpecFloat.bounded P E m e = true) by exact Hv.
    destruct s.
    + (* negative: reduce to the positive double of the same magnitude *)
      destruct (g15_shape m e Hb) as (nS & dS & X & D & X' & _ & _ & Htxt & HD & HX & HX' & _).
      rewrite (Htxt true) in Hs. rewrite strtod_ref_body in Hs.
      change (g_text 15 true D X') with (45 :: g_body 15 D X') in Hs. cbn [sign_split] in Hs.
      destruct (strtod_body_neg _ 1%nat 0%nat t k Hs) as (t0 & k0 & Hs0 & Et).
      destruct (g_body_read false 0%nat D X' HD ltac:(lia)) as ((c & r & Eb & Hc) & _).
      assert (Hs0' : strtod_ref (fmt_g15 (S754_finite false m e)) = Some (t0, k0)).
      { rewrite (Htxt false), strtod_ref_body. change (g_text 15 false D X') with (g_body 15 D X').
        assert (Hsp : sign_split (g_body 15 D X') = (false, g_body 15 D X', 0%nat))
          by (rewrite Eb; apply sign_split_other; lia).
        rewrite Hsp. exact Hs0. }
      assert (Hf0 : Dbl.is_finite t0 = true) by (rewrite Et in Hft; destruct t0; exact Hft).
      destruct (g15_stable_pos m e t0 k0 Hb Hs0' Hf0) as ((mt & et & ->) & Hst).
      rewrite Et. cbn [SFopp negb]. unfold fmt_g15 in *. rewrite !fmt_g_neg, Hst. reflexivity.
    + exact (proj2 (g15_stable_pos m e t k Hb Hs Hft)).
Qed.

(** * the hypotheses are satisfiable (non-vacuity), on a normal double that reads back as itself,
      on one that reads back as a DIFFERENT double, and on the smallest subnormal *)
Definition ex_tenth : dbl := S754_finite false 7205759403792794 (-56).      (* 0.1 *)
Definition ex_tenth_up : dbl := S754_finite false 7205759403792795 (-56).   (* the next double *)
Definition ex_min_sub : dbl := S754_finite true 1 (-1074).                  (* -4.94…e-324 *)

Lemma g15_stable_examples :
  (Dbl.is_finite ex_tenth_up = true /\ dbl_ok ex_tenth_up /\
   fmt_g15 ex_tenth_up = [48; 46; 49] /\
   strtod_ref (fmt_g15 ex_tenth_up) = Some (ex_tenth, 3%nat) /\ ex_tenth <> ex_tenth_up /\
   Dbl.is_finite ex_tenth = true /\ fmt_g15 ex_tenth = fmt_g15 ex_tenth_up) /\
  (Dbl.is_finite ex_min_sub = true /\ dbl_ok ex_min_sub /\
   fmt_g15 ex_min_sub = [45; 52; 46; 57; 52; 48; 54; 53; 54; 52; 53; 56; 52; 49; 50; 52; 55; 101; 45; 51; 50; 52] /\
   strtod_ref (fmt_g15 ex_min_sub) = Some (ex_min_sub, 22%nat)).
Proof.
  split.
  - split; [reflexivity|]. split; [reflexivity|]. split; [vm_compute; reflexivity|].
    split; [vm_compute; reflexivity|]. split; [discriminate|]. split; [reflexivity|].
    vm_compute. reflexivity.
  - split; [reflexivity|]. split; [reflexivity|]. split; vm_compute; reflexivity.
Qed.

(** a text of the shape "%1.15g" produces that no double prints as, and that does NOT survive:
    "1e-323" reads as 2 * 2^-1074, which prints as "9.88131291682493e-324" *)
Lemma g15_unprinted_text_unstable :
  exists t k, strtod_ref (g_text 15 false (10 ^ 14) (-323)) = Some (t, k) /\ Dbl.is_finite t = true /\
              fmt_g15 t <> g_text 15 false (10 ^ 14) (-323).
Proof. eexists _, _. split; [vm_compute; reflexivity|]. split; [reflexivity|]. vm_compute. discriminate. Qed.
