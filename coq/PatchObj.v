(** PatchObj.v — objects as name -> value maps: lookup in member lists with pairwise distinct
    names, and the effect of RFC 6902 operations on the members of an object. *)
From Coq Require Import Lia ZArith List Bool Permutation.
From CJ Require Import Base Dbl Tree PointerDefs PointerProofs CompareDefs PatchDefs PatchProofs PatchRobust Rfc6902
  PatchConform PatchOps PatchApply PatchSort PatchTest PatchMove PatchSeq PatchGen PatchRound.
Import ListNotations.
Local Open Scope Z_scope.

Definition okm (ms : list node) : Prop := keyed_children ms /\ NoDup (map n_key ms).
Definition lk (ms : list node) (k : bytes) : option node :=
  match find_key ms k 0%nat with Some (_, c) => Some c | None => None end.

Lemma lk_some ms k c : okm ms -> (lk ms k = Some c <-> In c ms /\ n_key c = Some k).
Proof.
  intros [Hk Hn]. unfold lk. split.
  - destruct (find_key ms k 0%nat) as [[j c']|] eqn:F; [|discriminate]. intro E. inversion E; subst c'. eapply find_key_in; exact F.
  - intros [Hin Ek]. destruct (find_key_of_in k ms 0%nat c Hin Ek) as (j & c' & F). rewrite F.
    destruct (find_key_in _ _ _ _ F) as [Hin' Ek']. f_equal. apply (nodup_key_inj ms); try assumption. congruence.
Qed.

Lemma lk_none ms k : lk ms k = None <-> forall c, In c ms -> n_key c <> Some k.
Proof.
  unfold lk. split.
  - destruct (find_key ms k 0%nat) as [[j c']|] eqn:F; [discriminate|]. intros _ c Hin Ek.
    destruct (find_key_of_in k ms 0%nat c Hin Ek) as (j & c' & F'). congruence.
  - intro H. destruct (find_key ms k 0%nat) as [[j c']|] eqn:F; [|reflexivity].
    destruct (find_key_in _ _ _ _ F) as [Hin Ek]. exfalso. eapply H; eassumption.
Qed.

Lemma option_ext {A} (a b : option A) : (forall c, a = Some c <-> b = Some c) -> a = b.
Proof.
  intro H. destruct a as [x|], b as [y|]; try reflexivity.
  - apply H. reflexivity.
  - specialize (H x). destruct H as [H _]. specialize (H eq_refl). discriminate.
  - specialize (H y). destruct H as [_ H]. specialize (H eq_refl). discriminate.
Qed.

(** ---- membership in the edited lists ---- *)
Lemma In_del_nth {A} : forall (l : list A) j c x, NoDup l -> nth_error l j = Some c -> (In x (del_nth j l) <-> In x l /\ x <> c).
Proof.
  induction l as [|a l IH]; intros j c x N E; [destruct j; discriminate|].
  inversion N as [|? ? Nin N']; subst. destruct j as [|j]; cbn [nth_error] in E.
  - inversion E; subst a. unfold del_nth. cbn [firstn skipn app]. split.
    + intro H. split; [right; exact H | intro; subst; contradiction].
    + intros [[H|H] Hne]; [congruence | exact H].
  - unfold del_nth in *. cbn [firstn skipn app]. split.
    + intros [H|H]; [subst; split; [left; reflexivity | intro; subst; apply Nin; eapply nth_error_In; exact E]|].
      apply (IH j c x N' E) in H. destruct H as [H1 H2]. split; [right; exact H1 | exact H2].
    + intros [[H|H] Hne]; [left; exact H | right; apply (IH j c x N' E); split; assumption].
Qed.

Lemma NoDup_map_inv {A B} (f : A -> B) l : NoDup (map f l) -> NoDup l.
Proof.
  induction l as [|a l IH]; intro H; [constructor|]. cbn [map] in H. inversion H; subst.
  constructor; [intro Hin; apply H2; apply in_map; exact Hin | apply IH; assumption].
Qed.

Lemma okm_del ms j : okm ms -> okm (del_nth j ms).
Proof.
  intros [Hk Hn]. rewrite <- remove_nth_del. split; [apply Forall_remove_nth; exact Hk|].
  rewrite map_remove_nth. apply NoDup_remove_nth. exact Hn.
Qed.

Lemma lk_del ms k j c : okm ms -> find_key ms k 0%nat = Some (j, c) ->
  lk (del_nth j ms) k = None /\ forall k', k' <> k -> lk (del_nth j ms) k' = lk ms k'.
Proof.
  intros Hok F. destruct (find_key_in _ _ _ _ F) as [Hin Ek]. pose proof (find_key_nth _ _ _ _ F) as Nth.
  pose proof (NoDup_map_inv n_key ms (proj2 Hok)) as Nd. pose proof (okm_del ms j Hok) as Hok'. split.
  - apply lk_none. intros c' Hc' Ek'. apply (In_del_nth ms j c c' Nd Nth) in Hc'. destruct Hc' as [Hc' Hne].
    apply Hne. apply (nodup_key_inj ms); try assumption; [apply Hok | congruence].
  - intros k' Hk'. apply option_ext. intro c'. rewrite (lk_some _ _ _ Hok'), (lk_some _ _ _ Hok), (In_del_nth ms j c c' Nd Nth).
    split; [tauto|]. intros [H1 H2]. repeat split; try assumption. intro; subst c'. congruence.
Qed.

Lemma NoDup_app_snoc {A} (l : list A) x : NoDup l -> ~ In x l -> NoDup (l ++ [x]).
Proof. intros N H. eapply Permutation_NoDup; [apply Permutation_cons_append | constructor; assumption]. Qed.

Lemma okm_snoc ms c k : okm ms -> n_key c = Some k -> key_bytes_ok k -> lk ms k = None -> okm (ms ++ [c]).
Proof.
  intros [Hk Hn] Ek Hkb Hl. split.
  - apply Forall_app. split; [exact Hk|]. constructor; [exists k; split; assumption | constructor].
  - rewrite map_app. cbn [map]. apply NoDup_app_snoc; [exact Hn|]. rewrite Ek. intro Hin.
    apply in_map_iff in Hin. destruct Hin as (c' & Ec' & Hc'). rewrite lk_none in Hl. eapply Hl; eassumption.
Qed.

Lemma lk_snoc ms c k : okm ms -> n_key c = Some k -> key_bytes_ok k -> lk ms k = None ->
  lk (ms ++ [c]) k = Some c /\ forall k', k' <> k -> lk (ms ++ [c]) k' = lk ms k'.
Proof.
  intros Hok Ek Hkb Hl. pose proof (okm_snoc ms c k Hok Ek Hkb Hl) as Hok'. split.
  - apply (lk_some _ _ _ Hok'). split; [apply in_or_app; right; left; reflexivity | exact Ek].
  - intros k' Hk'. apply option_ext. intro c'. rewrite (lk_some _ _ _ Hok'), (lk_some _ _ _ Hok), in_app_iff. cbn [In].
    split; [|tauto]. intros [[H|[H|[]]] E]; [tauto | subst c'; congruence].
Qed.

Lemma In_upd_nth {A} : forall (l : list A) j c c' x, NoDup l -> nth_error l j = Some c ->
  (In x (upd_nth j c' l) <-> x = c' \/ (In x l /\ x <> c)).
Proof.
  induction l as [|a l IH]; intros j c c' x N E; [destruct j; discriminate|].
  inversion N as [|? ? Nin N']; subst. destruct j as [|j]; cbn [nth_error] in E.
  - inversion E; subst a. unfold upd_nth. cbn [firstn skipn app In]. split.
    + intros [H|H]; [left; congruence | right; split; [right; exact H | intro; subst; contradiction]].
    + intros [H|[[H|H] Hne]]; [left; congruence | congruence | right; exact H].
  - unfold upd_nth in *. cbn [firstn skipn app In]. split.
    + intros [H|H]; [subst; right; split; [left; reflexivity | intro; subst; apply Nin; eapply nth_error_In; exact E]|].
      apply (IH j c c' x N' E) in H. destruct H as [H|[H1 H2]]; [left; exact H | right; split; [right; exact H1 | exact H2]].
    + intros [H|[[H|H] Hne]]; [right; apply (IH j c c' x N' E); left; exact H | left; exact H | right; apply (IH j c c' x N' E); right; split; assumption].
Qed.

Lemma upd_nth_replace {A} (l : list A) j c' : (j < length l)%nat -> upd_nth j c' l = replace_nth j c' l.
Proof. intro H. symmetry. apply replace_nth_upd. exact H. Qed.

Lemma okm_upd ms j c c' : okm ms -> nth_error ms j = Some c -> n_key c' = n_key c -> okm (upd_nth j c' ms).
Proof.
  intros [Hk Hn] Nth Ek. assert (Hj : (j < length ms)%nat) by (apply nth_error_Some; rewrite Nth; discriminate).
  rewrite upd_nth_replace by exact Hj. split.
  - apply Forall_replace_nth; [|exact Hk]. rewrite Ek. unfold keyed_children in Hk. rewrite Forall_forall in Hk. apply Hk. eapply nth_error_In; exact Nth.
  - rewrite (map_replace_same n_key j c c' ms Nth Ek). exact Hn.
Qed.

Lemma lk_upd ms k j c c' : okm ms -> find_key ms k 0%nat = Some (j, c) -> n_key c' = Some k ->
  lk (upd_nth j c' ms) k = Some c' /\ (forall k', k' <> k -> lk (upd_nth j c' ms) k' = lk ms k') /\
  find_key (upd_nth j c' ms) k 0%nat = Some (j, c').
Proof.
  intros Hok F Ek'. destruct (find_key_in _ _ _ _ F) as [Hin Ek]. pose proof (find_key_nth _ _ _ _ F) as Nth.
  pose proof (NoDup_map_inv n_key ms (proj2 Hok)) as Nd.
  assert (Hok' : okm (upd_nth j c' ms)) by (eapply okm_upd; [exact Hok | exact Nth | congruence]).
  assert (Hj : (j < length ms)%nat) by (apply nth_error_Some; rewrite Nth; discriminate).
  assert (L1 : lk (upd_nth j c' ms) k = Some c').
  { apply (lk_some _ _ _ Hok'). split; [apply (In_upd_nth ms j c c' c' Nd Nth); left; reflexivity | exact Ek']. }
  split; [exact L1|]. split.
  - intros k' Hk'. apply option_ext. intro x. rewrite (lk_some _ _ _ Hok'), (lk_some _ _ _ Hok), (In_upd_nth ms j c c' x Nd Nth).
    split.
    + intros [[H|[H1 H2]] E]; [subst x; congruence | split; assumption].
    + intros [H1 H2]. split; [|exact H2]. right. split; [exact H1 | intro; subst x; congruence].
  - unfold lk in L1. destruct (find_key (upd_nth j c' ms) k 0%nat) as [[j' x]|] eqn:F'; [|discriminate]. inversion L1; subst x.
    f_equal. f_equal. pose proof (find_key_nth _ _ _ _ F') as Nth'.
    (* positions of c' in the updated list: only j *)
    assert (Nd' : NoDup (upd_nth j c' ms)) by (apply (NoDup_map_inv n_key); apply Hok').
    assert (Nj : nth_error (upd_nth j c' ms) j = Some c') by (apply upd_nth_nth; exact Hj).
    eapply (proj1 (NoDup_nth_error (upd_nth j c' ms))); [exact Nd' | apply nth_error_Some; rewrite Nth'; discriminate | congruence].
Qed.

(** ---- RFC operations on the members of an object ---- *)
Lemma is_object_not_array O : is_object O = true -> is_array O = false.
Proof.
  unfold is_object, is_array, is_type. intro H. apply Z.eqb_eq in H. rewrite H. reflexivity.
Qed.
Lemma is_object_with_children O cs : is_object (with_children O cs) = is_object O.
Proof. destruct O; reflexivity. Qed.

Section ObjOps.
  Variable O : node.
  Hypothesis HO : is_object O = true.

  Lemma obj_remove k j x : find_key (n_children O) k 0%nat = Some (j, x) ->
    eval1 O (Remove [k]) = Some (with_children O (del_nth j (n_children O))).
  Proof.
    intro F. cbn [eval1]. unfold remove. change (split_last [k]) with (split_last ([] ++ [k])). rewrite split_last_snoc.
    cbn [at_location]. unfold remove_member. rewrite (is_object_not_array O HO), HO, F. reflexivity.
  Qed.

  Lemma obj_add_new k v : find_key (n_children O) k 0%nat = None ->
    eval1 O (Add [k] v) = Some (with_children O (n_children O ++ [with_key v k])).
  Proof.
    intro F. cbn [eval1]. unfold add. change (split_last [k]) with (split_last ([] ++ [k])). rewrite split_last_snoc.
    cbn [at_location]. unfold add_member. rewrite (is_object_not_array O HO), HO, F. reflexivity.
  Qed.

  Lemma at_location_member k j x pp f : find_key (n_children O) k 0%nat = Some (j, x) ->
    at_location O (k :: pp) f = match at_location x pp f with Some x' => Some (with_children O (upd_nth j x' (n_children O))) | None => None end.
  Proof. intro F. cbn [at_location]. rewrite (is_object_not_array O HO), HO, F. reflexivity. Qed.
End ObjOps.

Lemma obj_replace O k j x v : is_object O = true -> okm (n_children O) -> find_key (n_children O) k 0%nat = Some (j, x) ->
  eval1 O (Replace [k] v) = Some (with_children O (del_nth j (n_children O) ++ [with_key v k])).
Proof.
  intros HO Hok F. cbn [eval1]. unfold replace.
  assert (R : remove O [k] = Some (with_children O (del_nth j (n_children O)))) by (apply (obj_remove O HO k j x F)).
  rewrite R. destruct (lk_del _ _ _ _ Hok F) as [Hl _].
  assert (F' : find_key (n_children (with_children O (del_nth j (n_children O)))) k 0%nat = None).
  { rewrite n_children_with. unfold lk in Hl. destruct (find_key (del_nth j (n_children O)) k 0%nat) as [[? ?]|]; [discriminate | reflexivity]. }
  pose proof (obj_add_new (with_children O (del_nth j (n_children O))) ltac:(rewrite is_object_with_children; exact HO) k v F') as A.
  cbn [eval1] in A. rewrite A. rewrite n_children_with, with_children_with. reflexivity.
Qed.

(* deep operations keep the name of the document they act in *)
Lemma at_location_key : forall pp x f x', pp <> [] -> at_location x pp f = Some x' -> n_key x' = n_key x.
Proof.
  intros [|t pp] x f x' Hne E; [contradiction|]. cbn [at_location] in E.
  destruct (is_array x).
  - destruct (rfc_array_index t) as [i|]; [|discriminate]. destruct (nth_z (n_children x) i) as [c|]; [|discriminate].
    destruct (at_location c pp f); [|discriminate]. inversion E. destruct x; reflexivity.
  - destruct (is_object x); [|discriminate]. destruct (find_key (n_children x) t 0%nat) as [[j c]|]; [|discriminate].
    destruct (at_location c pp f); [|discriminate]. inversion E. destruct x; reflexivity.
Qed.

Lemma add_deep_key x q v x' : q <> [] -> add x q v = Some x' -> n_key x' = n_key x.
Proof.
  intros Hq E. unfold add in E. destruct (exists_last Hq) as (pp & l & ->). rewrite split_last_snoc in E.
  destruct pp as [|t pp]; [|eapply at_location_key; [|exact E]; discriminate].
  cbn [at_location] in E. unfold add_member in E. destruct (is_array x).
  - destruct (bytes_eqb l [45]); [inversion E; destruct x; reflexivity|].
    destruct (rfc_array_index l) as [i|]; [|discriminate]. destruct (i <=? Z.of_nat (length (n_children x))); [|discriminate]. inversion E. destruct x; reflexivity.
  - destruct (is_object x); [|discriminate]. destruct (find_key (n_children x) l 0%nat) as [[j c]|]; inversion E; destruct x; reflexivity.
Qed.
Lemma remove_deep_key x q x' : remove x q = Some x' -> n_key x' = n_key x.
Proof.
  intro E. unfold remove in E. destruct (split_last q) as [[pp l]|] eqn:S; [|discriminate].
  destruct pp as [|t pp]; [|eapply at_location_key; [|exact E]; discriminate].
  cbn [at_location] in E. unfold remove_member in E. destruct (is_array x).
  - destruct (rfc_array_index l) as [i|]; [|discriminate]. destruct (i <? Z.of_nat (length (n_children x))); [|discriminate]. inversion E. destruct x; reflexivity.
  - destruct (is_object x); [|discriminate]. destruct (find_key (n_children x) l 0%nat) as [[j c]|]; [|discriminate]. inversion E; destruct x; reflexivity.
Qed.
Lemma deep_op_key x o x' : deep_op o -> eval1 x o = Some x' -> n_key x' = n_key x.
Proof.
  destruct o as [q v|q|q v|f q|f q|q v]; cbn [deep_op eval1]; intros Hq E; try contradiction.
  - eapply add_deep_key; eassumption.
  - eapply remove_deep_key; eassumption.
  - unfold replace in E. destruct q as [|q0 qs]; [contradiction|].
    destruct (remove x (q0 :: qs)) as [x0|] eqn:R; [|discriminate].
    rewrite (add_deep_key x0 (q0 :: qs) v x' Hq E). eapply remove_deep_key; exact R.
Qed.

(* a script acting strictly inside the member named k *)
Lemma frame_object : forall L O k j x r, is_object O = true -> okm (n_children O) ->
  find_key (n_children O) k 0%nat = Some (j, x) -> deep L -> eval x L = Some r ->
  eval O (map (prefix_op [k]) L) = Some (with_children O (upd_nth j r (n_children O))) /\ n_key r = n_key x.
Proof.
  induction L as [|o L IH]; intros O k j x r HO Hok F Hd E.
  - cbn in E. inversion E; subst r. cbn [map eval]. split; [|reflexivity]. f_equal.
    pose proof (find_key_nth _ _ _ _ F) as Nth.
    rewrite upd_nth_replace by (apply nth_error_Some; rewrite Nth; discriminate).
    rewrite (replace_nth_same _ _ _ Nth). destruct O; reflexivity.
  - inversion Hd as [|? ? Ho Hd']; subst. cbn [eval] in E. destruct (eval1 x o) as [x1|] eqn:E1; [|discriminate].
    cbn [map eval].
    pose proof (find_key_nth _ _ _ _ F) as Nth. pose proof (find_key_key _ _ _ _ _ F) as Ekx.
    assert (Hj : (j < length (n_children O))%nat) by (apply nth_error_Some; rewrite Nth; discriminate).
    pose proof (deep_op_key x o x1 Ho E1) as K1.
    assert (S1 : eval1 O (prefix_op [k] o) = Some (with_children O (upd_nth j x1 (n_children O)))).
    { destruct o as [q v|q|q v|f q|f q|q v]; cbn [deep_op] in Ho; try contradiction; cbn [prefix_op app eval1] in *.
      - destruct (split_last_cons k q Ho) as (pp & l & S1 & S2). unfold add in *. rewrite S1 in E1. rewrite S2.
        rewrite (at_location_member O HO k j x pp _ F), E1. reflexivity.
      - destruct (split_last_cons k q Ho) as (pp & l & S1 & S2). unfold remove in *. rewrite S1 in E1. rewrite S2.
        rewrite (at_location_member O HO k j x pp _ F), E1. reflexivity.
      - unfold replace in *. destruct q as [|q0 qs]; [contradiction|].
        destruct (remove x (q0 :: qs)) as [x0|] eqn:R0; [|discriminate].
        destruct (split_last_cons k (q0 :: qs) Ho) as (pp & l & S1 & S2).
        assert (RO : remove O (k :: q0 :: qs) = Some (with_children O (upd_nth j x0 (n_children O)))).
        { unfold remove in *. rewrite S1 in R0. rewrite S2. rewrite (at_location_member O HO k j x pp _ F), R0. reflexivity. }
        change (k :: q0 :: qs) with ([k] ++ q0 :: qs) in RO. cbn [app] in RO. rewrite RO.
        pose proof (remove_deep_key x (q0 :: qs) x0 R0) as K0.
        destruct (lk_upd (n_children O) k j x x0 Hok F ltac:(congruence)) as (_ & _ & F0).
        unfold add in *. rewrite S1 in E1. rewrite S2.
        rewrite (at_location_member (with_children O (upd_nth j x0 (n_children O))) ltac:(rewrite is_object_with_children; exact HO) k j x0 pp _
                   ltac:(rewrite n_children_with; exact F0)), E1.
        rewrite n_children_with, with_children_with, upd_nth_upd by exact Hj. reflexivity. }
    rewrite S1.
    destruct (lk_upd (n_children O) k j x x1 Hok F ltac:(congruence)) as (_ & _ & F1).
    destruct (IH (with_children O (upd_nth j x1 (n_children O))) k j x1 r) as [Ev Kr]; try assumption.
    + rewrite is_object_with_children. exact HO.
    + rewrite n_children_with. eapply okm_upd; [exact Hok | exact Nth | exact K1].
    + rewrite n_children_with. exact F1.
    + rewrite Ev. rewrite n_children_with, with_children_with, upd_nth_upd by exact Hj. split; [reflexivity | congruence].
Qed.
