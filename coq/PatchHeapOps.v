(** PatchHeapOps.v — the steps of [apply_patch] at the level of the invariant [MInv]:
    * [delete_last_X] / [Mid_delete_last]: cJSON_Delete of the last root, with temporaries;
    * [root_remove_step], [root_overwrite_step]: the root cases (TierBridgeOverwrite.v) re-establish [MInv];
    * [run_member], [run_is_string], [run_vs_is], [run_decode]: the lookups in the patch object and the opcode;
    * the final insertions DEEP in the document between the allocation and the release of the copy of the path:
      [Mid_add_to_array], [Mid_insert], [Mid_delete_key], [Mid_add_to_object]. *)
From CJ Require Import Base Dbl Heap Forest ForestLemmas CoreSpec CoreDefs CoreRefineBase CoreRefine CoreRefineMore
  CoreRefineDelete CoreRefineReplace CoreRefineObject CoreRefineByKey CoreRefineFrame CoreRefineHistory CoreRefineAddObject
  CoreRefineHistoryObj CoreRefineCreate CoreRefineDupValue CoreLedgerGen.
From CJ Require Import TierBridgeDefs TierBridgeForest TierBridgeLemmas TierBridgeUtilsDefs TierBridgeUtils TierBridgeE2E2
  TierBridgeEndToEndStr TierBridgeOverwriteDefs TierBridgeOverwrite
  MergeHeapDefs MergeHeapInv MergeHeapProofs PatchHeapDefs PatchHeapPath PatchHeapPointer PatchHeapStr PatchHeapSteps PatchHeapApplyDefs.
From CJ Require Tree PointerDefs PatchDefs CompareDefs SortSpec.
From CJ.gen Require Import Constants.
From stdpp Require Import gmap.
From Coq Require Import Lia.
Local Open Scope Z_scope.

(** * cJSON_Delete of the last root, with temporaries *)
Lemma delete_last_X h G tx :
  MInv h (G ++ [tx]) ->
  let h' := free_all (free_order [tx]) h in
  cJSON_Delete (Some (tid tx)) h = Ret (tt, h') /\ MInv h' G /\
  (forall X, (forall b, b ∈ X -> b ∉ owned [tx]) -> NoLeakX h (G ++ [tx]) X -> NoLeakX h' G X) /\
  KeepO h h' G /\ h_next h' = h_next h.
Proof.
  intros I h'. pose proof (mi_wf _ _ I) as W. destruct (last_root_fresh _ _ _ W) as [Hr Hi].
  destruct (cJSON_Delete_sim h _ _ _ W (find_root_last G tx Hr)) as (_ & Hrun & W' & _).
  rewrite (CoreRefineReplace.remove_root_snoc G tx Hr) in W'. fold h' in Hrun, W'.
  assert (K : KeepO h h' G).
  { intros b Hb. unfold h'. apply free_all_str_lookup. rewrite free_order_root_owned. by eapply owned_disjoint_last. }
  split; [exact Hrun|]. split; [|split; [|split; [exact K|]]].
  - apply (MInv_build h h' (G ++ [tx]) G I W').
    + exact (Cons_ok _ _ _ _ (Cons_cJSON_Delete _) Hrun (mi_ok _ _ I)).
    + intros e He. left. apply datas_elem_app. by left.
    + intros b Hb _. by apply K.
  - intros X HX NL b Hb. unfold lib_live in Hb. apply elem_of_filter in Hb as [Hb1 Hb2]. unfold h' in Hb1, Hb2.
    rewrite free_all_own in Hb1. apply free_all_live in Hb2 as [Hb2 Hb3].
    destruct (NL b) as [Ho|Hx]; [by apply elem_of_filter| |by right].
    rewrite owned_app in Ho. apply elem_of_app in Ho as [?|Ho]; [by left|].
    exfalso. apply Hb3. by apply free_order_root_owned.
  - unfold h'. by rewrite free_all_next.
Qed.

Lemma delete_last_NoLeak h G tx :
  MInv h (G ++ [tx]) ->
  exists h', cJSON_Delete (Some (tid tx)) h = Ret (tt, h') /\ MInv h' G /\
             (NoLeak h (G ++ [tx]) -> NoLeak h' G) /\ KeepO h h' G /\ h_next h' = h_next h.
Proof.
  intros I. destruct (delete_last_X h G tx I) as (Hrun & I' & NL & K & En). eexists. split; [exact Hrun|].
  split; [done|]. split; [|done]. intros H. apply NoLeakX_nil. apply (NL []); [intros b Hb; by apply elem_of_nil in Hb|by apply NoLeakX_nil].
Qed.

Lemma Mid_delete_last NL0 B h G tx :
  Mid NL0 B h (G ++ [tx]) ->
  exists h', cJSON_Delete (Some (tid tx)) h = Ret (tt, h') /\ Mid NL0 B h' G /\ KeepO h h' G /\
             h_str h' !! B = h_str h !! B /\ h_next h' = h_next h.
Proof.
  intros [I Hno Hl Ho Hs NL]. destruct (delete_last_X h G tx I) as (Hrun & I' & NL' & K & En).
  assert (HB : B ∉ free_order [tx]).
  { rewrite free_order_root_owned. intros Hin. apply Hno. rewrite owned_app. apply elem_of_app. by right. }
  eexists. split; [exact Hrun|]. split; [|split; [done|split; [|done]]].
  - constructor; [done| | | | |].
    + intros Hin. apply Hno. rewrite owned_app. apply elem_of_app. by left.
    + apply free_all_live. done.
    + by rewrite free_all_own.
    + by rewrite free_all_str_lookup.
    + intros H. apply NL'; [|by apply NL]. intros b Hb. apply elem_of_list_singleton in Hb as ->.
      intros Hin. apply Hno. rewrite owned_app. apply elem_of_app. by right.
  - by apply free_all_str_lookup.
Qed.

(** * [Cons] of the root cases *)
Lemma Cons_overwrite_item r s : Cons (overwrite_item r s).
Proof. unfold overwrite_item, cJSON_free. cons. Qed.
Lemma Cons_patch_root_remove r : Cons (patch_root_remove r).
Proof. apply Cons_overwrite_item. Qed.
Lemma Cons_patch_root_overwrite r x : Cons (patch_root_overwrite r x).
Proof. unfold patch_root_overwrite, cJSON_free. cons; try apply Cons_overwrite_item. Qed.
Global Hint Resolve Cons_overwrite_item Cons_patch_root_remove Cons_patch_root_overwrite : cons.

Lemma node_owns_key_owned d : node_owns d -> key_owned d.
Proof. intros [_ Hc] H. congruence. Qed.

Lemma rd_invalid_owns : node_owns rd_invalid.
Proof. split; reflexivity. Qed.

(** * remove of the root *)
Lemma root_remove_step h G r dr csr :
  MInv h (G ++ [T r dr csr]) ->
  exists h', patch_root_remove (Some r) h = Ret (tt, h') /\ MInv h' (G ++ [T r rd_invalid []]) /\
    (NoLeak h (G ++ [T r dr csr]) -> NoLeak h' (G ++ [T r rd_invalid []])) /\ KeepO h h' G /\ h_next h' = h_next h.
Proof.
  intros I. pose proof (mi_wf _ _ I) as W. set (F := G ++ [T r dr csr]) in *.
  destruct (last_root_fresh _ _ _ W) as [Hr Hi]. cbn [tid] in Hr, Hi.
  assert (Hd : (r, dr) ∈ datas F) by (unfold F; apply datas_elem_app; right; apply datas_singleton_root; by left).
  pose proof (mi_own _ _ I _ Hd) as Hown. cbn [snd] in Hown.
  destruct (patch_root_remove_sim h F r dr csr W (find_root_last G (T r dr csr) Hr) (proj1 Hown) (node_owns_key_owned _ Hown))
    as (Hrun & W' & HP & _ & NL & _ & _).
  assert (E0 : remove_root r F = G) by (unfold F; exact (CoreRefineReplace.remove_root_snoc G (T r dr csr) Hr)).
  unfold invalidate_root in *. rewrite E0 in *.
  set (h' := remove_heap h r dr csr) in *. set (F0 := T r rd_invalid [] :: G) in *.
  assert (Hstr : forall b, b ∈ owned F0 -> h_str h' !! b = h_str h !! b).
  { intros b Hb. unfold h', remove_heap. cbn [h_str put_struct]. apply free_all_str_lookup.
    pose proof (wf_owned_nodup _ _ W) as NDo. rewrite HP in NDo. apply NoDup_app in NDo as (_ & Hdis & _).
    intros Hin. by apply (Hdis b). }
  assert (I0 : MInv h' F0).
  { apply (MInv_build h h' F F0 I W').
    - exact (Cons_ok _ _ _ _ (Cons_patch_root_remove _) Hrun (mi_ok _ _ I)).
    - intros e He. unfold F0, datas in He. rewrite flat_cons, fmap_app in He. apply elem_of_app in He as [He|He].
      + right. cbn in He. apply elem_of_list_singleton in He as ->. cbn. split; [exact rd_invalid_owns|]. split; intros b Hb; discriminate Hb.
      + left. unfold F. apply datas_elem_app. by left.
    - intros b Hb _. by apply Hstr. }
  assert (HPm : F0 ≡ₚ G ++ [T r rd_invalid []]) by (unfold F0; apply Permutation_cons_append).
  exists h'. split; [exact Hrun|]. split; [exact (MInv_perm _ _ _ I0 HPm)|]. split; [|split].
  - intros H. exact (NoLeak_perm _ _ _ (NL H) HPm).
  - intros b Hb. apply Hstr. unfold F0, owned. rewrite flat_cons, owned_fl_app. apply elem_of_app. by right.
  - unfold h', remove_heap. cbn. by rewrite free_all_next.
Qed.

(** * overwrite of the root by the last root *)
Lemma root_overwrite_step h G r dr csr x dx csx :
  MInv h ((G ++ [T r dr csr]) ++ [T x dx csx]) ->
  exists h', patch_root_overwrite (Some r) (Some x) h = Ret (tt, h') /\ MInv h' (G ++ [T r (rd_unnamed dx) csx]) /\
    (NoLeak h ((G ++ [T r dr csr]) ++ [T x dx csx]) -> NoLeak h' (G ++ [T r (rd_unnamed dx) csx])) /\
    KeepO h h' G /\ h_next h' = h_next h /\
    reify (h_str h') (T r (rd_unnamed dx) csx) = PatchDefs.unnamed (reify (h_str h) (T x dx csx)).
Proof.
  intros I. pose proof (mi_wf _ _ I) as W. set (F := (G ++ [T r dr csr]) ++ [T x dx csx]) in *.
  pose proof (wf_nodup _ _ W) as ND.
  destruct (last_root_fresh _ _ _ W) as [Hxr Hxi]. cbn [tid] in Hxr, Hxi.
  assert (ND1 : NoDup (ids (G ++ [T r dr csr]))).
  { unfold F in ND. rewrite ids_app in ND. by apply NoDup_app in ND as (? & _ & _). }
  assert (Hrr : r ∉ roots G).
  { rewrite ids_app in ND1. apply NoDup_app in ND1 as (_ & Hdis & _). intros Hin. apply (Hdis r (roots_subseteq_ids _ _ Hin)).
    apply roots_subseteq_ids. cbn. by left. }
  assert (Hrx : r <> x).
  { intros ->. apply Hxr. rewrite roots_app. apply elem_of_app. right. cbn. by left. }
  assert (Hfr : find_root r F = Some (T r dr csr)).
  { unfold F. unfold find_root. rewrite !find_app'. destruct (List.find _ G) as [t|] eqn:E.
    - apply List.find_some in E as [E1 E2]. apply bool_decide_eq_true in E2. exfalso. apply Hrr. apply elem_of_list_fmap.
      exists t. split; [done|]. by apply elem_of_list_In.
    - cbn. by rewrite bool_decide_eq_true_2. }
  assert (Hfx : find_root x F = Some (T x dx csx)) by (exact (find_root_last (G ++ [T r dr csr]) (T x dx csx) Hxr)).
  assert (Hdr : (r, dr) ∈ datas F).
  { unfold F. apply datas_elem_app. left. apply datas_elem_app. right. apply datas_singleton_root. by left. }
  assert (Hdx : (x, dx) ∈ datas F) by (unfold F; apply datas_elem_app; right; apply datas_singleton_root; by left).
  pose proof (mi_own _ _ I _ Hdr) as Hownr. pose proof (mi_own _ _ I _ Hdx) as Hownx. cbn [snd] in Hownr, Hownx.
  destruct (patch_root_overwrite_sim h F r x dr dx csr csx W Hfr Hfx Hrx (proj1 Hownr) (node_owns_key_owned _ Hownr))
    as (Hrun & W' & HP & _ & NL & _ & Hval).
  destruct (patch_root_overwrite_ledger h F r x dr dx csr csx W Hfr Hfx Hrx (proj1 Hownr) (node_owns_key_owned _ Hownr))
    as (_ & _ & _ & _ & _ & Hnext & _ & _ & Hstrs).
  assert (E0 : remove_root x (remove_root r F) = G).
  { assert (E1 : remove_root r F = G ++ [T x dx csx]).
    { pose proof (CoreRefineReplace.remove_root_snoc G (T r dr csr) Hrr) as E. cbn [tid] in E.
      unfold F, remove_root in *. rewrite List.filter_app, E. cbn [List.filter tid].
      rewrite bool_decide_eq_false_2 by (intros E'; by apply Hrx). done. }
    rewrite E1. apply (CoreRefineReplace.remove_root_snoc G (T x dx csx)). cbn. intros Hin. apply Hxr. rewrite roots_app. apply elem_of_app. by left. }
  unfold overwrite_root in *. rewrite E0 in *.
  set (h' := patch_heap h r x dr dx csr csx) in *. set (F0 := T r (rd_unnamed dx) csx :: G) in *.
  set (bs := patch_released dr csr x dx) in *.
  assert (Hdis : forall b, b ∈ owned F0 -> b ∉ bs).
  { intros b Hb Hin. pose proof (wf_owned_nodup _ _ W) as NDo. rewrite HP in NDo. apply NoDup_app in NDo as (_ & Hd & _). by apply (Hd b). }
  assert (Hstr : forall b, b ∈ owned F0 -> h_str h' !! b = h_str h !! b).
  { intros b Hb. rewrite Hstrs. by rewrite decide_False by (by apply Hdis). }
  assert (Hsub : forall b, b ∈ owned F0 -> b ∈ owned F) by (intros b Hb; rewrite HP; apply elem_of_app; by right).
  assert (Hown' : node_owns (rd_unnamed dx)).
  { split; [rewrite is_ref_unnamed; apply Hownx|apply is_const_unnamed]. }
  assert (Hd0 : (r, rd_unnamed dx) ∈ datas F0) by (unfold F0, datas; rewrite flat_cons, flat_t_unfold; cbn; by left).
  assert (I0 : MInv h' F0).
  { apply (MInv_build h h' F F0 I W').
    - exact (Cons_ok _ _ _ _ (Cons_patch_root_overwrite _ _) Hrun (mi_ok _ _ I)).
    - intros e He. unfold F0, datas in He. rewrite flat_cons, flat_t_unfold, fmap_app in He. apply elem_of_app in He as [He|He].
      + cbn in He. apply elem_of_cons in He as [->|He].
        * right. cbn [snd]. split; [exact Hown'|]. split.
          -- intros b Hb. change (rd_vstr (rd_unnamed dx)) with (rd_vstr dx) in Hb.
             destruct (proj1 (mi_read _ _ I _ Hdx) b Hb) as (Hl & s & Hs & Hz).
             assert (Hbo : b ∈ owned F0) by (apply (str_owned F0 (r, rd_unnamed dx) b Hd0 Hown'); by left).
             split; [by apply (wf_owned_live _ _ W')|]. exists s. by rewrite Hstr.
          -- intros b Hb. discriminate Hb.
        * left. unfold F. apply datas_elem_app. right. unfold datas. rewrite flat_singleton, flat_t_unfold. cbn. by right.
      + left. unfold F. apply datas_elem_app. left. apply datas_elem_app. by left.
    - intros b Hb _. by apply Hstr. }
  assert (HPm : F0 ≡ₚ G ++ [T r (rd_unnamed dx) csx]) by (unfold F0; apply Permutation_cons_append).
  exists h'. split; [exact Hrun|]. split; [exact (MInv_perm _ _ _ I0 HPm)|]. split; [|split; [|split]].
  - intros H. exact (NoLeak_perm _ _ _ (NL H) HPm).
  - intros b Hb. apply Hstr. unfold F0, owned. rewrite flat_cons, owned_fl_app. apply elem_of_app. by right.
  - exact Hnext.
  - apply Hval. intros b Hb. apply Hdis.
    assert (Hn : T r (rd_unnamed dx) csx ∈ nodes F0) by (apply roots_in_nodes; by left).
    apply (str_blocks_in_owned F0 _ b (mi_own _ _ I0) Hn). cbn [str_blocks].
    apply elem_of_app in Hb as [Hb|Hb]; apply elem_of_app; [by left|right]. apply elem_of_app. by right.
Qed.

(** * lookups in the patch object *)
Section Lookups.
  Context (h : heap) (F : forest).
  Hypothesis I : MInv h F.
  Let W : WF h F := mi_wf _ _ I.
  Notation St := (h_str h).

  Lemma CsReads_lit (l : bytes) : SortSpec.zfree l -> CsReads h (CLit l) l.
  Proof. by split. Qed.

  Lemma run_member pid dpt cpt (lit : bytes) flag :
    T pid dpt cpt ∈ nodes F -> SortSpec.zfree lit ->
    u_get_object_item (Some pid) (CLit lit) flag h = Ret ((fun kc => tid kc.2) <$> found_member St flag lit cpt, h) /\
    CompareDefs.get_object_item (reify St (T pid dpt cpt)) (Some lit) flag =
      (fun kc => (kc.1, reify St kc.2)) <$> found_member St flag lit cpt.
  Proof.
    intros Hn Hz. split; [|by apply get_object_item_found].
    assert (E : u_get_object_item (Some pid) (CLit lit) flag = get_object_item_s (Some pid) (CLit lit) flag) by (by destruct flag).
    rewrite E. apply (get_object_item_s_sim h F pid dpt cpt (CLit lit) lit W (MInv_KeysReadable _ _ I) (node_find h F I _ Hn) (CsReads_lit lit Hz)).
    exact (node_not_ref h F I _ _ _ Hn).
  Qed.

  Lemma member_node pid dpt cpt (lit : bytes) flag j m :
    T pid dpt cpt ∈ nodes F -> found_member St flag lit cpt = Some (j, m) -> m ∈ nodes F /\ cpt !! j = Some m.
  Proof.
    intros Hn E. pose proof (found_member_lookup _ _ _ _ _ _ E) as Hj. split; [|done]. by eapply child_node.
  Qed.

  Lemma run_is_string i d cs : T i d cs ∈ nodes F ->
    cJSON_IsString (Some i) h = Ret (Tree.is_string (reify St (T i d cs)), h).
  Proof. intros Hn. unfold cJSON_IsString. cbn [is_null]. exact (run_is_type h F I i d cs c_cJSON_String Hn). Qed.

  (** the valuestring of a node *)
  Lemma node_vstr i d cs : T i d cs ∈ nodes F ->
    get_vstr (Some i) h = Ret (rd_vstr d, h) /\
    (forall vb, rd_vstr d = Some vb -> exists s : bytes, vb ∈ h_live h /\ h_str h !! vb = Some s /\ existsb (Z.eqb 0) s = true /\
                 Tree.n_vstr (reify St (T i d cs)) = Some (cstr s)) /\
    (rd_vstr d = None -> Tree.n_vstr (reify St (T i d cs)) = None).
  Proof.
    intros Hn. destruct (WF_live_dat _ _ _ _ _ W (node_find h F I _ Hn)) as [Hl Hd]. split; [|split].
    - exact (run_get_vstr_plain _ _ _ Hl Hd).
    - intros vb Hvb. destruct (proj2 (MInv_node_data _ _ I _ Hn)) as [Hr _]. destruct (Hr vb Hvb) as (Hvl & s & Hs & Hz).
      exists s. split; [done|]. split; [done|]. split; [done|]. rewrite reify_unfold. cbn [Tree.n_vstr]. rewrite Hvb. cbn. unfold bytes in *. by rewrite Hs.
    - intros Hv. rewrite reify_unfold. cbn [Tree.n_vstr]. by rewrite Hv.
  Qed.

  Lemma run_vs_is i d cs (lit s : bytes) : T i d cs ∈ nodes F -> Tree.n_vstr (reify St (T i d cs)) = Some s ->
    vs_is (Some i) lit h = Ret (strcmp s lit =? 0, h).
  Proof.
    intros Hn Hs. destruct (node_vstr i d cs Hn) as (Hg & Hsome & Hnone). unfold vs_is. stp Hg.
    destruct (rd_vstr d) as [vb|] eqn:Ev; [|rewrite (Hnone eq_refl) in Hs; discriminate].
    destruct (Hsome vb eq_refl) as (s' & Hl & Hs' & Hz & Hv). rewrite Hv in Hs. injection Hs as <-.
    stp (run_ld_cstr _ _ _ Hl Hs' Hz). done.
  Qed.

  Lemma run_decode pid dpt cpt flag opc :
    T pid dpt cpt ∈ nodes F -> PatchDefs.decode_patch_operation (reify St (T pid dpt cpt)) flag = Ok opc ->
    PatchHeapApplyDefs.decode_patch_operation (Some pid) flag h = Ret (opc, h).
  Proof.
    intros Hn. unfold PatchDefs.decode_patch_operation, PatchHeapApplyDefs.decode_patch_operation.
    assert (Hzop : SortSpec.zfree PatchDefs.s_op) by (repeat constructor; done).
    destruct (run_member pid dpt cpt PatchDefs.s_op flag Hn Hzop) as [Hrun Hval]. rewrite Hval. stp Hrun.
    destruct (found_member St flag PatchDefs.s_op cpt) as [[j m]|] eqn:Efm; cbn [fmap option_fmap option_map fst snd].
    2:{ intros [= <-]. unfold cJSON_IsString. cbn [is_null]. by rewrite bindM_ret. }
    destruct (member_node _ _ _ _ _ _ _ Hn Efm) as [Hm _]. destruct m as [i d cs]. cbn [tid].
    stp (run_is_string i d cs Hm). destruct (Tree.is_string (reify St (T i d cs))); cbn [negb]; [|by intros [= <-]].
    destruct (Tree.n_vstr (reify St (T i d cs))) as [s|] eqn:Es; [|done].
    stp (run_vs_is i d cs PatchDefs.s_add s Hm Es). destruct (strcmp s PatchDefs.s_add =? 0); [by intros [= <-]|].
    stp (run_vs_is i d cs PatchDefs.s_remove s Hm Es). destruct (strcmp s PatchDefs.s_remove =? 0); [by intros [= <-]|].
    stp (run_vs_is i d cs PatchDefs.s_replace s Hm Es). destruct (strcmp s PatchDefs.s_replace =? 0); [by intros [= <-]|].
    stp (run_vs_is i d cs PatchDefs.s_move s Hm Es). destruct (strcmp s PatchDefs.s_move =? 0); [by intros [= <-]|].
    stp (run_vs_is i d cs PatchDefs.s_copy s Hm Es). destruct (strcmp s PatchDefs.s_copy =? 0); [by intros [= <-]|].
    stp (run_vs_is i d cs PatchDefs.s_test s Hm Es). destruct (strcmp s PatchDefs.s_test =? 0); by intros [= <-].
  Qed.
End Lookups.

(** * the final insertions, between the allocation and the release of the copy of the path *)
Lemma CsReads_transfer h h' c nm :
  CsReads h c nm -> (forall b off, c = CAt b off -> h_str h' !! b = h_str h !! b /\ b ∈ h_live h') -> CsReads h' c nm.
Proof.
  destruct c as [|b off|l]; cbn [CsReads]; [done| |done].
  intros (Hl & s & Hs & Hz & E) H. destruct (H b off eq_refl) as [H1 H2]. split; [done|]. exists s. by rewrite H1.
Qed.

Section MidSteps.
  Context (NL0 : Prop) (B : positive) (h : heap) (F : forest).
  Hypothesis M : Mid NL0 B h F.
  Let I : MInv h F := md_inv _ _ _ _ M.
  Let W : WF h F := mi_wf _ _ I.
  Let ND : NoDup (ids F) := wf_nodup _ _ W.

  Lemma container_facts p x tx d cs :
    find_root x F = Some tx -> find_tree p (remove_root x F) = Some (T p d cs) ->
    find_tree p F = Some (T p d cs) /\ is_ref d = false /\ p <> x.
  Proof.
    intros Hx Hp. pose proof (find_tree_remove_root _ _ _ _ _ ND Hx Hp) as HpF. split; [done|].
    apply find_tree_Some in HpF as [Hn _]. split; [exact (node_not_ref h F I _ _ _ Hn)|].
    intros ->. eapply (container_ne_root F x x tx d cs); eauto.
  Qed.

  Lemma Mid_add_to_array p x tx d cs :
    find_root x F = Some tx -> find_tree p (remove_root x F) = Some (T p d cs) ->
    let F' := set_children p (cs ++ [tx]) (remove_root x F) in
    exists h', add_item_to_array (Some p) (Some x) h = Ret (true, h') /\ Mid NL0 B h' F' /\ h_str h' = h_str h /\ h_next h' = h_next h.
  Proof.
    intros Hx Hp F'. destruct (container_facts p x tx d cs Hx Hp) as (HpF & Href & Hpx).
    destruct (add_item_to_array_sim h F p x tx d cs W Hpx Hx Hp Href) as (_ & Hrun & W').
    eexists. split; [exact Hrun|]. split; [|done].
    apply (Mid_relink NL0 B h F F'); [done|done| |].
    - exact (Cons_ok _ _ _ _ (Cons_add_item_to_array _ _) Hrun (mi_ok _ _ I)).
    - apply (datas_move_root F x tx p d cs); [done..|]. symmetry. apply Permutation_cons_append.
  Qed.

  Lemma insert_at_end {A} (a : A) (l : list A) : insert_at (length l) a l = l ++ [a].
  Proof. unfold insert_at. by rewrite take_ge, drop_ge by lia. Qed.

  Lemma Mid_insert p x tx d cs idx :
    find_root x F = Some tx -> find_tree p (remove_root x F) = Some (T p d cs) -> 0 <= idx ->
    if idx >? Z.of_nat (length cs) then insert_item_in_array (Some p) idx (Some x) h = Ret (false, h)
    else
      let F' := set_children p (insert_at (Z.to_nat idx) tx cs) (remove_root x F) in
      exists h', insert_item_in_array (Some p) idx (Some x) h = Ret (true, h') /\ Mid NL0 B h' F' /\ h_str h' = h_str h /\ h_next h' = h_next h.
  Proof.
    intros Hx Hp Hi. destruct (container_facts p x tx d cs Hx Hp) as (HpF & Href & Hpx).
    destruct (Z.gtb_spec idx (Z.of_nat (length cs))) as [Hgt|Hle].
    - exact (proj1 (u_insert_refused h F p x tx d cs W Hpx Hx Hp Href idx ltac:(lia))).
    - intros F'.
      assert (HD : datas F' ≡ₚ datas F).
      { apply (datas_move_root F x tx p d cs); [done..|]. unfold insert_at.
        rewrite <- (take_drop (Z.to_nat idx) cs) at 3. by rewrite Permutation_middle. }
      destruct (decide (Z.to_nat idx < length cs)%nat) as [Hlt|Hge].
      + destruct (u_insert_sim_before h F p x tx d cs W Hpx Hx Hp Href idx Hi Hlt) as (_ & Hrun & W').
        eexists. split; [exact Hrun|]. split; [|done].
        apply (Mid_relink NL0 B h F F'); [done|done| |done].
        exact (Cons_ok _ _ _ _ (Cons_insert_item_in_array _ _ _) Hrun (mi_ok _ _ I)).
      + assert (Eidx : idx = Z.of_nat (length cs)) by lia.
        destruct (u_insert_sim_append h F p x tx d cs W Hpx Hx Hp Href idx Eidx) as (_ & Hrun & W').
        assert (EF : F' = set_children p (cs ++ [tx]) (remove_root x F)).
        { unfold F'. rewrite Eidx, Nat2Z.id. by rewrite insert_at_end. }
        rewrite <- EF in Hrun, W'.
        eexists. split; [exact Hrun|]. split; [|done].
        apply (Mid_relink NL0 B h F F'); [done|done| |done].
        exact (Cons_ok _ _ _ _ (Cons_insert_item_in_array _ _ _) Hrun (mi_ok _ _ I)).
  Qed.

  (** cJSON_DeleteItemFromObject[CaseSensitive](parent, child_pointer) *)
  Lemma Mid_delete_key p d cs c nm flag :
    find_tree p F = Some (T p d cs) -> CsReads h c nm ->
    let F' := match found_member (h_str h) flag nm cs with Some (j, _) => set_children p (delete j cs) F | None => F end in
    exists h',
      (it <~ (to_detach <~ get_object_item_s (Some p) c flag ;; cJSON_DetachItemViaPointer (Some p) to_detach) ;; cJSON_Delete it) h = Ret (tt, h') /\
      Mid NL0 B h' F' /\ (forall b, b ∈ owned F' -> h_str h' !! b = h_str h !! b) /\ h_str h' !! B = h_str h !! B /\
      h_next h' = h_next h.
  Proof.
    intros Hp Hc F'. pose proof Hp as Hp0. apply find_tree_Some in Hp0 as [Hn _].
    pose proof (node_not_ref h F I _ _ _ Hn) as Href.
    destruct (found_member (h_str h) flag nm cs) as [[j m]|] eqn:Efm.
    - destruct (detach_by_key_s_found h F p d cs c nm W (MInv_KeysReadable _ _ I) Hp Hc Href flag j m Efm) as (Hrun & W1 & Hj).
      set (F1 := set_children p (delete j cs) F ++ [m]) in *.
      set (h1 := upd_maps h (heap_lnk_of F1) (heap_dat_of F1)) in *.
      assert (M1 : Mid NL0 B h1 F1).
      { apply (Mid_relink NL0 B h F F1); [done|done| |exact (datas_detach F p d cs j m ND Hp Hj)].
        refine (Cons_ok _ _ _ _ _ Hrun (mi_ok _ _ I)). apply Cons_bind; [apply Cons_get_object_item_s|intros a; apply Cons_cJSON_DetachItemViaPointer]. }
      destruct (Mid_delete_last NL0 B h1 _ m M1) as (h' & Hdel & M' & K & HB & En).
      exists h'. rewrite (bindM_Ret _ _ _ _ _ Hrun). split; [exact Hdel|]. split; [exact M'|]. split; [|done].
      intros b Hb. by rewrite (K b Hb).
    - pose proof (detach_by_key_s_none h F p d cs c nm W (MInv_KeysReadable _ _ I) Hp Hc Href flag Efm) as Hrun.
      exists h. rewrite (bindM_Ret _ _ _ _ _ Hrun). split; [apply step_delete_null|]. done.
  Qed.

  (** cJSON_AddItemToObject(parent, child_pointer, value) *)
  Lemma Mid_add_to_object p x d dx cs csx c nm :
    find_root x F = Some (T x dx csx) -> find_tree p (remove_root x F) = Some (T p d cs) -> CsReads h c nm ->
    let nk := h_next h in
    let d' := rd_owned_key dx nk in
    let F' := set_children p (cs ++ [T x d' csx]) (remove_root x F) in
    exists h', cJSON_AddItemToObject_s nofail (Some p) c (Some x) h = Ret (true, h') /\ Mid NL0 B h' F' /\
      (forall b, b ∈ owned F -> b ∉ old_key dx -> h_str h' !! b = h_str h !! b) /\
      h_str h' !! nk = Some (nm ++ [0]) /\ h_str h' !! B = h_str h !! B /\ h_next h' = Pos.succ (h_next h).
  Proof.
    intros Hx Hp Hc nk d' F'. destruct (container_facts p x _ d cs Hx Hp) as (HpF & Href & Hpx).
    pose proof (md_fresh _ _ _ _ M) as Hno. pose proof (md_live _ _ _ _ M) as Hl. pose proof (md_own _ _ _ _ M) as Ho.
    pose proof (md_isstr _ _ _ _ M) as Hs. pose proof (md_leak _ _ _ _ M) as NL.
    destruct (cJSON_AddItemToObject_s_sim_owned nofail h F p x dx d csx cs c nm W Hpx Hx Hp Href Hc eq_refl) as (Hrun & W').
    fold nk d' F' in Hrun, W'.
    set (hb := free_all (old_key dx) (alloc_str h (nm ++ [0]))) in *.
    set (h' := upd_maps hb (heap_lnk_of F') (heap_dat_of F')) in *.
    destruct (datas_add_to_object F x dx csx p d cs ND Hx Hp) as (DR & HD & HD').
    specialize (HD' d'). fold F' in HD'.
    assert (Hdx : (x, dx) ∈ datas F) by (rewrite HD; by left).
    destruct (mi_own _ _ I _ Hdx) as [Hrefx Hconstx]. cbn [snd] in *.
    assert (Hfresh : nk ∉ owned F) by (intros Hin; exact (Pos.lt_irrefl _ (wf_fresh _ _ W _ Hin))).
    assert (Hrel : forall b, released F F' b <-> b ∈ old_key dx).
    { intros b. eapply (released_rekey F F' x dx d' DR b (wf_owned_nodup _ _ W) HD HD'); [reflexivity|apply is_ref_set_key_clear|].
      intros k Hk. unfold old_key, d' in Hk. rewrite is_const_set_key_clear in Hk. cbn in Hk.
      apply elem_of_list_singleton in Hk as ->. exact Hfresh. }
    assert (HBk : B ∉ old_key dx).
    { intros Hin. apply Hno. rewrite owned_datas. apply owned_of_elem. exists (x, dx). split; [done|]. right. cbn.
      rewrite owned_strs_split. apply elem_of_app. by right. }
    assert (HBnk : B <> nk).
    { intros ->. pose proof (hk_live _ (mi_ok _ _ I) _ Hl). unfold nk in H. lia. }
    assert (Hnk : h_str h' !! nk = Some (nm ++ [0])).
    { unfold h', hb. cbn [h_str upd_maps]. rewrite free_all_str_lookup.
      - cbn. by rewrite lookup_insert.
      - intros Hin. apply Hfresh. by apply (proj2 (Hrel nk)). }
    assert (Hsame : forall b, b ∈ owned F -> b ∉ old_key dx -> h_str h' !! b = h_str h !! b).
    { intros b Hb Hn. unfold h', hb. cbn [h_str upd_maps]. rewrite free_all_str_lookup by done. cbn.
      rewrite lookup_insert_ne; [done|]. intros <-. by apply Hfresh. }
    assert (HsB : h_str h' !! B = h_str h !! B).
    { unfold h', hb. cbn [h_str upd_maps]. rewrite free_all_str_lookup by done. cbn. by rewrite lookup_insert_ne. }
    assert (Hd'F' : (x, d') ∈ datas F') by (rewrite HD'; by left).
    assert (Hown' : node_owns d').
    { split; [unfold d'; by rewrite is_ref_set_key_clear|unfold d'; apply is_const_set_key_clear]. }
    assert (Hnko : nk ∈ owned F').
    { apply (str_owned F' (x, d') nk Hd'F' Hown'). right. reflexivity. }
    assert (Hkept : forall b, b ∈ owned F' -> b ∈ owned F -> b ∉ old_key dx).
    { intros b Hb' Hb Hin. apply (proj2 (Hrel b)) in Hin as [_ Hin]. by apply Hin. }
    assert (I' : MInv h' F').
    { apply (MInv_build h h' F F' I W').
      + exact (Cons_ok _ _ _ _ (Cons_cJSON_AddItemToObject_s nofail _ _ _) Hrun (mi_ok _ _ I)).
      + intros e He. rewrite HD' in He. apply elem_of_cons in He as [->|He].
        * right. split; [exact Hown'|]. cbn [snd]. split.
          -- intros b Hb. change (rd_vstr d') with (rd_vstr dx) in Hb.
             destruct (proj1 (mi_read _ _ I _ Hdx) b Hb) as (Hbl & s & Hbs & Hbz).
             assert (Hbo : b ∈ owned F) by (apply (str_owned F (x, dx) b Hdx (mi_own _ _ I _ Hdx)); by left).
             assert (Hbo' : b ∈ owned F') by (apply (str_owned F' (x, d') b Hd'F' Hown'); by left).
             split; [by apply (wf_owned_live _ _ W')|]. exists s. split; [|done].
             rewrite Hsame; [done|done|by apply Hkept].
          -- intros b Hb. change (rd_key d') with (Some nk) in Hb. injection Hb as <-.
             split; [by apply (wf_owned_live _ _ W')|]. exists (nm ++ [0]). split; [done|].
             rewrite existsb_app. cbn. by rewrite orb_true_r.
        * left. rewrite HD. by right.
      + intros b Hb' Hb. apply Hsame; [done|by apply Hkept]. }
    exists h'. split; [exact Hrun|]. split; [|split; [exact Hsame|split; [exact Hnk|split; [exact HsB|]]]].
    - constructor; [exact I'| | | | |].
      + intros Hin. destruct (decide (B ∈ owned F)) as [HinF|HninF]; [by apply Hno|].
        rewrite owned_datas, HD' in Hin. rewrite owned_datas, HD in HninF. rewrite owned_of_cons in Hin, HninF. cbn [fst snd] in *.
        apply elem_of_app in Hin as [Hin|Hin]; [|apply HninF, elem_of_app; by right].
        apply elem_of_cons in Hin as [->|Hin]; [apply HninF, elem_of_app; left; by left|].
        rewrite owned_strs_split in Hin. apply elem_of_app in Hin as [Hin|Hin].
        * apply HninF, elem_of_app. left. right. rewrite owned_strs_split. apply elem_of_app. left.
          unfold d' in Hin. by rewrite is_ref_set_key_clear in Hin.
        * unfold old_key, d' in Hin. rewrite is_const_set_key_clear in Hin. cbn in Hin. apply elem_of_list_singleton in Hin. done.
      + unfold h', hb. cbn [h_live upd_maps]. apply free_all_live. split; [cbn; set_solver|done].
      + unfold h', hb. cbn [h_own upd_maps]. rewrite free_all_own. cbn. by rewrite lookup_insert_ne.
      + rewrite HsB. exact Hs.
      + intros H b Hb. unfold lib_live in Hb. apply elem_of_filter in Hb as [Hb1 Hb2].
        unfold h', hb in Hb1, Hb2. cbn [h_own h_live upd_maps] in Hb1, Hb2. rewrite free_all_own in Hb1.
        apply free_all_live in Hb2 as [Hb2 Hb3]. cbn in Hb1, Hb2.
        destruct (decide (b = nk)) as [->|Hne]; [by left|].
        rewrite lookup_insert_ne in Hb1 by done.
        assert (Hbl : b ∈ h_live h) by set_solver.
        destruct (NL H b) as [Hbo|Hbx]; [by apply elem_of_filter| |by right].
        left. destruct (decide (b ∈ owned F')) as [|Hn]; [done|]. exfalso. apply Hb3. apply Hrel. by split.
    - unfold h', hb. cbn. by rewrite free_all_next.
  Qed.
End MidSteps.
