(** Heap.v — the memory model under the DOM API (CoreDefs.v): blocks with identities, a
    liveness set, an allocator with a failure schedule, an event trace, and a state/error
    monad whose error outcomes ARE the memory-safety violations (use after free, double
    free, releasing or writing borrowed memory, NULL dereference, out-of-bounds).
    The node record is stored field-split: [h_lnk] holds (next, prev), [h_dat] everything
    else (including child), because the C code reads and writes single fields; "an operation
    on one container changes only the sibling links of that container's children" is then a
    statement about one map.  No proofs here. *)
From stdpp Require Import gmap.
From CJ Require Import Base Dbl.
Local Open Scope Z_scope.

Definition ptr := option positive.          (* NULL = None *)

(** who owns a block: obtained from the library's allocator, or caller memory the library
    only borrows (constant keys, referenced strings, caller arrays) *)
Inductive owner : Type := Lib | Foreign.
Global Instance owner_eq_dec : EqDecision owner.
Proof. solve_decision. Defined.

(** the fields of struct cJSON other than next/prev *)
Record ndata : Type := mkND {
  nd_type : Z;
  nd_vstr : ptr;        (* valuestring: a string block *)
  nd_vint : Z;
  nd_vdbl : dbl;
  nd_key : ptr;         (* string: a string block *)
  nd_child : ptr
}.
Definition nd0 : ndata := mkND 0 None 0 dzero None None.       (* memset(node, 0, sizeof(cJSON)) *)

(** which function pointer an allocation or release went through *)
Inductive via : Type := UserHook | LibcFn.
Inductive event : Type :=
| EvAlloc (id : positive) (v : via)
| EvFree (id : positive) (v : via)
| EvFreeNull (v : via).

(** global_hooks: which members are the user's.  reallocate is non-NULL iff both are defaults. *)
Record hooks : Type := mkHooks { hk_malloc_custom : bool; hk_free_custom : bool }.
Definition default_hooks : hooks := mkHooks false false.
Definition hooks_realloc_available (h : hooks) : bool := negb (hk_malloc_custom h) && negb (hk_free_custom h).

Record heap : Type := mkHeap {
  h_lnk : gmap positive (ptr * ptr);    (* node id -> (next, prev) *)
  h_dat : gmap positive ndata;          (* node id -> other fields *)
  h_str : gmap positive bytes;          (* string block id -> raw bytes of the block (C string = [cstr]) *)
  h_own : gmap positive owner;          (* every block that was ever created *)
  h_live : gset positive;               (* blocks that may be accessed *)
  h_next : positive;                    (* next fresh identity *)
  h_req : nat;                          (* allocation requests made so far *)
  h_hooks : hooks;                      (* global_hooks *)
  h_trace : list event                  (* newest first *)
}.
Definition empty_heap : heap := mkHeap ∅ ∅ ∅ ∅ ∅ 1%positive 0 default_hooks [].

Inductive err : Type :=
| UAF            (* access to a block that is not live *)
| DoubleFree     (* release of a library block that is not live *)
| ForeignFree    (* release of a block the library does not own *)
| ForeignWrite   (* write to a block the library does not own *)
| NullDeref
| BadBlock       (* node access to a string block or vice versa, unknown identity *)
| OutOfBounds
| NoFuel.

Inductive out (A : Type) : Type := Ret (a : A) | Err (e : err).
Arguments Ret {A} a.
Arguments Err {A} e.

Definition M (A : Type) : Type := heap -> out (A * heap).
Definition ret {A} (a : A) : M A := fun h => Ret (a, h).
Definition fail {A} (e : err) : M A := fun _ => Err e.
Definition bindM {A B} (m : M A) (f : A -> M B) : M B :=
  fun h => match m h with Ret (a, h') => f a h' | Err e => Err e end.
Notation "x <~ m ;; f" := (bindM m (fun x => f)) (at level 62, m at next level, right associativity).
Notation "m ;;; f" := (bindM m (fun _ => f)) (at level 62, right associativity).
Definition get_heap : M heap := fun h => Ret (h, h).

Section Allocator.
  (** allocation failure schedule: request number k (0-based, counted over the whole history) fails *)
  Variable oracle : nat -> bool.

  Definition via_malloc (h : heap) : via := if hk_malloc_custom (h_hooks h) then UserHook else LibcFn.
  Definition via_free (h : heap) : via := if hk_free_custom (h_hooks h) then UserHook else LibcFn.

  Definition bump (h : heap) : heap :=
    mkHeap (h_lnk h) (h_dat h) (h_str h) (h_own h) (h_live h) (h_next h) (S (h_req h)) (h_hooks h) (h_trace h).

  (** hooks->allocate(sizeof(cJSON)) followed by memset 0: NULL on failure *)
  Definition alloc_node : M ptr := fun h =>
    if oracle (h_req h) then Ret (None, bump h)
    else
      let id := h_next h in
      Ret (Some id,
           mkHeap (<[id := (None, None)]> (h_lnk h)) (<[id := nd0]> (h_dat h)) (h_str h)
                  (<[id := Lib]> (h_own h)) ({[id]} ∪ h_live h) (Pos.succ id) (S (h_req h)) (h_hooks h)
                  (EvAlloc id (via_malloc h) :: h_trace h)).

  (** hooks->allocate(n) for a byte block of n bytes with the given initial contents
      ([init] has length n; uninitialised memory is modelled by the caller's choice of bytes) *)
  Definition alloc_bytes (init : bytes) : M ptr := fun h =>
    if oracle (h_req h) then Ret (None, bump h)
    else
      let id := h_next h in
      Ret (Some id,
           mkHeap (h_lnk h) (h_dat h) (<[id := init]> (h_str h))
                  (<[id := Lib]> (h_own h)) ({[id]} ∪ h_live h) (Pos.succ id) (S (h_req h)) (h_hooks h)
                  (EvAlloc id (via_malloc h) :: h_trace h)).
End Allocator.

(** caller memory: a block the library may read but neither write nor release *)
Definition foreign_bytes (contents : bytes) : M ptr := fun h =>
  let id := h_next h in
  Ret (Some id, mkHeap (h_lnk h) (h_dat h) (<[id := contents]> (h_str h)) (<[id := Foreign]> (h_own h))
                       ({[id]} ∪ h_live h) (Pos.succ id) (h_req h) (h_hooks h) (h_trace h)).

(** hooks->deallocate(p).  free(NULL) is a no-op (recorded).  The contents of a released block
    are erased, so that any later access is an error by construction. *)
Definition free_block (p : ptr) : M unit := fun h =>
  match p with
  | None => Ret (tt, mkHeap (h_lnk h) (h_dat h) (h_str h) (h_own h) (h_live h) (h_next h) (h_req h) (h_hooks h)
                            (EvFreeNull (via_free h) :: h_trace h))
  | Some id =>
      match h_own h !! id with
      | None => Err BadBlock
      | Some Foreign => Err ForeignFree
      | Some Lib =>
          if decide (id ∈ h_live h) then
            Ret (tt, mkHeap (delete id (h_lnk h)) (delete id (h_dat h)) (delete id (h_str h)) (h_own h)
                            (h_live h ∖ {[id]}) (h_next h) (h_req h) (h_hooks h)
                            (EvFree id (via_free h) :: h_trace h))
          else Err DoubleFree
      end
  end.

(** field access; every access checks NULL and liveness *)
Definition chk (p : ptr) : M positive := fun h =>
  match p with
  | None => Err NullDeref
  | Some id => if decide (id ∈ h_live h) then Ret (id, h) else Err UAF
  end.

Definition ld_lnk (p : ptr) : M (ptr * ptr) :=
  id <~ chk p ;; fun h => match h_lnk h !! id with Some l => Ret (l, h) | None => Err BadBlock end.
Definition ld_dat (p : ptr) : M ndata :=
  id <~ chk p ;; fun h => match h_dat h !! id with Some d => Ret (d, h) | None => Err BadBlock end.
Definition ld_str (p : ptr) : M bytes :=
  id <~ chk p ;; fun h => match h_str h !! id with Some s => Ret (s, h) | None => Err BadBlock end.

Definition st_lnk (p : ptr) (l : ptr * ptr) : M unit :=
  id <~ chk p ;; fun h =>
    match h_lnk h !! id with
    | None => Err BadBlock
    | Some _ => Ret (tt, mkHeap (<[id := l]> (h_lnk h)) (h_dat h) (h_str h) (h_own h) (h_live h) (h_next h) (h_req h) (h_hooks h) (h_trace h))
    end.
Definition st_dat (p : ptr) (d : ndata) : M unit :=
  id <~ chk p ;; fun h =>
    match h_dat h !! id with
    | None => Err BadBlock
    | Some _ => Ret (tt, mkHeap (h_lnk h) (<[id := d]> (h_dat h)) (h_str h) (h_own h) (h_live h) (h_next h) (h_req h) (h_hooks h) (h_trace h))
    end.
(** overwrite the whole contents of a byte block (same size); borrowed blocks may not be written *)
Definition st_str (p : ptr) (s : bytes) : M unit :=
  id <~ chk p ;; fun h =>
    match h_str h !! id, h_own h !! id with
    | Some old, Some Lib =>
        if (length s =? length old)%nat then
          Ret (tt, mkHeap (h_lnk h) (h_dat h) (<[id := s]> (h_str h)) (h_own h) (h_live h) (h_next h) (h_req h) (h_hooks h) (h_trace h))
        else Err OutOfBounds
    | Some _, Some Foreign => Err ForeignWrite
    | _, _ => Err BadBlock
    end.

(** single fields of struct cJSON *)
Definition get_next (p : ptr) : M ptr := l <~ ld_lnk p ;; ret (fst l).
Definition get_prev (p : ptr) : M ptr := l <~ ld_lnk p ;; ret (snd l).
Definition set_next (p v : ptr) : M unit := l <~ ld_lnk p ;; st_lnk p (v, snd l).
Definition set_prev (p v : ptr) : M unit := l <~ ld_lnk p ;; st_lnk p (fst l, v).
Definition get_child (p : ptr) : M ptr := d <~ ld_dat p ;; ret (nd_child d).
Definition get_type (p : ptr) : M Z := d <~ ld_dat p ;; ret (nd_type d).
Definition get_vstr (p : ptr) : M ptr := d <~ ld_dat p ;; ret (nd_vstr d).
Definition get_key (p : ptr) : M ptr := d <~ ld_dat p ;; ret (nd_key d).
Definition set_child (p v : ptr) : M unit :=
  d <~ ld_dat p ;; st_dat p (mkND (nd_type d) (nd_vstr d) (nd_vint d) (nd_vdbl d) (nd_key d) v).
Definition set_type (p : ptr) (t : Z) : M unit :=
  d <~ ld_dat p ;; st_dat p (mkND t (nd_vstr d) (nd_vint d) (nd_vdbl d) (nd_key d) (nd_child d)).
Definition set_vstr (p v : ptr) : M unit :=
  d <~ ld_dat p ;; st_dat p (mkND (nd_type d) v (nd_vint d) (nd_vdbl d) (nd_key d) (nd_child d)).
Definition set_key (p v : ptr) : M unit :=
  d <~ ld_dat p ;; st_dat p (mkND (nd_type d) (nd_vstr d) (nd_vint d) (nd_vdbl d) v (nd_child d)).
Definition set_vint (p : ptr) (i : Z) : M unit :=
  d <~ ld_dat p ;; st_dat p (mkND (nd_type d) (nd_vstr d) i (nd_vdbl d) (nd_key d) (nd_child d)).
Definition set_vdbl (p : ptr) (x : dbl) : M unit :=
  d <~ ld_dat p ;; st_dat p (mkND (nd_type d) (nd_vstr d) (nd_vint d) x (nd_key d) (nd_child d)).

(** the C string stored in a byte block (bytes before the first zero); reading a block without
    terminator runs off its end *)
Definition ld_cstr (p : ptr) : M bytes :=
  s <~ ld_str p ;; if existsb (Z.eqb 0) s then ret (cstr s) else fail OutOfBounds.

(** cJSON_InitHooks *)
Definition set_hooks (hk : hooks) : M unit := fun h =>
  Ret (tt, mkHeap (h_lnk h) (h_dat h) (h_str h) (h_own h) (h_live h) (h_next h) (h_req h) hk (h_trace h)).

(** the ledger: live blocks owned by the library *)
Definition lib_live (h : heap) : gset positive :=
  stdpp.base.filter (fun id => h_own h !! id = Some Lib) (h_live h).
