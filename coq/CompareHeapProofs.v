(** CompareHeapProofs.v — the heap-level [cJSON_Compare] (CompareHeapDefs.v) REFINES the value-level
    [CompareDefs.compare_rec] on what the heap READS as from the two operands ([cmp_view], CompareHeapViewDefs.v).

    Everything here is about ONE heap [h] and the labelled trees it reads as ([src_t]); no forest, no [WF]:
    the layer that produces views from a well-formed forest is CompareHeapForest.v.

      [goi_view]            [CoreDefs.get_object_item] on a view: first match by key, both case modes
      [arr_loop_view]       the array loop       = [CompareProofs.arr_loop]
      [obj_loop_view]       one member loop      = [CompareProofs.obj_loop]
      [compare_fuel_view]   the recursion: for views of depth [k], any [df > k] and [vf > k]:
                            the run returns a boolean [r] in the SAME heap and [compare_rec vf … = Some r] *)
From CJ Require Import Base Dbl Heap Forest ForestLemmas CoreSpec CoreDefs CoreRefineBase CoreRefineObject
  CoreRefineDupBase CoreRefineDupTree CoreRefineDupLoop CoreRefineDupValue CoreRefineDupForest.
From CJ Require Import TierBridgeDefs TierBridgeLemmas GenMergeHeapDefs CompareHeapDefs CompareHeapRO CompareHeapViewDefs.
From CJ Require Tree CompareDefs CompareProofs SortSpec.
From CJ.gen Require Import Constants.
From stdpp Require Import gmap.
From Coq Require Import Lia.

Ltac stp H := rewrite ?bindM_assoc; rewrite (bindM_Ret _ _ _ _ _ H).

(** * small facts about views *)
Lemma okpair_sym St cs x y : okpair St cs x y -> okpair St cs y x.
Proof.
  induction 1 as [x Hx|x y Hne Hc IH]; [by apply okp_same|].
  apply okp_diff; [done|]. intros cy cx Hcy Hcx. by apply IH.
Qed.

Lemma src_list_Forall h lf k l : src_list h lf k l -> Forall (src_t h lf k) l.
Proof.
  induction l as [|c r IH]; [done|]. rewrite src_list_cons. intros (_ & Hc & Hr). constructor; [done|by apply IH].
Qed.
Lemma src_list_tail h lf k c r : src_list h lf k (c :: r) -> src_list h lf k r.
Proof. rewrite src_list_cons. tauto. Qed.
Lemma src_list_next h lf k c r : src_list h lf k (c :: r) -> get_next (Some (tid c)) h = Ret (head (tid <$> r), h).
Proof. rewrite src_list_cons. intros ((pv & Hl & He) & _). by rewrite (run_get_next_plain _ _ _ Hl He). Qed.

Lemma keys_readable_child h i d cs c : keys_readable h (T i d cs) -> c ∈ cs -> keys_readable h c.
Proof. intros H Hc i' d' ks' He. apply (H i' d' ks'). by eapply flat_t_child. Qed.
Lemma keys_readable_root h i d cs b : keys_readable h (T i d cs) -> rd_key d = Some b -> readable h b.
Proof. intros H. apply (H i d (tid <$> cs)). rewrite flat_t_unfold. by left. Qed.

Lemma readable_run h b : readable h b ->
  exists s : bytes, b ∈ h_live h /\ h_str h !! b = Some s /\ existsb (Z.eqb 0) s = true /\ ld_cstr (Some b) h = Ret (cstr s, h).
Proof. intros (s & [Hl Hs] & Hz). exists s. split_and!; try done. by apply run_ld_cstr. Qed.

(** a complete view is not deeper than the number of levels it was read to *)
Lemma src_t_height h lf : forall k t, src_t h lf k t -> height t <= k.
Proof.
  induction k as [|k IH]; intros [i d cs].
  - rewrite src_t_O. intros [_ ->]. done.
  - rewrite src_t_S. intros (_ & _ & Hl). rewrite height_unfold.
    apply src_list_Forall in Hl. induction Hl as [|c r Hc _ IHr]; cbn; [lia|]. specialize (IH c Hc). lia.
Qed.

(** depth of the value = height of the view + 1 *)
Lemma node_depth_reify St : forall t, Tree.node_depth (reify St t) = S (height t).
Proof.
  induction t as [i d cs IH] using tree_ind'. rewrite CompareProofs.node_depth_eq, reify_children, height_unfold.
  cbn [tchildren]. f_equal. induction IH as [|c r Hc _ IHr]; [done|]. cbn [map CompareProofs.max_depth height_list].
  rewrite Hc, IHr. done.
Qed.

(** the child pointer of a node whose view is complete is the head of its children *)
Lemma child_of_complete d (ks : list positive) : (ks = [] -> rd_ref d = None) -> child_of d ks = head ks.
Proof. destruct ks as [|c r]; [|done]. intros H. cbn. by apply H. Qed.

(** what one level of a complete view gives *)
Lemma view_unfold h k i d cs :
  cmp_view h k (T i d cs) ->
  src_node h (Pos.to_nat (h_next h)) i d (tid <$> cs) /\ child_of d (tid <$> cs) = head (tid <$> cs) /\
  src_list h (Pos.to_nat (h_next h)) (Nat.pred k) cs /\ Forall (cmp_view h (Nat.pred k)) cs /\ (cs = [] \/ 0 < k).
Proof.
  intros (Hs & Hc & Hk). pose proof (complete_children _ _ _ Hc) as Hcc.
  destruct k as [|k].
  - rewrite src_t_O in Hs. destruct Hs as [Hn ->]. split; [done|]. split.
    + apply child_of_complete. intros _. by apply (complete_root i).
    + split; [done|]. split; [constructor|by left].
  - rewrite src_t_S in Hs. destruct Hs as (Hn & Hr & Hl). split; [done|]. split.
    + apply child_of_complete. intros E. apply fmap_nil_inv in E. by apply Hr.
    + cbn [Nat.pred]. split; [done|]. split; [|right; lia].
      apply Forall_forall. intros c Hin. rewrite Forall_forall in Hcc. split_and!.
      * pose proof (src_list_Forall _ _ _ _ Hl) as HF. rewrite Forall_forall in HF. by apply HF.
      * by apply Hcc.
      * by eapply keys_readable_child.
Qed.

Lemma okpair_inv St cs x y : okpair St cs x y ->
  (x = y /\ refl_ok cs (reify St x)) \/
  (tid x <> tid y /\ forall cx cy, cx ∈ tchildren x -> cy ∈ tchildren y -> okpair St cs cx cy).
Proof. destruct 1; [left|right]; done. Qed.

(** * [get_object_item] on a view *)
Section GOI.
  Context (h : heap) (nb : positive) (sn : bytes).
  Notation lf := (Pos.to_nat (h_next h)).
  Notation St := (h_str h).
  Hypothesis Hnl : nb ∈ h_live h.
  Hypothesis Hns : h_str h !! nb = Some sn.
  Hypothesis Hnz : existsb (Z.eqb 0) sn = true.

  Lemma goi_view_member k c :
    cmp_view h k c ->
    nd_at h (tid c) (mk_dat (tdata c) (cids c)) /\ (forall b, rd_key (tdata c) = Some b -> readable h b).
  Proof.
    destruct c as [ci cd ccs]. intros (Hs & _ & Hk). apply src_t_node in Hs as (Hnd & _). split; [done|].
    intros b Hb. by eapply keys_readable_root.
  Qed.

  Lemma goi_view_loop_cs k : forall l, src_list h lf k l -> Forall (cmp_view h k) l ->
    forall fuel, length l < fuel ->
    (cur <~ get_object_item_loop_cs fuel (head (tid <$> l)) (Some nb) ;; goi_post cur) h =
    Ret (find_key_cs St (cstr sn) l, h).
  Proof.
    induction l as [|c r IH]; intros Hl HF fuel Hf; (destruct fuel as [|fuel]; [cbn in Hf; lia|]).
    { done. }
    cbn [get_object_item_loop_cs fmap list_fmap head is_null].
    apply Forall_cons in HF as [Hc HF]. destruct (goi_view_member k c Hc) as ([Hlc Hdc] & Hkr).
    cbn [find_key_cs]. unfold key_string.
    rewrite !bindM_assoc. rewrite (bindM_Ret _ _ _ _ _ (run_get_key_plain _ _ _ Hlc Hdc)).
    change (nd_key (mk_dat (tdata c) (cids c))) with (rd_key (tdata c)).
    destruct (rd_key (tdata c)) as [b|] eqn:Hkey; cbn [is_null mbind option_bind].
    2:{ rewrite bindM_ret. unfold goi_post. cbn [is_null].
        rewrite (bindM_Ret _ _ _ _ _ (run_get_key_plain _ _ _ Hlc Hdc)). cbn. by rewrite Hkey. }
    destruct (readable_run h b (Hkr b eq_refl)) as (sb & Hbl & Hbs & Hbz & Hrunb). rewrite Hbs. cbn [mbind option_bind].
    rewrite !bindM_assoc. rewrite (bindM_Ret _ _ _ _ _ (run_ld_cstr _ _ _ Hnl Hns Hnz)).
    rewrite !bindM_assoc. rewrite (bindM_Ret _ _ _ _ _ Hrunb).
    destruct (Z.eqb_spec (strcmp (cstr sn) (cstr sb)) 0) as [He|Hne]; cbn [negb].
    - apply strcmp_zero_iff in He; [|apply cstr_nonzero..]. rewrite bool_decide_eq_true_2 by done.
      rewrite bindM_ret. unfold goi_post. cbn [is_null].
      rewrite (bindM_Ret _ _ _ _ _ (run_get_key_plain _ _ _ Hlc Hdc)). cbn. by rewrite Hkey.
    - rewrite bool_decide_eq_false_2 by (intros He; apply Hne; apply strcmp_zero_iff; [apply cstr_nonzero..|done]).
      rewrite !bindM_assoc. rewrite (bindM_Ret _ _ _ _ _ (src_list_next _ _ _ _ _ Hl)).
      apply IH; [by eapply src_list_tail|done|cbn in Hf; lia].
  Qed.

  Lemma goi_view_loop_ci k : forall l, src_list h lf k l -> Forall (cmp_view h k) l ->
    forall fuel, length l < fuel ->
    (cur <~ get_object_item_loop_ci fuel (head (tid <$> l)) (Some nb) ;; goi_post cur) h =
    Ret (find_key_ci St (cstr sn) l, h).
  Proof.
    induction l as [|c r IH]; intros Hl HF fuel Hf; (destruct fuel as [|fuel]; [cbn in Hf; lia|]).
    { done. }
    cbn [get_object_item_loop_ci fmap list_fmap head is_null].
    apply Forall_cons in HF as [Hc HF]. destruct (goi_view_member k c Hc) as ([Hlc Hdc] & Hkr).
    cbn [find_key_ci]. unfold key_string.
    rewrite !bindM_assoc. rewrite (bindM_Ret _ _ _ _ _ (run_get_key_plain _ _ _ Hlc Hdc)).
    change (nd_key (mk_dat (tdata c) (cids c))) with (rd_key (tdata c)).
    unfold case_insensitive_strcmp.
    pose proof (src_list_next _ _ _ _ _ Hl) as Hnext.
    assert (Hrec : (cur <~ get_object_item_loop_ci fuel (head (tid <$> r)) (Some nb) ;; goi_post cur) h =
                   Ret (find_key_ci St (cstr sn) r, h)).
    { apply IH; [by eapply src_list_tail|done|cbn in Hf; lia]. }
    destruct (rd_key (tdata c)) as [b|] eqn:Hkey; cbn [is_null orb mbind option_bind].
    2:{ rewrite !bindM_assoc, bindM_ret. cbn. rewrite !bindM_assoc. rewrite (bindM_Ret _ _ _ _ _ Hnext). exact Hrec. }
    destruct (readable_run h b (Hkr b eq_refl)) as (sb & Hbl & Hbs & Hbz & Hrunb). rewrite Hbs. cbn [mbind option_bind].
    assert (Hfound : goi_post (Some (tid c)) h = Ret (Some (tid c), h)).
    { unfold goi_post. cbn [is_null]. rewrite (bindM_Ret _ _ _ _ _ (run_get_key_plain _ _ _ Hlc Hdc)). cbn. by rewrite Hkey. }
    cbn [ptr_eqb]. destruct (Pos.eqb_spec nb b) as [->|Hnbb].
    - rewrite !bindM_assoc, bindM_ret. cbn [Z.eqb negb]. rewrite bindM_ret.
      assert (sb = sn) as -> by congruence. by rewrite bool_decide_eq_true_2.
    - rewrite !bindM_assoc. rewrite (bindM_Ret _ _ _ _ _ (run_ld_cstr _ _ _ Hnl Hns Hnz)).
      rewrite !bindM_assoc. rewrite (bindM_Ret _ _ _ _ _ Hrunb).
      rewrite bindM_ret.
      destruct (Z.eqb_spec (strcasecmp_c (cstr sn) (cstr sb)) 0) as [He|Hne]; cbn [negb].
      + apply strcasecmp_zero_iff in He; [|apply cstr_nonzero..]. rewrite bool_decide_eq_true_2 by done.
        by rewrite bindM_ret.
      + rewrite bool_decide_eq_false_2 by (intros He; apply Hne; apply strcasecmp_zero_iff; [apply cstr_nonzero..|done]).
        rewrite !bindM_assoc. rewrite (bindM_Ret _ _ _ _ _ Hnext). exact Hrec.
  Qed.

  (** the member found, as a position in the view and as a value *)
  Lemma goi_view k j dy ys (cs : bool) :
    cmp_view h k (T j dy ys) ->
    get_object_item (Some j) (Some nb) cs h =
    Ret ((fun kc => tid kc.2) <$> found_member St cs (cstr sn) ys, h).
  Proof.
    intros Hv. destruct (view_unfold _ _ _ _ _ Hv) as (([Hl Hd] & Hlen & _) & Hch & Hsl & HF & _).
    unfold get_object_item. cbn [is_null orb].
    rewrite (bindM_Ret _ _ _ _ _ (run_get_child_plain _ _ _ Hl Hd)).
    change (nd_child (mk_dat dy (tid <$> ys))) with (child_of dy (tid <$> ys)). rewrite Hch.
    unfold heap_fuel. unfold bindM at 1. rewrite fmap_length in Hlen.
    rewrite <- find_key_found. destruct cs.
    - exact (goi_view_loop_cs _ ys Hsl HF _ Hlen).
    - exact (goi_view_loop_ci _ ys Hsl HF _ Hlen).
  Qed.
End GOI.

(** * the two loops *)
Section Loops.
  Context (h : heap) (lfuel : nat) (cs : bool).
  Notation lf := (Pos.to_nat (h_next h)).
  Notation St := (h_str h).
  Context (rec : ptr -> ptr -> M bool) (vf : nat).
  Notation vcmp := (fun a b => CompareDefs.compare_rec vf a b cs).

  Lemma arr_loop_view k : forall xs ys, src_list h lf k xs -> src_list h lf k ys ->
    (forall cx cy, cx ∈ xs -> cy ∈ ys -> cmp_agrees h cs vf cx cy (rec (Some (tid cx)) (Some (tid cy)) h)) ->
    forall n, length xs < n ->
    exists r : bool, cmp_arr_loop rec n (head (tid <$> xs)) (head (tid <$> ys)) h = Ret (r, h) /\
      CompareProofs.arr_loop vcmp (map (reify St) xs) (map (reify St) ys) = Some r.
  Proof.
    induction xs as [|x xr IH]; intros ys Hx Hy Hrec n Hn; (destruct n as [|n]; [cbn in Hn; lia|]).
    - destruct ys as [|y yr]; cbn [cmp_arr_loop fmap list_fmap head is_null negb andb ptr_eqb map].
      + exists true. by rewrite CompareProofs.arr_loop_nil_nil.
      + exists false. by rewrite CompareProofs.arr_loop_nil_cons.
    - destruct ys as [|y yr]; cbn [cmp_arr_loop fmap list_fmap head is_null negb andb ptr_eqb map].
      + exists false. by rewrite CompareProofs.arr_loop_cons_nil.
      + destruct (Hrec x y ltac:(by left) ltac:(by left)) as (r0 & Hrun & Hv).
        rewrite CompareProofs.arr_loop_cons_cons, Hv. stp Hrun.
        destruct r0; cbn [negb]; [|by exists false].
        stp (src_list_next _ _ _ _ _ Hx). stp (src_list_next _ _ _ _ _ Hy).
        apply IH; [by eapply src_list_tail|by eapply src_list_tail| |cbn in Hn; lia].
        intros cx cy Hcx Hcy. apply Hrec; by right.
  Qed.

  Lemma obj_loop_view k ko j dy ys : cmp_view h ko (T j dy ys) ->
    forall xs, src_list h lf k xs -> Forall (cmp_view h k) xs ->
    (forall cx cy, cx ∈ xs -> cy ∈ ys -> cmp_agrees h cs vf cx cy (rec (Some (tid cx)) (Some (tid cy)) h)) ->
    forall n, length xs < n ->
    exists r : bool, cmp_obj_loop rec (Some j) cs n (head (tid <$> xs)) h = Ret (r, h) /\
      CompareProofs.obj_loop vcmp cs (reify St (T j dy ys)) (map (reify St) xs) = Some r.
  Proof.
    intros Hvy. induction xs as [|x xr IH]; intros Hx HF Hrec n Hn; (destruct n as [|n]; [cbn in Hn; lia|]).
    { cbn [cmp_obj_loop fmap list_fmap head is_null map]. exists true. by rewrite CompareProofs.obj_loop_nil. }
    cbn [cmp_obj_loop fmap list_fmap head is_null map]. rewrite CompareProofs.obj_loop_cons, reify_key.
    apply Forall_cons in HF as [Hvx HF].
    destruct x as [xi xd xcs]. pose proof Hvx as (Hsx & _ & Hkx). apply src_t_node in Hsx as ([Hlx Hdx] & _).
    cbn [tid]. stp (run_get_key_plain _ _ _ Hlx Hdx). change (nd_key (mk_dat xd (tid <$> xcs))) with (rd_key xd).
    unfold key_string. cbn [tdata].
    destruct (rd_key xd) as [b|] eqn:Hkey; cbn [mbind option_bind].
    2:{ (* a member without name: get_object_item(other, NULL, …) is NULL *)
        unfold get_object_item. cbn [is_null orb]. rewrite bindM_ret. cbn [is_null]. by exists false. }
    destruct (readable_run h b (keys_readable_root _ _ _ _ _ Hkx Hkey)) as (sb & Hbl & Hbs & Hbz & _).
    rewrite Hbs. cbn [mbind option_bind].
    stp (goi_view h b sb Hbl Hbs Hbz ko j dy ys cs Hvy).
    rewrite (get_object_item_found St j dy ys (cstr sb) cs (SortSpec.cstr_zfree sb)).
    destruct (found_member St cs (cstr sb) ys) as [[pos m]|] eqn:Efound; cbn [fmap option_fmap option_map is_null fst snd].
    2:{ by exists false. }
    pose proof (found_member_lookup _ _ _ _ _ _ Efound) as Hpos. apply elem_of_list_lookup_2 in Hpos.
    destruct (Hrec (T xi xd xcs) m ltac:(by left) Hpos) as (r0 & Hrun & Hv). cbn [tid] in Hrun.
    stp Hrun. rewrite Hv. destruct r0; cbn [negb]; [|by exists false].
    stp (src_list_next _ _ _ _ _ Hx).
    apply IH; [by eapply src_list_tail|done| |cbn in Hn; lia].
    intros cx cy Hcx Hcy. apply Hrec; [by right|done].
  Qed.
End Loops.

(** * the recursion *)
Lemma compare_rec_S_reify St f i d xs j dy ys cs :
  CompareDefs.compare_rec (S f) (reify St (T i d xs)) (reify St (T j dy ys)) cs =
  (let ta := Z.land (rd_type d) 255 in
   let cmp := fun x y => CompareDefs.compare_rec f x y cs in
   if negb (ta =? Z.land (rd_type dy) 255)%Z then Some false
   else if negb (CompareDefs.valid_type ta) then Some false
   else if ((ta =? c_cJSON_False) || (ta =? c_cJSON_True) || (ta =? c_cJSON_NULL))%Z then Some true
   else if (ta =? c_cJSON_Number)%Z then Some (compare_double (rd_vdbl d) (rd_vdbl dy))
   else if ((ta =? c_cJSON_String) || (ta =? c_cJSON_Raw))%Z then
     match cstr_of St (rd_vstr d), cstr_of St (rd_vstr dy) with
     | Some x, Some y => Some (strcmp x y =? 0)%Z
     | _, _ => Some false
     end
   else if (ta =? c_cJSON_Array)%Z then CompareProofs.arr_loop cmp (map (reify St) xs) (map (reify St) ys)
   else match CompareProofs.obj_loop cmp cs (reify St (T j dy ys)) (map (reify St) xs) with
        | Some true => CompareProofs.obj_loop cmp cs (reify St (T i d xs)) (map (reify St) ys)
        | r => r
        end).
Proof. reflexivity. Qed.

Lemma refl_ok_compare cs n f : refl_ok cs n -> Tree.node_depth n <= f -> CompareDefs.compare_rec f n n cs = Some true.
Proof.
  intros (W & J & N) Hd. apply (CompareProofs.compare_rec_spec cs f n n Hd Hd W W). by apply CompareProofs.sem_eq_refl.
Qed.

Section Step.
  Context (h : heap) (lfuel : nat) (cs : bool).
  Notation lf := (Pos.to_nat (h_next h)).
  Notation St := (h_str h).
  Hypothesis Hlf : lf <= lfuel.

  Lemma node_step df vf k x y :
    cmp_view h k x -> cmp_view h k y -> okpair St cs x y -> k <= vf ->
    (forall cx cy, cx ∈ tchildren x -> cy ∈ tchildren y -> okpair St cs cx cy ->
       cmp_agrees h cs vf cx cy (cJSON_Compare_fuel df lfuel (Some (tid cx)) (Some (tid cy)) cs h) /\
       cmp_agrees h cs vf cy cx (cJSON_Compare_fuel df lfuel (Some (tid cy)) (Some (tid cx)) cs h)) ->
    cmp_agrees h cs (S vf) x y (cJSON_Compare_fuel (S df) lfuel (Some (tid x)) (Some (tid y)) cs h).
  Proof.
    intros Hvx Hvy Hok Hkvf IH. destruct x as [i d xs], y as [j dy ys]. cbn [tid tchildren] in *.
    destruct (view_unfold _ _ _ _ _ Hvx) as (([Hli Hdi] & Hleni & Hvri & _) & Hchi & Hslx & HFx & _).
    destruct (view_unfold _ _ _ _ _ Hvy) as (([Hlj Hdj] & Hlenj & Hvrj & _) & Hchj & Hsly & HFy & _).
    rewrite fmap_length in Hleni, Hlenj.
    assert (Hsame : i = j -> CompareDefs.compare_rec (S vf) (reify St (T i d xs)) (reify St (T j dy ys)) cs = Some true).
    { intros ->. destruct (okpair_inv _ _ _ _ Hok) as [[E Hr]|[Hne _]]; [|by cbn in Hne].
      injection E as <- <-. apply refl_ok_compare; [done|]. rewrite node_depth_reify.
      destruct Hvx as (Hs & _). pose proof (src_t_height _ _ _ _ Hs). lia. }
    rewrite compare_rec_S_reify in Hsame. cbv zeta in Hsame.
    unfold cmp_agrees. rewrite cJSON_Compare_fuel_S, compare_rec_S_reify. cbv zeta. cbn [is_null orb].
    pose proof (run_get_type_plain _ _ _ Hli Hdi) as Rti. pose proof (run_get_type_plain _ _ _ Hlj Hdj) as Rtj.
    cbn [nd_type mk_dat] in Rti, Rtj.
    stp Rti. stp Rtj.
    destruct (negb (Z.land (rd_type d) 255 =? Z.land (rd_type dy) 255)%Z) eqn:Emis; [by exists false|].
    stp Rti. unfold type_case_valid.
    destruct (CompareDefs.valid_type (Z.land (rd_type d) 255)) eqn:Ev; cbn [negb]; [|by exists false].
    cbn [ptr_eqb]. destruct (Pos.eqb_spec i j) as [->|Hij].
    { (* the same block *)
      exists true. split; [done|]. specialize (Hsame eq_refl). cbn [negb] in Hsame. exact Hsame. }
    clear Hsame.
    assert (Hc : forall cx cy, cx ∈ xs -> cy ∈ ys -> okpair St cs cx cy).
    { destruct (okpair_inv _ _ _ _ Hok) as [[E _]|[_ Hc]]; [|exact Hc]. by injection E as -> _ _. }
    stp Rti.
    set (ta := Z.land (rd_type d) 255) in *.
    destruct ((ta =? c_cJSON_False) || (ta =? c_cJSON_True) || (ta =? c_cJSON_NULL))%Z eqn:Elit; [by exists true|].
    destruct (ta =? c_cJSON_Number)%Z eqn:Enum.
    { stp (run_get_vdbl_plain h i _ (conj Hli Hdi)). stp (run_get_vdbl_plain h j _ (conj Hlj Hdj)). cbn [nd_vdbl mk_dat].
      exists (compare_double (rd_vdbl d) (rd_vdbl dy)). split; [|done]. by destruct (compare_double (rd_vdbl d) (rd_vdbl dy)). }
    destruct ((ta =? c_cJSON_String) || (ta =? c_cJSON_Raw))%Z eqn:Estr.
    { pose proof (run_get_vstr_plain _ _ _ Hli Hdi) as Rvi. pose proof (run_get_vstr_plain _ _ _ Hlj Hdj) as Rvj.
      cbn [nd_vstr mk_dat] in Rvi, Rvj. stp Rvi.
      destruct (rd_vstr d) as [va|] eqn:Eva; cbn [is_null cstr_of]; [|by exists false].
      destruct (readable_run h va (Hvri va eq_refl)) as (sa & _ & Hsa & _ & Hruna). rewrite Hsa. cbn [fmap option_fmap option_map].
      stp Rvj.
      destruct (rd_vstr dy) as [vb|] eqn:Evb; cbn [is_null cstr_of]; [|by exists false].
      destruct (readable_run h vb (Hvrj vb eq_refl)) as (sb & _ & Hsb & _ & Hrunb). rewrite Hsb. cbn [fmap option_fmap option_map].
      stp Rvi. stp Rvj. unfold c_strcmp. stp Hruna. stp Hrunb. rewrite bindM_ret.
      exists (strcmp (cstr sa) (cstr sb) =? 0)%Z. split; [|done]. by destruct (strcmp (cstr sa) (cstr sb) =? 0)%Z. }
    pose proof (run_get_child_plain _ _ _ Hli Hdi) as Rci. pose proof (run_get_child_plain _ _ _ Hlj Hdj) as Rcj.
    change (nd_child (mk_dat d (tid <$> xs))) with (child_of d (tid <$> xs)) in Rci.
    change (nd_child (mk_dat dy (tid <$> ys))) with (child_of dy (tid <$> ys)) in Rcj.
    rewrite Hchi in Rci. rewrite Hchj in Rcj.
    destruct (ta =? c_cJSON_Array)%Z eqn:Earr.
    { stp Rci. stp Rcj.
      apply (arr_loop_view h cs _ vf (Nat.pred k) xs ys Hslx Hsly); [|lia].
      intros cx cy Hcx Hcy. exact (proj1 (IH cx cy Hcx Hcy (Hc cx cy Hcx Hcy))). }
    assert (Eobj : (ta =? c_cJSON_Object)%Z = true).
    { unfold CompareDefs.valid_type in Ev. apply orb_false_iff in Elit as [Elit E3]. apply orb_false_iff in Elit as [E1 E2].
      apply orb_false_iff in Estr as [E5 E6]. by rewrite E1, E2, E3, Enum, E5, E6, Earr in Ev. }
    rewrite Eobj. stp Rci.
    destruct (obj_loop_view h cs (fun x y => cJSON_Compare_fuel df lfuel x y cs) vf (Nat.pred k) k j dy ys Hvy xs Hslx HFx) with (n := lfuel)
      as (r1 & Hrun1 & Hv1); [|lia|].
    { intros cx cy Hcx Hcy. exact (proj1 (IH cx cy Hcx Hcy (Hc cx cy Hcx Hcy))). }
    stp Hrun1. rewrite Hv1. destruct r1; cbn [negb]; [|by exists false].
    stp Rcj.
    apply (obj_loop_view h cs (fun x y => cJSON_Compare_fuel df lfuel x y cs) vf (Nat.pred k) k i d xs Hvx ys Hsly HFy); [|lia].
    intros cy cx Hcy Hcx. exact (proj2 (IH cx cy Hcx Hcy (Hc cx cy Hcx Hcy))).
  Qed.

  (** THE REFINEMENT ON VIEWS: operands read to [k] levels, recursion fuel and value-level fuel above [k] *)
  Theorem compare_fuel_view : forall k x y df vf,
    cmp_view h k x -> cmp_view h k y -> okpair St cs x y -> k < df -> k < vf ->
    cmp_agrees h cs vf x y (cJSON_Compare_fuel df lfuel (Some (tid x)) (Some (tid y)) cs h).
  Proof.
    induction k as [|k IH]; intros x y df vf Hvx Hvy Hok Hdf Hvf;
      (destruct df as [|df]; [lia|]); (destruct vf as [|vf]; [lia|]).
    - apply (node_step df vf 0 x y Hvx Hvy Hok); [lia|].
      intros cx cy Hcx. exfalso. destruct x as [i d xs]. destruct Hvx as (Hs & _). rewrite src_t_O in Hs.
      destruct Hs as [_ ->]. by apply elem_of_nil in Hcx.
    - apply (node_step df vf (S k) x y Hvx Hvy Hok); [lia|].
      intros cx cy Hcx Hcy Hokc. destruct x as [i d xs], y as [j dy ys]. cbn [tchildren] in Hcx, Hcy.
      destruct (view_unfold _ _ _ _ _ Hvx) as (_ & _ & _ & HFx & _).
      destruct (view_unfold _ _ _ _ _ Hvy) as (_ & _ & _ & HFy & _).
      cbn [Nat.pred] in HFx, HFy. rewrite Forall_forall in HFx, HFy.
      split; apply IH; try lia; auto using okpair_sym.
  Qed.
End Step.
