(** MergeGenerate.v — semantic lemmas for C18_generate, part 2: the merge-walk of generate_merge_patch over two
    strictly sorted member lists yields patch members which, applied by the RFC's loop to the `from` members,
    give the `to` members name by name; the theorem on nodes by induction on the fuel. *)
From Coq Require Import Permutation Sorted.
From CJ Require Import Base Dbl Tree CompareDefs CompareProofs MergeDefs Rfc7396 MergeLemmas MergeSort MergeApply MergePerm MergeGen.
Local Open Scope Z_scope.

(** * depth and null-freeness under dperm *)
Lemma max_depth_perm l m : Permutation l m -> max_depth l = max_depth m.
Proof. induction 1; cbn [max_depth]; lia. Qed.

Lemma depth_dperm : forall a b, dperm a b -> node_depth a = node_depth b.
Proof.
  induction a as [ty vs vi vd k ch IH] using node_ind'. intros b H. inversion H as [? ? ? ? ? ? mid ch' F P N]; subst.
  rewrite !node_depth_eq. cbn [n_children]. f_equal. rewrite <- (max_depth_perm _ _ P).
  clear - IH F. induction F as [|x y l m Hxy _ IHl]; [reflexivity|]. inversion IH; subst. cbn [max_depth]. erewrite H1, IHl; eauto.
Qed.

Lemma forallb_perm {A} (f : A -> bool) l m : Permutation l m -> forallb f l = forallb f m.
Proof.
  induction 1 as [|x l m _ IH|x y l|l m n _ IH1 _ IH2]; cbn [forallb]; try congruence.
  destruct (f x), (f y); reflexivity.
Qed.

Lemma forallb_Forall2 {A} (f : A -> bool) l m : Forall2 (fun x y => f x = f y) l m -> forallb f l = forallb f m.
Proof. induction 1 as [|x y l m H _ IH]; cbn [forallb]; congruence. Qed.

Lemma nnm_dperm : forall a b, dperm a b -> no_null_member a = no_null_member b.
Proof.
  induction a as [ty vs vi vd k ch IH] using node_ind'. intros b H. inversion H as [? ? ? ? ? ? mid ch' F P N]; subst.
  cbn [no_null_member]. destruct (tymask ty =? c_cJSON_Object); [|reflexivity].
  rewrite <- (forallb_perm _ _ _ P). apply forallb_Forall2.
  clear - IH F. induction F as [|x y l m Hxy _ IHl]; [constructor|].
  inversion IH as [|? ? H1 H2]; subst. constructor; [|apply IHl; exact H2].
  unfold is_null. rewrite (dperm_is_type _ _ _ Hxy), (H1 y Hxy). reflexivity.
Qed.

(** * lower bounds on the names of a member list *)
Definition kabove (k0 : bytes) (ko : option bytes) : Prop :=
  exists kc, ko = Some kc /\ nonzero_bytes kc /\ strcmp k0 kc < 0.
Definition above (k0 : bytes) (l : list node) : Prop := Forall (kabove k0) (map n_key l).

Lemma above_nil k : above k []. Proof. constructor. Qed.
Lemma above_cons k c l : above k (c :: l) <-> kabove k (n_key c) /\ above k l.
Proof. unfold above. cbn [map]. split; [intro H; inversion H; auto|intros [H1 H2]; constructor; assumption]. Qed.
Lemma above_app k l1 l2 : above k (l1 ++ l2) <-> above k l1 /\ above k l2.
Proof. unfold above. rewrite map_app. apply Forall_app. Qed.
Lemma above_keys k l l' : map n_key l = map n_key l' -> above k l -> above k l'.
Proof. unfold above. intros ->. auto. Qed.
Lemma above_lookup k l : above k l -> m7396_lookup (Some k) l = None.
Proof.
  intro H. apply lookup_notin. intro Hin. unfold above in H. rewrite Forall_forall in H. destruct (H _ Hin) as [kc [E [_ L]]].
  injection E as <-. rewrite strcmp_refl in L. lia.
Qed.
Lemma above_trans k k' l : nonzero_bytes k -> nonzero_bytes k' -> strcmp k k' < 0 -> above k' l -> above k l.
Proof.
  intros Zk Zk' L H. unfold above in *. rewrite Forall_forall in *. intros ko Hko. destruct (H ko Hko) as [kc [E [Zc L']]].
  exists kc. split; [exact E|]. split; [exact Zc|].
  destruct (strcmp_trans k k' kc Zk Zk' Zc) as [_ T]; [lia|lia|]. apply T. left. exact L.
Qed.
Lemma sorted_above x kx l : n_key x = Some kx -> Forall has_key l -> StronglySorted key_lt (x :: l) -> above kx l.
Proof.
  intros Hx K S. inversion S as [|? ? _ Hl]; subst. unfold above. apply Forall_forall. intros ko Hko.
  apply in_map_iff in Hko. destruct Hko as [c [<- Hc]]. rewrite Forall_forall in Hl, K. destruct (K c Hc) as [kc [Ekc Zc]].
  exists kc. split; [exact Ekc|]. split; [exact Zc|]. apply (key_lt_intro _ _ _ _ Hx Ekc). apply Hl. exact Hc.
Qed.

(** * the per-name statement of the walk *)
Definition walk_ok (p fl tl : list node) : Prop :=
  forall k,
    match m7396_lookup (Some k) p with
    | None => match m7396_lookup (Some k) fl, m7396_lookup (Some k) tl with
              | Some x, Some y => doc_eq x y = true
              | None, None => True
              | _, _ => False
              end
    | Some v => if is_null v then m7396_lookup (Some k) tl = None
                else match m7396_lookup (Some k) tl with
                     | Some y => doc_eq (merge (m7396_lookup (Some k) fl) v) y = true
                     | None => False
                     end
    end.

Lemma walk_ok_objmatch p fl tl : walk_ok p fl tl -> keys_ok p -> keys_ok fl -> objmatch (m7396_each merge p fl) tl.
Proof.
  intros W Kp Kf k. destruct (each_lookup merge p fl Kp Kf) as [_ L]. rewrite L. specialize (W k).
  destruct (m7396_lookup (Some k) p) as [v|]; [|exact W].
  destruct (is_null v); [rewrite W; exact I|].
  destruct (m7396_lookup (Some k) tl); [|contradiction]. rewrite doc_eq_with_key. exact W.
Qed.

Definition olist (o : option node) : list node := match o with Some x => [x] | None => [] end.
Definition okey (k0 : bytes) (o : option node) : Prop := match o with Some x => n_key x = Some k0 | None => True end.

Lemma lookup_olist_same k0 o l : okey k0 o -> above k0 l -> m7396_lookup (Some k0) (olist o ++ l) = o.
Proof.
  intros Ho Ha. destruct o as [x|]; cbn [olist app okey] in *.
  - rewrite lookup_cons. apply named_true in Ho. rewrite Ho. reflexivity.
  - apply above_lookup. exact Ha.
Qed.
Lemma lookup_olist_other k k0 o l : k <> k0 -> okey k0 o -> m7396_lookup (Some k) (olist o ++ l) = m7396_lookup (Some k) l.
Proof.
  intros Hne Ho. destruct o as [x|]; cbn [olist app okey] in *; [|reflexivity].
  rewrite lookup_cons. assert (H : m7396_named (Some k) x = false) by (apply named_false; rewrite Ho; congruence). rewrite H. reflexivity.
Qed.

Lemma walk_ok_step k0 e f t p2 fl2 tl2 :
  okey k0 e -> okey k0 f -> okey k0 t -> above k0 p2 -> above k0 fl2 -> above k0 tl2 ->
  walk_ok p2 fl2 tl2 ->
  match e with
  | None => match f, t with Some x, Some y => doc_eq x y = true | None, None => True | _, _ => False end
  | Some v => if is_null v then t = None
              else match t with Some y => doc_eq (merge f v) y = true | None => False end
  end ->
  walk_ok (olist e ++ p2) (olist f ++ fl2) (olist t ++ tl2).
Proof.
  intros Ke Kf Kt Ap Af At W Hd k. destruct (bytes_eqb k k0) eqn:E.
  - apply bytes_eqb_eq in E. subst k.
    rewrite (lookup_olist_same k0 e p2 Ke Ap), (lookup_olist_same k0 f fl2 Kf Af), (lookup_olist_same k0 t tl2 Kt At). exact Hd.
  - assert (Hne : k <> k0) by (intro; subst; rewrite bytes_eqb_refl in E; discriminate).
    rewrite (lookup_olist_other k k0 e p2 Hne Ke), (lookup_olist_other k k0 f fl2 Hne Kf), (lookup_olist_other k k0 t tl2 Hne Kt). apply W.
Qed.

Lemma keys_ok_olist k0 e p2 : nonzero_bytes k0 -> okey k0 e -> above k0 p2 -> keys_ok p2 -> keys_ok (olist e ++ p2).
Proof.
  intros Z Ke Ap [K N]. destruct e as [x|]; cbn [olist app okey] in *; [|split; assumption]. split.
  - constructor; [exists k0; auto|exact K].
  - cbn [map]. constructor; [|exact N]. rewrite Ke. intro Hin. unfold above in Ap. rewrite Forall_forall in Ap.
    destruct (Ap _ Hin) as [kc [E [_ L]]]. injection E as <-. rewrite strcmp_refl in L. lia.
Qed.
Lemma above_olist k k0 e p2 : nonzero_bytes k0 -> strcmp k k0 < 0 -> okey k0 e -> above k p2 -> above k (olist e ++ p2).
Proof.
  intros Z L Ke Ap. destruct e as [x|]; cbn [olist app okey] in *; [|exact Ap].
  apply above_cons. split; [|exact Ap]. exists k0. auto.
Qed.

(** merging with a patch member as stored in the patch object (key set, StringIsConst cleared) *)
Lemma is_type_keyed t k s : is_type t (mp_keyed k s) = is_type t s.
Proof. destruct s. unfold is_type. cbn [mp_keyed n_ty]. rewrite tymask_clear_const. reflexivity. Qed.
Lemma children_keyed k s : n_children (mp_keyed k s) = n_children s.
Proof. destruct s; reflexivity. Qed.
Lemma key_keyed k s : n_key (mp_keyed k s) = Some k.
Proof. destruct s; reflexivity. Qed.

Lemma doc_eq_merge_keyed t k s y : doc_eq (merge t (mp_keyed k s)) y = doc_eq (merge t s) y.
Proof.
  rewrite !merge_unfold. unfold is_object. rewrite is_type_keyed, children_keyed.
  destruct (is_type c_cJSON_Object s); [reflexivity|apply doc_eq_keyed].
Qed.

(** * what the recursion is assumed to deliver *)
Definition gen_sound (gen : node -> node -> res (option node * node * node)) : Prop :=
  forall x y sub x' y', gen x y = Ok (sub, x', y') -> gd x -> gd y -> no_null_member y = true -> depth_ok y ->
    doc_eq (merge_opt x' sub) y' = true /\ (forall s, sub = Some s -> is_null s = is_null y).

Definition to_member_ok (c : node) : Prop := is_null c = false /\ no_null_member c = true /\ depth_ok c.

Lemma sfeq_keyed_clear_refs c kc : n_key c = Some kc -> sfeq (mp_keyed kc (clear_refs c)) c.
Proof.
  intro Hk. pose proof (sfeq_clear_refs c) as H. destruct c as [ty vs vi vd k ch]. cbn [n_key] in Hk. subst k.
  apply sfeq_intro; cbn [clear_refs mp_keyed n_ty n_vstr n_vint n_vdbl n_key n_children]; try reflexivity.
  - rewrite tymask_clear_const. apply tymask_clear_ref.
  - apply (sfeq_children _ _ H).
Qed.

Section Walk.
  Variable cmp : node -> node -> res (bool * node * node).
  Variable gen : node -> node -> res (option node * node * node).
  Hypothesis Hcd : cmp_dperm cmp.
  Hypothesis Hcs : cmp_sound cmp.
  Hypothesis Hgd : gen_dperm gen.
  Hypothesis Hgs : gen_sound gen.

  Definition walk_goal (fl tl p fl' tl' : list node) : Prop :=
    walk_ok p fl' tl' /\ keys_ok p /\ (forall k0, above k0 fl -> above k0 tl -> above k0 p).

  (* only `to` has this name: the patch carries a duplicate *)
  Lemma step_only_to tc kt p2 fl2 tl2 :
    n_key tc = Some kt -> nonzero_bytes kt -> gd tc -> to_member_ok tc ->
    above kt p2 -> above kt fl2 -> above kt tl2 -> walk_ok p2 fl2 tl2 -> keys_ok p2 ->
    walk_ok (mp_add_member [] (n_key tc) (mp_dup_rec 0 tc) ++ p2) fl2 (tc :: tl2) /\
    keys_ok (mp_add_member [] (n_key tc) (mp_dup_rec 0 tc) ++ p2) /\
    (forall k0, strcmp k0 kt < 0 -> above k0 p2 -> above k0 (mp_add_member [] (n_key tc) (mp_dup_rec 0 tc) ++ p2)).
  Proof.
    intros Hk Z G [Hnull [Hnn Hd]] Ap Af At W Kp.
    rewrite dup_rec_ok by (unfold depth_ok in Hd; lia). rewrite Hk. cbn [mp_add_member app].
    set (e := mp_keyed kt (clear_refs tc)).
    assert (Ke : okey kt (Some e)) by (apply key_keyed).
    split; [|split].
    - apply (walk_ok_step kt (Some e) None (Some tc) p2 fl2 tl2); try assumption; [exact I|].
      assert (En : is_null e = false).
      { unfold is_null, e. rewrite is_type_keyed. unfold is_null in Hnull. rewrite (sfeq_is_type _ _ _ (sfeq_clear_refs tc)). exact Hnull. }
      rewrite En. apply merge_into_nothing; [apply sfeq_keyed_clear_refs; exact Hk|exact G|exact Hnn|exact I].
    - apply (keys_ok_olist kt (Some e)); assumption.
    - intros k0 L A. apply (above_olist k0 kt (Some e)); assumption.
  Qed.

  (* only `from` has this name: the patch carries null *)
  Lemma step_only_from fc kf p2 fl2 tl2 :
    n_key fc = Some kf -> nonzero_bytes kf ->
    above kf p2 -> above kf fl2 -> above kf tl2 -> walk_ok p2 fl2 tl2 -> keys_ok p2 ->
    walk_ok (mp_add_member [] (n_key fc) (Some mp_CreateNull) ++ p2) (fc :: fl2) tl2 /\
    keys_ok (mp_add_member [] (n_key fc) (Some mp_CreateNull) ++ p2) /\
    (forall k0, strcmp k0 kf < 0 -> above k0 p2 -> above k0 (mp_add_member [] (n_key fc) (Some mp_CreateNull) ++ p2)).
  Proof.
    intros Hk Z Ap Af At W Kp. rewrite Hk. cbn [mp_add_member app].
    set (e := mp_keyed kf mp_CreateNull).
    assert (Ke : okey kf (Some e)) by (apply key_keyed).
    split; [|split].
    - apply (walk_ok_step kf (Some e) (Some fc) None p2 fl2 tl2); try assumption; [exact I|]. reflexivity.
    - apply (keys_ok_olist kf (Some e)); assumption.
    - intros k0 L A. apply (above_olist k0 kf (Some e)); assumption.
  Qed.

  Lemma gen_walk_sound : forall fl tl p fl' tl',
    mp_gen_walk cmp gen fl tl = Ok (p, fl', tl') ->
    StronglySorted key_lt fl -> StronglySorted key_lt tl -> Forall has_key fl -> Forall has_key tl ->
    Forall gd fl -> Forall gd tl -> Forall to_member_ok tl ->
    walk_goal fl tl p fl' tl'.
  Proof.
    induction fl as [|fc fr IHf].
    - induction tl as [|tc tr IHt]; intros p fl' tl' H Sf St Kf Kt Gf Gt Mt.
      + rewrite gen_walk_nil_nil in H. injection H as <- <- <-. split; [|split].
        * intro k. cbn. exact I.
        * split; constructor.
        * intros. apply above_nil.
      + rewrite gen_walk_nil_cons in H.
        destruct (mp_gen_walk cmp gen [] tr) as [[[p2 fl2] tl2]| |] eqn:E; cbn [bind] in H; try discriminate.
        injection H as <- <- <-.
        inversion St as [|? ? St' _]; subst. inversion Kt as [|? ? [kt [Hkt Zt]] Kt']; subst.
        inversion Gt as [|? ? Gt1 Gt']; subst. inversion Mt as [|? ? Mt1 Mt']; subst.
        destruct (IHt _ _ _ eq_refl Sf St' Kf Kt' Gf Gt' Mt') as [W [Kp Ab]].
        destruct (gen_walk_dperm cmp gen Hcd Hgd _ _ _ _ _ E) as [D1 D2].
        pose proof (sorted_above tc kt tr Hkt Kt' St) as Atr.
        assert (Ap2 : above kt p2) by (apply Ab; [apply above_nil|exact Atr]).
        assert (Af2 : above kt fl2) by (apply (above_keys kt [] fl2 (dperm_keys _ _ D1)); apply above_nil).
        assert (At2 : above kt tl2) by (apply (above_keys kt tr tl2 (dperm_keys _ _ D2)); exact Atr).
        destruct (step_only_to tc kt p2 fl2 tl2 Hkt Zt Gt1 Mt1 Ap2 Af2 At2 W Kp) as [W' [Kp' Ab']].
        split; [exact W'|]. split; [exact Kp'|]. intros k0 _ A0. apply above_cons in A0. destruct A0 as [[kc [Ec [_ Lc]]] A0].
        rewrite Hkt in Ec. injection Ec as <-. apply Ab'; [exact Lc|]. apply Ab; [apply above_nil|exact A0].
    - induction tl as [|tc tr IHt]; intros p fl' tl' H Sf St Kf Kt Gf Gt Mt.
      + rewrite gen_walk_cons_nil in H.
        destruct (mp_gen_walk cmp gen fr []) as [[[p2 fl2] tl2]| |] eqn:E; cbn [bind] in H; try discriminate.
        injection H as <- <- <-.
        inversion Sf as [|? ? Sf' _]; subst. inversion Kf as [|? ? [kf [Hkf Zf]] Kf']; subst. inversion Gf as [|? ? Gf1 Gf']; subst.
        destruct (IHf _ _ _ _ E Sf' St Kf' Kt Gf' Gt Mt) as [W [Kp Ab]].
        destruct (gen_walk_dperm cmp gen Hcd Hgd _ _ _ _ _ E) as [D1 D2].
        pose proof (sorted_above fc kf fr Hkf Kf' Sf) as Afr.
        assert (Ap2 : above kf p2) by (apply Ab; [exact Afr|apply above_nil]).
        assert (Af2 : above kf fl2) by (apply (above_keys kf fr fl2 (dperm_keys _ _ D1)); exact Afr).
        assert (At2 : above kf tl2) by (apply (above_keys kf [] tl2 (dperm_keys _ _ D2)); apply above_nil).
        destruct (step_only_from fc kf p2 fl2 tl2 Hkf Zf Ap2 Af2 At2 W Kp) as [W' [Kp' Ab']].
        split; [exact W'|]. split; [exact Kp'|]. intros k0 A0 _. apply above_cons in A0. destruct A0 as [[kc [Ec [_ Lc]]] A0].
        rewrite Hkf in Ec. injection Ec as <-. apply Ab'; [exact Lc|]. apply Ab; [exact A0|apply above_nil].
      + rewrite gen_walk_cons_cons in H.
        inversion Sf as [|? ? Sf' _]; subst. inversion Kf as [|? ? [kf [Hkf Zf]] Kf']; subst. inversion Gf as [|? ? Gf1 Gf']; subst.
        inversion St as [|? ? St' _]; subst. inversion Kt as [|? ? [kt [Hkt Zt]] Kt']; subst.
        inversion Gt as [|? ? Gt1 Gt']; subst. inversion Mt as [|? ? Mt1 Mt']; subst.
        pose proof (sorted_above fc kf fr Hkf Kf' Sf) as Afr. pose proof (sorted_above tc kt tr Hkt Kt' St) as Atr.
        rewrite Hkf, Hkt in H.
        destruct (Z.ltb_spec (strcmp kf kt) 0) as [L1|L1].
        { (* from's name is smaller *)
          destruct (mp_gen_walk cmp gen fr (tc :: tr)) as [[[p2 fl2] tl2]| |] eqn:E; cbn [bind] in H; try discriminate.
          injection H as <- <- <-.
          destruct (IHf _ _ _ _ E Sf' St Kf' Kt Gf' Gt Mt) as [W [Kp Ab]].
          destruct (gen_walk_dperm cmp gen Hcd Hgd _ _ _ _ _ E) as [D1 D2].
          assert (Atl : above kf (tc :: tr)).
          { apply above_cons. split; [exists kt; auto|]. apply (above_trans kf kt); assumption. }
          assert (Ap2 : above kf p2) by (apply Ab; assumption).
          assert (Af2 : above kf fl2) by (apply (above_keys kf fr fl2 (dperm_keys _ _ D1)); exact Afr).
          assert (At2 : above kf tl2) by (apply (above_keys kf _ tl2 (dperm_keys _ _ D2)); exact Atl).
          destruct (step_only_from fc kf p2 fl2 tl2 Hkf Zf Ap2 Af2 At2 W Kp) as [W' [Kp' Ab']]. rewrite Hkf in W', Kp', Ab'.
          split; [exact W'|]. split; [exact Kp'|]. intros k0 A0 A1. apply above_cons in A0. destruct A0 as [[kc [Ec [_ Lc]]] A0].
          rewrite Hkf in Ec. injection Ec as <-. apply Ab'; [exact Lc|]. apply Ab; assumption. }
        destruct (Z.ltb_spec 0 (strcmp kf kt)) as [L2|L2].
        { (* to's name is smaller *)
          destruct (mp_gen_walk cmp gen (fc :: fr) tr) as [[[p2 fl2] tl2]| |] eqn:E; cbn [bind] in H; try discriminate.
          injection H as <- <- <-.
          destruct (IHt _ _ _ eq_refl Sf St' Kf Kt' Gf Gt' Mt') as [W [Kp Ab]].
          destruct (gen_walk_dperm cmp gen Hcd Hgd _ _ _ _ _ E) as [D1 D2].
          assert (Lt : strcmp kt kf < 0) by (apply (strcmp_antisym kt kf Zt Zf); exact L2).
          assert (Afl : above kt (fc :: fr)).
          { apply above_cons. split; [exists kf; auto|]. apply (above_trans kt kf); assumption. }
          assert (Ap2 : above kt p2) by (apply Ab; assumption).
          assert (Af2 : above kt fl2) by (apply (above_keys kt _ fl2 (dperm_keys _ _ D1)); exact Afl).
          assert (At2 : above kt tl2) by (apply (above_keys kt tr tl2 (dperm_keys _ _ D2)); exact Atr).
          destruct (step_only_to tc kt p2 fl2 tl2 Hkt Zt Gt1 Mt1 Ap2 Af2 At2 W Kp) as [W' [Kp' Ab']]. rewrite Hkt in W', Kp', Ab'.
          split; [exact W'|]. split; [exact Kp'|]. intros k0 A0 A1. apply above_cons in A1. destruct A1 as [[kc [Ec [_ Lc]]] A1].
          rewrite Hkt in Ec. injection Ec as <-. apply Ab'; [exact Lc|]. apply Ab; assumption. }
        (* the same name on both sides *)
        assert (Ek : kf = kt) by (apply strcmp_zero_iff; [assumption|assumption|lia]). subst kt.
        destruct (cmp fc tc) as [[[same fc1] tc1]| |] eqn:Ec; cbn [bind] in H; try discriminate.
        destruct (Hcd _ _ _ _ _ Ec) as [Df Dt].
        assert (Hgoal : forall e fc2 tc2 p2 fl2 tl2,
                   mp_gen_walk cmp gen fr tr = Ok (p2, fl2, tl2) -> n_key fc2 = Some kf -> n_key tc2 = Some kf -> okey kf e ->
                   match e with
                   | None => doc_eq fc2 tc2 = true
                   | Some v => if is_null v then False else doc_eq (merge (Some fc2) v) tc2 = true
                   end ->
                   walk_goal (fc :: fr) (tc :: tr) (olist e ++ p2) (fc2 :: fl2) (tc2 :: tl2)).
        { intros e fc2 tc2 p2 fl2 tl2 E Kf2 Kt2 Ke Hd.
          destruct (IHf _ _ _ _ E Sf' St' Kf' Kt' Gf' Gt' Mt') as [W [Kp Ab]].
          destruct (gen_walk_dperm cmp gen Hcd Hgd _ _ _ _ _ E) as [D1 D2].
          assert (Ap2 : above kf p2) by (apply Ab; assumption).
          assert (Af2 : above kf fl2) by (apply (above_keys kf fr fl2 (dperm_keys _ _ D1)); exact Afr).
          assert (At2 : above kf tl2) by (apply (above_keys kf tr tl2 (dperm_keys _ _ D2)); exact Atr).
          split; [|split].
          - apply (walk_ok_step kf e (Some fc2) (Some tc2) p2 fl2 tl2); try assumption.
            destruct e as [v|]; [|exact Hd]. destruct (is_null v); [contradiction|exact Hd].
          - apply (keys_ok_olist kf); assumption.
          - intros k0 A0 A1. apply above_cons in A0. destruct A0 as [[kc [Ec' [_ Lc]]] A0]. apply above_cons in A1. destruct A1 as [_ A1].
            rewrite Hkf in Ec'. injection Ec' as <-. apply (above_olist k0 kf); try assumption. apply Ab; assumption. }
        destruct same.
        { destruct (mp_gen_walk cmp gen fr tr) as [[[p2 fl2] tl2]| |] eqn:E; cbn [bind] in H; try discriminate.
          injection H as <- <- <-.
          apply (Hgoal None fc1 tc1 p2 fl2 tl2 eq_refl); [rewrite <- (dperm_key _ _ Df); exact Hkf|rewrite <- (dperm_key _ _ Dt); exact Hkt|exact I|].
          apply (Hcs _ _ _ _ Ec); assumption. }
        destruct (gen fc1 tc1) as [[[sub fc2] tc2]| |] eqn:Eg; cbn [bind] in H; try discriminate.
        destruct (Hgd _ _ _ _ _ Eg) as [Df2 Dt2].
        destruct (mp_gen_walk cmp gen fr tr) as [[[p2 fl2] tl2]| |] eqn:E; cbn [bind] in H; try discriminate.
        injection H as <- <- <-.
        destruct Mt1 as [Hnull [Hnn Hd]].
        assert (Kf2 : n_key fc2 = Some kf) by (rewrite <- (dperm_key _ _ Df2), <- (dperm_key _ _ Df); exact Hkf).
        assert (Kt2 : n_key tc2 = Some kf) by (rewrite <- (dperm_key _ _ Dt2), <- (dperm_key _ _ Dt); exact Hkt).
        destruct (Hgs _ _ _ _ _ Eg) as [Hdoc Hsn].
        { eapply gd_dperm; eassumption. }
        { eapply gd_dperm; eassumption. }
        { rewrite <- (nnm_dperm _ _ Dt). exact Hnn. }
        { unfold depth_ok. rewrite <- (depth_dperm _ _ Dt). exact Hd. }
        rewrite Kt2. destruct sub as [s|]; cbn [mp_add_member].
        * apply (Hgoal (Some (mp_keyed kf s)) fc2 tc2 p2 fl2 tl2 eq_refl Kf2 Kt2); [apply key_keyed|].
          unfold is_null. rewrite is_type_keyed. fold (is_null s). rewrite (Hsn s eq_refl).
          unfold is_null. rewrite <- (dperm_is_type _ _ _ Dt). fold (is_null tc). rewrite Hnull.
          rewrite doc_eq_merge_keyed. exact Hdoc.
        * apply (Hgoal None fc2 tc2 p2 fl2 tl2 eq_refl Kf2 Kt2); [exact I|exact Hdoc].
  Qed.
End Walk.

(** * the theorem on nodes *)
Lemma set_members_eq n l : m7396_set_members n l = mp_set_children n l.
Proof. destruct n; reflexivity. Qed.

Lemma object_not_null n : is_object n = true -> is_null n = false.
Proof. unfold is_object, is_null, is_type. intro H. apply Z.eqb_eq in H. rewrite H. reflexivity. Qed.

Lemma is_type_set_children t n l : is_type t (mp_set_children n l) = is_type t n.
Proof. destruct n; reflexivity. Qed.

Lemma compare_json_top_dperm cs : cmp_dperm (mp_compare_json_top cs).
Proof. intros a b r a' b' H. apply (compare_json_dperm cs _ _ _ _ _ _ H). Qed.
Lemma compare_json_top_sound : cmp_sound (mp_compare_json_top true).
Proof. intros a b a' b' H. apply (compare_json_sound _ _ _ _ _ H). Qed.

Lemma to_members_ok y : is_object y = true -> no_null_member y = true -> depth_ok y -> Forall to_member_ok (n_children y).
Proof.
  intros Ho Hn Hd. destruct y as [ty vs vi vd k ch]. cbn [no_null_member] in Hn.
  change (tymask ty =? c_cJSON_Object) with (is_object (Node ty vs vi vd k ch)) in Hn. rewrite Ho in Hn.
  rewrite forallb_forall in Hn. apply Forall_forall. intros c Hc. specialize (Hn c Hc). apply andb_true_iff in Hn. destruct Hn as [H1 H2].
  apply negb_true_iff in H1. split; [exact H1|]. split; [exact H2|]. apply (depth_ok_child _ _ Hd). exact Hc.
Qed.

Theorem generate_sound : forall fuel, gen_sound (mp_generate_merge_patch fuel true).
Proof.
  induction fuel as [|f IH]; intros x y sub x' y' H Gx Gy Hn Hd; [discriminate|].
  cbn [mp_generate_merge_patch] in H.
  destruct (negb (is_object y) || negb (is_object x)) eqn:Eo.
  - injection H as <- <- <-. rewrite dup_rec_ok by (unfold depth_ok in Hd; lia). cbn [merge_opt]. split.
    + destruct (is_object y) eqn:Oy.
      * cbn [negb orb] in Eo. apply negb_true_iff in Eo.
        apply merge_into_nothing; [apply sfeq_clear_refs|exact Gy|exact Hn|exact Eo].
      * rewrite merge_unfold. unfold is_object in *. rewrite (sfeq_is_type _ _ _ (sfeq_clear_refs y)), Oy.
        apply doc_eq_of_sfeq; [apply sfeq_clear_refs|exact Gy].
    + intros s Hs. injection Hs as <-. unfold is_null. apply (sfeq_is_type _ _ _ (sfeq_clear_refs y)).
  - apply orb_false_iff in Eo. destruct Eo as [Oy Ox]. apply negb_false_iff in Oy, Ox.
    destruct (mp_sort_members true (n_children x)) as [sf| |] eqn:Esf; cbn [bind] in H; try discriminate.
    destruct (mp_sort_members true (n_children y)) as [st| |] eqn:Est; cbn [bind] in H; try discriminate.
    destruct (mp_gen_walk (mp_compare_json_top true) (mp_generate_merge_patch f true) sf st) as [[[pm fl] tl]| |] eqn:E; cbn [bind] in H; try discriminate.
    injection H as <- <- <-.
    destruct (sort_members_strict _ _ (gd_keys _ Gx Ox) Esf) as [Ssf [Ksf Psf]].
    destruct (sort_members_strict _ _ (gd_keys _ Gy Oy) Est) as [Sst [Kst Pst]].
    assert (Gsf : Forall gd sf) by (apply (Forall_perm _ _ _ Psf); apply gd_eq in Gx; tauto).
    assert (Gst : Forall gd st) by (apply (Forall_perm _ _ _ Pst); apply gd_eq in Gy; tauto).
    assert (Mst : Forall to_member_ok st) by (apply (Forall_perm _ _ _ Pst); apply to_members_ok; assumption).
    destruct (gen_walk_dperm _ _ (compare_json_top_dperm true) (generate_dperm true f) _ _ _ _ _ E) as [D1 D2].
    destruct (gen_walk_sound _ _ (compare_json_top_dperm true) compare_json_top_sound (generate_dperm true f) IH
                _ _ _ _ _ E Ssf Sst (proj1 Ksf) (proj1 Kst) Gsf Gst Mst) as [W [Kp _]].
    pose proof (keys_ok_dperm _ _ D1 Ksf) as Kfl. pose proof (keys_ok_dperm _ _ D2 Kst) as Ktl.
    assert (Ox' : is_object (mp_set_children x fl) = true) by (unfold is_object; rewrite is_type_set_children; exact Ox).
    assert (Oy' : is_object (mp_set_children y tl) = true) by (unfold is_object; rewrite is_type_set_children; exact Oy).
    split.
    + destruct pm as [|e pm'].
      * cbn [merge_opt]. apply doc_eq_objects; try assumption; rewrite ?set_children_children; try assumption.
      * cbn [merge_opt]. rewrite merge_unfold.
        assert (Op : is_object (Node c_cJSON_Object None 0 dzero None (e :: pm')) = true) by reflexivity.
        rewrite Op. unfold m7396_target0. rewrite Ox'. cbn [n_children]. rewrite set_members_eq, !set_children_children.
        destruct (each_lookup merge (e :: pm') fl Kp Kfl) as [Ke _].
        apply doc_eq_objects; rewrite ?set_children_children; try assumption.
        -- unfold is_object. rewrite is_type_set_children. exact Ox'.
        -- apply (walk_ok_objmatch _ fl tl W Kp Kfl).
    + intros s Hs. rewrite (object_not_null _ Oy). destruct pm; [discriminate|]. injection Hs as <-. reflexivity.
Qed.

(** the public entry point, on the inputs as they are after the call *)
Theorem generate_roundtrip_post from to p from' to' :
  m7396_doc from = true -> m7396_doc to = true -> no_null_member to = true -> m7396_depth_ok to = true ->
  cJSONUtils_GenerateMergePatchCaseSensitive (Some from) (Some to) = Ok (p, from', to') ->
  exists f' t', from' = Some f' /\ to' = Some t' /\ dperm from f' /\ dperm to t' /\ doc_eq (merge_opt f' p) t' = true.
Proof.
  intros Df Dt Hn Hd H. apply m7396_doc_gd in Df. apply m7396_doc_gd in Dt. apply Z.leb_le in Hd.
  unfold cJSONUtils_GenerateMergePatchCaseSensitive, mp_GenerateMergePatch_gen in H.
  destruct (mp_generate_merge_patch (node_depth to) true from to) as [[[p0 f'] t']| |] eqn:E; cbn [bind] in H; try discriminate.
  injection H as <- <- <-. exists f', t'. split; [reflexivity|]. split; [reflexivity|].
  destruct (generate_dperm true _ _ _ _ _ _ E) as [D1 D2]. split; [exact D1|]. split; [exact D2|].
  apply (generate_sound _ _ _ _ _ _ E Df Dt Hn Hd).
Qed.
