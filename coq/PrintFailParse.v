(** PrintFailParse.v — C08 for the parser, in the property's own words: for EVERY allocation-failure
    schedule the call returns (no out-of-bounds access, no exhausted fuel); when it reports failure by
    its NULL result, nothing allocated during the call remains allocated; when it returns a tree, the
    blocks still allocated are exactly those of the tree (the ones cJSON_Delete releases).
    Corollaries of ParseSafe.parse_length_safe / parse_string_safe.  Proofs only. *)
From CJ Require Import Base Dbl Tree LibcNum ParseDefs ParseSafe ParseEntry.
From Coq Require Import Lia ZArith List Bool.
Import ListNotations.
Local Open Scope Z_scope.

Lemma parse_length_clean strtod oracle content len rnt :
  strtod_ok strtod -> (len <= length content)%nat ->
  exists r, cJSON_ParseWithLengthOpts strtod oracle content len rnt = Ok r /\
            (pr_tree r = None -> pr_live r = 0).
Proof.
  intros Hs Hl. destruct (parse_length_safe strtod oracle content len rnt Hs Hl) as (r & E & P & _).
  exists r. split; [exact E|exact P].
Qed.

Lemma parse_string_clean strtod oracle s rest rnt :
  strtod_ok strtod -> Forall (fun c => c <> 0) s ->
  exists r, cJSON_ParseWithOpts strtod oracle (s ++ 0 :: rest) rnt = Ok r /\
            (pr_tree r = None -> pr_live r = 0).
Proof.
  intros Hs Hn. destruct (parse_string_safe strtod oracle s rest rnt Hs Hn) as (r & E & _ & P & _).
  exists r. split; [exact E|exact P].
Qed.

(** non-vacuity: [1,"a"] (terminated C string) makes four requests — root, first element, second
    element, the string; refusing any one of them (k = 1..4) yields NULL with an empty ledger, k = 5
    (or no failure) yields the tree with its four blocks live *)
Definition nvf_json : bytes := [91; 49; 44; 34; 97; 34; 93].
Definition nvf_parse (k : nat) : res parse_result :=
  cJSON_ParseWithOpts strtod_ref (fail_kth k) (nvf_json ++ [0]) false.

Lemma C08_parse_nonvacuous_proof :
  strtod_ok strtod_ref /\ Forall (fun c => c <> 0) nvf_json /\
  (forall k, (1 <= k <= 4)%nat -> exists r, nvf_parse k = Ok r /\ pr_tree r = None /\ pr_live r = 0 /\ pr_requests r = k) /\
  (exists r t, nvf_parse 5 = Ok r /\ pr_tree r = Some t /\ pr_live r = 4 /\ blocks t = 4 /\ pr_requests r = 4%nat).
Proof.
  split; [exact strtod_ref_ok|]. split; [repeat constructor; lia|]. split.
  - intros k Hk.
    assert (Hc : (k = 1 \/ k = 2 \/ k = 3 \/ k = 4)%nat) by lia.
    destruct Hc as [ -> | [ -> | [ -> | -> ] ] ]; eexists; (split; [vm_compute; reflexivity|]); vm_compute; auto.
  - eexists. eexists. split; [vm_compute; reflexivity|]. vm_compute. auto.
Qed.
