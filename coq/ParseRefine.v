(** ParseRefine.v — the buffer-level transliteration of the parser (ParseDefs.v) computes,
    when no allocation fails, exactly the list-level specification (ParseSpec.v) on the
    declared bytes [firstn len content]: same accept/reject, same tree, same parse end.

    Simulation: a parser state [s] with [off s = k] is related to the suffix
    [skipn k (firstn len content)] (predicate [sfx k l]); one lemma per function. *)
From CJ Require Import Base Dbl Tree LibcNum ParseDefs ParseSpec.
Local Open Scope nat_scope.

(** * generic list facts *)
Lemma skipn_cons_nth {A} : forall k (l : list A) c r,
  skipn k l = c :: r -> nth_error l k = Some c /\ skipn (S k) l = r.
Proof.
  induction k as [|k IH]; intros [|x l] c r H; cbn in *; try discriminate.
  - inversion H; subst. split; reflexivity.
  - apply IH in H. exact H.
Qed.

Lemma nth_error_firstn_lt {A} : forall n (l : list A) k, k < n -> nth_error (firstn n l) k = nth_error l k.
Proof.
  induction n as [|n IH]; intros l k Hk; [lia|].
  destruct l as [|x l]; [reflexivity|]. destruct k as [|k]; [reflexivity|].
  cbn. apply IH. lia.
Qed.

Lemma skipn_add {A} : forall k j (l : list A), skipn j (skipn k l) = skipn (k + j) l.
Proof.
  induction k as [|k IH]; intros j l; [reflexivity|].
  destruct l as [|x l]; [cbn; apply skipn_nil|]. cbn. apply IH.
Qed.

Lemma skipn_last_one {A} : forall (l : list A), l <> [] -> exists x, skipn (length l - 1) l = [x] /\ In x l.
Proof.
  intros l Hl. destruct (exists_last Hl) as [l' [a E]]. subst l. exists a. split.
  - rewrite app_length. cbn [length]. replace (length l' + 1 - 1) with (length l') by lia.
    rewrite skipn_app. rewrite skipn_all. rewrite Nat.sub_diag. reflexivity.
  - apply in_or_app. right. left. reflexivity.
Qed.

(** * facts about the specification functions *)
Lemma drop_ws_length : forall l, length (drop_ws l) <= length l.
Proof.
  induction l as [|c r IH]; cbn [drop_ws length]; [lia|].
  destruct (c <=? 32)%Z; cbn [length]; lia.
Qed.

Lemma drop_ws_nil_all : forall l, drop_ws l = [] -> Forall (fun c => (c <= 32)%Z) l.
Proof.
  induction l as [|c r IH]; intro H; [constructor|].
  cbn [drop_ws] in H. destruct (Z.leb_spec c 32) as [Hc|Hc]; [|discriminate].
  constructor; [exact Hc | apply IH; exact H].
Qed.

Lemma drop_ws_head : forall l c r, drop_ws l = c :: r -> (32 < c)%Z.
Proof.
  induction l as [|x l IH]; intros c r H; cbn [drop_ws] in H; [discriminate|].
  destruct (Z.leb_spec x 32) as [Hx|Hx].
  - eapply IH; exact H.
  - inversion H; subst. exact Hx.
Qed.

Lemma drop_ws_idem_cons : forall c r, (32 < c)%Z -> drop_ws (c :: r) = c :: r.
Proof.
  intros c r H. cbn [drop_ws]. destruct (Z.leb_spec c 32); [lia | reflexivity].
Qed.

Lemma drop_ws_nil_cons c : (c <= 32)%Z -> drop_ws [c] = [].
Proof. intro H. cbn [drop_ws]. destruct (Z.leb_spec c 32); [reflexivity | lia]. Qed.

Lemma starts_app : forall lit l r, starts lit l = Some r -> l = lit ++ r.
Proof.
  induction lit as [|x lit IH]; intros l r H; cbn [starts] in H.
  - inversion H. reflexivity.
  - destruct l as [|c l]; [discriminate|].
    destruct (Z.eqb_spec c x) as [E|E]; [|discriminate].
    subst. cbn. f_equal. apply IH. exact H.
Qed.

Lemma starts_short : forall lit l, length l < length lit -> starts lit l = None.
Proof.
  induction lit as [|x lit IH]; intros l H; cbn [length] in H; [lia|].
  cbn [starts]. destruct l as [|c l]; [reflexivity|].
  destruct (c =? x)%Z; [|reflexivity]. apply IH. cbn [length] in H. lia.
Qed.

(** * the first pass of parse_string on lists: index of the closing quote, number of escapes *)
Fixpoint scan_l (l : bytes) : option (nat * nat) :=
  match l with
  | [] => None
  | c :: r =>
      if (c =? 34)%Z then Some (0, 0)
      else if (c =? 92)%Z then
        match r with
        | [] => None
        | _ :: r' => match scan_l r' with Some (n, k) => Some (S (S n), S k) | None => None end
        end
      else match scan_l r with Some (n, k) => Some (S n, k) | None => None end
  end.

Lemma scan_l_bound : forall m l n k, length l <= m -> scan_l l = Some (n, k) -> n < length l /\ 2 * k <= n.
Proof.
  induction m as [|m IH]; intros l n k Hm H.
  - destruct l; [discriminate | cbn in Hm; lia].
  - destruct l as [|c r]; [discriminate|]. cbn [scan_l] in H. cbn [length] in *.
    destruct (c =? 34)%Z.
    + inversion H; subst. lia.
    + destruct (c =? 92)%Z.
      * destruct r as [|e r']; [discriminate|].
        destruct (scan_l r') as [[n' k']|] eqn:E; [|discriminate].
        inversion H; subst. apply IH in E; [|cbn [length] in Hm; lia]. cbn [length]. lia.
      * destruct (scan_l r) as [[n' k']|] eqn:E; [|discriminate].
        inversion H; subst. apply IH in E; [|lia]. lia.
Qed.

Lemma scan_l_lt l n k : scan_l l = Some (n, k) -> n < length l /\ 2 * k <= n.
Proof. apply (scan_l_bound (length l)). lia. Qed.

Lemma scan_l_plain c r : c <> 34%Z -> c <> 92%Z ->
  scan_l (c :: r) = match scan_l r with Some (n, k) => Some (S n, k) | None => None end.
Proof.
  intros H1 H2. cbn [scan_l].
  destruct (Z.eqb_spec c 34); [contradiction|]. destruct (Z.eqb_spec c 92); [contradiction|]. reflexivity.
Qed.

Lemma hex_val_some x h : hex_val x = Some h -> x <> 34%Z /\ x <> 92%Z /\ (0 <= h < 16)%Z.
Proof.
  unfold hex_val. intro HH.
  destruct ((48 <=? x) && (x <=? 57))%Z eqn:E1.
  { apply andb_prop in E1. destruct E1 as [E1 E1']. apply Z.leb_le in E1, E1'. assert (h = x - 48)%Z by congruence. lia. }
  destruct ((65 <=? x) && (x <=? 70))%Z eqn:E2.
  { apply andb_prop in E2. destruct E2 as [E2 E2']. apply Z.leb_le in E2, E2'. assert (h = 10 + x - 65)%Z by congruence. lia. }
  destruct ((97 <=? x) && (x <=? 102))%Z eqn:E3.
  { apply andb_prop in E3. destruct E3 as [E3 E3']. apply Z.leb_le in E3, E3'. assert (h = 10 + x - 97)%Z by congruence. lia. }
  discriminate.
Qed.

Lemma hex4_l_inv l v r : hex4_l l = Some (v, r) ->
  exists a b c d, l = a :: b :: c :: d :: r /\
    (a <> 34 /\ a <> 92)%Z /\ (b <> 34 /\ b <> 92)%Z /\ (c <> 34 /\ c <> 92)%Z /\ (d <> 34 /\ d <> 92)%Z /\
    (0 <= v < 65536)%Z.
Proof.
  unfold hex4_l. destruct l as [|a [|b [|c [|d r']]]]; try discriminate.
  destruct (hex_val a) as [ha|] eqn:Ea; [|discriminate].
  destruct (hex_val b) as [hb|] eqn:Eb; [|discriminate].
  destruct (hex_val c) as [hc|] eqn:Ec; [|discriminate].
  destruct (hex_val d) as [hd|] eqn:Ed; [|discriminate].
  intro H. inversion H; subst.
  apply hex_val_some in Ea, Eb, Ec, Ed.
  exists a, b, c, d. split; [reflexivity|]. repeat split; try tauto; lia.
Qed.

Lemma hex4_scan l v r2 : hex4_l l = Some (v, r2) ->
  scan_l l = match scan_l r2 with Some (n, k) => Some (4 + n, k) | None => None end.
Proof.
  intro H. apply hex4_l_inv in H. destruct H as [a [b [c [d [E [[Ha1 Ha2] [[Hb1 Hb2] [[Hc1 Hc2] [[Hd1 Hd2] _]]]]]]]]].
  subst l. rewrite !scan_l_plain by assumption. destruct (scan_l r2) as [[n k]|]; reflexivity.
Qed.

Lemma hex4_scan_short l n k : scan_l l = Some (n, k) -> n < 4 -> hex4_l l = None.
Proof.
  intros H Hn. destruct (hex4_l l) as [[v r2]|] eqn:E; [|reflexivity].
  rewrite (hex4_scan _ _ _ E) in H. destruct (scan_l r2) as [[n2 k2]|]; [|discriminate].
  inversion H. lia.
Qed.

Lemma utf8_encode_c_len cp b : utf8_encode_c cp = Some b -> length b <= 4.
Proof.
  unfold utf8_encode_c. destruct (cp <? 128)%Z; [intro H; inversion H; cbn; lia|].
  destruct (cp <? 2048)%Z; [intro H; inversion H; cbn; lia|].
  destruct (cp <? 65536)%Z; [intro H; inversion H; cbn; lia|].
  destruct (cp <=? 1114111)%Z; [intro H; inversion H; cbn; lia|discriminate].
Qed.

(** one \u escape after the "\u": the UTF-8 bytes and the rest (the [u] branch of [str_l]) *)
Definition u_esc_l (r' : bytes) : option (bytes * bytes) :=
  match hex4_l r' with
  | None => None
  | Some (first_code, r2) =>
      if ((56320 <=? first_code) && (first_code <=? 57343))%Z then None
      else if ((55296 <=? first_code) && (first_code <=? 56319))%Z then
        match r2 with
        | c0 :: c1 :: r3 =>
            if negb ((c0 =? 92) && (c1 =? 117))%Z then None
            else
              match hex4_l r3 with
              | None => None
              | Some (second_code, r4) =>
                  if ((second_code <? 56320) || (second_code >? 57343))%Z then None
                  else
                    match utf8_encode_c (65536 + Z.lor (Z.shiftl (Z.land first_code 1023) 10) (Z.land second_code 1023))%Z with
                    | Some b => Some (b, r4)
                    | None => None
                    end
              end
        | _ => None
        end
      else match utf8_encode_c first_code with Some b => Some (b, r2) | None => None end
  end.

Definition str_cont (f : nat) (x : option (bytes * bytes)) : option (bytes * bytes) :=
  match x with
  | Some (b, rN) => match str_l f rN with Some (o, rest) => Some (b ++ o, rest) | None => None end
  | None => None
  end.

(** unfolding of [str_l] with the \u branch folded into [u_esc_l] *)
Lemma str_l_S f l :
  str_l (S f) l =
  match l with
  | [] => None
  | c :: r =>
      if (c =? 34)%Z then Some ([], r)
      else if (c =? 92)%Z then
        match r with
        | [] => None
        | e :: r' =>
            if (e =? 98)%Z then str_cont f (Some ([8%Z], r'))
            else if (e =? 102)%Z then str_cont f (Some ([12%Z], r'))
            else if (e =? 110)%Z then str_cont f (Some ([10%Z], r'))
            else if (e =? 114)%Z then str_cont f (Some ([13%Z], r'))
            else if (e =? 116)%Z then str_cont f (Some ([9%Z], r'))
            else if ((e =? 34) || (e =? 92) || (e =? 47))%Z then str_cont f (Some ([e], r'))
            else if (e =? 117)%Z then str_cont f (u_esc_l r')
            else None
        end
      else str_cont f (Some ([c], r))
  end.
Proof.
  cbn [str_l]. destruct l as [|c r]; [reflexivity|].
  destruct (c =? 34)%Z; [reflexivity|]. destruct (c =? 92)%Z; [|reflexivity].
  destruct r as [|e r']; [reflexivity|].
  destruct (e =? 98)%Z; [reflexivity|]. destruct (e =? 102)%Z; [reflexivity|].
  destruct (e =? 110)%Z; [reflexivity|]. destruct (e =? 114)%Z; [reflexivity|].
  destruct (e =? 116)%Z; [reflexivity|]. destruct ((e =? 34) || (e =? 92) || (e =? 47))%Z; [reflexivity|].
  destruct (e =? 117)%Z; [|reflexivity].
  unfold u_esc_l, str_cont. destruct (hex4_l r') as [[fc r2]|]; [|reflexivity].
  destruct ((56320 <=? fc) && (fc <=? 57343))%Z; [reflexivity|].
  destruct ((55296 <=? fc) && (fc <=? 56319))%Z.
  - destruct r2 as [|c0 [|c1 r3]]; try reflexivity.
    destruct (negb ((c0 =? 92) && (c1 =? 117))%Z); [reflexivity|].
    destruct (hex4_l r3) as [[sc r4]|]; [|reflexivity].
    destruct ((sc <? 56320) || (sc >? 57343))%Z; [reflexivity|].
    destruct (utf8_encode_c _); reflexivity.
  - destruct (utf8_encode_c fc); reflexivity.
Qed.

(** a \u escape is 4 or 10 more bytes without quote or backslash at scan positions *)
Lemma u_esc_scan r' b rN : u_esc_l r' = Some (b, rN) ->
  length b <= 4 /\
  exists m j, ((m = 4 /\ j = 0) \/ (m = 10 /\ j = 1)) /\
    scan_l r' = match scan_l rN with Some (n, k) => Some (m + n, j + k) | None => None end.
Proof.
  unfold u_esc_l. destruct (hex4_l r') as [[fc r2]|] eqn:E1; [|discriminate].
  destruct ((56320 <=? fc) && (fc <=? 57343))%Z; [discriminate|].
  destruct ((55296 <=? fc) && (fc <=? 56319))%Z.
  - destruct r2 as [|c0 [|c1 r3]]; try discriminate.
    destruct (Z.eqb_spec c0 92) as [E0|E0]; cbn [andb negb]; [|discriminate].
    destruct (c1 =? 117)%Z; cbn [negb]; [|discriminate].
    destruct (hex4_l r3) as [[sc r4]|] eqn:E2; [|discriminate].
    destruct ((sc <? 56320) || (sc >? 57343))%Z; [discriminate|].
    destruct (utf8_encode_c _) as [b'|] eqn:E3; [|discriminate].
    intro H. inversion H; subst b' r4 c0. split; [eapply utf8_encode_c_len; exact E3|].
    exists 10, 1. split; [right; split; reflexivity|].
    rewrite (hex4_scan _ _ _ E1). cbn [scan_l]. cbn [Z.eqb Pos.eqb].
    rewrite (hex4_scan _ _ _ E2). destruct (scan_l rN) as [[n k]|]; reflexivity.
  - destruct (utf8_encode_c fc) as [b'|] eqn:E3; [|discriminate].
    intro H. inversion H; subst b' r2. split; [eapply utf8_encode_c_len; exact E3|].
    exists 4, 0. split; [left; split; reflexivity|].
    rewrite (hex4_scan _ _ _ E1). destruct (scan_l rN) as [[n k]|]; reflexivity.
Qed.

(** no closing quote at a scan position: the specification rejects too *)
Lemma scan_none_str : forall f l, scan_l l = None -> str_l f l = None.
Proof.
  induction f as [|f IH]; intros l H; [reflexivity|].
  rewrite str_l_S. destruct l as [|c r]; [reflexivity|]. cbn [scan_l] in H.
  destruct (c =? 34)%Z; [discriminate|]. destruct (c =? 92)%Z.
  - destruct r as [|e r']; [reflexivity|].
    destruct (scan_l r') as [[n k]|] eqn:E; [discriminate|].
    assert (Hs : forall b, str_cont f (Some (b, r')) = None).
    { intro b. cbn [str_cont]. rewrite (IH _ E). reflexivity. }
    destruct (e =? 98)%Z; [apply Hs|]. destruct (e =? 102)%Z; [apply Hs|].
    destruct (e =? 110)%Z; [apply Hs|]. destruct (e =? 114)%Z; [apply Hs|].
    destruct (e =? 116)%Z; [apply Hs|]. destruct ((e =? 34) || (e =? 92) || (e =? 47))%Z; [apply Hs|].
    destruct (e =? 117)%Z; [|reflexivity].
    destruct (u_esc_l r') as [[b rN]|] eqn:Eu; [|reflexivity].
    apply u_esc_scan in Eu. destruct Eu as [_ [m [j [_ Eu]]]]. rewrite E in Eu.
    destruct (scan_l rN) as [[n k]|] eqn:EN; [discriminate|].
    cbn [str_cont]. rewrite (IH _ EN). reflexivity.
  - destruct (scan_l r) as [[n k]|] eqn:E; [discriminate|].
    cbn [str_cont]. rewrite (IH _ E). reflexivity.
Qed.

Lemma number_run_length : forall n l, length (number_run n l) <= length l.
Proof.
  induction n as [|n IH]; intros l; cbn [number_run]; [cbn; lia|].
  destruct l as [|c r]; [cbn; lia|]. destruct (number_byte c); cbn [length]; [|lia].
  specialize (IH r). lia.
Qed.

Definition is_some {A} (o : option A) : bool := match o with Some _ => true | None => false end.

Section Refine.
  Variable strtod : bytes -> option (dbl * nat).
  Hypothesis Hstrtod : strtod_ok strtod.
  Variable content : bytes.
  Variable len : nat.
  Hypothesis Hlen : len <= length content.

  Definition L : bytes := firstn len content.

  Notation rdb := (ParseDefs.rdb content len).
  Notation can_read := (ParseDefs.can_read len).
  Notation can_access := (ParseDefs.can_access len).
  Notation alloc := (ParseDefs.alloc never_fails).
  Notation skip_ws_loop := (ParseDefs.skip_ws_loop content len).
  Notation buffer_skip_whitespace := (ParseDefs.buffer_skip_whitespace content len).
  Notation match_lit := (ParseDefs.match_lit content len).
  Notation skip_utf8_bom := (ParseDefs.skip_utf8_bom content len).
  Notation number_copy := (ParseDefs.number_copy content len).
  Notation parse_number := (ParseDefs.parse_number strtod content len).
  Notation is_hex4 := (ParseDefs.is_hex4 content len).
  Notation parse_hex4 := (ParseDefs.parse_hex4 content len).
  Notation utf16_literal_to_utf8 := (ParseDefs.utf16_literal_to_utf8 content len).
  Notation string_scan := (ParseDefs.string_scan content len).
  Notation string_decode := (ParseDefs.string_decode content len).
  Notation parse_string := (ParseDefs.parse_string never_fails content len).
  Notation array_loop := (ParseDefs.array_loop never_fails content len).
  Notation parse_array := (ParseDefs.parse_array never_fails content len).
  Notation object_loop := (ParseDefs.object_loop never_fails content len).
  Notation parse_object := (ParseDefs.parse_object never_fails content len).
  Notation parse_value := (ParseDefs.parse_value strtod never_fails content len).
  Notation rnt_skip := (ParseDefs.rnt_skip content len).

  Lemma L_length : length L = len.
  Proof. unfold L. apply firstn_length_le. exact Hlen. Qed.

  (** the state offset [k] designates the suffix [l] of the declared bytes *)
  Definition sfx (k : nat) (l : bytes) : Prop := k <= len /\ skipn k L = l.

  Lemma sfx_length k l : sfx k l -> length l = len - k.
  Proof. intros [Hk E]. subst l. rewrite skipn_length, L_length. reflexivity. Qed.

  Lemma sfx_off k l : sfx k l -> k = len - length l.
  Proof. intros H. pose proof (sfx_length _ _ H). destruct H. lia. Qed.

  Lemma sfx_nil k : sfx k [] -> k = len.
  Proof. intros H. pose proof (sfx_length _ _ H) as E. destruct H. cbn in E. lia. Qed.

  Lemma sfx_cons k c r : sfx k (c :: r) -> k < len /\ rdb k = Ok c /\ sfx (S k) r.
  Proof.
    intros H. pose proof (sfx_length _ _ H) as E. destruct H as [Hk Hs]. cbn [length] in E.
    assert (Hlt : k < len) by lia.
    apply skipn_cons_nth in Hs. destruct Hs as [Hn Hr].
    split; [exact Hlt|]. split.
    - unfold ParseDefs.rdb. destruct (Nat.ltb_spec k len) as [_|]; [|lia].
      unfold rd. unfold L in Hn. rewrite nth_error_firstn_lt in Hn by exact Hlt. rewrite Hn. reflexivity.
    - split; [lia | exact Hr].
  Qed.

  Lemma sfx_skipn k l j : sfx k l -> j <= length l -> sfx (k + j) (skipn j l).
  Proof.
    intros H Hj. pose proof (sfx_length _ _ H) as E. destruct H as [Hk Hs]. split; [lia|].
    subst l. symmetry. apply skipn_add.
  Qed.

  Lemma sfx_0 : sfx 0 L.
  Proof. split; [lia | reflexivity]. Qed.

  Lemma can_access0_cons s c r : sfx (off s) (c :: r) -> can_access s 0 = true.
  Proof.
    intros H. apply sfx_cons in H. destruct H as [H _]. unfold ParseDefs.can_access.
    apply Nat.ltb_lt. lia.
  Qed.

  Lemma can_access0_nil s : sfx (off s) [] -> can_access s 0 = false.
  Proof.
    intros H. apply sfx_nil in H. unfold ParseDefs.can_access. apply Nat.ltb_ge. lia.
  Qed.

  (** * whitespace *)
  Lemma skip_ws_loop_sim : forall fuel s l,
    sfx (off s) l -> length l < fuel ->
    exists s', skip_ws_loop fuel s = Ok s' /\ sfx (off s') (drop_ws l) /\ dep s' = dep s.
  Proof.
    induction fuel as [|f IH]; intros s l Hs Hf; [lia|].
    cbn [ParseDefs.skip_ws_loop]. destruct l as [|c r].
    - rewrite (can_access0_nil _ Hs). exists s. split; [reflexivity|]. split; [exact Hs | reflexivity].
    - rewrite (can_access0_cons _ _ _ Hs). destruct (sfx_cons _ _ _ Hs) as [Hlt [Hrd Hr]].
      rewrite Hrd. cbn [bind drop_ws]. destruct (c <=? 32)%Z.
      + destruct (IH (add_off s 1) r) as [s' [E [Hs' Hd]]].
        * cbn [add_off set_off off]. rewrite Nat.add_1_r. exact Hr.
        * cbn [length] in Hf. lia.
        * exists s'. split; [exact E|]. split; [exact Hs' | exact Hd].
      + exists s. split; [reflexivity|]. split; [exact Hs | reflexivity].
  Qed.

  (** after [buffer_skip_whitespace] the offset is either exactly at the first
      non-whitespace byte, or — nothing but whitespace was left — "stuck": at the end of the
      buffer (only when it already was there), or on the last byte, which is whitespace *)
  Definition stuck (k : nat) : Prop := k = len \/ exists c, sfx k [c] /\ (c <= 32)%Z.
  Definition ws_post (k : nat) (l : bytes) : Prop :=
    match l with [] => stuck k | _ :: _ => sfx k l end.

  Lemma bsw_sim : forall s l, sfx (off s) l ->
    exists s', buffer_skip_whitespace s = Ok s' /\ dep s' = dep s /\ ws_post (off s') (drop_ws l) /\
               (off s < len -> off s' < len) /\ off s <= off s'.
  Proof.
    intros s l Hs. unfold ParseDefs.buffer_skip_whitespace. destruct l as [|c r].
    - rewrite (can_access0_nil _ Hs). cbn [negb]. exists s. split; [reflexivity|]. split; [reflexivity|].
      split; [|split; [intro; assumption | lia]]. cbn [drop_ws ws_post]. left. apply sfx_nil. exact Hs.
    - rewrite (can_access0_cons _ _ _ Hs). cbn [negb].
      destruct (skip_ws_loop_sim (S len) s (c :: r) Hs) as [s' [E [Hs' Hd]]].
      { pose proof (sfx_length _ _ Hs). lia. }
      rewrite E. cbn [bind]. destruct (drop_ws (c :: r)) as [|c2 r2] eqn:Edw.
      + pose proof (sfx_nil _ Hs') as Hoff. rewrite Hoff, Nat.eqb_refl.
        exists (set_off s' (len - 1)). split; [reflexivity|]. split; [exact Hd|].
        cbn [set_off off ws_post]. split.
        * right. pose proof (drop_ws_nil_all _ Edw) as Hall.
          destruct (skipn_last_one (c :: r)) as [x [Hx Hin]]; [discriminate|].
          exists x. split.
          -- pose proof (sfx_skipn _ _ (length (c :: r) - 1) Hs) as Hk.
             rewrite Hx in Hk. pose proof (sfx_length _ _ Hs) as Hl.
             destruct (sfx_cons _ _ _ Hs) as [Hlt _].
             replace (off s + (length (c :: r) - 1)) with (len - 1) in Hk by lia.
             apply Hk. lia.
          -- rewrite Forall_forall in Hall. apply Hall. exact Hin.
        * destruct (sfx_cons _ _ _ Hs) as [Hlt _]. lia.
      + destruct (sfx_cons _ _ _ Hs') as [Hlt _].
        destruct (Nat.eqb_spec (off s') len) as [Heq|Hne]; [lia|].
        exists s'. split; [reflexivity|]. split; [exact Hd|]. split; [exact Hs'|]. split; [intro; exact Hlt|].
        pose proof (sfx_off _ _ Hs') as H1. pose proof (sfx_off _ _ Hs) as H2.
        pose proof (drop_ws_length (c :: r)) as H3. rewrite Edw in H3. lia.
  Qed.

  (** what the next byte test sees in a stuck state *)
  Lemma stuck_peek s : stuck (off s) ->
    can_access s 0 = false \/ (can_access s 0 = true /\ exists c, rdb (off s) = Ok c /\ (c <= 32)%Z).
  Proof.
    intros [H|[c [H Hc]]].
    - left. unfold ParseDefs.can_access. apply Nat.ltb_ge. lia.
    - right. split; [eapply can_access0_cons; exact H|]. exists c. split; [|exact Hc].
      apply sfx_cons in H. apply H.
  Qed.

  (** * results of the sub-parsers: the model returns the tree the specification returns and
      its offset designates the specification's rest; [n] bounds the rest *)
  Definition sim_res {A} (r : res (option A * pst)) (sp : option (A * bytes)) (d : Z) (n : nat) : Prop :=
    match sp with
    | Some (t, rest) => exists s', r = Ok (Some t, s') /\ sfx (off s') rest /\ dep s' = d /\ length rest < n
    | None => exists s', r = Ok (None, s')
    end.

  (** * literals *)
  Lemma match_lit_sim : forall lit k l, sfx k l -> length lit <= length l ->
    match_lit k lit = Ok (is_some (starts lit l)).
  Proof.
    induction lit as [|x lit IH]; intros k l Hs Hl; cbn [ParseDefs.match_lit starts]; [reflexivity|].
    destruct l as [|c r]; [cbn in Hl; lia|].
    destruct (sfx_cons _ _ _ Hs) as [_ [Hrd Hr]]. rewrite Hrd. cbn [bind].
    destruct (c =? x)%Z; [|reflexivity]. apply IH; [exact Hr | cbn in Hl; lia].
  Qed.

  Lemma lit_test_sim s l lit n : sfx (off s) l -> n = length lit ->
    (if can_read s n then match_lit (off s) lit else Ok false) = Ok (is_some (starts lit l)).
  Proof.
    intros Hs Hn. pose proof (sfx_length _ _ Hs) as Hl. destruct Hs as [Hk Hs']. unfold ParseDefs.can_read.
    destruct (Nat.leb_spec (off s + n) len) as [H|H].
    - apply match_lit_sim; [split; assumption | lia].
    - rewrite starts_short by lia. reflexivity.
  Qed.

  Lemma starts_sfx lit k l r : sfx k l -> starts lit l = Some r ->
    sfx (k + length lit) r /\ length l = length lit + length r.
  Proof.
    intros Hs H. apply starts_app in H. subst l.
    pose proof (sfx_skipn _ _ (length lit) Hs) as H0.
    rewrite skipn_app, skipn_all, Nat.sub_diag in H0. cbn [skipn app] in H0.
    rewrite app_length. split; [apply H0; rewrite app_length; lia | reflexivity].
  Qed.

  (** * numbers *)
  Lemma number_copy_sim : forall fuel s i l, sfx (off s + i) l ->
    number_copy fuel s i = Ok (number_run fuel l).
  Proof.
    induction fuel as [|f IH]; intros s i l Hs; cbn [ParseDefs.number_copy number_run]; [reflexivity|].
    unfold ParseDefs.can_access. destruct l as [|c r].
    - apply sfx_nil in Hs. destruct (Nat.ltb_spec (off s + i) len); [lia | reflexivity].
    - destruct (sfx_cons _ _ _ Hs) as [Hlt [Hrd Hr]].
      destruct (Nat.ltb_spec (off s + i) len); [|lia].
      rewrite Hrd. cbn [bind]. destruct (number_byte c); [|reflexivity].
      rewrite (IH s (S i) r); [reflexivity|]. rewrite Nat.add_succ_r. exact Hr.
  Qed.

  Lemma parse_number_sim s l : sfx (off s) l ->
    sim_res (parse_number s) (number_l strtod l) (dep s) (length l).
  Proof.
    intros Hs. unfold ParseDefs.parse_number, number_l.
    rewrite (number_copy_sim _ s 0 l) by (rewrite Nat.add_0_r; exact Hs). cbn [bind].
    destruct (strtod (number_run (Z.to_nat (c_NUMBER_C_STRING_SIZE - 1)) l)) as [[d k]|] eqn:E; cbn [sim_res].
    - apply Hstrtod in E. pose proof (number_run_length (Z.to_nat (c_NUMBER_C_STRING_SIZE - 1)) l) as Hl.
      exists (add_off s k). split; [reflexivity|]. cbn [add_off set_off off dep].
      split; [apply sfx_skipn; [exact Hs | lia]|]. split; [reflexivity|].
      rewrite skipn_length. lia.
    - exists s. reflexivity.
  Qed.

  (** * hexadecimal escapes *)
  Lemma rd4 i a b c d r : sfx i (a :: b :: c :: d :: r) ->
    rdb i = Ok a /\ rdb (i + 1) = Ok b /\ rdb (i + 2) = Ok c /\ rdb (i + 3) = Ok d /\ sfx (i + 4) r.
  Proof.
    intros H0. destruct (sfx_cons _ _ _ H0) as [_ [Ha H1]]. destruct (sfx_cons _ _ _ H1) as [_ [Hb H2]].
    destruct (sfx_cons _ _ _ H2) as [_ [Hc H3]]. destruct (sfx_cons _ _ _ H3) as [_ [Hd H4]].
    replace (i + 1) with (S i) by lia. replace (i + 2) with (S (S i)) by lia.
    replace (i + 3) with (S (S (S i))) by lia. replace (i + 4) with (S (S (S (S i)))) by lia.
    tauto.
  Qed.

  Lemma is_hex4_sim i a b c d r : sfx i (a :: b :: c :: d :: r) ->
    is_hex4 i = Ok (is_some (hex4_l (a :: b :: c :: d :: r))).
  Proof.
    intros H. destruct (rd4 _ _ _ _ _ _ H) as [Ha [Hb [Hc [Hd _]]]].
    unfold ParseDefs.is_hex4, hex4_l. rewrite Ha, Hb, Hc, Hd. cbn [bind].
    destruct (hex_val a), (hex_val b), (hex_val c), (hex_val d); reflexivity.
  Qed.

  Lemma parse_hex4_sim i a b c d r : sfx i (a :: b :: c :: d :: r) ->
    parse_hex4 i = Ok (match hex4_l (a :: b :: c :: d :: r) with Some (v, _) => v | None => 0%Z end).
  Proof.
    intros H. destruct (rd4 _ _ _ _ _ _ H) as [Ha [Hb [Hc [Hd _]]]].
    unfold ParseDefs.parse_hex4, hex4_l. rewrite Ha. cbn [bind].
    destruct (hex_val a); [|reflexivity]. rewrite Hb. cbn [bind].
    destruct (hex_val b); [|reflexivity]. rewrite Hc. cbn [bind].
    destruct (hex_val c); [|reflexivity]. rewrite Hd. cbn [bind].
    destruct (hex_val d); reflexivity.
  Qed.

  Lemma long4 {A} (l : list A) n : n < length l -> 4 <= n -> exists a b c d r, l = a :: b :: c :: d :: r.
  Proof.
    intros H H4. destruct l as [|a [|b [|c [|d r]]]]; cbn [length] in H; try lia.
    exists a, b, c, d, r. reflexivity.
  Qed.

  (** utf16_literal_to_utf8 at a backslash-u whose tail [r'] is a scan position *)
  Lemma utf16_sim ip ie c e r' n' k' :
    sfx ip (c :: e :: r') -> scan_l r' = Some (n', k') -> ie = ip + S (S n') ->
    match u_esc_l r' with
    | Some (b, rN) => exists seq nN kN,
        utf16_literal_to_utf8 ip ie = Ok (Some (seq, b)) /\ sfx (ip + seq) rN /\
        scan_l rN = Some (nN, kN) /\ S (S n') = seq + nN /\ length b + S k' <= seq + kN /\ 6 <= seq /\ length b <= 4
    | None => utf16_literal_to_utf8 ip ie = Ok None
    end.
  Proof.
    intros Hs Hsc Hie.
    assert (Hr' : sfx (ip + 2) r').
    { destruct (sfx_cons _ _ _ Hs) as [_ [_ H1]]. destruct (sfx_cons _ _ _ H1) as [_ [_ H2]].
      replace (ip + 2) with (S (S ip)) by lia. exact H2. }
    pose proof (scan_l_lt _ _ _ Hsc) as [Hn'len _].
    unfold ParseDefs.utf16_literal_to_utf8, u_esc_l.
    replace (ie - ip) with (S (S n')) by lia.
    destruct (hex4_l r') as [[fc r2]|] eqn:Eh.
    - (* four hex digits *)
      pose proof (hex4_scan _ _ _ Eh) as Hsc2. rewrite Hsc in Hsc2.
      destruct (scan_l r2) as [[n2 k2]|] eqn:Esc2; [|discriminate].
      injection Hsc2 as Hn2 Hk2. subst n' k'.
      destruct (hex4_l_inv _ _ _ Eh) as [a [b [c' [d [El [_ [_ [_ [_ Hfc]]]]]]]]]. subst r'.
      destruct (Nat.ltb_spec (S (S (4 + n2))) 6) as [Hlt|_]; [lia|].
      rewrite (is_hex4_sim _ _ _ _ _ _ Hr'), Eh. cbn [is_some bind negb].
      rewrite (parse_hex4_sim _ _ _ _ _ _ Hr'), Eh. cbn [bind].
      assert (Hr2 : sfx (ip + 6) r2).
      { destruct (rd4 _ _ _ _ _ _ Hr') as [_ [_ [_ [_ H4]]]]. replace (ip + 6) with (ip + 2 + 4) by lia. exact H4. }
      destruct ((56320 <=? fc) && (fc <=? 57343))%Z; [reflexivity|].
      destruct ((55296 <=? fc) && (fc <=? 56319))%Z.
      + (* surrogate pair *)
        replace (ie - (ip + 6)) with n2 by lia.
        pose proof (scan_l_lt _ _ _ Esc2) as [Hn2len _].
        destruct r2 as [|c0 [|c1 r3]].
        * cbn [length] in Hn2len. lia.
        * cbn [length] in Hn2len. destruct (Nat.ltb_spec n2 6); [reflexivity | lia].
        * destruct (sfx_cons _ _ _ Hr2) as [_ [Hc0 Hr2']]. destruct (sfx_cons _ _ _ Hr2') as [_ [Hc1 Hr3]].
          destruct (Nat.ltb_spec n2 6) as [Hlt|Hge].
          { (* too short for a second sequence: the specification rejects as well *)
            destruct (Z.eqb_spec c0 92) as [E0|E0]; cbn [andb negb]; [|reflexivity].
            destruct (c1 =? 117)%Z; cbn [negb]; [|reflexivity].
            subst c0. cbn [scan_l] in Esc2. cbn [Z.eqb Pos.eqb] in Esc2.
            destruct (scan_l r3) as [[n3 k3]|] eqn:Esc3; [|discriminate].
            injection Esc2 as Hn3 Hk3.
            rewrite (hex4_scan_short _ _ _ Esc3) by lia. reflexivity. }
          rewrite Hc0. cbn [bind].
          destruct (Z.eqb_spec c0 92) as [E0|E0]; cbn [andb negb]; [|reflexivity].
          replace (ip + 6 + 1) with (S (ip + 6)) by lia. rewrite Hc1. cbn [bind].
          destruct (c1 =? 117)%Z; cbn [negb]; [|reflexivity].
          subst c0. cbn [scan_l] in Esc2. cbn [Z.eqb Pos.eqb] in Esc2.
          destruct (scan_l r3) as [[n3 k3]|] eqn:Esc3; [|discriminate].
          injection Esc2 as Hn3 Hk3. subst n2 k2.
          pose proof (scan_l_lt _ _ _ Esc3) as [Hn3len _].
          destruct (long4 r3 n3 Hn3len) as [a2 [b2 [c2 [d2 [r4 Er3]]]]]; [lia|]. subst r3.
          replace (ip + 6 + 2) with (S (S (ip + 6))) by lia.
          rewrite (parse_hex4_sim _ _ _ _ _ _ Hr3). cbn [bind].
          destruct (hex4_l (a2 :: b2 :: c2 :: d2 :: r4)) as [[sc r4']|] eqn:Eh2; [|reflexivity].
          pose proof (hex4_scan _ _ _ Eh2) as Hsc4. rewrite Esc3 in Hsc4.
          destruct (scan_l r4') as [[n4 k4]|] eqn:Esc4; [|discriminate].
          injection Hsc4 as Hn4 Hk4. subst n3 k3.
          destruct (hex4_l_inv _ _ _ Eh2) as [a3 [b3 [c3 [d3 [El2 _]]]]]. injection El2 as _ _ _ _ Er4. subst r4'.
          destruct ((sc <? 56320) || (sc >? 57343))%Z; [reflexivity|].
          destruct (utf8_encode_c _) as [bb|] eqn:Eu; [|reflexivity].
          exists 12, n4, k4. split; [reflexivity|]. pose proof (utf8_encode_c_len _ _ Eu) as Hbb.
          split.
          { destruct (rd4 _ _ _ _ _ _ Hr3) as [_ [_ [_ [_ H4]]]].
            replace (ip + 12) with (S (S (ip + 6)) + 4) by lia. exact H4. }
          split; [exact Esc4|]. cbn [length] in *. lia.
      + destruct (utf8_encode_c fc) as [bb|] eqn:Eu; [|reflexivity].
        exists 6, n2, k2. split; [reflexivity|]. pose proof (utf8_encode_c_len _ _ Eu) as Hbb.
        split; [exact Hr2|]. split; [exact Esc2|]. lia.
    - (* not four hex digits *)
      destruct (Nat.ltb_spec (S (S n')) 6) as [Hlt|Hge]; [reflexivity|].
      destruct (long4 r' n' Hn'len) as [a [b [c' [d [r2 El]]]]]; [lia|]. subst r'.
      rewrite (is_hex4_sim _ _ _ _ _ _ Hr'), Eh. reflexivity.
  Qed.

  (** * strings: first pass *)
  Lemma string_scan_sim : forall fuel ie sk l, sfx ie l -> length l < fuel ->
    string_scan fuel ie sk =
    Ok (match scan_l l with Some (n, k) => Some (ie + n, sk + k) | None => None end).
  Proof.
    induction fuel as [|f IH]; intros ie sk l Hs Hf; [lia|].
    cbn [ParseDefs.string_scan]. destruct l as [|c r].
    - apply sfx_nil in Hs. destruct (Nat.ltb_spec ie len); [lia | reflexivity].
    - destruct (sfx_cons _ _ _ Hs) as [Hlt [Hrd Hr]]. destruct (Nat.ltb_spec ie len); [|lia].
      rewrite Hrd. cbn [bind scan_l length] in *. destruct (c =? 34)%Z.
      + rewrite !Nat.add_0_r. reflexivity.
      + destruct (c =? 92)%Z.
        * destruct r as [|e r'].
          -- apply sfx_nil in Hr. destruct (Nat.leb_spec len (ie + 1)); [reflexivity | lia].
          -- destruct (sfx_cons _ _ _ Hr) as [Hlt2 [_ Hr']].
             destruct (Nat.leb_spec len (ie + 1)); [lia|].
             rewrite (IH (ie + 2) (S sk) r'); [| replace (ie + 2) with (S (S ie)) by lia; exact Hr' | cbn [length] in Hf; lia].
             destruct (scan_l r') as [[n k]|]; [|reflexivity]. do 3 f_equal; lia.
        * rewrite (IH (ie + 1) sk r); [| replace (ie + 1) with (S ie) by lia; exact Hr | lia].
          destruct (scan_l r) as [[n k]|]; [|reflexivity]. do 3 f_equal; lia.
  Qed.

  (** * strings: second pass.  [l] is a scan position [n] bytes before the closing quote with
      [k] escapes to go; the output never exceeds the capacity *)
  Lemma put_ok cap out b : length out + length b <= cap -> put cap out b = Ok (out ++ b).
  Proof. intro H. unfold put. destruct (Nat.leb_spec (length out + length b) cap); [reflexivity | lia]. Qed.

  Lemma string_decode_sim : forall fuel fs cap ie ip l n k out,
    sfx ip l -> scan_l l = Some (n, k) -> ie = ip + n -> n < fuel -> n < fs ->
    length out + n + 1 <= cap + k ->
    match str_l fs l with
    | Some (o, rest) => string_decode fuel cap ip ie out = Ok (inl (out ++ o)) /\ sfx (S ie) rest
    | None => exists p, string_decode fuel cap ip ie out = Ok (inr p)
    end.
  Proof.
    induction fuel as [|f IH]; intros fs cap ie ip l n k out Hs Hsc Hie Hn Hfs Hcap; [lia|].
    destruct fs as [|fs]; [lia|].
    destruct l as [|c r]; [discriminate|].
    destruct (sfx_cons _ _ _ Hs) as [Hlt [Hrd Hr]].
    pose proof (scan_l_lt _ _ _ Hsc) as [_ Hk2].
    rewrite str_l_S. cbn [ParseDefs.string_decode]. cbn [scan_l] in Hsc.
    (* continuation after one decoded unit [b] of [seq] input bytes *)
    assert (Hcont : forall b seq rN nN kN,
      sfx (ip + seq) rN -> scan_l rN = Some (nN, kN) -> n = seq + nN -> 1 <= seq ->
      length b + k <= seq + kN -> length out + length b <= cap ->
      match str_cont fs (Some (b, rN)) with
      | Some (o, rest) =>
          (o' <- put cap out b ;; string_decode f cap (ip + seq) ie o') = Ok (inl (out ++ o)) /\ sfx (S ie) rest
      | None => exists p, (o' <- put cap out b ;; string_decode f cap (ip + seq) ie o') = Ok (inr p)
      end).
    { intros b seq rN nN kN HsN HscN HnN Hseq Hbk Hput. rewrite (put_ok _ _ _ Hput). cbn [bind str_cont].
      pose proof (IH fs cap ie (ip + seq) rN nN kN (out ++ b) HsN HscN) as H.
      rewrite app_length in H. specialize (H ltac:(lia) ltac:(lia) ltac:(lia) ltac:(lia)).
      destruct (str_l fs rN) as [[o rest]|].
      - rewrite app_assoc. exact H.
      - exact H. }
    destruct (c =? 34)%Z eqn:E34.
    - injection Hsc as Hn0 Hk0. subst n k. rewrite Nat.add_0_r in Hie. subst ie.
      rewrite Nat.ltb_irrefl. rewrite put_ok by (cbn [length]; lia). cbn [bind].
      rewrite app_nil_r. split; [reflexivity | exact Hr].
    - destruct (c =? 92)%Z eqn:E92.
      + destruct r as [|e r']; [discriminate|].
        destruct (scan_l r') as [[n' k']|] eqn:Esc'; [|discriminate].
        injection Hsc as Hn0 Hk0. subst n k.
        destruct (sfx_cons _ _ _ Hr) as [_ [Hrde Hr']].
        destruct (Nat.ltb_spec ip ie); [|lia].
        rewrite Hrd. cbn [bind]. rewrite E92. cbn [negb].
        replace (ip + 1) with (S ip) by lia. rewrite Hrde. cbn [bind].
        assert (Hsimple : forall x,
          match str_cont fs (Some ([x], r')) with
          | Some (o, rest) =>
              (o' <- put cap out [x] ;; string_decode f cap (ip + 2) ie o') = Ok (inl (out ++ o)) /\ sfx (S ie) rest
          | None => exists p, (o' <- put cap out [x] ;; string_decode f cap (ip + 2) ie o') = Ok (inr p)
          end).
        { intro x. apply (Hcont [x] 2 r' n' k').
          - replace (ip + 2) with (S (S ip)) by lia. exact Hr'.
          - exact Esc'.
          - lia.
          - lia.
          - cbn [length]. lia.
          - cbn [length]. lia. }
        destruct (e =? 98)%Z; [apply Hsimple|]. destruct (e =? 102)%Z; [apply Hsimple|].
        destruct (e =? 110)%Z; [apply Hsimple|]. destruct (e =? 114)%Z; [apply Hsimple|].
        destruct (e =? 116)%Z; [apply Hsimple|].
        destruct ((e =? 34) || (e =? 92) || (e =? 47))%Z; [apply Hsimple|].
        destruct (e =? 117)%Z.
        * pose proof (utf16_sim ip ie c e r' n' k' Hs Esc' Hie) as Hu.
          destruct (u_esc_l r') as [[b rN]|].
          -- destruct Hu as [seq [nN [kN [Eu [HsN [HscN [Hnn [Hbk [Hseq Hb4]]]]]]]]].
             rewrite Eu. cbn [bind].
             apply (Hcont b seq rN nN kN HsN HscN); lia.
          -- rewrite Hu. cbn [bind str_cont]. exists ip. reflexivity.
        * cbn [str_cont]. exists ip. reflexivity.
      + destruct (scan_l r) as [[n' k']|] eqn:Esc'; [|discriminate].
        injection Hsc as Hn0 Hk0. subst n k.
        destruct (Nat.ltb_spec ip ie); [|lia].
        rewrite Hrd. cbn [bind]. rewrite E92. cbn [negb].
        replace (S ip) with (ip + 1) by lia.
        apply (Hcont [c] 1 r n' k').
        * replace (ip + 1) with (S ip) by lia. exact Hr.
        * exact Esc'.
        * lia.
        * lia.
        * cbn [length]. lia.
        * cbn [length]. lia.
  Qed.

  (** * parse_string at a byte [c] (the caller has checked that the offset is readable) *)
  Lemma parse_string_sim s c r : sfx (off s) (c :: r) ->
    sim_res (parse_string s) (if (c =? 34)%Z then string_l r else None) (dep s) (length (c :: r)).
  Proof.
    intros Hs. destruct (sfx_cons _ _ _ Hs) as [Hlt [Hrd Hr]].
    unfold ParseDefs.parse_string. rewrite Hrd. cbn [bind].
    destruct (c =? 34)%Z; cbn [negb]; [|eexists; reflexivity].
    pose proof (sfx_length _ _ Hr) as Hlr.
    rewrite (string_scan_sim (S len) (off s + 1) 0 r);
      [| replace (off s + 1) with (S (off s)) by lia; exact Hr | lia].
    cbn [bind]. unfold string_l.
    destruct (scan_l r) as [[n k]|] eqn:Esc.
    - pose proof (scan_l_lt _ _ _ Esc) as [Hnl Hk2].
      cbn [ParseDefs.alloc never_fails negb]. cbv beta iota.
      pose proof (string_decode_sim (S len) (S (length r)) (off s + 1 + n - off s - (0 + k) + 1)
                    (off s + 1 + n) (off s + 1) r n k []) as H.
      specialize (H ltac:(replace (off s + 1) with (S (off s)) by lia; exact Hr) Esc eq_refl
                    ltac:(lia) ltac:(lia) ltac:(cbn [length]; lia)).
      destruct (str_l (S (length r)) r) as [[o rest]|]; cbn [sim_res].
      + destruct H as [Ed Hrest]. rewrite Ed. cbn [bind app].
        eexists. split; [reflexivity|]. cbn [set_off off dep].
        split; [replace (off s + 1 + n + 1) with (S (off s + 1 + n)) by lia; exact Hrest|].
        split; [reflexivity|].
        pose proof (sfx_length _ _ Hrest). cbn [length]. lia.
      + destruct H as [p Ed]. rewrite Ed. cbn [bind]. eexists. reflexivity.
    - rewrite (scan_none_str _ _ Esc). cbn [sim_res]. eexists. reflexivity.
  Qed.

  (** * arrays and objects, given the simulation for values one level down *)
  Lemma ws_small_ne c x : (c <= 32)%Z -> (32 < x)%Z -> (c =? x)%Z = false.
  Proof. intros. apply Z.eqb_neq. lia. Qed.

  Section Loops.
    Variable pv : pst -> res (option node * pst).
    Variable vl : bytes -> option (node * bytes).
    Variable d : Z.
    Variable B : nat.
    Hypothesis Hpv : forall s l, sfx (off s) l -> dep s = d -> length l < B ->
      sim_res (pv s) (vl l) d (length l).
    Hypothesis Hstuck : forall s, stuck (off s) -> exists s', pv s = Ok (None, s').
    Hypothesis Hvl_nil : vl [] = None.

    (* a value after whitespace *)
    Lemma pv_after_ws s l : sfx (off s) l -> dep s = d -> length l < B ->
      exists s2, buffer_skip_whitespace s = Ok s2 /\
        sim_res (pv s2) (vl (drop_ws l)) d (length l).
    Proof.
      intros Hs Hd HB. destruct (bsw_sim s l Hs) as [s2 [E [Hd2 [Hpost _]]]].
      exists s2. split; [exact E|]. pose proof (drop_ws_length l) as Hdl.
      destruct (drop_ws l) as [|c r] eqn:Edw.
      - rewrite Hvl_nil. cbn [sim_res]. apply Hstuck. exact Hpost.
      - cbn [ws_post] in Hpost. pose proof (Hpv s2 (c :: r) Hpost ltac:(lia) ltac:(lia)) as H.
        destruct (vl (c :: r)) as [[t rest]|]; cbn [sim_res] in *; [|exact H].
        destruct H as [s' [E' [Hs' [Hd' Hl']]]]. exists s'. split; [exact E'|]. split; [exact Hs'|]. split; [exact Hd'|]. lia.
    Qed.

    (* the separator test after whitespace: [K] is what the model does on a separator byte *)
    Lemma sep_after_ws s l : sfx (off s) l ->
      exists s2, buffer_skip_whitespace s = Ok s2 /\ dep s2 = dep s /\
        match drop_ws l with
        | c :: r => can_access s2 0 = true /\ rdb (off s2) = Ok c /\ sfx (off s2 + 1) r /\ length r < length l
        | [] => can_access s2 0 = false \/ (can_access s2 0 = true /\ exists c, rdb (off s2) = Ok c /\ (c <= 32)%Z)
        end.
    Proof.
      intros Hs. destruct (bsw_sim s l Hs) as [s2 [E [Hd2 [Hpost _]]]].
      exists s2. split; [exact E|]. split; [exact Hd2|]. pose proof (drop_ws_length l) as Hdl.
      destruct (drop_ws l) as [|c r] eqn:Edw.
      - apply stuck_peek. exact Hpost.
      - cbn [ws_post] in Hpost. split; [eapply can_access0_cons; exact Hpost|].
        destruct (sfx_cons _ _ _ Hpost) as [_ [Hrd Hr]]. split; [exact Hrd|].
        rewrite Nat.add_1_r. split; [exact Hr|]. cbn [length] in Hdl. lia.
    Qed.

    Lemma array_loop_sim : forall fuel k s l0 acc,
      sfx (off s + 1) l0 -> dep s = d -> length l0 < fuel -> length l0 < k -> length l0 < B ->
      match elems_l vl k l0 acc with
      | Some (items, rest) => exists s', array_loop pv fuel s acc = Ok (Some items, s') /\
          sfx (off s' + 1) rest /\ dep s' = d /\ length rest < length l0
      | None => exists s', array_loop pv fuel s acc = Ok (None, s')
      end.
    Proof.
      induction fuel as [|f IH]; intros k s l0 acc Hs Hd Hf Hk HB; [lia|].
      destruct k as [|k]; [lia|].
      cbn [ParseDefs.array_loop elems_l]. cbn [ParseDefs.alloc never_fails negb]. cbv beta iota.
      set (s1 := mkpst (off s) (dep s) (S (req s)) (live s + 1)).
      destruct (pv_after_ws (add_off s1 1) l0 Hs Hd HB) as [s2 [E2 H2]].
      rewrite E2. cbn [bind].
      destruct (vl (drop_ws l0)) as [[v r2]|]; cbn [sim_res] in H2.
      - destruct H2 as [s3 [E3 [Hs3 [Hd3 Hl3]]]]. rewrite E3. cbn [bind].
        destruct (sep_after_ws s3 r2 Hs3) as [s4 [E4 [Hd4 H4]]]. rewrite E4. cbn [bind].
        destruct (drop_ws r2) as [|c2 r3].
        + destruct H4 as [Hca | [Hca [c [Hrd Hc]]]]; rewrite Hca; [eexists; reflexivity|].
          rewrite Hrd. cbn [bind]. rewrite (ws_small_ne c 44), (ws_small_ne c 93) by lia.
          eexists; reflexivity.
        + destruct H4 as [Hca [Hrd [Hs4 Hl4]]]. rewrite Hca, Hrd. cbn [bind].
          destruct (c2 =? 44)%Z.
          * pose proof (IH k s4 r3 (v :: acc) Hs4 ltac:(lia) ltac:(lia) ltac:(lia) ltac:(lia)) as H.
            destruct (elems_l vl k r3 (v :: acc)) as [[items rest]|]; [|exact H].
            destruct H as [s' [E' [Hs' [Hd' Hl']]]]. exists s'. split; [exact E'|]. split; [exact Hs'|]. split; [exact Hd'|]. lia.
          * destruct (c2 =? 93)%Z; [|eexists; reflexivity].
            exists s4. split; [reflexivity|]. split; [exact Hs4|]. split; [lia | lia].
      - destruct H2 as [s3 E3]. rewrite E3. cbn [bind]. eexists; reflexivity.
    Qed.

    Lemma parse_array_sim s r : sfx (off s) (91%Z :: r) -> (dep s + 1)%Z = d -> length r < B ->
      sim_res (parse_array pv s)
              (if (c_CJSON_NESTING_LIMIT <=? dep s)%Z then None else array_l vl r) (dep s) (length (91%Z :: r)).
    Proof.
      intros Hs Hd HB. unfold ParseDefs.parse_array.
      destruct (c_CJSON_NESTING_LIMIT <=? dep s)%Z; [cbn [sim_res]; eexists; reflexivity|].
      destruct (sfx_cons _ _ _ Hs) as [Hlt [Hrd Hr]].
      cbv zeta. set (s0 := set_dep s (dep s + 1)).
      assert (Hoff0 : off s0 = off s) by reflexivity. assert (Hdep0 : dep s0 = (dep s + 1)%Z) by reflexivity.
      rewrite Hoff0, Hrd. cbn [bind]. rewrite Z.eqb_refl. cbn [negb].
      destruct (bsw_sim (add_off s0 1) r) as [s1 [E1 [Hd1 [Hpost [_ Hmono]]]]].
      { cbn [add_off set_off off]. rewrite Hoff0, Nat.add_1_r. exact Hr. }
      cbn [add_off set_off off dep] in Hd1, Hmono. rewrite Hoff0 in Hmono. rewrite Hdep0 in Hd1.
      rewrite E1. cbn [bind]. unfold array_l. pose proof (drop_ws_length r) as Hdl.
      destruct (drop_ws r) as [|c1 r1] eqn:Edw; cbn [ws_post] in Hpost.
      - (* only whitespace after the bracket *)
        cbn [sim_res]. destruct Hpost as [Hend | [c [Hc Hc32]]].
        + assert (Hca : can_access s1 0 = false) by (unfold ParseDefs.can_access; apply Nat.ltb_ge; lia).
          rewrite Hca. eexists; reflexivity.
        + rewrite (can_access0_cons _ _ _ Hc). destruct (sfx_cons _ _ _ Hc) as [Hlt1 [Hrd1 _]].
          rewrite Hrd1. cbn [bind]. rewrite (ws_small_ne c 93) by lia.
          pose proof (array_loop_sim (S len) 2 (set_off s1 (off s1 - 1)) [c] []) as H.
          cbn [set_off off dep] in H.
          replace (off s1 - 1 + 1) with (off s1) in H by lia.
          specialize (H Hc ltac:(lia) ltac:(cbn [length]; lia) ltac:(cbn [length]; lia)).
          assert (HB1 : length [c] < B).
          { pose proof (sfx_length _ _ Hr). pose proof (sfx_off _ _ Hc). cbn [length] in *. lia. }
          specialize (H HB1). cbn [elems_l] in H. rewrite (drop_ws_nil_cons c) in H by exact Hc32.
          rewrite Hvl_nil in H. destruct H as [s' E']. rewrite E'. cbn [bind]. eexists; reflexivity.
      - rewrite (can_access0_cons _ _ _ Hpost). destruct (sfx_cons _ _ _ Hpost) as [Hlt1 [Hrd1 Hr1]].
        rewrite Hrd1. cbn [bind]. destruct (c1 =? 93)%Z.
        + cbn [sim_res]. eexists. split; [reflexivity|]. cbn [add_off set_off set_dep off dep].
          split; [rewrite Nat.add_1_r; exact Hr1|]. split; [lia|]. cbn [length] in *. lia.
        + pose proof (array_loop_sim (S len) (S (length r)) (set_off s1 (off s1 - 1)) (c1 :: r1) []) as H.
          cbn [set_off off dep] in H.
          replace (off s1 - 1 + 1) with (off s1) in H by lia.
          pose proof (sfx_length _ _ Hpost) as Hl1.
          specialize (H Hpost ltac:(lia) ltac:(lia) ltac:(lia) ltac:(lia)).
          destruct (elems_l vl (S (length r)) (c1 :: r1) []) as [[items rest]|]; cbn [sim_res].
          * destruct H as [s2 [E2 [Hs2 [Hd2 Hl2]]]]. rewrite E2. cbn [bind].
            eexists. split; [reflexivity|]. cbn [add_off set_off set_dep off dep].
            split; [exact Hs2|]. split; [lia|]. cbn [length] in *. lia.
          * destruct H as [s2 E2]. rewrite E2. cbn [bind]. eexists; reflexivity.
    Qed.

    Lemma object_loop_sim : forall fuel k s l0 acc,
      sfx (off s + 1) l0 -> dep s = d -> length l0 < fuel -> length l0 < k -> length l0 < B ->
      match members_l vl k l0 acc with
      | Some (items, rest) => exists s', object_loop pv fuel s acc = Ok (Some items, s') /\
          sfx (off s' + 1) rest /\ dep s' = d /\ length rest < length l0
      | None => exists s', object_loop pv fuel s acc = Ok (None, s')
      end.
    Proof.
      induction fuel as [|f IH]; intros k s l0 acc Hs Hd Hf Hk HB; [lia|].
      destruct k as [|k]; [lia|].
      cbn [ParseDefs.object_loop members_l]. cbn [ParseDefs.alloc never_fails negb]. cbv beta iota.
      set (s1 := mkpst (off s) (dep s) (S (req s)) (live s + 1)).
      destruct l0 as [|x0 l0'].
      { (* nothing after the separator *)
        apply sfx_nil in Hs.
        assert (Hca : can_access s1 1 = false) by (unfold ParseDefs.can_access; apply Nat.ltb_ge; cbn [off s1]; lia).
        rewrite Hca. cbn [negb drop_ws]. eexists; reflexivity. }
      assert (Hca : can_access s1 1 = true).
      { destruct (sfx_cons _ _ _ Hs) as [Hlt _]. unfold ParseDefs.can_access. apply Nat.ltb_lt. cbn [off s1]. lia. }
      rewrite Hca. cbn [negb].
      destruct (bsw_sim (add_off s1 1) (x0 :: l0') Hs) as [s2 [E2 [Hd2 [Hpost [Hlt2 _]]]]].
      unfold s1 in Hd2. cbn [add_off set_off dep] in Hd2.
      rewrite E2. cbn [bind]. pose proof (drop_ws_length (x0 :: l0')) as Hdl.
      assert (Hoff2 : off s2 < len).
      { apply Hlt2. destruct (sfx_cons _ _ _ Hs) as [Hlt _]. exact Hlt. }
      destruct (drop_ws (x0 :: l0')) as [|q rq] eqn:Edw; cbn [ws_post] in Hpost.
      { (* only whitespace before the end: parse_string sees a whitespace byte *)
        destruct Hpost as [Hend | [c [Hc Hc32]]]; [lia|].
        pose proof (parse_string_sim s2 c [] Hc) as H. rewrite (ws_small_ne c 34) in H by lia.
        destruct H as [s3 E3]. rewrite E3. cbn [bind]. eexists; reflexivity. }
      pose proof (parse_string_sim s2 q rq Hpost) as H3.
      destruct (q =? 34)%Z; cbn [negb]; cbn [sim_res] in H3;
        [| destruct H3 as [s3 E3]; rewrite E3; cbn [bind]; eexists; reflexivity].
      destruct (string_l rq) as [[key r2]|]; cbn [sim_res] in H3;
        [| destruct H3 as [s3 E3]; rewrite E3; cbn [bind]; eexists; reflexivity].
      destruct H3 as [s3 [E3 [Hs3 [Hd3 Hl3]]]]. rewrite E3. cbn [bind].
      destruct (sep_after_ws s3 r2 Hs3) as [s4 [E4 [Hd4 H4]]]. rewrite E4. cbn [bind].
      destruct (drop_ws r2) as [|col r3].
      { destruct H4 as [Hca4 | [Hca4 [c [Hrd Hc]]]]; rewrite Hca4; cbn [negb]; [eexists; reflexivity|].
        rewrite Hrd. cbn [bind]. rewrite (ws_small_ne c 58) by lia. cbn [negb]. eexists; reflexivity. }
      destruct H4 as [Hca4 [Hrd4 [Hs4 Hl4]]]. rewrite Hca4, Hrd4. cbn [bind negb].
      destruct (col =? 58)%Z; cbn [negb]; [|eexists; reflexivity].
      cbn [length] in *.
      destruct (pv_after_ws (add_off s4 1) r3 Hs4 ltac:(cbn [add_off set_off dep]; lia) ltac:(lia)) as [s5 [E5 H5]].
      rewrite E5. cbn [bind].
      destruct (vl (drop_ws r3)) as [[v0 r4]|]; cbn [sim_res] in H5;
        [| destruct H5 as [s6 E6]; rewrite E6; cbn [bind]; eexists; reflexivity].
      destruct H5 as [s6 [E6 [Hs6 [Hd6 Hl6]]]]. rewrite E6. cbn [bind].
      destruct (sep_after_ws s6 r4 Hs6) as [s7 [E7 [Hd7 H7]]]. rewrite E7. cbn [bind].
      destruct (drop_ws r4) as [|c2 r5].
      { destruct H7 as [Hca7 | [Hca7 [c [Hrd Hc]]]]; rewrite Hca7; [eexists; reflexivity|].
        rewrite Hrd. cbn [bind]. rewrite (ws_small_ne c 44), (ws_small_ne c 125) by lia.
        eexists; reflexivity. }
      destruct H7 as [Hca7 [Hrd7 [Hs7 Hl7]]]. rewrite Hca7, Hrd7. cbn [bind].
      destruct (c2 =? 44)%Z.
      - pose proof (IH k s7 r5 (with_key key v0 :: acc) Hs7 ltac:(lia) ltac:(lia) ltac:(lia) ltac:(lia)) as H.
        destruct (members_l vl k r5 (with_key key v0 :: acc)) as [[items rest]|]; [|exact H].
        destruct H as [s' [E' [Hs' [Hd' Hl']]]]. exists s'. split; [exact E'|]. split; [exact Hs'|]. split; [exact Hd'|]. lia.
      - destruct (c2 =? 125)%Z; [|eexists; reflexivity].
        exists s7. split; [reflexivity|]. split; [exact Hs7|]. split; lia.
    Qed.

    Lemma parse_object_sim s r : sfx (off s) (123%Z :: r) -> (dep s + 1)%Z = d -> length r < B ->
      sim_res (parse_object pv s)
              (if (c_CJSON_NESTING_LIMIT <=? dep s)%Z then None else object_l vl r) (dep s) (length (123%Z :: r)).
    Proof.
      intros Hs Hd HB. unfold ParseDefs.parse_object.
      destruct (c_CJSON_NESTING_LIMIT <=? dep s)%Z; [cbn [sim_res]; eexists; reflexivity|].
      destruct (sfx_cons _ _ _ Hs) as [Hlt [Hrd Hr]].
      cbv zeta. set (s0 := set_dep s (dep s + 1)).
      assert (Hoff0 : off s0 = off s) by reflexivity. assert (Hdep0 : dep s0 = (dep s + 1)%Z) by reflexivity.
      assert (Hca0 : can_access s0 0 = true).
      { unfold ParseDefs.can_access. rewrite Hoff0. apply Nat.ltb_lt. lia. }
      rewrite Hca0. cbn [negb].
      rewrite Hoff0, Hrd. cbn [bind]. rewrite Z.eqb_refl. cbn [negb].
      destruct (bsw_sim (add_off s0 1) r) as [s1 [E1 [Hd1 [Hpost [_ Hmono]]]]].
      { cbn [add_off set_off off]. rewrite Hoff0, Nat.add_1_r. exact Hr. }
      cbn [add_off set_off off dep] in Hd1, Hmono. rewrite Hoff0 in Hmono. rewrite Hdep0 in Hd1.
      rewrite E1. cbn [bind]. unfold object_l. pose proof (drop_ws_length r) as Hdl.
      destruct (drop_ws r) as [|c1 r1] eqn:Edw; cbn [ws_post] in Hpost.
      - cbn [sim_res]. destruct Hpost as [Hend | [c [Hc Hc32]]].
        + assert (Hca : can_access s1 0 = false) by (unfold ParseDefs.can_access; apply Nat.ltb_ge; lia).
          rewrite Hca. eexists; reflexivity.
        + rewrite (can_access0_cons _ _ _ Hc). destruct (sfx_cons _ _ _ Hc) as [Hlt1 [Hrd1 _]].
          rewrite Hrd1. cbn [bind]. rewrite (ws_small_ne c 125) by lia.
          pose proof (object_loop_sim (S len) 2 (set_off s1 (off s1 - 1)) [c] []) as H.
          cbn [set_off off dep] in H.
          replace (off s1 - 1 + 1) with (off s1) in H by lia.
          specialize (H Hc ltac:(lia) ltac:(cbn [length]; lia) ltac:(cbn [length]; lia)).
          assert (HB1 : length [c] < B).
          { pose proof (sfx_length _ _ Hr). pose proof (sfx_off _ _ Hc). cbn [length] in *. lia. }
          specialize (H HB1). cbn [members_l] in H. rewrite (drop_ws_nil_cons c) in H by exact Hc32.
          destruct H as [s' E']. rewrite E'. cbn [bind]. eexists; reflexivity.
      - rewrite (can_access0_cons _ _ _ Hpost). destruct (sfx_cons _ _ _ Hpost) as [Hlt1 [Hrd1 Hr1]].
        rewrite Hrd1. cbn [bind]. destruct (c1 =? 125)%Z.
        + cbn [sim_res]. eexists. split; [reflexivity|]. cbn [add_off set_off set_dep off dep].
          split; [rewrite Nat.add_1_r; exact Hr1|]. split; [lia|]. cbn [length] in *. lia.
        + pose proof (object_loop_sim (S len) (S (length r)) (set_off s1 (off s1 - 1)) (c1 :: r1) []) as H.
          cbn [set_off off dep] in H.
          replace (off s1 - 1 + 1) with (off s1) in H by lia.
          pose proof (sfx_length _ _ Hpost) as Hl1.
          specialize (H Hpost ltac:(lia) ltac:(lia) ltac:(lia) ltac:(lia)).
          destruct (members_l vl (S (length r)) (c1 :: r1) []) as [[items rest]|]; cbn [sim_res].
          * destruct H as [s2 [E2 [Hs2 [Hd2 Hl2]]]]. rewrite E2. cbn [bind].
            eexists. split; [reflexivity|]. cbn [add_off set_off set_dep off dep].
            split; [exact Hs2|]. split; [lia|]. cbn [length] in *. lia.
          * destruct H as [s2 E2]. rewrite E2. cbn [bind]. eexists; reflexivity.
    Qed.
  End Loops.

  (** * values *)
  Lemma value_l_nil f d : value_l strtod f d [] = None.
  Proof. destruct f; reflexivity. Qed.

  Lemma stuck_no_read s n : stuck (off s) -> 2 <= n -> can_read s n = false.
  Proof.
    intros H Hn. unfold ParseDefs.can_read. apply Nat.leb_gt. destruct H as [H | [c [H _]]].
    - lia.
    - apply sfx_off in H. cbn [length] in H. lia.
  Qed.

  Lemma parse_value_stuck f s : stuck (off s) -> exists s', parse_value (S f) s = Ok (None, s').
  Proof.
    intros H. cbn [ParseDefs.parse_value].
    rewrite !(stuck_no_read s) by (exact H || lia). cbn [bind].
    destruct (stuck_peek s H) as [Hca | [Hca [c [Hrd Hc]]]]; rewrite Hca; cbn [negb]; [eexists; reflexivity|].
    rewrite Hrd. cbn [bind].
    rewrite (ws_small_ne c 34), (ws_small_ne c 45), (ws_small_ne c 91), (ws_small_ne c 123) by lia.
    destruct (Z.leb_spec 48 c); [lia|]. cbn [andb orb]. eexists; reflexivity.
  Qed.

  Lemma parse_value_sim : forall fuel s l, sfx (off s) l -> length l < fuel ->
    sim_res (parse_value fuel s) (value_l strtod fuel (dep s) l) (dep s) (length l).
  Proof.
    induction fuel as [|f IH]; intros s l Hs Hf; [lia|].
    cbn [ParseDefs.parse_value value_l].
    (* null *)
    rewrite (lit_test_sim s l [110; 117; 108; 108]%Z 4 Hs eq_refl). cbn [bind].
    destruct (starts [110; 117; 108; 108]%Z l) as [r1|] eqn:E1; cbn [is_some].
    { destruct (starts_sfx _ _ _ _ Hs E1) as [Hr1 Hl1]. cbn [length] in Hr1, Hl1.
      cbn [sim_res]. eexists. split; [reflexivity|]. cbn [add_off set_off off dep].
      split; [exact Hr1|]. split; [reflexivity | lia]. }
    (* false *)
    rewrite (lit_test_sim s l [102; 97; 108; 115; 101]%Z 5 Hs eq_refl). cbn [bind].
    destruct (starts [102; 97; 108; 115; 101]%Z l) as [r2|] eqn:E2; cbn [is_some].
    { destruct (starts_sfx _ _ _ _ Hs E2) as [Hr1 Hl1]. cbn [length] in Hr1, Hl1.
      cbn [sim_res]. eexists. split; [reflexivity|]. cbn [add_off set_off off dep].
      split; [exact Hr1|]. split; [reflexivity | lia]. }
    (* true *)
    rewrite (lit_test_sim s l [116; 114; 117; 101]%Z 4 Hs eq_refl). cbn [bind].
    destruct (starts [116; 114; 117; 101]%Z l) as [r3|] eqn:E3; cbn [is_some].
    { destruct (starts_sfx _ _ _ _ Hs E3) as [Hr1 Hl1]. cbn [length] in Hr1, Hl1.
      cbn [sim_res]. eexists. split; [reflexivity|]. cbn [add_off set_off off dep].
      split; [exact Hr1|]. split; [reflexivity | lia]. }
    destruct l as [|c r].
    { rewrite (can_access0_nil _ Hs). cbn [negb sim_res]. eexists; reflexivity. }
    rewrite (can_access0_cons _ _ _ Hs). cbn [negb].
    destruct (sfx_cons _ _ _ Hs) as [Hlt [Hrd Hr]]. rewrite Hrd. cbn [bind].
    destruct (c =? 34)%Z eqn:E34.
    { pose proof (parse_string_sim s c r Hs) as H. rewrite E34 in H.
      destruct (string_l r) as [[str rest]|]; cbn [sim_res] in *.
      - destruct H as [s' [E' [Hs' [Hd' Hl']]]]. rewrite E'. cbn [bind].
        exists s'. split; [reflexivity|]. split; [exact Hs'|]. split; [exact Hd' | exact Hl'].
      - destruct H as [s' E']. rewrite E'. cbn [bind]. eexists; reflexivity. }
    destruct ((c =? 45) || (48 <=? c) && (c <=? 57))%Z.
    { apply parse_number_sim. exact Hs. }
    cbn [length] in Hf.
    assert (Hstk : forall s0, stuck (off s0) -> exists s', parse_value f s0 = Ok (None, s')).
    { destruct f as [|f']; [lia|]. intros s0 H0. apply parse_value_stuck. exact H0. }
    assert (Hpv : forall s0 l0, sfx (off s0) l0 -> dep s0 = (dep s + 1)%Z -> length l0 < f ->
              sim_res (parse_value f s0) (value_l strtod f (dep s + 1) l0) (dep s + 1) (length l0)).
    { intros s0 l0 H0 Hd0 Hl0. rewrite <- Hd0. apply IH; assumption. }
    destruct (Z.eqb_spec c 91) as [E91|E91].
    { subst c. apply (parse_array_sim (parse_value f) (value_l strtod f (dep s + 1)) (dep s + 1) f Hpv Hstk
                       (value_l_nil _ _) s r Hs eq_refl). lia. }
    destruct (Z.eqb_spec c 123) as [E123|E123].
    { subst c. apply (parse_object_sim (parse_value f) (value_l strtod f (dep s + 1)) (dep s + 1) f Hpv Hstk
                       (value_l_nil _ _) s r Hs eq_refl). lia. }
    cbn [sim_res]. eexists; reflexivity.
  Qed.

  (** * the entry point *)
  Lemma drop_ws_nz_length : forall l, length (drop_ws_nz l) <= length l.
  Proof.
    induction l as [|c r IH]; cbn [drop_ws_nz length]; [lia|].
    destruct (negb (c =? 0) && (c <=? 32))%Z; cbn [length]; lia.
  Qed.

  Lemma rnt_skip_sim : forall fuel s l, sfx (off s) l -> length l < fuel ->
    exists s', rnt_skip fuel s = Ok s' /\ sfx (off s') (drop_ws_nz l).
  Proof.
    induction fuel as [|f IH]; intros s l Hs Hf; [lia|].
    cbn [ParseDefs.rnt_skip]. destruct l as [|c r].
    - rewrite (can_access0_nil _ Hs). exists s. split; [reflexivity | exact Hs].
    - rewrite (can_access0_cons _ _ _ Hs). destruct (sfx_cons _ _ _ Hs) as [Hlt [Hrd Hr]].
      rewrite Hrd. cbn [bind drop_ws_nz]. destruct (negb (c =? 0) && (c <=? 32))%Z.
      + apply (IH (add_off s 1) r).
        * cbn [add_off set_off off]. rewrite Nat.add_1_r. exact Hr.
        * cbn [length] in Hf. lia.
      + exists s. split; [reflexivity | exact Hs].
  Qed.

  Lemma skip_utf8_bom_sim s : off s = 0 ->
    exists s2, skip_utf8_bom s = Ok s2 /\ dep s2 = dep s /\
      sfx (off s2) (match starts [239; 187; 191]%Z L with Some r => r | None => L end).
  Proof.
    intros Hoff. unfold ParseDefs.skip_utf8_bom, ParseDefs.can_access. rewrite Hoff.
    destruct (Nat.ltb_spec (0 + 2) len) as [H|H].
    - rewrite (match_lit_sim [239; 187; 191]%Z 0 L sfx_0) by (rewrite L_length; cbn [length]; lia).
      cbn [bind]. destruct (starts [239; 187; 191]%Z L) as [r|] eqn:E; cbn [is_some].
      + destruct (starts_sfx _ _ _ _ sfx_0 E) as [Hr _]. eexists. split; [reflexivity|].
        cbn [add_off set_off off dep]. rewrite Hoff. split; [reflexivity | exact Hr].
      + exists s. split; [reflexivity|]. rewrite Hoff. split; [reflexivity | exact sfx_0].
    - rewrite starts_short by (rewrite L_length; cbn [length]; lia).
      exists s. split; [reflexivity|]. rewrite Hoff. split; [reflexivity | exact sfx_0].
  Qed.

  Theorem parse_refines_spec_sec rnt :
    exists r, cJSON_ParseWithLengthOpts strtod never_fails content len rnt = Ok r /\
      match text_l strtod L rnt with
      | Some (t, rest) => pr_tree r = Some t /\ pr_end r = Some (len - length rest)
      | None => pr_tree r = None
      end.
  Proof.
    unfold cJSON_ParseWithLengthOpts, text_l. rewrite L_length.
    destruct (Nat.eqb_spec len 0) as [E0|E0].
    { eexists. split; [reflexivity|].
      assert (HL : L = []) by (apply length_zero_iff_nil; rewrite L_length; exact E0).
      rewrite HL, E0. reflexivity. }
    cbn [ParseDefs.alloc never_fails negb]. cbv beta iota.
    set (s1 := mkpst _ _ _ _).
    destruct (skip_utf8_bom_sim s1 eq_refl) as [s2 [E2 [Hd2 Hs2]]]. rewrite E2. cbn [bind].
    set (l1 := match starts [239; 187; 191]%Z L with Some r => r | None => L end) in *.
    destruct (bsw_sim s2 l1 Hs2) as [s3 [E3 [Hd3 [Hpost _]]]]. rewrite E3. cbn [bind].
    assert (Hl1 : length l1 <= len) by (pose proof (sfx_length _ _ Hs2); lia).
    pose proof (drop_ws_length l1) as Hdl.
    assert (Hdep3 : dep s3 = 0%Z) by (rewrite Hd3, Hd2; reflexivity).
    destruct (drop_ws l1) as [|c r] eqn:Edw; cbn [ws_post] in Hpost.
    { destruct (parse_value_stuck len s3 Hpost) as [s4 E4]. rewrite E4. cbn [bind].
      rewrite value_l_nil. eexists. split; reflexivity. }
    pose proof (parse_value_sim (S len) s3 (c :: r) Hpost ltac:(lia)) as H. rewrite Hdep3 in H.
    destruct (value_l strtod (S len) 0 (c :: r)) as [[t rest]|]; cbn [sim_res] in H.
    - destruct H as [s4 [E4 [Hs4 [Hd4 Hl4]]]]. rewrite E4. cbn [bind]. destruct rnt.
      + destruct (rnt_skip_sim (S len) s4 rest Hs4) as [s5 [E5 Hs5]]; [lia|].
        rewrite E5. cbn [bind]. destruct (drop_ws_nz rest) as [|c' r'].
        * rewrite (can_access0_nil _ Hs5). cbn [negb]. eexists. split; reflexivity.
        * rewrite (can_access0_cons _ _ _ Hs5). cbn [negb].
          destruct (sfx_cons _ _ _ Hs5) as [_ [Hrd5 _]]. rewrite Hrd5. cbn [bind].
          destruct (c' =? 0)%Z; cbn [negb].
          -- eexists. split; [reflexivity|]. cbn [pr_tree pr_end]. split; [reflexivity|].
             f_equal. apply sfx_off. exact Hs5.
          -- eexists. split; reflexivity.
      + eexists. split; [reflexivity|]. cbn [pr_tree pr_end]. split; [reflexivity|].
        f_equal. apply sfx_off. exact Hs4.
    - destruct H as [s4 E4]. rewrite E4. cbn [bind]. eexists. split; reflexivity.
  Qed.

End Refine.

(** with no allocation failure the buffer-level parser computes exactly the list-level
    specification on the declared bytes: same accept/reject, same tree, same parse end *)
Theorem parse_refines_spec : forall strtod content len rnt,
  strtod_ok strtod -> (len <= length content)%nat ->
  exists r, cJSON_ParseWithLengthOpts strtod never_fails content len rnt = Ok r /\
    match text_l strtod (firstn len content) rnt with
    | Some (t, rest) => pr_tree r = Some t /\ pr_end r = Some (len - length rest)%nat
    | None => pr_tree r = None
    end.
Proof.
  intros strtod content len rnt Hok Hlen. exact (parse_refines_spec_sec strtod Hok content len Hlen rnt).
Qed.

(** corollary: without allocation failures the model never reads outside the declared buffer,
    never overruns the string block and terminates within its fuel *)
Corollary parse_never_fails_total : forall strtod content len rnt,
  strtod_ok strtod -> (len <= length content)%nat ->
  exists r, cJSON_ParseWithLengthOpts strtod never_fails content len rnt = Ok r.
Proof.
  intros strtod content len rnt Hok Hlen.
  destruct (parse_refines_spec strtod content len rnt Hok Hlen) as [r [E _]]. exists r. exact E.
Qed.

(** non-vacuity: on  [1, "a"] x  (10 bytes, with the reference strtod) the specification accepts
    with the two bytes " x" left over, and the model returns that tree with parse end 8; with
    termination required both reject (no zero byte follows) *)
Example parse_refines_spec_example :
  let content := [91; 49; 44; 32; 34; 97; 34; 93; 32; 120]%Z in
  (exists t, text_l strtod_ref (firstn 10 content) false = Some (t, [32; 120]%Z) /\
     exists r, cJSON_ParseWithLengthOpts strtod_ref never_fails content 10 false = Ok r /\
               pr_tree r = Some t /\ pr_end r = Some 8%nat) /\
  text_l strtod_ref (firstn 10 content) true = None /\
  (exists r, cJSON_ParseWithLengthOpts strtod_ref never_fails content 10 true = Ok r /\ pr_tree r = None).
Proof.
  cbv zeta. split; [|split].
  - eexists. split; [vm_compute; reflexivity|]. eexists. split; [vm_compute; reflexivity|]. split; reflexivity.
  - vm_compute. reflexivity.
  - eexists. split; [vm_compute; reflexivity | reflexivity].
Qed.

Print Assumptions parse_refines_spec.
