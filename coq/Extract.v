(** Extract.v — extraction of the executable model to OCaml.  Only ExtrOcamlBasic is used
    (bool, option, unit, list, prod, sumbool mapped to the OCaml types of the same shape);
    Z, positive, N, nat and every model datatype stay extracted Coq datatypes. *)
Require Import ExtrOcamlBasic.
From CJ Require Import Base MinifyDefs.
Extraction Language OCaml.
Extraction "model.ml" Base.cstr MinifyDefs.cJSON_Minify MinifyDefs.minify_spec.
