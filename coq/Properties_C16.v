(** Properties_C16.v — property C16: JSON Patch application follows RFC 6902 and survives any
    patch document.  Only statements closed by [exact]; the model is PatchDefs.v (a value-level
    transliteration of apply_patch and its helpers in cJSON_Utils.c, status codes included), the
    specification is Rfc6902.v (eval1 / eval / doc_eq, written from the RFC). *)
From CJ Require Import Base Dbl Tree PointerDefs CompareDefs PatchDefs Rfc6902
  PatchProofs PatchRobust PatchConform PatchOps PatchApply PatchSort PatchTest PatchMove PatchSeq PatchEq.
Local Open Scope Z_scope.

(** ---- robustness ---- *)

(** Termination, unconditionally: for EVERY document, EVERY tree passed as patch (any types, missing
    members, odd pointers) and both case modes, the recursion bounds the entry point supplies are
    enough: decode_pointer_inplace gets |buffer|+1, sort_list gets |members|+1, compare_json gets the
    depth of the document operand. *)
Theorem C16_total : forall doc patches cs, apply_patches doc patches cs <> OutOfFuel.
Proof. exact apply_patches_total. Qed.
Print Assumptions C16_total.

(** A status is returned — no out-of-bounds access, no NULL string dereferenced — whenever every
    String-typed node carries its string (what any parser produces; [strs_ok]); the document and the
    patch afterwards are again such trees; a patch that is not an array gives status 1 and leaves
    the document alone. *)
Theorem C16_robust : forall doc patches cs, strs_ok doc -> strs_ok patches ->
  exists st doc' patches', apply_patches doc patches cs = Ok (st, doc', patches') /\ strs_ok doc' /\ strs_ok patches' /\
                           (is_array patches = false -> st = 1 /\ doc' = doc).
Proof. exact apply_patches_returns. Qed.
Print Assumptions C16_robust.

(** The loop stops at the first failing operation and reports its status; the document keeps the
    effects of the operations before it. *)
Theorem C16_first_failure : forall doc patches cs st doc' patches',
  apply_patches doc patches cs = Ok (st, doc', patches') ->
  (is_array patches = false /\ st = 1 /\ doc' = doc) \/
  (is_array patches = true /\ run cs doc (n_children patches) st doc').
Proof. exact apply_patches_run. Qed.
Print Assumptions C16_first_failure.

(** ---- decode_pointer_inplace ---- *)

(** On every C string (token bytes followed by the terminator) all reads and writes stay inside the
    buffer, the loop terminates, the buffer keeps its size. *)
Theorem C16_decode_safe : forall t, exists b, decode_pointer_inplace (t ++ [0]) = Ok b /\ length b = length (t ++ [0]).
Proof. exact decode_pointer_inplace_safe. Qed.
Print Assumptions C16_decode_safe.

(** For a token that is valid RFC 6901 text the C string left in the buffer is the unescaped token. *)
Theorem C16_decode_unescape : forall t u, Forall (fun c => c <> 0) t -> unescape t = Some u ->
  exists b, decode_pointer_inplace (t ++ [0]) = Ok b /\ cstr b = u /\ length b = length (t ++ [0]).
Proof. exact decode_pointer_inplace_unescape. Qed.
Print Assumptions C16_decode_unescape.

(** ---- conformance ---- *)

(** One operation, all six kinds.  For every well-formed document ([dwf]: JSON types, C strings, no
    NaN, members named with pairwise distinct names, arrays below 2^64 elements), nested no deeper
    than CJSON_CIRCULAR_LIMIT ([shallow]), and every operation object [p] (members named, strings C
    strings) that RFC 6902 reads as the operation [o] ([op_of p = Some o]: "op" one of the six
    names, "path"/"from" syntactically valid JSON pointers, "value" present where required) — removal
    of the whole document excepted — case-sensitive apply_patch returns 0 exactly when RFC 6902
    evaluation succeeds, and then the document equals the RFC's result (arrays in order, objects as
    name/value sets); otherwise it returns a non-zero status. *)
Theorem C16_conform_op : forall doc p o,
  dwf doc -> shallow doc -> op_wf p -> op_of p = Some o -> op_values_ok o -> o <> Remove [] ->
  exists st doc' p', apply_patch doc p true = Ok (st, doc', p') /\
    match eval1 doc o with
    | Some d' => st = 0 /\ doc_eq doc' d'
    | None => st <> 0
    end.
Proof. exact apply_patch_conform. Qed.
Print Assumptions C16_conform_op.

(** The same through the entry point, for a patch array holding one operation.
    (SUPERSEDED: the full statement for arbitrary arrays is proved further down as [C16_conform], through the
    exact relation [doc_same] of PatchExact.v; this theorem is now a corollary and the remark below records
    why the first version stopped here.)
    The full statement of DESIGN C16_conform — arbitrary arrays [p1; ...; pn] against [eval doc [o1; ...; on]] —
    was not proved in the first version: by C16_first_failure it is the n-fold composition of C16_conform_op along the
    model's own intermediate documents, which are [doc_eq] (not identical: member order) to the RFC's
    intermediate documents.  Closing it needs (i) a TRANSITIVE equivalence of documents to carry along the
    sequence — [doc_eq] itself is not transitive, because the library's number equality compare_double is a
    tolerance —, i.e. the per-operation theorems re-proved for "equal up to member order, numbers identical";
    (ii) that [eval1] respects that equivalence in its document argument; (iii) [dwf] and the size / depth
    bounds for every intermediate document.  None of the three was proved in the first version (all three are now: PatchExact.v, PatchSeq2*.v, PatchSeqAll.v).
      Theorem C16_conform : forall doc patches ops, dwf doc -> ... -> ops_of patches = Some ops ->
        exists st doc' patches', cJSONUtils_ApplyPatchesCaseSensitive doc patches = Ok (st, doc', patches') /\
          match eval doc ops with Some d' => st = 0 /\ doc_eq doc' d' | None => st <> 0 end. *)
Theorem C16_conform_partial : forall doc patches p o,
  dwf doc -> shallow doc -> is_array patches = true -> n_children patches = [p] ->
  op_wf p -> op_of p = Some o -> op_values_ok o -> o <> Remove [] ->
  ops_of patches = Some [o] /\
  exists st doc' patches', cJSONUtils_ApplyPatchesCaseSensitive doc patches = Ok (st, doc', patches') /\
    match eval doc [o] with
    | Some d' => st = 0 /\ doc_eq doc' d'
    | None => st <> 0
    end.
Proof. exact apply_patches_single. Qed.
Print Assumptions C16_conform_partial.

(** The [test] operation in more detail: compare_json (which sorts the objects it meets, in place)
    computes the document equality of the specification, and the document it leaves is equal to the
    one it was given. *)
Theorem C16_test_decides : forall fuel a b, (node_depth a <= fuel)%nat -> dwf a -> dwf b ->
  exists a' b', compare_json fuel a b true = Ok (doc_eqb a b, a', b') /\ doc_eq a' a /\ n_key a' = n_key a.
Proof. exact compare_json_spec. Qed.
Print Assumptions C16_test_decides.

(** The executable equality used by the specification's [test] (and computed by compare_json) is the
    declarative equality of documents. *)
Theorem C16_doc_eq_decided : forall a b, dwf a -> dwf b -> (doc_eqb a b = true <-> doc_eq a b).
Proof. exact doc_eqb_iff. Qed.
Print Assumptions C16_doc_eq_decided.

(** The byte-level "own child" test of the move operation is the RFC's condition on reference tokens. *)
Theorem C16_move_own_child : forall fstr pstr ftoks toks,
  rfc_parse_pointer fstr = Some ftoks -> rfc_parse_pointer pstr = Some toks ->
  (bytes_eqb (firstn (length fstr) pstr) fstr && (hd 0 (skipn (length fstr) pstr) =? 47)) = proper_prefix ftoks toks.
Proof. exact own_child_check. Qed.
Print Assumptions C16_move_own_child.

(** ---- non-vacuity ----
    {"b":1,"a/b":[10,11,{"~":5}]} with  add "/a~1b/1" {"q":[true]},  test "" (same value, members in the
    other order),  move "/a~1b/2/~0" -> "/c":  all hypotheses hold, the RFC evaluation succeeds, the model
    returns 0; the add changes the document; the test leaves an equal but re-ordered document. *)
Theorem C16_nonvacuous :
  dwf x_doc /\ shallow x_doc /\
  op_wf x_op_add /\ op_wf x_op_test /\ op_wf x_op_move /\
  (exists o, op_of x_op_add = Some o /\ op_values_ok o /\ o <> Remove [] /\ exists d, eval1 x_doc o = Some d) /\
  (exists o, op_of x_op_test = Some o /\ op_values_ok o /\ o <> Remove [] /\ eval1 x_doc o = Some x_doc) /\
  (exists o, op_of x_op_move = Some o /\ op_values_ok o /\ o <> Remove [] /\ exists d, eval1 x_doc o = Some d) /\
  (exists d p, cJSONUtils_ApplyPatchesCaseSensitive x_doc (x_patches x_op_add) = Ok (0, d, p) /\ d <> x_doc) /\
  (exists d p, cJSONUtils_ApplyPatchesCaseSensitive x_doc (x_patches x_op_test) = Ok (0, d, p) /\ d <> x_doc /\ doc_eq d x_doc).
Proof. exact examples_ok. Qed.
Print Assumptions C16_nonvacuous.

(** ==================================================================================================
    Operation SEQUENCES (round 3).  The exact intermediate relation the comment above asks for:
    [doc_same] (PatchExact.v) — same masked type, identical integer view, identical double, identical
    string, children pointwise in order, except for objects, whose member lists have the same length and
    the same name -> value pairs.  The model only copies numbers, so it respects this relation, and the
    relation — unlike [doc_eq] — composes along a sequence. *)
From CJ Require Import PatchObj PatchExact PatchSeq2Rfc PatchSeq2Op PatchSeqAll.

(** [doc_same] is an equivalence relation (on all trees, no side condition). *)
Theorem C16_same_equivalence :
  (forall a, doc_same a a) /\ (forall a b, doc_same a b -> doc_same b a) /\
  (forall a b c, doc_same a b -> doc_same b c -> doc_same a c).
Proof. exact (conj doc_same_refl (conj doc_same_sym doc_same_trans)). Qed.
Print Assumptions C16_same_equivalence.

(** It is finer than the equality of the property ([doc_eq], the library's compare_json read declaratively)
    on NaN-free documents, it transports well-formedness and keeps the nesting depth. *)
Theorem C16_same_implies_doc_eq : forall a b, dwf a -> doc_same a b -> doc_eq a b /\ dwf b /\ node_depth a = node_depth b.
Proof. exact (fun a b Ha H => conj (doc_same_doc_eq a b Ha H) (conj (doc_same_dwf a b Ha H) (doc_same_depth a b H))). Qed.
Print Assumptions C16_same_implies_doc_eq.

(** For member lists with pairwise distinct names "same name -> value pairs" says: one list is a permutation
    of the other, with [doc_same] values under the same names. *)
Theorem C16_same_members_permutation : forall l1 l2, keyed_children l1 /\ NoDup (map n_key l1) -> osame l1 l2 ->
  exists l, Permutation.Permutation l2 l /\ Forall2 (fun x y => n_key x = n_key y /\ doc_same x y) l1 l.
Proof. exact osame_permutation. Qed.
Print Assumptions C16_same_members_permutation.

(** The equality used by the [test] operation (on both sides: compare_json in the code, [doc_eqb] in the
    RFC evaluator) cannot tell [doc_same] documents apart, in either argument. *)
Theorem C16_test_respects_same : forall a a' b b', dwf a -> dwf b -> doc_same a a' -> doc_same b b' -> doc_eqb a b = doc_eqb a' b'.
Proof. exact doc_eqb_same. Qed.
Print Assumptions C16_test_respects_same.

(** The RFC evaluator respects the relation in its document argument: on [doc_same] documents an operation
    fails on both or succeeds on both with [doc_same] results ([orel] lifts the relation to options). *)
Theorem C16_eval1_respects_same : forall d1 d2 o, dwf d1 -> dwf d2 -> doc_same d1 d2 -> op_values_ok o ->
  orel (eval1 d1 o) (eval1 d2 o).
Proof. exact eval1_same. Qed.
Print Assumptions C16_eval1_respects_same.

(** ... and keeps documents well-formed: operands well-formed, reference tokens C strings of unsigned chars
    (they become member names), no container of the result above SIZE_MAX elements. *)
Theorem C16_eval1_keeps_dwf : forall d o e, dwf d -> op_values_ok o -> op_toks_ok o -> eval1 d o = Some e -> small_arrays e -> dwf e.
Proof. exact eval1_dwf. Qed.
Print Assumptions C16_eval1_keeps_dwf.

(** One operation, exactly: [C16_conform_op] with [doc_same] in place of [doc_eq]; the document itself need
    not be shallow — only a value that [copy] duplicates ([copy_ok]); operation objects need C strings only in
    their String-typed members ([op_wf2], implied by [op_wf]). *)
Theorem C16_conform_op_exact : forall doc p o,
  dwf doc -> op_wf2 p -> op_of p = Some o -> op_values_ok o -> o <> Remove [] -> copy_ok doc o ->
  exists st doc' p', apply_patch doc p true = Ok (st, doc', p') /\
    match eval1 doc o with
    | Some d' => st = 0 /\ doc_same doc' d'
    | None => st <> 0
    end.
Proof. exact apply_patch_same. Qed.
Print Assumptions C16_conform_op_exact.

Theorem C16_op_wf_weaker : forall p, op_wf p -> op_wf2 p.
Proof. exact op_wf_wf2. Qed.
Print Assumptions C16_op_wf_weaker.

(** compare_json (any case mode, any fuel, any trees) leaves its first operand the same document under the
    same member name: sorting is the only thing it does to it. *)
Theorem C16_test_keeps_document : forall fuel a b cs r a' b', compare_json fuel a b cs = Ok (r, a', b') ->
  doc_same a' a /\ n_key a' = n_key a.
Proof. exact compare_json_keeps. Qed.
Print Assumptions C16_test_keeps_document.

(** THE CONFORMANCE THEOREM FOR PATCH ARRAYS OF ANY LENGTH.  For every well-formed document [doc] ([dwf]) and
    every patch array that RFC 6902 reads as the operation list [ops] ([ops_of]: every element an object with
    "op" one of the six names, "path"/"from" syntactically valid JSON pointers, "value" where required), whose
    elements have members named by C strings and C strings in their String-typed members ([op_wf2]), whose
    value operands are well-formed and duplicable, whose reference tokens are C strings of unsigned chars, none
    of which is the removal of the whole document ([op_good]) — and provided the RFC evaluation itself stays
    within the machine's limits ([fits]: every document it produces on the way has no container above SIZE_MAX
    elements; a value that is copied is nested no deeper than CJSON_CIRCULAR_LIMIT, beyond which
    cJSON_Duplicate refuses) —
      cJSONUtils_ApplyPatchesCaseSensitive returns 0 exactly when RFC 6902 evaluation succeeds, the resulting
      document is then [doc_same] (hence [doc_eq]) to the RFC's result and again well-formed; otherwise it
      returns a non-zero status. *)
Theorem C16_conform : forall doc patches ops,
  dwf doc -> ops_of patches = Some ops -> Forall op_wf2 (n_children patches) -> Forall op_good ops -> fits doc ops ->
  exists st doc' patches', cJSONUtils_ApplyPatchesCaseSensitive doc patches = Ok (st, doc', patches') /\
    match eval doc ops with
    | Some d' => st = 0 /\ doc_same doc' d' /\ doc_eq doc' d' /\ dwf doc'
    | None => st <> 0
    end.
Proof. exact apply_patches_conform. Qed.
Print Assumptions C16_conform.

(** ... and when the RFC evaluation fails, both sides fail at the SAME operation: the model's loop runs
    through exactly the operations before the first one (index [k]) at which the RFC evaluation fails, has then a
    document [dk] that is [doc_same] to the RFC's intermediate document [ek], and the entry point returns the
    non-zero status of operation [k] with the document as that operation left it. *)
Theorem C16_conform_first_failure : forall doc patches ops,
  dwf doc -> ops_of patches = Some ops -> Forall op_wf2 (n_children patches) -> Forall op_good ops -> fits doc ops ->
  eval doc ops = None ->
  exists k pk ok dk ek ps0 st dk' pk' patches',
    nth_error (n_children patches) k = Some pk /\ nth_error ops k = Some ok /\
    apply_loop doc (firstn k (n_children patches)) true = Ok (0, dk, ps0) /\ eval doc (firstn k ops) = Some ek /\ doc_same dk ek /\
    eval1 ek ok = None /\ apply_patch dk pk true = Ok (st, dk', pk') /\ st <> 0 /\
    cJSONUtils_ApplyPatchesCaseSensitive doc patches = Ok (st, dk', patches').
Proof. exact apply_patches_first_failure. Qed.
Print Assumptions C16_conform_first_failure.

(** The side condition [fits] is decidable by running the RFC evaluator. *)
Theorem C16_fits_checkable : forall ops d, fitsb d ops = true -> fits d ops.
Proof. exact fitsb_sound. Qed.
Print Assumptions C16_fits_checkable.

(** non-vacuity: {"a/b":[1,2,{"~k":3}],"c":"x"} with the five operations
      add "/a~1b/1" {"n":[true]};  test "/a~1b/3/~0k" 3;  move "/a~1b/3/~0k" -> "/m~0";
      copy "/a~1b" -> "/c";  remove "/a~1b/0"
    (escaped names, array indices, a copy onto an existing member): all hypotheses of [C16_conform] hold, the
    RFC evaluation succeeds, the model returns 0 with a document that differs from the RFC's (the replaced
    member "c" went to the end) and is [doc_same] / [doc_eqb] to it — computed on both sides. *)
Theorem C16_conform_nonvacuous :
  dwf y_doc /\ ops_of y_patch = Some y_ops /\
  Forall op_wf2 (n_children y_patch) /\ Forall op_good y_ops /\ fits y_doc y_ops /\
  exists e d p', eval y_doc y_ops = Some e /\
    cJSONUtils_ApplyPatchesCaseSensitive y_doc y_patch = Ok (0, d, p') /\
    d <> e /\ doc_same d e /\ doc_eqb d e = true.
Proof. exact five_ops_example. Qed.
Print Assumptions C16_conform_nonvacuous.

(** Two checkable sufficient conditions for the hypotheses of [C16_conform] (PatchSeq2Fit.v).
    (a) If every String-typed member of an operation object is a C string of unsigned chars (bytes 1..255:
        what a parser delivers), the reference tokens of the operation are such strings ([op_toks_ok], a part
        of [op_good]). *)
From CJ Require Import PatchSeq2Fit.
Theorem C16_tokens_of_c_strings : forall p o, op_cstr p -> op_of p = Some o -> op_toks_ok o.
Proof. exact op_toks_of_cstr. Qed.
Print Assumptions C16_tokens_of_c_strings.

(** (b) A static bound for the size part of [fits]: an operation widens a container by at most one element
        beyond what the document and the value operands already have, so
        max(width doc, widths of the "value" operands) + number of operations <= SIZE_MAX
        is enough; what remains ([copies_ok]) only concerns the values that [copy] operations duplicate, and is
        void for patches without [copy]. *)
Theorem C16_fits_static : forall ops d, copies_ok d ops ->
  Z.of_nat (Nat.max (width d) (opsw ops) + length ops) <= SIZE_MAX -> fits d ops.
Proof. exact fits_of_width. Qed.
Print Assumptions C16_fits_static.

Theorem C16_fits_static_no_copy : forall ops d, Forall no_copy ops -> copies_ok d ops.
Proof. exact copies_ok_no_copy. Qed.
Print Assumptions C16_fits_static_no_copy.

(** (c) A static bound for the [copy] part: an add / replace deepens the document by at most the depth of its
        operand, a move / copy at most doubles the depth ([dbound]); if the bound so computed from the depth of
        the document stays within CJSON_CIRCULAR_LIMIT, every value a [copy] has to duplicate is shallow enough. *)
Theorem C16_copies_static : forall ops d, Z.of_nat (dbound (node_depth d) ops) <= c_CJSON_CIRCULAR_LIMIT -> copies_ok d ops.
Proof. exact copies_ok_of_depth. Qed.
Print Assumptions C16_copies_static.

(** [C16_conform] with hypotheses that only look at the document and the patch (no evaluation): well-formed
    document; patch array read by RFC 6902 as [ops]; operation objects with members named by C strings whose
    String-typed members are C strings of unsigned chars; well-formed duplicable "value" operands; no removal of
    the whole document; widths + number of operations within SIZE_MAX; depth budget within CJSON_CIRCULAR_LIMIT. *)
Theorem C16_conform_static : forall doc patches ops,
  dwf doc -> ops_of patches = Some ops ->
  Forall op_wf2 (n_children patches) -> Forall op_cstr (n_children patches) ->
  Forall op_values_ok ops -> ~ In (Remove []) ops ->
  Z.of_nat (Nat.max (width doc) (opsw ops) + length ops) <= SIZE_MAX ->
  Z.of_nat (dbound (node_depth doc) ops) <= c_CJSON_CIRCULAR_LIMIT ->
  exists st doc' patches', cJSONUtils_ApplyPatchesCaseSensitive doc patches = Ok (st, doc', patches') /\
    match eval doc ops with
    | Some d' => st = 0 /\ doc_same doc' d' /\ doc_eq doc' d' /\ dwf doc'
    | None => st <> 0
    end.
Proof. exact apply_patches_conform_static. Qed.
Print Assumptions C16_conform_static.

(** its hypotheses hold on the five-operation example above (where the RFC evaluation succeeds) *)
Theorem C16_conform_static_nonvacuous :
  dwf y_doc /\ ops_of y_patch = Some y_ops /\
  Forall op_wf2 (n_children y_patch) /\ Forall op_cstr (n_children y_patch) /\
  Forall op_values_ok y_ops /\ ~ In (Remove []) y_ops /\
  Z.of_nat (Nat.max (width y_doc) (opsw y_ops) + length y_ops) <= SIZE_MAX /\
  Z.of_nat (dbound (node_depth y_doc) y_ops) <= c_CJSON_CIRCULAR_LIMIT /\
  exists d, eval y_doc y_ops = Some d.
Proof. exact static_example. Qed.
Print Assumptions C16_conform_static_nonvacuous.

(** non-vacuity of [C16_conform_first_failure]: add "/a~1b/1" ...; test "/c" 3 (the member is "x"); remove "/a~1b/0":
    all hypotheses hold, the RFC evaluation fails (at operation 1), the model returns status 1 and keeps the effect
    of the add. *)
Theorem C16_conform_failure_nonvacuous :
  dwf y_doc /\ ops_of y_patch_bad = Some y_ops_bad /\
  Forall op_wf2 (n_children y_patch_bad) /\ Forall op_good y_ops_bad /\ fits y_doc y_ops_bad /\
  eval y_doc y_ops_bad = None /\
  exists e1 d p', eval y_doc (firstn 1 y_ops_bad) = Some e1 /\
    cJSONUtils_ApplyPatchesCaseSensitive y_doc y_patch_bad = Ok (1, d, p') /\ doc_same d e1 /\ d <> y_doc.
Proof. exact failing_example. Qed.
Print Assumptions C16_conform_failure_nonvacuous.
