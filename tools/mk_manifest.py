#!/usr/bin/env python3
"""mk_manifest.py — writes /verif/MANIFEST.json from the table below (one entry per claimed property)."""
import json, os
V = os.path.dirname(os.path.dirname(os.path.abspath(__file__)))
CLAIMED = {
 'C13': dict(
   text="Coq theorems over the buffer-level transliteration of cJSON_Minify: for every zero-free byte string the code stays inside the buffer, terminates, keeps the size and computes the list-level function minify_spec (C13_safe); for every text = tokens woven with whitespace/comment gaps the result is exactly the concatenation of the tokens, string literals byte for byte (C13_value), hence idempotent (C13_idempotent). The model is tied to /repo by running the extracted model and the ASan/guard-page build of cJSON.c on the same generated texts and byte soups every run.",
   note="Trusted: Coq kernel; the hand-written transliteration (validated by the differential run, not proved against C); 'parses to an equal tree' is checked by execution with python's json as the independent parser, not proved; C locale.",
   technique="Coq proof (refinement of an index-level buffer model to a list function + token-level induction) + differential correspondence",
   design="DESIGN.md section 6, C13"),
}
props = [json.loads(l) for l in open(os.path.join(V, 'properties.jsonl'))]
m = json.load(open(os.path.join(V, 'MANIFEST.json')))
m['checks'] = []; m['not_applicable'] = []
for p in props:
    i = p['id']
    if i in CLAIMED:
        c = CLAIMED[i]
        m['checks'].append({
          'property_id': i,
          'quick_cmd': 'python3 tools/check.py %s --tier quick' % i,
          'thorough_cmd': 'python3 tools/check.py %s --tier thorough' % i,
          'evidence_file': 'evidence/%s.json' % i,
          'replay_cmd_template': 'python3 tools/check.py %s --replay {path}' % i,
          'engine': 'coq-model+correspondence',
          'level_claimed': {'category': 'proof', 'text': c['text'], 'design_ref': c['design']},
          'level_note': c['note'], 'technique': c['technique']})
    else:
        m['not_applicable'].append({'property_id': i, 'reason': 'check not built yet in this round (work in progress; the technique applies, see DESIGN.md section 6)'})
m['engines'][0]['serves_properties'] = sorted(CLAIMED)
json.dump(m, open(os.path.join(V, 'MANIFEST.json'), 'w'), indent=1)
print('claimed:', sorted(CLAIMED))
