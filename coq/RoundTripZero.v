(** RoundTripZero.v — property C04: compare_double never equates a zero with a nonzero
    well-formed double — so clause N4z of [LibcRoundTripSpec] holds for EVERY C library, and the
    contract can be established from its other clauses alone ([roundtrip_spec_intro]).

    compare_double(0, d) computes fabs(0 - d) <= fabs(d) * DBL_EPSILON, i.e. |d| <= round(|d| * 2^-52);
    the rounded product is below |d| for every nonzero d, down to the smallest subnormal (where it
    rounds to 0).  That needs a fact about rounding (|round x - x| <= ulp(x)/2), taken from Flocq
    4.1, which is built on Coq's real numbers: [Print Assumptions] lists the standard axioms of
    the Reals library for the theorems of this file (and only for them — the C04 theorems keep
    N4z as a hypothesis and stay closed under the global context). *)
From Coq Require Import ZArith Reals Floats.SpecFloat Lia Lra.
From Flocq Require Import Core.Core IEEE754.BinarySingleNaN.
From CJ Require Import Base Dbl PrintDefs RoundTripNum RoundTripFlocq.
Local Open Scope Z_scope.

Lemma eps_bounded : SpecFloat.bounded P E 4503599627370496 (-104) = true. Proof. reflexivity. Qed.
Definition eps_b : bf := B754_finite false 4503599627370496 (-104) eps_bounded.

Lemma SFmul_Bmult (x y : bf) : BinarySingleNaN.is_finite x = true -> BinarySingleNaN.is_finite y = true ->
  SFmul P E (B2SF x) (B2SF y) = B2SF (Bmult mode_NE x y).
Proof.
  destruct x as [sx|sx| |sx mx ex Hx], y as [sy|sy| |sy my ey Hy]; try discriminate; intros _ _; try reflexivity.
  cbn [Bmult B2SF SFmul]. rewrite B2SF_SF2B.
  apply round_aux_equiv.
Qed.

Open Scope R_scope.
Notation fx := (SpecFloat.fexp P E).
Notation rnd := (round radix2 fx (round_mode mode_NE)).


Lemma B2R_eps : B2R eps_b = bpow radix2 (-52).
Proof.
  unfold eps_b, B2R, F2R. cbn [Fnum Fexp cond_Zopp].
  change 4503599627370496%Z with (Zpower radix2 52). rewrite IZR_Zpower by lia.
  rewrite <- bpow_plus. reflexivity.
Qed.

Lemma bpow_m52_small : bpow radix2 (-52) <= /4.
Proof.
  replace (/4) with (bpow radix2 (-2)).
  - apply bpow_le. lia.
  - simpl. lra.
Qed.

Lemma bounded_emin m e : SpecFloat.bounded P E m e = true -> (-1074 <= e)%Z.
Proof.
  unfold SpecFloat.bounded, SpecFloat.canonical_mantissa. intro H. apply andb_true_iff in H as [H _].
  apply Zeq_bool_eq in H. unfold SpecFloat.fexp, SpecFloat.emin in H. lia.
Qed.

Lemma round_eps_lt (x : bf) : BinarySingleNaN.is_finite x = true -> 0 < B2R x ->
  rnd (B2R x * B2R eps_b) < B2R x.
Proof.
  intros Hf Hpos. rewrite B2R_eps.
  assert (Hmin : bpow radix2 (-1074) <= B2R x).
  { destruct x as [sx|sx| |sx mx ex Hx]; try discriminate; cbn [B2R] in *; [lra|].
    destruct sx.
    - exfalso. cbn [cond_Zopp] in Hpos.
      assert (Hn : F2R (Float radix2 (Z.neg mx) ex) < 0) by (apply F2R_lt_0; reflexivity).
      change (Z.opp (Z.pos mx)) with (Z.neg mx) in Hpos. lra.
    - cbn [cond_Zopp]. apply Rle_trans with (bpow radix2 ex).
      + apply bpow_le. exact (bounded_emin mx ex Hx).
      + apply bpow_le_F2R. lia. }
  set (v := B2R x) in *. set (r := v * bpow radix2 (-52)).
  pose proof (bpow_gt_0 radix2 (-52)) as Hb0. pose proof bpow_m52_small as Hb1.
  assert (Hr0 : 0 < r) by (unfold r; apply Rmult_lt_0_compat; assumption).
  assert (Hrv : r <= v * /4) by (unfold r; apply Rmult_le_compat_l; lra).
  assert (Hulp : ulp radix2 fx r <= v).
  { rewrite ulp_neq_0 by lra. unfold cexp.
    unfold SpecFloat.fexp, SpecFloat.emin.
    destruct (Z.max_spec (mag radix2 r - 53) (3 - 1024 - 53)) as [[_ ->]|[_ ->]].
    - exact Hmin.
    - apply Rle_trans with (bpow radix2 (mag radix2 r - 1)).
      + apply bpow_le. lia.
      + apply Rle_trans with r; [|lra].
        pose proof (bpow_mag_le radix2 r ltac:(lra)) as Hm. rewrite Rabs_pos_eq in Hm by lra. exact Hm. }
  pose proof (error_le_half_ulp radix2 fx (fun z => negb (Z.even z)) r) as Herr.
  change (round radix2 fx (Znearest (fun z => negb (Z.even z))) r) with (rnd r) in Herr.
  apply Rabs_le_inv in Herr. lra.
Qed.

Close Scope R_scope.
Local Open Scope Z_scope.

(** |d| * DBL_EPSILON, rounded, is below |d| for every well-formed nonzero finite d *)
Lemma mul_eps_below m e : SpecFloat.bounded P E m e = true ->
  dle (S754_finite false m e) (dmul (S754_finite false m e) DBL_EPSILON) = false.
Proof.
  intro Hb. set (x := B754_finite false m e Hb : bf).
  change (S754_finite false m e) with (B2SF x).
  change DBL_EPSILON with (B2SF eps_b).
  unfold dmul. change Dbl.prec with P. change Dbl.emax with E.
  rewrite (SFmul_Bmult x eps_b eq_refl eq_refl).
  assert (Hpos : (0 < B2R x)%R) by (apply F2R_gt_0; reflexivity).
  pose proof (round_eps_lt x eq_refl Hpos) as Hlt.
  assert (H0 : (0 <= rnd (B2R x * B2R eps_b))%R).
  { apply round_ge_generic; [apply fexp_correct; reflexivity|apply valid_rnd_N|apply generic_format_0|].
    apply Rmult_le_pos; [lra|]. rewrite B2R_eps. apply bpow_ge_0. }
  pose proof (abs_B2R_lt_emax P E x) as Hmax. rewrite Rabs_pos_eq in Hmax by lra.
  pose proof (Bmult_correct P E Hp53 Hm1024 mode_NE x eps_b) as C.
  rewrite Rlt_bool_true in C by (rewrite Rabs_pos_eq by exact H0; lra).
  destruct C as [CR [CF _]].
  change (dle (B2SF x) (B2SF (Bmult mode_NE x eps_b))) with (Bleb x (Bmult mode_NE x eps_b)).
  rewrite Bleb_correct by (reflexivity || exact CF). rewrite CR.
  apply Rle_bool_false. exact Hlt.
Qed.

(** compare_double(zero, d) holds only for d a zero *)
Theorem compare_double_zero_l t d :
  Dbl.is_finite d = true -> dbl_ok d -> is_zero t = true -> compare_double t d = true -> is_zero d = true.
Proof.
  intros Hf Hv Zt Hc. destruct t as [st| | |]; try discriminate.
  destruct d as [sd|sd| |sd m e]; try discriminate; [reflexivity|]. exfalso.
  unfold dbl_ok in Hv. cbn [valid_binary] in Hv.
  unfold compare_double in Hc. cbn [dabs SFabs] in Hc.
  change (dlt (S754_finite false m e) (S754_zero false)) with false in Hc. cbv iota in Hc.
  destruct (dlt DBL_MAX (S754_finite false m e)).
  - destruct st, sd; discriminate Hc.
  - assert (Hs : dabs (dsub (S754_zero st) (S754_finite sd m e)) = S754_finite false m e) by reflexivity.
    rewrite Hs in Hc. rewrite (mul_eps_below m e Hv) in Hc. discriminate.
Qed.

(** clause N4z of the contract, for every library *)
Theorem g15_nonzero_free (strtod : bytes -> option (dbl * nat)) (fmt_g15 : dbl -> bytes) :
  forall d t k, Dbl.is_finite d = true -> dbl_ok d ->
    strtod (fmt_g15 d) = Some (t, k) -> compare_double t d = true -> is_zero t = true -> is_zero d = true.
Proof. intros d t k Hf Hv _ Hc Zt. exact (compare_double_zero_l t d Hf Hv Zt Hc). Qed.

(** the contract from its seven clauses about the C library alone *)
Theorem roundtrip_spec_intro strtod fmt_d fmt_g15 fmt_g17 sscanf_lg :
  (forall t d, sscanf_lg t = Some d <-> exists k, strtod t = Some (d, k)) ->
  (forall t d k, strtod t = Some (d, k) -> dbl_ok d) ->
  (forall z, int_range z = true -> exists k, strtod (fmt_d z) = Some (dbl_of_int z, k)) ->
  (forall d, Dbl.is_finite d = true -> dbl_ok d -> exists k, strtod (fmt_g17 d) = Some (d, k)) ->
  (forall d t k, Dbl.is_finite d = true -> dbl_ok d ->
      strtod (fmt_g15 d) = Some (t, k) -> Dbl.is_finite t = true -> fmt_g15 t = fmt_g15 d) ->
  (forall z, int_range z = true -> fmt_g15 (dbl_of_int z) = fmt_d z) ->
  (forall z, Z.abs z < 10 ^ 15 -> exists k, strtod (fmt_g15 (dbl_of_int z)) = Some (dbl_of_int z, k)) ->
  LibcRoundTripSpec strtod fmt_d fmt_g15 fmt_g17 sscanf_lg.
Proof.
  intros S V N2 N3 N4 N5a N5b. constructor; try assumption.
  apply g15_nonzero_free.
Qed.
