(** MinifyGrammarDefs.v — the input language of the last clause of C13, "JSON with comments",
    and the erasure of its gaps.  No proofs here (they are in MinifyGrammar.v).

    The language is the inductive grammar family of Grammar.v ([value]/[elements]/[members],
    string literals [chars rfc_raw], numbers [rfc_num_tok], the three literals) with ONE
    change: wherever the RFC grammar has a run of whitespace bytes, this grammar has a GAP.
    The family [cvalue G] is parameterised by the gap predicate [G : bytes -> Prop];
    MinifyGrammar.cvalue_ws_iff shows that [cvalue (ws is_ws)] IS [Grammar.value is_ws rfc_raw
    rfc_num_tok], so the only difference between the languages is the gap predicate.

    COMMENT SHAPES COVERED.  An inner gap (between two tokens) is [MinifyValue.gap]: any
    concatenation, possibly empty, of
      - the RFC 8259 whitespace bytes space, tab, CR, LF;
      - line comments   //  body  LF     where body contains no LF (it may contain CR, quotes,
        slashes, stars, anything else non-LF);
      - block comments  /*  body  */     where body contains no adjacent star-slash, i.e. the
        comment ends at the FIRST star-slash after the opening slash-star (so slash-star-slash
        does not close; bodies may contain quotes, newlines, slash-star, //, single stars, and
        may end in a star).
    The gap after the top-level value (end of the text) is [gap_end]: an inner gap optionally
    followed by ONE unterminated comment reaching the end of the text:
      - //  body          with no LF in body (line comment ended by the end of the text);
      - /*  body          with no star-slash in body (block comment never closed).
    These are exactly the shapes skip_oneline_comment / skip_multiline_comment skip.
    NOT covered: a lone slash followed by neither slash nor star (cJSON_Minify drops that byte;
    it is not a comment), an unterminated comment anywhere but at the very end of the text
    (it would swallow the tokens after it), and the form feed / vertical tab / other control
    bytes that the library's PARSER (not Minify) treats as whitespace. *)
From CJ Require Import Base Dbl Tree MinifyDefs MinifyProofs MinifyValue Grammar.
Local Open Scope Z_scope.

(** the gap at the end of the text *)
Inductive gap_end : bytes -> Prop :=
| ge_gap g : gap g -> gap_end g
| ge_line g body : gap g -> ~ In 10 body -> gap_end (g ++ 47 :: 47 :: body)
| ge_block g body : gap g -> no_close body = true -> gap_end (g ++ 47 :: 42 :: body).

Section CG.
  Variable G : bytes -> Prop.

  (** [cvalue d txt v]: Grammar.value with gaps [G] in place of whitespace runs *)
  Inductive cvalue : nat -> bytes -> jv -> Prop :=
  | cv_null d : cvalue d [110; 117; 108; 108] JNull
  | cv_false d : cvalue d [102; 97; 108; 115; 101] (JBool false)
  | cv_true d : cvalue d [116; 114; 117; 101] (JBool true)
  | cv_num d t : rfc_num_tok t -> cvalue d t (JNum t)
  | cv_str d b s : chars rfc_raw b s -> cvalue d (34 :: b ++ [34]) (JStr s)
  | cv_arr0 d w : G w -> cvalue (S d) (91 :: w ++ [93]) (JArr [])
  | cv_arr d b l : celements d b l -> cvalue (S d) (91 :: b ++ [93]) (JArr l)
  | cv_obj0 d w : G w -> cvalue (S d) (123 :: w ++ [125]) (JObj [])
  | cv_obj d b m : cmembers d b m -> cvalue (S d) (123 :: b ++ [125]) (JObj m)
  with celements : nat -> bytes -> list jv -> Prop :=
  | ce_one d w1 t v w2 : G w1 -> cvalue d t v -> G w2 -> celements d (w1 ++ t ++ w2) [v]
  | ce_cons d w1 t v w2 b l :
      G w1 -> cvalue d t v -> G w2 -> celements d b l -> celements d (w1 ++ t ++ w2 ++ 44 :: b) (v :: l)
  with cmembers : nat -> bytes -> list (bytes * jv) -> Prop :=
  | cm_one d w1 kb k w2 w3 t v w4 :
      G w1 -> chars rfc_raw kb k -> G w2 -> G w3 -> cvalue d t v -> G w4 ->
      cmembers d (w1 ++ 34 :: kb ++ 34 :: w2 ++ 58 :: w3 ++ t ++ w4) [(k, v)]
  | cm_cons d w1 kb k w2 w3 t v w4 b m :
      G w1 -> chars rfc_raw kb k -> G w2 -> G w3 -> cvalue d t v -> G w4 -> cmembers d b m ->
      cmembers d (w1 ++ 34 :: kb ++ 34 :: w2 ++ 58 :: w3 ++ t ++ w4 ++ 44 :: b) ((k, v) :: m).

  (** [evalue d txt min v]: a derivation of [cvalue d txt v] together with the text [min] of
      the SAME derivation with every gap replaced by the empty gap.  Literals, number tokens
      and string literals (value strings and member keys: the same [chars] derivation, the
      same bytes between the same quotes) are identical in [txt] and [min]. *)
  Inductive evalue : nat -> bytes -> bytes -> jv -> Prop :=
  | ev_null d : evalue d [110; 117; 108; 108] [110; 117; 108; 108] JNull
  | ev_false d : evalue d [102; 97; 108; 115; 101] [102; 97; 108; 115; 101] (JBool false)
  | ev_true d : evalue d [116; 114; 117; 101] [116; 114; 117; 101] (JBool true)
  | ev_num d t : rfc_num_tok t -> evalue d t t (JNum t)
  | ev_str d b s : chars rfc_raw b s -> evalue d (34 :: b ++ [34]) (34 :: b ++ [34]) (JStr s)
  | ev_arr0 d w : G w -> evalue (S d) (91 :: w ++ [93]) [91; 93] (JArr [])
  | ev_arr d b b' l : eelements d b b' l -> evalue (S d) (91 :: b ++ [93]) (91 :: b' ++ [93]) (JArr l)
  | ev_obj0 d w : G w -> evalue (S d) (123 :: w ++ [125]) [123; 125] (JObj [])
  | ev_obj d b b' m : emembers d b b' m -> evalue (S d) (123 :: b ++ [125]) (123 :: b' ++ [125]) (JObj m)
  with eelements : nat -> bytes -> bytes -> list jv -> Prop :=
  | ee_one d w1 t t' v w2 : G w1 -> evalue d t t' v -> G w2 -> eelements d (w1 ++ t ++ w2) t' [v]
  | ee_cons d w1 t t' v w2 b b' l :
      G w1 -> evalue d t t' v -> G w2 -> eelements d b b' l ->
      eelements d (w1 ++ t ++ w2 ++ 44 :: b) (t' ++ 44 :: b') (v :: l)
  with emembers : nat -> bytes -> bytes -> list (bytes * jv) -> Prop :=
  | em_one d w1 kb k w2 w3 t t' v w4 :
      G w1 -> chars rfc_raw kb k -> G w2 -> G w3 -> evalue d t t' v -> G w4 ->
      emembers d (w1 ++ 34 :: kb ++ 34 :: w2 ++ 58 :: w3 ++ t ++ w4)
                 (34 :: kb ++ 34 :: 58 :: t') [(k, v)]
  | em_cons d w1 kb k w2 w3 t t' v w4 b b' m :
      G w1 -> chars rfc_raw kb k -> G w2 -> G w3 -> evalue d t t' v -> G w4 -> emembers d b b' m ->
      emembers d (w1 ++ 34 :: kb ++ 34 :: w2 ++ 58 :: w3 ++ t ++ w4 ++ 44 :: b)
                 (34 :: kb ++ 34 :: 58 :: t' ++ 44 :: b') ((k, v) :: m).
End CG.

Scheme cvalue_min := Minimality for cvalue Sort Prop
  with celements_min := Minimality for celements Sort Prop
  with cmembers_min := Minimality for cmembers Sort Prop.
Combined Scheme cgrammar_mutind from cvalue_min, celements_min, cmembers_min.

Scheme evalue_min := Minimality for evalue Sort Prop
  with eelements_min := Minimality for eelements Sort Prop
  with emembers_min := Minimality for emembers Sort Prop.
Combined Scheme egrammar_mutind from evalue_min, eelements_min, emembers_min.

(** the empty gap only *)
Definition nogap (w : bytes) : Prop := w = [].
(** no whitespace byte at all *)
Definition no_ws (c : Z) : bool := false.

(** JSON with comments: optional byte order mark, gap, one value within the nesting limit,
    final gap (Grammar.text with gaps) *)
Definition CJ_value := cvalue gap.
Definition CJ_text (txt : bytes) (v : jv) : Prop :=
  exists bom w1 t w2, txt = bom ++ w1 ++ t ++ w2 /\ (bom = [] \/ bom = [239; 187; 191]) /\
                      gap w1 /\ gap_end w2 /\ cvalue gap nesting_limit t v.

(** [CJ_erase txt min v]: [txt] is a JSON-with-comments text denoting [v] and [min] is the
    same derivation with all gaps (leading, inner, final) erased *)
Definition CJ_erase (txt min : bytes) (v : jv) : Prop :=
  exists bom w1 t m w2, txt = bom ++ w1 ++ t ++ w2 /\ min = bom ++ m /\
                        (bom = [] \/ bom = [239; 187; 191]) /\
                        gap w1 /\ gap_end w2 /\ evalue gap nesting_limit t m v.

(** RFC 8259 without any whitespace: the grammar of Grammar.v at the empty whitespace predicate *)
Definition NOWS_value := value no_ws rfc_raw rfc_num_tok.
Definition NOWS_text := Grammar.text no_ws rfc_raw rfc_num_tok nesting_limit.
