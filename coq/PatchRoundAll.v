(** PatchRoundAll.v — round trip of generated patches through the RFC 6902 evaluator for ALL
    well-formed documents (arrays and objects, nested): the generated patch decodes as an RFC 6902
    patch and evaluates, on the original 'from', to a document equal to 'to'. *)
From Coq Require Import Lia ZArith List Bool Permutation Sorted.
From CJ Require Import Base Dbl Tree PointerDefs PointerProofs CompareDefs PatchDefs PatchProofs PatchRobust Rfc6902
  PatchConform PatchOps PatchApply PatchSort PatchTest PatchMove PatchSeq PatchGen PatchRound PatchObj.
Import ListNotations.
Local Open Scope Z_scope.

(** ---------- order facts ---------- *)
Lemma klt_trans x y z : keyed1 x -> keyed1 y -> keyed1 z -> klt x y -> klt y z -> klt x z.
Proof.
  intros (kx & Ex & Hx) (ky & Ey & Hy) (kz & Ez & Hz). unfold klt. rewrite Ex, Ey, Ez. cbn [compare_strings]. intros H1 H2.
  pose proof (strcmp_trans kx ky kz Hx Hy Hz ltac:(lia) ltac:(lia)) as T.
  assert (strcmp kx kz <> 0); [|lia]. intro E0. apply strcmp_zero_eq in E0; try assumption. subst kz.
  rewrite (strcmp_opp kx ky) in H2. lia.
Qed.
Lemma klt_of_gt x y : keyed1 x -> keyed1 y -> compare_strings (n_key x) (n_key y) true > 0 -> klt y x.
Proof.
  intros (kx & Ex & _) (ky & Ey & _). unfold klt. rewrite Ex, Ey. cbn [compare_strings]. rewrite (strcmp_opp kx ky). lia.
Qed.
Lemma klt_neq_key x y : keyed1 x -> klt x y -> n_key x <> n_key y.
Proof. intros Kx H E. eapply klt_irrefl_key; eassumption. Qed.
Lemma klt_neq_key' x y : keyed1 y -> klt x y -> n_key x <> n_key y.
Proof.
  intros (ky & Ey & _) H E. unfold klt in H. rewrite E, Ey in H. cbn [compare_strings] in H. rewrite strcmp_refl in H. lia.
Qed.

(** ---------- relation between the evolving members and the members of 'to' ---------- *)
Definition rel (a b : option node) : Prop :=
  match a, b with Some v, Some y => doc_eq v y | None, None => True | _, _ => False end.

Lemma rel_doc_eq ms cb : okm ms -> okm cb -> (forall k, rel (lk ms k) (lk cb k)) ->
  Forall (fun x => Exists (fun y => mrel x y) cb) ms /\ Forall (fun y => Exists (fun x => mrel x y) ms) cb.
Proof.
  intros Hm Hb H. split; rewrite Forall_forall.
  - intros x Hx. destruct (keyed_in _ _ (proj1 Hm) Hx) as (k & Ek & _).
    assert (L1 : lk ms k = Some x) by (apply (lk_some _ _ _ Hm); split; assumption).
    specialize (H k). rewrite L1 in H. destruct (lk cb k) as [y|] eqn:L2; [|contradiction].
    apply (lk_some _ _ _ Hb) in L2. destruct L2 as [Hy Eky]. apply Exists_exists. exists y. split; [exact Hy|].
    split; [rewrite Ek; discriminate | split; [congruence | exact H]].
  - intros y Hy. destruct (keyed_in _ _ (proj1 Hb) Hy) as (k & Ek & _).
    assert (L2 : lk cb k = Some y) by (apply (lk_some _ _ _ Hb); split; assumption).
    specialize (H k). rewrite L2 in H. destruct (lk ms k) as [x|] eqn:L1; [|contradiction].
    apply (lk_some _ _ _ Hm) in L1. destruct L1 as [Hx Ekx]. apply Exists_exists. exists x. split; [exact Hx|].
    split; [rewrite Ekx; discriminate | split; [congruence | exact H]].
Qed.

(** ---------- the invariant of the merge walk ---------- *)
Section Walk.
  Variables ca cb : list node.
  Hypothesis Hca : okm ca.
  Hypothesis Hcb : okm cb.

  Definition proc (pf pt : list node) (k : bytes) : Prop := exists a, In a (pf ++ pt) /\ n_key a = Some k.

  Record Inv (pf pt lf lt ms : list node) : Prop := {
    inv_ok : okm ms;
    inv_done : forall k, proc pf pt k -> rel (lk ms k) (lk cb k);
    inv_todo : forall k, ~ proc pf pt k -> lk ms k = lk ca k;
    inv_order : forall a b, In a (pf ++ pt) -> In b (lf ++ lt) -> klt a b;
    inv_sf : StronglySorted klt lf;
    inv_st : StronglySorted klt lt;
    inv_ca : forall c, In c ca <-> In c (pf ++ lf);
    inv_cb : forall c, In c cb <-> In c (pt ++ lt)
  }.

  Lemma inv_keyed_f pf pt lf lt ms x : Inv pf pt lf lt ms -> In x (pf ++ lf) -> keyed1 x.
  Proof. intros I Hx. apply (keyed_in ca); [apply Hca | apply (inv_ca _ _ _ _ _ I); exact Hx]. Qed.
  Lemma inv_keyed_t pf pt lf lt ms y : Inv pf pt lf lt ms -> In y (pt ++ lt) -> keyed1 y.
  Proof. intros I Hy. apply (keyed_in cb); [apply Hcb | apply (inv_cb _ _ _ _ _ I); exact Hy]. Qed.
  Lemma inv_keyed_p pf pt lf lt ms a : Inv pf pt lf lt ms -> In a (pf ++ pt) -> keyed1 a.
  Proof.
    intros I Ha. apply in_app_iff in Ha. destruct Ha as [Ha|Ha].
    - eapply inv_keyed_f; [exact I | apply in_or_app; left; exact Ha].
    - eapply inv_keyed_t; [exact I | apply in_or_app; left; exact Ha].
  Qed.

  (* the head of the remaining 'from' members is still the member of that name *)
  Lemma head_from pf pt x lf lt ms kx : Inv pf pt (x :: lf) lt ms -> n_key x = Some kx ->
    ~ proc pf pt kx /\ exists j, find_key ms kx 0%nat = Some (j, x).
  Proof.
    intros I Ek.
    assert (Np : ~ proc pf pt kx).
    { intros (a & Ha & Eka). pose proof (inv_order _ _ _ _ _ I a x Ha ltac:(apply in_or_app; left; left; reflexivity)) as L.
      eapply klt_neq_key; [eapply inv_keyed_p; eassumption | exact L | congruence]. }
    split; [exact Np|].
    assert (Hx : In x ca) by (apply (inv_ca _ _ _ _ _ I); apply in_or_app; right; left; reflexivity).
    assert (L : lk ms kx = Some x) by (rewrite (inv_todo _ _ _ _ _ I kx Np); apply (lk_some _ _ _ Hca); split; assumption).
    unfold lk in L. destruct (find_key ms kx 0%nat) as [[j c]|]; [|discriminate]. inversion L; subst c. exists j. reflexivity.
  Qed.

  (* a name smaller than everything left in 'from' and not yet processed does not occur in the object *)
  Lemma head_to_absent pf pt lf y lt ms ky : Inv pf pt lf (y :: lt) ms -> n_key y = Some ky ->
    (forall x, In x lf -> klt y x) -> ~ proc pf pt ky /\ find_key ms ky 0%nat = None.
  Proof.
    intros I Ek Hlt.
    assert (Ky : keyed1 y) by (eapply inv_keyed_t; [exact I | apply in_or_app; right; left; reflexivity]).
    assert (Np : ~ proc pf pt ky).
    { intros (a & Ha & Eka). pose proof (inv_order _ _ _ _ _ I a y Ha ltac:(apply in_or_app; right; left; reflexivity)) as L.
      eapply klt_neq_key; [eapply inv_keyed_p; eassumption | exact L | congruence]. }
    split; [exact Np|].
    assert (L : lk ms ky = None).
    { rewrite (inv_todo _ _ _ _ _ I ky Np). apply lk_none. intros c Hc Ekc.
      apply (inv_ca _ _ _ _ _ I) in Hc. apply in_app_iff in Hc. destruct Hc as [Hc|Hc].
      - apply Np. exists c. split; [apply in_or_app; left; exact Hc | exact Ekc].
      - eapply (klt_neq_key y c Ky (Hlt c Hc)). congruence. }
    unfold lk in L. destruct (find_key ms ky 0%nat) as [[? ?]|]; [discriminate | reflexivity].
  Qed.

  (* a name smaller than everything left in 'to' and not yet processed is not a member of 'to' *)
  Lemma head_from_not_in_to pf pt x lf lt ms kx : Inv pf pt (x :: lf) lt ms -> n_key x = Some kx ->
    (forall y, In y lt -> klt x y) -> lk cb kx = None.
  Proof.
    intros I Ek Hlt. apply lk_none. intros c Hc Ekc.
    assert (Kx : keyed1 x) by (eapply inv_keyed_f; [exact I | apply in_or_app; right; left; reflexivity]).
    apply (inv_cb _ _ _ _ _ I) in Hc. apply in_app_iff in Hc. destruct Hc as [Hc|Hc].
    - pose proof (inv_order _ _ _ _ _ I c x ltac:(apply in_or_app; right; exact Hc) ltac:(apply in_or_app; left; left; reflexivity)) as L.
      eapply (klt_neq_key' c x Kx L). congruence.
    - eapply (klt_neq_key x c Kx (Hlt c Hc)). congruence.
  Qed.

  Lemma proc_snoc_f pf pt x k : proc (pf ++ [x]) pt k <-> proc pf pt k \/ n_key x = Some k.
  Proof.
    unfold proc. split.
    - intros (a & Ha & E). rewrite !in_app_iff in Ha. cbn [In] in Ha. destruct Ha as [[Ha|[Ha|[]]]|Ha].
      + left. exists a. split; [apply in_or_app; left; exact Ha | exact E].
      + right. congruence.
      + left. exists a. split; [apply in_or_app; right; exact Ha | exact E].
    - intros [(a & Ha & E)|E].
      + exists a. split; [|exact E]. rewrite !in_app_iff in *. tauto.
      + exists x. split; [|exact E]. rewrite !in_app_iff. cbn [In]. tauto.
  Qed.
  Lemma proc_snoc_t pf pt y k : proc pf (pt ++ [y]) k <-> proc pf pt k \/ n_key y = Some k.
  Proof.
    unfold proc. split.
    - intros (a & Ha & E). rewrite !in_app_iff in Ha. cbn [In] in Ha. destruct Ha as [Ha|[Ha|[Ha|[]]]].
      + left. exists a. split; [apply in_or_app; left; exact Ha | exact E].
      + left. exists a. split; [apply in_or_app; right; exact Ha | exact E].
      + right. congruence.
    - intros [(a & Ha & E)|E].
      + exists a. split; [|exact E]. rewrite !in_app_iff in *. tauto.
      + exists y. split; [|exact E]. rewrite !in_app_iff. cbn [In]. tauto.
  Qed.

  Lemma sorted_tail x l : StronglySorted klt (x :: l) -> StronglySorted klt l /\ forall b, In b l -> klt x b.
  Proof. intro S. inversion S as [|? ? S' F]; subst. split; [exact S'|]. rewrite Forall_forall in F. exact F. Qed.

  (* generic update of the invariant: the members change only at name k, which becomes processed *)
  Lemma inv_step pf pt lf lt ms pf' pt' lf' lt' ms' k :
    Inv pf pt lf lt ms -> okm ms' ->
    (forall k', proc pf' pt' k' <-> proc pf pt k' \/ k' = k) ->
    rel (lk ms' k) (lk cb k) ->
    (forall k', k' <> k -> lk ms' k' = lk ms k') ->
    (forall a b, In a (pf' ++ pt') -> In b (lf' ++ lt') -> klt a b) ->
    StronglySorted klt lf' -> StronglySorted klt lt' ->
    (forall c, In c (pf ++ lf) <-> In c (pf' ++ lf')) -> (forall c, In c (pt ++ lt) <-> In c (pt' ++ lt')) ->
    Inv pf' pt' lf' lt' ms'.
  Proof.
    intros I Hok Hp Hr Hsame Hord Sf St Ea Eb. constructor; try assumption.
    - intros k' Hk'. apply Hp in Hk'. destruct (list_eq_dec Z.eq_dec k' k) as [->|Hne]; [exact Hr|].
      destruct Hk' as [Hk'|Hk']; [|contradiction]. rewrite (Hsame k' Hne). apply (inv_done _ _ _ _ _ I). exact Hk'.
    - intros k' Hk'. assert (Hne : k' <> k) by (intro; subst; apply Hk'; apply Hp; right; reflexivity).
      rewrite (Hsame k' Hne). apply (inv_todo _ _ _ _ _ I). intro H. apply Hk'. apply Hp. left. exact H.
    - intro c. rewrite (inv_ca _ _ _ _ _ I). apply Ea.
    - intro c. rewrite (inv_cb _ _ _ _ _ I). apply Eb.
  Qed.
End Walk.

(** ---------- the four kinds of steps keep the invariant ---------- *)
Lemma app_snoc_in {A} (p l : list A) x c : In c (p ++ x :: l) <-> In c ((p ++ [x]) ++ l).
Proof. rewrite <- app_assoc. reflexivity. Qed.

Lemma step_remove ca cb pf pt x lf lt ms kx j : okm ca -> okm cb ->
  Inv ca cb pf pt (x :: lf) lt ms -> n_key x = Some kx -> (forall y, In y lt -> klt x y) ->
  find_key ms kx 0%nat = Some (j, x) -> Inv ca cb (pf ++ [x]) pt lf lt (del_nth j ms).
Proof.
  intros Hca Hcb I Ek Hlt F. destruct (lk_del ms kx j x (inv_ok _ _ _ _ _ _ _ I) F) as [L1 L2].
  destruct (sorted_tail x lf (inv_sf _ _ _ _ _ _ _ I)) as [Sf Hx].
  apply (inv_step ca cb pf pt (x :: lf) lt ms (pf ++ [x]) pt lf lt (del_nth j ms) kx I).
  - apply okm_del. apply (inv_ok _ _ _ _ _ _ _ I).
  - intro k'. rewrite proc_snoc_f. split; (intros [H|H]; [left; exact H | right; congruence]).
  - rewrite L1, (head_from_not_in_to ca cb Hca pf pt x lf lt ms kx I Ek Hlt). exact Logic.I.
  - exact L2.
  - intros a b Ha Hb. rewrite !in_app_iff in Ha. cbn [In] in Ha. destruct Ha as [[Ha|[Ha|[]]]|Ha].
    + apply (inv_order _ _ _ _ _ _ _ I); [apply in_or_app; left; exact Ha|]. rewrite in_app_iff in *. cbn [In]. tauto.
    + subst a. apply in_app_iff in Hb. destruct Hb as [Hb|Hb]; [apply Hx; exact Hb | apply Hlt; exact Hb].
    + apply (inv_order _ _ _ _ _ _ _ I); [apply in_or_app; right; exact Ha|]. rewrite in_app_iff in *. cbn [In]. tauto.
  - exact Sf.
  - apply (inv_st _ _ _ _ _ _ _ I).
  - intro c. apply app_snoc_in.
  - intro c. reflexivity.
Qed.

Lemma doc_eq_with_key a b k : doc_eq a b -> doc_eq (with_key a k) b.
Proof. intro E. apply (doc_eq_fields_l a); try (destruct a; reflexivity). exact E. Qed.

Lemma step_add ca cb pf pt lf y lt ms ky kv : okm ca -> okm cb ->
  Inv ca cb pf pt lf (y :: lt) ms -> n_key y = Some ky -> (forall x, In x lf -> klt y x) -> doc_eq kv y ->
  Inv ca cb pf (pt ++ [y]) lf lt (ms ++ [with_key kv ky]).
Proof.
  intros Hca Hcb I Ek Hlt D.
  assert (Hy : In y cb) by (apply (inv_cb _ _ _ _ _ _ _ I); apply in_or_app; right; left; reflexivity).
  destruct (keyed_in _ _ (proj1 Hcb) Hy) as (ky' & Ek' & Hkb). assert (ky' = ky) by congruence. subst ky'.
  destruct (head_to_absent ca cb Hca Hcb pf pt lf y lt ms ky I Ek Hlt) as [Np Fn].
  assert (Ln : lk ms ky = None) by (unfold lk; rewrite Fn; reflexivity).
  assert (Ekw : n_key (with_key kv ky) = Some ky) by (destruct kv; reflexivity).
  destruct (lk_snoc ms (with_key kv ky) ky (inv_ok _ _ _ _ _ _ _ I) Ekw Hkb Ln) as [L1 L2].
  destruct (sorted_tail y lt (inv_st _ _ _ _ _ _ _ I)) as [St Hyl].
  apply (inv_step ca cb pf pt lf (y :: lt) ms pf (pt ++ [y]) lf lt (ms ++ [with_key kv ky]) ky I).
  - eapply okm_snoc; [apply (inv_ok _ _ _ _ _ _ _ I) | exact Ekw | exact Hkb | exact Ln].
  - intro k'. rewrite proc_snoc_t. split; (intros [H|H]; [left; exact H | right; congruence]).
  - rewrite L1. assert (Lb : lk cb ky = Some y) by (apply (lk_some _ _ _ Hcb); split; assumption). rewrite Lb.
    apply doc_eq_with_key. exact D.
  - exact L2.
  - intros a b Ha Hb. rewrite !in_app_iff in Ha. cbn [In] in Ha. destruct Ha as [Ha|[Ha|[Ha|[]]]].
    + apply (inv_order _ _ _ _ _ _ _ I); [apply in_or_app; left; exact Ha|]. rewrite in_app_iff in *. cbn [In]. tauto.
    + apply (inv_order _ _ _ _ _ _ _ I); [apply in_or_app; right; exact Ha|]. rewrite in_app_iff in *. cbn [In]. tauto.
    + subst a. apply in_app_iff in Hb. destruct Hb as [Hb|Hb]; [apply Hlt; exact Hb | apply Hyl; exact Hb].
  - apply (inv_sf _ _ _ _ _ _ _ I).
  - exact St.
  - intro c. reflexivity.
  - intro c. apply app_snoc_in.
Qed.

Lemma step_common ca cb pf pt x lf y lt ms ms' k r : okm ca -> okm cb ->
  Inv ca cb pf pt (x :: lf) (y :: lt) ms -> n_key x = Some k -> n_key y = Some k ->
  okm ms' -> lk ms' k = Some r -> doc_eq r y -> (forall k', k' <> k -> lk ms' k' = lk ms k') ->
  Inv ca cb (pf ++ [x]) (pt ++ [y]) lf lt ms'.
Proof.
  intros Hca Hcb I Ekx Eky Hok L1 D L2.
  assert (Hy : In y cb) by (apply (inv_cb _ _ _ _ _ _ _ I); apply in_or_app; right; left; reflexivity).
  destruct (sorted_tail x lf (inv_sf _ _ _ _ _ _ _ I)) as [Sf Hxl].
  destruct (sorted_tail y lt (inv_st _ _ _ _ _ _ _ I)) as [St Hyl].
  apply (inv_step ca cb pf pt (x :: lf) (y :: lt) ms (pf ++ [x]) (pt ++ [y]) lf lt ms' k I).
  - exact Hok.
  - intro k'. unfold proc. split.
    + intros (a & Ha & E). rewrite !in_app_iff in Ha. cbn [In] in Ha.
      destruct Ha as [[Ha|[Ha|[]]]|[Ha|[Ha|[]]]]; try (right; congruence);
        left; exists a; (split; [rewrite in_app_iff; tauto | exact E]).
    + intros [(a & Ha & E)|E].
      * exists a. split; [|exact E]. rewrite !in_app_iff in *. tauto.
      * exists x. split; [|congruence]. rewrite !in_app_iff. cbn [In]. tauto.
  - rewrite L1. assert (Lb : lk cb k = Some y) by (apply (lk_some _ _ _ Hcb); split; assumption). rewrite Lb. exact D.
  - exact L2.
  - intros a b Ha Hb.
    assert (Old : In a (pf ++ pt) -> klt a b).
    { intro Ha'. apply (inv_order _ _ _ _ _ _ _ I); [exact Ha'|]. rewrite !in_app_iff in *. cbn [In]. tauto. }
    rewrite !in_app_iff in Ha. cbn [In] in Ha. rewrite in_app_iff in Hb.
    destruct Ha as [[Ha|[Ha|[]]]|[Ha|[Ha|[]]]].
    + apply Old. apply in_or_app; left; exact Ha.
    + subst a. destruct Hb as [Hb|Hb]; [apply Hxl; exact Hb|]. apply (klt_key_l y x b); [congruence | apply Hyl; exact Hb].
    + apply Old. apply in_or_app; right; exact Ha.
    + subst a. destruct Hb as [Hb|Hb]; [|apply Hyl; exact Hb]. apply (klt_key_l x y b); [congruence | apply Hxl; exact Hb].
  - exact Sf.
  - exact St.
  - intro c. apply app_snoc_in.
  - intro c. apply app_snoc_in.
Qed.

(** ---------- patches naming a member ---------- *)
Section KeyPatches.
  Variables (path : bytes) (P : list bytes).
  Hypothesis Hpath : rfc_parse_pointer path = Some P.

  Lemma parse_key k : rfc_parse_pointer (path ++ 47 :: encode_string_as_pointer k) = Some (P ++ [k]).
  Proof. destruct (encode_unescape k) as [U N]. apply parse_snoc; assumption. Qed.

  Lemma compose_remove_key ps k :
    exists pobj, compose_patch ps s_remove path (Some k) None = ps ++ [pobj] /\ op_of pobj = Some (prefix_op P (Remove [k])).
  Proof. unfold compose_patch. eexists. split; [reflexivity|]. cbn [app prefix_op]. apply op_of_remove. apply parse_key. Qed.

  Lemma compose_add_key ps k y : dwf y -> shallow y ->
    exists pobj kv, compose_patch ps s_add path (Some k) (Some y) = ps ++ [pobj] /\
                    op_of pobj = Some (prefix_op P (Add [k] kv)) /\ doc_eq kv y.
  Proof.
    intros Hy Hs. destruct (dup_value y Hy Hs) as (dv & Ed & Eq).
    unfold compose_patch. rewrite Ed. do 2 eexists. split; [reflexivity|]. split.
    - cbn [app prefix_op]. apply op_of_add. apply parse_key.
    - apply (doc_eq_fields_l dv); try (destruct dv; reflexivity); [|exact Eq].
      destruct dv as [t0 s0 i0 d0 k0 c0]. unfold keyed. cbn [set_ty set_key n_ty]. apply tymask_ldiff. reflexivity.
  Qed.
End KeyPatches.

(** ---------- what a recursive call delivers, in general ---------- *)
Definition rtg_spec (P : list bytes) (ps : list node) (from to : node) (r : res (list node * node * node)) : Prop :=
  exists new L d f' t', r = Ok (ps ++ new, f', t') /\
    all_some (map op_of new) = Some (map (prefix_op P) L) /\
    ((exists v, L = [Replace [] v]) \/ deep L) /\
    eval from L = Some d /\ doc_eq d to.

Lemma shape_kinds L : ((exists v, L = [Replace [] v]) \/ deep L) ->
  forall o, In o L -> match o with Add _ _ | Remove _ | Replace _ _ => True | _ => False end.
Proof.
  intros [(v & ->)|D] o Ho; [destruct Ho as [<-|[]]; exact I|].
  unfold deep in D. rewrite Forall_forall in D. specialize (D o Ho). destruct o; try contradiction; exact I.
Qed.

(** ---------- the merge walk over the sorted members ---------- *)
Lemma rt_walk rec path P ca cb : rfc_parse_pointer path = Some P -> okm ca -> okm cb ->
  Forall dwf ca -> Forall dwf cb -> Forall shallow cb ->
  (forall ps p Q x y, In x ca -> dwf x -> dwf y -> shallow y -> rfc_parse_pointer p = Some Q -> rtg_spec Q ps x y (rec ps p x y)) ->
  forall g lf lt ps pf pt ms, (length lf + length lt < g)%nat -> Inv ca cb pf pt lf lt ms ->
  exists new L ms' lf' lt',
    cp_walk rec path true g ps lf lt = Ok (ps ++ new, lf', lt') /\
    all_some (map op_of new) = Some (map (prefix_op P) L) /\ deep L /\
    (forall O, is_object O = true -> n_children O = ms -> eval O L = Some (with_children O ms')) /\
    okm ms' /\ (forall k, rel (lk ms' k) (lk cb k)).
Proof.
  intros Hpath Hca Hcb Dca Dcb Scb Hrec.
  rewrite Forall_forall in Dca, Dcb, Scb.
  (* the two single-sided steps, used twice each *)
  assert (ADD : forall g, (forall lf lt ps pf pt ms, (length lf + length lt < g)%nat -> Inv ca cb pf pt lf lt ms ->
            exists new L ms' lf' lt', cp_walk rec path true g ps lf lt = Ok (ps ++ new, lf', lt') /\
              all_some (map op_of new) = Some (map (prefix_op P) L) /\ deep L /\
              (forall O, is_object O = true -> n_children O = ms -> eval O L = Some (with_children O ms')) /\
              okm ms' /\ (forall k, rel (lk ms' k) (lk cb k))) ->
          forall lf y lt ps pf pt ms, (length lf + length (y :: lt) < S g)%nat -> Inv ca cb pf pt lf (y :: lt) ms ->
            (forall x, In x lf -> klt y x) ->
            exists new L ms' lf' lt',
              (r <- cp_walk rec path true g (compose_patch ps s_add path (n_key y) (Some y)) lf lt ;;
               (let '(ps2, lf2, lt2) := r in Ok (ps2, lf2, y :: lt2))) = Ok (ps ++ new, lf', lt') /\
              all_some (map op_of new) = Some (map (prefix_op P) L) /\ deep L /\
              (forall O, is_object O = true -> n_children O = ms -> eval O L = Some (with_children O ms')) /\
              okm ms' /\ (forall k, rel (lk ms' k) (lk cb k))).
  { intros g IH lf y lt ps pf pt ms Hg I Hlt.
    assert (Hy : In y cb) by (apply (inv_cb _ _ _ _ _ _ _ I); apply in_or_app; right; left; reflexivity).
    destruct (keyed_in _ _ (proj1 Hcb) Hy) as (ky & Ek & Hkb). rewrite Ek.
    destruct (compose_add_key path P Hpath ps ky y (Dcb y Hy) (Scb y Hy)) as (pobj & kv & Ec & Oc & Dc). rewrite Ec.
    destruct (head_to_absent ca cb Hca Hcb pf pt lf y lt ms ky I Ek Hlt) as [_ Fn].
    pose proof (step_add ca cb pf pt lf y lt ms ky kv Hca Hcb I Ek Hlt Dc) as I'.
    destruct (IH lf lt (ps ++ [pobj]) pf (pt ++ [y]) (ms ++ [with_key kv ky]) ltac:(cbn [length] in Hg; lia) I')
      as (n2 & L2 & ms2 & lf2 & lt2 & E2 & O2 & D2 & Ev2 & Ok2 & R2).
    rewrite E2. cbn [bind]. exists (pobj :: n2), (Add [ky] kv :: L2), ms2, lf2, (y :: lt2). rewrite <- app_assoc.
    split; [reflexivity|]. split; [cbn [map all_some]; rewrite Oc, O2; reflexivity|].
    split; [constructor; [cbn; discriminate | exact D2]|]. split; [|split; assumption].
    intros O HO Hc. cbn [eval]. rewrite (obj_add_new O HO ky kv) by (rewrite Hc; exact Fn). rewrite Hc.
    rewrite (Ev2 (with_children O (ms ++ [with_key kv ky]))); [rewrite with_children_with; reflexivity | rewrite is_object_with_children; exact HO | apply n_children_with]. }
  assert (REM : forall g, (forall lf lt ps pf pt ms, (length lf + length lt < g)%nat -> Inv ca cb pf pt lf lt ms ->
            exists new L ms' lf' lt', cp_walk rec path true g ps lf lt = Ok (ps ++ new, lf', lt') /\
              all_some (map op_of new) = Some (map (prefix_op P) L) /\ deep L /\
              (forall O, is_object O = true -> n_children O = ms -> eval O L = Some (with_children O ms')) /\
              okm ms' /\ (forall k, rel (lk ms' k) (lk cb k))) ->
          forall x lf lt ps pf pt ms, (length (x :: lf) + length lt < S g)%nat -> Inv ca cb pf pt (x :: lf) lt ms ->
            (forall y, In y lt -> klt x y) ->
            exists new L ms' lf' lt',
              (r <- cp_walk rec path true g (compose_patch ps s_remove path (n_key x) None) lf lt ;;
               (let '(ps2, lf2, lt2) := r in Ok (ps2, x :: lf2, lt2))) = Ok (ps ++ new, lf', lt') /\
              all_some (map op_of new) = Some (map (prefix_op P) L) /\ deep L /\
              (forall O, is_object O = true -> n_children O = ms -> eval O L = Some (with_children O ms')) /\
              okm ms' /\ (forall k, rel (lk ms' k) (lk cb k))).
  { intros g IH x lf lt ps pf pt ms Hg I Hlt.
    assert (Hx : In x ca) by (apply (inv_ca _ _ _ _ _ _ _ I); apply in_or_app; right; left; reflexivity).
    destruct (keyed_in _ _ (proj1 Hca) Hx) as (kx & Ek & Hkb). rewrite Ek.
    destruct (compose_remove_key path P Hpath ps kx) as (pobj & Ec & Oc). rewrite Ec.
    destruct (head_from ca cb Hca Hcb pf pt x lf lt ms kx I Ek) as [_ (j & Fx)].
    pose proof (step_remove ca cb pf pt x lf lt ms kx j Hca Hcb I Ek Hlt Fx) as I'.
    destruct (IH lf lt (ps ++ [pobj]) (pf ++ [x]) pt (del_nth j ms) ltac:(cbn [length] in Hg; lia) I')
      as (n2 & L2 & ms2 & lf2 & lt2 & E2 & O2 & D2 & Ev2 & Ok2 & R2).
    rewrite E2. cbn [bind]. exists (pobj :: n2), (Remove [kx] :: L2), ms2, (x :: lf2), lt2. rewrite <- app_assoc.
    split; [reflexivity|]. split; [cbn [map all_some]; rewrite Oc, O2; reflexivity|].
    split; [constructor; [cbn; discriminate | exact D2]|]. split; [|split; assumption].
    intros O HO Hc. cbn [eval]. rewrite (obj_remove O HO kx j x) by (rewrite Hc; exact Fx). rewrite Hc.
    rewrite (Ev2 (with_children O (del_nth j ms))); [rewrite with_children_with; reflexivity | rewrite is_object_with_children; exact HO | apply n_children_with]. }
  induction g as [|g IH]; intros lf lt ps pf pt ms Hg I; [lia|].
  destruct lf as [|x lf]; destruct lt as [|y lt].
  - (* both exhausted *)
    cbn [cp_walk]. exists [], [], ms, [], []. rewrite app_nil_r. split; [reflexivity|]. split; [reflexivity|]. split; [constructor|].
    split; [intros O HO Hc; cbn [eval]; rewrite <- Hc; destruct O; reflexivity|]. split; [apply (inv_ok _ _ _ _ _ _ _ I)|].
    intro k. destruct (lk ca k) as [c|] eqn:La.
    + apply (inv_done _ _ _ _ _ _ _ I). apply (lk_some _ _ _ Hca) in La. destruct La as [Hc Ekc].
      apply (inv_ca _ _ _ _ _ _ _ I) in Hc. rewrite app_nil_r in Hc. exists c. split; [apply in_or_app; left; exact Hc | exact Ekc].
    + destruct (lk cb k) as [y|] eqn:Lb.
      * rewrite <- Lb. apply (inv_done _ _ _ _ _ _ _ I). apply (lk_some _ _ _ Hcb) in Lb. destruct Lb as [Hc Ekc].
        apply (inv_cb _ _ _ _ _ _ _ I) in Hc. rewrite app_nil_r in Hc. exists y. split; [apply in_or_app; right; exact Hc | exact Ekc].
      * assert (Np : ~ proc pf pt k).
        { intros (a & Ha & Eka). apply in_app_iff in Ha. destruct Ha as [Ha|Ha].
          - rewrite lk_none in La. apply (La a); [|exact Eka]. apply (inv_ca _ _ _ _ _ _ _ I). rewrite app_nil_r. exact Ha.
          - rewrite lk_none in Lb. apply (Lb a); [|exact Eka]. apply (inv_cb _ _ _ _ _ _ _ I). rewrite app_nil_r. exact Ha. }
        rewrite (inv_todo _ _ _ _ _ _ _ I k Np), La. exact Logic.I.
  - cbn [cp_walk]. cbn [Z.eqb Z.ltb Z.compare]. apply (ADD g IH [] y lt ps pf pt ms Hg I). intros x [].
  - cbn [cp_walk]. cbn [Z.eqb Z.ltb Z.compare]. apply (REM g IH x lf [] ps pf pt ms Hg I). intros y [].
  - cbn [cp_walk].
    assert (Hx : In x ca) by (apply (inv_ca _ _ _ _ _ _ _ I); apply in_or_app; right; left; reflexivity).
    assert (Hy : In y cb) by (apply (inv_cb _ _ _ _ _ _ _ I); apply in_or_app; right; left; reflexivity).
    pose proof (keyed_in _ _ (proj1 Hca) Hx) as Kx. pose proof (keyed_in _ _ (proj1 Hcb) Hy) as Ky.
    destruct (sorted_tail x lf (inv_sf _ _ _ _ _ _ _ I)) as [Sf Hxl].
    destruct (sorted_tail y lt (inv_st _ _ _ _ _ _ _ I)) as [St Hyl].
    destruct (Z.eqb_spec (compare_strings (n_key x) (n_key y) true) 0) as [Hz|Hnz].
    + (* the same name on both sides: recurse *)
      apply keyed_cmp0 in Hz; try assumption.
      destruct Kx as (kx & Ekx & Hkb). rewrite Ekx.
      assert (Eky : n_key y = Some kx) by congruence.
      assert (Hp' : rfc_parse_pointer (path ++ [47] ++ encode_string_as_pointer kx) = Some (P ++ [kx])) by (apply parse_key; exact Hpath).
      destruct (Hrec ps _ _ x y Hx (Dca x Hx) (Dcb y Hy) (Scb y Hy) Hp') as (n1 & L1 & r1 & x' & y' & E1 & O1 & Sh1 & Ev1 & D1).
      rewrite E1. cbn [bind].
      destruct (head_from ca cb Hca Hcb pf pt x lf (y :: lt) ms kx I Ekx) as [_ (j & Fx)].
      pose proof (inv_ok _ _ _ _ _ _ _ I) as Hokm.
      (* the members after the recursive script, in its two shapes *)
      assert (STEP : exists ms1 r', okm ms1 /\ lk ms1 kx = Some r' /\ doc_eq r' y /\
                 (forall k', k' <> kx -> lk ms1 k' = lk ms k') /\
                 (forall O, is_object O = true -> n_children O = ms ->
                    eval O (map (prefix_op [kx]) L1) = Some (with_children O ms1))).
      { destruct Sh1 as [(v & ->)|Dp1].
        - cbn in Ev1. inversion Ev1; subst r1.
          destruct (lk_del ms kx j x Hokm Fx) as [Ld1 Ld2].
          assert (Ekw : n_key (with_key v kx) = Some kx) by (destruct v; reflexivity).
          destruct (lk_snoc (del_nth j ms) (with_key v kx) kx (okm_del ms j Hokm) Ekw Hkb Ld1) as [Ls1 Ls2].
          exists (del_nth j ms ++ [with_key v kx]), (with_key v kx).
          split; [eapply okm_snoc; [apply okm_del; exact Hokm | exact Ekw | exact Hkb | exact Ld1]|].
          split; [exact Ls1|]. split; [apply doc_eq_with_key; exact D1|].
          split; [intros k' Hk'; rewrite (Ls2 k' Hk'); apply Ld2; exact Hk'|].
          intros O HO Hc. cbn [map prefix_op app eval]. rewrite (obj_replace O kx j x v HO) by (rewrite Hc; assumption). rewrite Hc. reflexivity.
        - exists (upd_nth j r1 ms), r1.
          assert (FO : forall O, is_object O = true -> n_children O = ms ->
                    eval O (map (prefix_op [kx]) L1) = Some (with_children O (upd_nth j r1 ms)) /\ n_key r1 = n_key x).
          { intros O HO Hc. rewrite <- Hc. apply (frame_object L1 O kx j x r1 HO); try assumption; rewrite Hc; assumption. }
          assert (Kr : n_key r1 = Some kx).
          { destruct (FO (with_children create_object ms) eq_refl (n_children_with _ _)) as [_ K]. congruence. }
          destruct (lk_upd ms kx j x r1 Hokm Fx Kr) as (Lu1 & Lu2 & _).
          split; [eapply okm_upd; [exact Hokm | eapply find_key_nth; exact Fx | congruence]|].
          split; [exact Lu1|]. split; [exact D1|]. split; [exact Lu2|]. intros O HO Hc. apply (FO O HO Hc). }
      destruct STEP as (ms1 & r' & Hok1 & Lk1 & Dr & Ls1 & Ev1').
      pose proof (step_common ca cb pf pt x lf y lt ms ms1 kx r' Hca Hcb I Ekx Eky Hok1 Lk1 Dr Ls1) as I'.
      destruct (IH lf lt (ps ++ n1) (pf ++ [x]) (pt ++ [y]) ms1 ltac:(cbn [length] in Hg; lia) I')
        as (n2 & L2 & ms2 & lf2 & lt2 & E2 & O2 & D2 & Ev2 & Ok2 & R2).
      rewrite E2. cbn [bind]. exists (n1 ++ n2), (map (prefix_op [kx]) L1 ++ L2), ms2, (x' :: lf2), (y' :: lt2). rewrite app_assoc.
      split; [reflexivity|]. split; [|split; [|split; [|split; assumption]]].
      * rewrite !map_app. apply all_some_app. do 2 eexists. split; [exact O1|]. split; [exact O2|]. rewrite map_prefix_app. reflexivity.
      * unfold deep. apply Forall_app. split; [|exact D2]. apply deep_prefix. apply shape_kinds. exact Sh1.
      * intros O HO Hc. rewrite eval_app, (Ev1' O HO Hc).
        rewrite (Ev2 (with_children O ms1)); [rewrite with_children_with; reflexivity | rewrite is_object_with_children; exact HO | apply n_children_with].
    + destruct (Z.ltb_spec (compare_strings (n_key x) (n_key y) true) 0) as [Hlt|Hge].
      * apply (REM g IH x lf (y :: lt) ps pf pt ms Hg I).
        intros b [<-|Hb]; [exact Hlt|].
        apply (klt_trans x y b Kx Ky); [|exact Hlt | apply Hyl; exact Hb].
        apply (keyed_in cb); [apply Hcb|]. apply (inv_cb _ _ _ _ _ _ _ I). apply in_or_app. right. right. exact Hb.
      * assert (Hyx : klt y x) by (apply klt_of_gt; try assumption; lia).
        apply (ADD g IH (x :: lf) y lt ps pf pt ms Hg I).
        intros b [<-|Hb]; [exact Hyx|].
        apply (klt_trans y x b Ky Kx); [|exact Hyx | apply Hxl; exact Hb].
        apply (keyed_in ca); [apply Hca|]. apply (inv_ca _ _ _ _ _ _ _ I). apply in_or_app. right. right. exact Hb.
Qed.

(** ---------- arrays, with the general form of the recursive call ---------- *)
Lemma rtg_arr_loop rec path P : rfc_parse_pointer path = Some P ->
  forall lf lt ps rs,
  Forall dwf lf -> Forall dwf lt -> Forall shallow lt ->
  Z.of_nat (length rs + length lf) <= SIZE_MAX ->
  (forall ps p Q x y, In x lf -> dwf x -> dwf y -> shallow y -> rfc_parse_pointer p = Some Q -> rtg_spec Q ps x y (rec ps p x y)) ->
  exists new L tail lf' lt',
    cp_arr rec path ps (Z.of_nat (length rs)) lf lt = Ok (ps ++ new, lf', lt') /\
    all_some (map op_of new) = Some (map (prefix_op P) L) /\ deep L /\
    (forall A0, is_array A0 = true -> n_children A0 = rs ++ lf -> eval A0 L = Some (with_children A0 (rs ++ tail))) /\
    Forall2 doc_eq tail lt.
Proof.
  intro Hpath. induction lf as [|x lf IH]; intros lt ps rs Hf Ht Hsh Hs Hrec.
  - cbn [cp_arr fold_left].
    destruct (add_fold path P Hpath lt ps Ht Hsh) as (new & kvs & En & On & Fn).
    rewrite En. exists new, (map (fun kv => Add [[45]] kv) kvs), kvs, [], lt.
    split; [reflexivity|]. split; [exact On|]. split; [apply deep_adds|]. split; [|exact Fn].
    intros A0 HA Hc. rewrite eval_adds by exact HA. rewrite Hc, !app_nil_r. reflexivity.
  - destruct lt as [|y lt].
    + cbn [cp_arr]. cbn [length] in Hs.
      destruct (rm_fold path P Hpath (length rs) ltac:(lia) (x :: lf) ps) as (new & En & On).
      change (print_lu (Z.of_nat (length rs))) with (idx_tok (length rs)). rewrite En. cbn [fold_left].
      exists new, (repeat (Remove [idx_tok (length rs)]) (length (x :: lf))), [], (x :: lf), [].
      split; [reflexivity|]. split; [exact On|]. split; [apply deep_repeat_remove|]. split; [|constructor].
      intros A0 HA Hc. rewrite (eval_removes (x :: lf) rs A0 HA Hc) by (cbn [length]; lia). rewrite app_nil_r. reflexivity.
    + cbn [cp_arr]. cbn [length] in Hs.
      inversion Hf as [|? ? Hx Hf']; subst. inversion Ht as [|? ? Hy Ht']; subst. inversion Hsh as [|? ? Hsy Hsh']; subst.
      destruct (idx_tok_spec (length rs) ltac:(lia)) as (_ & _ & Ns & Un & _ & _).
      assert (Hp' : rfc_parse_pointer (path ++ [47] ++ print_lu (Z.of_nat (length rs))) = Some (P ++ [idx_tok (length rs)])).
      { change (path ++ [47] ++ print_lu (Z.of_nat (length rs))) with (path ++ 47 :: idx_tok (length rs)). apply parse_snoc; assumption. }
      destruct (Hrec ps _ _ x y (or_introl eq_refl) Hx Hy Hsy Hp') as (new1 & L1 & r1 & x' & y' & E1 & O1 & Sh1 & Ev1 & D1).
      rewrite E1. cbn [bind].
      destruct (IH lt (ps ++ new1) (rs ++ [r1]) Hf' Ht' Hsh') as (new2 & L2 & tail2 & lf2 & lt2 & E2 & O2 & Dp2 & Ev2 & F2).
      { rewrite app_length. cbn [length]. lia. }
      { intros; apply Hrec; try assumption. right; assumption. }
      replace (Z.of_nat (length rs) + 1) with (Z.of_nat (length (rs ++ [r1]))) by (rewrite app_length; cbn [length]; lia).
      rewrite E2. cbn [bind].
      exists (new1 ++ new2), (map (prefix_op [idx_tok (length rs)]) L1 ++ L2), (r1 :: tail2), (x' :: lf2), (y' :: lt2).
      split; [rewrite app_assoc; reflexivity|]. split; [|split; [|split]].
      * rewrite !map_app. apply all_some_app. do 2 eexists. split; [exact O1|]. split; [exact O2|]. rewrite map_prefix_app. reflexivity.
      * unfold deep. apply Forall_app. split; [|exact Dp2]. apply deep_prefix. apply shape_kinds. exact Sh1.
      * intros A0 HA Hc. rewrite eval_app.
        assert (Hnth : nth_error (n_children A0) (length rs) = Some x).
        { rewrite Hc, nth_error_app2, Nat.sub_diag by lia. reflexivity. }
        assert (S1 : eval A0 (map (prefix_op [idx_tok (length rs)]) L1) = Some (with_children A0 (rs ++ r1 :: lf))).
        { destruct Sh1 as [(v & ->)|Dp1].
          - cbn in Ev1. inversion Ev1; subst r1. cbn [map prefix_op app eval].
            rewrite replace_elem; [|exact HA | rewrite Hc, app_length; cbn [length]; lia | lia].
            rewrite Hc, upd_nth_mid. reflexivity.
          - rewrite (frame_array L1 A0 x (length rs) r1 HA Hnth ltac:(lia) Dp1 Ev1). rewrite Hc, upd_nth_mid. reflexivity. }
        rewrite S1. rewrite (Ev2 (with_children A0 (rs ++ r1 :: lf))).
        -- rewrite with_children_with, <- app_assoc. reflexivity.
        -- rewrite is_array_with_children. exact HA.
        -- rewrite n_children_with, <- app_assoc. reflexivity.
      * constructor; assumption.
Qed.

(** ---------- all documents ---------- *)
Lemma rtg_create : forall fuel ps path P from to, (node_depth from <= fuel)%nat -> dwf from -> dwf to -> shallow to ->
  rfc_parse_pointer path = Some P -> rtg_spec P ps from to (create_patches fuel ps path from to true).
Proof.
  induction fuel as [|f IH]; intros ps path P from to Hdep Hf Ht Hs Hp.
  - destruct from. rewrite node_depth_eq in Hdep. lia.
  - unfold rtg_spec. cbn [create_patches].
    destruct from as [ty vs vi vd k ca]. cbn [n_ty n_vint n_vdbl n_vstr n_children].
    pose proof (dwf_local _ Hf) as (L & J & Sv & Nv & Ov). cbn [n_ty n_vstr n_vdbl n_children] in *.
    assert (REP : exists new L0 d f' t', Ok (compose_patch ps s_replace path None (Some to), Node ty vs vi vd k ca, to) = Ok (ps ++ new, f', t') /\
              all_some (map op_of new) = Some (map (prefix_op P) L0) /\ ((exists v, L0 = [Replace [] v]) \/ deep L0) /\
              eval (Node ty vs vi vd k ca) L0 = Some d /\ doc_eq d to).
    { destruct (compose_replace_whole path P Hp ps to Ht Hs) as (pobj & kv & E & O & D). rewrite E.
      exists [pobj], [Replace [] kv], kv. do 2 eexists. split; [reflexivity|]. split; [cbn [map all_some]; rewrite O; reflexivity|].
      split; [left; eexists; reflexivity|]. split; [reflexivity | exact D]. }
    assert (NOP : doc_eq (Node ty vs vi vd k ca) to -> exists new L0 d f' t', Ok (ps, Node ty vs vi vd k ca, to) = Ok (ps ++ new, f', t') /\
              all_some (map op_of new) = Some (map (prefix_op P) L0) /\ ((exists v, L0 = [Replace [] v]) \/ deep L0) /\
              eval (Node ty vs vi vd k ca) L0 = Some d /\ doc_eq d to).
    { intro D. exists [], [], (Node ty vs vi vd k ca). do 2 eexists. rewrite app_nil_r. split; [reflexivity|]. split; [reflexivity|].
      split; [right; constructor|]. split; [reflexivity | exact D]. }
    assert (Shc : Forall shallow (n_children to)).
    { rewrite Forall_forall. intros y Hy. eapply shallow_child; eassumption. }
    destruct (Z.eqb_spec (tymask ty) (tymask (n_ty to))) as [Et|Et]; cbn [negb]; [|exact REP].
    destruct (Z.eqb_spec (tymask ty) c_cJSON_Number) as [En|En].
    { destruct (vi =? n_vint to) eqn:E1, (compare_double vd (n_vdbl to)) eqn:E2; cbn [negb orb]; try exact REP.
      apply NOP. apply Z.eqb_eq in E1. apply de_num; cbn [n_ty n_vint n_vdbl]; congruence. }
    destruct (Z.eqb_spec (tymask ty) c_cJSON_String) as [Es|Es].
    { destruct (Sv Es) as (x & Ex & Nx). subst vs.
      destruct (dwf_local _ Ht) as (_ & _ & Sb & _). destruct (Sb ltac:(congruence)) as (y & Ey & Ny). rewrite Ey.
      rewrite strcmp_eqb by assumption. destruct (bytes_eqb x y) eqn:Eb; cbn [negb]; [|exact REP].
      apply NOP. apply bytes_eqb_eq in Eb. subst y. eapply de_str; cbn [n_ty n_vstr]; try eassumption; try reflexivity; congruence. }
    destruct (Z.eqb_spec (tymask ty) c_cJSON_Array) as [Ea|Ea].
    { destruct (rtg_arr_loop (fun ps p x y => create_patches f ps p x y true) path P Hp ca (n_children to) ps [])
        as (new & L0 & tail & lf' & lt' & E & O & Dp & Ev & F2).
      - apply (dwf_children _ Hf).
      - apply (dwf_children _ Ht).
      - exact Shc.
      - cbn [length]. exact L.
      - intros ps0 p0 Q x y Hx Hdx Hdy Hsy Hq. apply IH; try assumption.
        pose proof (depth_child (Node ty vs vi vd k ca) x Hx). lia.
      - change (Z.of_nat (length (@nil node))) with 0 in E. rewrite E. cbn [bind].
        assert (HA : is_array (Node ty vs vi vd k ca) = true) by (unfold is_array, is_type; cbn [n_ty]; apply Z.eqb_eq; exact Ea).
        specialize (Ev (Node ty vs vi vd k ca) HA eq_refl). cbn [app] in Ev.
        exists new, L0, (with_children (Node ty vs vi vd k ca) tail). do 2 eexists. split; [reflexivity|]. split; [exact O|].
        split; [right; exact Dp|]. split; [exact Ev|].
        apply de_arr; cbn [with_children n_ty n_children]; [exact Ea | congruence | exact F2]. }
    destruct (Z.eqb_spec (tymask ty) c_cJSON_Object) as [Eo|Eo].
    2:{ apply NOP. destruct (json_type_cases _ J) as [T|[T|[T|[T|[T|[T|T]]]]]]; try contradiction; apply de_lit; cbn [n_ty]; tauto. }
    destruct (Ov Eo) as [Na Ka].
    destruct (dwf_obj_local to Ht ltac:(congruence)) as [Nb Kb].
    destruct (sort_object_sorted (Node ty vs vi vd k ca) Ka) as (ra & Hra & Pa & Sa).
    destruct (sort_object_sorted to Kb) as (rb & Hrb & Pb & Sb).
    rewrite Hra. cbn [bind]. rewrite Hrb. cbn [bind]. rewrite !n_children_set. cbn [n_children] in Pa.
    assert (Hca : okm ca) by (split; assumption). assert (Hcb : okm (n_children to)) by (split; assumption).
    assert (I0 : Inv ca (n_children to) [] [] ra rb ca).
    { constructor.
      - exact Hca.
      - intros k0 (a & [] & _).
      - reflexivity.
      - intros a b [].
      - apply sorted_strict; [eapply keyed_perm; [exact Pa | exact Ka] | eapply Permutation_NoDup; [apply Permutation_map; exact Pa | exact Na] | exact Sa].
      - apply sorted_strict; [eapply keyed_perm; [exact Pb | exact Kb] | eapply Permutation_NoDup; [apply Permutation_map; exact Pb | exact Nb] | exact Sb].
      - intro c. cbn [app]. split; intro H; [eapply Permutation_in; [exact Pa | exact H] | eapply Permutation_in; [apply Permutation_sym; exact Pa | exact H]].
      - intro c. cbn [app]. split; intro H; [eapply Permutation_in; [exact Pb | exact H] | eapply Permutation_in; [apply Permutation_sym; exact Pb | exact H]]. }
    destruct (rt_walk (fun ps p x y => create_patches f ps p x y true) path P ca (n_children to) Hp Hca Hcb
                (dwf_children _ Hf) (dwf_children _ Ht) Shc) with (g := S (length ra + length rb)) (lf := ra) (lt := rb) (ps := ps) (pf := @nil node) (pt := @nil node) (ms := ca)
      as (new & L0 & ms' & lf' & lt' & E & O & Dp & Ev & Hok' & R); [| lia | exact I0 |].
    { intros ps0 p0 Q x y Hx Hdx Hdy Hsy Hq. apply IH; try assumption.
      pose proof (depth_child (Node ty vs vi vd k ca) x Hx). lia. }
    rewrite E. cbn [bind].
    assert (HO : is_object (Node ty vs vi vd k ca) = true) by (unfold is_object, is_type; cbn [n_ty]; apply Z.eqb_eq; exact Eo).
    specialize (Ev (Node ty vs vi vd k ca) HO eq_refl).
    exists new, L0, (with_children (Node ty vs vi vd k ca) ms'). do 2 eexists. split; [reflexivity|]. split; [exact O|].
    split; [right; exact Dp|]. split; [exact Ev|].
    destruct (rel_doc_eq ms' (n_children to) Hok' Hcb R) as [B1 B2].
    apply de_obj; cbn [with_children n_ty n_children]; [exact Eo | congruence | exact B1 | exact B2].
Qed.

(** the generated patch, decoded and evaluated by the RFC on the original 'from', yields 'to' *)
Theorem roundtrip_all from to : dwf from -> dwf to -> shallow to ->
  exists patches f' t' ops d,
    cJSONUtils_GeneratePatchesCaseSensitive from to = Ok (patches, f', t') /\
    ops_of patches = Some ops /\ eval from ops = Some d /\ doc_eq d to.
Proof.
  intros Hf Ht Hs. unfold cJSONUtils_GeneratePatchesCaseSensitive, generate_patches.
  destruct (rtg_create (node_depth from) [] [] [] from to ltac:(lia) Hf Ht Hs eq_refl) as (new & L & d & f' & t' & E & O & _ & Ev & D).
  rewrite E. cbn [bind app]. exists (set_children create_array new), f', t', L, d.
  split; [reflexivity|]. split; [|split; assumption].
  unfold ops_of. cbn. rewrite O, map_prefix_nil. reflexivity.
Qed.
