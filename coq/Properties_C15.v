(** Properties_C15.v — property C15: JSON Pointer resolution follows RFC 6901 and inverts
    pointer construction.  Only statements closed by [exact]. *)
From Coq Require Import Floats.SpecFloat.
From CJ Require Import Base Tree PointerDefs PointerProofs.
Local Open Scope Z_scope.

(** For every document and every C string, the case-sensitive lookup returns exactly the
    node RFC 6901 designates (as a path from the root), and nothing for everything else.
    [small_arrays]: no array has 2^64 or more elements (true of anything in memory). *)
Theorem C15_resolve : forall doc p,
  small_arrays doc -> Forall (fun c => c <> 0) p ->
  cJSONUtils_GetPointerCaseSensitive doc p = rfc6901 doc p.
Proof. exact get_pointer_rfc. Qed.
Print Assumptions C15_resolve.

(** For every node inside a tree (objects with distinct, present keys; only containers
    have children), the constructed pointer resolves back to that same node. *)
Theorem C15_construct : forall root target t,
  small_arrays root -> keys_ok root -> containers_ok root ->
  subtree root target = Some t ->
  exists p, cJSONUtils_FindPointerFromObjectTo root target = Some p
         /\ Forall (fun c => c <> 0) p
         /\ cJSONUtils_GetPointerCaseSensitive root p = Some target
         /\ rfc6901 root p = Some target.
Proof. exact find_pointer_roundtrip. Qed.
Print Assumptions C15_construct.

(** escaping is the RFC's: the token produced for a key unescapes to that key *)
Theorem C15_escape : forall k, unescape (encode_string_as_pointer k) = Some k
                            /\ Forall (fun c => c <> 47) (encode_string_as_pointer k).
Proof. exact encode_unescape. Qed.
Print Assumptions C15_escape.

(** non-vacuity: a document with keys containing '/', '~', the empty key, nested arrays *)
Definition ex_z := S754_zero false.
Definition ex_leaf k v := Node 8 None v ex_z (Some k) [].
Definition ex_doc := Node 64 None 0 ex_z None
  [ex_leaf [97] 1;
   Node 32 None 0 ex_z (Some [97;47;98]) [ex_leaf [] 10; ex_leaf [] 11; Node 64 None 0 ex_z None [ex_leaf [126] 5; ex_leaf [] 6]];
   ex_leaf [] 3].
Theorem C15_nonvacuous :
  small_arrays ex_doc /\ keys_ok ex_doc /\ containers_ok ex_doc /\
  cJSONUtils_FindPointerFromObjectTo ex_doc [1;2;0]%nat = Some [47;97;126;49;98;47;50;47;126;48] /\
  cJSONUtils_GetPointerCaseSensitive ex_doc [47;97;126;49;98;47;50;47;126;48] = Some [1;2;0]%nat.
Proof. exact ex_doc_ok. Qed.
Print Assumptions C15_nonvacuous.
