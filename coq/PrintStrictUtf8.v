(** PrintStrictUtf8.v — C05, complement to part 1: RFC 8259 section 8.1 requires a JSON text to be
    UTF-8.  [utf8_valid] is the well-formedness table of RFC 3629 section 4 as a boolean function
    (shortest form only, no surrogates, at most U+10FFFF).  The printer copies every byte >= 0x20
    other than quote and backslash unchanged and replaces the others by ASCII sequences, so:
    if every string and member name of a printable tree is valid UTF-8, the printed text is. *)
From CJ Require Import Base Dbl Tree Grammar PrintDefs PrintStrict PrintStrictWs.
Local Open Scope Z_scope.

Definition in_rng (lo hi c : Z) : bool := (lo <=? c) && (c <=? hi).
Definition utail (c : Z) : bool := in_rng 128 191 c.
Definition lead2 (c0 : Z) : bool := in_rng 194 223 c0.
Definition lead3 (c0 c1 : Z) : bool :=
  (c0 =? 224) && in_rng 160 191 c1 || in_rng 225 236 c0 && utail c1 ||
  (c0 =? 237) && in_rng 128 159 c1 || in_rng 238 239 c0 && utail c1.
Definition lead4 (c0 c1 : Z) : bool :=
  (c0 =? 240) && in_rng 144 191 c1 || in_rng 241 243 c0 && utail c1 || (c0 =? 244) && in_rng 128 143 c1.

Fixpoint utf8_valid (l : bytes) : bool :=
  match l with
  | [] => true
  | c0 :: r =>
    if in_rng 0 127 c0 then utf8_valid r
    else match r with
    | [] => false
    | c1 :: r1 =>
      if lead2 c0 && utail c1 then utf8_valid r1
      else match r1 with
      | [] => false
      | c2 :: r2 =>
        if lead3 c0 c1 && utail c2 then utf8_valid r2
        else match r2 with
        | [] => false
        | c3 :: r3 => if lead4 c0 c1 && utail c2 && utail c3 then utf8_valid r3 else false
        end
      end
    end
  end.

Definition ascii (l : bytes) : Prop := forallb (in_rng 0 127) l = true.

Lemma utf8_ascii_app a b : ascii a -> utf8_valid (a ++ b) = utf8_valid b.
Proof.
  unfold ascii. induction a as [|c a IH]; intro H; [reflexivity|].
  cbn [forallb] in H. apply andb_true_iff in H as [Hc Ha].
  cbn [app utf8_valid]. rewrite Hc. apply IH, Ha.
Qed.

Lemma utf8_ascii a : ascii a -> utf8_valid a = true.
Proof. intro H. rewrite <- (app_nil_r a). rewrite utf8_ascii_app by exact H. reflexivity. Qed.

(** the shape of a valid text: one of four kinds of sequence, then a valid text *)
Lemma utf8_valid_inv l : utf8_valid l = true -> l <> [] ->
  (exists c0 r, l = c0 :: r /\ in_rng 0 127 c0 = true /\ utf8_valid r = true) \/
  (exists c0 c1 r, l = c0 :: c1 :: r /\ in_rng 0 127 c0 = false /\ lead2 c0 && utail c1 = true /\ utf8_valid r = true) \/
  (exists c0 c1 c2 r, l = c0 :: c1 :: c2 :: r /\ in_rng 0 127 c0 = false /\ lead2 c0 && utail c1 = false /\
                      lead3 c0 c1 && utail c2 = true /\ utf8_valid r = true) \/
  (exists c0 c1 c2 c3 r, l = c0 :: c1 :: c2 :: c3 :: r /\ in_rng 0 127 c0 = false /\ lead2 c0 && utail c1 = false /\
                      lead3 c0 c1 && utail c2 = false /\ lead4 c0 c1 && utail c2 && utail c3 = true /\ utf8_valid r = true).
Proof.
  intros H Hne. destruct l as [|c0 r]; [congruence|]. cbn [utf8_valid] in H.
  destruct (in_rng 0 127 c0) eqn:E0. { left. exists c0, r. repeat split; auto. }
  destruct r as [|c1 r1]; [discriminate|].
  destruct (lead2 c0 && utail c1) eqn:E1. { right; left. exists c0, c1, r1. repeat split; auto. }
  destruct r1 as [|c2 r2]; [discriminate|].
  destruct (lead3 c0 c1 && utail c2) eqn:E2. { right; right; left. exists c0, c1, c2, r2. repeat split; auto. }
  destruct r2 as [|c3 r3]; [discriminate|].
  destruct (lead4 c0 c1 && utail c2 && utail c3) eqn:E3; [|discriminate].
  right; right; right. exists c0, c1, c2, c3, r3. repeat split; auto.
Qed.

(** bytes the printer copies unchanged *)
Lemma escape_byte_high c : 93 <= c -> escape_byte c = [c].
Proof.
  intro H. unfold escape_byte, ch_quote, ch_bslash.
  destruct (Z.eqb_spec c 34); [lia|]. destruct (Z.eqb_spec c 92); [lia|].
  destruct (Z.eqb_spec c 8); [lia|]. destruct (Z.eqb_spec c 12); [lia|].
  destruct (Z.eqb_spec c 10); [lia|]. destruct (Z.eqb_spec c 13); [lia|].
  destruct (Z.eqb_spec c 9); [lia|]. destruct (Z.ltb_spec c 32); [lia|]. reflexivity.
Qed.

Lemma in_rng_spec lo hi c : in_rng lo hi c = true <-> lo <= c <= hi.
Proof. unfold in_rng. rewrite andb_true_iff, !Z.leb_le. tauto. Qed.

Lemma hex_digit_ascii v : 0 <= v < 16 -> in_rng 0 127 (hex_digit v) = true.
Proof. intro H. apply in_rng_spec. unfold hex_digit. destruct (Z.ltb_spec v 10); lia. Qed.

(** an ASCII byte is replaced by an ASCII sequence *)
Lemma escape_byte_ascii c : in_rng 0 127 c = true -> ascii (escape_byte c).
Proof.
  intro H. unfold ascii, escape_byte, ch_quote, ch_bslash.
  destruct (c =? 34); [reflexivity|]. destruct (c =? 92); [reflexivity|].
  destruct (c =? 8); [reflexivity|]. destruct (c =? 12); [reflexivity|].
  destruct (c =? 10); [reflexivity|]. destruct (c =? 13); [reflexivity|].
  destruct (c =? 9); [reflexivity|].
  destruct (c <? 32).
  - cbn [forallb]. rewrite !hex_digit_ascii by (apply Z.mod_pos_bound; lia). reflexivity.
  - cbn [forallb]. rewrite H. reflexivity.
Qed.

Lemma utail_high c : utail c = true -> 93 <= c.
Proof. unfold utail. rewrite in_rng_spec. lia. Qed.

Lemma not_ascii_lead c0 : in_rng 0 127 c0 = false -> forall c1 b,
  (lead2 c0 && b = true \/ lead3 c0 c1 && b = true \/ lead4 c0 c1 && b = true) -> 93 <= c0.
Proof.
  intros _ c1 b H. unfold lead2, lead3, lead4, in_rng in H.
  destruct (Z.leb_spec 93 c0) as [|Hlt]; [assumption|exfalso].
  destruct (Z.leb_spec 194 c0); [lia|]. destruct (Z.eqb_spec c0 224); [lia|].
  destruct (Z.leb_spec 225 c0); [lia|]. destruct (Z.eqb_spec c0 237); [lia|].
  destruct (Z.leb_spec 238 c0); [lia|]. destruct (Z.eqb_spec c0 240); [lia|].
  destruct (Z.leb_spec 241 c0); [lia|]. destruct (Z.eqb_spec c0 244); [lia|].
  cbn in H. intuition discriminate.
Qed.

(** escaping preserves validity *)
Lemma escape_body_utf8 s : utf8_valid s = true -> utf8_valid (escape_body s) = true.
Proof.
  remember (length s) as n eqn:Hn. revert s Hn.
  induction n as [n IH] using lt_wf_ind. intros s Hn Hv.
  destruct s as [|x s']; [reflexivity|].
  destruct (utf8_valid_inv (x :: s') Hv ltac:(discriminate)) as
    [(c0 & r & E & A0 & Vr) | [(c0 & c1 & r & E & A0 & L2 & Vr) |
    [(c0 & c1 & c2 & r & E & A0 & L2 & L3 & Vr) | (c0 & c1 & c2 & c3 & r & E & A0 & L2 & L3 & L4 & Vr)]]];
    rewrite E in *; clear E.
  - unfold escape_body. cbn [flat_map]. rewrite utf8_ascii_app by (apply escape_byte_ascii, A0).
    apply (IH (length r)); [cbn [length] in Hn; lia|reflexivity|exact Vr].
  - pose proof (not_ascii_lead c0 A0 c1 _ (or_introl L2)) as H0.
    apply andb_true_iff in L2 as [L2a L2b]. pose proof (utail_high _ L2b) as H1.
    unfold escape_body. cbn [flat_map]. rewrite (escape_byte_high c0 H0), (escape_byte_high c1 H1).
    cbn [app utf8_valid]. rewrite A0, L2a, L2b. cbn [andb].
    apply (IH (length r)); [cbn [length] in Hn; lia|reflexivity|exact Vr].
  - pose proof (not_ascii_lead c0 A0 c1 _ (or_intror (or_introl L3))) as H0.
    pose proof L3 as L3'. apply andb_true_iff in L3' as [L3a L3b]. pose proof (utail_high _ L3b) as H2.
    assert (H1 : 93 <= c1).
    { unfold lead3, utail in L3a. repeat rewrite orb_true_iff in L3a. repeat rewrite andb_true_iff in L3a.
      repeat rewrite in_rng_spec in L3a. lia. }
    unfold escape_body. cbn [flat_map].
    rewrite (escape_byte_high c0 H0), (escape_byte_high c1 H1), (escape_byte_high c2 H2).
    cbn [app utf8_valid]. rewrite A0, L2, L3.
    apply (IH (length r)); [cbn [length] in Hn; lia|reflexivity|exact Vr].
  - assert (L4' : lead4 c0 c1 && (utail c2 && utail c3) = true) by (rewrite andb_assoc; exact L4).
    pose proof (not_ascii_lead c0 A0 c1 _ (or_intror (or_intror L4'))) as H0.
    pose proof L4 as L4''. apply andb_true_iff in L4'' as [L4ab L4c]. apply andb_true_iff in L4ab as [L4a L4b].
    pose proof (utail_high _ L4b) as H2. pose proof (utail_high _ L4c) as H3.
    assert (H1 : 93 <= c1).
    { unfold lead4, utail in L4a. repeat rewrite orb_true_iff in L4a. repeat rewrite andb_true_iff in L4a.
      repeat rewrite in_rng_spec in L4a. lia. }
    unfold escape_body. cbn [flat_map].
    rewrite (escape_byte_high c0 H0), (escape_byte_high c1 H1), (escape_byte_high c2 H2), (escape_byte_high c3 H3).
    cbn [app utf8_valid]. rewrite A0, L2, L3, L4.
    apply (IH (length r)); [cbn [length] in Hn; lia|reflexivity|exact Vr].
Qed.

(** concatenation of valid texts *)
Lemma utf8_app a b : utf8_valid a = true -> utf8_valid b = true -> utf8_valid (a ++ b) = true.
Proof.
  remember (length a) as n eqn:Hn. revert a Hn.
  induction n as [n IH] using lt_wf_ind. intros a Hn Va Vb.
  destruct a as [|x a']; [exact Vb|].
  destruct (utf8_valid_inv (x :: a') Va ltac:(discriminate)) as
    [(c0 & r & E & A0 & Vr) | [(c0 & c1 & r & E & A0 & L2 & Vr) |
    [(c0 & c1 & c2 & r & E & A0 & L2 & L3 & Vr) | (c0 & c1 & c2 & c3 & r & E & A0 & L2 & L3 & L4 & Vr)]]];
    rewrite E in *; clear E; cbn [app utf8_valid].
  - rewrite A0. apply (IH (length r)); [cbn [length] in Hn; lia|reflexivity|exact Vr|exact Vb].
  - rewrite A0, L2. apply (IH (length r)); [cbn [length] in Hn; lia|reflexivity|exact Vr|exact Vb].
  - rewrite A0, L2, L3. apply (IH (length r)); [cbn [length] in Hn; lia|reflexivity|exact Vr|exact Vb].
  - rewrite A0, L2, L3, L4. apply (IH (length r)); [cbn [length] in Hn; lia|reflexivity|exact Vr|exact Vb].
Qed.

Lemma render_string_utf8 s : utf8_valid (str_bytes s) = true -> utf8_valid (render_string s) = true.
Proof.
  intro H. rewrite render_string_eq.
  change (34 :: escape_body (str_bytes s) ++ [34]) with ([34] ++ escape_body (str_bytes s) ++ [34]).
  apply utf8_app; [reflexivity|]. apply utf8_app; [apply escape_body_utf8, H|reflexivity].
Qed.

Lemma tabs_utf8 d : utf8_valid (tabs d) = true.
Proof. apply utf8_ascii. unfold ascii, tabs. induction (Z.to_nat d) as [|k IH]; [reflexivity|]. cbn [repeat forallb]. rewrite IH. reflexivity. Qed.

Lemma if_utf8 (b : bool) l : utf8_valid l = true -> utf8_valid (if b then l else []) = true.
Proof. destruct b; auto. Qed.

Lemma join_utf8 sep l : utf8_valid sep = true -> Forall (fun t => utf8_valid t = true) l -> utf8_valid (join sep l) = true.
Proof.
  intros Hs HF. induction HF as [|t l Ht HF IH]; [reflexivity|].
  destruct l as [|t' l']; [exact Ht|]. rewrite join_cons2.
  apply utf8_app; [exact Ht|]. apply utf8_app; [exact Hs|exact IH].
Qed.

Lemma members_utf8 fmt dp keys l :
  Forall (fun k => utf8_valid (str_bytes k) = true) keys -> Forall (fun t => utf8_valid t = true) l ->
  utf8_valid (members_text fmt dp (combine keys l)) = true.
Proof.
  intros HK. revert l. induction HK as [|k keys Hk HK IH]; intros l HL; [reflexivity|].
  destruct HL as [|t l Ht HL]; [reflexivity|].
  cbn [combine members_text]. apply utf8_app; [|apply IH, HL].
  unfold member_text.
  apply utf8_app; [apply if_utf8, tabs_utf8|].
  apply utf8_app; [apply render_string_utf8, Hk|].
  apply utf8_app; [reflexivity|].
  apply utf8_app; [apply if_utf8; reflexivity|].
  apply utf8_app; [exact Ht|].
  apply utf8_app; [destruct (match combine keys l with [] => true | _ => false end); reflexivity|].
  apply if_utf8; reflexivity.
Qed.

Lemma number_bytes_ascii t : forallb number_byte_g t = true -> ascii t.
Proof.
  unfold ascii. induction t as [|c t IH]; [reflexivity|]. cbn [forallb]. intro H.
  apply andb_true_iff in H as [Hc Ht]. rewrite (IH Ht), andb_true_r.
  apply in_rng_spec. unfold number_byte_g, digit in Hc.
  repeat rewrite orb_true_iff in Hc. rewrite andb_true_iff in Hc. rewrite !Z.leb_le, !Z.eqb_eq in Hc. lia.
Qed.

(** every string and member name the printer reaches is valid UTF-8 *)
Fixpoint strings_utf8 (n : node) : bool :=
  match n with
  | Node ty vs vi vd key ch =>
    let t := tymask ty in
    (if t =? c_cJSON_String then utf8_valid (str_bytes vs) else true)
    && (if t =? c_cJSON_Object then forallb (fun c => utf8_valid (str_bytes (n_key c))) ch else true)
    && (if is_container t then forallb strings_utf8 ch else true)
  end.

Section Utf8.
  Variable fmt_d : Z -> bytes.
  Variable fmt_g15 fmt_g17 : dbl -> bytes.
  Variable sscanf_lg : bytes -> option dbl.
  Hypothesis L : LibcStrictSpec fmt_d fmt_g15 fmt_g17.
  Notation number_text := (number_text fmt_d fmt_g15 fmt_g17 sscanf_lg).
  Notation render := (render fmt_d fmt_g15 fmt_g17 sscanf_lg).

  Lemma children_utf8 ch fmt depth l :
    Forall (fun c => printable c = true -> strings_utf8 c = true -> forall fmt depth txt,
                     render fmt depth c = Some txt -> utf8_valid txt = true) ch ->
    forallb printable ch = true -> forallb strings_utf8 ch = true ->
    opt_all (map (render fmt depth) ch) = Some l -> Forall (fun t => utf8_valid t = true) l.
  Proof.
    intro HF. revert l. induction HF as [|c ch Hc HF IH]; intros l Hp Hu Hl.
    - cbn in Hl. injection Hl as <-. constructor.
    - cbn [forallb] in Hp, Hu. apply andb_true_iff in Hp as [Hp1 Hp2]. apply andb_true_iff in Hu as [Hu1 Hu2].
      cbn [map opt_all] in Hl. destruct (render fmt depth c) as [t|] eqn:R; [|discriminate].
      destruct (opt_all (map (render fmt depth) ch)) as [l'|] eqn:R'; [|discriminate].
      injection Hl as <-. constructor; [exact (Hc Hp1 Hu1 fmt depth t R)|exact (IH l' Hp2 Hu2 eq_refl)].
  Qed.

  (** the printed text of a printable tree whose strings and member names are valid UTF-8 is valid UTF-8 *)
  Theorem render_utf8 : forall n, printable n = true -> strings_utf8 n = true ->
    forall fmt depth txt, render fmt depth n = Some txt -> utf8_valid txt = true.
  Proof.
    induction n as [ty vs vi vd key ch IH] using node_ind'.
    intros Hp Hu fmt depth txt. rewrite render_eq. rewrite printable_eq in Hp.
    cbn [strings_utf8] in Hu. cbv zeta in *. set (t := tymask ty) in *.
    apply andb_true_iff in Hp as [Hp H5]. apply andb_true_iff in Hp as [Hp H4].
    apply andb_true_iff in Hp as [Hp H3]. apply andb_true_iff in Hp as [H1 H2].
    apply andb_true_iff in Hu as [Hu U3]. apply andb_true_iff in Hu as [U1 U2].
    destruct (t =? c_cJSON_NULL) eqn:E1. { intros [= <-]. reflexivity. }
    destruct (t =? c_cJSON_False) eqn:E2. { intros [= <-]. reflexivity. }
    destruct (t =? c_cJSON_True) eqn:E3. { intros [= <-]. reflexivity. }
    destruct (t =? c_cJSON_Number) eqn:E4.
    { destruct (is_nan vd || is_inf vd) eqn:Ef.
      - rewrite (number_text_nonfinite fmt_d fmt_g15 fmt_g17 sscanf_lg _ _ Ef).
        destruct (_ <? _); [discriminate|]. intros [= <-]. reflexivity.
      - apply andb_true_iff in H2 as [H2 H2v].
        destruct (number_text_finite fmt_d fmt_g15 fmt_g17 sscanf_lg L vi vd H2 H2v Ef) as [Hr _].
        destruct (_ <? _); [discriminate|]. intros [= <-].
        apply utf8_ascii, number_bytes_ascii, rfc_number_alphabet, Hr. }
    destruct (t =? c_cJSON_Raw) eqn:E5.
    { exfalso. apply Z.eqb_eq in E5. unfold ty_ok in H1. rewrite E5 in H1. discriminate H1. }
    destruct (t =? c_cJSON_String) eqn:E6. { intros [= <-]. apply render_string_utf8, U1. }
    destruct (t =? c_cJSON_Array) eqn:E7.
    { unfold is_container in H5, U3. rewrite E7 in H5, U3. cbn [orb] in H5, U3.
      destruct (opt_all (map (render fmt (depth + 1)) ch)) as [l|] eqn:R; [|discriminate].
      intros [= <-]. pose proof (children_utf8 ch fmt (depth + 1) l IH H5 U3 R) as HF.
      change (utf8_valid ([ch_lbrack] ++ (join (if fmt then [ch_comma; ch_space] else [ch_comma]) l ++ [ch_rbrack])) = true).
      rewrite utf8_ascii_app by reflexivity. apply utf8_app; [|reflexivity].
      apply join_utf8; [destruct fmt; reflexivity|exact HF]. }
    destruct (t =? c_cJSON_Object) eqn:E8.
    { unfold is_container in H5, U3. rewrite E8 in H5, U3. rewrite orb_true_r in H5, U3.
      destruct (opt_all (map (render fmt (depth + 1)) ch)) as [l|] eqn:R; [|discriminate].
      intros [= <-]. pose proof (children_utf8 ch fmt (depth + 1) l IH H5 U3 R) as HF.
      change (utf8_valid ([ch_lbrace] ++ ((if fmt then [ch_nl] else [])
                ++ (members_text fmt (depth + 1) (combine (map n_key ch) l)
                ++ ((if fmt then tabs depth else []) ++ [ch_rbrace])))) = true).
      rewrite utf8_ascii_app by reflexivity. apply utf8_app; [apply if_utf8; reflexivity|].
      apply utf8_app; [|apply utf8_app; [apply if_utf8, tabs_utf8|reflexivity]].
      apply members_utf8; [|exact HF].
      rewrite Forall_map. apply Forall_forall. intros c Hc. rewrite forallb_forall in U2. apply U2, Hc. }
    discriminate.
  Qed.
End Utf8.

(** TESTS of the definition against RFC 3629: accepted / rejected sequences *)
Example utf8_valid_accepts :
  forallb utf8_valid [ []; [65]; [0; 127]; [195; 169]; [226; 130; 172]; [240; 144; 141; 136]; [244; 143; 191; 191];
                       [237; 159; 191]; [238; 128; 128]; [224; 160; 128]; [65; 195; 169; 66; 226; 130; 172; 67] ] = true.
Proof. vm_compute. reflexivity. Qed.
Example utf8_valid_rejects :
  forallb (fun l => negb (utf8_valid l))
    [ [128]; [191; 65]; [192; 128]; [193; 191]; [224; 159; 191]; [237; 160; 128]; [240; 143; 191; 191];
      [244; 144; 128; 128]; [245; 128; 128; 128]; [255]; [226; 130]; [195]; [195; 40]; [226; 40; 161]; [-1]; [256] ] = true.
Proof. vm_compute. reflexivity. Qed.
