(** CompareHeapDefs.v — HEAP-LEVEL transliteration of [cJSON_Compare] of cJSON.c on the memory model of
    Heap.v (property C12 "at heap level"; CompareDefs.v is the VALUE-level model of the same C function, and
    CompareHeapProofs.v / CompareHeapForest.v prove that the function below is read-only and refines it).
    No proofs here.

    The C text, statement by statement:

        if ((a == NULL) || (b == NULL) || ((a->type & 0xFF) != (b->type & 0xFF))) return false;
        switch (a->type & 0xFF) { case cJSON_False: … case cJSON_Object: break; default: return false; }
        if (a == b) return true;                                      /* identical objects are equal */
        switch (a->type & 0xFF) {
          case cJSON_False: case cJSON_True: case cJSON_NULL: return true;
          case cJSON_Number: if (compare_double(a->valuedouble, b->valuedouble)) return true; return false;
          case cJSON_String: case cJSON_Raw:
            if ((a->valuestring == NULL) || (b->valuestring == NULL)) return false;
            if (strcmp(a->valuestring, b->valuestring) == 0) return true;
            return false;
          case cJSON_Array: {
            cJSON *a_element = a->child; cJSON *b_element = b->child;
            for (; (a_element != NULL) && (b_element != NULL);) {
              if (!cJSON_Compare(a_element, b_element, case_sensitive)) return false;
              a_element = a_element->next; b_element = b_element->next; }
            if (a_element != b_element) return false;                 /* one of the arrays is longer */
            return true; }
          case cJSON_Object: {
            cJSON_ArrayForEach(a_element, a) {
              b_element = get_object_item(b, a_element->string, case_sensitive);
              if (b_element == NULL) return false;
              if (!cJSON_Compare(a_element, b_element, case_sensitive)) return false; }
            cJSON_ArrayForEach(b_element, b) {
              a_element = get_object_item(a, b_element->string, case_sensitive);
              if (a_element == NULL) return false;
              if (!cJSON_Compare(b_element, a_element, case_sensitive)) return false; }
            return true; }
          default: return false; }

    [cJSON_ArrayForEach(element, array)] is [for (element = (array != NULL) ? (array)->child : NULL;
    element != NULL; element = element->next)]; [array] is non-NULL at both uses.

    [compare_double] of cJSON.c (fabs, the DBL_MAX test, the relative DBL_EPSILON tolerance) is the pure
    function [Dbl.compare_double] on IEEE doubles: it touches no memory, so the value-level and the
    heap-level model share it.  [get_object_item] is [CoreDefs.get_object_item] (the heap-level
    transliteration of the function of cJSON.c, including its NULL tests and both comparison loops);
    [strcmp] is one checked read of each C string ([GenMergeHeapDefs.c_strcmp]).

    The C function has NO recursion limit: it recurses as deep as the shallower operand.  The recursion runs
    on [dfuel] (one unit per nesting level, [NoFuel] when it runs out), every sibling loop on [lfuel]; the
    entry point takes both from the heap it is called in ([heap_fuel], as every entry point of CoreDefs.v:
    a chain / a branch of distinct live blocks is shorter than the number of identities handed out). *)
From stdpp Require Import gmap.
From CJ Require Import Base Dbl Heap CoreDefs GenMergeHeapDefs.
From CJ Require CompareDefs.
From CJ.gen Require Import Constants.
Local Open Scope Z_scope.

(** the first switch: [case cJSON_False … cJSON_Object: break; default: return false;] — the set of
    case labels is [CompareDefs.valid_type] (a predicate on the masked type word) *)
Definition type_case_valid (k : Z) : bool := CompareDefs.valid_type k.

Fixpoint cJSON_Compare_fuel (dfuel lfuel : nat) (a b : ptr) (case_sensitive : bool) {struct dfuel} : M bool :=
  match dfuel with
  | O => fail NoFuel
  | S df =>
      if is_null a || is_null b then ret false else
      ta <~ get_type a ;;
      tb <~ get_type b ;;
      if negb (Z.land ta 255 =? Z.land tb 255) then ret false else
      sw1 <~ get_type a ;;                                              (* check if type is valid *)
      if negb (type_case_valid (Z.land sw1 255)) then ret false else
      if ptr_eqb a b then ret true else                                 (* identical objects are equal *)
      sw2 <~ get_type a ;;                                              (* switch (a->type & 0xFF) *)
      let k := Z.land sw2 255 in
      if (k =? c_cJSON_False) || (k =? c_cJSON_True) || (k =? c_cJSON_NULL) then ret true
      else if k =? c_cJSON_Number then
        da <~ get_vdbl a ;;
        db <~ get_vdbl b ;;
        if compare_double da db then ret true else ret false
      else if (k =? c_cJSON_String) || (k =? c_cJSON_Raw) then
        va <~ get_vstr a ;;
        if is_null va then ret false else
        vb <~ get_vstr b ;;
        if is_null vb then ret false else
        sa <~ get_vstr a ;;
        sb <~ get_vstr b ;;
        c <~ c_strcmp sa sb ;;
        if c =? 0 then ret true else ret false
      else if k =? c_cJSON_Array then
        a_element <~ get_child a ;;
        b_element <~ get_child b ;;
        let fix loop (lf : nat) (a_element b_element : ptr) {struct lf} : M bool :=
          match lf with
          | O => fail NoFuel
          | S lf' =>
              if negb (is_null a_element) && negb (is_null b_element) then
                r <~ cJSON_Compare_fuel df lfuel a_element b_element case_sensitive ;;
                if negb r then ret false else
                a' <~ get_next a_element ;;
                b' <~ get_next b_element ;;
                loop lf' a' b'
              else
                (* one of the arrays is longer than the other *)
                if negb (ptr_eqb a_element b_element) then ret false else ret true
          end in
        loop lfuel a_element b_element
      else if k =? c_cJSON_Object then
        (* cJSON_ArrayForEach(a_element, a) *)
        a_element <~ get_child a ;;
        let fix loop1 (lf : nat) (a_element : ptr) {struct lf} : M bool :=
          match lf with
          | O => fail NoFuel
          | S lf' =>
              if is_null a_element then ret true else                   (* loop left: fall through *)
              nm <~ get_key a_element ;;
              b_element <~ get_object_item b nm case_sensitive ;;
              if is_null b_element then ret false else
              r <~ cJSON_Compare_fuel df lfuel a_element b_element case_sensitive ;;
              if negb r then ret false else
              a' <~ get_next a_element ;;
              loop1 lf' a'
          end in
        ok <~ loop1 lfuel a_element ;;
        if negb ok then ret false else
        (* cJSON_ArrayForEach(b_element, b) *)
        b_element <~ get_child b ;;
        let fix loop2 (lf : nat) (b_element : ptr) {struct lf} : M bool :=
          match lf with
          | O => fail NoFuel
          | S lf' =>
              if is_null b_element then ret true else
              nm <~ get_key b_element ;;
              a_element <~ get_object_item a nm case_sensitive ;;
              if is_null a_element then ret false else
              r <~ cJSON_Compare_fuel df lfuel b_element a_element case_sensitive ;;
              if negb r then ret false else
              b' <~ get_next b_element ;;
              loop2 lf' b'
          end in
        loop2 lfuel b_element
      else ret false
  end.

(** CJSON_PUBLIC(cJSON_bool) cJSON_Compare(const cJSON * const a, const cJSON * const b, const cJSON_bool case_sensitive) *)
Definition cJSON_Compare (a b : ptr) (case_sensitive : bool) : M bool :=
  fuel <~ heap_fuel ;;
  cJSON_Compare_fuel fuel fuel a b case_sensitive.

(** * the loops as separate functions (CompareHeapProofs.v shows by [reflexivity] that the function above is
      built from them) *)
Definition cmp_arr_loop (rec : ptr -> ptr -> M bool) : nat -> ptr -> ptr -> M bool :=
  fix loop (lf : nat) (a_element b_element : ptr) {struct lf} : M bool :=
    match lf with
    | O => fail NoFuel
    | S lf' =>
        if negb (is_null a_element) && negb (is_null b_element) then
          r <~ rec a_element b_element ;;
          if negb r then ret false else
          a' <~ get_next a_element ;;
          b' <~ get_next b_element ;;
          loop lf' a' b'
        else
          if negb (ptr_eqb a_element b_element) then ret false else ret true
    end.

(** one [cJSON_ArrayForEach] of the object case: [other] is the operand the members are looked up in *)
Definition cmp_obj_loop (rec : ptr -> ptr -> M bool) (other : ptr) (case_sensitive : bool) : nat -> ptr -> M bool :=
  fix loop (lf : nat) (element : ptr) {struct lf} : M bool :=
    match lf with
    | O => fail NoFuel
    | S lf' =>
        if is_null element then ret true else
        nm <~ get_key element ;;
        found <~ get_object_item other nm case_sensitive ;;
        if is_null found then ret false else
        r <~ rec element found ;;
        if negb r then ret false else
        nx <~ get_next element ;;
        loop lf' nx
    end.

(** * views: what the comparison is allowed to meet *)

(** a read-only computation: whatever it returns, the heap afterwards is the heap before *)
Definition ReadOnly {A} (m : M A) : Prop := forall h a h', m h = Ret (a, h') -> h' = h.
