(** Dbl.v — C [double] as IEEE 754 binary64: Coq's SpecFloat at precision 53, emax 1024.
    Bit-level conversions for the correspondence check, the comparisons and conversions
    cJSON performs on doubles.  No proofs about cJSON here. *)
From Coq Require Import ZArith Bool Floats.SpecFloat.
From CJ.gen Require Import Constants.
Local Open Scope Z_scope.

Definition prec : Z := 53.
Definition emax : Z := 1024.
Definition dbl := spec_float.

Definition sf_of_bits (b : Z) : dbl :=
  let s := ((b / 2 ^ 63) mod 2 =? 1) in
  let e := (b / 2 ^ 52) mod 2 ^ 11 in
  let m := b mod 2 ^ 52 in
  if e =? 0 then (if m =? 0 then S754_zero s else S754_finite s (Z.to_pos m) (-1074))
  else if e =? 2047 then (if m =? 0 then S754_infinity s else S754_nan)
  else S754_finite s (Z.to_pos (m + 2 ^ 52)) (e - 1075).

(* canonical representation: what the arithmetic operations return *)
Definition sf_norm (f : dbl) : dbl :=
  match f with
  | S754_finite s m e => binary_normalize prec emax (cond_Zopp s (Zpos m)) e s
  | _ => f
  end.

Definition bits_of_sf (f : dbl) : Z :=
  match sf_norm f with
  | S754_zero s => if s then 2 ^ 63 else 0
  | S754_infinity s => (if s then 2 ^ 63 else 0) + 2047 * 2 ^ 52
  | S754_nan => 2047 * 2 ^ 52 + 2 ^ 51
  | S754_finite s m e =>
      (if s then 2 ^ 63 else 0) +
      (if Zpos m <? 2 ^ 52 then Zpos m else (e + 1075) * 2 ^ 52 + (Zpos m - 2 ^ 52))
  end.

Definition is_nan (d : dbl) : bool := match d with S754_nan => true | _ => false end.
Definition is_inf (d : dbl) : bool := match d with S754_infinity _ => true | _ => false end.
Definition is_finite (d : dbl) : bool := match d with S754_zero _ | S754_finite _ _ _ => true | _ => false end.

Definition DBL_MAX : dbl := S754_finite false (2 ^ 53 - 1) 971.
Definition DBL_EPSILON : dbl := S754_finite false (2 ^ 52) (-104).
Definition dzero : dbl := S754_zero false.

Definition dabs := SFabs.
Definition dsub := SFsub prec emax.
Definition dmul := SFmul prec emax.
Definition ddiv := SFdiv prec emax.
Definition dlt := SFltb.       (* a < b,  false when unordered *)
Definition dle := SFleb.       (* a <= b, false when unordered *)
Definition deq := SFeqb.       (* a == b, false when unordered, +0 == -0 *)

(* compare_double of cJSON.c and cJSON_Utils.c (identical code) *)
Definition compare_double (a b : dbl) : bool :=
  let maxVal := if dlt (dabs b) (dabs a) then dabs a else dabs b in
  if dlt DBL_MAX maxVal then deq a b
  else dle (dabs (dsub a b)) (dmul maxVal DBL_EPSILON).

(* the same function as the pinned tree had it (finding F3) *)
Definition compare_double_pinned (a b : dbl) : bool :=
  let maxVal := if dlt (dabs b) (dabs a) then dabs a else dabs b in
  dle (dabs (dsub a b)) (dmul maxVal DBL_EPSILON).

(* (double) z for an int z: exact *)
Definition dbl_of_int (z : Z) : dbl := binary_normalize prec emax z 0 false.

(* (int) d for a finite d: truncation toward zero (the caller guards the range) *)
Definition trunc_dbl (d : dbl) : Z :=
  match d with
  | S754_finite s m e =>
      let a := if 0 <=? e then Zpos m * 2 ^ e else Zpos m / 2 ^ (- e) in
      if s then - a else a
  | _ => 0
  end.

(* the saturating conversion used by parse_number, cJSON_SetNumberHelper, cJSON_CreateNumber:
     if (number >= INT_MAX) INT_MAX; else if (number <= (double)INT_MIN) INT_MIN; else (int)number
   For NaN both comparisons are false and the C cast is undefined; x86-64 yields INT_MIN. *)
Definition sat_int (d : dbl) : Z :=
  if dle (dbl_of_int c_INT_MAX) d then c_INT_MAX
  else if dle d (dbl_of_int c_INT_MIN) then c_INT_MIN
  else if is_nan d then c_INT_MIN
  else trunc_dbl d.
