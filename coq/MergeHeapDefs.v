(** MergeHeapDefs.v — HEAP-LEVEL transliteration of the JSON Merge Patch application of cJSON_Utils.c:
    [merge_patch], [cJSONUtils_MergePatch], [cJSONUtils_MergePatchCaseSensitive] on the memory model of Heap.v,
    calling the heap-level functions of CoreDefs.v that the C code calls (cJSON_IsObject, cJSON_Delete,
    cJSON_Duplicate(patch, 1), cJSON_CreateObject, cJSON_IsNull, cJSON_DeleteItemFromObject[CaseSensitive],
    cJSON_DetachItemFromObject[CaseSensitive], cJSON_AddItemToObject).  MergeDefs.v is the VALUE-level model of
    the same C function; MergeHeapProofs.v proves that this one refines it.

    Statement by statement as the C text:

        if (!cJSON_IsObject(patch)) { cJSON_Delete(target); return cJSON_Duplicate(patch, 1); }
        if (!cJSON_IsObject(target)) { cJSON_Delete(target); target = cJSON_CreateObject(); }
        patch_child = patch->child;
        while (patch_child != NULL) {
            if (cJSON_IsNull(patch_child)) {
                if (case_sensitive) cJSON_DeleteItemFromObjectCaseSensitive(target, patch_child->string);
                else                cJSON_DeleteItemFromObject(target, patch_child->string);
            } else {
                if (case_sensitive) replace_me = cJSON_DetachItemFromObjectCaseSensitive(target, patch_child->string);
                else                replace_me = cJSON_DetachItemFromObject(target, patch_child->string);
                replacement = merge_patch(replace_me, patch_child, case_sensitive);
                if (replacement == NULL) { cJSON_Delete(target); return NULL; }
                cJSON_AddItemToObject(target, patch_child->string, replacement);      // result IGNORED
            }
            patch_child = patch_child->next;
        }
        return target;

    The recursion runs on [dfuel] (one unit per nesting level of the patch), the sibling loop on [lfuel]; the
    public entry points take both from the heap they are called in ([heap_fuel], as every entry point of
    CoreDefs.v).  No proofs here. *)
From stdpp Require Import gmap.
From CJ Require Import Base Dbl Heap CoreDefs Forest.
From CJ.gen Require Import Constants.
Local Open Scope Z_scope.

(** cJSON_IsObject / cJSON_IsNull: [if (item == NULL) return false; return (item->type & 0xFF) == cJSON_X;] *)
Definition cJSON_IsObject (item : ptr) : M bool :=
  if is_null item then ret false else type_is item c_cJSON_Object.
Definition cJSON_IsNull (item : ptr) : M bool :=
  if is_null item then ret false else type_is item c_cJSON_NULL.

Section MergeHeap.
  Variable oracle : nat -> bool.

  Fixpoint merge_patch_fuel (dfuel lfuel : nat) (target patch : ptr) (case_sensitive : bool) {struct dfuel} : M ptr :=
    match dfuel with
    | O => fail NoFuel
    | S df =>
        po <~ cJSON_IsObject patch ;;
        if negb po then
          (* scalar value, array or NULL, just duplicate *)
          cJSON_Delete target ;;;
          cJSON_Duplicate oracle patch true
        else
        to <~ cJSON_IsObject target ;;
        target <~ (if negb to then cJSON_Delete target ;;; cJSON_CreateObject oracle else ret target) ;;
        patch_child <~ get_child patch ;;
        (* while (patch_child != NULL); [go_on = false] is the early [return NULL] *)
        let fix loop (lf : nat) (patch_child : ptr) {struct lf} : M ptr :=
          match lf with
          | O => fail NoFuel
          | S lf' =>
              if is_null patch_child then ret target else
              pn <~ cJSON_IsNull patch_child ;;
              go_on <~ (if pn then
                          (* NULL is the indicator to remove a value, see RFC7396 *)
                          (if case_sensitive then
                             k <~ get_key patch_child ;; cJSON_DeleteItemFromObjectCaseSensitive target k
                           else
                             k <~ get_key patch_child ;; cJSON_DeleteItemFromObject target k) ;;;
                          ret true
                        else
                          replace_me <~ (if case_sensitive then
                                           k <~ get_key patch_child ;; cJSON_DetachItemFromObjectCaseSensitive target k
                                         else
                                           k <~ get_key patch_child ;; cJSON_DetachItemFromObject target k) ;;
                          replacement <~ merge_patch_fuel df lfuel replace_me patch_child case_sensitive ;;
                          if is_null replacement then
                            cJSON_Delete target ;;;
                            ret false                                     (* return NULL *)
                          else
                            k2 <~ get_key patch_child ;;
                            cJSON_AddItemToObject oracle target k2 replacement ;;;   (* result ignored *)
                            ret true) ;;
              if negb go_on then ret None else
              nx <~ get_next patch_child ;;                               (* patch_child = patch_child->next *)
              loop lf' nx
          end in
        loop lfuel patch_child
    end.

  Definition merge_patch (target patch : ptr) (case_sensitive : bool) : M ptr :=
    fuel <~ heap_fuel ;;
    merge_patch_fuel fuel fuel target patch case_sensitive.

  Definition cJSONUtils_MergePatch (target patch : ptr) : M ptr := merge_patch target patch false.
  Definition cJSONUtils_MergePatchCaseSensitive (target patch : ptr) : M ptr := merge_patch target patch true.
End MergeHeap.

(** the allocator that never fails *)
Definition nofail : nat -> bool := fun _ => false.

(** number of nodes of a tree: bounds both the nesting depth and every sibling chain *)
Definition tsize (t : tree) : nat := length (nodes_t t).
