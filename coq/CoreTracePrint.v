(** CoreTracePrint.v — property C14, the reallocation part.  CoreDefs.v contains no reallocation
    at all; the only reallocating code of the library is the printer's [ensure] (and the final
    trim in [print]), modelled in PrintDefs.v, where [pb_realloc] is
    [hooks.reallocate != NULL].  Here: with [pb_realloc p = false], [ensure] is the function
    [ensure_manual] below, whose text does not mention [reallocate]; and [ensure] never changes
    the flag. *)
From CJ Require Import Base Heap PrintDefs.
From CJ.gen Require Import Constants.
Local Open Scope Z_scope.

Section NoRealloc.
  Variable oracle : nat -> bool.
  Variable junk : nat -> Z.

  (** [ensure] with the [hooks.reallocate != NULL] branch removed: allocate, memcpy, deallocate *)
  Definition ensure_manual (p : printbuffer) (needed : Z) : res (bool * printbuffer) :=
    match pb_buf p with
    | None => Ok (false, p)
    | Some buf =>
        if (0 <? pb_length p) && (pb_length p <=? pb_offset p) then Ok (false, p)
        else if c_INT_MAX <? needed then Ok (false, p)
        else
          let needed := needed + pb_offset p + 1 in
          if needed <=? pb_length p then Ok (true, p)
          else if pb_noalloc p then Ok (false, p)
          else if (c_INT_MAX / 2 <? needed) && negb (needed <=? c_INT_MAX) then Ok (false, p)
          else
            let newsize := if c_INT_MAX / 2 <? needed then c_INT_MAX else needed * 2 in
            let '(nb, p1) := allocate oracle junk p newsize in
            match nb with
            | None =>
                let p2 := deallocate p1 (Some buf) in
                Ok (false, set_buf (set_length p2 0) None)
            | Some newbuffer =>
                newbuffer' <- (if 0 <? pb_length p then memcpy0 newbuffer buf (pb_offset p + 1)
                               else Ok newbuffer) ;;
                let p2 := deallocate p1 (Some buf) in
                Ok (true, set_buf (set_length p2 newsize) (Some newbuffer'))
            end
    end.

  Lemma ensure_no_realloc p needed :
    pb_realloc p = false -> ensure oracle junk p needed = ensure_manual p needed.
  Proof. intros H. unfold ensure, ensure_manual. rewrite H. reflexivity. Qed.

  Lemma pb_realloc_allocate p n : pb_realloc (snd (allocate oracle junk p n)) = pb_realloc p.
  Proof. unfold allocate. destruct (oracle (pb_req p)); reflexivity. Qed.
  Lemma pb_realloc_reallocate p b n : pb_realloc (snd (reallocate oracle junk p b n)) = pb_realloc p.
  Proof. unfold reallocate. destruct (oracle (pb_req p)); reflexivity. Qed.

  Lemma ensure_keeps_flag p needed b p' :
    ensure oracle junk p needed = Ok (b, p') -> pb_realloc p' = pb_realloc p.
  Proof.
    unfold ensure. destruct (pb_buf p) as [buf|]; [|intros E; inversion E; reflexivity].
    destruct ((0 <? pb_length p) && (pb_length p <=? pb_offset p)); [intros E; inversion E; reflexivity|].
    destruct (c_INT_MAX <? needed); [intros E; inversion E; reflexivity|].
    cbv zeta.
    destruct (needed + pb_offset p + 1 <=? pb_length p); [intros E; inversion E; reflexivity|].
    destruct (pb_noalloc p); [intros E; inversion E; reflexivity|].
    destruct ((c_INT_MAX / 2 <? needed + pb_offset p + 1) && negb (needed + pb_offset p + 1 <=? c_INT_MAX));
      [intros E; inversion E; reflexivity|].
    set (newsize := if c_INT_MAX / 2 <? needed + pb_offset p + 1 then c_INT_MAX else (needed + pb_offset p + 1) * 2).
    destruct (pb_realloc p) eqn:Hr.
    - pose proof (pb_realloc_reallocate p buf newsize) as Hk.
      destruct (reallocate oracle junk p buf newsize) as [nb p1]. cbn in Hk.
      destruct nb as [nbuf|]; intros E; inversion E; subst; cbn; congruence.
    - pose proof (pb_realloc_allocate p newsize) as Hk.
      destruct (allocate oracle junk p newsize) as [nb p1]. cbn in Hk.
      destruct nb as [nbuf|].
      + destruct (if 0 <? pb_length p then memcpy0 nbuf buf (pb_offset p + 1) else Ok nbuf) as [nb'| |];
          cbn; intros E; inversion E; subst; cbn; congruence.
      + intros E; inversion E; subst; cbn; congruence.
  Qed.
End NoRealloc.

(** * the flag stays what it is through a whole [print_value] call *)
Section KeepsFlag.
  Variable fmt_d : Z -> bytes.
  Variable fmt_g15 fmt_g17 : Dbl.dbl -> bytes.
  Variable sscanf_lg : bytes -> option Dbl.dbl.
  Variable oracle : nat -> bool.
  Variable junk : nat -> Z.

  (** [m] returns a buffer whose flag is [f0] *)
  Definition keepsR (m : res (bool * printbuffer)) (f0 : bool) : Prop :=
    forall b p', m = Ok (b, p') -> pb_realloc p' = f0.
  Definition keepsP (m : res printbuffer) (f0 : bool) : Prop :=
    forall p', m = Ok p' -> pb_realloc p' = f0.

  Lemma keepsR_ok b p f0 : pb_realloc p = f0 -> keepsR (Ok (b, p)) f0.
  Proof. intros H b' p' E. inversion E; congruence. Qed.
  Lemma keepsR_bindR m (k : bool * printbuffer -> res (bool * printbuffer)) f0 :
    keepsR m f0 -> (forall b p, pb_realloc p = f0 -> keepsR (k (b, p)) f0) -> keepsR (bind m k) f0.
  Proof.
    intros Hm Hk b p' E. destruct m as [[b1 p1]| |]; cbn in E; try discriminate.
    eapply Hk; [|exact E]. eapply Hm. reflexivity.
  Qed.
  Lemma keepsR_bindP m (k : printbuffer -> res (bool * printbuffer)) f0 :
    keepsP m f0 -> (forall p, pb_realloc p = f0 -> keepsR (k p) f0) -> keepsR (bind m k) f0.
  Proof.
    intros Hm Hk b p' E. destruct m as [p1| |]; cbn in E; try discriminate.
    eapply Hk; [|exact E]. eapply Hm. reflexivity.
  Qed.
  Lemma keepsR_bindA {A} (m : res A) (k : A -> res (bool * printbuffer)) f0 :
    (forall a, keepsR (k a) f0) -> keepsR (bind m k) f0.
  Proof. intros Hk b p' E. destruct m as [a| |]; cbn in E; try discriminate. eapply Hk; exact E. Qed.
  Lemma keepsR_oob f0 : keepsR OOB f0.
  Proof. intros b p' E. discriminate. Qed.

  Lemma keeps_ensure p n f0 : pb_realloc p = f0 -> keepsR (ensure oracle junk p n) f0.
  Proof. intros H b p' E. apply ensure_keeps_flag in E. congruence. Qed.
  Lemma keeps_put p i l f0 : pb_realloc p = f0 -> keepsP (put p i l) f0.
  Proof.
    intros H p' E. unfold put in E. destruct (pb_buf p) as [buf|]; [|discriminate].
    destruct (wr_bytes buf (pb_offset p + i) l) as [b'| |]; cbn in E; inversion E; subst p'; cbn; exact H.
  Qed.
  Lemma keeps_update_offset p f0 : pb_realloc p = f0 -> keepsP (update_offset p) f0.
  Proof.
    intros H p' E. unfold update_offset in E. destruct (pb_buf p) as [buf|]; [|inversion E; congruence].
    destruct (strlen_at buf (pb_offset p)) as [k| |]; cbn in E; inversion E; subst p'; cbn; exact H.
  Qed.

  Ltac kf1 :=
    lazymatch goal with
    | |- keepsR (Ok (_, _)) _ => apply keepsR_ok; cbn; assumption
    | |- keepsR OOB _ => apply keepsR_oob
    | |- keepsR (bind (ensure _ _ _ _) _) _ => apply keepsR_bindR; [apply keeps_ensure; cbn; assumption|intros ? ? ?]
    | |- keepsR (bind (put _ _ _) _) _ => apply keepsR_bindP; [apply keeps_put; cbn; assumption|intros ? ?]
    | |- keepsR (bind (update_offset _) _) _ => apply keepsR_bindP; [apply keeps_update_offset; cbn; assumption|intros ? ?]
    | |- keepsR (match ?x with _ => _ end) _ => destruct x
    end.
  Ltac kf := repeat kf1.

  Lemma keeps_print_literal p n lit f0 : pb_realloc p = f0 -> keepsR (print_literal oracle junk p n lit) f0.
  Proof. intros H. unfold print_literal. kf. Qed.
  Lemma keeps_print_number vi d p f0 :
    pb_realloc p = f0 -> keepsR (print_number fmt_d fmt_g15 fmt_g17 sscanf_lg oracle junk vi d p) f0.
  Proof. intros H. unfold print_number. apply keepsR_bindA. intros txt. cbv zeta. kf. Qed.
  Lemma keeps_print_string_ptr input p f0 :
    pb_realloc p = f0 -> keepsR (print_string_ptr oracle junk input p) f0.
  Proof.
    intros H. unfold print_string_ptr. destruct input as [s0|]; cbv zeta; kf.
    apply keepsR_bindA. intros [buf' z]. kf.
  Qed.

  Section Loops.
    Variable pv : Tree.node -> printbuffer -> res (bool * printbuffer).

    Lemma keeps_print_array_elements l f0 :
      Forall (fun n => forall p, pb_realloc p = f0 -> keepsR (pv n p) f0) l ->
      forall p, pb_realloc p = f0 -> keepsR (print_array_elements oracle junk pv l p) f0.
    Proof.
      induction 1 as [|n l Hn Hl IH]; intros p H; cbn [print_array_elements].
      - kf.
      - apply keepsR_bindR; [apply Hn; exact H|]. intros ok p1 H1.
        repeat first [progress kf | progress cbv zeta]; apply IH; cbn; assumption.
    Qed.
    Lemma keeps_print_array l f0 :
      Forall (fun n => forall p, pb_realloc p = f0 -> keepsR (pv n p) f0) l ->
      forall p, pb_realloc p = f0 -> keepsR (print_array oracle junk pv l p) f0.
    Proof.
      intros Hl p H. unfold print_array. kf. cbv zeta.
      apply keepsR_bindR; [apply keeps_print_array_elements; [exact Hl|cbn; assumption]|].
      intros ok p4 H4. kf.
    Qed.
    Lemma keeps_print_object_members l f0 :
      Forall (fun n => forall p, pb_realloc p = f0 -> keepsR (pv n p) f0) l ->
      forall p, pb_realloc p = f0 -> keepsR (print_object_members oracle junk pv l p) f0.
    Proof.
      induction 1 as [|n l Hn Hl IH]; intros p H; cbn [print_object_members].
      - kf.
      - apply keepsR_bindR.
        + kf.
        + intros ok p3 H3. kf.
          apply keepsR_bindR; [apply keeps_print_string_ptr; exact H3|]. intros ok4 p4 H4.
          repeat first [progress kf | progress cbv zeta].
          apply keepsR_bindR; [apply Hn; cbn; assumption|]. intros ok9 p9 H9.
          repeat first [progress kf | progress cbv zeta]; apply IH; cbn; assumption.
    Qed.
    Lemma keeps_print_object l f0 :
      Forall (fun n => forall p, pb_realloc p = f0 -> keepsR (pv n p) f0) l ->
      forall p, pb_realloc p = f0 -> keepsR (print_object oracle junk pv l p) f0.
    Proof.
      intros Hl p H. unfold print_object. cbv zeta. kf.
      apply keepsR_bindR; [apply keeps_print_object_members; [exact Hl|cbn; assumption]|].
      intros ok p4 H4. kf.
    Qed.
  End Loops.

  Lemma keeps_print_value n : forall f0 p, pb_realloc p = f0 ->
    keepsR (print_value fmt_d fmt_g15 fmt_g17 sscanf_lg oracle junk n p) f0.
  Proof.
    induction n as [ty vs vi vd key ch IH] using Tree.node_ind'; intros f0 p H.
    cbn [print_value]. cbv zeta.
    destruct (Tree.tymask ty =? c_cJSON_NULL); [apply keeps_print_literal; exact H|].
    destruct (Tree.tymask ty =? c_cJSON_False); [apply keeps_print_literal; exact H|].
    destruct (Tree.tymask ty =? c_cJSON_True); [apply keeps_print_literal; exact H|].
    destruct (Tree.tymask ty =? c_cJSON_Number); [apply keeps_print_number; exact H|].
    destruct (Tree.tymask ty =? c_cJSON_Raw); [destruct vs as [s0|]; kf|].
    destruct (Tree.tymask ty =? c_cJSON_String); [apply keeps_print_string_ptr; exact H|].
    assert (Hch : Forall (fun n => forall p, pb_realloc p = f0 ->
                    keepsR (print_value fmt_d fmt_g15 fmt_g17 sscanf_lg oracle junk n p) f0) ch).
    { eapply Forall_impl; [|exact IH]. intros n Hn q Hq. apply Hn. exact Hq. }
    destruct (Tree.tymask ty =? c_cJSON_Array); [apply keeps_print_array; assumption|].
    destruct (Tree.tymask ty =? c_cJSON_Object); [apply keeps_print_object; assumption|].
    kf.
  Qed.

  (** the statement: a [print_value] call that returns leaves the flag as it found it, so with
      the flag off every [ensure] inside it is [ensure_manual] *)
  Lemma print_value_keeps_flag n p b p' :
    print_value fmt_d fmt_g15 fmt_g17 sscanf_lg oracle junk n p = Ok (b, p') -> pb_realloc p' = pb_realloc p.
  Proof. intros E. eapply keeps_print_value; [reflexivity|exact E]. Qed.

  (** [print] (the body of cJSON_Print / cJSON_PrintUnformatted) with [hooks->reallocate == NULL]:
      the buffer starts with the flag off (so, by the lemmas above, it stays off and every
      [ensure] is [ensure_manual]) and the final trim is allocate + memcpy + deallocate; the
      text below does not mention [reallocate] *)
  Definition print_manual (item : Tree.node) (format : bool) : res print_result :=
    let p0 := mkpb None 0 0 0 false format false 0 0 in
    let '(b, p1) := allocate oracle junk p0 c_DEFAULT_BUFFER_SIZE in
    let p2 := set_length (set_buf p1 b) c_DEFAULT_BUFFER_SIZE in
    match b with
    | None => Ok (result_of None p2)
    | Some _ =>
        '(ok, p3) <- print_value fmt_d fmt_g15 fmt_g17 sscanf_lg oracle junk item p2 ;;
        if negb ok then Ok (result_of None (deallocate p3 (pb_buf p3)))
        else
          p4 <- update_offset p3 ;;
          match pb_buf p4 with
          | None => OOB
          | Some buf =>
              let '(printed, p5) := allocate oracle junk p4 (pb_offset p4 + 1) in
              match printed with
              | None => Ok (result_of None (deallocate p5 (Some buf)))
              | Some pr =>
                  pr1 <- memcpy0 pr buf (Z.min (pb_length p5) (pb_offset p5 + 1)) ;;
                  pr2 <- wrz pr1 (pb_offset p5) 0 ;;
                  Ok (result_of (Some pr2) (deallocate p5 (Some buf)))
              end
          end
    end.
  Lemma print_no_realloc item format :
    print fmt_d fmt_g15 fmt_g17 sscanf_lg oracle junk item format false = print_manual item format.
  Proof. reflexivity. Qed.
End KeepsFlag.

(** [pb_realloc] is [hooks_realloc_available]: false as soon as one member is custom *)
Lemma realloc_unavailable hk :
  hk_malloc_custom hk = true \/ hk_free_custom hk = true -> hooks_realloc_available hk = false.
Proof.
  unfold hooks_realloc_available. intros [H|H]; rewrite H; cbn; [reflexivity|apply Bool.andb_false_r].
Qed.
