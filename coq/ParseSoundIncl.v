(** ParseSoundIncl.v — C03: RFC 8259 is contained in the lenient dialect (number literals of at
    most 63 bytes, under the contract [strtod_rfc] that the C library converts every RFC number
    literal completely), hence the derivations the two dialects share are exactly the RFC ones:
    the dialects differ only in the three leaf predicates.  *)
From CJ Require Import Base Dbl Tree ParseDefs ParseSpec Grammar ParseSoundGrammar.
Local Open Scope Z_scope.

(** the contract on the C library: strtod converts every RFC 8259 number literal of at most 63
    bytes completely (the same statement as [ParseComplete.strtod_rfc], which
    [ParseComplete.strtod_ref_rfc] proves for the reference strtod) *)
Definition strtod_rfc (strtod : bytes -> option (dbl * nat)) : Prop :=
  forall t, rfc_number t = true -> (length t <= 63)%nat -> exists d, strtod t = Some (d, length t).

(** * RFC number literals start with '-' or a digit and consist of number bytes *)

(* the literal patterns of [rfc_number] / [rfc_frac] as tests *)
Definition rfc_pos (t1 : bytes) : bool :=
  match t1 with
  | [] => false
  | d :: r => if d =? 48 then rfc_frac r else digit d && rfc_frac (skip_digits r)
  end.

Lemma rfc_number_cons c r : rfc_number (c :: r) = if c =? 45 then rfc_pos r else rfc_pos (c :: r).
Proof.
  assert (Hpos : forall t1, match t1 with 48 :: r => rfc_frac r | d :: r => digit d && rfc_frac (skip_digits r) | [] => false end = rfc_pos t1).
  { intros [|d r']; [reflexivity|]. unfold rfc_pos.
    destruct d as [|p|p]; try reflexivity. do 6 (destruct p as [p|p|]; try reflexivity). }
  unfold rfc_number. rewrite Hpos.
  destruct c as [|p|p]; try reflexivity. do 6 (destruct p as [p|p|]; try reflexivity).
Qed.

Lemma rfc_frac_eq l :
  rfc_frac l = match l with
               | c :: d :: r => if c =? 46 then digit d && rfc_exp (skip_digits r) else rfc_exp l
               | _ => rfc_exp l
               end.
Proof.
  destruct l as [|c [|d r]]; try reflexivity.
  - unfold rfc_frac. destruct c as [|p|p]; try reflexivity. do 6 (destruct p as [p|p|]; try reflexivity).
  - unfold rfc_frac. destruct c as [|p|p]; try reflexivity. do 6 (destruct p as [p|p|]; try reflexivity).
Qed.

Lemma digit_nb c : digit c = true -> number_byte_g c = true.
Proof. unfold number_byte_g. intros ->. reflexivity. Qed.

Lemma skip_digits_nb l : forallb number_byte_g (skip_digits l) = true -> forallb number_byte_g l = true.
Proof.
  induction l as [|c r IH]; [reflexivity|]. cbn [skip_digits forallb].
  destruct (digit c) eqn:E; [|exact (fun H => H)].
  intro H. rewrite (digit_nb c E), (IH H). reflexivity.
Qed.

Lemma rfc_exp_nb l : rfc_exp l = true -> forallb number_byte_g l = true.
Proof.
  destruct l as [|c r]; [reflexivity|]. unfold rfc_exp.
  destruct ((c =? 101) || (c =? 69)) eqn:Ec; [|discriminate].
  assert (Hc : number_byte_g c = true).
  { unfold number_byte_g. apply orb_true_iff in Ec as [E|E]; rewrite E; rewrite ?orb_true_r; reflexivity. }
  assert (Hdig : forall r1, match r1 with d :: r2 => digit d && match skip_digits r2 with [] => true | _ => false end | [] => false end = true ->
                            forallb number_byte_g r1 = true).
  { intros [|d r2]; [discriminate|]. intro H. apply andb_true_iff in H as [Hd Hs]. cbn [forallb].
    rewrite (digit_nb d Hd). apply skip_digits_nb. destruct (skip_digits r2); [reflexivity|discriminate]. }
  intro H. cbn [forallb]. rewrite Hc. cbn [andb].
  destruct r as [|s r']; [discriminate|].
  destruct ((s =? 43) || (s =? 45)) eqn:Es.
  - cbn [forallb]. rewrite (Hdig r' H).
    assert (Hs : number_byte_g s = true).
    { unfold number_byte_g. apply orb_true_iff in Es as [E|E]; rewrite E; rewrite ?orb_true_r; reflexivity. }
    rewrite Hs. reflexivity.
  - exact (Hdig (s :: r') H).
Qed.

Lemma rfc_frac_nb l : rfc_frac l = true -> forallb number_byte_g l = true.
Proof.
  rewrite rfc_frac_eq. destruct l as [|c [|d r]]; try apply rfc_exp_nb.
  destruct (Z.eqb_spec c 46) as [->|N]; [|apply rfc_exp_nb].
  intro H. apply andb_true_iff in H as [Hd He]. cbn [forallb].
  rewrite (digit_nb d Hd). change (number_byte_g 46) with true. cbn [andb].
  apply skip_digits_nb. apply rfc_exp_nb. exact He.
Qed.

Lemma rfc_pos_shape t : rfc_pos t = true ->
  (exists d r, t = d :: r /\ digit d = true) /\ forallb number_byte_g t = true.
Proof.
  destruct t as [|d r]; [discriminate|]. unfold rfc_pos.
  destruct (Z.eqb_spec d 48) as [->|N]; intro H.
  - split; [exists 48, r; split; reflexivity|]. cbn [forallb]. rewrite (rfc_frac_nb r H). reflexivity.
  - apply andb_true_iff in H as [Hd Hf]. split; [exists d, r; split; [reflexivity|exact Hd]|].
    cbn [forallb]. rewrite (digit_nb d Hd). apply skip_digits_nb. apply rfc_frac_nb. exact Hf.
Qed.

Lemma rfc_number_shape t : rfc_number t = true ->
  (exists c r, t = c :: r /\ ((c =? 45) || digit c) = true) /\ forallb number_byte_g t = true.
Proof.
  destruct t as [|c r]; [discriminate|]. rewrite rfc_number_cons.
  destruct (Z.eqb_spec c 45) as [->|N]; intro H.
  - split; [exists 45, r; split; reflexivity|]. cbn [forallb].
    rewrite (proj2 (rfc_pos_shape r H)). reflexivity.
  - destruct (rfc_pos_shape (c :: r) H) as [(d & r' & E & Hd) Hnb]. inversion E; subst d r'.
    split; [exists c, r; split; [reflexivity|]; rewrite Hd; apply orb_true_r|exact Hnb].
Qed.

Lemma rfc_number_len_num_tok strtod t :
  strtod_rfc strtod -> rfc_number t = true -> (length t <= 63)%nat -> len_num_tok strtod t.
Proof.
  intros Hs Hn Hl. destruct (rfc_number_shape t Hn) as [Hfirst Hnb].
  unfold len_num_tok. split; [exact Hfirst|]. split; [exact Hnb|]. split; [exact Hl|]. exact (Hs t Hn Hl).
Qed.

Definition short_nums (v : jv) : Prop := jv_nums (fun t => (length t <= 63)%nat) v.

(** every RFC 8259 text (number literals <= 63 bytes) is a text of the lenient dialect, of the same value *)
Theorem rfc_sub_lenient strtod txt v :
  strtod_rfc strtod -> RFC_text txt v -> short_nums v -> LEN_text strtod txt v.
Proof.
  intros Hs Ht Hv.
  apply (text_mono_rel rfc_ws len_ws rfc_raw len_raw rfc_num_tok (len_num_tok strtod)
           (fun _ => True) (fun t => (length t <= 63)%nat)) with (n := nesting_limit) (txt := txt) (v := v).
  - intros c _. apply rfc_ws_len_ws.
  - reflexivity.
  - intros t Hl Hn. apply rfc_number_len_num_tok; assumption.
  - exact Ht.
  - apply Forall_forall. trivial.
  - exact Hv.
Qed.

(** ... and moreover a STRICT one: RFC texts are exactly the lenient texts that use none of the leniencies *)
Theorem rfc_sub_strict strtod txt v :
  strtod_rfc strtod -> RFC_text txt v -> short_nums v -> STRICT_text strtod txt v.
Proof.
  intros Hs Ht Hv.
  apply (text_mono_rel rfc_ws strict_ws rfc_raw strict_raw rfc_num_tok (strict_num strtod)
           (fun _ => True) (fun t => (length t <= 63)%nat)) with (n := nesting_limit) (txt := txt) (v := v).
  - intros c _ H. unfold strict_ws. rewrite H, (rfc_ws_len_ws c H). reflexivity.
  - intros c _ H. unfold strict_raw. rewrite H. reflexivity.
  - intros t Hl Hn. split; [apply rfc_number_len_num_tok; assumption|exact Hn].
  - exact Ht.
  - apply Forall_forall. trivial.
  - exact Hv.
Qed.

Theorem strict_iff_rfc strtod txt v :
  strtod_rfc strtod -> short_nums v -> (STRICT_text strtod txt v <-> RFC_text txt v).
Proof.
  intros Hs Hv. split.
  - apply only_leniencies.
  - intro Ht. apply rfc_sub_strict; assumption.
Qed.

