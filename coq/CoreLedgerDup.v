(** CoreLedgerDup.v — cJSON_Duplicate inside a history (property C07; the copy theorem itself is
    C11, CoreRefineDup*.v).

    [CoreRefineDupForest.dup_copy] describes the copy [tc] by a RELATION ([copy_of]); the
    identities of its blocks are not given as a function of the state, so duplication is not a
    constructor of the alphabet [op3] (whose list model is a function).  What is proved instead:
    [dup_continues] — from every represented state [Abs3 h S], duplicating a subtree [t] of the
    forest (strings readable, no borrowed children, not deeper than CJSON_CIRCULAR_LIMIT) with the
    allocator that never refuses returns a copy [tc] in a heap [h'] that REPRESENTS AGAIN an
    abstract state [S'] whose forest is [a_forest S ++ [tc]] (same caller blocks): every theorem
    about represented states — [history_sim3], [ledger_balanced]'s clean-up, [foreign_untouched] —
    continues from [(h', S')].  [Cons_cJSON_Duplicate]: the call is conservative for every
    oracle and every argument. *)
From CJ Require Import Base Dbl Heap Forest ForestLemmas CoreSpec CoreDefs CoreRefineBase CoreRefine
  CoreRefineDelete CoreRefineFrame CoreRefineHistory CoreRefineHistoryObj CoreRefineCreate
  CoreRefineDupBase CoreRefineDupTree CoreRefineDupNode CoreRefineDupForest
  CoreLedgerGen CoreHistoryAllSteps CoreHistoryAll CoreLedgerAll CoreHistoryAllEx.
From CJ.gen Require Import Constants.
From stdpp Require Import gmap.
Implicit Types (h : heap) (F : forest) (d : rdata).

Section DupCons.
  Variable oracle : nat -> bool.

  Lemma Cons_dup_loop rec newitem depth :
    (forall c, Cons (rec c)) -> forall lf child next nc, Cons (dup_loop rec newitem depth lf child next nc).
  Proof.
    intros Hrec. induction lf as [|lf IH]; intros child next nc; cbn [dup_loop]; [cons|].
    cons; auto with cons.
  Qed.
  Lemma Cons_dup_fail n : Cons (dup_fail n).
  Proof. unfold dup_fail. cons. Qed.

  Lemma Cons_cJSON_Duplicate_rec df : forall lf item depth recurse, Cons (cJSON_Duplicate_rec oracle df lf item depth recurse).
  Proof.
    induction df as [|df IH]; intros lf item depth recurse; [cbn; cons|]. rewrite dup_rec_S.
    pose proof Cons_dup_fail.
    destruct (is_null item); [done|]. apply Cons_bind; [auto with cons|]. intros newitem.
    destruct (is_null newitem); [done|].
    unfold dup_k0, dup_k1, dup_k2, dup_k3. cons; auto with cons.
    apply Cons_dup_loop. intros c. apply IH.
  Qed.
  Lemma Cons_cJSON_Duplicate item recurse : Cons (cJSON_Duplicate oracle item recurse).
  Proof. unfold cJSON_Duplicate. cons. apply Cons_cJSON_Duplicate_rec. Qed.
End DupCons.

(** a node of a node of the forest is a node of the forest *)
Lemma nodes_t_trans t : forall n m, n ∈ nodes_t t -> m ∈ nodes_t n -> m ∈ nodes_t t.
Proof.
  induction t as [i d cs IH] using tree_ind'. intros n m Hn Hm. rewrite nodes_t_unfold in Hn.
  apply elem_of_cons in Hn as [->|Hn]; [done|]. rewrite nodes_t_unfold. right.
  apply elem_of_nodes in Hn as (c & Hc & Hnc). apply elem_of_nodes. exists c. split; [done|].
  rewrite Forall_forall in IH. by apply (IH c Hc n m).
Qed.
Lemma nodes_t_in_nodes F t n : t ∈ nodes F -> n ∈ nodes_t t -> n ∈ nodes F.
Proof.
  intros Ht Hn. apply elem_of_nodes in Ht as (r & Hr & Htr). apply elem_of_nodes. exists r. split; [done|].
  by apply (nodes_t_trans r t n).
Qed.

(** a represented heap is closed *)
Lemma Abs3_Closed h S : Abs3 h S -> Closed h.
Proof.
  intros [((W & _) & _) K]. apply (Closed_of_WF h _ W). intros k Hk. split.
  - intros Hl. pose proof (hk_live _ K k Hl). lia.
  - destruct (h_str h !! k) eqn:E; [|done]. destruct (hk_str _ K k ltac:(eauto)) as [Hl _].
    pose proof (hk_live _ K k Hl). lia.
Qed.

(** the valuestrings of the subtree are readable strings of the abstract string heap (a rule the
    checker of a history with duplication has to test: a referenced string must still exist) *)
Definition vals_readable (S : astate2) (t : tree) : Prop :=
  forall i d (ks : list positive) b, (i, d, ks) ∈ flat_t t -> rd_vstr d = Some b -> name_ok S (Some b).

Theorem dup_continues h S p t :
  Abs3 h S -> find_tree p (a_forest S) = Some t ->
  vals_readable S t -> no_borrowed t -> height t <= Z.to_nat c_CJSON_CIRCULAR_LIMIT ->
  exists tc h' S',
    cJSON_Duplicate nv (Some p) true h = Ret (Some (tid tc), h') /\
    copy_of h' t tc /\
    Abs3 h' S' /\ a_forest S' = a_forest S ++ [tc] /\ a_foreign S' = a_foreign S /\
    (forall b, b ∈ owned [tc] -> (h_next h <= b)%positive /\ b ∉ h_live h).
Proof.
  intros HA Hp Hvals Hnb Hht. pose proof HA as [HA2 K].
  pose proof HA2 as ((W & NL & Hnext & Hreq) & Hs & [SI1 SI2] & KO).
  pose proof (Abs3_Closed h S HA) as C.
  assert (Hn : t ∈ nodes (a_forest S)) by (by apply find_tree_Some in Hp as [? _]).
  assert (Hsub : forall e, e ∈ flat_t t -> e ∈ flat (a_forest S)).
  { intros e He. unfold flat_t in He. apply elem_of_list_fmap in He as (n & -> & Hnn). apply elem_of_flat.
    eapply nodes_t_in_nodes; eauto. }
  assert (Hrd : forall b (s : bytes), a_str S !! b = Some s -> has0 s = true -> readable h b).
  { intros b s Hb Hz. exists s. split; [|done]. split; [by apply (SI1 _ _ Hb)|by rewrite Hs]. }
  assert (Hsr : strs_readable h t).
  { intros i d ks He. split.
    - intros b Hb. destruct (Hvals i d ks b He Hb) as (nb & s & [= <-] & H1 & H2). by apply (Hrd _ s).
    - intros b Hb Hc. destruct (KO (fdata (i, d, ks)) b) as [(s & H1 & H2) _]; [|done|by apply (Hrd _ s)].
      unfold datas. apply elem_of_list_fmap. exists (i, d, ks). split; [done|by apply Hsub]. }
  destruct (dup_copy nv h _ p t W C Hp Hsr Hnb Hht) as (r & h' & E & [(_ & _ & _ & _ & _ & _ & _ & _ & _ & _ & Hf)|Hok]).
  { destruct Hf as (j & _ & Hj). done. }
  destruct Hok as (tc & -> & W' & NL' & Hcp & Fr & _ & _ & Hfresh & _).
  pose proof (Cons_cJSON_Duplicate nv (Some p) true _ _ _ E K) as CP.
  exists tc, h', (mk3 (a_forest S ++ [tc]) (h_next h') (h_req h') (h_str h') (a_foreign S)).
  split; [exact E|]. split; [exact Hcp|]. split; [|split; [done|split; [done|exact Hfresh]]].
  split; [|apply CP].
  refine (Abs2_build h h' S _ _ HA CP W' (NL' NL) eq_refl _).
  intros e b He Hb. rewrite datas_app in He. apply elem_of_app in He as [He|He].
  - (* an old node: its key block is live in h, hence untouched *)
    destruct (KO e b He Hb) as [(s & H1 & H2) Hc]. split; [|done]. exists s. split; [|done].
    destruct (SI1 _ _ H1) as [Hl _].
    destruct (Ext_preserves _ _ _ _ _ Fr Hl) as (_ & _ & E3 & _). rewrite E3, Hs. done.
  - (* a node of the copy *)
    unfold datas in He. rewrite flat_singleton in He. apply elem_of_list_fmap in He as ([[i' d'] ks'] & -> & He).
    cbn [fdata fn_id fn_data fst snd] in *.
    destruct (copy_of_flat _ _ _ Hcp i' d' ks' He) as (i & d & ks & Het & (Hty & _ & _ & _ & _ & Hk)).
    destruct (rd_key d) as [b0|] eqn:Ek; [|congruence].
    assert (Hed : fdata (i, d, ks) ∈ datas (a_forest S)).
    { unfold datas. apply elem_of_list_fmap. exists (i, d, ks). split; [done|by apply Hsub]. }
    assert (Hconst' : is_const d' = is_const d).
    { unfold is_const. rewrite Hty. unfold clear_flag. rewrite <- Z.land_assoc.
      change (Z.land (Z.lnot c_cJSON_IsReference) c_cJSON_StringIsConst) with c_cJSON_StringIsConst. done. }
    destruct (is_const d) eqn:Ec.
    + rewrite Hk in Hb. injection Hb as <-. destruct (KO _ b0 Hed Ek) as [(s & H1 & H2) Hc]. split; [|intros _; by apply Hc].
      exists s. split; [|done]. by apply (foreign_kept h h' S b0 s HA CP (Hc Ec)).
    + destruct Hk as (b' & Hk & (s & _ & [Hl Hstr'])). rewrite Hk in Hb. injection Hb as <-.
      split; [|rewrite Hconst'; done]. exists (cstr s ++ [0%Z]). split; [done|].
      unfold has0. rewrite existsb_app. cbn. by rewrite orb_true_r.
Qed.

(** the hypotheses as a boolean on the abstract state *)
Definition dup_okb (S : astate2) (p : positive) : bool :=
  match find_tree p (a_forest S) with
  | Some t =>
      forallb (fun e : fnode =>
                 match rd_vstr (fn_data e) with Some b => CoreRefineHistoryObjEx.name_okb S (Some b) | None => true end &&
                 is_none (rd_ref (fn_data e))) (flat_t t) &&
      (height t <=? Z.to_nat c_CJSON_CIRCULAR_LIMIT)
  | None => false
  end.

Lemma dup_okb_sound S p :
  dup_okb S p = true ->
  exists t, find_tree p (a_forest S) = Some t /\ vals_readable S t /\ no_borrowed t /\
            height t <= Z.to_nat c_CJSON_CIRCULAR_LIMIT.
Proof.
  unfold dup_okb. destruct (find_tree p (a_forest S)) as [t|]; [|done]. intros H.
  apply andb_true_iff in H as [H1 H2]. apply Nat.leb_le in H2. rewrite forallb_forall in H1.
  exists t. split; [done|]. split_and!; [| |done].
  - intros i d ks b He Hb. apply elem_of_list_In in He. specialize (H1 _ He). cbn in H1. rewrite Hb in H1.
    apply andb_true_iff in H1 as [H1 _]. by apply CoreRefineHistoryObjEx.name_okb_sound.
  - intros i d ks He. apply elem_of_list_In in He. specialize (H1 _ He). cbn in H1.
    apply andb_true_iff in H1 as [_ H1]. by destruct (rd_ref d).
Qed.

Corollary dup_continues_checked h S p :
  Abs3 h S -> dup_okb S p = true ->
  exists t tc h' S',
    find_tree p (a_forest S) = Some t /\
    cJSON_Duplicate nv (Some p) true h = Ret (Some (tid tc), h') /\ copy_of h' t tc /\
    Abs3 h' S' /\ a_forest S' = a_forest S ++ [tc] /\ a_foreign S' = a_foreign S.
Proof.
  intros HA H. destruct (dup_okb_sound S p H) as (t & Hp & H1 & H2 & H3).
  destruct (dup_continues h S p t HA Hp H1 H2 H3) as (tc & h' & S' & E1 & E2 & E3 & E4 & E5 & _).
  exists t, tc, h', S'. exact (conj Hp (conj E1 (conj E2 (conj E3 (conj E4 E5))))).
Qed.

(** non-vacuity: after the history [ex6] without its final delete, the document (object 3, with an
    array, strings, owned and constant keys, a reference) can be duplicated *)
Definition ex6_live : list op3 := take 30 CoreHistoryAllEx.ex6.
Lemma ex6_live_accepted : pre_ok_all3b S0 ex6_live = true.
Proof. vm_compute. reflexivity. Qed.
Lemma ex6_live_dup_ok : dup_okb (spec_run3 S0 ex6_live) 3 = true.
Proof. vm_compute. reflexivity. Qed.
Corollary ex6_dup :
  exists h t tc h' S',
    run_ops3 ex6_live empty_heap = Ret (spec_results3 S0 ex6_live, h) /\
    find_tree 3 (a_forest (spec_run3 S0 ex6_live)) = Some t /\
    cJSON_Duplicate nv (Some 3%positive) true h = Ret (Some (tid tc), h') /\ copy_of h' t tc /\
    Abs3 h' S' /\ a_forest S' = a_forest (spec_run3 S0 ex6_live) ++ [tc].
Proof.
  destruct (history3_checked ex6_live ex6_live_accepted) as (h & E & HA).
  destruct (dup_continues_checked h _ 3%positive HA ex6_live_dup_ok) as (t & tc & h' & S' & H1 & H2 & H3 & H4 & H5 & _).
  exists h, t, tc, h', S'. exact (conj E (conj H1 (conj H2 (conj H3 (conj H4 H5))))).
Qed.

(** a duplicated item has no sibling links (C06_links, for the copy) *)
Corollary dup_root_no_links h S p t :
  Abs3 h S -> find_tree p (a_forest S) = Some t ->
  vals_readable S t -> no_borrowed t -> height t <= Z.to_nat c_CJSON_CIRCULAR_LIMIT ->
  exists tc h', cJSON_Duplicate nv (Some p) true h = Ret (Some (tid tc), h') /\ h_lnk h' !! tid tc = Some (None, None).
Proof.
  intros HA Hp H1 H2 H3. destruct (dup_continues h S p t HA Hp H1 H2 H3) as (tc & h' & S' & E & _ & HA' & HF & _).
  exists tc, h'. split; [exact E|]. pose proof (proj1 (proj1 (proj1 HA'))) as W'. unfold a_forest in HF.
  change (as_forest (a_st S')) with (a_forest S') in W'. unfold a_forest in W'. rewrite HF in W'.
  apply (WF_lookup_lnk_root _ _ _ W'). rewrite roots_app. apply elem_of_app. right. by left.
Qed.

(** history, then a duplication, then the clean-up of every root INCLUDING the copy: balanced *)
Corollary dup_then_balanced ops p :
  pre_ok_all3b S0 ops = true -> dup_okb (spec_run3 S0 ops) p = true ->
  exists h1 tc h2 h3,
    run_ops3 ops empty_heap = Ret (spec_results3 S0 ops, h1) /\
    cJSON_Duplicate nv (Some p) true h1 = Ret (Some (tid tc), h2) /\
    delete_roots (roots (a_forest (spec_run3 S0 ops) ++ [tc])) h2 = Ret (tt, h3) /\
    lib_live h3 = ∅ /\
    (forall b, h_own h1 !! b = Some Foreign -> b ∈ h_live h1 -> b ∈ h_live h3 /\ h_str h3 !! b = h_str h1 !! b).
Proof.
  intros Hops Hdup. destruct (history3_checked ops Hops) as (h1 & E1 & HA1).
  destruct (dup_continues_checked h1 _ p HA1 Hdup) as (t & tc & h2 & S2 & _ & E2 & _ & HA2 & HF2 & _).
  destruct (delete_roots_sim (a_forest S2) S2 h2 eq_refl HA2) as (h3 & S3 & E3 & HA3 & _ & HL3).
  rewrite HF2 in E3. exists h1, tc, h2, h3. refine (conj E1 (conj E2 (conj E3 (conj HL3 _)))).
  intros b Ho Hl.
  pose proof (Cons_cJSON_Duplicate nv (Some p) true _ _ _ E2 (proj2 HA1)) as CP2.
  pose proof (Cons_delete_roots _ _ _ _ E3 (proj2 HA2)) as CP3.
  destruct (cp_foreign _ _ CP2 b Ho Hl) as [Hl2 Hs2].
  assert (Ho2 : h_own h2 !! b = Some Foreign).
  { rewrite (cp_own _ _ CP2); [done|]. by apply (hk_live _ (proj2 HA1)). }
  destruct (cp_foreign _ _ CP3 b Ho2 Hl2) as [Hl3 Hs3]. split; [done|congruence].
Qed.
Corollary ex6_dup_balanced :
  exists h1 tc h2 h3,
    run_ops3 ex6_live empty_heap = Ret (spec_results3 S0 ex6_live, h1) /\
    cJSON_Duplicate nv (Some 3%positive) true h1 = Ret (Some (tid tc), h2) /\
    delete_roots (roots (a_forest (spec_run3 S0 ex6_live) ++ [tc])) h2 = Ret (tt, h3) /\ lib_live h3 = ∅.
Proof.
  destruct (dup_then_balanced ex6_live 3%positive ex6_live_accepted ex6_live_dup_ok) as (h1 & tc & h2 & h3 & E1 & E2 & E3 & E4 & _).
  exists h1, tc, h2, h3. exact (conj E1 (conj E2 (conj E3 E4))).
Qed.
