(** CoreOpsBridge.v — the bridge between the two interpreters of the tree API.

    * [CoreOps.run_op oracle st o] (CoreOps.v) is the interpreter that is EXTRACTED to OCaml and run
      against the C library by the correspondence check: operations [CoreOps.op] name their arguments
      by HANDLES into two pools ([st_items], [st_strs]); after every call the dead handles are cleared.
    * [run_op3 o] (CoreHistoryAll.v) is the interpreter the theorems of C06 / C07 speak about:
      operations [op3] carry the block identities themselves.
    Both call the same functions of CoreDefs.v.  This file relates them.

    PART 1 (this file, no invariant needed): the translation [tr V st o] of a correspondence-level
    operation, given the handle pools [st] and a VIEW [V] of what the caller can observe of the
    heap (the identity the next caller string will get; [item->string] and [item->valuestring]),
    into: the caller strings declared on the way ([t_pre], one [O2 (OForeign _)] each), the
    proof-level operation on the identities the handles denote ([t_main]), the pools after the
    string declarations ([t_st]) and the KIND of the result ([t_kind]: which pool the returned
    identity is pushed to and how the result is shown).  Handle [k] denotes [nth k (st_items st)],
    string handle [k] denotes [nth k (st_strs st)], NULL arguments denote [None].
    [run_op_commutes]: with the allocator that never refuses, for every translatable operation
    [CoreOps.run_op nv st o] IS [run_ops3 (tr_ops t)] followed by the result encoding [finish] and
    the sweep of the pools — the same CoreDefs call on the same arguments, hence the same heap.

    Operations WITHOUT proof-level counterpart ([tr] = None):
      - the allocator interface       [OInitHooks], [OMalloc], [OFree];
      - the caller's own field stores [OSetChildRaw], [OSetLinksRaw] and the probes [OChain], [OChildDepth];
      - [ODuplicate] (its list model is a relation: Properties_C11.v; [C07_duplicate_continues]);
      - [OArrayForEach] has no proof-level CALL (it is the caller's loop over child / next): it is translated
        to "no call" with the result kind [KEach a], whose encoding runs the loop
        ([CoreOps.array_for_each], shown to visit the model's children list by [C06_queries_iteration]);
      - string arguments [SKeyOf k] / [SValOf k] when the view cannot read the field (NULL or dead handle).
    Calls on reference containers, foreign items etc. ARE translated; they are rejected (or not) by
    the ownership checker [pre_ok3b], not by the translation.

    [pools_after_call]: the pools after the call are the old pools extended by the identities the
    proof-level run returned — the declared strings to the string pool, the returned item (kind
    [KPush]) to the item pool.  [tr_shape]: the result of a translated call has the shape of its kind.

    PART 2 is CoreOpsBridgeHist.v (acceptance, histories, the transported C06 / C07 theorems),
    PART 3 CoreOpsBridgeOwned.v (acceptance by the rule checker alone), CoreOpsBridgeEx.v non-vacuity. *)
From CJ Require Import Base Dbl Heap Forest CoreSpec CoreDefs CoreRefineBase CoreRefineHistory CoreRefineHistoryObj
  CoreRefineCreate CoreHistoryAllSteps CoreHistoryAll.
From CJ Require CoreOps.
From CJ.gen Require Import Constants.
From Coq Require Import Floats.SpecFloat.
From stdpp Require Import gmap.
Local Open Scope Z_scope.



(** * what the caller sees of the heap *)
Record view : Type := mkView {
  v_next : positive;                 (* the identity the next declared caller string gets *)
  v_key : ptr -> option ptr;         (* item->string, when the item can be read *)
  v_val : ptr -> option ptr          (* item->valuestring *)
}.
Definition view_bump (V : view) : view := mkView (Pos.succ (v_next V)) (v_key V) (v_val V).

(** the view is right about heap [h] *)
Definition view_ok (V : view) (h : heap) : Prop :=
  v_next V = h_next h /\
  (forall p q, v_key V p = Some q -> get_key p h = Ret (q, h)) /\
  (forall p q, v_val V p = Some q -> get_vstr p h = Ret (q, h)).

(** the view that reads the heap itself *)
Definition hview (h : heap) : view :=
  mkView (h_next h)
         (fun p => match get_key p h with Ret (q, _) => Some q | Err _ => None end)
         (fun p => match get_vstr p h with Ret (q, _) => Some q | Err _ => None end).

(** * the translation *)

(** how the result of the proof-level call is shown and which pool it extends *)
Inductive kind : Type :=
| KPush      (* a [cJSON *]: shown as pointer, pushed as a new item handle (NULL included) *)
| KFlag      (* cJSON_bool *)
| KUnit      (* void *)
| KInt | KDbl
| KStr       (* a [char *] the caller then reads as a C string *)
| KEach (a : ptr).   (* no call: the caller iterates over [a] (cJSON_ArrayForEach) and reports the types met *)

Record trans : Type := mkT {
  t_pre : list bytes;          (* caller strings declared before the call, in order *)
  t_st : CoreOps.state;             (* the pools after these declarations *)
  t_main : option op3;         (* the call *)
  t_kind : kind
}.

(** a string argument: the pointer it denotes, the strings declared, the pools and the view after *)
Definition tr_str (V : view) (st : CoreOps.state) (s : CoreOps.sarg) : option (ptr * list bytes * CoreOps.state * view) :=
  match s with
  | CoreOps.SNull => Some (None, [], st, V)
  | CoreOps.SPool k => Some (nth k (CoreOps.st_strs st) None, [], st, V)
  | CoreOps.SLit b => Some (Some (v_next V), [b ++ [0]], CoreOps.push_str st (Some (v_next V)), view_bump V)
  | CoreOps.SKeyOf k => match v_key V (nth k (CoreOps.st_items st) None) with Some q => Some (q, [], st, V) | None => None end
  | CoreOps.SValOf k => match v_val V (nth k (CoreOps.st_items st) None) with Some q => Some (q, [], st, V) | None => None end
  end.

Fixpoint tr_strs (V : view) (st : CoreOps.state) (l : list CoreOps.sarg) : option (list ptr * list bytes * CoreOps.state * view) :=
  match l with
  | [] => Some ([], [], st, V)
  | a :: r =>
      match tr_str V st a with
      | Some (p, pre1, st1, V1) =>
          match tr_strs V1 st1 r with
          | Some (ps, pre2, st2, V2) => Some (p :: ps, pre1 ++ pre2, st2, V2)
          | None => None
          end
      | None => None
      end
  end.

(** the three shapes of a translated call: no string argument, one, two *)
Definition T0 (st : CoreOps.state) (k : kind) (m : op3) : option trans := Some (mkT [] st (Some m) k).
Definition T1 (V : view) (st : CoreOps.state) (s : CoreOps.sarg) (k : kind) (f : ptr -> op3) : option trans :=
  match tr_str V st s with
  | Some (p, pre, st1, _) => Some (mkT pre st1 (Some (f p)) k)
  | None => None
  end.
Definition T2 (V : view) (st : CoreOps.state) (s v : CoreOps.sarg) (k : kind) (f : ptr -> ptr -> op3) : option trans :=
  match tr_str V st s with
  | Some (p, pre1, st1, V1) =>
      match tr_str V1 st1 v with
      | Some (q, pre2, st2, _) => Some (mkT (pre1 ++ pre2) st2 (Some (f p q)) k)
      | None => None
      end
  | None => None
  end.

Definition A3 (o : op) : op3 := O2 (OArr o).

Definition tr (V : view) (st : CoreOps.state) (o : CoreOps.op) : option trans :=
  let I := CoreOps.item_of st in
  match o with
  | CoreOps.OCreateNull => T0 st KPush (A3 (OCreate c_cJSON_NULL))
  | CoreOps.OCreateTrue => T0 st KPush (A3 (OCreate c_cJSON_True))
  | CoreOps.OCreateFalse => T0 st KPush (A3 (OCreate c_cJSON_False))
  | CoreOps.OCreateBool b => T0 st KPush (A3 (OCreate (if b then c_cJSON_True else c_cJSON_False)))
  | CoreOps.OCreateNumber d => T0 st KPush (OCreateNumber d)
  | CoreOps.OCreateString s => T1 V st s KPush OCreateString
  | CoreOps.OCreateRaw s => T1 V st s KPush OCreateRaw
  | CoreOps.OCreateArray => T0 st KPush (A3 (OCreate c_cJSON_Array))
  | CoreOps.OCreateObject => T0 st KPush (A3 (OCreate c_cJSON_Object))
  | CoreOps.OCreateStringReference s => T1 V st s KPush OCreateStringReference
  | CoreOps.OCreateObjectReference c => T0 st KPush (OCreateObjectReference (I c))
  | CoreOps.OCreateArrayReference c => T0 st KPush (OCreateArrayReference (I c))
  | CoreOps.OCreateIntArray nums count => T0 st KPush (OCreateIntArray nums count)
  | CoreOps.OCreateFloatArray nums count => T0 st KPush (OCreateFloatArray nums count)
  | CoreOps.OCreateDoubleArray nums count => T0 st KPush (OCreateDoubleArray nums count)
  | CoreOps.OCreateStringArray None count => T0 st KPush (OCreateStringArray None count)
  | CoreOps.OCreateStringArray (Some l) count =>
      match tr_strs V st l with
      | Some (ps, pre, st1, _) => Some (mkT pre st1 (Some (OCreateStringArray (Some ps) count)) KPush)
      | None => None
      end
  | CoreOps.ODuplicate _ _ => None
  | CoreOps.OAddItemToArray a i => T0 st KFlag (A3 (OAdd (I a) (I i)))
  | CoreOps.OAddItemToObject ob s i => T1 V st s KFlag (fun p => O2 (OAddObj (I ob) p (I i) false))
  | CoreOps.OAddItemToObjectCS ob s i => T1 V st s KFlag (fun p => O2 (OAddObj (I ob) p (I i) true))
  | CoreOps.OAddItemReferenceToArray a i => T0 st KFlag (OAddItemReferenceToArray (I a) (I i))
  | CoreOps.OAddItemReferenceToObject ob s i => T1 V st s KFlag (fun p => OAddItemReferenceToObject (I ob) p (I i))
  | CoreOps.OAddNullToObject ob s => T1 V st s KPush (fun p => OAddToObject KNull (I ob) p)
  | CoreOps.OAddTrueToObject ob s => T1 V st s KPush (fun p => OAddToObject KTrue (I ob) p)
  | CoreOps.OAddFalseToObject ob s => T1 V st s KPush (fun p => OAddToObject KFalse (I ob) p)
  | CoreOps.OAddBoolToObject ob s b => T1 V st s KPush (fun p => OAddToObject (KBool b) (I ob) p)
  | CoreOps.OAddNumberToObject ob s d => T1 V st s KPush (fun p => OAddToObject (KNumber d) (I ob) p)
  | CoreOps.OAddStringToObject ob s v => T2 V st s v KPush (fun p q => OAddToObject (KString q) (I ob) p)
  | CoreOps.OAddRawToObject ob s v => T2 V st s v KPush (fun p q => OAddToObject (KRaw q) (I ob) p)
  | CoreOps.OAddObjectToObject ob s => T1 V st s KPush (fun p => OAddToObject KObject (I ob) p)
  | CoreOps.OAddArrayToObject ob s => T1 V st s KPush (fun p => OAddToObject KArray (I ob) p)
  | CoreOps.ODetachItemViaPointer p i => T0 st KPush (A3 (ODetach (I p) (I i)))
  | CoreOps.ODetachItemFromArray a which => T0 st KPush (A3 (ODetachIdx (I a) which))
  | CoreOps.ODetachItemFromObject ob s => T1 V st s KPush (fun p => O2 (ODetachKey (I ob) p false))
  | CoreOps.ODetachItemFromObjectCaseSensitive ob s => T1 V st s KPush (fun p => O2 (ODetachKey (I ob) p true))
  | CoreOps.ODelete i => T0 st KUnit (A3 (ODelete (I i)))
  | CoreOps.ODeleteItemFromArray a which => T0 st KUnit (A3 (ODeleteIdx (I a) which))
  | CoreOps.ODeleteItemFromObject ob s => T1 V st s KUnit (fun p => O2 (ODeleteKey (I ob) p false))
  | CoreOps.ODeleteItemFromObjectCaseSensitive ob s => T1 V st s KUnit (fun p => O2 (ODeleteKey (I ob) p true))
  | CoreOps.OInsertItemInArray a which i => T0 st KFlag (A3 (OInsert (I a) which (I i)))
  | CoreOps.OReplaceItemViaPointer p i r => T0 st KFlag (A3 (OReplace (I p) (I i) (I r)))
  | CoreOps.OReplaceItemInArray a which r => T0 st KFlag (A3 (OReplaceIdx (I a) which (I r)))
  | CoreOps.OReplaceItemInObject ob s r => T1 V st s KFlag (fun p => OReplaceItemInObject (I ob) p (I r) false)
  | CoreOps.OReplaceItemInObjectCaseSensitive ob s r => T1 V st s KFlag (fun p => OReplaceItemInObject (I ob) p (I r) true)
  | CoreOps.OGetArraySize a => T0 st KInt (A3 (OSize (I a)))
  | CoreOps.OGetArrayItem a index => T0 st KPush (A3 (OGet (I a) index))
  | CoreOps.OGetObjectItem ob s => T1 V st s KPush (fun p => O2 (OGetKey (I ob) p false))
  | CoreOps.OGetObjectItemCaseSensitive ob s => T1 V st s KPush (fun p => O2 (OGetKey (I ob) p true))
  | CoreOps.OHasObjectItem ob s => T1 V st s KFlag (fun p => OHasObjectItem (I ob) p)
  | CoreOps.OGetStringValue i => T0 st KStr (OGetStringValue (I i))
  | CoreOps.OGetNumberValue i => T0 st KDbl (OGetNumberValue (I i))
  | CoreOps.OArrayForEach a => Some (mkT [] st None (KEach (I a)))
  | CoreOps.OSetNumberValue i d => T0 st KDbl (OSetNumberValue (I i) d)
  | CoreOps.OSetIntValue i n => T0 st KInt (OSetIntValue (I i) n)
  | CoreOps.OSetValuestring i s => T1 V st s KStr (fun p => OSetValuestring (I i) p)
  | CoreOps.OSetBoolValue i b => T0 st KInt (OSetBoolValue (I i) b)
  | CoreOps.OInitHooks _ | CoreOps.OMalloc _ | CoreOps.OFree _ => None
  | CoreOps.OString b => Some (mkT [b ++ [0]] (CoreOps.push_str st (Some (v_next V))) None KUnit)
  | CoreOps.OSetChildRaw _ _ | CoreOps.OSetLinksRaw _ _ _ | CoreOps.OChain _ | CoreOps.OChildDepth _ => None
  end.

(** the proof-level operations of one translated call, in order *)
Definition tr_ops (t : trans) : list op3 :=
  ((fun c => O2 (OForeign c)) <$> t_pre t) ++ match t_main t with Some m => [m] | None => [] end.

(** * the result encoding *)
Definition res_ptr3 (r : res3) : ptr := match r with R (RPtr p) => p | _ => None end.
Definition res_flag3 (r : res3) : bool := match r with R (RBool b) => b | _ => false end.
Definition res_int3 (r : res3) : Z := match r with R (RInt z) => z | _ => 0 end.
Definition res_dbl3 (r : res3) : dbl := match r with RDbl d => d | _ => dzero end.

(** the shape a result of kind [k] has (every result of a translated call has it: [tr_shape]) *)
Definition shape (k : kind) (r : res3) : Prop :=
  match k, r with
  | KPush, R (RPtr _) | KFlag, R (RBool _) | KUnit, R RUnit | KInt, R (RInt _) | KDbl, RDbl _ | KStr, R (RPtr _) => True
  | KEach _, _ => True
  | _, _ => False
  end.

(** the pools after the call: the returned identity is pushed exactly for the kind [KPush] *)
Definition new_pools (k : kind) (st : CoreOps.state) (r : res3) : CoreOps.state :=
  match k with KPush => CoreOps.push_item st (res_ptr3 r) | _ => st end.

(** what the correspondence-level interpreter does with the proof-level result *)
Definition finish (k : kind) (st : CoreOps.state) (r : res3) : M (CoreOps.result * CoreOps.state) :=
  match k with
  | KPush => ret (CoreOps.RPtr (res_ptr3 r), CoreOps.push_item st (res_ptr3 r))
  | KFlag => ret (CoreOps.RFlag (res_flag3 r), st)
  | KUnit => ret (CoreOps.RUnit, st)
  | KInt => ret (CoreOps.RInt (res_int3 r), st)
  | KDbl => ret (CoreOps.RDbl (res_dbl3 r), st)
  | KStr => s <~ CoreOps.opt_cstr (res_ptr3 r) ;; ret (CoreOps.RStr s, st)
  | KEach a => l <~ CoreOps.array_for_each a ;; ret (CoreOps.RInts l, st)
  end.

(** the result for the kinds that need no further read *)
Definition enc (k : kind) (r : res3) : CoreOps.result :=
  match k with
  | KPush => CoreOps.RPtr (res_ptr3 r)
  | KFlag => CoreOps.RFlag (res_flag3 r)
  | KUnit => CoreOps.RUnit
  | KInt => CoreOps.RInt (res_int3 r)
  | KDbl => CoreOps.RDbl (res_dbl3 r)
  | KStr => CoreOps.RStr None
  | KEach _ => CoreOps.RInts []
  end.
(** the kinds whose result needs no further read of the heap *)
Definition pure_kind (k : kind) : Prop := match k with KStr | KEach _ => False | _ => True end.
Lemma finish_pure k st r h : pure_kind k -> finish k st r h = Ret ((enc k r, new_pools k st r), h).
Proof. by destruct k. Qed.

(** the caller declares strings *)
Fixpoint run_pre (l : list bytes) : M unit :=
  match l with [] => ret tt | c :: r => foreign_bytes c ;;; run_pre r end.
Definition run_main (m : option op3) : M res3 :=
  match m with Some o => run_op3 o | None => ret (R RUnit) end.
(** the translated call, run by the proof-level interpreter, then shown *)
Definition run_tr (t : trans) : M (CoreOps.result * CoreOps.state) :=
  run_pre (t_pre t) ;;; r <~ run_main (t_main t) ;; finish (t_kind t) (t_st t) r.

(** the sweep as a function *)
Definition sweep_st (h : heap) (st : CoreOps.state) : CoreOps.state :=
  CoreOps.mkState (map (CoreOps.live_ptr h) (CoreOps.st_items st)) (map (CoreOps.live_ptr h) (CoreOps.st_strs st)).
Lemma run_sweep st h : CoreOps.sweep st h = Ret (sweep_st h st, h).
Proof. reflexivity. Qed.

(** * reading does not change the heap; declaring a string keeps every read *)
Lemma ld_dat_same p h d h' : ld_dat p h = Ret (d, h') -> h' = h.
Proof.
  unfold ld_dat, bindM, chk. destruct p as [i|]; [|done]. destruct (decide _); [|done].
  destruct (h_dat h !! i); [|done]. by intros [= _ <-].
Qed.
Lemma get_key_same p h q h' : get_key p h = Ret (q, h') -> h' = h.
Proof.
  unfold get_key, bindM. destruct (ld_dat p h) as [[d h1]|e] eqn:E; [|done]. intros [= _ <-]. by eapply ld_dat_same.
Qed.
Lemma get_vstr_same p h q h' : get_vstr p h = Ret (q, h') -> h' = h.
Proof.
  unfold get_vstr, bindM. destruct (ld_dat p h) as [[d h1]|e] eqn:E; [|done]. intros [= _ <-]. by eapply ld_dat_same.
Qed.
Lemma view_ok_hview h : view_ok (hview h) h.
Proof.
  split; [done|]. split; intros p q; cbn [hview v_key v_val].
  - destruct (get_key p h) as [[q' h']|e] eqn:E; [|done]. intros [= <-]. by rewrite (get_key_same _ _ _ _ E).
  - destruct (get_vstr p h) as [[q' h']|e] eqn:E; [|done]. intros [= <-]. by rewrite (get_vstr_same _ _ _ _ E).
Qed.

Lemma ld_dat_foreign p h d c : ld_dat p h = Ret (d, h) -> ld_dat p (foreign_heap h c) = Ret (d, foreign_heap h c).
Proof.
  unfold ld_dat, bindM, chk. destruct p as [i|]; [|done]. destruct (decide (i ∈ h_live h)) as [Hl|]; [|done].
  cbn [foreign_heap h_live h_dat]. rewrite decide_True by (apply elem_of_union; by right).
  change (h_dat (foreign_heap h c)) with (h_dat h). destruct (h_dat h !! i); [|done]. by intros [= ->].
Qed.
Lemma view_ok_bump V h c : view_ok V h -> view_ok (view_bump V) (foreign_heap h c).
Proof.
  intros (Hn & Hk & Hv). split; [cbn; by rewrite Hn|]. split; intros p q Hq; cbn in Hq.
  - specialize (Hk p q Hq). unfold get_key, bindM in *. destruct (ld_dat p h) as [[d h1]|e] eqn:E; [|done].
    pose proof (ld_dat_same _ _ _ _ E) as ->. rewrite (ld_dat_foreign _ _ _ c E). by injection Hk as ->.
  - specialize (Hv p q Hq). unfold get_vstr, bindM in *. destruct (ld_dat p h) as [[d h1]|e] eqn:E; [|done].
    pose proof (ld_dat_same _ _ _ _ E) as ->. rewrite (ld_dat_foreign _ _ _ c E). by injection Hv as ->.
Qed.

(** * string arguments commute *)
Lemma str_of_tr V st s h p pre st1 V1 :
  view_ok V h -> tr_str V st s = Some (p, pre, st1, V1) ->
  exists h1, CoreOps.str_of st s h = Ret ((p, st1), h1) /\ run_pre pre h = Ret (tt, h1) /\ view_ok V1 h1.
Proof.
  intros HV E. pose proof HV as (Hn & Hk & Hv). destruct s as [|k|b|k|k]; cbn [tr_str] in E.
  - injection E as <- <- <- <-. by exists h.
  - injection E as <- <- <- <-. by exists h.
  - injection E as <- <- <- <-. exists (foreign_heap h (b ++ [0])). rewrite Hn. split; [done|]. split; [done|].
    by apply view_ok_bump.
  - destruct (v_key V _) as [q|] eqn:Eq; [|done]. injection E as <- <- <- <-. exists h.
    cbn [CoreOps.str_of]. by rewrite (bindM_Ret _ _ _ _ _ (Hk _ _ Eq)).
  - destruct (v_val V _) as [q|] eqn:Eq; [|done]. injection E as <- <- <- <-. exists h.
    cbn [CoreOps.str_of]. by rewrite (bindM_Ret _ _ _ _ _ (Hv _ _ Eq)).
Qed.

Lemma run_pre_cons c l h : run_pre (c :: l) h = run_pre l (foreign_heap h c).
Proof. reflexivity. Qed.
Lemma run_pre_app l1 l2 h h1 : run_pre l1 h = Ret (tt, h1) -> run_pre (l1 ++ l2) h = run_pre l2 h1.
Proof.
  revert h. induction l1 as [|c l1 IH]; intros h E; [by injection E as ->|].
  rewrite <- app_comm_cons, run_pre_cons in *. by apply IH.
Qed.

Lemma strs_of_tr l : forall V st h ps pre st1 V1,
  view_ok V h -> tr_strs V st l = Some (ps, pre, st1, V1) ->
  exists h1, CoreOps.strs_of st l h = Ret ((ps, st1), h1) /\ run_pre pre h = Ret (tt, h1) /\ view_ok V1 h1.
Proof.
  induction l as [|a l IH]; intros V st h ps pre st1 V1 HV E; cbn [tr_strs] in E.
  - injection E as <- <- <- <-. by exists h.
  - destruct (tr_str V st a) as [[[[p pre1] sta] Va]|] eqn:Ea; [|done].
    destruct (tr_strs Va sta l) as [[[[ps2 pre2] st2] V2]|] eqn:El; [|done]. injection E as <- <- <- <-.
    destruct (str_of_tr _ _ _ _ _ _ _ _ HV Ea) as (h1 & E1 & E2 & HV1).
    destruct (IH _ _ _ _ _ _ _ HV1 El) as (h2 & E3 & E4 & HV2). exists h2.
    cbn [CoreOps.strs_of]. rewrite (bindM_Ret _ _ _ _ _ E1). cbn [fst snd]. rewrite (bindM_Ret _ _ _ _ _ E3).
    split; [done|]. split; [|done]. by rewrite (run_pre_app _ _ _ _ E2).
Qed.

(** * the commutation, by shape of the call *)
Lemma T0_commute st k m t (F : M (CoreOps.result * CoreOps.state)) h :
  T0 st k m = Some t -> (forall h1, F h1 = (r <~ run_op3 m ;; finish k st r) h1) -> F h = run_tr t h.
Proof. intros [= <-] HF. apply HF. Qed.

Lemma T1_commute V st s k f t (F : ptr -> CoreOps.state -> M (CoreOps.result * CoreOps.state)) h :
  view_ok V h -> T1 V st s k f = Some t ->
  (forall p st1 h1, F p st1 h1 = (r <~ run_op3 (f p) ;; finish k st1 r) h1) ->
  CoreOps.with_str st s F h = run_tr t h.
Proof.
  intros HV E HF. unfold T1 in E. destruct (tr_str V st s) as [[[[p pre] st1] V1]|] eqn:Es; [|done]. injection E as <-.
  destruct (str_of_tr _ _ _ _ _ _ _ _ HV Es) as (h1 & E1 & E2 & _).
  unfold CoreOps.with_str. rewrite (bindM_Ret _ _ _ _ _ E1). cbn [fst snd].
  unfold run_tr. cbn [t_pre t_main t_kind t_st run_main]. rewrite (bindM_Ret _ _ _ _ _ E2). apply HF.
Qed.

Lemma T2_commute V st s v k f t (F : ptr -> ptr -> CoreOps.state -> M (CoreOps.result * CoreOps.state)) h :
  view_ok V h -> T2 V st s v k f = Some t ->
  (forall p q st2 h2, F p q st2 h2 = (r <~ run_op3 (f p q) ;; finish k st2 r) h2) ->
  CoreOps.with_str st s (fun p st' => CoreOps.with_str st' v (fun q st'' => F p q st'')) h = run_tr t h.
Proof.
  intros HV E HF. unfold T2 in E. destruct (tr_str V st s) as [[[[p pre1] st1] V1]|] eqn:Es; [|done].
  destruct (tr_str V1 st1 v) as [[[[q pre2] st2] V2]|] eqn:Ev; [|done]. injection E as <-.
  destruct (str_of_tr _ _ _ _ _ _ _ _ HV Es) as (h1 & E1 & E2 & HV1).
  destruct (str_of_tr _ _ _ _ _ _ _ _ HV1 Ev) as (h2 & E3 & E4 & _).
  unfold CoreOps.with_str. rewrite (bindM_Ret _ _ _ _ _ E1). cbn [fst snd]. rewrite (bindM_Ret _ _ _ _ _ E3). cbn [fst snd].
  unfold run_tr. cbn [t_pre t_main t_kind t_st run_main].
  assert (Hp : run_pre (pre1 ++ pre2) h = Ret (tt, h2)) by (by rewrite (run_pre_app _ _ _ _ E2)).
  rewrite (bindM_Ret _ _ _ _ _ Hp). apply HF.
Qed.

(** both sides are the same CoreDefs call under result wrappers: expose it, split on its outcome *)
Ltac dm1 :=
  match goal with
  | |- context [match ?X with Ret _ => _ | Err _ => _ end] =>
      lazymatch X with
      | context [match _ with Ret _ => _ | Err _ => _ end] => fail
      | _ => destruct X as [[? ?]|?]
      end
  end.
Ltac same_call :=
  intros;
  cbn [run_op3 run_op2 run_op run_add_to_object finish A3];
  unfold CoreOps.r_push, CoreOps.r_flag, CoreOps.r_unit,
    cJSON_CreateNull, cJSON_CreateTrue, cJSON_CreateFalse, cJSON_CreateBool, cJSON_CreateArray, cJSON_CreateObject,
    cJSON_AddItemToObject, cJSON_AddItemToObjectCS,
    cJSON_DeleteItemFromObject, cJSON_DeleteItemFromObjectCaseSensitive,
    cJSON_DetachItemFromObject, cJSON_DetachItemFromObjectCaseSensitive,
    cJSON_GetObjectItem, cJSON_GetObjectItemCaseSensitive,
    cJSON_ReplaceItemInObject, cJSON_ReplaceItemInObjectCaseSensitive;
  unfold bindM, ret;
  repeat (cbn [res_ptr3 res_flag3 res_int3 res_dbl3 fst snd]; dm1);
  reflexivity.

(** THE COMMUTATION, before the sweep: for every translatable operation the extracted interpreter's
    step is the translated call of the proof-level interpreter, then the result encoding *)
Theorem run_op_raw_commutes V st o t h :
  view_ok V h -> tr V st o = Some t -> CoreOps.run_op_raw nv st o h = run_tr t h.
Proof.
  intros HV E.
  destruct o as [| | |b|d|s|s| | |s|c|c|nums count|nums count|nums count|strs count|i recurse|a i|ob s i|ob s i|a i|ob s i
                 |ob s|ob s|ob s|ob s b|ob s d|ob s v|ob s v|ob s|ob s|p i|a which|ob s|ob s|i|a which|ob s|ob s
                 |a which i|p i r|a which r|ob s r|ob s r|a|a index|ob s|ob s|ob s|i|i|a|i d|i n|i s|i b|hk|init|s|b
                 |i c|i n p|n|i];
    cbn [tr] in E; try discriminate E; cbn [CoreOps.run_op_raw];
    try (eapply T0_commute; [exact E|]; same_call);
    try (eapply T1_commute; [exact HV|exact E|]; same_call);
    try (eapply T2_commute; [exact HV|exact E|]; same_call).
  - (* cJSON_CreateStringArray *)
    destruct strs as [l|]; [|eapply T0_commute; [exact E|]; same_call].
    destruct (tr_strs V st l) as [[[[ps pre] st1] V1]|] eqn:El; [|done]. injection E as <-.
    destruct (strs_of_tr _ _ _ _ _ _ _ _ HV El) as (h1 & E1 & E2 & _).
    rewrite (bindM_Ret _ _ _ _ _ E1). cbn [fst snd].
    unfold run_tr. cbn [t_pre t_main t_kind t_st run_main]. rewrite (bindM_Ret _ _ _ _ _ E2).
    revert h1 E1 E2. same_call.
  - (* the caller's loop *)
    injection E as <-. reflexivity.
  - (* the caller declares a string *)
    injection E as <-. destruct HV as (Hn & _). rewrite Hn. reflexivity.
Qed.

(** * the translated call as a piece of a proof-level history *)

(** the result of the call proper: the one after the string declarations *)
Definition main_res (t : trans) (rs : list res3) : res3 := nth (length (t_pre t)) rs (R RUnit).

Lemma run_tr_ops_gen {A} pre m (K : res3 -> M A) : forall h,
  (run_pre pre ;;; r <~ run_main m ;; K r) h =
  (rs <~ run_ops3 (((fun c => O2 (OForeign c)) <$> pre) ++ match m with Some o => [o] | None => [] end) ;;
   K (nth (length pre) rs (R RUnit))) h.
Proof.
  induction pre as [|c pre IH]; intros h.
  - destruct m as [o|]; cbn [run_pre run_main fmap list_fmap app run_ops3 length]; [|reflexivity].
    unfold bindM, ret. destruct (run_op3 o h) as [[r h1]|e]; reflexivity.
  - cbn [fmap list_fmap app length run_ops3].
    change (run_pre (c :: pre) ;;; r <~ run_main m ;; K r) with (foreign_bytes c ;;; (run_pre pre ;;; r <~ run_main m ;; K r)).
    change ((foreign_bytes c ;;; (run_pre pre ;;; r <~ run_main m ;; K r)) h)
      with ((run_pre pre ;;; r <~ run_main m ;; K r) (foreign_heap h c)).
    rewrite IH. symmetry. rewrite bindM_assoc.
    assert (Hf : run_op3 (O2 (OForeign c)) h = Ret (R (RPtr (Some (h_next h))), foreign_heap h c)) by reflexivity.
    rewrite (bindM_Ret _ _ _ _ _ Hf). rewrite bindM_assoc.
    unfold bindM, ret. destruct (run_ops3 _ (foreign_heap h c)) as [[rs h1]|e]; reflexivity.
Qed.

Lemma run_tr_ops t h :
  run_tr t h = (rs <~ run_ops3 (tr_ops t) ;; finish (t_kind t) (t_st t) (main_res t rs)) h.
Proof. apply run_tr_ops_gen. Qed.

Lemma bindM_ext_l {A B} (m m' : M A) (f : A -> M B) h : m h = m' h -> bindM m f h = bindM m' f h.
Proof. unfold bindM. by intros ->. Qed.

(** THE COMMUTATION LEMMA.  One step of the extracted interpreter = the translated operations run by
    the proof-level interpreter [run_ops3] (hence the SAME heap, the same error outcome if any),
    then the result encoding [finish] (which pushes the returned identity for the kind [KPush]),
    then the sweep of the pools. *)
Theorem run_op_commutes V st o t h :
  view_ok V h -> tr V st o = Some t ->
  CoreOps.run_op nv st o h =
  (rs <~ run_ops3 (tr_ops t) ;; x <~ finish (t_kind t) (t_st t) (main_res t rs) ;;
   st' <~ CoreOps.sweep (snd x) ;; ret (fst x, st')) h.
Proof.
  intros HV E. unfold CoreOps.run_op. rewrite (bindM_ext_l _ (run_tr t)) by (by apply (run_op_raw_commutes V)).
  rewrite (bindM_ext_l _ _ _ _ (run_tr_ops t h)). by rewrite bindM_assoc.
Qed.

(** explicit forms *)
Corollary run_op_commutes_Err V st o t h e :
  view_ok V h -> tr V st o = Some t -> run_ops3 (tr_ops t) h = Err e -> CoreOps.run_op nv st o h = Err e.
Proof. intros HV E Hr. rewrite (run_op_commutes V st o t h HV E). unfold bindM at 1. by rewrite Hr. Qed.

Corollary run_op_commutes_Ret V st o t h rs h' :
  view_ok V h -> tr V st o = Some t -> pure_kind (t_kind t) -> run_ops3 (tr_ops t) h = Ret (rs, h') ->
  CoreOps.run_op nv st o h =
  Ret ((enc (t_kind t) (main_res t rs), sweep_st h' (new_pools (t_kind t) (t_st t) (main_res t rs))), h').
Proof.
  intros HV E Hk Hr. rewrite (run_op_commutes V st o t h HV E). rewrite (bindM_Ret _ _ _ _ _ Hr).
  by rewrite (bindM_Ret _ _ _ _ _ (finish_pure _ _ _ _ Hk)).
Qed.

Corollary run_op_commutes_Ret_str V st o t h rs h' s :
  view_ok V h -> tr V st o = Some t -> t_kind t = KStr -> run_ops3 (tr_ops t) h = Ret (rs, h') ->
  CoreOps.opt_cstr (res_ptr3 (main_res t rs)) h' = Ret (s, h') ->
  CoreOps.run_op nv st o h = Ret ((CoreOps.RStr s, sweep_st h' (t_st t)), h').
Proof.
  intros HV E Hk Hr Hs. rewrite (run_op_commutes V st o t h HV E). rewrite (bindM_Ret _ _ _ _ _ Hr).
  rewrite Hk. cbn [finish]. rewrite bindM_assoc. by rewrite (bindM_Ret _ _ _ _ _ Hs).
Qed.

Corollary run_op_commutes_Ret_each V st o t h rs h' a l :
  view_ok V h -> tr V st o = Some t -> t_kind t = KEach a -> run_ops3 (tr_ops t) h = Ret (rs, h') ->
  CoreOps.array_for_each a h' = Ret (l, h') ->
  CoreOps.run_op nv st o h = Ret ((CoreOps.RInts l, sweep_st h' (t_st t)), h').
Proof.
  intros HV E Hk Hr Hs. rewrite (run_op_commutes V st o t h HV E). rewrite (bindM_Ret _ _ _ _ _ Hr).
  rewrite Hk. cbn [finish]. rewrite bindM_assoc. by rewrite (bindM_Ret _ _ _ _ _ Hs).
Qed.

(** the lenient decoders of [finish] never see a result of another shape *)
Lemma tr_shape V st o t m h r h' :
  tr V st o = Some t -> t_main t = Some m -> run_op3 m h = Ret (r, h') -> shape (t_kind t) r.
Proof.
  intros E Em.
  destruct o; cbn [tr] in E; try discriminate E; unfold T0, T1, T2 in E;
    repeat match type of E with
           | context [match ?X with _ => _ end] =>
               lazymatch X with
               | tr_str _ _ _ => destruct X as [[[[? ?] ?] ?]|]; try discriminate E
               end
           end;
    try (destruct strs as [l|]; [destruct (tr_strs V st l) as [[[[? ?] ?] ?]|]; try discriminate E|]);
    injection E as <-; cbn [t_main t_kind] in *; try discriminate Em; injection Em as <-;
    cbn [run_op3 run_op2 run_op A3]; unfold bindM, ret; intros Hr;
    repeat match type of Hr with
           | context [match ?X with Ret _ => _ | Err _ => _ end] =>
               lazymatch X with
               | context [match _ with Ret _ => _ | Err _ => _ end] => fail
               | _ => destruct X as [[? ?]|?]
               end
           end;
    try discriminate Hr; injection Hr as <- _; exact I.
Qed.

(** * the string pool is extended by exactly the identities the declarations return *)
Fixpoint seq_pos (n : positive) (k : nat) : list positive :=
  match k with O => [] | S k' => n :: seq_pos (Pos.succ n) k' end.
Definition pos_shift (n : positive) (k : nat) : positive := Nat.iter k Pos.succ n.
Lemma pos_shift_S n k : pos_shift (Pos.succ n) k = Pos.succ (pos_shift n k).
Proof. unfold pos_shift. induction k as [|k IH]; [done|]. simpl. by rewrite IH. Qed.
Lemma seq_pos_app n k1 k2 : seq_pos n (k1 + k2) = seq_pos n k1 ++ seq_pos (pos_shift n k1) k2.
Proof.
  revert n. induction k1 as [|k1 IH]; intros n; [done|]. cbn [Nat.add seq_pos app]. rewrite IH.
  do 2 f_equal. cbn. by rewrite pos_shift_S.
Qed.

Lemma tr_str_strs V st s p pre st1 V1 :
  tr_str V st s = Some (p, pre, st1, V1) ->
  CoreOps.st_strs st1 = CoreOps.st_strs st ++ (Some <$> seq_pos (v_next V) (length pre)) /\
  v_next V1 = pos_shift (v_next V) (length pre).
Proof.
  destruct s as [|k|b|k|k]; cbn [tr_str]; intros E.
  - injection E as <- <- <- <-. by rewrite app_nil_r.
  - injection E as <- <- <- <-. by rewrite app_nil_r.
  - injection E as <- <- <- <-. done.
  - destruct (v_key V _); [|done]. injection E as <- <- <- <-. by rewrite app_nil_r.
  - destruct (v_val V _); [|done]. injection E as <- <- <- <-. by rewrite app_nil_r.
Qed.
Lemma tr_strs_strs l : forall V st ps pre st1 V1,
  tr_strs V st l = Some (ps, pre, st1, V1) ->
  CoreOps.st_strs st1 = CoreOps.st_strs st ++ (Some <$> seq_pos (v_next V) (length pre)) /\
  v_next V1 = pos_shift (v_next V) (length pre).
Proof.
  induction l as [|a l IH]; intros V st ps pre st1 V1 E; cbn [tr_strs] in E.
  - injection E as <- <- <- <-. by rewrite app_nil_r.
  - destruct (tr_str V st a) as [[[[p pre1] sta] Va]|] eqn:Ea; [|done].
    destruct (tr_strs Va sta l) as [[[[ps2 pre2] st2] V2]|] eqn:El; [|done]. injection E as <- <- <- <-.
    destruct (tr_str_strs _ _ _ _ _ _ _ Ea) as [H1 H2]. destruct (IH _ _ _ _ _ _ El) as [H3 H4].
    rewrite app_length. split.
    + rewrite seq_pos_app, fmap_app, app_assoc, H3, H1, H2. reflexivity.
    + rewrite H4, H2. unfold pos_shift. by rewrite Nat.add_comm, Nat.iter_add.
Qed.

Lemma tr_strs_pushed V st o t :
  tr V st o = Some t -> CoreOps.st_strs (t_st t) = CoreOps.st_strs st ++ (Some <$> seq_pos (v_next V) (length (t_pre t))).
Proof.
  intros E.
  destruct o; cbn [tr] in E; try discriminate E; unfold T0, T1, T2 in E;
    try (injection E as <-; cbn [t_st t_pre length seq_pos fmap list_fmap]; by rewrite app_nil_r).
  all: try (destruct (tr_str V st s) as [[[[p1 pre1] st1] V1]|] eqn:Es; [|discriminate E]).
  all: try (destruct (tr_str V1 st1 v) as [[[[p2 pre2] st2] V2]|] eqn:Ev; [|discriminate E]).
  all: try (injection E as <-; cbn [t_st t_pre]; by apply (tr_str_strs _ _ _ _ _ _ _ Es)).
  - destruct strs as [l|]; [|injection E as <-; cbn [t_st t_pre length seq_pos fmap list_fmap]; by rewrite app_nil_r].
    destruct (tr_strs V st l) as [[[[ps pre] st1] V1]|] eqn:El; [|done]. injection E as <-.
    by apply (tr_strs_strs _ _ _ _ _ _ _ El).
  - injection E as <-. cbn [t_st t_pre]. destruct (tr_str_strs _ _ _ _ _ _ _ Es) as [H1 H2].
    destruct (tr_str_strs _ _ _ _ _ _ _ Ev) as [H3 H4].
    rewrite app_length. rewrite seq_pos_app, fmap_app, app_assoc, H3, H1, H2. reflexivity.
  - injection E as <-. cbn [t_st t_pre]. destruct (tr_str_strs _ _ _ _ _ _ _ Es) as [H1 H2].
    destruct (tr_str_strs _ _ _ _ _ _ _ Ev) as [H3 H4].
    rewrite app_length. rewrite seq_pos_app, fmap_app, app_assoc, H3, H1, H2. reflexivity.
  - injection E as <-. done.
Qed.

(** what the declarations return, in the proof-level run *)
Lemma run_decls_results pre : forall rest h rs h',
  run_ops3 (((fun c => O2 (OForeign c)) <$> pre) ++ rest) h = Ret (rs, h') ->
  take (length pre) rs = (fun x => R (RPtr (Some x))) <$> seq_pos (h_next h) (length pre).
Proof.
  induction pre as [|c pre IH]; intros rest h rs h' E; [done|].
  cbn [fmap list_fmap app run_ops3] in E.
  assert (Hf : run_op3 (O2 (OForeign c)) h = Ret (R (RPtr (Some (h_next h))), foreign_heap h c)) by reflexivity.
  rewrite (bindM_Ret _ _ _ _ _ Hf) in E. unfold bindM in E.
  destruct (run_ops3 _ (foreign_heap h c)) as [[xs h1]|e] eqn:Ex; [|done]. injection E as <- <-.
  cbn [length take seq_pos fmap list_fmap]. f_equal. apply (IH _ _ _ _ Ex).
Qed.

(** THE POOLS AFTER A TRANSLATED CALL, in terms of the proof-level results [rs]: the string pool is the
    old one extended by the identities the declarations returned, the item pool is the old one
    extended by the returned item for the kind [KPush] — then both are swept. *)
Theorem pools_after_call V st o t h rs h' :
  view_ok V h -> tr V st o = Some t -> run_ops3 (tr_ops t) h = Ret (rs, h') ->
  CoreOps.st_strs (t_st t) = CoreOps.st_strs st ++ (res_ptr3 <$> take (length (t_pre t)) rs) /\
  CoreOps.st_items (new_pools (t_kind t) (t_st t) (main_res t rs)) =
    CoreOps.st_items (t_st t) ++ match t_kind t with KPush => [res_ptr3 (main_res t rs)] | _ => [] end.
Proof.
  intros (Hn & _) E Hr. split.
  - rewrite (tr_strs_pushed _ _ _ _ E), Hn. f_equal. unfold tr_ops in Hr.
    rewrite (run_decls_results _ _ _ _ _ Hr). by rewrite <- list_fmap_compose.
  - destruct (t_kind t); cbn [new_pools CoreOps.push_item CoreOps.st_items]; by rewrite ?app_nil_r.
Qed.
