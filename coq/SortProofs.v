(** SortProofs.v — property C19 at heap level: [sort_list] turns a chain of the ids [l] into a chain
    of [isort le l] and touches no other link; [sort_object] turns the canonical encoding of the
    children list [l] into the canonical encoding of the sorted list, for every heap, every object
    size, every key multiset, both variants, with fuel [sort_fuel (length l)]. *)
From CJ Require Import Base Dbl Tree Heap SortDefs SortSpec SortChain SortLoops.
From stdpp Require Import gmap sorting.
Local Open Scope Z_scope.

Section SortList.
  Variable h : heap.
  Variable cs : bool.
  Notation le := (hle h cs).
  Notation ok := (node_ok h).

  Lemma head_app_ne {A} (l1 l2 : list A) : l1 <> [] -> head (l1 ++ l2) = head l1.
  Proof. destruct l1; [congruence|reflexivity]. Qed.

  Lemma sort_list_spec : forall fuel l m,
    (length l + 2 <= fuel)%nat -> chain m l -> NoDup l -> (forall x, x ∈ l -> ok x) ->
    exists m', sort_list fuel (head l) cs (with_lnk h m) = Ret (head (isort le l), with_lnk h m') /\
               chain m' (isort le l) /\
               (forall z, z ∉ l -> m' !! z = m !! z).
  Proof.
    induction fuel as [|f IH]; intros l m Hf Hc Hnd Hok; [lia|].
    destruct l as [|x r].
    { exists m. split; [reflexivity|]. split; [exact I|reflexivity]. }
    assert (ok x) as Hx by (apply Hok; left). pose proof (node_ok_live _ _ Hx) as Lx.
    destruct (chain_head _ _ _ _ Hc) as [px Hmx].
    cbn [sort_list head].
    mstep (get_next_with h m x _ _ Lx Hmx).
    destruct r as [|y r'].
    { exists m. split; [reflexivity|]. split; [exact Hc|reflexivity]. }
    cbn [head]. set (l := x :: y :: r') in *.
    assert (forall z, z ∈ l -> z ∈ h_live h) as Hlive by (intros z Hz; apply node_ok_live, Hok, Hz).
    (* the pre-check *)
    rewrite (bind_eq _ _ _ _ _ (scan_sorted_spec h cs m f l Hc Hok ltac:(cbn [length] in *; lia))).
    destruct (scan_pure_suffix h cs l) as [pre Hpre].
    pose proof (scan_pure_nonempty h cs l ltac:(discriminate)) as Hsne.
    pose proof (scan_pure_sorted h cs l) as Hsorted.
    destruct (scan_pure h cs l) as [|z w] eqn:Esp; [congruence|]. cbn [head]. cbn beta iota.
    assert (chain m (z :: w)) as Hcz by (rewrite Hpre in Hc; eapply seg_suffix; exact Hc).
    assert (z ∈ l) as Hzl by (rewrite Hpre; apply elem_of_app; right; left).
    destruct (chain_head _ _ _ _ Hcz) as [pz Hmz].
    assert ((n' <~ get_next (Some z) ;; ret (match n' with None => true | Some _ => false end)) (with_lnk h m)
            = Ret (match head w with None => true | Some _ => false end, with_lnk h m)) as Hin.
    { mstep (get_next_with h m z _ _ (Hlive z Hzl) Hmz). reflexivity. }
    mstep Hin. clear Hin.
    destruct w as [|w0 w']; cbn [head]; cbn beta iota.
    { (* already sorted: left alone *)
      exists m. rewrite (isort_id le) by (apply Hsorted; cbn; lia).
      split; [reflexivity|]. split; [exact Hc|reflexivity]. }
    clear Hsorted Hcz Hmz Hzl Hpre Hsne Esp pre pz z w0 w'.
    (* the middle *)
    rewrite (bind_eq _ _ _ _ _ (find_middle_spec h m f l l Hc Hc Hlive Hlive ltac:(lia) ltac:(cbn [length] in *; lia))).
    destruct (mid_drop (length l) l l ltac:(lia) ltac:(lia)) as (k & Hmid & Hk).
    rewrite Hmid.
    assert (2 <= length l)%nat as Hlen2 by (cbn; lia).
    assert (1 <= k /\ k < length l)%nat as [Hk1 Hk2] by lia.
    pose proof (take_drop k l) as Htd.
    assert (length (take k l) = k) as Hlt by (rewrite take_length; lia).
    assert (length (drop k l) = (length l - k)%nat) as Hld by (apply drop_length).
    destruct (take k l) as [|t0 l00] eqn:Et using rev_ind; [cbn in Hlt; lia|]. clear IHl00.
    rename t0 into t. rename l00 into l0.
    destruct (drop k l) as [|s r2] eqn:Ed; [exfalso; change (0%nat = (length l - k)%nat) in Hld; lia|].
    assert (l = l0 ++ t :: s :: r2) as El by (rewrite <- Htd, <- app_assoc; reflexivity).
    assert (forall z, z ∈ l0 ++ [t] -> z ∈ l) as In1 by (intros z Hz; rewrite <- Htd; apply elem_of_app; left; exact Hz).
    assert (forall z, z ∈ s :: r2 -> z ∈ l) as In2 by (intros z Hz; rewrite <- Htd; apply elem_of_app; right; exact Hz).
    assert (NoDup (l0 ++ [t]) /\ (forall z, z ∈ l0 ++ [t] -> z ∉ s :: r2) /\ NoDup (s :: r2)) as (Hnd1 & Hdis & Hnd2)
      by (apply NoDup_app; rewrite Htd; exact Hnd).
    (* the cut *)
    assert (t ∈ l) as Htl by (apply In1, elem_of_app; right; left).
    assert (s ∈ l) as Hsl by (apply In2; left).
    destruct (split_spec h m l0 t s r2 ltac:(rewrite <- El; exact Hc) ltac:(rewrite <- El; exact Hnd) (Hlive t Htl) (Hlive s Hsl))
      as (m1 & Hrun1 & Hc1a & Hc1b & Hfr1).
    mstep Hrun1.
    (* first half *)
    assert (Some x = head (l0 ++ [t])) as Hhd.
    { assert (head l = head (l0 ++ [t])) as HH by (rewrite <- Htd; apply head_app_ne; destruct l0; discriminate). exact HH. }
    rewrite Hhd.
    destruct (IH (l0 ++ [t]) m1 ltac:(rewrite Hlt; cbn [length] in *; lia) Hc1a Hnd1 (fun z Hz => Hok z (In1 z Hz)))
      as (m2 & Hrun2 & Hc2 & Hfr2).
    mstep Hrun2.
    (* second half *)
    assert (chain m2 (s :: r2)) as Hc2b.
    { eapply seg_frame; [|exact Hc1b]. intros z Hz. apply Hfr2. intros Hz'. exact (Hdis z Hz' Hz). }
    change (Some s) with (head (s :: r2)).
    destruct (IH (s :: r2) m2 ltac:(rewrite Hld; cbn [length] in *; lia) Hc2b Hnd2 (fun z Hz => Hok z (In2 z Hz)))
      as (m3 & Hrun3 & Hc3 & Hfr3).
    mstep Hrun3.
    set (a := isort le (l0 ++ [t])) in *. set (b := isort le (s :: r2)) in *.
    assert (forall z, z ∈ a <-> z ∈ l0 ++ [t]) as Ina by (intros z; apply isort_elem).
    assert (forall z, z ∈ b <-> z ∈ s :: r2) as Inb by (intros z; apply isort_elem).
    assert (chain m3 a) as Hc3a.
    { eapply seg_frame; [|exact Hc2]. intros z Hz. apply Hfr3. intros Hz'. apply Ina in Hz. exact (Hdis z Hz Hz'). }
    (* the merge *)
    assert (NoDup ([] ++ a ++ b)) as Hndab.
    { cbn [app]. apply NoDup_app. split; [apply isort_NoDup; exact Hnd1|]. split; [|apply isort_NoDup; exact Hnd2].
      intros z Hz Hz'. apply Ina in Hz. apply Inb in Hz'. exact (Hdis z Hz Hz'). }
    assert (forall z, z ∈ [] ++ a ++ b -> z ∈ l) as Inab.
    { cbn [app]. intros z Hz. apply elem_of_app in Hz as [Hz|Hz]; [apply In1, Ina, Hz|apply In2, Inb, Hz]. }
    assert (length a + length b = length l)%nat as Hlab.
    { unfold a, b. rewrite !isort_length, Hlt, Hld. lia. }
    destruct (merge_loop_spec h cs f a b [] m3 ltac:(rewrite Hlab; cbn [length] in *; lia) Hndab
                (fun z Hz => Hok z (Inab z Hz)) Hc3a Hc3 I)
      as (acc' & a' & b' & m4 & Hrun4 & Hor & Heq & Ha4 & Hb4 & Hacc4 & Hfr4 & Hne1 & Hne2).
    cbn [head last] in Hrun4. mstep Hrun4.
    assert (a <> []) as Hane by (intros E; apply isort_nil_inv in E; destruct l0; discriminate).
    assert (b <> []) as Hbne by (intros E; apply isort_nil_inv in E; discriminate).
    cbn [app] in Heq.
    assert (acc' ++ a' ++ b' = isort le l) as Hres.
    { rewrite Heq. unfold a, b. rewrite (merge_isort le (hle_total h cs) (hle_trans h cs)). rewrite Htd. reflexivity. }
    assert (forall z, z ∈ acc' ++ a' ++ b' <-> z ∈ l) as Inres by (intros z; rewrite Hres; apply isort_elem).
    destruct (merge_finish_spec h m4 acc' a' b' Hor (Hne1 (or_introl Hane)) (Hne2 (or_intror (conj Hane Hbne))) Ha4 Hb4 Hacc4
                ltac:(rewrite Hres; apply isort_NoDup; exact Hnd) (fun z Hz => Hlive z (proj1 (Inres z) Hz)))
      as (m5 & Hrun5 & Hc5 & Hfr5).
    exists m5. rewrite Hrun5, Hres. split; [reflexivity|]. split; [rewrite <- Hres; exact Hc5|].
    intros z Hz.
    rewrite Hfr5 by (intros Hz'; apply Hz, Inres, Hz').
    rewrite Hfr4 by (intros Hz'; apply Hz, Inab, Hz').
    rewrite Hfr3 by (intros Hz'; apply Hz, In2, Hz').
    rewrite Hfr2 by (intros Hz'; apply Hz, In1, Hz').
    apply Hfr1; intros ->; apply Hz; assumption.
  Qed.
End SortList.

(** * [sort_object] *)

Definition nd_set_child (d : ndata) (c : ptr) : ndata :=
  mkND (nd_type d) (nd_vstr d) (nd_vint d) (nd_vdbl d) (nd_key d) c.

(** the hypotheses of the theorem: [l] are the children of object [o], canonically linked *)
Record children_of (h : heap) (o : positive) (l : list positive) : Prop := mkCO {
  co_live : o ∈ h_live h;
  co_child : exists d, h_dat h !! o = Some d /\ nd_child d = head l;
  co_nodup : NoDup l;
  co_ok : forall x, x ∈ l -> node_ok h x;                       (* live nodes with readable keys *)
  co_links : forall x, x ∈ l -> h_lnk h !! x = slinks l !! x    (* h_lnk agrees with [slinks l] on [l] *)
}.

Lemma get_child_eq h o d : o ∈ h_live h -> h_dat h !! o = Some d -> get_child (Some o) h = Ret (nd_child d, h).
Proof.
  intros Hl Hd. unfold get_child, ld_dat, bindM, chk, ret.
  destruct (decide (o ∈ h_live h)) as [_|N]; [|contradiction]. rewrite Hd. reflexivity.
Qed.

Lemma set_child_eq h o d c : o ∈ h_live h -> h_dat h !! o = Some d ->
  set_child (Some o) c h = Ret (tt, with_dat h (<[o := nd_set_child d c]> (h_dat h))).
Proof.
  intros Hl Hd. unfold set_child, ld_dat, st_dat, bindM, chk, ret.
  destruct (decide (o ∈ h_live h)) as [_|N]; [|contradiction]. rewrite Hd.
  destruct (decide (o ∈ h_live h)) as [_|N]; [|contradiction]. rewrite Hd. reflexivity.
Qed.

Lemma chain_set_head_prev m x r nx n p q :
  seg m None (x :: r) nx -> m !! x = Some (n, p) -> x ∉ r -> seg (<[x := (n, q)]> m) None (x :: r) nx.
Proof.
  cbn [seg]. intros (n' & p' & Hx & _ & Hn & Hr) Hm Hnr. rewrite Hm in Hx. injection Hx as <- <-.
  exists n, q. split; [apply lookup_insert|]. split; [intros ? ?; discriminate|]. split; [exact Hn|].
  eapply seg_frame; [|exact Hr]. intros z Hz. apply lookup_insert_ne. intros ->. contradiction.
Qed.

Lemma node_ok_with_dat h o d c x :
  h_dat h !! o = Some d -> node_ok (with_dat h (<[o := nd_set_child d c]> (h_dat h))) x <-> node_ok h x.
Proof.
  intros Hd. unfold node_ok, key_ptr. cbn [with_dat h_live h_dat h_str].
  destruct (decide (x = o)) as [->|Hne].
  - rewrite lookup_insert, Hd. cbn [nd_set_child nd_key]. split; intros (H1 & _ & H3); (split; [exact H1|split; [eauto|exact H3]]).
  - rewrite lookup_insert_ne by congruence. reflexivity.
Qed.

Lemma keyof_with_dat h o d c x :
  h_dat h !! o = Some d -> keyof (with_dat h (<[o := nd_set_child d c]> (h_dat h))) x = keyof h x.
Proof.
  intros Hd. unfold keyof, key_ptr. cbn [with_dat h_dat h_str].
  destruct (decide (x = o)) as [->|Hne].
  - rewrite lookup_insert, Hd. reflexivity.
  - rewrite lookup_insert_ne by congruence. reflexivity.
Qed.

Theorem sort_object_correct h o l cs fuel :
  children_of h o l -> (sort_fuel (length l) <= fuel)%nat ->
  let l' := isort (hle h cs) l in
  exists h' d,
    sort_object fuel (Some o) cs h = Ret (tt, h') /\
    h_dat h !! o = Some d /\
    h' = mkHeap (h_lnk h') (<[o := nd_set_child d (head l')]> (h_dat h)) (h_str h) (h_own h) (h_live h)
                (h_next h) (h_req h) (h_hooks h) (h_trace h) /\
    (forall z, z ∉ l -> h_lnk h' !! z = h_lnk h !! z) /\
    children_of h' o l'.
Proof.
  intros [Hlo (d & Hd & Hch) Hnd Hok Hlk] Hf l'.
  assert (chain (h_lnk h) l) as Hc.
  { apply chain_of_canonical. intros k x Hk. rewrite Hlk by (eapply elem_of_list_lookup_2; exact Hk).
    apply slinks_lookup; assumption. }
  unfold sort_fuel in Hf.
  destruct (sort_list_spec h cs fuel l (h_lnk h) ltac:(lia) Hc Hnd Hok) as (m1 & Hrun1 & Hc1 & Hfr1).
  fold l' in Hrun1, Hc1. rewrite with_lnk_id in Hrun1.
  assert (forall z, z ∈ l' <-> z ∈ l) as Inl by (intros z; apply isort_elem).
  assert (NoDup l') as Hnd' by (apply isort_NoDup; exact Hnd).
  assert (length l' = length l) as Hlen by (apply isort_length).
  set (d' := nd_set_child d (head l')).
  set (hb := with_dat h (<[o := d']> (h_dat h))).
  assert (h_dat hb !! o = Some d') as Hd' by (apply lookup_insert).
  assert (forall m, with_dat (with_lnk h m) (<[o := d']> (h_dat h)) = with_lnk hb m) as Ehb by reflexivity.
  exists (match l' with
          | [] => with_lnk hb m1
          | x0 :: _ => with_lnk hb (<[x0 := (match m1 !! x0 with Some np => fst np | None => None end, last l')]> m1)
          end), d.
  assert (forall x, x ∈ l' -> node_ok hb x) as Hok'.
  { intros x Hx. apply (node_ok_with_dat h o d (head l') x Hd). apply Hok, Inl, Hx. }
  destruct l' as [|x0 r0] eqn:El'.
  - (* no children *)
    split; [|split; [exact Hd|split; [reflexivity|split; [exact Hfr1|]]]].
    + unfold sort_object.
      mstep (get_child_eq h o d Hlo Hd). rewrite Hch.
      mstep Hrun1.
      mstep (set_child_eq (with_lnk h m1) o d None Hlo Hd). rewrite Ehb.
      mstep (get_child_eq (with_lnk hb m1) o d' Hlo Hd'). reflexivity.
    + split; [exact Hlo|exists d'; split; [exact Hd'|reflexivity]|constructor|intros x Hx; inversion Hx|intros x Hx; inversion Hx].
  - (* walk to the last child, restore head.prev *)
    destruct (last_is_Some (x0 :: r0)) as [_ HL]. destruct (HL ltac:(discriminate)) as [t Ht]. clear HL.
    apply last_Some in Ht as Ht'. destruct Ht' as [l0 El0].
    assert (forall z, z ∈ x0 :: r0 -> z ∈ h_live hb) as Hlive.
    { intros z Hz. apply node_ok_live with (h := h). apply Hok, Inl, Hz. }
    destruct (chain_head _ _ _ _ Hc1) as [p0 Hm0].
    rewrite Hm0. cbn [fst]. rewrite Ht.
    set (m2 := <[x0 := (head r0, Some t)]> m1).
    assert (chain m2 (x0 :: r0)) as Hc2.
    { apply (chain_set_head_prev m1 x0 r0 (Some None) (head r0) p0 (Some t) Hc1 Hm0).
      apply NoDup_cons in Hnd' as [H _]. exact H. }
    split; [|split; [exact Hd|split; [reflexivity|split]]].
    + unfold sort_object.
      mstep (get_child_eq h o d Hlo Hd). rewrite Hch.
      mstep Hrun1.
      mstep (set_child_eq (with_lnk h m1) o d (Some x0) Hlo Hd). rewrite Ehb.
      mstep (get_child_eq (with_lnk hb m1) o d' Hlo Hd'). cbn [d' nd_set_child nd_child head].
      mstep (get_child_eq (with_lnk hb m1) o d' Hlo Hd'). cbn [d' nd_set_child nd_child head].
      assert (find_last fuel (Some x0) (with_lnk hb m1) = Ret (Some t, with_lnk hb m1)) as Hfl.
      { change (Some x0) with (head (x0 :: r0)). rewrite El0.
        apply find_last_spec.
        - rewrite <- El0. exact Hc1.
        - rewrite <- El0. exact Hlive.
        - assert (length (x0 :: r0) = S (length l0)) as HH by (rewrite El0, app_length; cbn; lia). lia. }
      mstep Hfl.
      mstep (get_child_eq (with_lnk hb m1) o d' Hlo Hd'). cbn [d' nd_set_child nd_child head].
      apply (set_prev_with hb m1 x0 _ _ (Some t) (Hlive x0 (elem_of_list_here _ _)) Hm0).
    + cbn [h_lnk with_lnk]. intros z Hz. unfold m2. rewrite lookup_insert_ne; [apply Hfr1; exact Hz|].
      intros ->. apply Hz, Inl. left.
    + split.
      * exact Hlo.
      * exists d'. split; [exact Hd'|reflexivity].
      * exact Hnd'.
      * intros x Hx. apply Hok'. exact Hx.
      * cbn [h_lnk with_lnk]. intros x Hx.
        apply elem_of_list_lookup_1 in Hx as [k Hk].
        rewrite (slinks_lookup _ _ _ Hnd' Hk).
        apply (canonical_of_chain m2 (x0 :: r0) x0 Hc2 eq_refl); [|exact Hk].
        exists (head r0). unfold m2. rewrite lookup_insert, Ht. reflexivity.
Qed.

(** * Consequences *)

(** the order of the children after the sort is [sort_spec] applied to the (id, key) pairs *)
Lemma isort_hle_sort_spec h cs l :
  isort (hle h cs) l = map fst (sort_spec cs (map (fun x => (x, keyof h x)) l)).
Proof.
  unfold sort_spec. rewrite (isort_map (fun x => (x, keyof h x)) (member_le cs)).
  rewrite map_map. cbn [fst]. rewrite map_id. reflexivity.
Qed.

Lemma sorted_children_perm h cs l : Permutation (isort (hle h cs) l) l.
Proof. apply isort_perm. Qed.

Lemma sorted_children_sorted h cs l :
  StronglySorted (fun x y => key_le cs (keyof h x) (keyof h y) = true) (isort (hle h cs) l).
Proof. apply (isort_StronglySorted (hle h cs) (hle_total h cs) (hle_trans h cs)). Qed.

(** idempotence: sorting the result again yields the very same heap *)
Theorem sort_object_idempotent h o l cs fuel h1 :
  children_of h o l -> (sort_fuel (length l) <= fuel)%nat ->
  sort_object fuel (Some o) cs h = Ret (tt, h1) ->
  sort_object fuel (Some o) cs h1 = Ret (tt, h1).
Proof.
  intros Hco Hf Hrun.
  destruct (sort_object_correct h o l cs fuel Hco Hf) as (h1' & d & Hrun' & Hd & Eh1 & Hfr & Hco1).
  rewrite Hrun in Hrun'. injection Hrun' as <-.
  set (l1 := isort (hle h cs) l) in *.
  assert (length l1 = length l) as Hlen by apply isort_length.
  destruct (sort_object_correct h1 o l1 cs fuel Hco1 ltac:(rewrite Hlen; exact Hf)) as (h2 & d1 & Hrun2 & Hd1 & Eh2 & Hfr2 & Hco2).
  rewrite Hrun2. f_equal. f_equal.
  (* the keys did not move, so the second sort orders as the first; a sorted list is left alone *)
  assert (forall a b, hle h1 cs a b = hle h cs a b) as Hle.
  { assert (forall a, keyof h1 a = keyof h a) as Hk.
    { intros a. rewrite Eh1. exact (keyof_with_dat (with_lnk h (h_lnk h1)) o d (head l1) a Hd). }
    intros a b. unfold hle. rewrite !Hk. reflexivity. }
  assert (isort (hle h1 cs) l1 = l1) as Hl2.
  { rewrite (isort_ext _ _ _ Hle). apply (isort_idem _ (hle_total h cs)). }
  rewrite Hl2 in *.
  assert (h_lnk h2 = h_lnk h1) as Elnk.
  { apply map_eq. intros z. destruct (decide (z ∈ l1)) as [Hz|Hz].
    - rewrite (co_links _ _ _ Hco2 z Hz), (co_links _ _ _ Hco1 z Hz). reflexivity.
    - apply Hfr2. exact Hz. }
  pose proof (f_equal h_dat Eh1) as Hdat. pose proof (f_equal h_str Eh1) as Hstr.
  pose proof (f_equal h_own Eh1) as Hown. pose proof (f_equal h_live Eh1) as Hliv.
  pose proof (f_equal h_next Eh1) as Hnxt. pose proof (f_equal h_req Eh1) as Hreq.
  pose proof (f_equal h_hooks Eh1) as Hhk. pose proof (f_equal h_trace Eh1) as Htr.
  cbn [h_dat h_str h_own h_live h_next h_req h_hooks h_trace] in Hdat, Hstr, Hown, Hliv, Hnxt, Hreq, Hhk, Htr.
  rewrite Hdat, lookup_insert in Hd1. injection Hd1 as <-.
  rewrite Eh2, Elnk, Hdat, Hstr, Hown, Hliv, Hnxt, Hreq, Hhk, Htr.
  etransitivity; [|symmetry; exact Eh1].
  rewrite insert_insert. reflexivity.
Qed.
