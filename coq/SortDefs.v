(** SortDefs.v — property C19: transliteration of [compare_strings], [sort_list], [sort_object],
    [cJSONUtils_SortObject[CaseSensitive]] (cJSON_Utils.c) in the heap monad of Heap.v, the
    declarative specification [sort_spec] (stable insertion sort by the key order of the variant),
    and the executable helpers the correspondence driver needs (materialise a value-level tree
    into a heap, read it back, read a sibling chain, check its link health).  No proofs here. *)
From CJ Require Import Base Dbl Tree Heap.
From stdpp Require Import gmap.
Local Open Scope Z_scope.

(** * The C code *)

(** [static int compare_strings(const unsigned char *string1, const unsigned char *string2,
    const cJSON_bool case_sensitive)]: NULL is unequal to everything (returns 1), the same
    pointer is equal without being read, otherwise strcmp / the tolower loop.  Only the sign of
    the result is used by the callers. *)
Definition compare_strings (string1 string2 : ptr) (case_sensitive : bool) : M Z :=
  match string1, string2 with
  | Some a, Some b =>
      if Pos.eqb a b then ret 0
      else
        x <~ ld_cstr string1 ;;
        y <~ ld_cstr string2 ;;
        ret (if case_sensitive then strcmp x y else strcasecmp_c x y)
  | _, _ => ret 1
  end.

Definition ptr_eqb (a b : ptr) : bool :=
  match a, b with
  | None, None => true
  | Some x, Some y => Pos.eqb x y
  | _, _ => false
  end.

(** [while ((current_item != NULL) && (current_item->next != NULL) &&
           (compare_strings(current_item->string, current_item->next->string, cs) < 0))
      current_item = current_item->next;]
    returns [current_item] at loop exit *)
Fixpoint scan_sorted (fuel : nat) (current_item : ptr) (cs : bool) : M ptr :=
  match fuel with
  | O => fail NoFuel
  | S f =>
      match current_item with
      | None => ret current_item
      | Some _ =>
          nx <~ get_next current_item ;;
          match nx with
          | None => ret current_item
          | Some _ =>
              k1 <~ get_key current_item ;;
              nx2 <~ get_next current_item ;;
              k2 <~ get_key nx2 ;;
              c <~ compare_strings k1 k2 cs ;;
              if c <? 0 then (nx3 <~ get_next current_item ;; scan_sorted f nx3 cs)
              else ret current_item
          end
      end
  end.

(** [while (current_item != NULL) { second = second->next; current_item = current_item->next;
      if (current_item != NULL) current_item = current_item->next; }]   returns [second] *)
Fixpoint find_middle (fuel : nat) (second current_item : ptr) : M ptr :=
  match fuel with
  | O => fail NoFuel
  | S f =>
      match current_item with
      | None => ret second
      | Some _ =>
          second' <~ get_next second ;;
          c1 <~ get_next current_item ;;
          match c1 with
          | None => find_middle f second' c1
          | Some _ => c2 <~ get_next c1 ;; find_middle f second' c2
          end
      end
  end.

(** [if ((second != NULL) && (second->prev != NULL)) { second->prev->next = NULL; second->prev = NULL; }] *)
Definition split_before (second : ptr) : M unit :=
  match second with
  | None => ret tt
  | Some _ =>
      sp <~ get_prev second ;;
      match sp with
      | None => ret tt
      | Some _ =>
          sp2 <~ get_prev second ;;
          set_next sp2 None ;;;
          set_prev second None
      end
  end.

(** the merge loop; returns (first, second, result, result_tail) at loop exit *)
Fixpoint merge_loop (fuel : nat) (first second result result_tail : ptr) (cs : bool)
  : M (ptr * ptr * ptr * ptr) :=
  match fuel with
  | O => fail NoFuel
  | S f =>
      match first, second with
      | Some _, Some _ =>
          k1 <~ get_key first ;;
          k2 <~ get_key second ;;
          c <~ compare_strings k1 k2 cs ;;
          let smaller := if c <=? 0 then first else second in
          rt <~ (match result with
                 | None => ret (smaller, smaller)          (* result_tail = smaller; result = smaller; *)
                 | Some _ =>
                     set_next result_tail smaller ;;;       (* result_tail->next = smaller; *)
                     set_prev smaller result_tail ;;;       (* smaller->prev = result_tail; *)
                     ret (result, smaller)                  (* result_tail = smaller; *)
                 end) ;;
          if ptr_eqb first smaller
          then (n <~ get_next first ;; merge_loop f n second (fst rt) (snd rt) cs)
          else (n <~ get_next second ;; merge_loop f first n (fst rt) (snd rt) cs)
      | _, _ => ret (first, second, result, result_tail)
      end
  end.

(** [if (rest != NULL) { if (result == NULL) return rest; result_tail->next = rest; rest->prev = result_tail; }]
    followed by the continuation [k] *)
Definition append_rest (rest result result_tail : ptr) (k : M ptr) : M ptr :=
  match rest with
  | None => k
  | Some _ =>
      match result with
      | None => ret rest
      | Some _ => set_next result_tail rest ;;; set_prev rest result_tail ;;; k
      end
  end.

Definition merge_finish (first second result result_tail : ptr) : M ptr :=
  append_rest first result result_tail (append_rest second result result_tail (ret result)).

(** [static cJSON *sort_list(cJSON *list, const cJSON_bool case_sensitive)]; the recursion and
    the inner loops run on the same fuel *)
Fixpoint sort_list (fuel : nat) (list : ptr) (cs : bool) : M ptr :=
  match fuel with
  | O => fail NoFuel
  | S f =>
      match list with
      | None => ret list
      | Some _ =>
          n <~ get_next list ;;
          match n with
          | None => ret list                           (* One entry is sorted already. *)
          | Some _ =>
              cur <~ scan_sorted f list cs ;;
              sorted <~ (match cur with
                         | None => ret true
                         | Some _ => n' <~ get_next cur ;; ret (match n' with None => true | Some _ => false end)
                         end) ;;
              if (sorted : bool) then ret list          (* Leave sorted lists unmodified. *)
              else
                second <~ find_middle f list list ;;
                split_before second ;;;
                first' <~ sort_list f list cs ;;
                second' <~ sort_list f second cs ;;
                st <~ merge_loop f first' second' None None cs ;;
                let '(a, b, r, t) := st in
                merge_finish a b r t
          end
      end
  end.

(** [while (last->next != NULL) last = last->next;] *)
Fixpoint find_last (fuel : nat) (last : ptr) : M ptr :=
  match fuel with
  | O => fail NoFuel
  | S f =>
      n <~ get_next last ;;
      match n with
      | None => ret last
      | Some _ => n' <~ get_next last ;; find_last f n'
      end
  end.

(** [static void sort_object(cJSON * const object, const cJSON_bool case_sensitive)], including
    the restoration of the link from the first to the last child *)
Definition sort_object (fuel : nat) (object : ptr) (cs : bool) : M unit :=
  match object with
  | None => ret tt
  | Some _ =>
      c <~ get_child object ;;
      r <~ sort_list fuel c cs ;;
      set_child object r ;;;
      c1 <~ get_child object ;;
      match c1 with
      | None => ret tt
      | Some _ =>
          c2 <~ get_child object ;;
          last <~ find_last fuel c2 ;;
          c3 <~ get_child object ;;
          set_prev c3 last
      end
  end.

Definition cJSONUtils_SortObject (fuel : nat) (object : ptr) : M unit := sort_object fuel object false.
Definition cJSONUtils_SortObjectCaseSensitive (fuel : nat) (object : ptr) : M unit := sort_object fuel object true.

(** fuel that is always enough for a chain of [n] children (SortProofs.sort_object_correct) *)
Definition sort_fuel (n : nat) : nat := n + 2.

(** * The specification *)

(** the key order of the variant: byte order (strcmp) or ASCII-case-folded order *)
Definition key_cmp (cs : bool) (a b : bytes) : Z := if cs then strcmp a b else strcasecmp_c a b.
Definition key_le (cs : bool) (a b : bytes) : bool := key_cmp cs a b <=? 0.

(** stable insertion sort for a decidable order [le]: an element goes in front of the first
    element it is [le] to, and the elements are inserted from the right, so equal elements keep
    their relative order *)
Section ISort.
  Context {A : Type} (le : A -> A -> bool).
  Fixpoint insert_sorted (x : A) (l : list A) : list A :=
    match l with
    | [] => [x]
    | y :: r => if le x y then x :: y :: r else y :: insert_sorted x r
    end.
  Fixpoint isort (l : list A) : list A :=
    match l with
    | [] => []
    | x :: r => insert_sorted x (isort r)
    end.
  (** the merge the C loop performs: on [le a b] (in particular on ties) take from the first run *)
  Fixpoint merge_runs (l1 : list A) : list A -> list A :=
    fix inner (l2 : list A) : list A :=
      match l1, l2 with
      | [], _ => l2
      | _, [] => l1
      | a :: l1', b :: l2' => if le a b then a :: merge_runs l1' l2 else b :: inner l2'
      end.
End ISort.

(** members are (identity, key) pairs *)
Definition member_le (cs : bool) (a b : positive * bytes) : bool := key_le cs (snd a) (snd b).
Definition sort_spec (cs : bool) (l : list (positive * bytes)) : list (positive * bytes) :=
  isort (member_le cs) l.

(** * The canonical sibling links of a children list (same definition as Forest.links, DESIGN
      Appendix A): next forward, prev backward, the head's prev designates the last child *)
Definition slink_at (l : list positive) (k : nat) : ptr * ptr :=
  (l !! S k, match k with S k' => l !! k' | O => last l end).
Definition slinks (l : list positive) : gmap positive (ptr * ptr) :=
  list_to_map (imap (fun k x => (x, slink_at l k)) l).

(** * Executable helpers for the correspondence driver (not part of the C code) *)

Definition no_fail : nat -> bool := fun _ => false.
Definition flag_set (ty flag : Z) : bool := negb (Z.land ty flag =? 0).

(** what harness/impl_driver.c [build_node] does: node, strings (foreign when the type carries
    cJSON_IsReference = 256 / cJSON_StringIsConst = 512), children linked by the cJSON convention *)
Fixpoint materialize (n : node) : M ptr :=
  match n with
  | Node ty vs vi vd key ch =>
      p <~ alloc_node no_fail ;;
      vsp <~ (match vs with
              | None => ret None
              | Some s => if flag_set ty 256 then foreign_bytes (s ++ [0]) else alloc_bytes no_fail (s ++ [0])
              end) ;;
      kp <~ (match key with
             | None => ret None
             | Some s => if flag_set ty 512 then foreign_bytes (s ++ [0]) else alloc_bytes no_fail (s ++ [0])
             end) ;;
      st_dat p (mkND ty vsp vi vd kp None) ;;;
      (fix go (l : list node) (last : ptr) : M unit :=
         match l with
         | [] => match last with
                 | None => ret tt
                 | Some _ => c <~ get_child p ;; set_prev c last
                 end
         | c :: r =>
             cp <~ materialize c ;;
             (match last with
              | None => set_child p cp
              | Some _ => set_next last cp ;;; set_prev cp last
              end) ;;;
             go r cp
         end) ch None ;;;
      ret p
  end.

(** the ids of a NULL-terminated next-chain *)
Fixpoint chain_ids (fuel : nat) (p : ptr) : M (list positive) :=
  match p with
  | None => ret []
  | Some x =>
      match fuel with
      | O => fail NoFuel
      | S f => n <~ get_next p ;; r <~ chain_ids f n ;; ret (x :: r)
      end
  end.

Definition opt_cstr (p : ptr) : M (option bytes) :=
  match p with
  | None => ret None
  | Some _ => s <~ ld_cstr p ;; ret (Some s)
  end.

(** read a tree back from the heap (follows child / next) *)
Fixpoint read_node (fuel : nat) (p : ptr) : M node :=
  match fuel with
  | O => fail NoFuel
  | S f =>
      d <~ ld_dat p ;;
      vs <~ opt_cstr (nd_vstr d) ;;
      key <~ opt_cstr (nd_key d) ;;
      ch <~ (fix go (k : nat) (c : ptr) : M (list node) :=
               match c with
               | None => ret []
               | Some _ =>
                   match k with
                   | O => fail NoFuel
                   | S k' => x <~ read_node f c ;; n <~ get_next c ;; r <~ go k' n ;; ret (x :: r)
                   end
               end) fuel (nd_child d) ;;
      ret (Node (nd_type d) vs (nd_vint d) (nd_vdbl d) key ch)
  end.

Definition ptr_pair_eqb (a b : ptr * ptr) : bool := ptr_eqb (fst a) (fst b) && ptr_eqb (snd a) (snd b).

(** link health of the children chain of [object]: the link map agrees with [slinks] of the
    children ids on every child (next/prev mirror, head.prev = tail, tail.next = NULL) *)
Definition chain_healthy (fuel : nat) (object : ptr) : M bool :=
  c <~ get_child object ;;
  l <~ chain_ids fuel c ;;
  h <~ get_heap ;;
  ret (forallb (fun x => match h_lnk h !! x, slinks l !! x with
                         | Some a, Some b => ptr_pair_eqb a b
                         | _, _ => false
                         end) l).

(** the keys of a list of nodes, as [sort_spec] wants them *)
Fixpoint member_keys (l : list positive) : M (list (positive * bytes)) :=
  match l with
  | [] => ret []
  | x :: r =>
      k <~ get_key (Some x) ;;
      s <~ opt_cstr k ;;
      rest <~ member_keys r ;;
      ret ((x, match s with Some b => b | None => [] end) :: rest)
  end.

(** one whole driver case: build the object, sort it twice, report
    (children ids before, after the first sort, after the second sort, health after each sort,
     the tree read back after the first sort, the prediction of [sort_spec]) *)
Record sort_report : Type := mkSR {
  sr_before : list positive;
  sr_after : list positive;
  sr_after2 : list positive;
  sr_healthy : bool;
  sr_healthy2 : bool;
  sr_tree : node;
  sr_spec : list positive
}.

Definition run_sort_case (cs : bool) (root : node) : out sort_report :=
  let fuel := S (node_size root) in
  match (o <~ materialize root ;;
         c <~ get_child o ;;
         before <~ chain_ids fuel c ;;
         keys <~ member_keys before ;;
         sort_object (sort_fuel (length before)) o cs ;;;
         c1 <~ get_child o ;;
         after <~ chain_ids fuel c1 ;;
         h1 <~ chain_healthy fuel o ;;
         t <~ read_node fuel o ;;
         sort_object (sort_fuel (length before)) o cs ;;;
         c2 <~ get_child o ;;
         after2 <~ chain_ids fuel c2 ;;
         h2 <~ chain_healthy fuel o ;;
         ret (mkSR before after after2 h1 h2 t (map fst (sort_spec cs keys)))) empty_heap with
  | Ret (r, _) => Ret r
  | Err e => Err e
  end.
