(** CompareProofs.v — proofs about the transliteration of cJSON_Compare (CompareDefs.v):
    totality, agreement with the declarative relation [sem_eq], symmetry, reflexivity,
    irrelevance of ownership flags, and the facts about compare_double. *)
From CJ Require Import Base Dbl Tree CompareDefs.
Local Open Scope Z_scope.

(** * Part 1: doubles *)

Lemma SFcompare_antisym a b : SFcompare a b = option_map CompOpp (SFcompare b a).
Proof.
  destruct a as [sa|sa| |sa ma ea], b as [sb|sb| |sb mb eb]; cbn [SFcompare option_map];
    try reflexivity;
    try (destruct sa; reflexivity); try (destruct sb; reflexivity);
    try (destruct sa, sb; reflexivity).
  change (Pos.compare_cont Eq ma mb) with (ma ?= mb)%positive.
  change (Pos.compare_cont Eq mb ma) with (mb ?= ma)%positive.
  rewrite (Z.compare_antisym eb ea), (Pos.compare_antisym mb ma).
  destruct sa, sb; cbn [CompOpp]; try reflexivity.
  - destruct (eb ?= ea); cbn [CompOpp]; rewrite ?CompOpp_involutive; reflexivity.
  - destruct (eb ?= ea); cbn [CompOpp]; rewrite ?CompOpp_involutive; reflexivity.
Qed.

Lemma SFcompare_refl x : is_nan x = false -> SFcompare x x = Some Eq.
Proof.
  destruct x as [s|s| |s m e]; cbn [SFcompare is_nan]; intro H; try discriminate.
  - reflexivity.
  - destruct s; reflexivity.
  - change (Pos.compare_cont Eq m m) with (m ?= m)%positive.
    rewrite Z.compare_refl, Pos.compare_refl. destruct s; reflexivity.
Qed.

(* [Some Eq] between absolute values means the very same representation *)
Lemma SFcompare_abs_eq a b : SFcompare (SFabs a) (SFabs b) = Some Eq -> SFabs a = SFabs b.
Proof.
  destruct a as [sa|sa| |sa ma ea], b as [sb|sb| |sb mb eb]; cbn [SFcompare SFabs];
    intro H; try discriminate; try reflexivity.
  change (Pos.compare_cont Eq ma mb) with (ma ?= mb)%positive in H.
  destruct (ea ?= eb) eqn:Ee; try discriminate.
  apply Z.compare_eq in Ee. injection H as H. apply Pos.compare_eq in H. subst. reflexivity.
Qed.

Lemma deq_sym a b : deq a b = deq b a.
Proof.
  unfold deq, SFeqb. rewrite (SFcompare_antisym a b).
  destruct (SFcompare b a) as [[| |]|]; reflexivity.
Qed.

(* the sign argument of the rounding functions only ends up in the sign of the result *)
Lemma binary_round_aux_abs s1 s2 m e l :
  SFabs (binary_round_aux prec emax s1 m e l) = SFabs (binary_round_aux prec emax s2 m e l).
Proof.
  unfold binary_round_aux.
  destruct (shr_fexp prec emax m e l) as [mrs' e'].
  destruct (shr_fexp prec emax (round_nearest_even (shr_m mrs') (loc_of_shr_record mrs')) e' loc_Exact)
    as [mrs'' e''].
  destruct (shr_m mrs''); try reflexivity.
  destruct (Zle_bool e'' (emax - prec)); reflexivity.
Qed.

Lemma binary_round_abs s1 s2 m e :
  SFabs (binary_round prec emax s1 m e) = SFabs (binary_round prec emax s2 m e).
Proof.
  unfold binary_round.
  destruct (shl_align m e (fexp prec emax (Z.pos (digits2_pos m) + e))) as [mz ez].
  apply binary_round_aux_abs.
Qed.

Lemma binary_normalize_opp_abs z e :
  SFabs (binary_normalize prec emax (- z) e false) = SFabs (binary_normalize prec emax z e false).
Proof.
  destruct z as [|p|p]; cbn [Z.opp binary_normalize]; try reflexivity; apply binary_round_abs.
Qed.

Lemma dsub_abs_sym a b : dabs (dsub a b) = dabs (dsub b a).
Proof.
  unfold dabs, dsub.
  destruct a as [sa|sa| |sa ma ea], b as [sb|sb| |sb mb eb]; cbn [SFsub SFabs]; try reflexivity.
  - destruct sa, sb; reflexivity.
  - destruct sa, sb; reflexivity.
  - rewrite (Z.min_comm eb ea).
    set (X := cond_Zopp sa (Z.pos (fst (shl_align ma ea (Z.min ea eb))))).
    set (Y := cond_Zopp sb (Z.pos (fst (shl_align mb eb (Z.min ea eb))))).
    replace (Y - X) with (- (X - Y)) by lia.
    symmetry. apply binary_normalize_opp_abs.
Qed.

Lemma dlt_nan_l x : dlt S754_nan x = false.
Proof. reflexivity. Qed.
Lemma dlt_nan_r x : dlt x S754_nan = false.
Proof. destruct x; reflexivity. Qed.
Lemma dle_nan_l x : dle S754_nan x = false.
Proof. reflexivity. Qed.

Lemma compare_double_nan_l y : compare_double S754_nan y = false.
Proof.
  unfold compare_double. rewrite dlt_nan_r.
  destruct (dlt DBL_MAX (dabs y)).
  - reflexivity.
  - reflexivity.
Qed.

Lemma compare_double_nan_r x : compare_double x S754_nan = false.
Proof.
  unfold compare_double. change (dabs S754_nan) with S754_nan. rewrite dlt_nan_l, dlt_nan_r.
  unfold dsub. destruct x; reflexivity.
Qed.

Lemma compare_double_sym a b : compare_double a b = compare_double b a.
Proof.
  destruct (is_nan a) eqn:Na.
  { destruct a; try discriminate. rewrite compare_double_nan_l, compare_double_nan_r. reflexivity. }
  destruct (is_nan b) eqn:Nb.
  { destruct b; try discriminate. rewrite compare_double_nan_l, compare_double_nan_r. reflexivity. }
  unfold compare_double.
  assert (Hmax : (if dlt (dabs b) (dabs a) then dabs a else dabs b) =
                 (if dlt (dabs a) (dabs b) then dabs b else dabs a)).
  { unfold dlt, SFltb, dabs. rewrite (SFcompare_antisym (SFabs b) (SFabs a)).
    destruct (SFcompare (SFabs a) (SFabs b)) as [[| |]|] eqn:E; cbn [option_map CompOpp]; try reflexivity.
    - symmetry. apply SFcompare_abs_eq. exact E.
    - destruct a, b; try discriminate; cbn [SFabs SFcompare] in E; discriminate. }
  rewrite Hmax, (deq_sym a b), (dsub_abs_sym a b). reflexivity.
Qed.

(* shifting and rounding a non-negative mantissa never produces a negative one *)
Lemma shr_1_nonneg mrs : 0 <= shr_m mrs -> 0 <= shr_m (shr_1 mrs).
Proof.
  destruct mrs as [m r s]. destruct m as [|[p|p|]|[p|p|]]; cbn [shr_1 shr_m]; lia.
Qed.

Lemma iter_shr_1_nonneg p : forall mrs, 0 <= shr_m mrs -> 0 <= shr_m (SpecFloat.iter_pos shr_1 p mrs).
Proof.
  induction p as [p IH|p IH|]; intros mrs H; cbn [SpecFloat.iter_pos].
  - apply IH, IH, shr_1_nonneg, H.
  - apply IH, IH, H.
  - apply shr_1_nonneg, H.
Qed.

Lemma shr_fexp_nonneg m e l : 0 <= m -> 0 <= shr_m (fst (shr_fexp prec emax m e l)).
Proof.
  intro H. unfold shr_fexp, shr.
  assert (H0 : 0 <= shr_m (shr_record_of_loc m l)) by (destruct l as [|[| |]]; exact H).
  destruct (fexp prec emax (Zdigits2 m + e) - e); cbn [fst]; try exact H0.
  apply iter_shr_1_nonneg, H0.
Qed.

Lemma round_nearest_even_nonneg m l : 0 <= m -> 0 <= round_nearest_even m l.
Proof.
  intro H. unfold round_nearest_even. destruct l as [|[| |]]; try lia.
  destruct (Z.even m); lia.
Qed.

Lemma dle_zero_binary_round_aux m e l :
  0 <= m -> dle (S754_zero false) (binary_round_aux prec emax false m e l) = true.
Proof.
  intro H. unfold binary_round_aux.
  pose proof (shr_fexp_nonneg m e l H) as H1.
  destruct (shr_fexp prec emax m e l) as [mrs' e']. cbn [fst] in H1.
  pose proof (shr_fexp_nonneg _ e' loc_Exact
                (round_nearest_even_nonneg (shr_m mrs') (loc_of_shr_record mrs') H1)) as H2.
  destruct (shr_fexp prec emax (round_nearest_even (shr_m mrs') (loc_of_shr_record mrs')) e' loc_Exact)
    as [mrs'' e'']. cbn [fst] in H2.
  destruct (shr_m mrs'') as [|p|p].
  - reflexivity.
  - destruct (Zle_bool e'' (emax - prec)); reflexivity.
  - lia.
Qed.

Lemma compare_double_refl x : is_nan x = false -> compare_double x x = true.
Proof.
  intro N. unfold compare_double.
  assert (Hlt : dlt (dabs x) (dabs x) = false).
  { unfold dlt, SFltb, dabs. rewrite SFcompare_refl; [reflexivity|]. destruct x; try discriminate; reflexivity. }
  rewrite Hlt.
  destruct (dlt DBL_MAX (dabs x)) eqn:Hbig.
  { unfold deq, SFeqb. rewrite SFcompare_refl by exact N. reflexivity. }
  destruct x as [s|s| |s m e]; try discriminate.
  - destruct s; reflexivity.
  - unfold dsub, dabs, dmul, DBL_EPSILON. cbn [SFsub SFabs SFmul xorb].
    rewrite Z.min_id. rewrite Z.sub_diag.
    cbn [binary_normalize SFabs].
    apply dle_zero_binary_round_aux. lia.
Qed.

Lemma compare_double_fin_nonfin x y :
  is_finite x = true -> is_finite y = false -> compare_double x y = false.
Proof.
  intros Fx Fy. destruct y as [sy|sy| |sy my ey]; try discriminate.
  - destruct x as [sx|sx| |sx mx ex]; try discriminate.
    + destruct sx, sy; reflexivity.
    + destruct sx, sy; reflexivity.
  - apply compare_double_nan_r.
Qed.

Lemma compare_double_facts : forall x y,
  compare_double x y = compare_double y x /\
  (is_nan x = false -> compare_double x x = true) /\
  (is_finite x = true -> is_finite y = false -> compare_double x y = false).
Proof.
  intros x y. split; [apply compare_double_sym|]. split; [apply compare_double_refl|].
  apply compare_double_fin_nonfin.
Qed.

Lemma compare_double_pinned_refuted :
  exists x y, is_finite x = true /\ is_finite y = false /\ compare_double_pinned x y = true.
Proof.
  exists (S754_finite false 4503599627370496 (-52)), (S754_infinity false).
  vm_compute. repeat split.
Qed.

(** * Part 2: strings and keys *)

Lemma strcmp_zero_iff a : forall b, nonzero_bytes a -> nonzero_bytes b -> (strcmp a b = 0 <-> a = b).
Proof.
  induction a as [|x a IH]; intros [|y b] Ha Hb; cbn [strcmp].
  - tauto.
  - inversion Hb; subst. split; [intro; lia | discriminate].
  - inversion Ha; subst. split; [intro; lia | discriminate].
  - inversion Ha as [|? ? Hx Ha']; subst. inversion Hb as [|? ? Hy Hb']; subst.
    destruct (Z.eqb_spec x y) as [->|N].
    + rewrite (IH b Ha' Hb'). split; [intros ->; reflexivity | intro H; injection H; auto].
    + split; [intro; lia | intro H; injection H; intros; contradiction].
Qed.

Lemma tolower_pos c : 0 < c -> 0 < tolower c.
Proof. unfold tolower. destruct ((65 <=? c) && (c <=? 90)); lia. Qed.

Lemma strcasecmp_zero_iff a : forall b, nonzero_bytes a -> nonzero_bytes b ->
  (strcasecmp_c a b = 0 <-> map tolower a = map tolower b).
Proof.
  induction a as [|x a IH]; intros [|y b] Ha Hb; cbn [strcasecmp_c map].
  - tauto.
  - inversion Hb as [|? ? Hy Hb']; subst. pose proof (tolower_pos y). split; [intro; lia | discriminate].
  - inversion Ha as [|? ? Hx Ha']; subst. pose proof (tolower_pos x). split; [intro; lia | discriminate].
  - inversion Ha as [|? ? Hx Ha']; subst. inversion Hb as [|? ? Hy Hb']; subst.
    destruct (Z.eqb_spec (tolower x) (tolower y)) as [E|N].
    + rewrite (IH b Ha' Hb'), E. split; [intros ->; reflexivity | intro H; injection H; auto].
    + split; [intro; lia | intro H; injection H; intros; contradiction].
Qed.

Definition kmatch (cs : bool) (name k : bytes) : bool :=
  if cs then strcmp name k =? 0 else case_insensitive_strcmp name k =? 0.

Lemma kmatch_iff cs name k : nonzero_bytes name -> nonzero_bytes k ->
  (kmatch cs name k = true <-> fold_key cs name = fold_key cs k).
Proof.
  intros Hn Hk. unfold kmatch, fold_key, case_insensitive_strcmp. destruct cs; rewrite Z.eqb_eq.
  - apply strcmp_zero_iff; assumption.
  - apply strcasecmp_zero_iff; assumption.
Qed.

Lemma key_eq_some cs ka kb : key_eq cs (Some ka) (Some kb) <-> fold_key cs ka = fold_key cs kb.
Proof. unfold key_eq, fold_key. destruct cs; tauto. Qed.

Lemma key_eq_sym cs ka kb : key_eq cs ka kb -> key_eq cs kb ka.
Proof. unfold key_eq. destruct ka, kb, cs; auto. Qed.

(** * Part 3: types *)

Lemma valid_type_cases t : valid_type t = true ->
  t = c_cJSON_False \/ t = c_cJSON_True \/ t = c_cJSON_NULL \/ t = c_cJSON_Number \/
  t = c_cJSON_String \/ t = c_cJSON_Raw \/ t = c_cJSON_Array \/ t = c_cJSON_Object.
Proof. unfold valid_type. rewrite !orb_true_iff, !Z.eqb_eq. tauto. Qed.

(* the eight type constants are pairwise distinct: the only place where their values matter *)
Ltac tycontra :=
  solve [ exfalso;
          repeat match goal with H : _ \/ _ |- _ => destruct H end;
          unfold c_cJSON_False, c_cJSON_True, c_cJSON_NULL, c_cJSON_Number, c_cJSON_String,
                 c_cJSON_Raw, c_cJSON_Array, c_cJSON_Object in *; congruence ].

Lemma tymask_idem t : tymask (tymask t) = tymask t.
Proof. unfold tymask. rewrite <- Z.land_assoc. reflexivity. Qed.

(** * Part 4: structure of trees *)

Fixpoint max_depth (l : list node) : nat :=
  match l with [] => O | c :: r => Nat.max (node_depth c) (max_depth r) end.

Lemma node_depth_eq a : node_depth a = S (max_depth (n_children a)).
Proof. destruct a; reflexivity. Qed.

Lemma max_depth_in l c : In c l -> (node_depth c <= max_depth l)%nat.
Proof.
  induction l as [|x l IH]; intros H; [contradiction|]. cbn [max_depth].
  destruct H as [->|H]; [lia|]. specialize (IH H). lia.
Qed.

Lemma depth_child a c : In c (n_children a) -> (node_depth c < node_depth a)%nat.
Proof. intro H. rewrite (node_depth_eq a). apply max_depth_in in H. lia. Qed.

Lemma depth_pos a : (0 < node_depth a)%nat.
Proof. rewrite node_depth_eq. lia. Qed.

Definition has_key (c : node) : Prop := exists k, n_key c = Some k /\ nonzero_bytes k.
Definition folded_keys (cs : bool) (l : list node) := map (fun c => option_map (fold_key cs) (n_key c)) l.

Lemma cmp_wf_eq cs a : cmp_wf cs a <->
  (match n_vstr a with Some s => nonzero_bytes s | None => True end) /\
  (tymask (n_ty a) = c_cJSON_Object ->
     Forall has_key (n_children a) /\ NoDup (folded_keys cs (n_children a))) /\
  Forall (cmp_wf cs) (n_children a).
Proof.
  destruct a as [t s i d k ch]. cbn [n_vstr n_ty n_children].
  assert (G : forall l, (fix go (l : list node) : Prop :=
                           match l with [] => True | c :: r => cmp_wf cs c /\ go r end) l
                        <-> Forall (cmp_wf cs) l).
  { induction l as [|c r IH].
    - split; auto.
    - rewrite IH. split.
      + intros [H1 H2]; constructor; auto.
      + intro H; inversion H; auto. }
  rewrite <- G. unfold nonzero_bytes, has_key, folded_keys. split; intro H; exact H.
Qed.

Lemma no_nan_eq a : no_nan a <->
  (tymask (n_ty a) = c_cJSON_Number -> is_nan (n_vdbl a) = false) /\ Forall no_nan (n_children a).
Proof.
  destruct a as [t s i d k ch]. cbn [n_vdbl n_ty n_children].
  assert (G : forall l, (fix go (l : list node) : Prop :=
                           match l with [] => True | c :: r => no_nan c /\ go r end) l
                        <-> Forall no_nan l).
  { induction l as [|c r IH].
    - split; auto.
    - rewrite IH. split.
      + intros [H1 H2]; constructor; auto.
      + intro H; inversion H; auto. }
  rewrite <- G. split; intro H; exact H.
Qed.

Lemma json_shape_eq a : json_shape a <->
  valid_type (tymask (n_ty a)) = true /\
  ((tymask (n_ty a) = c_cJSON_String \/ tymask (n_ty a) = c_cJSON_Raw) -> n_vstr a <> None) /\
  Forall json_shape (n_children a).
Proof.
  destruct a as [t s i d k ch]. cbn [n_vstr n_ty n_children].
  assert (G : forall l, (fix go (l : list node) : Prop :=
                           match l with [] => True | c :: r => json_shape c /\ go r end) l
                        <-> Forall json_shape l).
  { induction l as [|c r IH].
    - split; auto.
    - rewrite IH. split.
      + intros [H1 H2]; constructor; auto.
      + intro H; inversion H; auto. }
  rewrite <- G. split; intro H; exact H.
Qed.

(** * Part 5: get_object_item *)

Fixpoint goi (cs : bool) (l : list node) (name : bytes) (i : nat) : option (nat * node) :=
  match l with
  | [] => None
  | c :: r => match n_key c with
              | None => None
              | Some k => if kmatch cs name k then Some (i, c) else goi cs r name (S i)
              end
  end.

Lemma goi_cs l name : forall i, get_object_item_cs l name i = goi true l name i.
Proof.
  induction l as [|c r IH]; intro i; cbn [get_object_item_cs goi]; [reflexivity|].
  destruct (n_key c) as [k|]; [|reflexivity]. unfold kmatch. rewrite IH. reflexivity.
Qed.

Lemma goi_ci l name : forall i, Forall has_key l -> get_object_item_ci l name i = goi false l name i.
Proof.
  induction l as [|c r IH]; intros i H; cbn [get_object_item_ci goi]; [reflexivity|].
  inversion H as [|? ? [k [Kc _]] H']; subst. rewrite Kc. unfold kmatch. rewrite (IH (S i) H'). reflexivity.
Qed.

Lemma get_object_item_goi other nm cs : Forall has_key (n_children other) ->
  get_object_item other (Some nm) cs = goi cs (n_children other) nm 0.
Proof. intros H. unfold get_object_item. destruct cs; [apply goi_cs | apply goi_ci, H]. Qed.

Lemma goi_cs_in l name : forall i j y, get_object_item_cs l name i = Some (j, y) -> In y l.
Proof.
  induction l as [|c r IH]; intros i j y H; cbn [get_object_item_cs] in H; [discriminate|].
  destruct (n_key c) as [k|]; [|discriminate]. destruct (strcmp name k =? 0).
  - injection H as _ H. subst. left; reflexivity.
  - right. eapply IH. exact H.
Qed.

Lemma goi_ci_in l name : forall i j y, get_object_item_ci l name i = Some (j, y) -> In y l.
Proof.
  induction l as [|c r IH]; intros i j y H; cbn [get_object_item_ci] in H; [discriminate|].
  destruct (n_key c) as [k|].
  - destruct (case_insensitive_strcmp name k =? 0).
    + injection H as _ H. subst. left; reflexivity.
    + right. eapply IH. exact H.
  - right. eapply IH. exact H.
Qed.

Lemma get_object_item_in other nm cs j y :
  get_object_item other nm cs = Some (j, y) -> In y (n_children other).
Proof.
  unfold get_object_item. destruct nm as [nm|]; [|discriminate]. destruct cs.
  - apply goi_cs_in.
  - apply goi_ci_in.
Qed.

Lemma goi_some cs l name : forall i j y, goi cs l name i = Some (j, y) ->
  In y l /\ exists k, n_key y = Some k /\ kmatch cs name k = true.
Proof.
  induction l as [|c r IH]; intros i j y H; cbn [goi] in H; [discriminate|].
  destruct (n_key c) as [k|] eqn:Kc; [|discriminate]. destruct (kmatch cs name k) eqn:M.
  - injection H as _ H. subst. split; [left; reflexivity|]. exists k. auto.
  - apply IH in H. destruct H as [H1 H2]. split; [right; exact H1 | exact H2].
Qed.

(* keys are unique, so the first match is the only one *)
Lemma goi_find cs name y k : nonzero_bytes name -> n_key y = Some k -> fold_key cs name = fold_key cs k ->
  forall l, Forall has_key l -> NoDup (folded_keys cs l) -> In y l ->
  forall i, exists j, goi cs l name i = Some (j, y).
Proof.
  intros Hn Ky Hf. induction l as [|c r IH]; intros Hk Hd Hy i; [contradiction|].
  cbn [goi]. inversion Hk as [|? ? [kc [Kc Nc]] Hk']; subst.
  unfold folded_keys in Hd. cbn [map] in Hd. inversion Hd as [|? ? Hnotin Hd']; subst.
  rewrite Kc. destruct (kmatch cs name kc) eqn:M.
  - exists i. destruct Hy as [->|Hy]; [reflexivity|]. exfalso. apply Hnotin.
    apply kmatch_iff in M; auto. rewrite Kc. cbn [option_map]. rewrite <- M, Hf.
    change (Some (fold_key cs k)) with (option_map (fold_key cs) (Some k)). rewrite <- Ky.
    apply (in_map (fun c => option_map (fold_key cs) (n_key c))). exact Hy.
  - destruct Hy as [->|Hy].
    + exfalso. rewrite Ky in Kc. injection Kc as <-.
      assert (kmatch cs name k = true) by (apply kmatch_iff; auto). congruence.
    + apply IH; auto.
Qed.

(** * Part 6: the loops of compare_rec as separate functions *)

Definition arr_loop (cmp : node -> node -> option bool) :=
  fix arr (la lb : list node) : option bool :=
    match la, lb with
    | [], [] => Some true
    | x :: la', y :: lb' =>
        match cmp x y with
        | Some true => arr la' lb'
        | r => r
        end
    | _, _ => Some false
    end.

Definition obj_loop (cmp : node -> node -> option bool) (cs : bool) (other : node) :=
  fix go (l : list node) : option bool :=
    match l with
    | [] => Some true
    | x :: l' =>
        match get_object_item other (n_key x) cs with
        | None => Some false
        | Some (_, y) =>
            match cmp x y with
            | Some true => go l'
            | r => r
            end
        end
    end.

Lemma compare_rec_S f a b cs : compare_rec (S f) a b cs =
  let ta := tymask (n_ty a) in
  let cmp := fun x y => compare_rec f x y cs in
  if negb (ta =? tymask (n_ty b)) then Some false
  else if negb (valid_type ta) then Some false
  else if (ta =? c_cJSON_False) || (ta =? c_cJSON_True) || (ta =? c_cJSON_NULL) then Some true
  else if ta =? c_cJSON_Number then Some (compare_double (n_vdbl a) (n_vdbl b))
  else if (ta =? c_cJSON_String) || (ta =? c_cJSON_Raw) then
    match n_vstr a, n_vstr b with
    | Some x, Some y => Some (strcmp x y =? 0)
    | _, _ => Some false
    end
  else if ta =? c_cJSON_Array then arr_loop cmp (n_children a) (n_children b)
  else match obj_loop cmp cs b (n_children a) with
       | Some true => obj_loop cmp cs a (n_children b)
       | r => r
       end.
Proof. reflexivity. Qed.

Lemma arr_loop_nil_nil cmp : arr_loop cmp [] [] = Some true.
Proof. reflexivity. Qed.
Lemma arr_loop_nil_cons cmp y lb : arr_loop cmp [] (y :: lb) = Some false.
Proof. reflexivity. Qed.
Lemma arr_loop_cons_nil cmp x la : arr_loop cmp (x :: la) [] = Some false.
Proof. reflexivity. Qed.
Lemma arr_loop_cons_cons cmp x la y lb : arr_loop cmp (x :: la) (y :: lb) =
  match cmp x y with Some true => arr_loop cmp la lb | r => r end.
Proof. reflexivity. Qed.

Lemma obj_loop_nil cmp cs other : obj_loop cmp cs other [] = Some true.
Proof. reflexivity. Qed.
Lemma obj_loop_cons cmp cs other x l : obj_loop cmp cs other (x :: l) =
  match get_object_item other (n_key x) cs with
  | None => Some false
  | Some (_, y) => match cmp x y with Some true => obj_loop cmp cs other l | r => r end
  end.
Proof. reflexivity. Qed.

Lemma arr_loop_total cmp : forall la lb,
  (forall x y, In x la -> In y lb -> cmp x y <> None) -> arr_loop cmp la lb <> None.
Proof.
  induction la as [|x la IH]; intros [|y lb] H.
  - rewrite arr_loop_nil_nil. discriminate.
  - rewrite arr_loop_nil_cons. discriminate.
  - rewrite arr_loop_cons_nil. discriminate.
  - rewrite arr_loop_cons_cons.
    pose proof (H x y (or_introl eq_refl) (or_introl eq_refl)) as Hxy.
    destruct (cmp x y) as [[|]|]; [|discriminate|congruence].
    apply IH. intros x' y' Hx' Hy'. apply H; right; assumption.
Qed.

Lemma arr_loop_spec cmp (R : node -> node -> Prop) : forall la lb,
  (forall x y, In x la -> In y lb -> (cmp x y = Some true <-> R x y)) ->
  (arr_loop cmp la lb = Some true <-> Forall2 R la lb).
Proof.
  induction la as [|x la IH]; intros [|y lb] H.
  - rewrite arr_loop_nil_nil. split; auto.
  - rewrite arr_loop_nil_cons. split; [discriminate | intro H0; inversion H0].
  - rewrite arr_loop_cons_nil. split; [discriminate | intro H0; inversion H0].
  - rewrite arr_loop_cons_cons.
    pose proof (H x y (or_introl eq_refl) (or_introl eq_refl)) as Hxy.
    assert (IH' : arr_loop cmp la lb = Some true <-> Forall2 R la lb).
    { apply IH. intros x' y' Hx' Hy'. apply H; right; assumption. }
    destruct (cmp x y) as [[|]|].
    + rewrite IH'. split.
      * intro HF. constructor; [apply Hxy; reflexivity | exact HF].
      * intro HF. inversion HF; subst; assumption.
    + split; [discriminate|]. intro HF. inversion HF; subst.
      assert (E : Some false = Some true) by (apply Hxy; assumption). discriminate E.
    + split; [discriminate|]. intro HF. inversion HF; subst.
      assert (E : @None bool = Some true) by (apply Hxy; assumption). discriminate E.
Qed.

Lemma obj_loop_total cmp cs other : forall l,
  (forall x y, In x l -> In y (n_children other) -> cmp x y <> None) ->
  obj_loop cmp cs other l <> None.
Proof.
  induction l as [|x l IH]; intros H.
  - rewrite obj_loop_nil. discriminate.
  - rewrite obj_loop_cons.
    destruct (get_object_item other (n_key x) cs) as [[j y]|] eqn:G; [|discriminate].
    apply get_object_item_in in G.
    pose proof (H x y (or_introl eq_refl) G) as Hxy.
    destruct (cmp x y) as [[|]|]; [|discriminate|congruence].
    apply IH. intros x' y' Hx' Hy'. apply H; [right|]; assumption.
Qed.

Lemma obj_loop_spec cmp cs other (R : node -> node -> Prop) :
  Forall has_key (n_children other) -> NoDup (folded_keys cs (n_children other)) ->
  forall l, Forall has_key l ->
  (forall x y, In x l -> In y (n_children other) -> (cmp x y = Some true <-> R x y)) ->
  (obj_loop cmp cs other l = Some true <->
   Forall (fun x => Exists (fun y => key_eq cs (n_key x) (n_key y) /\ R x y) (n_children other)) l).
Proof.
  intros Ko Do. induction l as [|x l IH]; intros Kl HR.
  - rewrite obj_loop_nil. split; auto.
  - rewrite obj_loop_cons. inversion Kl as [|? ? [kx [Kx Nx]] Kl']; subst.
    assert (IH' : obj_loop cmp cs other l = Some true <->
                  Forall (fun x => Exists (fun y => key_eq cs (n_key x) (n_key y) /\ R x y) (n_children other)) l).
    { apply IH; [exact Kl'|]. intros x' y' Hx' Hy'. apply HR; [right|]; assumption. }
    rewrite Kx, (get_object_item_goi other kx cs Ko).
    split.
    + intro H.
      destruct (goi cs (n_children other) kx 0) as [[j y]|] eqn:G; [|discriminate].
      apply goi_some in G. destruct G as [Hy [ky [Ky M]]].
      assert (Nky : nonzero_bytes ky).
      { rewrite Forall_forall in Ko. destruct (Ko y Hy) as [k' [E N]]. congruence. }
      apply kmatch_iff in M; auto.
      destruct (cmp x y) as [[|]|] eqn:C; try discriminate.
      constructor; [|apply IH'; exact H].
      apply Exists_exists. exists y. split; [exact Hy|]. split.
      * rewrite Kx, Ky. apply key_eq_some. exact M.
      * apply HR; [left; reflexivity | exact Hy | exact C].
    + intro HF. inversion HF as [|? ? HE HF']; subst.
      apply Exists_exists in HE. destruct HE as [y [Hy [Hk Hr]]].
      rewrite Kx in Hk. destruct (n_key y) as [ky|] eqn:Ky; [|contradiction Hk].
      apply key_eq_some in Hk.
      destruct (goi_find cs kx y ky Nx Ky Hk (n_children other) Ko Do Hy 0%nat) as [j G].
      rewrite G.
      assert (C : cmp x y = Some true) by (apply HR; [left; reflexivity | exact Hy | exact Hr]).
      rewrite C. apply IH'. exact HF'.
Qed.

(** * Part 7: one unfolding lemma per kind of node *)

Lemma cr_neq f a b cs : tymask (n_ty a) <> tymask (n_ty b) -> compare_rec (S f) a b cs = Some false.
Proof.
  intro H. rewrite compare_rec_S. cbv zeta.
  destruct (Z.eqb_spec (tymask (n_ty a)) (tymask (n_ty b))); [contradiction|reflexivity].
Qed.

Lemma cr_invalid f a b cs : valid_type (tymask (n_ty a)) = false -> compare_rec (S f) a b cs = Some false.
Proof.
  intro H. rewrite compare_rec_S. cbv zeta. rewrite H.
  destruct (negb (tymask (n_ty a) =? tymask (n_ty b))); reflexivity.
Qed.

Lemma cr_lit f a b cs : tymask (n_ty a) = tymask (n_ty b) ->
  (tymask (n_ty a) = c_cJSON_False \/ tymask (n_ty a) = c_cJSON_True \/ tymask (n_ty a) = c_cJSON_NULL) ->
  compare_rec (S f) a b cs = Some true.
Proof.
  intros Hab H. rewrite compare_rec_S. cbv zeta. rewrite <- Hab.
  destruct H as [H|[H|H]]; rewrite H; reflexivity.
Qed.

Lemma cr_num f a b cs : tymask (n_ty a) = tymask (n_ty b) -> tymask (n_ty a) = c_cJSON_Number ->
  compare_rec (S f) a b cs = Some (compare_double (n_vdbl a) (n_vdbl b)).
Proof.
  intros Hab H. rewrite compare_rec_S. cbv zeta. rewrite <- Hab. rewrite H. reflexivity.
Qed.

Lemma cr_str f a b cs : tymask (n_ty a) = tymask (n_ty b) ->
  (tymask (n_ty a) = c_cJSON_String \/ tymask (n_ty a) = c_cJSON_Raw) ->
  compare_rec (S f) a b cs =
  match n_vstr a, n_vstr b with
  | Some x, Some y => Some (strcmp x y =? 0)
  | _, _ => Some false
  end.
Proof.
  intros Hab H. rewrite compare_rec_S. cbv zeta. rewrite <- Hab.
  destruct H as [H|H]; rewrite H; reflexivity.
Qed.

Lemma cr_arr f a b cs : tymask (n_ty a) = tymask (n_ty b) -> tymask (n_ty a) = c_cJSON_Array ->
  compare_rec (S f) a b cs = arr_loop (fun x y => compare_rec f x y cs) (n_children a) (n_children b).
Proof.
  intros Hab H. rewrite compare_rec_S. cbv zeta. rewrite <- Hab. rewrite H. reflexivity.
Qed.

Lemma cr_obj f a b cs : tymask (n_ty a) = tymask (n_ty b) -> tymask (n_ty a) = c_cJSON_Object ->
  compare_rec (S f) a b cs =
  match obj_loop (fun x y => compare_rec f x y cs) cs b (n_children a) with
  | Some true => obj_loop (fun x y => compare_rec f x y cs) cs a (n_children b)
  | r => r
  end.
Proof.
  intros Hab H. rewrite compare_rec_S. cbv zeta. rewrite <- Hab. rewrite H. reflexivity.
Qed.

(** * Part 8: totality *)

Lemma compare_rec_total cs : forall fuel a b,
  (node_depth a <= fuel)%nat -> (node_depth b <= fuel)%nat -> compare_rec fuel a b cs <> None.
Proof.
  induction fuel as [|f IH]; intros a b Ha Hb.
  - pose proof (depth_pos a). lia.
  - assert (IHc : forall x y, In x (n_children a) -> In y (n_children b) ->
                              compare_rec f x y cs <> None /\ compare_rec f y x cs <> None).
    { intros x y Hx Hy. apply depth_child in Hx. apply depth_child in Hy. split; apply IH; lia. }
    destruct (Z.eqb_spec (tymask (n_ty a)) (tymask (n_ty b))) as [Hab|Hab].
    2: { rewrite cr_neq by exact Hab. discriminate. }
    destruct (valid_type (tymask (n_ty a))) eqn:Hv.
    2: { rewrite cr_invalid by exact Hv. discriminate. }
    apply valid_type_cases in Hv.
    destruct Hv as [E|[E|[E|[E|[E|[E|[E|E]]]]]]].
    + rewrite cr_lit by auto. discriminate.
    + rewrite cr_lit by auto. discriminate.
    + rewrite cr_lit by auto. discriminate.
    + rewrite cr_num by auto. discriminate.
    + rewrite cr_str by auto. destruct (n_vstr a), (n_vstr b); discriminate.
    + rewrite cr_str by auto. destruct (n_vstr a), (n_vstr b); discriminate.
    + rewrite cr_arr by auto. apply arr_loop_total. intros x y Hx Hy. exact (proj1 (IHc x y Hx Hy)).
    + rewrite cr_obj by auto.
      pose proof (obj_loop_total (fun x y => compare_rec f x y cs) cs b (n_children a)) as L1.
      pose proof (obj_loop_total (fun x y => compare_rec f x y cs) cs a (n_children b)) as L2.
      destruct (obj_loop (fun x y => compare_rec f x y cs) cs b (n_children a)) as [[|]|].
      * apply L2. intros x y Hx Hy. exact (proj2 (IHc y x Hy Hx)).
      * discriminate.
      * apply L1. intros x y Hx Hy. exact (proj1 (IHc x y Hx Hy)).
Qed.

Lemma compare_total : forall a b same cs, cJSON_Compare a b same cs <> None.
Proof.
  intros [x|] [y|] same cs; cbn [cJSON_Compare]; try discriminate.
  destruct (negb (tymask (n_ty x) =? tymask (n_ty y))); [discriminate|].
  destruct (negb (valid_type (tymask (n_ty x)))); [discriminate|].
  destruct same; [discriminate|].
  apply compare_rec_total; lia.
Qed.

Lemma compare_null_invalid : forall a b same cs,
  cJSON_Compare None b same cs = Some false /\ cJSON_Compare a None same cs = Some false /\
  (forall x, a = Some x -> valid_type (tymask (n_ty x)) = false -> cJSON_Compare a b same cs = Some false).
Proof.
  intros a b same cs. split; [reflexivity|]. split; [destruct a; reflexivity|].
  intros x -> Hv. destruct b as [y|]; [|reflexivity]. cbn [cJSON_Compare]. rewrite Hv.
  destruct (negb (tymask (n_ty x) =? tymask (n_ty y))); reflexivity.
Qed.

(** * Part 9: the declarative relation *)

Lemma sem_eq_ty cs a b : sem_eq cs a b -> tymask (n_ty a) = tymask (n_ty b).
Proof. intro H. inversion H; subst; congruence. Qed.

Lemma sem_eq_valid cs a b : sem_eq cs a b -> valid_type (tymask (n_ty a)) = true.
Proof.
  intro H. unfold valid_type. rewrite !orb_true_iff, !Z.eqb_eq. inversion H; subst; tauto.
Qed.

Lemma Forall2_flip_in (R : node -> node -> Prop) : forall la lb,
  Forall (fun x => forall y, R x y -> R y x) la -> Forall2 R la lb -> Forall2 R lb la.
Proof.
  induction la as [|x la IH]; intros lb HF H2; inversion H2; subst.
  - constructor.
  - inversion HF; subst. constructor; auto.
Qed.

Lemma sem_eq_sym cs : forall a b, sem_eq cs a b -> sem_eq cs b a.
Proof.
  induction a as [t s i d k ch IH] using node_ind'. intros b H.
  inversion H as [a0 b0 Hab Hl | a0 b0 Hta Htb Hd | a0 b0 s0 Hab Hs Hsa Hsb
                  | a0 b0 Hta Htb HF | a0 b0 Hta Htb HF1 HF2]; subst a0 b0.
  - apply se_lit; [congruence|]. rewrite <- Hab. exact Hl.
  - apply se_num; auto. rewrite compare_double_sym. exact Hd.
  - apply se_str with (s := s0); auto. rewrite <- Hab. exact Hs.
  - apply se_arr; auto. cbn [n_children] in *. apply Forall2_flip_in with (la := ch); assumption.
  - cbn [n_children] in *. rewrite Forall_forall in IH, HF1, HF2.
    apply se_obj; auto; cbn [n_children]; apply Forall_forall.
    + intros y Hy. specialize (HF2 y Hy). apply Exists_exists in HF2.
      destruct HF2 as [x [Hx [Hk Hs]]]. apply Exists_exists. exists x. split; [exact Hx|].
      split; [apply key_eq_sym; exact Hk | apply IH; assumption].
    + intros x Hx. specialize (HF1 x Hx). apply Exists_exists in HF1.
      destruct HF1 as [y [Hy [Hk Hs]]]. apply Exists_exists. exists y. split; [exact Hy|].
      split; [apply key_eq_sym; exact Hk | apply IH; assumption].
Qed.

Lemma flip_members cs la lb :
  Forall (fun x => Exists (fun y => key_eq cs (n_key x) (n_key y) /\ sem_eq cs x y) la) lb <->
  Forall (fun y => Exists (fun x => key_eq cs (n_key x) (n_key y) /\ sem_eq cs x y) la) lb.
Proof.
  split; apply Forall_impl; intros x; apply Exists_impl; intros y [H1 H2];
    (split; [apply key_eq_sym; exact H1 | apply sem_eq_sym; exact H2]).
Qed.

(** * Part 10: Compare decides sem_eq *)

Lemma compare_rec_spec cs : forall fuel a b,
  (node_depth a <= fuel)%nat -> (node_depth b <= fuel)%nat -> cmp_wf cs a -> cmp_wf cs b ->
  (compare_rec fuel a b cs = Some true <-> sem_eq cs a b).
Proof.
  induction fuel as [|f IH]; intros a b Ha Hb Wa Wb.
  - pose proof (depth_pos a). lia.
  - apply cmp_wf_eq in Wa. destruct Wa as [Sa [Oa Ca]].
    apply cmp_wf_eq in Wb. destruct Wb as [Sb [Ob Cb]].
    rewrite Forall_forall in Ca, Cb.
    assert (IHab : forall x y, In x (n_children a) -> In y (n_children b) ->
                               (compare_rec f x y cs = Some true <-> sem_eq cs x y)).
    { intros x y Hx Hy. pose proof (depth_child _ _ Hx). pose proof (depth_child _ _ Hy).
      apply IH; auto; lia. }
    assert (IHba : forall x y, In x (n_children b) -> In y (n_children a) ->
                               (compare_rec f x y cs = Some true <-> sem_eq cs x y)).
    { intros x y Hx Hy. pose proof (depth_child _ _ Hx). pose proof (depth_child _ _ Hy).
      apply IH; auto; lia. }
    destruct (Z.eqb_spec (tymask (n_ty a)) (tymask (n_ty b))) as [Hab|Hab].
    2: { rewrite cr_neq by exact Hab. split; [discriminate|]. intro H. apply sem_eq_ty in H. contradiction. }
    destruct (valid_type (tymask (n_ty a))) eqn:Hv.
    2: { rewrite cr_invalid by exact Hv. split; [discriminate|]. intro H. apply sem_eq_valid in H. congruence. }
    apply valid_type_cases in Hv.
    assert (Lit : tymask (n_ty a) = c_cJSON_False \/ tymask (n_ty a) = c_cJSON_True \/
                  tymask (n_ty a) = c_cJSON_NULL -> (compare_rec (S f) a b cs = Some true <-> sem_eq cs a b)).
    { intro E. rewrite cr_lit by auto. split; [|reflexivity]. intros _. apply se_lit; auto. }
    assert (Str : tymask (n_ty a) = c_cJSON_String \/ tymask (n_ty a) = c_cJSON_Raw ->
                  (compare_rec (S f) a b cs = Some true <-> sem_eq cs a b)).
    { intro E. rewrite cr_str by auto. split.
      - destruct (n_vstr a) as [x|] eqn:Ea; [|discriminate].
        destruct (n_vstr b) as [y|] eqn:Eb; [|discriminate].
        intro H. injection H as H. apply Z.eqb_eq in H. apply strcmp_zero_iff in H; auto. subst y.
        apply se_str with (s := x); auto.
      - intro H.
        inversion H as [a0 b0 _ Hl | a0 b0 Hta Htb Hd | a0 b0 s0 _ Hs Hsa Hsb
                        | a0 b0 Hta Htb HF | a0 b0 Hta Htb HF1 HF2]; subst a0 b0; try tycontra.
        rewrite Hsa, Hsb. f_equal. apply Z.eqb_eq. apply strcmp_zero_iff; auto.
        + rewrite Hsa in Sa. exact Sa.
        + rewrite Hsa in Sa. exact Sa. }
    destruct Hv as [E|[E|[E|[E|[E|[E|[E|E]]]]]]]; auto.
    + (* number *)
      rewrite cr_num by auto. split.
      * intro H. injection H as H. apply se_num; congruence.
      * intro H.
        inversion H as [a0 b0 _ Hl | a0 b0 Hta Htb Hd | a0 b0 s0 _ Hs Hsa Hsb
                        | a0 b0 Hta Htb HF | a0 b0 Hta Htb HF1 HF2]; subst a0 b0; try tycontra.
        rewrite Hd. reflexivity.
    + (* array *)
      rewrite cr_arr by auto.
      rewrite (arr_loop_spec (fun x y => compare_rec f x y cs) (sem_eq cs) _ _ IHab).
      split.
      * intro H. apply se_arr; congruence.
      * intro H.
        inversion H as [a0 b0 _ Hl | a0 b0 Hta Htb Hd | a0 b0 s0 _ Hs Hsa Hsb
                        | a0 b0 Hta Htb HF | a0 b0 Hta Htb HF1 HF2]; subst a0 b0; try tycontra.
        exact HF.
    + (* object *)
      rewrite cr_obj by auto.
      destruct (Oa E) as [Ka Da]. destruct (Ob (eq_trans (eq_sym Hab) E)) as [Kb Db].
      pose proof (obj_loop_spec (fun x y => compare_rec f x y cs) cs b (sem_eq cs) Kb Db
                    (n_children a) Ka IHab) as L1.
      pose proof (obj_loop_spec (fun x y => compare_rec f x y cs) cs a (sem_eq cs) Ka Da
                    (n_children b) Kb IHba) as L2.
      rewrite flip_members in L2.
      split.
      * intro H.
        destruct (obj_loop (fun x y => compare_rec f x y cs) cs b (n_children a)) as [[|]|];
          try discriminate.
        apply se_obj; [exact E | congruence | apply L1; reflexivity | apply L2; exact H].
      * intro H.
        inversion H as [a0 b0 _ Hl | a0 b0 Hta Htb Hd | a0 b0 s0 _ Hs Hsa Hsb
                        | a0 b0 Hta Htb HF | a0 b0 Hta Htb HF1 HF2]; subst a0 b0; try tycontra.
        apply L1 in HF1. rewrite HF1. apply L2. exact HF2.
Qed.

Lemma compare_top_spec cs a b : cmp_wf cs a -> cmp_wf cs b ->
  (compare_rec (node_depth a + node_depth b) a b cs = Some true <-> sem_eq cs a b).
Proof. intros Wa Wb. apply compare_rec_spec; auto; lia. Qed.

Lemma compare_spec : forall cs a b, cmp_wf cs a -> cmp_wf cs b ->
  (cJSON_Compare (Some a) (Some b) false cs = Some true <-> sem_eq cs a b).
Proof.
  intros cs a b Wa Wb. cbn [cJSON_Compare].
  destruct (Z.eqb_spec (tymask (n_ty a)) (tymask (n_ty b))) as [Hab|Hab]; cbn [negb].
  2: { split; [discriminate|]. intro H. apply sem_eq_ty in H. contradiction. }
  destruct (valid_type (tymask (n_ty a))) eqn:Hv; cbn [negb].
  2: { split; [discriminate|]. intro H. apply sem_eq_valid in H. congruence. }
  apply compare_top_spec; assumption.
Qed.

Lemma compare_symmetric : forall cs a b, cmp_wf cs a -> cmp_wf cs b ->
  cJSON_Compare (Some a) (Some b) false cs = cJSON_Compare (Some b) (Some a) false cs.
Proof.
  intros cs a b Wa Wb.
  pose proof (compare_total (Some a) (Some b) false cs) as Tab.
  pose proof (compare_total (Some b) (Some a) false cs) as Tba.
  pose proof (compare_spec cs a b Wa Wb) as Sab.
  pose proof (compare_spec cs b a Wb Wa) as Sba.
  assert (Q : cJSON_Compare (Some a) (Some b) false cs = Some true <->
              cJSON_Compare (Some b) (Some a) false cs = Some true).
  { rewrite Sab, Sba. split; apply sem_eq_sym. }
  destruct (cJSON_Compare (Some a) (Some b) false cs) as [[|]|];
    destruct (cJSON_Compare (Some b) (Some a) false cs) as [[|]|]; try congruence.
  - destruct Q as [Q _]. symmetry. apply Q. reflexivity.
  - destruct Q as [_ Q]. apply Q. reflexivity.
Qed.

(** * Part 11: reflexivity *)

Lemma Forall2_diag (R : node -> node -> Prop) l : Forall (fun x => R x x) l -> Forall2 R l l.
Proof. induction 1; constructor; auto. Qed.

Lemma sem_eq_refl cs : forall a, cmp_wf cs a -> json_shape a -> no_nan a -> sem_eq cs a a.
Proof.
  induction a as [t s i d k ch IH] using node_ind'. intros W J N.
  apply cmp_wf_eq in W. destruct W as [Sa [Oa Ca]].
  apply json_shape_eq in J. destruct J as [Hv [Hs Jc]].
  apply no_nan_eq in N. destruct N as [Nd Nc].
  cbn [n_children n_ty n_vstr n_vdbl] in *.
  assert (Hc : Forall (fun x => sem_eq cs x x) ch).
  { rewrite Forall_forall in *. intros x Hx. apply IH; auto. }
  apply valid_type_cases in Hv.
  assert (Str : tymask t = c_cJSON_String \/ tymask t = c_cJSON_Raw ->
                sem_eq cs (Node t s i d k ch) (Node t s i d k ch)).
  { intro E. destruct s as [s|]; [|exfalso; apply (Hs E); reflexivity].
    apply se_str with (s := s); auto. }
  destruct Hv as [E|[E|[E|[E|[E|[E|[E|E]]]]]]]; auto.
  - apply se_lit; auto.
  - apply se_lit; auto.
  - apply se_lit; auto.
  - apply se_num; auto. apply compare_double_refl. auto.
  - apply se_arr; auto. apply Forall2_diag. exact Hc.
  - destruct (Oa E) as [Ka Da].
    assert (HF : Forall (fun x => Exists (fun y => key_eq cs (n_key x) (n_key y) /\ sem_eq cs x y) ch) ch).
    { rewrite Forall_forall in *. intros x Hx. apply Exists_exists. exists x. split; [exact Hx|].
      split; [|apply Hc; exact Hx]. destruct (Ka x Hx) as [kx [Kx _]]. rewrite Kx.
      apply key_eq_some. reflexivity. }
    apply se_obj; auto. cbn [n_children]. apply flip_members. exact HF.
Qed.

Lemma compare_reflexive : forall cs a,
  (valid_type (tymask (n_ty a)) = true -> cJSON_Compare (Some a) (Some a) true cs = Some true) /\
  (cmp_wf cs a -> json_shape a -> no_nan a -> cJSON_Compare (Some a) (Some a) false cs = Some true).
Proof.
  intros cs a. split.
  - intro Hv. cbn [cJSON_Compare]. rewrite Z.eqb_refl, Hv. reflexivity.
  - intros W J N. apply compare_spec; auto. apply sem_eq_refl; assumption.
Qed.

(** * Part 12: ownership flags *)

Lemma strip_ty a : n_ty (strip_flags a) = tymask (n_ty a).
Proof. destruct a; reflexivity. Qed.
Lemma strip_vstr a : n_vstr (strip_flags a) = n_vstr a.
Proof. destruct a; reflexivity. Qed.
Lemma strip_vdbl a : n_vdbl (strip_flags a) = n_vdbl a.
Proof. destruct a; reflexivity. Qed.
Lemma strip_key a : n_key (strip_flags a) = n_key a.
Proof. destruct a; reflexivity. Qed.
Lemma strip_children a : n_children (strip_flags a) = map strip_flags (n_children a).
Proof. destruct a; reflexivity. Qed.

Lemma strip_depth : forall a, node_depth (strip_flags a) = node_depth a.
Proof.
  induction a as [t s i d k ch IH] using node_ind'.
  rewrite !node_depth_eq, strip_children. cbn [n_children]. f_equal.
  induction IH as [|c r Hc _ IHr]; cbn [map max_depth]; [reflexivity|].
  rewrite Hc, IHr. reflexivity.
Qed.

Definition strip_found (r : option (nat * node)) : option (nat * node) :=
  match r with Some (j, y) => Some (j, strip_flags y) | None => None end.

Lemma goi_cs_strip l name : forall i,
  get_object_item_cs (map strip_flags l) name i = strip_found (get_object_item_cs l name i).
Proof.
  induction l as [|c r IH]; intro i; cbn [map get_object_item_cs]; [reflexivity|].
  rewrite strip_key. destruct (n_key c) as [k|]; [|reflexivity].
  destruct (strcmp name k =? 0); [reflexivity|]. apply IH.
Qed.

Lemma goi_ci_strip l name : forall i,
  get_object_item_ci (map strip_flags l) name i = strip_found (get_object_item_ci l name i).
Proof.
  induction l as [|c r IH]; intro i; cbn [map get_object_item_ci]; [reflexivity|].
  rewrite strip_key. destruct (n_key c) as [k|]; [|apply IH].
  destruct (case_insensitive_strcmp name k =? 0); [reflexivity|]. apply IH.
Qed.

Lemma get_object_item_strip other nm cs :
  get_object_item (strip_flags other) nm cs = strip_found (get_object_item other nm cs).
Proof.
  unfold get_object_item. destruct nm as [nm|]; [|reflexivity]. rewrite strip_children.
  destruct cs; [apply goi_cs_strip | apply goi_ci_strip].
Qed.

Lemma arr_loop_strip cmp : (forall x y, cmp (strip_flags x) (strip_flags y) = cmp x y) ->
  forall la lb, arr_loop cmp (map strip_flags la) (map strip_flags lb) = arr_loop cmp la lb.
Proof.
  intro H. induction la as [|x la IH]; intros [|y lb]; cbn [map]; try reflexivity.
  rewrite !arr_loop_cons_cons, H, IH. reflexivity.
Qed.

Lemma obj_loop_strip cmp cs other : (forall x y, cmp (strip_flags x) (strip_flags y) = cmp x y) ->
  forall l, obj_loop cmp cs (strip_flags other) (map strip_flags l) = obj_loop cmp cs other l.
Proof.
  intro H. induction l as [|x l IH]; cbn [map]; [reflexivity|].
  rewrite !obj_loop_cons, strip_key, get_object_item_strip.
  destruct (get_object_item other (n_key x) cs) as [[j y]|]; cbn [strip_found]; [|reflexivity].
  rewrite H, IH. reflexivity.
Qed.

Lemma compare_rec_strip cs : forall fuel a b,
  compare_rec fuel (strip_flags a) (strip_flags b) cs = compare_rec fuel a b cs.
Proof.
  induction fuel as [|f IH]; intros a b; [reflexivity|].
  rewrite !compare_rec_S. cbv zeta.
  rewrite !strip_ty, !tymask_idem, !strip_vdbl, !strip_vstr, !strip_children.
  rewrite (arr_loop_strip (fun x y => compare_rec f x y cs) IH).
  rewrite !(obj_loop_strip (fun x y => compare_rec f x y cs) cs _ IH).
  reflexivity.
Qed.

Lemma compare_flags : forall cs a b same,
  cJSON_Compare (Some a) (Some b) same cs = cJSON_Compare (Some (strip_flags a)) (Some (strip_flags b)) same cs.
Proof.
  intros cs a b same. cbn [cJSON_Compare].
  rewrite !strip_ty, !tymask_idem, !strip_depth, compare_rec_strip. reflexivity.
Qed.

(** * Part 13: non-vacuity *)

Definition d_one : dbl := S754_finite false 4503599627370496 (-52).

(* {"a":"x","b":[1,true]}  and  {"b":[1,true],"a":"x"}  (the second with an ownership flag set) *)
Definition ex_str : node := Node c_cJSON_String (Some [120]) 0 dzero (Some [97]) [].
Definition ex_arr : node :=
  Node c_cJSON_Array None 0 dzero (Some [98])
    [Node c_cJSON_Number None 1 d_one None []; Node c_cJSON_True None 0 dzero None []].
Definition ex_a : node := Node c_cJSON_Object None 0 dzero None [ex_str; ex_arr].
Definition ex_b : node := Node (c_cJSON_Object + c_cJSON_StringIsConst) None 0 dzero None [ex_arr; ex_str].

Ltac wf_example :=
  cbn; repeat split;
  try (let H := fresh "H" in intro H; discriminate H);
  try (repeat constructor; lia);
  try (repeat constructor; eexists; (split; [reflexivity|]); repeat constructor; lia);
  try (repeat constructor; cbn; intuition discriminate).

Lemma ex_a_wf : cmp_wf true ex_a.
Proof. unfold ex_a, ex_str, ex_arr. wf_example. Qed.

Lemma ex_b_wf : cmp_wf true ex_b.
Proof. unfold ex_b, ex_str, ex_arr. wf_example. Qed.

Lemma compare_nonvacuous : exists a b, cmp_wf true a /\ cmp_wf true b /\ a <> b /\ sem_eq true a b /\
  cJSON_Compare (Some a) (Some b) false true = Some true.
Proof.
  exists ex_a, ex_b.
  assert (C : cJSON_Compare (Some ex_a) (Some ex_b) false true = Some true) by (vm_compute; reflexivity).
  split; [exact ex_a_wf|]. split; [exact ex_b_wf|]. split; [discriminate|].
  split; [|exact C].
  apply (compare_spec true ex_a ex_b ex_a_wf ex_b_wf). exact C.
Qed.
