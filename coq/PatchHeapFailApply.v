(** PatchHeapFailApply.v — the heap-level [apply_patch] (remove, add, replace, move, copy; and [test], which makes no
    request) under an ARBITRARY allocation-failure schedule [oracle] refines the value-level model WITH refusals
    [PatchHeapFailDefs.apply_patch_f] for SOME choice [fs] of the five refusal flags.

    Consequences, for every oracle, from [MInv h (G ++ [doc])] with the patch object in [G]:
      - the run returns normally: NO memory-error outcome, whatever is refused;
      - status and document are those of [apply_patch_f fs]: 13 / 5 when the copy of the path inside detach_path is
        refused (document untouched), 8 / 6 when the duplicate is refused (for replace the old value is already gone),
        9 when the copy of the path for the insertion is refused (the value — for move: the moved item — is deleted);
      - when the copy of the member name inside cJSON_AddItemToObject is refused ([f_key], parent an object) the
        status is 0, the member of that name is gone, and the value is LEAKED: the invariant holds for the forest
        [(G ++ [docT]) ++ [v]] in which the value [v] is one more root, and [NoLeak] holds for THAT forest — every
        live library block is owned by [G], the document or [v]: the exact ledger;
      - in every other case [MInv] and [NoLeak] hold for [G ++ [docT]]: nothing leaks. *)
From CJ Require Import Base Dbl Heap Forest ForestLemmas CoreSpec CoreDefs CoreRefineBase CoreRefine CoreRefineMore
  CoreRefineDelete CoreRefineReplace CoreRefineObject CoreRefineByKey CoreRefineFrame CoreRefineHistory CoreRefineAddObject
  CoreRefineHistoryObj CoreRefineCreate CoreRefineDupValue CoreRefineDupForest CoreLedgerGen CoreLedgerDup.
From CJ Require Import TierBridgeDefs TierBridgeForest TierBridgeLemmas TierBridgeUtilsDefs TierBridgeUtils TierBridgeE2E2
  TierBridgeEndToEndStr TierBridgeOverwriteDefs TierBridgeOverwrite
  MergeHeapDefs MergeHeapInv MergeHeapProofs PatchHeapDefs PatchHeapPath PatchHeapPointer PatchHeapStr PatchHeapSteps
  PatchHeapDetach PatchHeapApplyDefs PatchHeapOps PatchHeapFinish PatchHeapApply PatchHeapDup
  PatchHeapFailDefs PatchHeapFail PatchHeapFailFinish.
From CJ Require Tree PointerDefs PatchDefs CompareDefs MergeDefs SortSpec PatchProofs.
From CJ.gen Require Import Constants.
From stdpp Require Import gmap.
From Coq Require Import Lia.
Local Open Scope Z_scope.

(** the forest and the ledger after the call: with a leaked value it is one more root *)
Definition leak_post (h' : heap) (G : forest) (docT : tree) (NLpre : Prop) (lk : option Tree.node) : Prop :=
  match lk with
  | None => MInv h' (G ++ [docT]) /\ (NLpre -> NoLeak h' (G ++ [docT]))
  | Some lv => exists v, MInv h' ((G ++ [docT]) ++ [v]) /\ (NLpre -> NoLeak h' ((G ++ [docT]) ++ [v])) /\ reify (h_str h') v = lv
  end.

Definition phase_goal_f (h : heap) (G : forest) (doc : tree) (o : out (Z * heap)) (vres : Base.res (Z * Tree.node * option Tree.node)%type) : Prop :=
  match vres with
  | Ok (st, doc', lk) =>
      exists h' docT,
        o = Ret (st, h') /\ tid docT = tid doc /\ reify (h_str h') docT = doc' /\ KeepO h h' G /\
        (h_next h <= h_next h')%positive /\ leak_post h' G docT (NoLeak h (G ++ [doc])) lk
  | _ => True
  end.

Lemma phase_goal_f_unchanged h G doc st :
  MInv h (G ++ [doc]) -> phase_goal_f h G doc (Ret (st, h)) (Ok (st, reify (h_str h) doc, None)).
Proof. intros I. exists h, doc. split_and!; try done; try apply KeepO_refl; try lia. Qed.

Lemma phase_goal_f_of_all h G doc o (vres : Base.res (Z * Tree.node)%type) :
  phase_goal_all h G doc o vres -> phase_goal_f h G doc o (' (st, d) <- vres ;; Ok (st, d, None)).
Proof.
  destruct vres as [[st d]| |]; cbn; [|done|done]. intros (h' & docT & H1 & H2 & H3 & H4 & H5 & H6 & H7).
  exists h', docT. split_and!; done.
Qed.

Lemma phase_goal_f_step h h1 G doc doc1 o vres :
  tid doc1 = tid doc -> KeepO h h1 G -> (NoLeak h (G ++ [doc]) -> NoLeak h1 (G ++ [doc1])) -> (h_next h <= h_next h1)%positive ->
  phase_goal_f h1 G doc1 o vres -> phase_goal_f h G doc o vres.
Proof.
  intros Ht K NL Hn. destruct vres as [[[st doc'] lk]| |]; cbn; [|done|done].
  intros (h' & docT & E & Ht' & Hre & K' & Hn' & HL).
  exists h', docT. split; [done|]. split; [congruence|]. split; [done|]. split; [by eapply KeepO_trans|]. split; [lia|].
  destruct lk as [lv|]; cbn [leak_post] in *.
  - destruct HL as (v & H1 & H2 & H3). exists v. split; [done|]. split; [auto|done].
  - destruct HL as [H1 H2]. split; [done|auto].
Qed.

Lemma finish_f_to_phase h G doc v o vres :
  finish_goal_f h G doc v (NoLeak h ((G ++ [doc]) ++ [v])) o h vres ->
  match vres with
  | Ok (st, doc', lk) =>
      exists h' docT,
        o = Ret (st, h') /\ tid docT = tid doc /\ reify (h_str h') docT = doc' /\ KeepO h h' G /\
        (h_next h <= h_next h')%positive /\ leak_post h' G docT (NoLeak h ((G ++ [doc]) ++ [v])) lk
  | _ => False
  end.
Proof.
  destruct vres as [[[st doc'] lk]| |]; [|done|done]. intros (h' & docT & H1 & H2 & H3 & H4 & H5 & H6).
  exists h', docT. split_and!; try done. destruct lk as [lv|]; cbn [leak_post]; [|done].
  destruct H6 as (A & B & C). by exists v.
Qed.

Section PhasesOracle.
  Variable oracle : nat -> bool.
  Context (h : heap) (G : forest) (doc : tree) (pid : positive) (dpt : rdata) (cpt : list tree)
          (pn : positive) (dpn : rdata) (cpn : list tree) (pb : positive) (sp : bytes) (flag : bool).
  Notation F := (G ++ [doc]).
  Notation St := (h_str h).
  Notation pt := (T pid dpt cpt).
  Hypothesis I : MInv h F.
  Hypothesis Hpt : pt ∈ nodes G.
  Hypothesis Hpn : T pn dpn cpn ∈ nodes G.
  Hypothesis Hvs : rd_vstr dpn = Some pb.
  Hypothesis Hps : St !! pb = Some sp.

  (** duplicate a node [m] of the forest, then [finish]; [s8] is the status of the NULL exit *)
  Lemma phase_dup_finish_o m s8 :
    m ∈ nodes F ->
    exists fd fp fk : bool, forall fr ff,
    phase_goal_f h G doc
      ((value' <~ cJSON_Duplicate oracle (Some (tid m)) true ;;
        if is_null value' then cleanup None None s8 else apply_patch_finish oracle (Some (tid doc)) (Some pn) value' flag) h)
      (match dup_f (mkFails fr ff fd fp fk) (reify St m) with
       | None => Ok (s8, reify St doc, None)
       | Some v => finish_add_f (mkFails fr ff fd fp fk) (reify St doc) v (cstr sp) flag
       end).
  Proof.
    intros Hm. destruct (pb_facts h G doc pn dpn cpn pb sp I Hpn Hvs Hps) as (Hpl & Hpz & Hpo).
    destruct (step_dup_oracle oracle h F (tid m) m I (node_find h F I m Hm)) as [Hno|Hyes].
    - destruct Hno as (h1 & Hrun & I1 & NL1 & Es & _ & Hn). exists true, false, false. intros fr ff. try set (fs := mkFails _ _ _ _ _).
      unfold dup_f, fs. cbn [f_dup]. rewrite (bindM_Ret _ _ _ _ _ Hrun). cbn [is_null]. rewrite cleanup_none.
      exists h1, doc. split; [done|]. split; [done|]. split; [by rewrite Es|]. split; [intros b _; by rewrite Es|]. split; [done|].
      cbn [leak_post]. done.
    - destruct Hyes as (tc & h1 & Hrun & I1 & NL1 & K1 & Hv & Hn). destruct tc as [x dx csx].
      assert (Hps1 : h_str h1 !! pb = Some sp) by (rewrite K1; [done|rewrite owned_app; apply elem_of_app; by left]).
      assert (Hpl1 : pb ∈ h_live h1).
      { apply (wf_owned_live _ _ (mi_wf _ _ I1)). rewrite !owned_app. apply elem_of_app. left. apply elem_of_app. by left. }
      destruct (finish_oracle oracle h1 G doc x dx csx pn dpn cpn pb sp flag I1 Hpn Hvs Hpl1 Hps1 Hpz) as (fp & fk & Hfin).
      exists false, fp, fk. intros fr ff. try set (fs := mkFails _ _ _ _ _). specialize (Hfin fr ff false). fold fs in Hfin.
      rewrite (reify_keep h h1 F doc (mi_own _ _ I) (doc_in_F G doc) K1) in Hfin.
      apply finish_f_to_phase in Hfin.
      unfold dup_f. unfold fs at 1. cbn [f_dup]. rewrite Hv.
      rewrite (bindM_Ret _ _ _ _ _ Hrun). cbn [is_null tid].
      destruct (finish_add_f fs (reify St doc) (reify (h_str h1) (T x dx csx)) (cstr sp) flag) as [[[st doc'] lk]| |]; [|done|done].
      destruct Hfin as (h' & docT & E & Ht & Hre & K' & Hn' & HL).
      exists h', docT. split; [done|]. split; [done|]. split; [done|].
      split; [eapply KeepO_trans; [exact (KeepO_app_l _ _ _ _ K1)|exact K']|]. split; [lia|].
      destruct lk as [lv|]; cbn [leak_post] in *.
      + destruct HL as (v & H1 & H2 & H3). exists v. split; [done|]. split; [auto|done].
      + destruct HL as [H1 H2]. split; [done|auto].
  Qed.

  (** add / replace below the root *)
  Lemma phase_value_o :
    exists fd fp fk : bool, forall fr ff,
    phase_goal_f h G doc
      ((value <~ u_get_object_item (Some pid) (CLit PatchDefs.s_value) flag ;;
        if is_null value then cleanup None None 7 else
        value' <~ cJSON_Duplicate oracle value true ;;
        if is_null value' then cleanup None None 8 else
        apply_patch_finish oracle (Some (tid doc)) (Some pn) value' flag) h)
      (match CompareDefs.get_object_item (reify St pt) (Some PatchDefs.s_value) flag with
       | None => Ok (7, reify St doc, None)
       | Some (_, v0) =>
           match dup_f (mkFails fr ff fd fp fk) v0 with
           | None => Ok (8, reify St doc, None)
           | Some v => finish_add_f (mkFails fr ff fd fp fk) (reify St doc) v (cstr sp) flag
           end
       end).
  Proof.
    destruct (run_member h F I pid dpt cpt PatchDefs.s_value flag (nodes_G_F G doc _ Hpt) zf_value) as [Hrun Hval]. rewrite Hval.
    destruct (found_member St flag PatchDefs.s_value cpt) as [[j m]|] eqn:Efm; cbn [fmap option_fmap option_map fst snd].
    2:{ exists false, false, false. intros fr ff. try set (fs := mkFails _ _ _ _ _). rewrite (bindM_Ret _ _ _ _ _ Hrun). cbn [fmap option_fmap option_map is_null].
        rewrite cleanup_none. by apply phase_goal_f_unchanged. }
    destruct (member_node h F pid dpt cpt _ _ _ _ (nodes_G_F G doc _ Hpt) Efm) as [Hm _].
    destruct (phase_dup_finish_o m 8 Hm) as (fd & fp & fk & H). exists fd, fp, fk. intros fr ff. try set (fs := mkFails _ _ _ _ _).
    rewrite (bindM_Ret _ _ _ _ _ Hrun). cbn [fmap option_fmap option_map is_null snd]. exact (H fr ff).
  Qed.

  (** copy *)
  Lemma phase_copy_o fn dfn cfn (fb : positive) (sf : bytes) :
    T fn dfn cfn ∈ nodes F -> rd_vstr dfn = Some fb -> St !! fb = Some sf ->
    exists fd fp fk : bool, forall fr ff,
    phase_goal_f h G doc
      ((value1 <~ (fv <~ get_vstr (Some fn) ;; get_item_from_pointer (Some (tid doc)) (cs_of_ptr fv) flag) ;;
        if is_null value1 then cleanup None None 5 else
        value2 <~ cJSON_Duplicate oracle value1 true ;;
        if is_null value2 then cleanup None None 6 else
        apply_patch_finish oracle (Some (tid doc)) (Some pn) value2 flag) h)
      (match (match PointerDefs.get_item_from_pointer (reify St doc) (cstr sf) flag with
              | Some fp => Tree.subtree (reify St doc) fp
              | None => None
              end) with
       | None => Ok (5, reify St doc, None)
       | Some v0 =>
           match dup_f (mkFails fr ff fd fp fk) v0 with
           | None => Ok (6, reify St doc, None)
           | Some v => finish_add_f (mkFails fr ff fd fp fk) (reify St doc) v (cstr sp) flag
           end
       end).
  Proof.
    intros Hfn Hfv Hfs. destruct (node_vstr h F I fn dfn cfn Hfn) as (Hgv & Hsome & _). rewrite Hfv in Hgv.
    destruct (Hsome fb Hfv) as (s' & Hfl & Hfs' & Hfz & _). assert (s' = sf) as -> by (unfold bytes in *; congruence).
    pose proof (get_item_from_pointer_refines h F I doc (CAt fb 0) (cstr sf) flag (doc_in_F G doc) (CsReads_block h fb sf Hfl Hfs Hfz)) as Hgip.
    destruct (PointerDefs.get_item_from_pointer (reify St doc) (cstr sf) flag) as [fp0|] eqn:Egip; cbn [mbind option_bind] in Hgip.
    2:{ exists false, false, false. intros fr ff. try set (fs := mkFails _ _ _ _ _). rewrite !bindM_assoc. rewrite (bindM_Ret _ _ _ _ _ Hgv). cbn [cs_of_ptr].
        rewrite (bindM_Ret _ _ _ _ _ Hgip). cbn [fmap option_fmap option_map is_null]. rewrite cleanup_none. by apply phase_goal_f_unchanged. }
    destruct (get_item_loop_subtree h flag _ _ _ _ Egip) as [n Hn]. rewrite Hn in Hgip. rewrite reify_subtree, Hn. cbn [fmap option_fmap option_map] in *.
    assert (Hnn : n ∈ nodes F).
    { rewrite nodes_app. apply elem_of_app. right. unfold nodes. cbn. rewrite app_nil_r. by eapply subtree_t_nodes. }
    destruct (phase_dup_finish_o n 6 Hnn) as (fd & fp & fk & H). exists fd, fp, fk. intros fr ff. try set (fs := mkFails _ _ _ _ _).
    rewrite !bindM_assoc. rewrite (bindM_Ret _ _ _ _ _ Hgv). cbn [cs_of_ptr].
    rewrite (bindM_Ret _ _ _ _ _ Hgip). cbn [is_null]. exact (H fr ff).
  Qed.

  (** [detach_path] under [oracle] inside a bind *)
  Lemma bind_detach_granted {A} (K : ptr -> M A) (fb : positive) (sf : bytes) :
    fb ∈ h_live h -> St !! fb = Some sf -> existsb (Z.eqb 0) sf = true -> oracle (h_req h) = false ->
    (v <~ detach_path oracle (Some (tid doc)) (Some fb) flag ;; K v) h =
    (v <~ detach_path nofail (Some (tid doc)) (Some fb) flag ;; K v) h.
  Proof. intros Hl Hs Hz Ho. unfold bindM. by rewrite (detach_path_oracle oracle h _ fb sf flag Hl Hs Hz), Ho. Qed.
  Lemma bind_detach_refused {A} (K : ptr -> M A) (fb : positive) (sf : bytes) :
    fb ∈ h_live h -> St !! fb = Some sf -> existsb (Z.eqb 0) sf = true -> oracle (h_req h) = true ->
    (v <~ detach_path oracle (Some (tid doc)) (Some fb) flag ;; K v) h = K None (bump h).
  Proof. intros Hl Hs Hz Ho. unfold bindM. by rewrite (detach_path_oracle oracle h _ fb sf flag Hl Hs Hz), Ho. Qed.

  (** move *)
  Lemma phase_move_o (fb : positive) (sf : bytes) :
    fb ∈ h_live h -> St !! fb = Some sf -> existsb (Z.eqb 0) sf = true ->
    exists ff fp fk : bool, forall fr fd,
    phase_goal_f h G doc
      ((v <~ detach_path oracle (Some (tid doc)) (Some fb) flag ;;
        if is_null v then cleanup None None 5 else
        if is_null v then cleanup None None 6 else
        apply_patch_finish oracle (Some (tid doc)) (Some pn) v flag) h)
      (if f_from (mkFails fr ff fd fp fk) then Ok (5, reify St doc, None) else
       dp <- PatchDefs.detach_path (reify St doc) (cstr sf) flag ;;
       match dp with
       | None => Ok (5, reify St doc, None)
       | Some (v, obj2) => finish_add_f (mkFails fr ff fd fp fk) obj2 v (cstr sp) flag
       end).
  Proof.
    intros Hfl Hfs Hfz. destruct (pb_facts h G doc pn dpn cpn pb sp I Hpn Hvs Hps) as (Hpl & Hpz & Hpo).
    destruct (oracle (h_req h)) eqn:Ho.
    { exists true, false, false. intros fr fd. try set (fs := mkFails _ _ _ _ _). unfold fs. cbn [f_from].
      rewrite (bind_detach_refused _ fb sf Hfl Hfs Hfz Ho). cbn [is_null]. rewrite cleanup_none.
      exists (bump h), doc. split; [done|]. split; [done|]. split; [done|]. split; [by intros b _|]. split; [cbn; lia|].
      cbn [leak_post]. split; [by apply MInv_bump|done]. }
    destruct (detach_path_refines h G doc fb sf flag I Hfl Hfs Hfz) as (h1 & r & F1 & Hrun & I1 & Es & NL1 & En & Hpost).
    destruct (PatchDefs.detach_path (reify St doc) (cstr sf) flag) as [[[it doc2]|]| |] eqn:Edp; cbn [bind detach_post] in *.
    - destruct Hpost as (m & pp & p & d & cs & j & -> & Hsub & Hj & -> & Hit & Hdoc2).
      set (doc1 := put_t doc pp (T p d (delete j cs))) in *.
      assert (Ht1 : tid doc1 = tid doc) by (by eapply tid_put_t_sub).
      destruct m as [x dx csx]. cbn [tid] in *.
      assert (Hps1 : h_str h1 !! pb = Some sp) by (by rewrite Es).
      assert (Hpl1 : pb ∈ h_live h1).
      { apply (wf_owned_live _ _ (mi_wf _ _ I1)). rewrite !owned_app. apply elem_of_app. left. apply elem_of_app. by left. }
      destruct (finish_oracle oracle h1 G doc1 x dx csx pn dpn cpn pb sp flag I1 Hpn Hvs Hpl1 Hps1 Hpz) as (fp & fk & Hfin).
      exists false, fp, fk. intros fr fd. try set (fs := mkFails _ _ _ _ _). unfold fs at 1. cbn [f_from]. specialize (Hfin fr false fd). fold fs in Hfin.
      rewrite Es, Hit, Hdoc2, Ht1 in Hfin. apply finish_f_to_phase in Hfin.
      rewrite (bind_detach_granted _ fb sf Hfl Hfs Hfz Ho). rewrite (bindM_Ret _ _ _ _ _ Hrun). cbn [is_null].
      destruct (finish_add_f fs doc2 it (cstr sp) flag) as [[[st doc'] lk]| |]; [|done|done].
      destruct Hfin as (h' & docT & E & Ht & Hre & K' & Hn' & HL).
      exists h', docT. split; [done|]. split; [congruence|]. split; [done|].
      split; [intros b Hb; rewrite (K' b Hb); by rewrite Es|]. split; [lia|].
      destruct lk as [lv|]; cbn [leak_post] in *.
      + destruct HL as (v & H1 & H2 & H3). exists v. split; [done|]. split; [auto|done].
      + destruct HL as [H1 H2]. split; [done|auto].
    - exists false, false, false. intros fr fd. try set (fs := mkFails _ _ _ _ _). unfold fs. cbn [f_from]. destruct Hpost as [-> ->].
      rewrite (bind_detach_granted _ fb sf Hfl Hfs Hfz Ho). rewrite (bindM_Ret _ _ _ _ _ Hrun). cbn [is_null]. rewrite cleanup_none.
      exists h1, doc. split; [done|]. split; [done|]. split; [by rewrite Es|].
      split; [intros b Hb; by rewrite Es|]. split; [lia|]. cbn [leak_post]. done.
    - done.
    - done.
  Qed.

  (** remove / replace: "Get rid of old." *)
  Lemma phase_rid_o (k : option Z) :
    let run := (old_item <~ detach_path oracle (Some (tid doc)) (Some pb) flag ;;
                if is_null old_item then ret (Some 13) else cJSON_Delete old_item ;;; ret k) in
    (oracle (h_req h) = true /\ run h = Ret (Some 13, bump h)) \/
    (oracle (h_req h) = false /\
     match PatchDefs.detach_path (reify St doc) (cstr sp) flag with
     | Ok None =>
         exists h1, run h = Ret (Some 13, h1) /\
           MInv h1 F /\ h_str h1 = St /\ (NoLeak h F -> NoLeak h1 F) /\ (h_next h <= h_next h1)%positive
     | Ok (Some (_, doc2)) =>
         exists h1 doc1, run h = Ret (k, h1) /\
           MInv h1 (G ++ [doc1]) /\ tid doc1 = tid doc /\ reify (h_str h1) doc1 = doc2 /\ KeepO h h1 G /\
           (NoLeak h F -> NoLeak h1 (G ++ [doc1])) /\ (h_next h <= h_next h1)%positive
     | _ => False
     end).
  Proof.
    intros run. destruct (pb_facts h G doc pn dpn cpn pb sp I Hpn Hvs Hps) as (Hpl & Hpz & Hpo).
    destruct (oracle (h_req h)) eqn:Ho.
    - left. split; [done|]. unfold run. by rewrite (bind_detach_refused _ pb sp Hpl Hps Hpz Ho).
    - right. split; [done|]. unfold run. rewrite (bind_detach_granted _ pb sp Hpl Hps Hpz Ho).
      exact (phase_rid h G doc pn dpn cpn pb sp flag I Hpn Hvs Hps k).
  Qed.
End PhasesOracle.

(** * the operations *)
Section ApplyOracle.
  Variable oracle : nat -> bool.
  Context (h : heap) (G : forest) (doc : tree) (pid : positive) (dpt : rdata) (cpt : list tree) (flag : bool).
  Notation F := (G ++ [doc]).
  Notation St := (h_str h).
  Notation pt := (T pid dpt cpt).
  Hypothesis I : MInv h F.
  Hypothesis Hpt : pt ∈ nodes G.

  Definition apply_post_f (o : out (Z * heap)) (vres : Base.res (Z * Tree.node * Tree.node * option Tree.node)%type) : Prop :=
    match vres with
    | Ok (st, doc', pt', lk) =>
        exists h' docT,
          o = Ret (st, h') /\ tid docT = tid doc /\ reify (h_str h') docT = doc' /\ pt' = reify St pt /\ KeepO h h' G /\
          (h_next h <= h_next h')%positive /\ leak_post h' G docT (NoLeak h F) lk
    | _ => True
    end.

  Lemma apply_post_f_of_phase o (vres : Base.res (Z * Tree.node * option Tree.node)%type) :
    phase_goal_f h G doc o vres -> apply_post_f o (' (st, d, lk) <- vres ;; Ok (st, d, reify St pt, lk)).
  Proof.
    destruct vres as [[[st doc'] lk]| |]; cbn; [|done|done]. intros (h' & docT & E & H1 & H2 & H3 & H4 & H5).
    exists h', docT. split_and!; done.
  Qed.
  Lemma apply_post_f_unchanged st : apply_post_f (Ret (st, h)) (Ok (st, reify St doc, reify St pt, None)).
  Proof. apply (apply_post_f_of_phase _ (Ok (st, reify St doc, None))). by apply phase_goal_f_unchanged. Qed.

  (** add / replace ONTO THE ROOT *)
  Lemma root_value_o :
    exists fd : bool, forall fr ff fp fk,
    apply_post_f
      ((value <~ u_get_object_item (Some pid) (CLit PatchDefs.s_value) flag ;;
        if is_null value then cleanup None None 7 else
        value' <~ cJSON_Duplicate oracle value true ;;
        if is_null value' then cleanup None None 8 else
        patch_root_overwrite (Some (tid doc)) value' ;;; cleanup None None 0) h)
      (match CompareDefs.get_object_item (reify St pt) (Some PatchDefs.s_value) flag with
       | None => Ok (7, reify St doc, reify St pt, None)
       | Some (_, v) =>
           match dup_f (mkFails fr ff fd fp fk) v with
           | None => Ok (8, reify St doc, reify St pt, None)
           | Some d => Ok (0, PatchDefs.unnamed d, reify St pt, None)
           end
       end).
  Proof.
    pose proof (nodes_G_F G doc _ Hpt) as HptF.
    destruct (run_member h F I pid dpt cpt PatchDefs.s_value flag HptF zf_value) as [Hrunv Hvalv]. rewrite Hvalv.
    destruct (found_member St flag PatchDefs.s_value cpt) as [[jv m]|] eqn:Efv; cbn [fmap option_fmap option_map fst snd].
    2:{ exists false. intros fr ff fp fk. try set (fs := mkFails _ _ _ _ _). rewrite (bindM_Ret _ _ _ _ _ Hrunv). cbn [fmap option_fmap option_map is_null].
        rewrite cleanup_none. apply apply_post_f_unchanged. }
    destruct (member_node h F pid dpt cpt _ _ _ _ HptF Efv) as [Hm _].
    destruct (step_dup_oracle oracle h F (tid m) m I (node_find h F I m Hm)) as [Hno|Hyes].
    - destruct Hno as (h1 & Hrun & I1 & NL1 & Es & _ & Hn). exists true. intros fr ff fp fk. try set (fs := mkFails _ _ _ _ _).
      unfold dup_f, fs. cbn [f_dup]. rewrite (bindM_Ret _ _ _ _ _ Hrunv). cbn [fmap option_fmap option_map is_null snd].
      rewrite (bindM_Ret _ _ _ _ _ Hrun). cbn [is_null]. rewrite cleanup_none.
      exists h1, doc. split; [done|]. split; [done|]. split; [by rewrite Es|]. split; [done|]. split; [intros b _; by rewrite Es|]. split; [done|].
      cbn [leak_post]. done.
    - destruct Hyes as (tc & h1 & Hrund & I1 & NL1 & K1 & Hv & Hn). destruct tc as [x dx csx]. exists false. intros fr ff fp fk. try set (fs := mkFails _ _ _ _ _).
      unfold dup_f, fs. cbn [f_dup]. rewrite Hv. rewrite (bindM_Ret _ _ _ _ _ Hrunv). cbn [fmap option_fmap option_map is_null snd].
      rewrite (bindM_Ret _ _ _ _ _ Hrund). cbn [is_null tid].
      destruct (root_overwrite_step' h1 G doc x dx csx I1) as (h2 & Hrun2 & I2 & NL2 & K2 & En2 & Hre2).
      rewrite (bindM_Ret _ _ _ _ _ Hrun2). rewrite cleanup_none. exists h2, (T (tid doc) (rd_unnamed dx) csx).
      split; [done|]. split; [done|]. split; [done|]. split; [done|].
      split; [eapply KeepO_trans; [exact (KeepO_app_l _ _ _ _ K1)|exact K2]|]. split; [lia|].
      cbn [leak_post]. split; [done|auto].
  Qed.

  Theorem apply_patch_oracle :
    PatchDefs.decode_patch_operation (reify St pt) flag <> Ok PatchDefs.TEST ->
    exists fs : fails,
    apply_post_f (apply_patch oracle (Some (tid doc)) (Some pid) flag h) (apply_patch_f fs (reify St doc) (reify St pt) flag).
  Proof.
    intros Hnt. pose proof (nodes_G_F G doc _ Hpt) as HptF.
    unfold apply_patch, apply_patch_f.
    destruct (run_member h F I pid dpt cpt PatchDefs.s_path flag HptF zf_path) as [Hrun Hval]. rewrite Hval.
    destruct (found_member St flag PatchDefs.s_path cpt) as [[j pathn]|] eqn:Efm; cbn [fmap option_fmap option_map fst snd].
    2:{ exists no_fails. stp Hrun. cbn [fmap option_fmap option_map]. unfold cJSON_IsString. cbn [is_null]. rewrite bindM_ret. cbn [negb].
        rewrite cleanup_none. apply apply_post_f_unchanged. }
    destruct pathn as [pn dpn cpn].
    assert (HpnG : T pn dpn cpn ∈ nodes G).
    { eapply TierBridgeForest.child_in_nodes; [exact Hpt|]. eapply elem_of_list_lookup_2. exact (found_member_lookup _ _ _ _ _ _ Efm). }
    pose proof (nodes_G_F G doc _ HpnG) as HpnF.
    pose proof (run_is_string h F I pn dpn cpn HpnF) as Hiss.
    destruct (Tree.is_string (reify St (T pn dpn cpn))) eqn:Eiss; cbn [negb].
    2:{ exists no_fails. stp Hrun. cbn [fmap option_fmap option_map tid]. stp Hiss. cbn [negb]. rewrite cleanup_none. apply apply_post_f_unchanged. }
    destruct (PatchDefs.decode_patch_operation (reify St pt) flag) as [opc| |] eqn:Edec; cbn [bind]; [|by exists no_fails|by exists no_fails].
    pose proof (run_decode h F I pid dpt cpt flag opc HptF Edec) as Hdec.
    destruct (node_vstr h F I pn dpn cpn HpnF) as (Hgv & Hsome & Hnone).
    (* the common prefix of the run *)
    assert (Hpre : forall K : ptr -> PatchDefs.opcode -> M Z,
      (path <~ u_get_object_item (Some pid) (CLit PatchDefs.s_path) flag ;;
       iss <~ cJSON_IsString path ;;
       if negb iss then cleanup None None 2 else
       opcode <~ decode_patch_operation (Some pid) flag ;; K path opcode) h = K (Some pn) opc h).
    { intros K. stp Hrun. cbn [fmap option_fmap option_map tid]. stp Hiss. cbn [negb]. by stp Hdec. }
    destruct (rd_vstr dpn) as [pb|] eqn:Evs.
    2:{ (* a String node without string: the value-level model says OOB for the five operations *)
        rewrite (Hnone eq_refl). exists no_fails. destruct opc; try done.
        rewrite Hpre. rewrite cleanup_none. apply apply_post_f_unchanged. }
    destruct (Hsome pb eq_refl) as (sp & Hpl & Hps & Hpz & Hv). rewrite Hv.
    pose proof (run_ld_byte0 _ _ _ (CsReads_block h pb sp Hpl Hps Hpz)) as Hb0.
    pose proof (hd_is_nil _ (SortSpec.cstr_zfree sp)) as Hnil.
    destruct opc; try (by exfalso; apply Hnt).
    - (* INVALID *) exists no_fails. rewrite Hpre. rewrite cleanup_none. apply apply_post_f_unchanged.
    - (* ADD *)
      rewrite Hpre. cbv zeta. cbn [andb orb].
      destruct (PatchDefs.is_nil (cstr sp)) eqn:Enil; cbn [andb orb].
      + destruct root_value_o as (fd & Hrv). exists (mkFails false false fd false false).
        stp Hgv. cbn [cs_of_ptr]. stp Hb0. rewrite Hnil, ?Enil. cbn [andb orb].
        specialize (Hrv false false false false). cbv zeta in Hrv.
        destruct (CompareDefs.get_object_item (reify St pt) (Some PatchDefs.s_value) flag) as [[jv v0]|]; [|exact Hrv].
        destruct (dup_f _ v0) as [v|]; exact Hrv.
      + destruct (phase_value_o oracle h G doc pid dpt cpt pn dpn cpn pb sp flag I Hpt HpnG Evs Hps) as (fd & fp & fk & Hph).
        exists (mkFails false false fd fp fk). specialize (Hph false false). cbv zeta in Hph. apply apply_post_f_of_phase in Hph.
        stp Hgv. cbn [cs_of_ptr]. stp Hb0. rewrite Hnil, ?Enil. cbn [andb orb]. rewrite bindM_ret. cbn [bind].
        destruct (CompareDefs.get_object_item (reify St pt) (Some PatchDefs.s_value) flag) as [[jv v0]|]; [|exact Hph].
        destruct (dup_f _ v0) as [v|]; [|exact Hph].
        destruct (finish_add_f _ (reify St doc) v (cstr sp) flag) as [[[st o] lk]| |]; exact Hph.
    - (* REMOVE *)
      rewrite Hpre. cbv zeta. cbn [andb orb].
      destruct (PatchDefs.is_nil (cstr sp)) eqn:Enil; cbn [andb orb].
      + exists no_fails. stp Hgv. cbn [cs_of_ptr]. stp Hb0. rewrite Hnil, ?Enil. cbn [andb orb].
        destruct (root_remove_step' h G doc I) as (h1 & Hrun1 & I1 & NL1 & K1 & En1).
        stp Hrun1. rewrite cleanup_none. exists h1, (T (tid doc) rd_invalid []).
        split; [done|]. split; [done|]. split; [done|]. split; [done|]. split; [done|]. split; [lia|]. cbn [leak_post]. done.
      + pose proof (phase_rid_o oracle h G doc pn dpn cpn pb sp flag I HpnG Evs Hps (Some 0)) as Hrid. cbv zeta in Hrid.
        destruct Hrid as [[Ho Hr]|[Ho Hr]].
        * exists (mkFails true false false false false). cbn [f_rid bind].
          stp Hgv. cbn [cs_of_ptr]. stp Hb0. rewrite Hnil, ?Enil. cbn [andb orb].
          rewrite bindM_assoc. rewrite (bindM_Ret _ _ _ _ _ Hgv). rewrite (bindM_Ret _ _ _ _ _ Hr). rewrite cleanup_none.
          exists (bump h), doc. split; [done|]. split; [done|]. split; [done|]. split; [done|]. split; [by intros b _|]. split; [cbn; lia|].
          cbn [leak_post]. split; [by apply MInv_bump|done].
        * exists no_fails. cbn [f_rid]. stp Hgv. cbn [cs_of_ptr]. stp Hb0. rewrite Hnil, ?Enil. cbn [andb orb].
          rewrite bindM_assoc. rewrite (bindM_Ret _ _ _ _ _ Hgv).
          destruct (PatchDefs.detach_path (reify St doc) (cstr sp) flag) as [[[it doc2]|]| |]; cbn [bind]; [| |done|done].
          -- destruct Hr as (h1 & doc1 & Hrun1 & I1 & Ht1 & Hre1 & K1 & NL1 & En1). rewrite (bindM_Ret _ _ _ _ _ Hrun1). rewrite cleanup_none.
             exists h1, doc1. split; [done|]. split; [done|]. split; [done|]. split; [done|]. split; [done|]. split; [done|]. cbn [leak_post]. done.
          -- destruct Hr as (h1 & Hrun1 & I1 & Es1 & NL1 & En1). rewrite (bindM_Ret _ _ _ _ _ Hrun1). rewrite cleanup_none.
             exists h1, doc. split; [done|]. split; [done|]. split; [by rewrite Es1|]. split; [done|].
             split; [intros b Hb; by rewrite Es1|]. split; [done|]. cbn [leak_post]. done.
    - (* REPLACE *)
      rewrite Hpre. cbv zeta. cbn [andb orb].
      destruct (PatchDefs.is_nil (cstr sp)) eqn:Enil; cbn [andb orb].
      + destruct root_value_o as (fd & Hrv). exists (mkFails false false fd false false).
        stp Hgv. cbn [cs_of_ptr]. stp Hb0. rewrite Hnil, ?Enil. cbn [andb orb].
        specialize (Hrv false false false false). cbv zeta in Hrv.
        destruct (CompareDefs.get_object_item (reify St pt) (Some PatchDefs.s_value) flag) as [[jv v0]|]; [|exact Hrv].
        destruct (dup_f _ v0) as [v|]; exact Hrv.
      + pose proof (phase_rid_o oracle h G doc pn dpn cpn pb sp flag I HpnG Evs Hps None) as Hrid. cbv zeta in Hrid.
        destruct Hrid as [[Ho Hr]|[Ho Hr]].
        * exists (mkFails true false false false false). cbn [f_rid bind].
          stp Hgv. cbn [cs_of_ptr]. stp Hb0. rewrite Hnil, ?Enil. cbn [andb orb].
          rewrite bindM_assoc. rewrite (bindM_Ret _ _ _ _ _ Hgv). rewrite (bindM_Ret _ _ _ _ _ Hr). rewrite cleanup_none.
          exists (bump h), doc. split; [done|]. split; [done|]. split; [done|]. split; [done|]. split; [by intros b _|]. split; [cbn; lia|].
          cbn [leak_post]. split; [by apply MInv_bump|done].
        * destruct (PatchDefs.detach_path (reify St doc) (cstr sp) flag) as [[[it doc2]|]| |] eqn:Edp; cbn [bind]; [| |done|done].
          -- destruct Hr as (h1 & doc1 & Hrun1 & I1 & Ht1 & Hre1 & K1 & NL1 & En1).
             assert (Hps1 : h_str h1 !! pb = Some sp).
             { rewrite (K1 pb); [done|]. exact (proj2 (proj2 (pb_facts h G doc pn dpn cpn pb sp I HpnG Evs Hps))). }
             assert (HreP : reify (h_str h1) pt = reify St pt).
             { apply (reify_keep h h1 G pt); [|done|done]. intros e He. apply (mi_own _ _ I). apply datas_elem_app. by left. }
             destruct (phase_value_o oracle h1 G doc1 pid dpt cpt pn dpn cpn pb sp flag I1 Hpt HpnG Evs Hps1) as (fd & fp & fk & Hph).
             exists (mkFails false false fd fp fk). cbn [f_rid]. rewrite ?Edp. cbn [bind]. specialize (Hph false false). cbv zeta in Hph.
             rewrite HreP, Hre1, Ht1 in Hph.
             apply (phase_goal_f_step h h1 G doc doc1 _ _ Ht1 K1 NL1 En1) in Hph. apply apply_post_f_of_phase in Hph.
             stp Hgv. cbn [cs_of_ptr]. stp Hb0. rewrite Hnil, ?Enil. cbn [andb orb].
             rewrite bindM_assoc. rewrite (bindM_Ret _ _ _ _ _ Hgv). rewrite (bindM_Ret _ _ _ _ _ Hrun1).
             destruct (CompareDefs.get_object_item (reify St pt) (Some PatchDefs.s_value) flag) as [[jv v0]|]; [|exact Hph].
             destruct (dup_f _ v0) as [v|]; [|exact Hph].
             destruct (finish_add_f _ doc2 v (cstr sp) flag) as [[[st o] lk]| |]; exact Hph.
          -- exists no_fails. cbn [f_rid]. rewrite ?Edp. cbn [bind].
             stp Hgv. cbn [cs_of_ptr]. stp Hb0. rewrite Hnil, ?Enil. cbn [andb orb].
             rewrite bindM_assoc. rewrite (bindM_Ret _ _ _ _ _ Hgv).
             destruct Hr as (h1 & Hrun1 & I1 & Es1 & NL1 & En1). rewrite (bindM_Ret _ _ _ _ _ Hrun1). rewrite cleanup_none.
             exists h1, doc. split; [done|]. split; [done|]. split; [by rewrite Es1|]. split; [done|].
             split; [intros b Hb; by rewrite Es1|]. split; [done|]. cbn [leak_post]. done.
    - (* MOVE *)
      rewrite Hpre. cbv zeta. rewrite !andb_false_r. cbn [orb bind].
      destruct (run_member h F I pid dpt cpt PatchDefs.s_from flag HptF zf_from) as [Hrunf Hvalf]. rewrite Hvalf.
      assert (Hhead : forall K : M Z,
        (pv0 <~ get_vstr (Some pn) ;; c0 <~ ld_byte (cs_of_ptr pv0) 0 ;;
         if (c0 =? 0) && false then patch_root_remove (Some (tid doc)) ;;; cleanup None None 0
         else if (c0 =? 0) && false then K else K) h = K h).
      { intros K. stp Hgv. cbn [cs_of_ptr]. stp Hb0. by rewrite !andb_false_r. }
      destruct (found_member St flag PatchDefs.s_from cpt) as [[jf fromn]|] eqn:Eff; cbn [fmap option_fmap option_map fst snd].
      2:{ exists no_fails. stp Hgv. cbn [cs_of_ptr]. stp Hb0. rewrite !andb_false_r. rewrite bindM_ret. stp Hrunf.
          cbn [fmap option_fmap option_map]. unfold cJSON_IsString. cbn [is_null]. rewrite bindM_ret. cbn [negb]. rewrite cleanup_none. apply apply_post_f_unchanged. }
      destruct fromn as [fn dfn cfn].
      destruct (member_node h F pid dpt cpt _ _ _ _ HptF Eff) as [HfnF _].
      pose proof (run_is_string h F I fn dfn cfn HfnF) as Hissf.
      destruct (Tree.is_string (reify St (T fn dfn cfn))) eqn:Eissf; cbn [negb].
      2:{ exists no_fails. stp Hgv. cbn [cs_of_ptr]. stp Hb0. rewrite !andb_false_r. rewrite bindM_ret. stp Hrunf.
          cbn [fmap option_fmap option_map tid]. stp Hissf. cbn [negb]. rewrite cleanup_none. apply apply_post_f_unchanged. }
      destruct (node_vstr h F I fn dfn cfn HfnF) as (Hgf & Hsomef & Hnonef).
      destruct (rd_vstr dfn) as [fb|] eqn:Efv; [|rewrite (Hnonef eq_refl); by exists no_fails].
      destruct (Hsomef fb eq_refl) as (sf & Hfl & Hfs & Hfz & Hfv). rewrite Hfv.
      assert (Eshape : forall g,
        (a <~ detach_path oracle (Some (tid doc)) (Some fb) flag ;;
         r1 <~ ret (Some a) ;;
         match r1 with
         | Some value0 =>
             value1 <~ (if false then fv <~ get_vstr (Some fn) ;; get_item_from_pointer (Some (tid doc)) (cs_of_ptr fv) flag else ret value0) ;;
             (if is_null value1 then cleanup None None 5
              else value2 <~ (if false then cJSON_Duplicate oracle value1 true else ret value1) ;;
                   (if is_null value2 then cleanup None None 6 else apply_patch_finish oracle (Some (tid doc)) (Some pn) value2 flag))
         | None => cleanup None None 9
         end) g =
        (v <~ detach_path oracle (Some (tid doc)) (Some fb) flag ;;
         if is_null v then cleanup None None 5 else if is_null v then cleanup None None 6
         else apply_patch_finish oracle (Some (tid doc)) (Some pn) v flag) g).
      { intros g. apply bindM_ext; [done|]. intros a g'. rewrite !bindM_ret. destruct a; cbn [is_null]; rewrite ?bindM_ret; reflexivity. }
      destruct (bytes_eqb (firstn (length (cstr sf)) (cstr sp)) (cstr sf) && (hd 0 (skipn (length (cstr sf)) (cstr sp)) =? 47)) eqn:Einside.
      + (* into one of its own children: status 9 before any request *)
        exists no_fails. stp Hgv. cbn [cs_of_ptr]. stp Hb0. rewrite !andb_false_r. rewrite bindM_ret. stp Hrunf.
        cbn [fmap option_fmap option_map tid]. stp Hissf. cbn [negb].
        rewrite !bindM_assoc. stp Hgf. stp (run_ld_cstr _ _ _ Hfl Hfs Hfz). stp Hgf. stp Hgv.
        stp (run_ld_cstr _ _ _ Hfl Hfs Hfz). stp (run_ld_cstr _ _ _ Hpl Hps Hpz).
        apply andb_true_iff in Einside as [Epre E47]. rewrite Epre.
        stp Hgv. cbn [cs_of_ptr].
        stp (run_ld_byte_k h pb sp (length (cstr sf)) Hpl Hps Hpz (bytes_eqb_firstn_length _ _ Epre)). rewrite bindM_ret.
        change (skipn (length (cstr sf)) (cstr sp)) with (drop (length (cstr sf)) (cstr sp)) in E47. rewrite E47.
        rewrite bindM_ret. rewrite cleanup_none. apply apply_post_f_unchanged.
      + destruct (phase_move_o oracle h G doc pn dpn cpn pb sp flag I HpnG Evs Hps fb sf Hfl Hfs Hfz) as (ff & fp & fk & Hph).
        exists (mkFails false ff false fp fk). specialize (Hph false false). cbv zeta in Hph. apply apply_post_f_of_phase in Hph.
        assert (Hgoal : apply_post_f
          ((v <~ detach_path oracle (Some (tid doc)) (Some fb) flag ;;
            if is_null v then cleanup None None 5 else if is_null v then cleanup None None 6
            else apply_patch_finish oracle (Some (tid doc)) (Some pn) v flag) h)
          (if f_from (mkFails false ff false fp fk) then Ok (5, reify St doc, reify St pt, None)
           else dp <- PatchDefs.detach_path (reify St doc) (cstr sf) flag ;;
                match dp with
                | Some (v, obj2) => ' (st, o, lk) <- finish_add_f (mkFails false ff false fp fk) obj2 v (cstr sp) flag ;; Ok (st, o, reify St pt, lk)
                | None => Ok (5, reify St doc, reify St pt, None)
                end)).
        { destruct (f_from _); [exact Hph|].
          destruct (PatchDefs.detach_path (reify St doc) (cstr sf) flag) as [[[v obj2]|]| |]; cbn [bind] in *; try exact Hph;
            try (destruct (finish_add_f _ obj2 v (cstr sp) flag) as [[[st o] lk]| |]; exact Hph). }
        stp Hgv. cbn [cs_of_ptr]. stp Hb0. rewrite !andb_false_r. rewrite bindM_ret. stp Hrunf.
        cbn [fmap option_fmap option_map tid]. stp Hissf. cbn [negb].
        rewrite !bindM_assoc. stp Hgf. stp (run_ld_cstr _ _ _ Hfl Hfs Hfz). stp Hgf. stp Hgv.
        stp (run_ld_cstr _ _ _ Hfl Hfs Hfz). stp (run_ld_cstr _ _ _ Hpl Hps Hpz).
        destruct (bytes_eqb (firstn (length (cstr sf)) (cstr sp)) (cstr sf)) eqn:Epre; cbn [andb] in Einside |- *.
        * stp Hgv. cbn [cs_of_ptr].
          stp (run_ld_byte_k h pb sp (length (cstr sf)) Hpl Hps Hpz (bytes_eqb_firstn_length _ _ Epre)). rewrite bindM_ret.
          change (skipn (length (cstr sf)) (cstr sp)) with (drop (length (cstr sf)) (cstr sp)) in Einside. rewrite Einside.
          rewrite !bindM_assoc. stp Hgf. rewrite !bindM_assoc. rewrite Eshape. exact Hgoal.
        * rewrite !bindM_assoc, bindM_ret. cbv beta iota. rewrite !bindM_assoc. stp Hgf. rewrite !bindM_assoc. rewrite Eshape. exact Hgoal.
    - (* COPY *)
      rewrite Hpre. cbv zeta. rewrite !andb_false_r. cbn [orb bind].
      destruct (run_member h F I pid dpt cpt PatchDefs.s_from flag HptF zf_from) as [Hrunf Hvalf]. rewrite Hvalf.
      destruct (found_member St flag PatchDefs.s_from cpt) as [[jf fromn]|] eqn:Eff; cbn [fmap option_fmap option_map fst snd].
      2:{ exists no_fails. stp Hgv. cbn [cs_of_ptr]. stp Hb0. rewrite !andb_false_r. rewrite bindM_ret. stp Hrunf.
          cbn [fmap option_fmap option_map]. unfold cJSON_IsString. cbn [is_null]. rewrite bindM_ret. cbn [negb]. rewrite cleanup_none. apply apply_post_f_unchanged. }
      destruct fromn as [fn dfn cfn].
      destruct (member_node h F pid dpt cpt _ _ _ _ HptF Eff) as [HfnF _].
      pose proof (run_is_string h F I fn dfn cfn HfnF) as Hissf.
      destruct (Tree.is_string (reify St (T fn dfn cfn))) eqn:Eissf; cbn [negb].
      2:{ exists no_fails. stp Hgv. cbn [cs_of_ptr]. stp Hb0. rewrite !andb_false_r. rewrite bindM_ret. stp Hrunf.
          cbn [fmap option_fmap option_map tid]. stp Hissf. cbn [negb]. rewrite cleanup_none. apply apply_post_f_unchanged. }
      destruct (node_vstr h F I fn dfn cfn HfnF) as (Hgf & Hsomef & Hnonef).
      destruct (rd_vstr dfn) as [fb|] eqn:Efv.
      + destruct (Hsomef fb eq_refl) as (sf & Hfl & Hfs & Hfz & Hfv). rewrite Hfv.
        destruct (phase_copy_o oracle h G doc pn dpn cpn pb sp flag I HpnG Evs Hps fn dfn cfn fb sf HfnF Efv Hfs) as (fd & fp & fk & Hph).
        exists (mkFails false false fd fp fk). specialize (Hph false false). cbv zeta in Hph. apply apply_post_f_of_phase in Hph.
        stp Hgv. cbn [cs_of_ptr]. stp Hb0. rewrite !andb_false_r. rewrite bindM_ret. stp Hrunf.
        cbn [fmap option_fmap option_map tid]. stp Hissf. cbn [negb]. rewrite bindM_ret.
        destruct (PointerDefs.get_item_from_pointer (reify St doc) (cstr sf) flag) as [fp0|]; [|exact Hph].
        destruct (Tree.subtree (reify St doc) fp0) as [v0|]; [|exact Hph].
        destruct (dup_f _ v0) as [v|]; [|exact Hph].
        destruct (finish_add_f _ (reify St doc) v (cstr sp) flag) as [[[st o] lk]| |]; exact Hph.
      + exists no_fails. rewrite (Hnonef eq_refl).
        stp Hgv. cbn [cs_of_ptr]. stp Hb0. rewrite !andb_false_r. rewrite bindM_ret. stp Hrunf.
        cbn [fmap option_fmap option_map tid]. stp Hissf. cbn [negb]. rewrite bindM_ret.
        rewrite !bindM_assoc. stp Hgf. cbn [cs_of_ptr].
        unfold get_item_from_pointer at 1. cbn [cs_is_null]. rewrite bindM_ret. cbn [is_null]. rewrite cleanup_none.
        apply apply_post_f_unchanged.
  Qed.
End ApplyOracle.
