"""C11 — duplicate produces an equal, fully independent copy."""
import random
from .common import Case, load_corpus, is_crash
from . import coregen

AREA = 'core'
MODEL_FILES = 'CoreDefs.v (cJSON_Duplicate, cJSON_Duplicate_rec, cJSON_Delete), CoreOps.v (dump, owned_blocks)'
RULE = ('random trees with reference nodes and constant keys built by histories, duplicated (recursively and not) at random points; the same histories with every block the library holds made READ-ONLY (arena allocator + mprotect) around each run of duplicate / query calls, so that any store into the source faults; the copy must dump like the source with the '
        'reference bits cleared and no sibling links, the implementation side checks pointer-disjointness of every owned block of source and copy; the histories then go on '
        'editing / deleting either tree and every live root is re-dumped after every call (the untouched tree must not change); ledger after every call; plus chains of depth '
        'CJSON_CIRCULAR_LIMIT-1 … +3, containers with about CJSON_CIRCULAR_LIMIT children (flat and a few levels down: the limit bounds depth, not width) and hand-built 1-/2-/3-cycles duplicated on a thread with a 2 MB stack (NULL, ledger restored, source depth unchanged); '
        'verdict = python list model / analytic expectation for the deep cases')
ASSUMPTIONS = ['histories respect the documented ownership rules', 'hand-written transliteration validated by this differential run',
               'deep and cyclic cases are judged on the implementation by the verdict; the extracted model runs them only in the thorough tier (Heap.v set union is linear)']

def corpus(ctx): return load_corpus(ctx['verif'], 'C11')

def dup_directed():
    """one tree with every ownership feature, duplicated, then each tree edited while the other is watched"""
    # handles: 0 obj, 1 arr, 2 num, 3 str, 4 true, 5 string reference, 6 obj, 7 num (member of 6), 8 array reference to 7, 9 raw
    build = ('obj;arr;num:3ff8000000000000;add:1:2;str:x76616c;add:1:3;addo:0:x6c697374:1;true;addcs:0:x636b:4;'
             'sref:x72656673;addo:0:x7372:5;obj;anum:6:x6e:4000000000000000;addrefo:0:x726f:6;aref:7;addo:0:x6172:8;raw:x7b7d;addo:0:x72:9')
    tails = ['dup:0:1;del:0;size:10;geto:10:x6c697374;each:11',
             'dup:0:1;del:10;size:0;each:1',
             'dup:0:1;sets:3:x61206d756368206c6f6e6765722076616c7565;setn:2:4024000000000000;delocs:0:x636b;size:10',
             'dup:0:1;geto:10:x6c697374;dela:11:0;astr:10:x6e6577:x78;null;repo:10:x636b:13',
             'dup:0:0;dup:1:0;dup:5:1;dup:6:1;dup:8:1;dup:8:0',
             'dup:1:1;dup:0:1;add:11:10;each:11',
             'dup:6:1;dup:0:1;del:10;anull:11:x7a']
    out = []
    for t in tails:
        out.append(Case('hist DX 0 ' + build + ';' + t, {'tags': ['directed', 'dup-directed']}))
    return out

def generate(ctx):
    rng = random.Random(ctx['seed'] * 15487469 + 11)
    quick = ctx['tier'] == 'quick'
    limit = coregen.circular_limit(ctx['repo'])
    cases = dup_directed() + coregen.deep_cases(limit, model_too=() if (quick or ctx.get('seed_index', 0)) else ('cycle1', 'chain:limit+2')) + coregen.wide_cases(limit)
    # every allocation request of a duplicate refused in turn: the source must dump identically afterwards and the ledger must be restored
    # (handles: 0 obj, 1 arr, 2 num, 3 str, 4 true, 5 sref, 6 obj, 7 num, 8 aref, 9 raw — see dup_directed)
    build = dup_directed()[0].line.split(' ', 3)[3].rsplit(';dup:0:1', 1)[0] + ';str:x6373;addcs:0:x63736b:10;sref:x7273;addcs:0:x72736b:11'   # + string and string reference under constant keys
    nb = len(build.split(';'))
    for k in range(1, 30):
        cases.append(Case('hist DX @%d.%d %s;dup:0:1;size:0;each:1;geto:0:x7372' % (nb, k, build), {'tags': ['dup-under-failure', 'k=%d' % k]}))
    n = 300 if quick else 1200
    for i in range(n):
        nops = 40 if quick else rng.choice([20, 40, 60, 80, 100])     # longer 'dup' histories make trees of 10^4 blocks (copies of copies): minutes per case in the extracted heap model
        cases.append(coregen.history_case(rng, 'dup', nops, 'DX'))
    # "the source is never modified", literally: the same histories with every block the library holds made READ-ONLY around each run of
    # calls that only read what exists (duplicate, queries) — a store into the source, even one that is undone afterwards, faults
    ro = ('dup', 'size', 'get', 'geto', 'getocs', 'has', 'each', 'gets', 'getn')
    for c in [c for c in cases if c.line.startswith('hist DX 0 ') and 'dup:' in c.line][:(120 if quick else 600)]:
        ops = c.line.split(' ', 3)[3].split(';'); out = []; sealed = False
        for o in ops:
            r = o.split(':')[0] in ro
            if r and not sealed: out.append('seal'); sealed = True
            if not r and sealed: out.append('unseal'); sealed = False
            out.append(o)
        if sealed: out.append('unseal')
        info = dict(c.info); info['tags'] = list(info.get('tags', [])) + ['read-only-source']
        cases.append(Case('hist DXR 0 ' + ';'.join(out), info))
    return cases

def project(c, out):
    if 'S' in c.line.split(' ')[1]: return ''
    t = out.split(' ; ')
    # request counts are not an observable of this property
    return ' ; '.join(' '.join(x for x in s.split(' ') if not x.startswith('reqs=')) for s in t)

def verdict(c, out, ctx):
    hp = coregen.health_problem(out)
    if hp: return hp
    if 'expect_segments' in c.info: return coregen.deep_verdict(c, out)
    if ' X live=' in out and ' X live=0' not in out: return 'blocks remain allocated after deleting every root'
    exp = coregen.expected(c.line)
    if exp is None: return None
    if out != exp: return coregen.diff_report(c.line, out, exp, lambda x: x) or 'output differs from the list model'
    return None

def nontrivial(c, out):
    return not is_crash(out) and 'dup:' in c.line
