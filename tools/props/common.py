"""common.py — shared pieces of the per-property generators / verdicts."""
import random, json, os, struct

class Case:
    __slots__ = ('line', 'info')
    def __init__(self, line, info=None):
        self.line = line; self.info = info or {}

def hx(b):
    b = bytes(b)
    return b.hex() if b else '='
def unhx(h):
    return b'' if h in ('=', '-') else bytes.fromhex(h)

def load_corpus(verif, pid):
    d = os.path.join(verif, 'corpus', pid); out = []
    if os.path.isdir(d):
        for fn in sorted(os.listdir(d)):
            if fn.endswith('.case'):
                for l in open(os.path.join(d, fn)):
                    l = l.rstrip('\n')
                    if l and not l.startswith('#'): out.append(Case(l, {'tags': ['corpus'], 'corpus': fn}))
    return out

def is_crash(out):
    return out.startswith('CRASH') or out == 'NOOUTPUT'

# ---------------------------------------------------------------- random JSON values / texts
KEYS = ['a', 'b', 'A', 'key', '', 'a/b', 'm~n', '~0', '~1', '0', '01', ' ', 'é', 'k\\', 'q"', 'Key', 'x y']
STRS = ['', 'x', 'hello world', 'a\\', 'a\\\\', '\\"', 'q"uo"te', '\n\t\r\b\f', '\x01\x1f', 'é€😀', '/', 'a/b', ' // not a comment ', '/* no */', '\x7f',
        'tab\there', 'back\\slash', '\\\\"', 'end\\']
NUMS = [0, 1, -1, 2, 10, 42, -7, 2147483647, -2147483648, 2147483648, 1e15, 999999999999999, 1e16, 0.5, -0.25, 0.1, 1.5, 3.141592653589793,
        1e-7, 1.7976931348623157e308, 5e-324, 2.2250738585072014e-308, 1e21, 1e22, 123456789012345678, 0.30000000000000004, 1/3, 100, 1e2, -0.0,
        4294967296, 1.0000000000000002, 0.9999999999999999, 9007199254740993, 1e100, 1.23e-5, 123.456]

def rand_value(rng, depth=3, keys=None, distinct=True, nums=None, strs=None):
    keys = keys or KEYS; nums = nums or NUMS; strs = strs or STRS
    r = rng.random()
    if depth <= 0 or r < 0.45:
        k = rng.randrange(6)
        if k == 0: return None
        if k == 1: return rng.random() < 0.5
        if k in (2, 3): return rng.choice(nums)
        return rng.choice(strs)
    if r < 0.72:
        return [rand_value(rng, depth - 1, keys, distinct, nums, strs) for _ in range(rng.choice([0, 1, 1, 2, 3, 4]))]
    n = rng.choice([0, 1, 2, 2, 3, 4])
    ks = rng.sample(keys, min(n, len(keys))) if distinct else [rng.choice(keys) for _ in range(n)]
    return [(k, rand_value(rng, depth - 1, keys, distinct, nums, strs)) for k in ks] if True else None

class Obj(list):
    """marker: a list of (key, value) pairs is an object"""

def is_obj(v):
    return isinstance(v, list) and (len(v) > 0 and all(isinstance(x, tuple) and len(x) == 2 and isinstance(x[0], str) for x in v)) or isinstance(v, Obj)

def rand_json_value(rng, depth=3, **kw):
    """values where objects are Obj([(k,v)...]) so that the empty object is distinguishable from the empty array"""
    v = rand_value(rng, depth, **kw)
    def conv(x, d):
        if isinstance(x, list):
            if x and all(isinstance(e, tuple) for e in x): return Obj([(k, conv(e, d + 1)) for k, e in x])
            if not x and rng.random() < 0.5: return Obj()
            return [conv(e, d + 1) for e in x]
        return x
    return conv(v, 0)

def num_text(x):
    if isinstance(x, bool): return 'true' if x else 'false'
    if isinstance(x, int): return str(x)
    r = repr(float(x))
    if r in ('inf', '-inf', 'nan'): return '0'
    return r

def str_text(s, rng=None, ascii_only=False):
    out = ['"']
    for ch in s:
        o = ord(ch)
        if ch == '"': out.append('\\"')
        elif ch == '\\': out.append('\\\\')
        elif ch == '\n': out.append('\\n')
        elif ch == '\t': out.append('\\t')
        elif ch == '\r': out.append('\\r')
        elif ch == '\b': out.append('\\b')
        elif ch == '\f': out.append('\\f')
        elif ch == '/' and rng is not None and rng.random() < 0.3: out.append('\\/')
        elif o < 0x20: out.append('\\u%04x' % o)
        elif rng is not None and rng.random() < 0.15 or (ascii_only and o > 0x7e):
            if o >= 0x10000:
                o2 = o - 0x10000; out.append('\\u%04X\\u%04x' % (0xD800 + (o2 >> 10), 0xDC00 + (o2 & 0x3ff)))
            else: out.append('\\u%04x' % o)
        else: out.append(ch)
    out.append('"')
    return ''.join(out)

def tokens_of(v, rng=None):
    """token list (each token a str) of a JSON value"""
    if v is None: return ['null']
    if v is True: return ['true']
    if v is False: return ['false']
    if isinstance(v, (int, float)): return [num_text(v)]
    if isinstance(v, str): return [str_text(v, rng)]
    if isinstance(v, Obj):
        t = ['{']
        for i, (k, e) in enumerate(v):
            if i: t.append(',')
            t.append(str_text(k, rng)); t.append(':'); t += tokens_of(e, rng)
        return t + ['}']
    t = ['[']
    for i, e in enumerate(v):
        if i: t.append(',')
        t += tokens_of(e, rng)
    return t + [']']

def to_python(v):
    """plain python value (dict for objects, later duplicates win like json.loads)"""
    if isinstance(v, Obj): return {k: to_python(e) for k, e in v}
    if isinstance(v, list): return [to_python(e) for e in v]
    return v

def dbl_bits(x):
    return struct.unpack('<Q', struct.pack('<d', float(x)))[0]
def bits_dbl(u):
    return struct.unpack('<d', struct.pack('<Q', u))[0]

# ---------------------------------------------------------------- trees in the drivers' token format
T_FALSE, T_TRUE, T_NULL, T_NUMBER, T_STRING, T_ARRAY, T_OBJECT, T_RAW = 1, 2, 4, 8, 16, 32, 64, 128
F_REF, F_CONST = 256, 512
INT_MAX, INT_MIN = 2147483647, -2147483648

def sat_int(x):
    x = float(x)
    if x != x: return INT_MIN
    if x >= INT_MAX: return INT_MAX
    if x <= INT_MIN: return INT_MIN
    return int(x)

def dtok(x):
    x = float(x)
    return 'nan' if x != x else '%016x' % dbl_bits(x)

def htok(s):
    if s is None: return '-'
    b = s if isinstance(s, (bytes, bytearray)) else s.encode('utf-8')
    return b.hex() if b else '='

def node_tokens(ty, vs=None, vi=0, vd=0.0, key=None, children=()):
    t = ['N', str(ty), htok(vs), str(vi), dtok(vd), htok(key), str(len(children))]
    for c in children: t += c
    return t

def value_tokens(v, key=None, flags=0):
    """tokens of the tree the construction API builds for a python-side value"""
    if v is None: return node_tokens(T_NULL | flags, key=key)
    if v is True: return node_tokens(T_TRUE | flags, key=key)
    if v is False: return node_tokens(T_FALSE | flags, key=key)
    if isinstance(v, (int, float)): return node_tokens(T_NUMBER | flags, vi=sat_int(v), vd=float(v), key=key)
    if isinstance(v, (str, bytes)): return node_tokens(T_STRING | flags, vs=v, key=key)
    if isinstance(v, Obj): return node_tokens(T_OBJECT | flags, key=key, children=[value_tokens(e, key=k) for k, e in v])
    return node_tokens(T_ARRAY | flags, key=key, children=[value_tokens(e) for e in v])

def all_paths(v, here=()):
    yield here
    if isinstance(v, Obj):
        for i, (k, e) in enumerate(v): yield from all_paths(e, here + (i,))
    elif isinstance(v, list):
        for i, e in enumerate(v): yield from all_paths(e, here + (i,))

def pstr(path):
    return 'NULL' if path is None else 'P' + '.'.join(str(i) for i in path)

def strip_suffix(out):
    """drop the allocator report appended by the implementation driver"""
    toks = out.split(' ')
    return ' '.join(t for t in toks if not (t.startswith('live=') or t == 'SPECDIFF'))

def alloc_problem(out):
    for t in out.split(' '):
        if t.startswith('live=') and t != 'live=0': return 'allocator imbalance after the call (%s)' % t
        if t.startswith('DOUBLEFREE') or t.startswith('FOREIGNFREE') or t == 'FOREIGNDAMAGED': return 'allocator misuse: ' + t
        if t == 'LINKS=BAD' or t == 'ROOTLINKS': return 'sibling chain inconsistent after the call (%s)' % t
    return None


def header_limit(repo, name, default):
    """a limit macro of cJSON.h as the CURRENT source defines it (the generators aim at it; the model gets it through gen/Constants.v)"""
    import re
    try:
        m = re.search(r'#\s*define\s+%s\s+(\d+)' % name, open(os.path.join(repo, 'cJSON.h')).read())
        return int(m.group(1))
    except Exception:
        return default
def nesting_limit(repo): return header_limit(repo, 'CJSON_NESTING_LIMIT', 1000)
def circular_limit(repo): return header_limit(repo, 'CJSON_CIRCULAR_LIMIT', 10000)
