(** GenMergeHeapEntry.v — the public entry points [cJSONUtils_GenerateMergePatch[CaseSensitive]] at heap level
    (fuel from the heap), the NULL arguments, and the exact ledger.

    What the C API allows: [from] and [to] are arbitrary nodes — roots or members of a larger document; the
    function never touches their own next / prev / string fields, only their member chains (and those of the
    object nodes below them that the walk meets), so calling it on inner nodes is legitimate.  The theorems are
    for two nodes with DISJOINT subtrees ([tdisj]); [from == to] and nested operands are outside them. *)
From CJ Require Import Base Dbl Heap Forest ForestLemmas CoreSpec CoreDefs CoreRefineBase CoreRefine CoreRefineMore
  CoreRefineFrame CoreRefineHistory CoreRefineDupBase CoreRefineDupValue CoreRefineDupForest CoreLedgerGen.
From CJ Require Import TierBridgeDefs TierBridgeForest TierBridgeLemmas TierBridgeEndToEndStr.
From CJ Require Import MergeHeapDefs MergeHeapInv MergeHeapProofs GenMergeHeapDefs GenMergeHeapForest GenMergeHeapCompare GenMergeHeapProofs.
From CJ Require Tree CompareDefs MergeDefs.
From CJ.gen Require Import Constants.
From stdpp Require Import gmap.
From Coq Require Import Lia.
Local Open Scope Z_scope.

(** * fuel: two disjoint subtrees have together fewer nodes than identities were handed out *)
Lemma two_subtrees_fuel h F tf tt :
  WF h F -> tf ∈ nodes F -> tt ∈ nodes F -> tdisj tf tt -> (tsize tf + tsize tt < Pos.to_nat (h_next h))%nat.
Proof.
  intros W Hf Ht Hdis. pose proof (wf_nodup _ _ W) as ND.
  assert (NDl : NoDup (ids_t tf ++ ids_t tt)).
  { apply NoDup_app. split; [exact (NoDup_ids_t_node F tf ND Hf)|]. split; [exact Hdis|exact (NoDup_ids_t_node F tt ND Ht)]. }
  assert (Hsub : forall z, z ∈ ids_t tf ++ ids_t tt -> z ∈ ids F).
  { intros z Hz. apply elem_of_app in Hz as [Hz|Hz]; apply elem_of_list_fmap in Hz as (n & -> & Hn); apply elem_of_list_fmap; exists n;
      (split; [done|]).
    - exact (CoreLedgerDup.nodes_t_in_nodes F tf n Hf Hn).
    - exact (CoreLedgerDup.nodes_t_in_nodes F tt n Ht Hn). }
  pose proof (submseteq_length _ _ (NoDup_submseteq _ _ NDl Hsub)) as Hlen.
  pose proof (NoDup_length_lt_pos (ids F) (h_next h) ND (fun z Hz => WF_ids_fresh _ _ _ W Hz)) as Hlt.
  rewrite app_length in Hlen. unfold tsize, ids_t in *. rewrite !fmap_length in Hlen. lia.
Qed.

(** * the two entry points, both arguments non-NULL *)
Theorem generate_refines (flag : bool) h F f t tf tt :
  MInv h F -> find_tree f F = Some tf -> find_tree t F = Some tt -> tdisj tf tt ->
  gdoc tf -> gdoc tt -> (height tt <= LIMIT)%nat ->
  exists h' F' (res : option tree) tf' tt',
    generate_merge_patch nofail (Some f) (Some t) flag h = Ret (tid <$> res, h') /\
    MInv h' (F' ++ opt_list res) /\
    Frame F F' (ids_t tf ++ ids_t tt) /\
    find_tree f F' = Some tf' /\ find_tree t F' = Some tt' /\ treord tf tf' /\ treord tt tt' /\
    MergeDefs.mp_GenerateMergePatch_gen flag (Some (reify (h_str h) tf)) (Some (reify (h_str h) tt)) =
      Ok (reify (h_str h') <$> res, Some (reify (h_str h') tf'), Some (reify (h_str h') tt')) /\
    (NoLeak h F -> NoLeak h' (F' ++ opt_list res)) /\ KeepO h h' F.
Proof.
  intros I Hf Ht Hdis Gf Gt Hh. pose proof (mi_wf _ _ I) as W.
  pose proof Hf as Hf0. apply find_tree_Some in Hf0 as [Hfn <-]. pose proof Ht as Ht0. apply find_tree_Some in Ht0 as [Htn <-].
  pose proof (two_subtrees_fuel h F tf tt W Hfn Htn Hdis) as Hfuel.
  unfold generate_merge_patch, heap_fuel. unfold bindM at 1.
  destruct (gen_rec (Pos.to_nat (h_next h)) (Pos.to_nat (h_next h)) flag tf tt h F [])
    as (h' & F' & res & tf' & tt' & Hrun & I' & NL' & K' & Fr & Hf' & Ht' & Rf & Rt & V).
  { pose proof (tsize_pos tf). lia. }
  { unfold gen_pre. rewrite app_nil_r. split; [done|]. split; [done|]. split; [done|]. split; [done|]. split; [done|]. by split. }
  rewrite !app_nil_r in *.
  exists h', F', res, tf', tt'. split; [exact Hrun|]. split; [exact I'|]. split; [exact Fr|]. split; [exact Hf'|]. split; [exact Ht'|].
  split; [exact Rf|]. split; [exact Rt|]. split; [|split; [exact NL'|exact K']].
  unfold MergeDefs.mp_GenerateMergePatch_gen. rewrite (V (Tree.node_depth (reify (h_str h) tt))).
  - cbn [bind].
    assert (Own' : forall e, e ∈ datas F' -> node_owns e.2) by (intros e He; apply (mi_own _ _ I'); apply datas_elem_app; by left).
    assert (E1 : reify (h_str h') tf' = reify (h_str h) tf').
    { apply (reify_keep_frame h h' F F' _ tf' Fr Own'); [by apply find_tree_Some in Hf' as [? _]|done]. }
    assert (E2 : reify (h_str h') tt' = reify (h_str h) tt').
    { apply (reify_keep_frame h h' F F' _ tt' Fr Own'); [by apply find_tree_Some in Ht' as [? _]|done]. }
    by rewrite E1, E2.
  - rewrite height_node_depth. lia.
Qed.

(** cJSONUtils_GenerateMergePatch(from, NULL): "patch to delete everything" — a new null node *)
Theorem generate_null_to (flag : bool) h F (from : ptr) :
  MInv h F ->
  let t := T (h_next h) (rd_typed c_cJSON_NULL) [] in
  exists h', generate_merge_patch nofail from None flag h = Ret (Some (tid t), h') /\
    MInv h' (F ++ [t]) /\ (NoLeak h F -> NoLeak h' (F ++ [t])) /\ h_str h' = h_str h /\
    forall vfrom, MergeDefs.mp_GenerateMergePatch_gen flag vfrom None = Ok (Some (reify (h_str h') t), vfrom, None).
Proof.
  intros I t. unfold generate_merge_patch, heap_fuel. unfold bindM at 1.
  destruct (Pos.to_nat (h_next h)) as [|n] eqn:En; [pose proof (Pos2Nat.is_pos (h_next h)); lia|].
  rewrite generate_merge_patch_fuel_S. cbn [is_null].
  destruct (step_create_typed h F c_cJSON_NULL I eq_refl eq_refl) as (h' & Hrun & I' & NL' & Es & V).
  exists h'. split; [exact Hrun|]. split; [exact I'|]. split; [exact NL'|]. split; [exact Es|].
  intros vfrom. unfold MergeDefs.mp_GenerateMergePatch_gen. reflexivity.
Qed.

(** cJSONUtils_GenerateMergePatch(NULL, to): !cJSON_IsObject(NULL), so the patch is a duplicate of [to] *)
Theorem generate_null_from (flag : bool) h F t tt :
  MInv h F -> find_tree t F = Some tt -> (height tt <= LIMIT)%nat ->
  exists h' tc, generate_merge_patch nofail None (Some t) flag h = Ret (Some (tid tc), h') /\
    MInv h' (F ++ [tc]) /\ (NoLeak h F -> NoLeak h' (F ++ [tc])) /\ KeepO h h' F /\
    MergeDefs.mp_GenerateMergePatch_gen flag None (Some (reify (h_str h) tt)) =
      Ok (Some (reify (h_str h') tc), None, Some (reify (h_str h) tt)).
Proof.
  intros I Ht Hh. pose proof (mi_wf _ _ I) as W. unfold generate_merge_patch, heap_fuel. unfold bindM at 1.
  destruct (Pos.to_nat (h_next h)) as [|n] eqn:En; [pose proof (Pos2Nat.is_pos (h_next h)); lia|].
  rewrite generate_merge_patch_fuel_S. cbn [is_null].
  pose proof Ht as Ht0. apply find_tree_Some in Ht0 as [_ <-]. destruct tt as [t td tcs]. cbn [tid] in *.
  rewrite !bindM_assoc. rewrite (bindM_Ret _ _ _ _ _ (run_IsObject h _ t td tcs W Ht)).
  assert (Hd : exists h' tc, cJSON_Duplicate nofail (Some t) true h = Ret (Some (tid tc), h') /\
            MInv h' (F ++ [tc]) /\ (NoLeak h F -> NoLeak h' (F ++ [tc])) /\ KeepO h h' F /\
            MergeDefs.mp_GenerateMergePatch_gen flag None (Some (reify (h_str h) (T t td tcs))) =
              Ok (Some (reify (h_str h') tc), None, Some (reify (h_str h) (T t td tcs)))).
  { destruct (step_dup h F t (T t td tcs) I Ht Hh) as (tc & h1 & Hrun1 & I1 & NL1 & K1 & V1).
    exists h1, tc. split; [exact Hrun1|]. split; [exact I1|]. split; [exact NL1|]. split; [exact K1|].
    unfold MergeDefs.mp_GenerateMergePatch_gen. by rewrite V1. }
  destruct (Tree.is_object (reify (h_str h) (T t td tcs))); cbn [negb].
  - rewrite !bindM_assoc. cbn [cJSON_IsObject is_null]. rewrite !bindM_ret. cbn [negb]. exact Hd.
  - rewrite bindM_ret. exact Hd.
Qed.

(** the named entry points *)
Lemma generate_entry_points oracle from to :
  GenMergeHeapDefs.cJSONUtils_GenerateMergePatch oracle from to = generate_merge_patch oracle from to false /\
  GenMergeHeapDefs.cJSONUtils_GenerateMergePatchCaseSensitive oracle from to = generate_merge_patch oracle from to true.
Proof. split; reflexivity. Qed.

(** * the ledger, exactly: the blocks of the result are the only new ones *)
Theorem generate_ledger (flag : bool) h F f t tf tt :
  MInv h F -> NoLeak h F -> find_tree f F = Some tf -> find_tree t F = Some tt -> tdisj tf tt ->
  gdoc tf -> gdoc tt -> (height tt <= LIMIT)%nat ->
  exists h' F' (res : option tree),
    generate_merge_patch nofail (Some f) (Some t) flag h = Ret (tid <$> res, h') /\
    WF h' (F' ++ opt_list res) /\ NoLeak h' (F' ++ opt_list res) /\
    (forall b, b ∈ lib_live h <-> b ∈ owned F) /\
    (forall b, b ∈ lib_live h' <-> b ∈ owned F \/ b ∈ owned (opt_list res)) /\
    (forall b, b ∈ owned F -> b ∉ owned (opt_list res)) /\
    (forall b, b ∈ owned F -> h_str h' !! b = h_str h !! b).
Proof.
  intros I NL Hf Ht Hdis Gf Gt Hh.
  destruct (generate_refines flag h F f t tf tt I Hf Ht Hdis Gf Gt Hh)
    as (h' & F' & res & tf' & tt' & Hrun & I' & Fr & _ & _ & _ & _ & _ & NL' & K').
  exists h', F', res. split; [exact Hrun|]. split; [apply I'|]. split; [by apply NL'|].
  pose proof (Frame_owned _ _ _ Fr) as PO.
  split; [exact (ledger_eq h F (mi_wf _ _ I) NL)|]. split; [|split; [|exact K']].
  - intros b. rewrite (ledger_eq h' _ (mi_wf _ _ I') (NL' NL) b). by rewrite owned_app, elem_of_app, PO.
  - intros b Hb Hb'. pose proof (wf_owned_nodup _ _ (mi_wf _ _ I')) as ND. rewrite owned_app in ND.
    apply NoDup_app in ND as (_ & Hd & _). apply (Hd b); [by rewrite PO|done].
Qed.

(** * compare_json with the fuel of the heap (the function is static in cJSON_Utils.c; generate_merge_patch and
      the "test" operation of JSON Patch call it) *)
Theorem compare_json_refines (flag : bool) h F a b ta tb :
  MInv h F -> find_tree a F = Some ta -> find_tree b F = Some tb -> tdisj ta tb -> gdoc ta -> gdoc tb ->
  exists h' F' (r : bool) ta' tb',
    compare_json (Some a) (Some b) flag h = Ret (r, h') /\
    MInv h' F' /\ (NoLeak h F -> NoLeak h' F') /\ h_str h' = h_str h /\ h_next h' = h_next h /\
    Frame F F' (ids_t ta ++ ids_t tb) /\
    find_tree a F' = Some ta' /\ find_tree b F' = Some tb' /\ treord ta ta' /\ treord tb tb' /\
    MergeDefs.mp_compare_json_top flag (reify (h_str h) ta) (reify (h_str h) tb) =
      Ok (r, reify (h_str h) ta', reify (h_str h) tb').
Proof.
  intros I Ha Hb Hdis Ga Gb. pose proof (mi_wf _ _ I) as W.
  pose proof Ha as Ha0. apply find_tree_Some in Ha0 as [Han <-]. pose proof Hb as Hb0. apply find_tree_Some in Hb0 as [Hbn <-].
  pose proof (two_subtrees_fuel h F ta tb W Han Hbn Hdis) as Hfuel.
  unfold compare_json, heap_fuel. unfold bindM at 1.
  destruct (compare_rec (Pos.to_nat (h_next h)) (Pos.to_nat (h_next h)) flag ta tb h F [])
    as (h' & F' & r & ta' & tb' & Hrun & I' & NL' & Es & En & Fr & Ha' & Hb' & Ra & Rb & V).
  { pose proof (tsize_pos tb). lia. }
  { unfold cmp_pre. rewrite app_nil_r. split; [done|]. split; [done|]. split; [done|]. split; [done|]. split; [done|]. by split. }
  rewrite !app_nil_r in *.
  exists h', F', r, ta', tb'. split; [exact Hrun|]. split; [exact I'|]. split; [exact NL'|]. split; [exact Es|]. split; [exact En|].
  split; [exact Fr|]. split; [exact Ha'|]. split; [exact Hb'|]. split; [exact Ra|]. split; [exact Rb|].
  unfold MergeDefs.mp_compare_json_top. rewrite height_node_depth. apply V. lia.
Qed.
