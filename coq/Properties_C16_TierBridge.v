(** Properties_C16_TierBridge.v (companion of Properties_C16.v; also serves C17, C18, C19) — the Tier-A / Tier-B agreement (DESIGN 5.6) for the primitives.  Only statements
    closed by [exact].

    Tier B = the value-level models of the JSON Patch / Merge Patch utilities (PatchDefs.v, MergeDefs.v:
    [Tree.node] with ordered member lists), which PRESUPPOSE that the primitives they call behave like list
    functions.  Tier A = the heap-level theorems: C06 (Properties_C06.v: the core API refines the forest-level
    list model [CoreSpec.spec_*]), C19 (Properties_C19.v: sort_object yields [SortDefs.sort_spec]), C11
    (cJSON_Duplicate yields a [copy_of]).  Here: with [reify St] (forest tree + string heap |-> [Tree.node]) as
    the abstraction, every value-level primitive COMMUTES with the forest-level model,

        reify (container in the forest after spec_f F args) = value_f (reify (container before)) args'

    under the hypotheses of the corresponding C06 theorem ([NoDup (ids F)] is [wf_nodup] of [WF h F]).
    Reading guide: [F] forest, [St] string heap ([h_str h]), [p] container with data [d] and children [cs],
    [nb] the caller's block holding the name [s], [x] the detached root that is the item, [nk] the block of
    the owned fresh copy of the name; result pointers of the forest level are dereferenced by [find_tree] /
    [find_root] in the forest after the call.  [found_member St flag name cs] is the (position, subtree) of
    the first member whose key matches ([flag = true]: exactly; [false]: after ASCII case folding; the
    case-sensitive search stops at a member without key, the other skips it — both tiers alike).  The [v_*]
    functions (TierBridgeDefs.v) are the inline primitive expressions of PatchDefs.v ([TB_patch_calls_*]).

    Deviations of the value-level models from the core primitives (documented in TierBridgeLemmas.v):
    (D1) JSON Patch detaches / inserts array elements with Utils' OWN detach_item_from_array /
    insert_item_in_array, which C06 does not cover.  TierBridgeUtilsDefs.v transliterates them on the heap;
    [TB_utils_*] prove that on a well-formed heap they compute what cJSON_DetachItemFromArray /
    cJSON_InsertItemInArray compute — the latter within 0..length; past the end the Utils function refuses
    and touches nothing while the core function appends ([TB_insert_past_end_differs], [TB_utils_insert_refused]).
    (D2) overwrite_item (replacement of the document root in place) has no core counterpart and no forest-level
    model: that call remains presupposed.  (D3) allocation failure is not modelled at Tier B: add / replace are
    stated for a successful copy of the key.
    [Second round, sections 9-10 at the end of this file: D2 is now transliterated and proved (overwrite_item:
    TB_patch_root_overwrite — for the code after the repair f953f57 —, TB_patch_root_remove, with counterexamples outside the hypotheses), and
    replace-in-object and duplicate are composed end to end (TB_e2e_replace_in_object, TB_e2e_duplicate).]

    Sections 7-8 compose the two halves END TO END (heap-level code on [WF h F] |-> value-level primitive on
    the reified container, no [spec_*] in the statement).  For the primitives that release or allocate strings
    this needs a NO-ALIASING hypothesis (no remaining node borrows a released block) that a value-level tree
    cannot express; it holds for trees that own all their strings ([TB_no_aliasing_*]). *)
From CJ Require Import Base Dbl Heap Forest ForestLemmas CoreSpec CoreRefineDupBase CoreRefineDupTree CoreRefineDupValue.
From CJ Require Import CoreDefs CoreRefineBase CoreRefineFrame CoreRefineAddObject CoreRefineObject.
From CJ Require Import TierBridgeDefs TierBridgeSort TierBridgeForest TierBridgeLemmas TierBridgeSortHeap
  TierBridgeUtilsDefs TierBridgeUtils TierBridgeEndToEnd TierBridgeEndToEndStr TierBridge.
From CJ Require Tree CompareDefs PointerDefs PatchDefs MergeDefs SortDefs SortSpec SortChain SortProofs CoreRefineDupForest.
From CJ.gen Require Import Constants.
From stdpp Require Import gmap.
Local Open Scope Z_scope.

(** ------------------------------------------------------------------ 1. the presupposition, in one piece *)

(** Every primitive call made by the value-level [apply_patch] / [merge_patch] / [create_patches] /
    [generate_merge_patch] models on a reified forest equals the reification of what the forest-level model —
    hence, by C06 / C19 / C11, the heap-level code on a well-formed heap — does.  So the Tier-B theorems
    (C16-C18) speak about the heap-level code on well-formed documents, modulo the control flow of the
    utilities themselves, which stays tied to the C code by the differential run (and modulo D1/D2). *)
Theorem TB_presupposition :
  (* 1. get_object_item, both case modes (first exact / first folded match) *)
  (forall St F p d cs nb (s : bytes) (flag : bool),
     NoDup (ids F) -> find_tree p F = Some (T p d cs) -> St !! nb = Some s ->
     snd <$> CompareDefs.get_object_item (reify St (T p d cs)) (Some (cstr s)) flag =
     reify St <$> (spec_get_key St F (Some p) (Some nb) flag ≫= fun x => find_tree x F)) /\
  (* 2. get_array_item / cJSON_GetArrayItem *)
  (forall St F p d cs idx,
     NoDup (ids F) -> find_tree p F = Some (T p d cs) ->
     PointerDefs.nth_z (Tree.n_children (reify St (T p d cs))) idx =
     reify St <$> (spec_get_array_item F (Some p) idx ≫= fun x => find_tree x F)) /\
  (* 3. cJSON_GetArraySize *)
  (forall St F p d cs,
     find_tree p F = Some (T p d cs) -> spec_get_size F (Some p) = v_array_size (reify St (T p d cs))) /\
  (* 4. cJSON_DetachItemFromObject[CaseSensitive]: as MergeDefs.v and as PatchDefs.detach_path call it *)
  (forall St F p d cs nb (s : bytes) (flag : bool),
     NoDup (ids F) -> find_tree p F = Some (T p d cs) -> St !! nb = Some s ->
     let '(F', r) := spec_detach_key St F (Some p) (Some nb) flag in
     let '(item, obj') := MergeDefs.mp_DetachItemFromObject (reify St (T p d cs)) (Some (cstr s)) flag in
     reify St <$> find_tree p F' = Some obj' /\
     reify St <$> (r ≫= fun x => find_root x F') = item /\
     (r = None -> F' = F)) /\
  (forall St F p d cs nb (s : bytes) (flag : bool),
     NoDup (ids F) -> find_tree p F = Some (T p d cs) -> St !! nb = Some s ->
     let '(F', r) := spec_detach_key St F (Some p) (Some nb) flag in
     match v_detach_from_object (reify St (T p d cs)) (cstr s) flag with
     | Some (item, obj') =>
         reify St <$> find_tree p F' = Some obj' /\ reify St <$> (r ≫= fun x => find_root x F') = Some item
     | None => F' = F /\ r = None
     end) /\
  (* 5. cJSON_DeleteItemFromObject[CaseSensitive]: MergeDefs.v; PatchDefs.finish_add *)
  (forall St F p d cs nb (s : bytes) (flag : bool),
     NoDup (ids F) -> find_tree p F = Some (T p d cs) -> St !! nb = Some s ->
     reify St <$> find_tree p (spec_delete_key St F (Some p) (Some nb) flag) =
       Some (MergeDefs.mp_DeleteItemFromObject (reify St (T p d cs)) (Some (cstr s)) flag) /\
     MergeDefs.mp_DeleteItemFromObject (reify St (T p d cs)) (Some (cstr s)) flag =
       v_delete_from_object (reify St (T p d cs)) (cstr s) flag) /\
  (* 6. cJSON_AddItemToObject: owned fresh copy [nk] of the name, appended at the END, StringIsConst cleared *)
  (forall St F p x d dx cs csx sb nk (s' : bytes),
     NoDup (ids F) -> p <> x -> find_root x F = Some (T x dx csx) ->
     find_tree p (remove_root x F) = Some (T p d cs) -> St !! nk = Some s' ->
     spec_add_to_object F (Some p) (Some sb) (Some x) false (Some nk) =
       (set_children p (cs ++ [T x (rd_owned_key dx nk) csx]) (remove_root x F), true) /\
     reify St <$> find_tree p (spec_add_to_object F (Some p) (Some sb) (Some x) false (Some nk)).1 =
       Some (v_add_to_object (reify St (T p d cs)) (cstr s') (reify St (T x dx csx))) /\
     v_add_to_object (reify St (T p d cs)) (cstr s') (reify St (T x dx csx)) =
       MergeDefs.mp_AddItemToObject (reify St (T p d cs)) (Some (cstr s')) (Some (reify St (T x dx csx)))) /\
  (* 7. cJSON_AddItemToArray *)
  (forall St F p x d dx cs csx,
     p <> x -> find_root x F = Some (T x dx csx) -> find_tree p (remove_root x F) = Some (T p d cs) ->
     spec_add_to_array F (Some p) (Some x) = (set_children p (cs ++ [T x dx csx]) (remove_root x F), true) /\
     reify St <$> find_tree p (spec_add_to_array F (Some p) (Some x)).1 =
       Some (v_add_to_array (reify St (T p d cs)) (reify St (T x dx csx)))) /\
  (* 8. detach array element by index: core cJSON_DetachItemFromArray on the forest, Utils' own
        detach_item_from_array at value level (D1: the same list function) *)
  (forall St F p d cs idx,
     NoDup (ids F) -> find_tree p F = Some (T p d cs) ->
     let '(F', r) := spec_detach_index F (Some p) idx in
     match v_detach_from_array (reify St (T p d cs)) idx with
     | Some (item, obj') =>
         reify St <$> find_tree p F' = Some obj' /\ reify St <$> (r ≫= fun x => find_root x F') = Some item
     | None => F' = F /\ r = None
     end) /\
  (* 9. insert into array: core cJSON_InsertItemInArray (appends past the end) vs Utils' own
        insert_item_in_array (refuses past the end); equal for 0 <= which <= length (D1) *)
  (forall St F p x d dx cs csx which,
     NoDup (ids F) -> p <> x -> find_root x F = Some (T x dx csx) ->
     find_tree p (remove_root x F) = Some (T p d cs) ->
     (0 <= which ->
        reify St <$> find_tree p (spec_insert F (Some p) which (Some x)).1 =
          Some (v_core_insert_in_array (reify St (T p d cs)) which (reify St (T x dx csx)))) /\
     (0 <= which <= Z.of_nat (length cs) ->
        reify St <$> find_tree p (spec_insert F (Some p) which (Some x)).1 =
          v_insert_in_array (reify St (T p d cs)) which (reify St (T x dx csx))) /\
     (Z.of_nat (length cs) < which ->
        v_insert_in_array (reify St (T p d cs)) which (reify St (T x dx csx)) = None /\
        reify St <$> find_tree p (spec_insert F (Some p) which (Some x)).1 =
          Some (v_add_to_array (reify St (T p d cs)) (reify St (T x dx csx))))) /\
  (* 10. cJSON_ReplaceItemInObject[CaseSensitive] (no Tier-B model calls it) *)
  (forall St F p x d dx cs csx sb nk (s' : bytes) (flag : bool),
     NoDup (ids F) -> p <> x -> find_root x F = Some (T x dx csx) ->
     find_tree p (remove_root x F) = Some (T p d cs) -> St !! nk = Some s' ->
     match v_replace_in_object (reify St (T p d cs)) (cstr s') (reify St (T x dx csx)) flag with
     | Some obj' =>
         reify St <$> find_tree p (spec_replace_key St F (Some p) (Some sb) (Some x) flag (Some nk)).1 = Some obj'
     | None => (spec_replace_key St F (Some p) (Some sb) (Some x) flag (Some nk)).2 = false
     end) /\
  (* 11. cJSON_Duplicate(item, 1): [copy_of h t tc] is what C11 proves about the heap-level copy *)
  (forall h t tc,
     copy_of h t tc ->
     (forall v, PatchDefs.cJSON_Duplicate (reify (h_str h) t) = Some v -> v = reify (h_str h) tc) /\
     (forall v, MergeDefs.mp_Duplicate (Some (reify (h_str h) t)) = Some v -> v = reify (h_str h) tc) /\
     ((CoreRefineDupForest.height t <= Z.to_nat c_CJSON_CIRCULAR_LIMIT)%nat ->
        PatchDefs.cJSON_Duplicate (reify (h_str h) t) = Some (reify (h_str h) tc) /\
        MergeDefs.mp_Duplicate (Some (reify (h_str h) t)) = Some (reify (h_str h) tc))) /\
  (* 12. sort_object: C19 gives the children identities [map fst (sort_spec …)] after the heap-level
         call; the same member subtrees in that order reify to what BOTH value-level sorts return *)
  (forall St F p d cs (flag : bool) cs',
     NoDup (ids F) -> find_tree p F = Some (T p d cs) -> Forall (has_key St) cs ->
     cs' ≡ₚ cs -> tid <$> cs' = map fst (SortDefs.sort_spec flag (member_pairs St cs)) ->
     cs' = sort_children St flag cs /\
     PatchDefs.sort_object (reify St (T p d cs)) flag = Ok (reify St (T p d cs')) /\
     MergeDefs.mp_sort_object (reify St (T p d cs)) flag = Ok (reify St (T p d cs')) /\
     MergeDefs.mp_sort_members flag (Tree.n_children (reify St (T p d cs))) = Ok (map (reify St) cs') /\
     PatchDefs.sort_list (S (length (Tree.n_children (reify St (T p d cs))))) (Tree.n_children (reify St (T p d cs))) flag =
       Ok (map (reify St) cs') /\
     reify St <$> find_tree p (set_children p cs' F) = Some (reify St (T p d cs'))) /\
  (* 13. … and the heap-level call itself, from the C06 invariant: runs, re-establishes [WF] for the
         forest with the sorted members, whose reification is the value-level result *)
  (forall h F o d cs (flag : bool) (fuel : nat),
     WF h F -> KeysReadable h F -> find_tree o F = Some (T o d cs) -> is_ref d = false ->
     Forall (has_key (h_str h)) cs -> (SortDefs.sort_fuel (length cs) <= fuel)%nat ->
     let cs' := sort_children (h_str h) flag cs in
     exists h',
       SortDefs.sort_object fuel (Some o) flag h = Ret (tt, h') /\
       WF h' (set_children o cs' F) /\
       h_str h' = h_str h /\ h_live h' = h_live h /\ h_own h' = h_own h /\ h_next h' = h_next h /\
       h_trace h' = h_trace h /\
       PatchDefs.sort_object (reify (h_str h) (T o d cs)) flag = Ok (reify (h_str h') (T o d cs')) /\
       MergeDefs.mp_sort_object (reify (h_str h) (T o d cs)) flag = Ok (reify (h_str h') (T o d cs')) /\
       reify (h_str h') <$> find_tree o (set_children o cs' F) = Some (reify (h_str h') (T o d cs'))) /\
  (* 14. constructors *)
  (forall St id ty, reify St (T id (mkRD ty None 0 dzero None None) []) = MergeDefs.mp_new_item ty) /\
  (forall St id b (s : bytes), St !! b = Some (s ++ [0]) -> SortSpec.zfree s ->
     reify St (T id (mkRD c_cJSON_String (Some b) 0 dzero None None) []) = PatchDefs.create_string s) /\
  (* 15. Utils' own detach_item_from_array on the heap: refines the forest model of the core function
         (clause 8 then gives the value-level reading) *)
  (forall h F p d cs which,
     WF h F -> find_tree p F = Some (T p d cs) -> is_ref d = false -> 0 <= which ->
     detach_item_from_array (Some p) which h = cJSON_DetachItemFromArray (Some p) which h /\
     match cs !! Z.to_nat which with
     | Some tx =>
         let F' := set_children p (delete (Z.to_nat which) cs) F ++ [tx] in
         spec_detach_index F (Some p) which = (F', Some (tid tx)) /\
         detach_item_from_array (Some p) which h = Ret (Some (tid tx), upd_maps h (heap_lnk_of F') (heap_dat_of F')) /\
         WF (upd_maps h (heap_lnk_of F') (heap_dat_of F')) F'
     | None =>
         spec_detach_index F (Some p) which = (F, None) /\ detach_item_from_array (Some p) which h = Ret (None, h)
     end) /\
  (* 16. Utils' own insert_item_in_array on the heap, index within 0..length: as the core function *)
  (forall h F p x tx d cs which,
     WF h F -> p <> x -> find_root x F = Some tx -> find_tree p (remove_root x F) = Some (T p d cs) ->
     is_ref d = false -> 0 <= which <= Z.of_nat (length cs) ->
     let F' := set_children p (if (Z.to_nat which <? length cs)%nat then insert_at (Z.to_nat which) tx cs else cs ++ [tx])
                 (remove_root x F) in
     insert_item_in_array (Some p) which (Some x) h = cJSON_InsertItemInArray (Some p) which (Some x) h /\
     spec_insert F (Some p) which (Some x) = (F', true) /\
     insert_item_in_array (Some p) which (Some x) h = Ret (true, upd_maps h (heap_lnk_of F') (heap_dat_of F')) /\
     WF (upd_maps h (heap_lnk_of F') (heap_dat_of F')) F') /\
  (* 17. … and past the end it refuses and touches nothing (the core function appends) *)
  (forall h F p x tx d cs which,
     WF h F -> p <> x -> find_root x F = Some tx -> find_tree p (remove_root x F) = Some (T p d cs) ->
     is_ref d = false -> Z.of_nat (length cs) < which ->
     insert_item_in_array (Some p) which (Some x) h = Ret (false, h) /\
     (spec_insert F (Some p) which (Some x)).2 = true).
Proof. exact tier_b_presupposition. Qed.
Print Assumptions TB_presupposition.

(** ------------------------------------------------------------------ 2. by-key lookup: one position, two readings *)

(** Tier B returns (index, value) of the member found, Tier A its identity: both are readings of
    [found_member], for both case modes *)
Theorem TB_lookup_by_key : forall St F p d cs, find_tree p F = Some (T p d cs) ->
  forall nb (s : bytes) (flag : bool), St !! nb = Some s ->
  CompareDefs.get_object_item (reify St (T p d cs)) (Some (cstr s)) flag =
    (fun kc => (kc.1, reify St kc.2)) <$> found_member St flag (cstr s) cs /\
  spec_get_key St F (Some p) (Some nb) flag = (fun kc => tid kc.2) <$> found_member St flag (cstr s) cs.
Proof. exact bridge_get_key. Qed.
Print Assumptions TB_lookup_by_key.

Theorem TB_found_member_is_a_child : forall St flag name cs k c,
  found_member St flag name cs = Some (k, c) -> cs !! k = Some c.
Proof. exact found_member_lookup. Qed.

(** the forest after detach / delete by key, explicitly *)
Theorem TB_detach_by_key_explicit : forall St F p d cs, NoDup (ids F) -> find_tree p F = Some (T p d cs) ->
  forall nb (s : bytes) (flag : bool), St !! nb = Some s ->
  spec_detach_key St F (Some p) (Some nb) flag =
  match found_member St flag (cstr s) cs with
  | Some (k, tx) => (set_children p (delete k cs) F ++ [tx], Some (tid tx))
  | None => (F, None)
  end.
Proof. exact bridge_detach_key_explicit. Qed.
Theorem TB_delete_by_key_explicit : forall St F p d cs, NoDup (ids F) -> find_tree p F = Some (T p d cs) ->
  forall nb (s : bytes) (flag : bool), St !! nb = Some s ->
  spec_delete_key St F (Some p) (Some nb) flag =
  match found_member St flag (cstr s) cs with
  | Some (k, _) => set_children p (delete k cs) F
  | None => F
  end.
Proof. exact bridge_delete_key_explicit. Qed.

(** ------------------------------------------------------------------ 3. insertion: core vs Utils *)

Theorem TB_insert_in_range : forall St F p x d dx cs csx, NoDup (ids F) -> p <> x ->
  find_root x F = Some (T x dx csx) -> find_tree p (remove_root x F) = Some (T p d cs) ->
  forall which, 0 <= which <= Z.of_nat (length cs) ->
  v_insert_in_array (reify St (T p d cs)) which (reify St (T x dx csx)) =
    Some (v_core_insert_in_array (reify St (T p d cs)) which (reify St (T x dx csx))) /\
  reify St <$> find_tree p (spec_insert F (Some p) which (Some x)).1 =
    v_insert_in_array (reify St (T p d cs)) which (reify St (T x dx csx)).
Proof. exact bridge_insert_in_range. Qed.
Print Assumptions TB_insert_in_range.

(** past the end cJSON_InsertItemInArray APPENDS, Utils' insert_item_in_array REFUSES (apply_patch status 10) *)
Theorem TB_insert_past_end_differs : forall St F p x d dx cs csx, NoDup (ids F) -> p <> x ->
  find_root x F = Some (T x dx csx) -> find_tree p (remove_root x F) = Some (T p d cs) ->
  forall which, Z.of_nat (length cs) < which ->
  v_insert_in_array (reify St (T p d cs)) which (reify St (T x dx csx)) = None /\
  spec_insert F (Some p) which (Some x) = (set_children p (cs ++ [T x dx csx]) (remove_root x F), true) /\
  reify St <$> find_tree p (spec_insert F (Some p) which (Some x)).1 =
    Some (v_add_to_array (reify St (T p d cs)) (reify St (T x dx csx))).
Proof. exact insert_past_end_differs. Qed.
Print Assumptions TB_insert_past_end_differs.

(** replace by key, explicitly: re-key the replacement, look the member up by the copy, replace it; when no
    member matches the call is refused but the replacement keeps its new key ([set_data]) *)
Theorem TB_replace_by_key_explicit : forall St F p x d dx cs csx, NoDup (ids F) -> p <> x ->
  find_root x F = Some (T x dx csx) -> find_tree p (remove_root x F) = Some (T p d cs) ->
  forall sb nk (s' : bytes) (flag : bool), St !! nk = Some s' ->
  spec_replace_key St F (Some p) (Some sb) (Some x) flag (Some nk) =
  match found_member St flag (cstr s') cs with
  | Some (k, _) => (set_children p (<[k := T x (rd_owned_key dx nk) csx]> cs) (remove_root x F), true)
  | None => (set_data x (rd_owned_key dx nk) F, false)
  end.
Proof. exact bridge_replace_key_explicit. Qed.

(** ------------------------------------------------------------------ 4. the three sorts are one list function *)

(** members with keys that are C strings ([keyed]); [vle flag] is [SortDefs.key_le flag] — the order of
    [SortDefs.sort_spec] — read on the key of the value-level member *)
Theorem TB_patch_sort_is_isort : forall (flag : bool) (fuel : nat) l, (length l < fuel)%nat -> Forall keyed l ->
  PatchDefs.sort_list fuel l flag = Ok (SortDefs.isort (vle flag) l).
Proof. exact patch_sort_list_isort. Qed.
Print Assumptions TB_patch_sort_is_isort.
Theorem TB_merge_sort_is_isort : forall (flag : bool) (fuel : nat) l, (length l < fuel)%nat -> Forall keyed l ->
  MergeDefs.mp_sort_list fuel flag l = Ok (SortDefs.isort (vle flag) l).
Proof. exact mp_sort_list_isort. Qed.
Print Assumptions TB_merge_sort_is_isort.
Theorem TB_value_sorts_agree : forall flag l, Forall keyed l ->
  PatchDefs.sort_list (S (length l)) l flag = MergeDefs.mp_sort_members flag l.
Proof. exact value_sorts_agree. Qed.
(** [sort_spec] on the (identity, key) pairs of the members is [sort_children] on the member subtrees, and
    reifying commutes with it *)
Theorem TB_sort_spec_on_trees : forall St flag cs,
  map fst (SortDefs.sort_spec flag (member_pairs St cs)) = tid <$> sort_children St flag cs.
Proof. exact sort_spec_children. Qed.
Theorem TB_reify_sorted : forall St flag cs,
  map (reify St) (sort_children St flag cs) = SortDefs.isort (vle flag) (map (reify St) cs).
Proof. exact reify_sort_children. Qed.
(** the key the heap-level comparison reads is the key of the member subtree *)
Theorem TB_heap_key_is_tree_key : forall h F o d cs, WF h F -> find_tree o F = Some (T o d cs) ->
  forall c, c ∈ cs -> SortChain.keyof h (tid c) = fkey (h_str h) c.
Proof. exact keyof_fkey. Qed.
(** the hypothesis of C19_sorted_perm from the C06 invariant *)
Theorem TB_C19_hypothesis_from_WF : forall h F o d cs, WF h F -> KeysReadable h F ->
  find_tree o F = Some (T o d cs) -> is_ref d = false -> Forall (has_key (h_str h)) cs ->
  SortProofs.children_of h o (tid <$> cs).
Proof. exact children_of_heap. Qed.
Print Assumptions TB_C19_hypothesis_from_WF.

(** ------------------------------------------------------------------ 5. which primitives the Patch model calls *)

(** [detach_path] = pointer resolution + Utils' detach_item_from_array / cJSON_DetachItemFromObject *)
Theorem TB_patch_calls_detach : forall object path cs,
  PatchDefs.detach_path object path cs =
  match PatchDefs.last_slash path 0 None with
  | None => Ok None
  | Some i =>
      let child_raw := skipn (S i) path in
      match PointerDefs.get_item_from_pointer object (firstn i path) cs with
      | None => Ok None
      | Some pp =>
          match Tree.subtree object pp with
          | None => Ok None
          | Some par =>
              if Tree.is_array par then
                match PointerDefs.decode_array_index_from_pointer child_raw with
                | None => Ok None
                | Some idx =>
                    Ok (match v_detach_from_array par idx with
                        | None => None
                        | Some (it, par') => Some (it, PatchDefs.put_subtree object pp par')
                        end)
                end
              else if Tree.is_object par then
                buf <- PatchDefs.decode_pointer_inplace (child_raw ++ [0]) ;;
                Ok (match v_detach_from_object par (cstr buf) cs with
                    | None => None
                    | Some (it, par') => Some (it, PatchDefs.put_subtree object pp par')
                    end)
              else Ok None
          end
      end
  end.
Proof. exact detach_path_uses. Qed.

(** [finish_add] = cJSON_AddItemToArray / Utils' insert_item_in_array / delete-then-add member *)
Theorem TB_patch_calls_add : forall object value pstr cs,
  PatchDefs.finish_add object value pstr cs =
  match pstr with
  | [] => Ok (0, PatchDefs.unnamed value)
  | _ =>
      match PatchDefs.last_slash pstr 0 None with
      | None => Ok (9, object)
      | Some i =>
          let child_raw := skipn (S i) pstr in
          match PointerDefs.get_item_from_pointer object (firstn i pstr) cs with
          | None => Ok (9, object)
          | Some pp =>
              match Tree.subtree object pp with
              | None => Ok (9, object)
              | Some par =>
                  if Tree.is_array par then
                    if strcmp child_raw PatchDefs.s_dash =? 0 then
                      Ok (0, PatchDefs.put_subtree object pp (v_add_to_array par value))
                    else
                      match PointerDefs.decode_array_index_from_pointer child_raw with
                      | None => Ok (11, object)
                      | Some idx =>
                          match v_insert_in_array par idx value with
                          | None => Ok (10, object)
                          | Some par' => Ok (0, PatchDefs.put_subtree object pp par')
                          end
                      end
                  else if Tree.is_object par then
                    buf <- PatchDefs.decode_pointer_inplace (child_raw ++ [0]) ;;
                    Ok (0, PatchDefs.put_subtree object pp
                             (v_add_to_object (v_delete_from_object par (cstr buf) cs) (cstr buf) value))
                  else Ok (9, object)
              end
          end
      end
  end.
Proof. exact finish_add_uses. Qed.

(** [compose_patch] = cJSON_CreateObject, cJSON_AddItemToObject x3 (the last with a duplicate), cJSON_AddItemToArray *)
Theorem TB_patch_calls_compose : forall patches operation path suffix value,
  PatchDefs.compose_patch patches operation path suffix value =
  let full_path := match suffix with
                   | None => path
                   | Some sfx => path ++ [47] ++ PointerDefs.encode_string_as_pointer sfx
                   end in
  let o1 := v_add_to_object PatchDefs.create_object PatchDefs.s_op (PatchDefs.create_string operation) in
  let o2 := v_add_to_object o1 PatchDefs.s_path (PatchDefs.create_string full_path) in
  let o3 := match value with
            | None => o2
            | Some v => match PatchDefs.cJSON_Duplicate v with
                        | Some dv => v_add_to_object o2 PatchDefs.s_value dv
                        | None => o2
                        end
            end in
  patches ++ [o3].
Proof. exact compose_patch_uses. Qed.

(** the two transliterations of compare_strings / cJSON_Duplicate are the same functions *)
Theorem TB_same_compare_strings : MergeDefs.mp_compare_strings = PatchDefs.compare_strings.
Proof. exact mp_compare_strings_eq. Qed.
Theorem TB_same_duplicate : forall item depth, MergeDefs.mp_dup_rec depth item = PatchDefs.dup_rec item depth.
Proof. exact mp_dup_rec_eq. Qed.

(** the string heap may grow by blocks a tree does not refer to (allocation of the key copy) *)
Theorem TB_reify_frame : forall St nk v t, nk ∉ str_blocks t -> reify (<[nk := v]> St) t = reify St t.
Proof. exact reify_insert_fresh. Qed.

(** ------------------------------------------------------------------ 6. non-vacuity *)

(** the forest  root 1 = {"a":1, "A":2, "b":[10,20]} (members 2 3 4; array elements 5 6), root 7 = detached
    number 3, with key blocks 101 102 103, name blocks 110 "a" 111 "A" 112 "zz", copy block 120 "A",
    satisfies every hypothesis used above *)
Theorem TB_nonvacuous_hypotheses :
  NoDup (ids ex_F) /\ find_tree 1%positive ex_F = Some ex_obj /\ find_root 7%positive ex_F = Some ex_item /\
  find_tree 1%positive (remove_root 7%positive ex_F) = Some ex_obj /\
  find_tree 4%positive (remove_root 7%positive ex_F) = Some ex_arr /\ find_tree 4%positive ex_F = Some ex_arr /\
  Forall (has_key ex_St) ex_members /\
  ex_St !! 110%positive = Some [97; 0] /\ ex_St !! 111%positive = Some [65; 0] /\ ex_St !! 112%positive = Some [122; 122; 0] /\
  ex_St !! 120%positive = Some [65; 0].
Proof. exact ex_hypotheses. Qed.
Print Assumptions TB_nonvacuous_hypotheses.

(** "A" case-sensitively is member 3 (index 1); case-insensitively it is member 2 ("a": FIRST folded match,
    index 0); "zz" is not found; index and size *)
Theorem TB_nonvacuous_lookup :
  spec_get_key ex_St ex_F (Some 1%positive) (Some 111%positive) true = Some 3%positive /\
  CompareDefs.get_object_item ex_o (Some [65]) true = Some (1%nat, reify ex_St m3) /\
  spec_get_key ex_St ex_F (Some 1%positive) (Some 111%positive) false = Some 2%positive /\
  CompareDefs.get_object_item ex_o (Some [65]) false = Some (0%nat, reify ex_St m2) /\
  spec_get_key ex_St ex_F (Some 1%positive) (Some 112%positive) false = None /\
  CompareDefs.get_object_item ex_o (Some [122; 122]) false = None /\
  spec_get_array_item ex_F (Some 1%positive) 2 = Some 4%positive /\
  PointerDefs.nth_z (Tree.n_children ex_o) 2 = Some ex_a /\
  spec_get_array_item ex_F (Some 1%positive) 3 = None /\ PointerDefs.nth_z (Tree.n_children ex_o) 3 = None /\
  spec_get_size ex_F (Some 1%positive) = 3 /\ v_array_size ex_o = 3.
Proof. exact ex_lookup. Qed.
Print Assumptions TB_nonvacuous_lookup.

(** detach "A" case-insensitively takes "a" out; delete "A" case-sensitively removes member 3; array detach *)
Theorem TB_nonvacuous_detach_delete :
  spec_detach_key ex_St ex_F (Some 1%positive) (Some 111%positive) false =
    ([T 1 ex_objd [m3; ex_arr]; ex_item; m2], Some 2%positive) /\
  MergeDefs.mp_DetachItemFromObject ex_o (Some [65]) false =
    (Some (reify ex_St m2), reify ex_St (T 1 ex_objd [m3; ex_arr])) /\
  v_detach_from_object ex_o [65] false = Some (reify ex_St m2, reify ex_St (T 1 ex_objd [m3; ex_arr])) /\
  spec_delete_key ex_St ex_F (Some 1%positive) (Some 111%positive) true = [T 1 ex_objd [m2; ex_arr]; ex_item] /\
  MergeDefs.mp_DeleteItemFromObject ex_o (Some [65]) true = reify ex_St (T 1 ex_objd [m2; ex_arr]) /\
  v_delete_from_object ex_o [65] true = reify ex_St (T 1 ex_objd [m2; ex_arr]) /\
  spec_detach_index ex_F (Some 4%positive) 0 =
    ([T 1 ex_objd [m2; m3; T 4 (tdata ex_arr) [ex_num 6 20 None]]; ex_item; ex_num 5 10 None], Some 5%positive) /\
  v_detach_from_array ex_a 0 =
    Some (reify ex_St (ex_num 5 10 None), reify ex_St (T 4 (tdata ex_arr) [ex_num 6 20 None])).
Proof. exact ex_detach_delete. Qed.
Print Assumptions TB_nonvacuous_detach_delete.

(** add under an owned copy of "A" (appended at the end, duplicate key allowed); add / insert into the array;
    past the end the core function appends and the Utils function refuses *)
Theorem TB_nonvacuous_add_insert :
  spec_add_to_object ex_F (Some 1%positive) (Some 111%positive) (Some 7%positive) false (Some 120%positive) =
    ([T 1 ex_objd [m2; m3; ex_arr; ex_item_keyed]], true) /\
  v_add_to_object ex_o [65] ex_i = reify ex_St (T 1 ex_objd [m2; m3; ex_arr; ex_item_keyed]) /\
  MergeDefs.mp_AddItemToObject ex_o (Some [65]) (Some ex_i) = reify ex_St (T 1 ex_objd [m2; m3; ex_arr; ex_item_keyed]) /\
  spec_add_to_array ex_F (Some 4%positive) (Some 7%positive) =
    ([T 1 ex_objd [m2; m3; T 4 (tdata ex_arr) [ex_num 5 10 None; ex_num 6 20 None; ex_item]]], true) /\
  v_add_to_array ex_a ex_i = reify ex_St (T 4 (tdata ex_arr) [ex_num 5 10 None; ex_num 6 20 None; ex_item]) /\
  spec_insert ex_F (Some 4%positive) 1 (Some 7%positive) =
    ([T 1 ex_objd [m2; m3; T 4 (tdata ex_arr) [ex_num 5 10 None; ex_item; ex_num 6 20 None]]], true) /\
  v_insert_in_array ex_a 1 ex_i = Some (reify ex_St (T 4 (tdata ex_arr) [ex_num 5 10 None; ex_item; ex_num 6 20 None])) /\
  spec_insert ex_F (Some 4%positive) 5 (Some 7%positive) =
    ([T 1 ex_objd [m2; m3; T 4 (tdata ex_arr) [ex_num 5 10 None; ex_num 6 20 None; ex_item]]], true) /\
  v_insert_in_array ex_a 5 ex_i = None.
Proof. exact ex_add_insert. Qed.
Print Assumptions TB_nonvacuous_add_insert.

(** replace "A" case-insensitively replaces member "a" *)
Theorem TB_nonvacuous_replace :
  spec_replace_key ex_St ex_F (Some 1%positive) (Some 111%positive) (Some 7%positive) false (Some 120%positive) =
    ([T 1 ex_objd [ex_item_keyed; m3; ex_arr]], true) /\
  v_replace_in_object ex_o [65] ex_i false = Some (reify ex_St (T 1 ex_objd [ex_item_keyed; m3; ex_arr])).
Proof. exact ex_replace. Qed.
Print Assumptions TB_nonvacuous_replace.

(** case-sensitive: A a b (3 2 4); case-insensitive: a and A tie, order kept (2 3 4); all sorts agree *)
Theorem TB_nonvacuous_sort :
  map fst (SortDefs.sort_spec true (member_pairs ex_St ex_members)) = [3; 2; 4]%positive /\
  tid <$> sort_children ex_St true ex_members = [3; 2; 4]%positive /\
  PatchDefs.sort_object ex_o true = Ok (reify ex_St (T 1 ex_objd [m3; m2; ex_arr])) /\
  MergeDefs.mp_sort_object ex_o true = Ok (reify ex_St (T 1 ex_objd [m3; m2; ex_arr])) /\
  map fst (SortDefs.sort_spec false (member_pairs ex_St ex_members)) = [2; 3; 4]%positive /\
  PatchDefs.sort_object ex_o false = Ok ex_o /\ MergeDefs.mp_sort_object ex_o false = Ok ex_o.
Proof. exact ex_sort. Qed.
Print Assumptions TB_nonvacuous_sort.

(** a heap in which member 2 has the copy 200 with the fresh key block 201 *)
Theorem TB_nonvacuous_duplicate :
  copy_of ex_h m2 ex_copy /\
  PatchDefs.cJSON_Duplicate (reify (h_str ex_h) m2) = Some (reify (h_str ex_h) ex_copy) /\
  MergeDefs.mp_Duplicate (Some (reify (h_str ex_h) m2)) = Some (reify (h_str ex_h) ex_copy).
Proof. exact ex_duplicate. Qed.
Print Assumptions TB_nonvacuous_duplicate.

(** ------------------------------------------------------------------ 7. Utils' own pointer surgery (D1), heap level *)

(** on a well-formed heap Utils' detach_item_from_array IS cJSON_DetachItemFromArray *)
Theorem TB_utils_detach_is_core : forall h F p d cs which,
  WF h F -> find_tree p F = Some (T p d cs) -> is_ref d = false -> 0 <= which ->
  detach_item_from_array (Some p) which h = cJSON_DetachItemFromArray (Some p) which h.
Proof. exact u_detach_eq_core. Qed.
Print Assumptions TB_utils_detach_is_core.

Theorem TB_utils_detach : forall h F p d cs which tx,
  WF h F -> find_tree p F = Some (T p d cs) -> is_ref d = false -> 0 <= which ->
  cs !! Z.to_nat which = Some tx ->
  let F' := set_children p (delete (Z.to_nat which) cs) F ++ [tx] in
  spec_detach_index F (Some p) which = (F', Some (tid tx)) /\
  detach_item_from_array (Some p) which h = Ret (Some (tid tx), upd_maps h (heap_lnk_of F') (heap_dat_of F')) /\
  WF (upd_maps h (heap_lnk_of F') (heap_dat_of F')) F'.
Proof. exact u_detach_sim. Qed.
Theorem TB_utils_detach_refused : forall h F p d cs which,
  WF h F -> find_tree p F = Some (T p d cs) -> is_ref d = false -> 0 <= which ->
  cs !! Z.to_nat which = None ->
  spec_detach_index F (Some p) which = (F, None) /\ detach_item_from_array (Some p) which h = Ret (None, h).
Proof. exact u_detach_refused. Qed.

(** … and insert_item_in_array IS cJSON_InsertItemInArray for an index within the array or at its end *)
Theorem TB_utils_insert_is_core : forall h F p x tx d cs,
  WF h F -> p <> x -> find_root x F = Some tx -> find_tree p (remove_root x F) = Some (T p d cs) -> is_ref d = false ->
  forall which, 0 <= which <= Z.of_nat (length cs) ->
  insert_item_in_array (Some p) which (Some x) h = cJSON_InsertItemInArray (Some p) which (Some x) h.
Proof. exact u_insert_eq_core. Qed.
Print Assumptions TB_utils_insert_is_core.
Theorem TB_utils_insert_before : forall h F p x tx d cs,
  WF h F -> p <> x -> find_root x F = Some tx -> find_tree p (remove_root x F) = Some (T p d cs) -> is_ref d = false ->
  forall which, 0 <= which -> (Z.to_nat which < length cs)%nat ->
  let F' := set_children p (insert_at (Z.to_nat which) tx cs) (remove_root x F) in
  spec_insert F (Some p) which (Some x) = (F', true) /\
  insert_item_in_array (Some p) which (Some x) h = Ret (true, upd_maps h (heap_lnk_of F') (heap_dat_of F')) /\
  WF (upd_maps h (heap_lnk_of F') (heap_dat_of F')) F'.
Proof. exact u_insert_sim_before. Qed.
Theorem TB_utils_insert_at_end : forall h F p x tx d cs,
  WF h F -> p <> x -> find_root x F = Some tx -> find_tree p (remove_root x F) = Some (T p d cs) -> is_ref d = false ->
  forall which, which = Z.of_nat (length cs) ->
  let F' := set_children p (cs ++ [tx]) (remove_root x F) in
  spec_insert F (Some p) which (Some x) = (F', true) /\
  insert_item_in_array (Some p) which (Some x) h = Ret (true, upd_maps h (heap_lnk_of F') (heap_dat_of F')) /\
  WF (upd_maps h (heap_lnk_of F') (heap_dat_of F')) F'.
Proof. exact u_insert_sim_append. Qed.
(** past the end it refuses and touches nothing; cJSON_InsertItemInArray succeeds (appends) there *)
Theorem TB_utils_insert_refused : forall h F p x tx d cs,
  WF h F -> p <> x -> find_root x F = Some tx -> find_tree p (remove_root x F) = Some (T p d cs) -> is_ref d = false ->
  forall which, Z.of_nat (length cs) < which ->
  insert_item_in_array (Some p) which (Some x) h = Ret (false, h) /\
  (spec_insert F (Some p) which (Some x)).2 = true.
Proof. exact u_insert_refused. Qed.
Print Assumptions TB_utils_insert_refused.
(** the two stores of [c->prev = c->next = NULL] (unsequenced in C) commute *)
Theorem TB_utils_final_stores_commute : forall (c v w : ptr) g,
  (set_prev c v ;;; set_next c w) g = (set_next c w ;;; set_prev c v) g.
Proof. exact stores_commute. Qed.

(** ------------------------------------------------------------------ 8. end to end: heap-level code |-> value-level primitive *)

Theorem TB_e2e_get_object_item : forall h F p d cs, WF h F -> find_tree p F = Some (T p d cs) -> is_ref d = false ->
  forall nb (sn : bytes), KeysReadable h F -> nb ∈ h_live h -> h_str h !! nb = Some sn -> existsb (Z.eqb 0) sn = true ->
  forall flag : bool,
  exists r, get_object_item (Some p) (Some nb) flag h = Ret (r, h) /\
            reify (h_str h) <$> (r ≫= fun x => find_tree x F) =
            snd <$> CompareDefs.get_object_item (reify (h_str h) (T p d cs)) (Some (cstr sn)) flag.
Proof. exact e2e_get_object_item. Qed.
Print Assumptions TB_e2e_get_object_item.

Theorem TB_e2e_get_array_item : forall h F p d cs, WF h F -> find_tree p F = Some (T p d cs) -> is_ref d = false ->
  forall idx,
  exists r, cJSON_GetArrayItem (Some p) idx h = Ret (r, h) /\
            reify (h_str h) <$> (r ≫= fun x => find_tree x F) =
            PointerDefs.nth_z (Tree.n_children (reify (h_str h) (T p d cs))) idx.
Proof. exact e2e_get_array_item. Qed.
Theorem TB_e2e_get_array_size : forall h F p d cs, WF h F -> find_tree p F = Some (T p d cs) -> is_ref d = false ->
  cJSON_GetArraySize (Some p) h = Ret (v_array_size (reify (h_str h) (T p d cs)), h).
Proof. exact e2e_get_array_size. Qed.

(** array detach: the core function and Utils' own, one statement *)
Theorem TB_e2e_detach_from_array : forall h F p d cs, WF h F -> find_tree p F = Some (T p d cs) -> is_ref d = false ->
  forall idx, 0 <= idx ->
  exists r h' F',
    cJSON_DetachItemFromArray (Some p) idx h = Ret (r, h') /\
    detach_item_from_array (Some p) idx h = Ret (r, h') /\
    WF h' F' /\ h_str h' = h_str h /\
    match v_detach_from_array (reify (h_str h) (T p d cs)) idx with
    | Some (item, obj') =>
        reify (h_str h) <$> find_tree p F' = Some obj' /\ reify (h_str h) <$> (r ≫= fun x => find_root x F') = Some item
    | None => F' = F /\ r = None /\ h' = h
    end.
Proof. exact e2e_detach_from_array. Qed.
Print Assumptions TB_e2e_detach_from_array.

(** cJSON_DetachItemFromObject[CaseSensitive] = lookup, then detach via pointer *)
Theorem TB_e2e_detach_from_object : forall h F p d cs, WF h F -> find_tree p F = Some (T p d cs) -> is_ref d = false ->
  forall nb (sn : bytes), KeysReadable h F -> nb ∈ h_live h -> h_str h !! nb = Some sn -> existsb (Z.eqb 0) sn = true ->
  forall flag : bool,
  exists r h' F',
    (to_detach <~ get_object_item (Some p) (Some nb) flag ;; cJSON_DetachItemViaPointer (Some p) to_detach) h = Ret (r, h') /\
    WF h' F' /\ h_str h' = h_str h /\
    (let '(item, obj') := MergeDefs.mp_DetachItemFromObject (reify (h_str h) (T p d cs)) (Some (cstr sn)) flag in
     reify (h_str h) <$> find_tree p F' = Some obj' /\ reify (h_str h) <$> (r ≫= fun x => find_root x F') = item) /\
    match v_detach_from_object (reify (h_str h) (T p d cs)) (cstr sn) flag with
    | Some (item, obj') =>
        reify (h_str h) <$> find_tree p F' = Some obj' /\ reify (h_str h) <$> (r ≫= fun x => find_root x F') = Some item
    | None => F' = F /\ r = None /\ h' = h
    end.
Proof. exact e2e_detach_from_object. Qed.
Print Assumptions TB_e2e_detach_from_object.
Theorem TB_detach_entry_points : forall object name,
  cJSON_DetachItemFromObject object name =
  (to_detach <~ get_object_item object name false ;; cJSON_DetachItemViaPointer object to_detach) /\
  cJSON_DetachItemFromObjectCaseSensitive object name =
  (to_detach <~ get_object_item object name true ;; cJSON_DetachItemViaPointer object to_detach).
Proof. exact cJSON_DetachItemFromObject_is. Qed.

Theorem TB_e2e_add_to_array : forall h F p x d dx cs csx,
  WF h F -> p <> x -> find_root x F = Some (T x dx csx) -> find_tree p (remove_root x F) = Some (T p d cs) -> is_ref d = false ->
  exists h' F', cJSON_AddItemToArray (Some p) (Some x) h = Ret (true, h') /\ WF h' F' /\ h_str h' = h_str h /\
                reify (h_str h) <$> find_tree p F' =
                Some (v_add_to_array (reify (h_str h) (T p d cs)) (reify (h_str h) (T x dx csx))).
Proof. exact e2e_add_to_array. Qed.

(** insertion within the array or at its end: the Utils function and the core function, one statement *)
Theorem TB_e2e_insert_in_array : forall h F p x d dx cs csx,
  WF h F -> p <> x -> find_root x F = Some (T x dx csx) -> find_tree p (remove_root x F) = Some (T p d cs) -> is_ref d = false ->
  forall which, 0 <= which <= Z.of_nat (length cs) ->
  exists h' F',
    insert_item_in_array (Some p) which (Some x) h = Ret (true, h') /\
    cJSON_InsertItemInArray (Some p) which (Some x) h = Ret (true, h') /\
    WF h' F' /\ h_str h' = h_str h /\
    reify (h_str h) <$> find_tree p F' =
    v_insert_in_array (reify (h_str h) (T p d cs)) which (reify (h_str h) (T x dx csx)).
Proof. exact e2e_insert_in_array. Qed.
Print Assumptions TB_e2e_insert_in_array.
Theorem TB_e2e_insert_past_end : forall h F p x d dx cs csx,
  WF h F -> p <> x -> find_root x F = Some (T x dx csx) -> find_tree p (remove_root x F) = Some (T p d cs) -> is_ref d = false ->
  forall which, Z.of_nat (length cs) < which ->
  insert_item_in_array (Some p) which (Some x) h = Ret (false, h) /\
  v_insert_in_array (reify (h_str h) (T p d cs)) which (reify (h_str h) (T x dx csx)) = None /\
  exists h' F', cJSON_InsertItemInArray (Some p) which (Some x) h = Ret (true, h') /\ WF h' F' /\ h_str h' = h_str h /\
                reify (h_str h) <$> find_tree p F' =
                Some (v_add_to_array (reify (h_str h) (T p d cs)) (reify (h_str h) (T x dx csx))).
Proof. exact e2e_insert_past_end. Qed.

(** cJSON_AddItemToObject: the key copy is allocated, the item's old owned key released; NO-ALIASING: no node
    of the object, and no node of the item other than through its own key field, refers to the identity about
    to be handed out or to the item's old owned key *)
Theorem TB_e2e_add_to_object : forall (oracle : nat -> bool) h F p x sb d dx cs csx (s : bytes),
  WF h F -> p <> x -> find_root x F = Some (T x dx csx) -> find_tree p (remove_root x F) = Some (T p d cs) -> is_ref d = false ->
  Readable h sb -> h_str h !! sb = Some s -> oracle (h_req h) = false ->
  (forall b, b ∈ str_blocks (T p d cs) ++ opt_list (rd_vstr dx) ++ (csx ≫= str_blocks) ->
             b <> h_next h /\ b ∉ old_key dx) ->
  exists h' F',
    add_item_to_object oracle (Some p) (Some sb) (Some x) false h = Ret (true, h') /\ WF h' F' /\
    reify (h_str h') <$> find_tree p F' =
      Some (v_add_to_object (reify (h_str h) (T p d cs)) (cstr s) (reify (h_str h) (T x dx csx))) /\
    v_add_to_object (reify (h_str h) (T p d cs)) (cstr s) (reify (h_str h) (T x dx csx)) =
      MergeDefs.mp_AddItemToObject (reify (h_str h) (T p d cs)) (Some (cstr s)) (Some (reify (h_str h) (T x dx csx))).
Proof. exact e2e_add_to_object. Qed.
Print Assumptions TB_e2e_add_to_object.

(** cJSON_DeleteItemFromObject[CaseSensitive]: everything the deleted member owns is released; NO-ALIASING: the
    object that remains refers to no string the call releases *)
Theorem TB_e2e_delete_from_object : forall h F p d cs nb (sn : bytes),
  WF h F -> KeysReadable h F -> find_tree p F = Some (T p d cs) -> is_ref d = false ->
  nb ∈ h_live h -> h_str h !! nb = Some sn -> existsb (Z.eqb 0) sn = true ->
  forall flag : bool,
  let F' := spec_delete_key (h_str h) F (Some p) (Some nb) flag in
  (forall o', find_tree p F' = Some o' -> forall b, b ∈ str_blocks o' -> ~ released F F' b) ->
  exists h',
    (it <~ (to_detach <~ get_object_item (Some p) (Some nb) flag ;; cJSON_DetachItemViaPointer (Some p) to_detach) ;;
     cJSON_Delete it) h = Ret (tt, h') /\
    WF h' F' /\
    reify (h_str h') <$> find_tree p F' =
      Some (MergeDefs.mp_DeleteItemFromObject (reify (h_str h) (T p d cs)) (Some (cstr sn)) flag) /\
    MergeDefs.mp_DeleteItemFromObject (reify (h_str h) (T p d cs)) (Some (cstr sn)) flag =
      v_delete_from_object (reify (h_str h) (T p d cs)) (cstr sn) flag.
Proof. exact e2e_delete_from_object. Qed.
Print Assumptions TB_e2e_delete_from_object.

(** the no-aliasing hypotheses hold for trees whose nodes own all their strings ([owns_strings]: no constant
    key, no string reference) — every tree the parser and the utilities build *)
Theorem TB_no_aliasing_delete : forall F F' p o',
  find_tree p F' = Some o' -> owns_strings o' -> forall b, b ∈ str_blocks o' -> ~ released F F' b.
Proof. exact owned_strings_not_released. Qed.
Theorem TB_no_aliasing_add : forall h F p x d dx cs csx,
  WF h F -> find_root x F = Some (T x dx csx) -> find_tree p (remove_root x F) = Some (T p d cs) ->
  owns_strings (T p d cs) -> is_ref dx = false -> Forall owns_strings csx ->
  forall b, b ∈ str_blocks (T p d cs) ++ opt_list (rd_vstr dx) ++ (csx ≫= str_blocks) ->
            b <> h_next h /\ b ∉ old_key dx.
Proof. exact add_hypothesis_of_owned. Qed.
Print Assumptions TB_no_aliasing_add.

(** non-vacuity at heap level: [ex_heap] (the canonical maps of [ex_F], string heap [ex_St], all node and key
    blocks live library blocks, the name blocks live) satisfies [WF] and [KeysReadable]; the Utils functions and
    sort_object run on it *)
Theorem TB_nonvacuous_heap : WF ex_heap ex_F /\ KeysReadable ex_heap ex_F.
Proof. exact (conj ex_heap_WF ex_heap_KeysReadable). Qed.
Print Assumptions TB_nonvacuous_heap.
Theorem TB_nonvacuous_heap_runs :
  Forall (has_key (h_str ex_heap)) ex_members /\ is_ref ex_objd = false /\ is_ref (tdata ex_arr) = false /\
  (exists h', detach_item_from_array (Some 4%positive) 0 ex_heap = Ret (Some 5%positive, h')) /\
  detach_item_from_array (Some 4%positive) 2 ex_heap = Ret (None, ex_heap) /\
  (exists h', insert_item_in_array (Some 4%positive) 1 (Some 7%positive) ex_heap = Ret (true, h')) /\
  insert_item_in_array (Some 4%positive) 5 (Some 7%positive) ex_heap = Ret (false, ex_heap) /\
  (exists h', cJSON_InsertItemInArray (Some 4%positive) 5 (Some 7%positive) ex_heap = Ret (true, h')) /\
  (exists h', SortDefs.sort_object (SortDefs.sort_fuel 3) (Some 1%positive) true ex_heap = Ret (tt, h')).
Proof. exact ex_heap_runs. Qed.
Print Assumptions TB_nonvacuous_heap_runs.

(** ------------------------------------------------------------------ 9. overwrite_item (D2): replacement of the root in place *)

(** SECOND ROUND (TierBridgeOverwrite*.v, TierBridgeE2E2.v).  D2 is no longer presupposed: [overwrite_item] of
    cJSON_Utils.c and the statement sequences of [apply_patch] that call it for the path "" are transliterated
    on the heap (TierBridgeOverwriteDefs.v: [overwrite_item root (links, fields)] with the replacement BY VALUE,
    [patch_root_overwrite object value] = overwrite_item(object, *value); cJSON_free(value); drop object->string
    (released unless constant); clear cJSON_StringIsConst — the code AFTER the repair f953f57;
    [patch_root_overwrite_pinned]: the same before the repair (key released unconditionally);
    [patch_root_remove object] = overwrite_item(object, invalid)) and proved against the forest:
    [r] the document root with data [dr], children [csr]; [x] the detached replacement with data [dx], children
    [csx]; [key_owned d]: a key, if any, is not a cJSON_StringIsConst one; [ov_released] / [patch_released]: the
    blocks released, in order; [overwrite_root r x dx csx F]: the forest in which [r] carries [dx] without key
    and without the cJSON_StringIsConst flag ([rd_unnamed dx]) and the children [csx], the old tree of [r] and the shell [x] gone; [put_struct r l nd h]: both parts of
    the struct stored at [r]. *)
From CJ Require Import CoreRefineDelete CoreRefineDupNode TierBridgeOverwriteDefs TierBridgeOverwrite TierBridgeOverwriteEx TierBridgeE2E2.

(** the function itself: returns normally; the root's key, valuestring and children are released (in that order,
    the children as cJSON_Delete releases them), then BOTH parts of the by-value struct — links included —
    are stored at the root *)
Theorem TB_overwrite_item_run : forall h F r dr csr,
  WF h F -> find_root r F = Some (T r dr csr) -> is_ref dr = false -> key_owned dr ->
  forall (l : ptr * ptr) (nd : ndata),
  overwrite_item (Some r) (l, nd) h = Ret (tt, put_struct r l nd (free_all (ov_released dr csr) h)).
Proof. exact overwrite_item_run. Qed.
Print Assumptions TB_overwrite_item_run.
Theorem TB_overwrite_released : forall dr csr x dx,
  ov_released dr csr = opt_list (rd_key dr) ++ opt_list (rd_vstr dr) ++ free_order csr /\
  patch_released dr csr x dx = ov_released dr csr ++ [x] ++ old_key dx /\
  old_key dx = (if is_const dx then [] else opt_list (rd_key dx)).
Proof. exact (fun dr csr x dx => conj eq_refl (conj eq_refl eq_refl)). Qed.
Theorem TB_overwrite_result_heap : forall h r x dr dx csr csx,
  patch_heap h r x dr dx csr csx =
  put_struct r (None, None) (mk_dat (rd_unnamed dx) (tid <$> csx)) (free_all (patch_released dr csr x dx) h).
Proof. exact (fun h r x dr dx csr csx => eq_refl). Qed.

(** MAIN THEOREM (root case of add / replace / copy / move).  For a well-formed heap, a forest root [r] that is
    not a reference node and whose key, if any, is owned, and a detached replacement root [x] whose key may be
    owned, CONSTANT or absent (the repaired code): the sequence returns normally with the explicit heap [h']; [h'] encodes the forest in
    which the root's subtree is replaced by the replacement's data and children UNDER THE ROOT'S IDENTITY;
    the ledger loses exactly the released blocks; and — provided the strings that the replacement's
    valuestring and children refer to are not among the released blocks — the reified new root is
    [PatchDefs.unnamed (reify replacement)] (key dropped, flag cleared), the expression of PatchDefs.apply_patch at that point
    ([TB_patch_model_root_cases]) *)
Theorem TB_patch_root_overwrite : forall h F r x dr dx csr csx,
  WF h F -> find_root r F = Some (T r dr csr) -> find_root x F = Some (T x dx csx) -> r <> x ->
  is_ref dr = false -> key_owned dr ->
  let F' := overwrite_root r x dx csx F in
  let bs := patch_released dr csr x dx in
  let h' := patch_heap h r x dr dx csr csx in
  patch_root_overwrite (Some r) (Some x) h = Ret (tt, h') /\
  WF h' F' /\
  owned F ≡ₚ bs ++ owned F' /\ lib_live h' = lib_live h ∖ list_to_set bs /\ (NoLeak h F -> NoLeak h' F') /\
  find_root r F' = Some (T r (rd_unnamed dx) csx) /\
  ((forall b, b ∈ opt_list (rd_vstr dx) ++ (csx ≫= str_blocks) -> b ∉ bs) ->
   reify (h_str h') (T r (rd_unnamed dx) csx) = PatchDefs.unnamed (reify (h_str h) (T x dx csx))).
Proof. exact patch_root_overwrite_sim. Qed.
Print Assumptions TB_patch_root_overwrite.

(** the rest of the frame: released blocks were live library blocks; tags, allocator state and hooks untouched;
    the string heap loses exactly the released blocks *)
Theorem TB_patch_root_overwrite_frame : forall h F r x dr dx csr csx,
  WF h F -> find_root r F = Some (T r dr csr) -> find_root x F = Some (T x dx csx) -> r <> x ->
  is_ref dr = false -> key_owned dr ->
  owned F ≡ₚ patch_released dr csr x dx ++ owned (overwrite_root r x dx csx F) /\
  lib_live (patch_heap h r x dr dx csr csx) = lib_live h ∖ list_to_set (patch_released dr csr x dx) /\
  (NoLeak h F -> NoLeak (patch_heap h r x dr dx csr csx) (overwrite_root r x dx csx F)) /\
  (forall b, b ∈ patch_released dr csr x dx -> b ∈ lib_live h) /\
  h_own (patch_heap h r x dr dx csr csx) = h_own h /\ h_next (patch_heap h r x dr dx csr csx) = h_next h /\
  h_req (patch_heap h r x dr dx csr csx) = h_req h /\ h_hooks (patch_heap h r x dr dx csr csx) = h_hooks h /\
  (forall b, h_str (patch_heap h r x dr dx csr csx) !! b =
             if decide (b ∈ patch_released dr csr x dx) then None else h_str h !! b).
Proof. exact patch_root_overwrite_ledger. Qed.
Print Assumptions TB_patch_root_overwrite_frame.

(** the no-aliasing hypothesis holds when the replacement owns its strings (no reference, children without
    constant keys / string references): every tree the parser, cJSON_Duplicate of such a tree, and the
    utilities build *)
Theorem TB_no_aliasing_overwrite : forall h F r x dr dx csr csx,
  WF h F -> find_root r F = Some (T r dr csr) -> find_root x F = Some (T x dx csx) -> r <> x ->
  is_ref dr = false -> key_owned dr ->
  is_ref dx = false -> Forall owns_strings csx ->
  forall b, b ∈ opt_list (rd_vstr dx) ++ (csx ≫= str_blocks) -> b ∉ patch_released dr csr x dx.
Proof. exact patch_no_aliasing_of_owned. Qed.
Print Assumptions TB_no_aliasing_overwrite.

(** root case of remove: [overwrite_item(object, invalid)] *)
Theorem TB_patch_root_remove : forall h F r dr csr,
  WF h F -> find_root r F = Some (T r dr csr) -> is_ref dr = false -> key_owned dr ->
  patch_root_remove (Some r) h = Ret (tt, remove_heap h r dr csr) /\
  WF (remove_heap h r dr csr) (invalidate_root r F) /\
  owned F ≡ₚ ov_released dr csr ++ owned (invalidate_root r F) /\
  lib_live (remove_heap h r dr csr) = lib_live h ∖ list_to_set (ov_released dr csr) /\
  (NoLeak h F -> NoLeak (remove_heap h r dr csr) (invalidate_root r F)) /\
  find_root r (invalidate_root r F) = Some (T r rd_invalid []) /\
  (forall St, reify St (T r rd_invalid []) = PatchDefs.invalid_node).
Proof. exact patch_root_remove_sim. Qed.
Print Assumptions TB_patch_root_remove.

(** where the value-level model computes these values: the root case of copy / move ([finish_add] with the
    empty path), of add / replace, and of remove in PatchDefs.apply_patch *)
Theorem TB_patch_model_root_cases :
  (forall object value cs, PatchDefs.finish_add object value [] cs = Ok (0, PatchDefs.unnamed value)) /\
  (forall object patch (cs : bool) i pathn op j v d,
     CompareDefs.get_object_item patch (Some PatchDefs.s_path) cs = Some (i, pathn) ->
     Tree.is_string pathn = true -> Tree.n_vstr pathn = Some [] ->
     PatchDefs.decode_patch_operation patch cs = Ok op -> op = PatchDefs.ADD \/ op = PatchDefs.REPLACE ->
     CompareDefs.get_object_item patch (Some PatchDefs.s_value) cs = Some (j, v) ->
     PatchDefs.cJSON_Duplicate v = Some d ->
     PatchDefs.apply_patch object patch cs = Ok (0, PatchDefs.unnamed d, patch)) /\
  (forall object patch (cs : bool) i pathn,
     CompareDefs.get_object_item patch (Some PatchDefs.s_path) cs = Some (i, pathn) ->
     Tree.is_string pathn = true -> Tree.n_vstr pathn = Some [] ->
     PatchDefs.decode_patch_operation patch cs = Ok PatchDefs.REMOVE ->
     PatchDefs.apply_patch object patch cs = Ok (0, PatchDefs.invalid_node, patch)).
Proof. exact (conj finish_add_root (conj apply_patch_root_add_replace apply_patch_root_remove)). Qed.
Print Assumptions TB_patch_model_root_cases.

(** OUTSIDE the hypotheses, by concrete counterexample.  (1) A root whose key carries cJSON_StringIsConst (block
    102 is the caller's: tag [Foreign]; every other hypothesis holds): overwrite_item — which the repair f953f57
    does not touch — releases the borrowed key, [ForeignFree], in both root sequences (repaired and pinned), although cJSON_Delete of the same root returns normally and leaves
    the block alone. *)
Theorem TB_overwrite_const_key_refuted :
  WF owc_heap owc_F /\ find_root 1%positive owc_F = Some (T 1 owc_dr []) /\
  find_root 10%positive owc_F = Some (ow_num 10 5 None) /\ is_ref owc_dr = false /\
  is_const owc_dr = true /\ rd_key owc_dr = Some 102%positive /\ ~ key_owned owc_dr /\
  h_own owc_heap !! 102%positive = Some Foreign /\ 102%positive ∈ h_live owc_heap /\
  patch_root_overwrite (Some 1%positive) (Some 10%positive) owc_heap = Err ForeignFree /\
  patch_root_overwrite_pinned (Some 1%positive) (Some 10%positive) owc_heap = Err ForeignFree /\
  patch_root_remove (Some 1%positive) owc_heap = Err ForeignFree /\
  (exists h', cJSON_Delete (Some 1%positive) owc_heap = Ret (tt, h') /\ 102%positive ∈ h_live h').
Proof. exact overwrite_const_key_refuted. Qed.
Print Assumptions TB_overwrite_const_key_refuted.

(** (1') A REPLACEMENT whose key is a constant — what cJSON_Duplicate returns for a patch member added with
    cJSON_AddItemToObjectCS(patch, "value", v): the duplicate keeps the caller's block and the flag.  With the
    PINNED code (before the repair f953f57 of /repo) the final cJSON_free(object->string) of apply_patch
    releases the caller's block ([ForeignFree]; in C: free() of a string literal) … *)
Theorem TB_overwrite_const_replacement_refuted_pinned :
  WF owk_heap owk_F /\ find_root 1%positive owk_F = Some (ow_num 1 1 None) /\
  find_root 10%positive owk_F = Some (T 10 owk_dx []) /\ key_owned (tdata (ow_num 1 1 None)) /\
  is_const owk_dx = true /\ rd_key owk_dx = Some 110%positive /\ ~ key_owned owk_dx /\
  h_own owk_heap !! 110%positive = Some Foreign /\ 110%positive ∈ h_live owk_heap /\
  patch_root_overwrite_pinned (Some 1%positive) (Some 10%positive) owk_heap = Err ForeignFree.
Proof. exact overwrite_const_replacement_refuted_pinned. Qed.
Print Assumptions TB_overwrite_const_replacement_refuted_pinned.

(** … with the REPAIRED code a replacement carrying a constant key (a block [k] that is not a library block of
    the forest) is fine: the call succeeds, [WF] holds for the overwritten forest, only the old root's blocks
    and the shell are released, the borrowed block keeps its liveness, contents and tag, and the new root has
    neither key nor cJSON_StringIsConst … *)
Theorem TB_overwrite_const_replacement_ok : forall h F r x dr dx csr csx k,
  WF h F -> find_root r F = Some (T r dr csr) -> find_root x F = Some (T x dx csx) -> r <> x ->
  is_ref dr = false -> key_owned dr ->
  is_const dx = true -> rd_key dx = Some k -> k ∉ owned F ->
  let h' := patch_heap h r x dr dx csr csx in
  patch_root_overwrite (Some r) (Some x) h = Ret (tt, h') /\
  WF h' (overwrite_root r x dx csx F) /\
  patch_released dr csr x dx = ov_released dr csr ++ [x] /\ k ∉ patch_released dr csr x dx /\
  (k ∈ h_live h' <-> k ∈ h_live h) /\ h_str h' !! k = h_str h !! k /\ h_own h' !! k = h_own h !! k /\
  rd_key (rd_unnamed dx) = None /\ is_const (rd_unnamed dx) = false.
Proof. exact patch_const_replacement_ok. Qed.
Print Assumptions TB_overwrite_const_replacement_ok.
(** … and on the very heap of the pinned counterexample: block 110 ("value") stays live, borrowed and unchanged;
    the new root reifies to the number 5 without key and without the flag *)
Theorem TB_nonvacuous_const_replacement_ok :
  110%positive ∉ owned owk_F /\
  exists h',
    patch_root_overwrite (Some 1%positive) (Some 10%positive) owk_heap = Ret (tt, h') /\
    WF h' [T 1 (rd_unnamed owk_dx) []] /\
    patch_released (tdata (ow_num 1 1 None)) [] 10 owk_dx = [10%positive] /\
    110%positive ∈ h_live h' /\ h_own h' !! 110%positive = Some Foreign /\
    h_str h' !! 110%positive = Some [118; 97; 108; 117; 101; 0] /\
    rd_key (rd_unnamed owk_dx) = None /\ is_const (rd_unnamed owk_dx) = false /\
    reify (h_str h') (T 1 (rd_unnamed owk_dx) []) = Tree.Node c_cJSON_Number None 5 (dbl_of_int 5) None [].
Proof. exact overwrite_const_replacement_ok. Qed.
Print Assumptions TB_nonvacuous_const_replacement_ok.

(** (2) A "root" that has siblings — member 2 ("a") of the object 1 of [ex_heap] (members 2 3 4), as in
    cJSONUtils_ApplyPatches(cJSON_GetObjectItem(big, "a"), patches): the call returns normally, but the memcpy
    has overwritten next/prev with the replacement's NULL links: the member has no next, the object has ONE
    member instead of three, members 3 and 4 (and 4's elements 5 6) are still live library blocks that nothing
    reaches, 3's prev still points at 2, and the member's key block 101 is released *)
Theorem TB_overwrite_member_refuted :
  WF ex_heap ex_F /\ find_root 2%positive ex_F = None /\ find_tree 2%positive ex_F = Some m2 /\
  find_root 7%positive ex_F = Some ex_item /\
  out_val (get_next (Some 2%positive) ex_heap) = inl (Some (Some 3%positive)) /\
  out_val (cJSON_GetArraySize (Some 1%positive) ex_heap) = inl (Some 3) /\
  exists h',
    patch_root_overwrite (Some 2%positive) (Some 7%positive) ex_heap = Ret (tt, h') /\
    out_val (get_next (Some 2%positive) h') = inl (Some None) /\
    out_val (cJSON_GetArraySize (Some 1%positive) h') = inl (Some 1) /\
    out_val (get_prev (Some 3%positive) h') = inl (Some (Some 2%positive)) /\
    3%positive ∈ lib_live h' /\ 4%positive ∈ lib_live h' /\ 5%positive ∈ lib_live h' /\ 6%positive ∈ lib_live h' /\
    101%positive ∉ h_live h'.
Proof. exact overwrite_member_refuted. Qed.
Print Assumptions TB_overwrite_member_refuted.

(** non-vacuity of [TB_patch_root_overwrite], [TB_no_aliasing_overwrite], [TB_patch_root_remove]: on [ow_heap]
    — document root 1 = object with the owned key "doc" (102) and an owned valuestring "old" (101), members
    2 (key 103) and 3 (key 105, valuestring 104); replacement root 10 = array [5, "x"] (nodes 11, 12,
    valuestring 111) with the owned key "value" (110), as cJSON_Duplicate of the patch's "value" member returns
    it; an unrelated root 20 — every hypothesis holds *)
Theorem TB_nonvacuous_overwrite_hypotheses :
  WF ow_heap ow_F /\ NoLeak ow_heap ow_F /\
  find_root 1%positive ow_F = Some (T 1 ow_dr ow_csr) /\ find_root 10%positive ow_F = Some (T 10 ow_dx ow_csx) /\
  1%positive <> 10%positive /\ is_ref ow_dr = false /\ key_owned ow_dr /\ key_owned ow_dx /\
  rd_key ow_dr = Some 102%positive /\ rd_vstr ow_dr = Some 101%positive /\ rd_key ow_dx = Some 110%positive /\
  is_ref ow_dx = false /\ Forall owns_strings ow_csx.
Proof. exact ow_hypotheses. Qed.
Print Assumptions TB_nonvacuous_overwrite_hypotheses.
(** … nine blocks are released (key, valuestring, member 2 with its key, member 3 with valuestring and key, the
    shell, the replacement's key), the forest is the new root 1 and the unrelated root 20, and the new root
    reifies to the array [5, "x"] without key *)
Theorem TB_nonvacuous_overwrite :
  patch_released ow_dr ow_csr 10 ow_dx = [102; 101; 103; 2; 104; 105; 3; 10; 110]%positive /\
  exists h',
    patch_root_overwrite (Some 1%positive) (Some 10%positive) ow_heap = Ret (tt, h') /\
    WF h' [T 1 (rd_unnamed ow_dx) ow_csx; ow_num 20 7 None] /\
    NoLeak h' [T 1 (rd_unnamed ow_dx) ow_csx; ow_num 20 7 None] /\
    lib_live h' = lib_live ow_heap ∖ list_to_set [102; 101; 103; 2; 104; 105; 3; 10; 110]%positive /\
    reify (h_str h') (T 1 (rd_unnamed ow_dx) ow_csx) =
      Tree.Node c_cJSON_Array None 0 dzero None
        [Tree.Node c_cJSON_Number None 5 (dbl_of_int 5) None []; Tree.Node c_cJSON_String (Some [120]) 0 dzero None []].
Proof. exact (conj (proj1 ow_result) ow_instance). Qed.
Print Assumptions TB_nonvacuous_overwrite.
Theorem TB_nonvacuous_root_remove :
  exists h',
    patch_root_remove (Some 1%positive) ow_heap = Ret (tt, h') /\
    WF h' [T 1 rd_invalid []; T 10 ow_dx ow_csx; ow_num 20 7 None] /\
    NoLeak h' [T 1 rd_invalid []; T 10 ow_dx ow_csx; ow_num 20 7 None] /\
    lib_live h' = lib_live ow_heap ∖ list_to_set [102; 101; 103; 2; 104; 105; 3]%positive /\
    reify (h_str h') (T 1 rd_invalid []) = PatchDefs.invalid_node.
Proof. exact ow_instance_remove. Qed.
Print Assumptions TB_nonvacuous_root_remove.

(** ------------------------------------------------------------------ 10. end to end: replace in object, duplicate *)

(** cJSON_ReplaceItemInObject[CaseSensitive] (both case modes), under the hypotheses of the C06 lemma
    (CoreRefineReplaceKey.replace_item_in_object_sim) plus NO-ALIASING: (1) as for add — no remaining node refers
    to the identity about to be handed out or to the replacement's old owned key; (2) what remains — the object
    without the member the lookup finds, the replacement's valuestring and children — refers to no block
    released with that member.  When no member matches the call returns false and the object reifies as before
    (the replacement keeps its new key: [TB_replace_by_key_explicit]). *)
Theorem TB_e2e_replace_in_object : forall (oracle : nat -> bool) h F p r sb d dp cs csp (s : bytes),
  WF h F -> KeysReadable h F ->
  (forall (e : fnode) (b : positive), e ∈ flat F -> rd_key (fn_data e) = Some b -> is_const (fn_data e) = true -> b ∉ owned F) ->
  (forall (e : fnode) (b : positive), e ∈ flat F -> rd_key (fn_data e) = Some b -> (b < h_next h)%positive) ->
  find_root r F = Some (T r d cs) -> find_tree p (remove_root r F) = Some (T p dp csp) -> is_ref dp = false ->
  Readable h sb -> h_str h !! sb = Some s -> oracle (h_req h) = false ->
  (forall b : positive, b ∈ str_blocks (T p dp csp) ++ opt_list (rd_vstr d) ++ (cs ≫= str_blocks) ->
                        b <> h_next h /\ b ∉ old_key d) ->
  forall flag : bool,
  (forall (j : nat) (v : Tree.node) (ty : tree),
     CompareDefs.get_object_item (reify (h_str h) (T p dp csp)) (Some (cstr s)) flag = Some (j, v) -> csp !! j = Some ty ->
     forall b : positive,
       b ∈ str_blocks (T p dp (delete j csp)) ++ opt_list (rd_vstr d) ++ (cs ≫= str_blocks) -> b ∉ owned [ty]) ->
  exists (b : bool) (h' : heap) (F' : forest),
    replace_item_in_object oracle (Some p) (Some sb) (Some r) flag h = Ret (b, h') /\ WF h' F' /\
    match v_replace_in_object (reify (h_str h) (T p dp csp)) (cstr s) (reify (h_str h) (T r d cs)) flag with
    | Some obj' => b = true /\ reify (h_str h') <$> find_tree p F' = Some obj'
    | None => b = false /\ reify (h_str h') <$> find_tree p F' = Some (reify (h_str h) (T p dp csp))
    end.
Proof. exact e2e_replace_in_object. Qed.
Print Assumptions TB_e2e_replace_in_object.
Theorem TB_replace_entry_points : forall (oracle : nat -> bool) object string newitem,
  cJSON_ReplaceItemInObject oracle object string newitem = replace_item_in_object oracle object string newitem false /\
  cJSON_ReplaceItemInObjectCaseSensitive oracle object string newitem = replace_item_in_object oracle object string newitem true.
Proof. exact cJSON_ReplaceItemInObject_is. Qed.

(** both no-aliasing hypotheses hold for trees that own their strings … *)
Theorem TB_no_aliasing_replace : forall h F p r d dp cs csp,
  WF h F -> find_root r F = Some (T r d cs) -> find_tree p (remove_root r F) = Some (T p dp csp) ->
  owns_strings (T p dp csp) -> is_ref d = false -> Forall owns_strings cs ->
  (forall b : positive, b ∈ str_blocks (T p dp csp) ++ opt_list (rd_vstr d) ++ (cs ≫= str_blocks) ->
                        b <> h_next h /\ b ∉ old_key d) /\
  (forall (j : nat) (ty : tree), csp !! j = Some ty ->
     forall b : positive, b ∈ str_blocks (T p dp (delete j csp)) ++ opt_list (rd_vstr d) ++ (cs ≫= str_blocks) ->
                          b ∉ owned [ty]).
Proof. exact replace_hypotheses_of_owned. Qed.
Print Assumptions TB_no_aliasing_replace.
(** … so for such trees the composition needs the C06 hypotheses only *)
Theorem TB_e2e_replace_in_object_owned : forall (oracle : nat -> bool) h F p r sb d dp cs csp (s : bytes) (flag : bool),
  WF h F -> KeysReadable h F ->
  (forall (e : fnode) (b : positive), e ∈ flat F -> rd_key (fn_data e) = Some b -> is_const (fn_data e) = true -> b ∉ owned F) ->
  (forall (e : fnode) (b : positive), e ∈ flat F -> rd_key (fn_data e) = Some b -> (b < h_next h)%positive) ->
  find_root r F = Some (T r d cs) -> find_tree p (remove_root r F) = Some (T p dp csp) -> is_ref dp = false ->
  Readable h sb -> h_str h !! sb = Some s -> oracle (h_req h) = false ->
  owns_strings (T p dp csp) -> is_ref d = false -> Forall owns_strings cs ->
  exists (b : bool) (h' : heap) (F' : forest),
    replace_item_in_object oracle (Some p) (Some sb) (Some r) flag h = Ret (b, h') /\ WF h' F' /\
    match v_replace_in_object (reify (h_str h) (T p dp csp)) (cstr s) (reify (h_str h) (T r d cs)) flag with
    | Some obj' => b = true /\ reify (h_str h') <$> find_tree p F' = Some obj'
    | None => b = false /\ reify (h_str h') <$> find_tree p F' = Some (reify (h_str h) (T p dp csp))
    end.
Proof. exact e2e_replace_in_object_owned. Qed.
Print Assumptions TB_e2e_replace_in_object_owned.

(** cJSON_Duplicate(item, 1), under the hypotheses of C11_copy_subtree plus: a CONSTANT key of the source (which
    [strs_readable] does not cover) designates a block below the allocator pointer — otherwise the allocator
    could hand out that identity and the source itself would reify differently afterwards.  Either NULL (the
    heap encodes the same forest, the strings are untouched, some request was refused) or a new root whose
    reification is what BOTH value-level duplicates compute from the reified source; the source reifies as before. *)
Theorem TB_e2e_duplicate : forall (oracle : nat -> bool) h F p t,
  WF h F -> Closed h -> find_tree p F = Some t ->
  CoreRefineDupForest.strs_readable h t -> CoreRefineDupForest.no_borrowed t ->
  (CoreRefineDupForest.height t <= Z.to_nat c_CJSON_CIRCULAR_LIMIT)%nat ->
  (forall (i : positive) (d : rdata) (ks : list positive) (b : positive),
     (i, d, ks) ∈ flat_t t -> rd_key d = Some b -> is_const d = true -> (b < h_next h)%positive) ->
  exists (r : ptr) (h' : heap),
    cJSON_Duplicate oracle (Some p) true h = Ret (r, h') /\
    ((r = None /\ WF h' F /\ h_str h' = h_str h /\ ofail oracle h h') \/
     (exists tc : tree,
        r = Some (tid tc) /\ WF h' (F ++ [tc]) /\ find_root (tid tc) (F ++ [tc]) = Some tc /\
        PatchDefs.cJSON_Duplicate (reify (h_str h) t) = Some (reify (h_str h') tc) /\
        MergeDefs.mp_Duplicate (Some (reify (h_str h) t)) = Some (reify (h_str h') tc) /\
        reify (h_str h') t = reify (h_str h) t /\
        oclean oracle h h')).
Proof. exact e2e_duplicate. Qed.
Print Assumptions TB_e2e_duplicate.
(** without refused requests the copy is made *)
Theorem TB_e2e_duplicate_no_failure : forall h F p t,
  WF h F -> Closed h -> find_tree p F = Some t ->
  CoreRefineDupForest.strs_readable h t -> CoreRefineDupForest.no_borrowed t ->
  (CoreRefineDupForest.height t <= Z.to_nat c_CJSON_CIRCULAR_LIMIT)%nat ->
  (forall (i : positive) (d : rdata) (ks : list positive) (b : positive),
     (i, d, ks) ∈ flat_t t -> rd_key d = Some b -> is_const d = true -> (b < h_next h)%positive) ->
  exists (tc : tree) (h' : heap),
    cJSON_Duplicate (fun _ => false) (Some p) true h = Ret (Some (tid tc), h') /\
    WF h' (F ++ [tc]) /\ find_root (tid tc) (F ++ [tc]) = Some tc /\
    PatchDefs.cJSON_Duplicate (reify (h_str h) t) = Some (reify (h_str h') tc) /\
    MergeDefs.mp_Duplicate (Some (reify (h_str h) t)) = Some (reify (h_str h') tc) /\
    reify (h_str h') t = reify (h_str h) t.
Proof. exact e2e_duplicate_no_failure. Qed.
Print Assumptions TB_e2e_duplicate_no_failure.

(** non-vacuity on [ex_heap] / [ex_F]: the hypotheses of [TB_e2e_replace_in_object(_owned)] hold for the object
    1, the replacement 7 and the name blocks 111 "A" / 112 "zz" … *)
Theorem TB_nonvacuous_replace_hypotheses :
  WF ex_heap ex_F /\ KeysReadable ex_heap ex_F /\
  (forall (e : fnode) (b : positive),
     e ∈ flat ex_F -> rd_key (fn_data e) = Some b -> is_const (fn_data e) = true -> b ∉ owned ex_F) /\
  (forall (e : fnode) (b : positive), e ∈ flat ex_F -> rd_key (fn_data e) = Some b -> (b < h_next ex_heap)%positive) /\
  find_root 7%positive ex_F = Some (T 7 (tdata ex_item) []) /\
  find_tree 1%positive (remove_root 7%positive ex_F) = Some (T 1 ex_objd ex_members) /\
  is_ref ex_objd = false /\
  Readable ex_heap 111 /\ h_str ex_heap !! 111%positive = Some [65; 0] /\
  Readable ex_heap 112 /\ h_str ex_heap !! 112%positive = Some [122; 122; 0] /\
  owns_strings (T 1 ex_objd ex_members) /\ is_ref (tdata ex_item) = false /\ Forall owns_strings ([] : list tree).
Proof. exact ex_replace_hypotheses. Qed.
Print Assumptions TB_nonvacuous_replace_hypotheses.
(** … "A" case-insensitively replaces member 2 ("a", the FIRST folded match), case-sensitively member 3; "zz" is
    refused and the object reifies as before *)
Theorem TB_nonvacuous_e2e_replace :
  (exists (h' : heap) (F' : forest),
     replace_item_in_object (fun _ => false) (Some 1%positive) (Some 111%positive) (Some 7%positive) false ex_heap = Ret (true, h') /\
     WF h' F' /\
     reify (h_str h') <$> find_tree 1%positive F' = Some (reify ex_St (T 1 ex_objd [ex_item_keyed; m3; ex_arr]))) /\
  (exists (h' : heap) (F' : forest),
     replace_item_in_object (fun _ => false) (Some 1%positive) (Some 111%positive) (Some 7%positive) true ex_heap = Ret (true, h') /\
     WF h' F' /\
     reify (h_str h') <$> find_tree 1%positive F' = Some (reify ex_St (T 1 ex_objd [m2; ex_item_keyed; ex_arr]))) /\
  (exists (h' : heap) (F' : forest),
     replace_item_in_object (fun _ => false) (Some 1%positive) (Some 112%positive) (Some 7%positive) false ex_heap = Ret (false, h') /\
     WF h' F' /\
     reify (h_str h') <$> find_tree 1%positive F' = Some (reify ex_St ex_obj)).
Proof. exact (conj ex_e2e_replace_ci (conj ex_e2e_replace_cs ex_e2e_replace_refused)). Qed.
Print Assumptions TB_nonvacuous_e2e_replace.

(** the hypotheses of [TB_e2e_duplicate] hold for the object 1 of [ex_heap]; without refused requests the copy
    is made and reifies to the object itself; with the first request refused the result is NULL *)
Theorem TB_nonvacuous_duplicate_hypotheses :
  WF ex_heap ex_F /\ Closed ex_heap /\ find_tree 1%positive ex_F = Some ex_obj /\
  CoreRefineDupForest.strs_readable ex_heap ex_obj /\ CoreRefineDupForest.no_borrowed ex_obj /\
  (CoreRefineDupForest.height ex_obj <= Z.to_nat c_CJSON_CIRCULAR_LIMIT)%nat /\
  (forall (i : positive) (d : rdata) (ks : list positive) (b : positive),
     (i, d, ks) ∈ flat_t ex_obj -> rd_key d = Some b -> is_const d = true -> (b < h_next ex_heap)%positive) /\
  (forall b : positive, b ∈ str_blocks ex_obj -> (b < h_next ex_heap)%positive).
Proof. exact ex_duplicate_hypotheses. Qed.
Print Assumptions TB_nonvacuous_duplicate_hypotheses.
Theorem TB_nonvacuous_e2e_duplicate :
  (exists (tc : tree) (h' : heap),
     cJSON_Duplicate (fun _ => false) (Some 1%positive) true ex_heap = Ret (Some (tid tc), h') /\
     WF h' (ex_F ++ [tc]) /\ find_root (tid tc) (ex_F ++ [tc]) = Some tc /\
     PatchDefs.cJSON_Duplicate ex_o = Some (reify (h_str h') tc) /\
     MergeDefs.mp_Duplicate (Some ex_o) = Some (reify (h_str h') tc) /\
     reify (h_str h') tc = ex_o /\ reify (h_str h') ex_obj = ex_o) /\
  (exists h' : heap,
     cJSON_Duplicate (fun k => Nat.eqb k 0) (Some 1%positive) true ex_heap = Ret (None, h') /\
     WF h' ex_F /\ h_str h' = h_str ex_heap).
Proof. exact (conj ex_e2e_duplicate ex_e2e_duplicate_failure). Qed.
Print Assumptions TB_nonvacuous_e2e_duplicate.
