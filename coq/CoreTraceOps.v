(** CoreTraceOps.v — property C14 for API histories (the interpreter of CoreOps.v):
    [init_hooks_spec], [tr_ok] of [run_op] for every operation other than [OInitHooks], of
    [run_ops] on histories without [OInitHooks], the per-segment statement for histories WITH
    [OInitHooks], the corollaries for the hook configurations, and a concrete run. *)
From stdpp Require Import gmap.
From Coq Require Import Floats.SpecFloat.
From CJ Require Import Base Dbl Tree Heap CoreDefs CoreOps CoreTrace CoreTraceFns.
From CJ.gen Require Import Constants.
Local Open Scope positive_scope.
Local Open Scope list_scope.

(** * cJSON_InitHooks *)

(** the configuration selected by an argument of cJSON_InitHooks: NULL selects the defaults; in a
    struct, each NULL member selects the default for that member *)
Definition hooks_of_arg (a : hooks_arg) : hooks :=
  match a with
  | None => default_hooks
  | Some (malloc_fn, free_fn) => mkHooks malloc_fn free_fn
  end.

(** [h] with its hook configuration replaced *)
Definition with_hooks (h : heap) (hk : hooks) : heap :=
  mkHeap (h_lnk h) (h_dat h) (h_str h) (h_own h) (h_live h) (h_next h) (h_req h) hk (h_trace h).

Lemma init_hooks_run a h : cJSON_InitHooks a h = Ret (tt, with_hooks h (hooks_of_arg a)).
Proof. destruct a as [[m f]|]; reflexivity. Qed.

Lemma init_hooks_spec_lemma a h :
  ∃ h', cJSON_InitHooks a h = Ret (tt, h') ∧
    (* the configuration, case by case *)
    (a = None → h_hooks h' = default_hooks) ∧
    (∀ m f, a = Some (m, f) → hk_malloc_custom (h_hooks h') = m ∧ hk_free_custom (h_hooks h') = f) ∧
    (* reallocate is non-NULL iff both members are the defaults *)
    (hooks_realloc_available (h_hooks h') = true ↔
       hk_malloc_custom (h_hooks h') = false ∧ hk_free_custom (h_hooks h') = false) ∧
    (* nothing else changes: no block, no allocator state, no event *)
    h_lnk h' = h_lnk h ∧ h_dat h' = h_dat h ∧ h_str h' = h_str h ∧ h_own h' = h_own h ∧
    h_live h' = h_live h ∧ h_next h' = h_next h ∧ h_req h' = h_req h ∧ h_trace h' = h_trace h.
Proof.
  exists (with_hooks h (hooks_of_arg a)). split; [apply init_hooks_run|].
  split; [intros ->; reflexivity|]. split.
  - intros m f ->. split; reflexivity.
  - split; [|repeat split; reflexivity].
    cbn. unfold hooks_realloc_available.
    destruct (hk_malloc_custom (hooks_of_arg a)), (hk_free_custom (hooks_of_arg a)); cbn; intuition congruence.
Qed.

Lemma trace_wf_with_hooks h hk : trace_wf h → trace_wf (with_hooks h hk).
Proof. intros [W1 W2 W3 W4]. split; cbn; auto. Qed.

(** * the interpreter *)

Lemma tr_ok_str_of st a : tr_ok (str_of st a).
Proof. unfold str_of. destruct a; tr_auto. Qed.
Global Hint Resolve tr_ok_str_of : tr.
Lemma tr_ok_strs_of l : ∀ st, tr_ok (strs_of st l).
Proof. induction l as [|a l IH]; intros st; cbn [strs_of]; tr_auto; try apply IH. Qed.
Lemma tr_ok_sweep st : tr_ok (sweep st).
Proof. unfold sweep. tr_auto. Qed.
Lemma tr_ok_opt_cstr p : tr_ok (opt_cstr p).
Proof. unfold opt_cstr. tr_auto. Qed.
Lemma tr_ok_child_depth fuel : ∀ p acc, tr_ok (child_depth fuel p acc).
Proof. induction fuel as [|f IH]; intros p acc; cbn [child_depth]; tr_auto; try apply IH. Qed.
Global Hint Resolve tr_ok_strs_of tr_ok_sweep tr_ok_opt_cstr tr_ok_child_depth : tr.

(** the operation that changes the hooks *)
Definition is_init_hooks (o : op) : bool := match o with OInitHooks _ => true | _ => false end.
(** the configuration after an operation *)
Definition hooks_after (o : op) (hk : hooks) : hooks :=
  match o with OInitHooks a => hooks_of_arg a | _ => hk end.

Section Ops.
  Variable oracle : nat → bool.

  Lemma tr_ok_array_for_each_loop fuel : ∀ e, tr_ok (array_for_each_loop fuel e).
  Proof. induction fuel as [|f IH]; intros e; cbn [array_for_each_loop]; tr_auto; try apply IH. Qed.
  Hint Resolve tr_ok_array_for_each_loop : tr.
  Lemma tr_ok_array_for_each a : tr_ok (array_for_each a).
  Proof. unfold array_for_each. tr_auto. Qed.
  Lemma tr_ok_build_chain n : ∀ inner, tr_ok (build_chain oracle n inner).
  Proof. induction n as [|n IH]; intros inner; cbn [build_chain]; tr_auto; try apply IH. Qed.
  Hint Resolve tr_ok_array_for_each tr_ok_build_chain : tr.

  Ltac tr_ops := repeat first [ progress unfold with_str, r_push, r_flag, r_unit | tr_step1 ].

  Lemma tr_ok_run_op_raw st o : is_init_hooks o = false → tr_ok (run_op_raw oracle st o).
  Proof.
    intros Hno. destruct o; try discriminate Hno; cbn [run_op_raw]; tr_ops.
  Qed.

  Lemma tr_ok_run_op st o : is_init_hooks o = false → tr_ok (run_op oracle st o).
  Proof.
    intros Hno. pose proof (tr_ok_run_op_raw st o Hno). unfold run_op. tr_auto.
  Qed.

  Lemma tr_ok_run_ops ops : ∀ st, forallb (fun o => negb (is_init_hooks o)) ops = true →
    tr_ok (run_ops oracle st ops).
  Proof.
    induction ops as [|o ops IH]; intros st Hno; cbn [run_ops].
    - tr_auto.
    - cbn in Hno. apply andb_true_iff in Hno as [H1 H2]. apply negb_true_iff in H1.
      pose proof (tr_ok_run_op st o H1). tr_auto. apply IH. exact H2.
  Qed.

  (** ** one operation, any operation: events follow the hooks at the time of the call *)

  (** [OInitHooks a]: no event, the configuration becomes [hooks_of_arg a], nothing else changes
      (the handles are swept, which does not touch the heap) *)
  Lemma run_op_init_hooks st a h x h' :
    run_op oracle st (OInitHooks a) h = Ret (x, h') → h' = with_hooks h (hooks_of_arg a).
  Proof.
    unfold run_op, run_op_raw, r_unit, sweep, bindM, get_heap, ret. rewrite init_hooks_run.
    intros E. inversion E. reflexivity.
  Qed.

  Lemma run_op_ext st o h x h' :
    run_op oracle st o h = Ret (x, h') →
    h_hooks h' = hooks_after o (h_hooks h) ∧ tr_ext (h_hooks h) h h'.
  Proof.
    intros E. destruct (is_init_hooks o) eqn:Hi.
    - destruct o; try discriminate Hi. apply run_op_init_hooks in E. subst h'.
      split; [reflexivity|]. split; cbn.
      + lia.
      + exists []. split; [reflexivity|]. split; [constructor|]. intros id Hid. inversion Hid.
      + apply trace_wf_with_hooks.
    - destruct (tr_ok_run_op st o Hi _ _ _ E) as [Hh Hx]. split; [|exact Hx].
      rewrite Hh. destruct o; try reflexivity. discriminate Hi.
  Qed.

  (** ** histories with hook changes: the trace splits into one segment per operation, and the
      events of each segment carry the [via] of the configuration installed by the latest
      InitHooks before that operation *)
  Fixpoint segs_ok (hk : hooks) (ops : list op) (segs : list (list event)) : Prop :=
    match ops, segs with
    | [], [] => True
    | o :: r, s :: ss => Forall (ev_via hk) s ∧ segs_ok (hooks_after o hk) r ss
    | _, _ => False
    end.
  (** segments are listed oldest operation first; inside a segment newest event first *)
  Definition trace_of_segs (segs : list (list event)) : list event := concat (rev segs).

  Lemma run_ops_segments ops : ∀ st h x h',
    run_ops oracle st ops h = Ret (x, h') →
    ∃ segs, segs_ok (h_hooks h) ops segs ∧
            h_trace h' = trace_of_segs segs ++ h_trace h ∧
            h_hooks h' = fold_left (fun hk o => hooks_after o hk) ops (h_hooks h) ∧
            h_next h ≤ h_next h' ∧
            (∀ id, id ∈ allocated (trace_of_segs segs) → h_next h ≤ id ∧ id < h_next h') ∧
            (trace_wf h → trace_wf h').
  Proof.
    induction ops as [|o ops IH]; intros st h x h' E; cbn [run_ops] in E.
    - inversion E; subst. exists []. cbn.
      split; [exact I|]. split; [reflexivity|]. split; [reflexivity|]. split; [lia|].
      split; [|auto]. intros id Hid. inversion Hid.
    - unfold bindM at 1 in E. destruct (run_op oracle st o h) as [[r1 h1]|e] eqn:E1; [|discriminate].
      unfold bindM at 1 in E. destruct (run_ops oracle (snd r1) ops h1) as [[r2 h2]|e] eqn:E2; [|discriminate].
      inversion E; subst; clear E.
      destruct (run_op_ext _ _ _ _ _ E1) as [Hh1 [N1 (s & T1 & F1 & A1) W1]].
      destruct (IH _ _ _ _ E2) as (ss & S2 & T2 & Hh2 & N2 & A2 & W2).
      exists (s :: ss). cbn [segs_ok fold_left]. rewrite <- Hh1.
      assert (Et : trace_of_segs (s :: ss) = trace_of_segs ss ++ s).
      { unfold trace_of_segs. cbn [rev]. rewrite concat_app. cbn. rewrite app_nil_r. reflexivity. }
      split; [split; assumption|]. split; [rewrite T2, T1, Et; apply app_assoc|].
      split; [exact Hh2|]. split; [lia|]. split; [|auto].
      intros id Hid. rewrite Et, allocated_app in Hid. apply elem_of_app in Hid as [Hid|Hid].
      + apply A2 in Hid. lia.
      + apply A1 in Hid. lia.
  Qed.
End Ops.

(** * the hook configurations *)

Definition ev_user (e : event) : Prop :=
  match e with EvAlloc _ v | EvFree _ v | EvFreeNull v => v = UserHook end.
Definition ev_libc (e : event) : Prop :=
  match e with EvAlloc _ v | EvFree _ v | EvFreeNull v => v = LibcFn end.
(** allocations through the user's function, releases through the C library's (only malloc_fn set) *)
Definition ev_user_alloc_libc_free (e : event) : Prop :=
  match e with EvAlloc _ v => v = UserHook | EvFree _ v | EvFreeNull v => v = LibcFn end.
Definition ev_libc_alloc_user_free (e : event) : Prop :=
  match e with EvAlloc _ v => v = LibcFn | EvFree _ v | EvFreeNull v => v = UserHook end.

Definition no_init_hooks (ops : list op) : Prop := forallb (fun o => negb (is_init_hooks o)) ops = true.

(** the shape of every statement below *)
Definition history_events (oracle : nat → bool) (P : event → Prop) (h : heap) (ops : list op) : Prop :=
  ∀ st x h', run_ops oracle st ops h = Ret (x, h') →
    h_hooks h' = h_hooks h ∧
    (∃ new, h_trace h' = new ++ h_trace h ∧ Forall P new ∧
            (∀ id, id ∈ allocated new → h_next h ≤ id ∧ id ∉ allocated (h_trace h)) ∧
            (∀ id, id ∈ freed new → id ∈ allocated (h_trace h') ∧ id ∉ freed (h_trace h) ∧ id ∉ h_live h')) ∧
    trace_wf h'.

Lemma history_events_gen oracle (P : event → Prop) h ops :
  (∀ e, ev_via (h_hooks h) e → P e) → trace_wf h → no_init_hooks ops → history_events oracle P h ops.
Proof.
  intros HP W Hno st x h' E.
  pose proof (tr_ok_run_ops oracle ops st Hno _ _ _ E) as S.
  destruct S as [Hh [N (new & T & F & A) W']]. split; [exact Hh|]. split; [|auto].
  exists new. split; [exact T|]. split; [eapply Forall_impl; eauto|].
  assert (S : tr_step h h') by (split; [exact Hh|]; split; eauto).
  split.
  - intros id Hid. split; [apply A in Hid; lia|].
    eapply tr_step_alloc_new; eauto.
  - intros id Hid. destruct (tr_step_free_once h h' new id W S T Hid) as (H1 & _ & H3 & H4). auto.
Qed.

(** both members custom *)
Lemma history_custom oracle h ops :
  trace_wf h → h_hooks h = mkHooks true true → no_init_hooks ops → history_events oracle ev_user h ops.
Proof.
  intros W Hk Hno. apply history_events_gen; auto. rewrite Hk. intros [id v|id v|v]; cbn; auto.
Qed.
(** defaults *)
Lemma history_default oracle h ops :
  trace_wf h → h_hooks h = default_hooks → no_init_hooks ops → history_events oracle ev_libc h ops.
Proof.
  intros W Hk Hno. apply history_events_gen; auto. rewrite Hk. intros [id v|id v|v]; cbn; auto.
Qed.
(** only malloc_fn custom *)
Lemma history_only_malloc oracle h ops :
  trace_wf h → h_hooks h = mkHooks true false → no_init_hooks ops →
  history_events oracle ev_user_alloc_libc_free h ops.
Proof.
  intros W Hk Hno. apply history_events_gen; auto. rewrite Hk. intros [id v|id v|v]; cbn; auto.
Qed.
(** only free_fn custom *)
Lemma history_only_free oracle h ops :
  trace_wf h → h_hooks h = mkHooks false true → no_init_hooks ops →
  history_events oracle ev_libc_alloc_user_free h ops.
Proof.
  intros W Hk Hno. apply history_events_gen; auto. rewrite Hk. intros [id v|id v|v]; cbn; auto.
Qed.
(** any configuration: the events follow [h_hooks] *)
Lemma history_any oracle h ops :
  trace_wf h → no_init_hooks ops → history_events oracle (ev_via (h_hooks h)) h ops.
Proof. intros W Hno. apply history_events_gen; auto. Qed.

(** * a boolean checker for the ledger discipline of a trace *)
Definition mem_pos (x : positive) (l : list positive) : bool := existsb (Pos.eqb x) l.
Lemma mem_pos_spec x l : mem_pos x l = true ↔ x ∈ l.
Proof.
  unfold mem_pos. rewrite existsb_exists. split.
  - intros (y & Hy & E). apply Pos.eqb_eq in E. subst. apply elem_of_list_In. exact Hy.
  - intros H. exists x. split; [apply elem_of_list_In; exact H|apply Pos.eqb_refl].
Qed.
Fixpoint tr_wf_b (tr : list event) : bool :=
  match tr with
  | [] => true
  | EvAlloc id _ :: r => negb (mem_pos id (allocated r)) && tr_wf_b r
  | EvFree id _ :: r => mem_pos id (allocated r) && negb (mem_pos id (freed r)) && tr_wf_b r
  | EvFreeNull _ :: r => tr_wf_b r
  end.
Lemma tr_wf_b_sound tr : tr_wf_b tr = true → tr_wf tr.
Proof.
  induction tr as [|[id v|id v|v] tr IH]; cbn; auto.
  - intros H. apply andb_true_iff in H as [H1 H2]. split; [|auto].
    intros Hin. apply mem_pos_spec in Hin. rewrite Hin in H1. discriminate.
  - intros H. apply andb_true_iff in H as [H H3]. apply andb_true_iff in H as [H1 H2].
    split; [apply mem_pos_spec; exact H1|]. split; [|auto].
    intros Hin. apply mem_pos_spec in Hin. rewrite Hin in H2. discriminate.
Qed.
Definition ev_user_b (e : event) : bool :=
  match e with EvAlloc _ UserHook | EvFree _ UserHook | EvFreeNull UserHook => true | _ => false end.
(** every allocated identity is released: nothing is left *)
Definition balanced_b (tr : list event) : bool :=
  forallb (fun id => mem_pos id (freed tr)) (allocated tr).

Lemma trace_wf_empty : trace_wf empty_heap.
Proof.
  split; cbn.
  - exact I.
  - intros id H. inversion H.
  - intros id H. inversion H.
  - intros id H. rewrite lookup_empty in H. discriminate.
Qed.

(** [trace_wf] is not a restriction: every heap reached from the empty heap by any history
    (hook changes included, any failure schedule) satisfies it *)
Lemma reachable_trace_wf oracle ops st x h :
  run_ops oracle st ops empty_heap = Ret (x, h) → trace_wf h.
Proof.
  intros E. destruct (run_ops_segments oracle ops _ _ _ _ E) as (segs & _ & _ & _ & _ & _ & W).
  apply W, trace_wf_empty.
Qed.

(** * a concrete history *)
Definition no_failure : nat → bool := fun _ => false.
Definition custom_heap : heap := with_hooks empty_heap (mkHooks true true).

Definition str_name : bytes := [110; 97; 109; 101]%Z.       (* "name" *)
Definition str_value : bytes := [118; 97; 108]%Z.           (* "val" *)
(** create an object, add a string under a key (the key is copied), duplicate the object
    recursively, detach the member from the original, delete the detached member, the
    original and the copy *)
Definition demo_ops : list op :=
  [ OCreateObject;                                            (* item 0 *)
    OAddStringToObject (IH 0) (SLit str_name) (SLit str_value);  (* item 1 *)
    ODuplicate (IH 0) true;                                   (* item 2 *)
    ODetachItemFromObject (IH 0) (SPool 0);                   (* item 3 = item 1 *)
    ODelete (IH 3);
    ODelete (IH 0);
    ODelete (IH 2);
    OFree SNull ].

Definition demo_run : out (list result * state * heap) := run_ops no_failure empty_state demo_ops custom_heap.
Definition demo_trace : list event :=
  match demo_run with Ret (_, h) => h_trace h | Err _ => [] end.

Definition demo_trace_expected : list event :=
  [ EvFreeNull UserHook;
    EvFree 7 UserHook; EvFree 8 UserHook; EvFree 10 UserHook; EvFree 9 UserHook;   (* the copy *)
    EvFree 1 UserHook;                                                              (* the original *)
    EvFree 4 UserHook; EvFree 6 UserHook; EvFree 5 UserHook;                        (* the detached member: value, key, node *)
    EvAlloc 10 UserHook; EvAlloc 9 UserHook; EvAlloc 8 UserHook; EvAlloc 7 UserHook;
    EvAlloc 6 UserHook; EvAlloc 5 UserHook; EvAlloc 4 UserHook; EvAlloc 1 UserHook ].

Lemma demo_hyps : trace_wf custom_heap ∧ h_hooks custom_heap = mkHooks true true ∧ no_init_hooks demo_ops.
Proof.
  split; [apply trace_wf_with_hooks, trace_wf_empty|]. split; reflexivity.
Qed.

Lemma demo_returns : ∃ r st h, demo_run = Ret (r, st, h) ∧ h_trace h = demo_trace_expected ∧
  (* the handles after the run: all four item handles are dead *)
  st_items st = [None; None; None; None] ∧
  r = [RPtr (Some 1); RPtr (Some 4); RPtr (Some 7); RPtr (Some 4); RUnit; RUnit; RUnit; RUnit].
Proof. vm_compute. eexists _, _, _. repeat split. Qed.

Lemma demo_trace_eq : demo_trace = demo_trace_expected.
Proof. vm_compute. reflexivity. Qed.

(** all events through the user's functions; every allocated block released; ledger discipline *)
Lemma demo_checks :
  forallb ev_user_b demo_trace_expected = true ∧ balanced_b demo_trace_expected = true ∧
  tr_wf_b demo_trace_expected = true ∧ length (allocated demo_trace_expected) = 8%nat.
Proof. vm_compute. repeat split. Qed.

(** [trace_wf] of the final heap, by the general theorem (not by evaluation) *)
Lemma demo_trace_wf : ∃ r st h, demo_run = Ret (r, st, h) ∧ trace_wf h ∧ Forall ev_user (h_trace h).
Proof.
  destruct demo_returns as (r & st & h & E & T & _). exists r, st, h. split; [exact E|].
  destruct demo_hyps as (W & Hk & Hno).
  destruct (history_custom no_failure custom_heap demo_ops W Hk Hno empty_state _ _ E) as (_ & (new & T' & F & _) & W').
  split; [exact W'|]. rewrite T'. cbn. rewrite app_nil_r. exact F.
Qed.

(** a history that switches the hooks between an allocation and the release: the events follow
    the configuration at the time of each call — the block obtained from the user's function
    is handed to the C library's free (what the C code does; callers must not do this) *)
Definition switch_ops : list op :=
  [ OInitHooks (Some (true, true)); OCreateObject; OInitHooks None; ODelete (IH 0);
    OInitHooks (Some (true, false)); OCreateNull; ODelete (IH 1) ].
Lemma switch_trace : ∃ r st h, run_ops no_failure empty_state switch_ops empty_heap = Ret (r, st, h) ∧
  h_trace h = [EvFree 2 LibcFn; EvAlloc 2 UserHook; EvFree 1 LibcFn; EvAlloc 1 UserHook] ∧
  h_hooks h = mkHooks true false.
Proof. vm_compute. eexists _, _, _. repeat split. Qed.

Lemma demo_nonvacuous :
  (trace_wf custom_heap ∧ h_hooks custom_heap = mkHooks true true ∧ no_init_hooks demo_ops) ∧
  (∃ r st h, run_ops no_failure empty_state demo_ops custom_heap = Ret (r, st, h) ∧
     h_trace h = demo_trace_expected ∧
     trace_wf h ∧ Forall ev_user (h_trace h) ∧
     balanced_b (h_trace h) = true ∧ tr_wf_b (h_trace h) = true).
Proof.
  split; [exact demo_hyps|].
  destruct demo_returns as (r & st & h & E & T & _).
  destruct demo_trace_wf as (r' & st' & h'' & E' & W & F).
  rewrite E in E'. inversion E'; subst r' st' h''.
  exists r, st, h. split; [exact E|]. split; [exact T|]. split; [exact W|]. split; [exact F|].
  rewrite T. destruct demo_checks as (_ & B & C & _). split; assumption.
Qed.
