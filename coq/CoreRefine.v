(** CoreRefine.v — per-call simulation lemmas: the heap-level transliteration (CoreDefs.v) of a
    DOM API call, run on a heap [h] that encodes a forest [F] ([WF h F]), returns — never an
    [Err] outcome — what the list model (CoreSpec.v) returns, in a heap that encodes the model's
    result forest.  Shape of every lemma [f_sim]:

      WF h F -> (ownership rules, as lookups in F) ->
      spec_f F args = (F', r)  /\
      f args h = Ret (r, upd_maps h (heap_lnk_of F') (heap_dat_of F'))  /\
      WF (upd_maps h (heap_lnk_of F') (heap_dat_of F')) F'

    ([upd_maps h L D] = [h] with link map [L] and data map [D]: strings, ownership, liveness,
    allocator state and trace are unchanged by the pure edit calls).  Queries return the heap
    itself.  The proof pattern is documented in FOREST_NOTES.md, with [add_item_to_array_sim] as
    the worked example. *)
From CJ Require Import Base Dbl Heap Forest ForestLemmas CoreSpec CoreDefs CoreRefineBase.
From stdpp Require Import gmap.

Implicit Types (h : heap) (F : forest) (p x y : positive) (d : rdata).

(** * general facts *)
Lemma NoDup_roots F : NoDup (ids F) -> NoDup (roots F).
Proof.
  intros ND. rewrite <- lnk_keys_ids in ND. unfold lnk_keys in ND. by apply NoDup_app in ND as [? _].
Qed.

Global Instance flat_proper : Proper ((≡ₚ) ==> (≡ₚ)) flat.
Proof. intros F F' H. unfold flat, nodes. by rewrite H. Qed.
Global Instance roots_proper : Proper ((≡ₚ) ==> (≡ₚ)) roots.
Proof. intros F F' H. unfold roots. by rewrite H. Qed.
Global Instance ids_proper : Proper ((≡ₚ) ==> (≡ₚ)) ids.
Proof. intros F F' H. unfold ids, nodes. by rewrite H. Qed.
Lemma flat_singleton t : flat [t] = flat_t t.
Proof. rewrite flat_cons, flat_nil. apply app_nil_r. Qed.

Lemma union_insert_move {A} (m1 m2 : gmap positive A) i a :
  m1 !! i = None -> m1 ∪ <[i := a]> m2 = <[i := a]> m1 ∪ m2.
Proof. intros H. rewrite <- insert_union_r by done. by rewrite insert_union_l. Qed.

Lemma ptr_eqb_Some_ne p x : p <> x -> ptr_eqb (Some p) (Some x) = false.
Proof. intros H. cbn. by apply Pos.eqb_neq. Qed.
Lemma ptr_eqb_refl (a : ptr) : ptr_eqb a a = true.
Proof. destruct a; cbn; [apply Pos.eqb_refl|done]. Qed.

(** ** the two focus situations of the edit API *)

(** a container [p] with children [cs] somewhere in [F] *)
Lemma focus_container F p d cs :
  NoDup (ids F) -> find_tree p F = Some (T p d cs) ->
  exists FL0, flat F ≡ₚ (p, d, tid <$> cs) :: flat cs ++ FL0 /\
    forall cs', flat (set_children p cs' F) ≡ₚ (p, d, tid <$> cs') :: flat cs' ++ FL0.
Proof. intros ND H. apply find_tree_Some in H as [H _]. by apply flat_set_children. Qed.

(** a detached root [x] and a container [p] outside the tree of [x] *)
Lemma focus_root_container F x tx p d cs :
  NoDup (ids F) -> find_root x F = Some tx -> find_tree p (remove_root x F) = Some (T p d cs) ->
  exists FL0,
    tid tx = x /\ NoDup (ids (remove_root x F)) /\
    F ≡ₚ tx :: remove_root x F /\
    flat F ≡ₚ (p, d, tid <$> cs) :: flat cs ++ flat_t tx ++ FL0 /\
    forall cs', flat (set_children p cs' (remove_root x F)) ≡ₚ (p, d, tid <$> cs') :: flat cs' ++ FL0.
Proof.
  intros ND Hx Hp. destruct (find_root_split _ _ _ (NoDup_roots _ ND) Hx) as (F1 & F2 & HF & HF0).
  apply find_root_Some in Hx as [_ Hx].
  assert (HFp : F ≡ₚ tx :: remove_root x F) by (rewrite HF0, HF; by rewrite Permutation_middle).
  assert (ND0 : NoDup (ids (remove_root x F))).
  { rewrite HFp, ids_cons in ND. by apply NoDup_app in ND as (_ & _ & ?). }
  destruct (focus_container _ _ _ _ ND0 Hp) as (FL0 & E1 & E2).
  exists FL0. split_and!; [done..| |done].
  rewrite HFp at 1. rewrite flat_cons, E1. rewrite <- Permutation_middle.
  apply Permutation_skip. rewrite !app_assoc. apply Permutation_app_tail. apply Permutation_app_comm.
Qed.

(** ** lookups in a focused link map [<[x:=v]> (links ks) ∪ M0] *)
Lemma focus_left_is_Some x (v : ptr * ptr) (ks : list positive) i :
  i = x \/ i ∈ ks -> is_Some (<[x := v]> (links ks) !! i).
Proof.
  intros [->|Hi]; [by rewrite lookup_insert|].
  apply lookup_insert_is_Some'. right. by apply links_lookup_is_Some.
Qed.
Lemma focus_is_Some x (v : ptr * ptr) (ks : list positive) (M0 : gmap positive (ptr * ptr)) i :
  i = x \/ i ∈ ks -> is_Some ((<[x := v]> (links ks) ∪ M0) !! i).
Proof. intros H. apply lookup_union_is_Some. left. by apply focus_left_is_Some. Qed.
Lemma focus_lookup x (v : ptr * ptr) (ks : list positive) (M0 : gmap positive (ptr * ptr)) k c :
  NoDup ks -> ks !! k = Some c -> c <> x -> (<[x := v]> (links ks) ∪ M0) !! c = Some (link_at ks k).
Proof.
  intros ND Hk Hne. apply lookup_union_Some_l. rewrite lookup_insert_ne by done. by apply links_lookup.
Qed.
Lemma focus_lookup_x x (v : ptr * ptr) (ks : list positive) (M0 : gmap positive (ptr * ptr)) :
  (<[x := v]> (links ks) ∪ M0) !! x = Some v.
Proof. apply lookup_union_Some_l. by rewrite lookup_insert. Qed.

(** the children ids of a node of the forest are ids of the forest *)
Lemma cids_in_ids F p d (ks : list positive) k : (p, d, ks) ∈ flat F -> k ∈ ks -> k ∈ ids F.
Proof.
  intros Hn Hk. rewrite <- lnk_keys_ids. unfold lnk_keys. apply elem_of_app. right.
  apply elem_of_list_bind. exists (p, d, ks). done.
Qed.

Lemma child_of_head d (ks : list positive) c : head ks = Some c -> child_of d ks = Some c.
Proof. by destruct ks; intros [= ->]. Qed.

Lemma mk_dat_head d (ks ks' : list positive) : head ks = head ks' -> head ks <> None -> mk_dat d ks = mk_dat d ks'.
Proof. destruct ks, ks'; cbn; intros [=] ?; by subst. Qed.

(** * add_item_to_array *)
Lemma add_item_to_array_sim h F p x tx d cs :
  WF h F -> p <> x ->
  find_root x F = Some tx ->
  find_tree p (remove_root x F) = Some (T p d cs) ->
  is_ref d = false ->
  let F' := set_children p (cs ++ [tx]) (remove_root x F) in
  spec_add_to_array F (Some p) (Some x) = (F', true) /\
  add_item_to_array (Some p) (Some x) h = Ret (true, upd_maps h (heap_lnk_of F') (heap_dat_of F')) /\
  WF (upd_maps h (heap_lnk_of F') (heap_dat_of F')) F'.
Proof.
  intros W Hpx Hx Hp Href F'.
  pose proof (wf_nodup _ _ W) as ND.
  (* 1. the specification *)
  split.
  { unfold spec_add_to_array. rewrite decide_False by done. rewrite Hx. unfold children_of. by rewrite Hp. }
  (* 2. focus on the container [p] and the root [x] *)
  destruct (focus_root_container _ _ _ _ _ _ ND Hx Hp) as (FL0 & Htx & ND0 & HFp & E1 & E2).
  set (F0 := remove_root x F) in *.
  set (FL := flat cs ++ flat_t tx ++ FL0) in *.
  assert (HR : roots F ≡ₚ x :: roots F0) by (rewrite HFp; cbn; by rewrite Htx).
  assert (HFL' : flat F' ≡ₚ (p, d, (tid <$> cs) ++ [x]) :: FL).
  { unfold F'. rewrite E2. rewrite fmap_app. cbn. rewrite Htx. apply Permutation_skip.
    unfold FL. rewrite flat_app, flat_singleton. by rewrite <- !app_assoc. }
  assert (HR' : roots F' ≡ₚ roots F0) by (unfold F'; by rewrite roots_set_children).
  remember (tid <$> cs) as ks eqn:Eks. clear Eks.
  destruct (heap_lnk_of_focus _ _ _ _ _ _ ND HR E1) as [HL NDk].
  destruct (heap_dat_of_focus _ _ _ _ _ ND E1) as [HD HpFL].
  rewrite lnk_of_cons_root in HL. set (M0 := lnk_of (roots F0) FL) in *.
  assert (Hxks : x ∉ ks).
  { apply NoDup_app in NDk as (_ & H & _). intros Hin. apply (H _ Hin). unfold lnk_keys. cbn. by left. }
  assert (NDks : NoDup ks) by (by apply NoDup_app in NDk as (? & _ & _)).
  assert (Hlive : forall k, k = p \/ k = x \/ k ∈ ks -> k ∈ h_live h).
  { intros k Hk. apply (WF_ids_live _ _ _ W). destruct Hk as [->|[->|Hk]].
    - rewrite ids_flat, E1. cbn. by left.
    - apply roots_subseteq_ids. rewrite HR. by left.
    - eapply (cids_in_ids F p d ks); [|done]. rewrite E1. by left. }
  (* 3. the target maps, and WF of the target *)
  set (L' := links (ks ++ [x]) ∪ M0). set (D' := <[p := mk_dat d (ks ++ [x])]> (dat_of FL)).
  assert (W' : WF (upd_maps h L' D') F').
  { eapply (WF_refocus h _ F F' (roots F0) p d ks (ks ++ [x]) FL W E1 HR' HFL'); try done. congruence. }
  assert (heap_lnk_of F' = L') as -> by (symmetry; apply (wf_lnk _ _ W')).
  assert (heap_dat_of F' = D') as -> by (symmetry; apply (wf_dat _ _ W')).
  split; [|exact W'].
  (* 4. run the code on the focused maps *)
  rewrite <- (upd_maps_id h) at 1. rewrite (wf_lnk _ _ W), (wf_dat _ _ W), HL, HD.
  rewrite (union_insert_move _ _ _ _ (links_lookup_None _ _ Hxks)).
  unfold add_item_to_array. cbn [is_null orb]. rewrite (ptr_eqb_Some_ne _ _ Hpx).
  rewrite (run_get_child_bind _ _ _ _ _ _ (Hlive p (or_introl eq_refl)) (lookup_insert _ _ _)).
  change (nd_child (mk_dat d ks)) with (child_of d ks).
  destruct (head ks) as [c0|] eqn:Hh.
  - (* non-empty: append after the tail found through head.prev *)
    rewrite (child_of_head _ _ _ Hh). cbn [is_null].
    destruct (last ks) as [tl|] eqn:Hlast; [|apply last_None in Hlast; by subst ks].
    assert (Hc0 : c0 ∈ ks) by (by apply head_Some_elem_of).
    assert (Htl : tl ∈ ks) by (by apply last_Some_elem_of).
    assert (c0 <> x) by (intros ->; done). assert (tl <> x) by (intros ->; done).
    rewrite head_lookup in Hh.
    rewrite bindM_assoc.
    rewrite (run_get_prev_bind _ _ _ _ _ _ (Hlive c0 ltac:(auto)) (focus_lookup _ _ _ _ _ _ NDks Hh ltac:(done))).
    rewrite link_at_0. cbn [snd]. rewrite Hlast. cbn [is_null negb when].
    rewrite !bindM_assoc.
    rewrite (run_get_prev_bind _ _ _ _ _ _ (Hlive c0 ltac:(auto)) (focus_lookup _ _ _ _ _ _ NDks Hh ltac:(done))).
    rewrite link_at_0. cbn [snd]. rewrite Hlast.
    unfold suffix_object. rewrite !bindM_assoc.
    rewrite run_set_next_bind by (auto using focus_is_Some).
    rewrite run_set_prev_bind by (auto || (rewrite is_Some_upd_next; auto using focus_is_Some)).
    rewrite ?bindM_assoc.
    rewrite (run_get_child_bind _ _ _ _ _ _ (Hlive p (or_introl eq_refl)) (lookup_insert _ _ _)).
    change (nd_child (mk_dat d ks)) with (child_of d ks). rewrite <- head_lookup in Hh.
    rewrite (child_of_head _ _ _ Hh).
    rewrite run_set_prev_bind by (auto || (rewrite is_Some_upd_prev, is_Some_upd_next; auto using focus_is_Some)).
    unfold ret. do 2 f_equal. unfold L', D'. f_equal.
    + rewrite upd_next_union_l by (auto using focus_left_is_Some).
      rewrite upd_prev_union_l by (rewrite is_Some_upd_next; auto using focus_left_is_Some).
      rewrite upd_prev_union_l by (rewrite is_Some_upd_prev, is_Some_upd_next; auto using focus_left_is_Some).
      f_equal. symmetry. apply links_snoc; [|done..].
      apply NoDup_app. split_and!; [done| |apply NoDup_singleton]. intros k Hk Hk'. apply elem_of_list_singleton in Hk'. by subst.
    + f_equal. apply mk_dat_head; [|by rewrite Hh]. destruct ks; [done|reflexivity].
  - (* empty container: the item becomes the only child *)
    apply head_None in Hh. subst ks.
    assert (rd_ref d = None) as Hnoref.
    { pose proof (wf_ref _ _ W) as Hr. rewrite E1 in Hr. apply Forall_cons in Hr as [[_ Hr] _]. cbn in Hr.
      destruct (rd_ref d); [|done]. rewrite Href in Hr. by discriminate Hr. }
    cbn [child_of]. rewrite Hnoref. cbn [is_null].
    rewrite ?bindM_assoc.
    rewrite (run_set_child_bind _ _ _ _ _ _ _ (Hlive p (or_introl eq_refl)) (lookup_insert _ _ _)).
    rewrite ?bindM_assoc.
    rewrite run_set_prev_bind by (auto using focus_is_Some).
    rewrite run_set_next_bind by (auto || (rewrite is_Some_upd_prev; auto using focus_is_Some)).
    unfold ret. do 2 f_equal. unfold L', D'. f_equal.
    + rewrite links_nil, insert_empty. rewrite <- insert_union_singleton_l.
      rewrite links_singleton_stores. cbn [app]. rewrite links_singleton. by rewrite insert_union_singleton_l.
    + rewrite insert_insert. reflexivity.
Qed.


(** * queries: cJSON_GetArraySize, get_array_item *)
Lemma union_links_lookup (ks : list positive) (M0 : gmap positive (ptr * ptr)) k c :
  NoDup ks -> ks !! k = Some c -> (links ks ∪ M0) !! c = Some (link_at ks k).
Proof. intros ND Hk. apply lookup_union_Some_l. by apply links_lookup. Qed.
Lemma union_links_is_Some (ks : list positive) (M0 : gmap positive (ptr * ptr)) c :
  c ∈ ks -> is_Some ((links ks ∪ M0) !! c).
Proof. intros H. apply lookup_union_is_Some. left. by apply links_lookup_is_Some. Qed.

Lemma find_tree_flat F p d cs : find_tree p F = Some (T p d cs) -> (p, d, tid <$> cs) ∈ flat F.
Proof. intros H. apply find_tree_Some in H as [H _]. by apply (elem_of_flat _ _ H). Qed.

(** walking a children chain of a well-formed heap *)
Lemma chain_get_next h F p d (ks : list positive) k c :
  WF h F -> (p, d, ks) ∈ flat F -> ks !! k = Some c -> get_next (Some c) h = Ret (ks !! S k, h).
Proof.
  intros W Hn Hk. rewrite <- (upd_maps_id h).
  rewrite (run_get_next h _ _ c (link_at ks k)); [reflexivity| |].
  - apply (WF_ids_live _ _ _ W). eapply cids_in_ids; [done|]. by eapply elem_of_list_lookup_2.
  - cbn. by eapply WF_lookup_lnk_child.
Qed.

Lemma chain_fuel h F p d (ks : list positive) :
  WF h F -> (p, d, ks) ∈ flat F -> length ks < Pos.to_nat (h_next h).
Proof.
  intros W Hn. apply NoDup_length_lt_pos.
  - pose proof (wf_nodup _ _ W) as ND. apply elem_of_Permutation in Hn as [FL HFL].
    destruct (heap_lnk_of_focus _ _ _ _ _ _ ND (reflexivity _) HFL) as [_ HN]. by apply NoDup_app in HN as [? _].
  - intros c Hc. apply (WF_ids_fresh _ _ _ W). by eapply cids_in_ids.
Qed.

Lemma cJSON_GetArraySize_loop_sim h F p d (ks : list positive) fuel k size :
  WF h F -> (p, d, ks) ∈ flat F -> length ks - k < fuel ->
  cJSON_GetArraySize_loop fuel (ks !! k) size h = Ret ((size + Z.of_nat (length ks - k))%Z, h).
Proof.
  intros W Hn. revert k size. induction fuel as [|fuel IH]; intros k size Hf; [lia|].
  cbn [cJSON_GetArraySize_loop]. destruct (ks !! k) as [c|] eqn:Hk; cbn [is_null].
  - rewrite (bindM_Ret _ _ _ _ _ (chain_get_next _ _ _ _ _ _ _ W Hn Hk)).
    apply lookup_lt_Some in Hk. rewrite IH by lia. do 2 f_equal. lia.
  - apply lookup_ge_None in Hk. unfold ret. do 2 f_equal. lia.
Qed.

Lemma ref_ok_child_of F p d (ks : list positive) :
  Forall ref_ok (flat F) -> (p, d, ks) ∈ flat F -> is_ref d = false -> child_of d ks = ks !! 0.
Proof.
  intros HF Hn Hr. destruct ks; [|done]. cbn. rewrite Forall_forall in HF.
  destruct (HF _ Hn) as [_ H]. cbn in H. destruct (rd_ref d); [|done].
  rewrite Hr in H. by discriminate H.
Qed.
Lemma ref_ok_child_of_nonempty d (ks : list positive) c : ks !! 0 = Some c -> child_of d ks = Some c.
Proof. by destruct ks; intros [= ->]. Qed.

Lemma cJSON_GetArraySize_sim h F p d cs :
  WF h F -> find_tree p F = Some (T p d cs) -> is_ref d = false ->
  cJSON_GetArraySize (Some p) h = Ret (spec_get_size F (Some p), h).
Proof.
  intros W Hp Href. pose proof (find_tree_flat _ _ _ _ Hp) as Hn.
  unfold spec_get_size, children_of. rewrite Hp. cbn [fmap option_fmap option_map tchildren].
  unfold cJSON_GetArraySize. cbn [is_null].
  rewrite <- (upd_maps_id h) at 1.
  erewrite run_get_child_bind; [| |by eapply WF_lookup_dat].
  2:{ apply (WF_ids_live _ _ _ W). rewrite ids_flat. apply elem_of_list_fmap. by exists (p, d, tid <$> cs). }
  rewrite upd_maps_id. change (nd_child (mk_dat d (tid <$> cs))) with (child_of d (tid <$> cs)).
  rewrite (ref_ok_child_of _ _ _ _ (wf_ref _ _ W) Hn Href).
  unfold heap_fuel. unfold bindM at 1.
  rewrite (cJSON_GetArraySize_loop_sim _ _ _ _ _ _ 0 0 W Hn).
  - rewrite fmap_length. do 2 f_equal. lia.
  - pose proof (chain_fuel _ _ _ _ _ W Hn). lia.
Qed.
Lemma cJSON_GetArraySize_null F h : cJSON_GetArraySize None h = Ret (spec_get_size F None, h).
Proof. reflexivity. Qed.

Lemma get_array_item_loop_sim h F p d (ks : list positive) fuel k index :
  WF h F -> (p, d, ks) ∈ flat F -> length ks - k < fuel -> (0 <= index)%Z ->
  get_array_item_loop fuel (ks !! k) index h = Ret (ks !! (k + Z.to_nat index), h).
Proof.
  intros W Hn. revert k index. induction fuel as [|fuel IH]; intros k index Hf Hi; [lia|].
  cbn [get_array_item_loop]. destruct (ks !! k) as [c|] eqn:Hk; cbn [is_null negb andb].
  - destruct (Z.ltb_spec 0 index) as [Hlt|Hge].
    + rewrite (bindM_Ret _ _ _ _ _ (chain_get_next _ _ _ _ _ _ _ W Hn Hk)).
      apply lookup_lt_Some in Hk. rewrite IH by lia. do 3 f_equal. lia.
    + assert (index = 0%Z) as -> by lia. unfold ret. rewrite Nat.add_0_r. by rewrite Hk.
  - unfold ret. do 2 f_equal. symmetry. apply lookup_ge_None. apply lookup_ge_None in Hk. lia.
Qed.

Lemma get_array_item_sim h F p d cs index :
  WF h F -> find_tree p F = Some (T p d cs) -> is_ref d = false -> (0 <= index)%Z ->
  get_array_item (Some p) index h = Ret (spec_get_index F (Some p) index, h).
Proof.
  intros W Hp Href Hi. pose proof (find_tree_flat _ _ _ _ Hp) as Hn.
  unfold spec_get_index, children_of. rewrite Hp. cbn [fmap option_fmap option_map tchildren].
  unfold get_array_item. cbn [is_null].
  rewrite <- (upd_maps_id h) at 1.
  erewrite run_get_child_bind; [| |by eapply WF_lookup_dat].
  2:{ apply (WF_ids_live _ _ _ W). rewrite ids_flat. apply elem_of_list_fmap. by exists (p, d, tid <$> cs). }
  rewrite upd_maps_id. change (nd_child (mk_dat d (tid <$> cs))) with (child_of d (tid <$> cs)).
  rewrite (ref_ok_child_of _ _ _ _ (wf_ref _ _ W) Hn Href).
  unfold heap_fuel. unfold bindM at 1.
  rewrite (get_array_item_loop_sim _ _ _ _ _ _ 0 index W Hn); [done| |done].
  pose proof (chain_fuel _ _ _ _ _ W Hn). lia.
Qed.
Lemma get_array_item_null F index h : get_array_item None index h = Ret (spec_get_index F None index, h).
Proof. reflexivity. Qed.

Lemma cJSON_GetArrayItem_sim h F p d cs index :
  WF h F -> find_tree p F = Some (T p d cs) -> is_ref d = false ->
  cJSON_GetArrayItem (Some p) index h = Ret (spec_get_array_item F (Some p) index, h).
Proof.
  intros W Hp Href. unfold cJSON_GetArrayItem, spec_get_array_item.
  destruct (Z.ltb_spec index 0); [done|]. by eapply get_array_item_sim.
Qed.

Ltac mn := cbv beta; rewrite ?bindM_assoc; cbv beta.

(** * cJSON_DetachItemViaPointer *)
Lemma index_of_lookup (l : list positive) k x : NoDup l -> l !! k = Some x -> index_of x l = Some k.
Proof.
  revert k. induction l as [|a l IH]; intros k ND Hk; [done|]. apply NoDup_cons in ND as [Ha ND].
  cbn. destruct k as [|k]; cbn in Hk.
  - injection Hk as ->. by rewrite decide_True.
  - rewrite decide_False; [by rewrite (IH k)|]. intros ->. apply Ha. by eapply elem_of_list_lookup_2.
Qed.
Lemma index_of_Some (l : list positive) k x : index_of x l = Some k -> l !! k = Some x.
Proof.
  revert k. induction l as [|a l IH]; intros k H; [done|]. cbn in H.
  destruct (decide (a = x)) as [->|Hne]; [by injection H as <-|].
  destruct (index_of x l) as [k'|]; [|done]. injection H as <-. by apply IH.
Qed.

(** resetting both fields of a present entry *)
Lemma upd_next_prev_reset i a b (m : gmap positive (ptr * ptr)) :
  is_Some (m !! i) -> upd_next i a (upd_prev i b m) = <[i := (a, b)]> m.
Proof.
  intros [e He]. apply map_eq. intros j. unfold upd_next, upd_prev. destruct (decide (i = j)) as [->|Hne].
  - by rewrite !lookup_alter, lookup_insert, He.
  - by rewrite !lookup_alter_ne, lookup_insert_ne.
Qed.

Lemma cJSON_DetachItemViaPointer_sim h F p x d cs k tx :
  WF h F ->
  find_tree p F = Some (T p d cs) -> cs !! k = Some tx -> tid tx = x ->
  let F' := set_children p (delete k cs) F ++ [tx] in
  spec_detach F (Some p) (Some x) = (F', Some x) /\
  cJSON_DetachItemViaPointer (Some p) (Some x) h = Ret (Some x, upd_maps h (heap_lnk_of F') (heap_dat_of F')) /\
  WF (upd_maps h (heap_lnk_of F') (heap_dat_of F')) F'.
Proof.
  intros W Hp Hk Htx F'.
  pose proof (wf_nodup _ _ W) as ND.
  (* 2. focus on the container *)
  destruct (focus_container _ _ _ _ ND Hp) as (FL0 & E1 & E2).
  set (FL := flat cs ++ FL0) in *.
  assert (HFL' : flat F' ≡ₚ (p, d, delete k (tid <$> cs)) :: FL).
  { unfold F'. rewrite flat_app, flat_singleton, E2. rewrite list_fmap_delete. cbn. apply Permutation_skip.
    unfold FL. rewrite (delete_Permutation cs k tx Hk) at 2. rewrite flat_cons.
    rewrite <- !app_assoc. rewrite (Permutation_app_comm (flat_t tx)). by rewrite <- !app_assoc. }
  assert (HR' : roots F' ≡ₚ x :: roots F).
  { unfold F'. rewrite roots_app, roots_set_children. cbn. rewrite Htx. by rewrite <- Permutation_cons_append. }
  assert (Hkx : (tid <$> cs) !! k = Some x) by (by rewrite list_lookup_fmap, Hk; cbn; rewrite Htx).
  remember (tid <$> cs) as ks eqn:Eks.
  destruct (heap_lnk_of_focus _ _ _ _ _ _ ND (reflexivity _) E1) as [HL NDk].
  destruct (heap_dat_of_focus _ _ _ _ _ ND E1) as [HD HpFL].
  set (M0 := lnk_of (roots F) FL) in *.
  assert (NDks : NoDup ks) by (by apply NoDup_app in NDk as (? & _ & _)).
  (* 1. the specification *)
  split.
  { unfold spec_detach, children_of. rewrite Hp. cbn [fmap option_fmap option_map tchildren].
    rewrite <- Eks. rewrite (index_of_lookup _ _ _ NDks Hkx). by rewrite Hk. }
  clear Eks.
  assert (Hlive : forall c, c = p \/ c ∈ ks -> c ∈ h_live h).
  { intros c Hc. apply (WF_ids_live _ _ _ W). destruct Hc as [->|Hc].
    - rewrite ids_flat, E1. cbn. by left.
    - eapply (cids_in_ids F p d ks); [|done]. rewrite E1. by left. }
  assert (Hxks : x ∈ ks) by (by eapply elem_of_list_lookup_2).
  assert (Hxdel : x ∉ delete k ks).
  { intros Hin. apply elem_of_list_lookup in Hin as [j Hj].
    destruct (decide (j < k)).
    - rewrite lookup_delete_lt in Hj by done. pose proof (NoDup_lookup _ _ _ _ NDks Hj Hkx). lia.
    - rewrite lookup_delete_ge in Hj by lia. pose proof (NoDup_lookup _ _ _ _ NDks Hj Hkx). lia. }
  assert (HM0x : M0 !! x = None).
  { apply lnk_of_lookup_None. apply NoDup_app in NDk as (_ & H & _). by apply H. }
  assert (Hnoref : rd_ref d = None).
  { pose proof (wf_ref _ _ W) as Hr. rewrite E1 in Hr. apply Forall_cons in Hr as [[Hr1 Hr2] _]. cbn in *.
    destruct (rd_ref d); [|done]. rewrite Hr1 in Hkx by auto. done. }
  (* 3. the target maps, and WF of the target *)
  set (L' := <[x := (None, None)]> (links (delete k ks)) ∪ M0).
  set (D' := <[p := mk_dat d (delete k ks)]> (dat_of FL)).
  assert (W' : WF (upd_maps h L' D') F').
  { eapply (WF_refocus h _ F F' (x :: roots F) p d ks (delete k ks) FL W E1 HR' HFL'); try done.
    - pose proof (wf_ref _ _ W) as Hr. rewrite E1 in Hr. apply Forall_cons in Hr as [[Hr1 _] _]. cbn in *.
      intros Hd. by rewrite (Hr1 Hd).
    - change (h_lnk (upd_maps h L' D')) with L'. unfold L'. rewrite lnk_of_cons_root. fold M0. symmetry.
      apply union_insert_move. by apply links_lookup_None. }
  assert (heap_lnk_of F' = L') as -> by (symmetry; apply (wf_lnk _ _ W')).
  assert (heap_dat_of F' = D') as -> by (symmetry; apply (wf_dat _ _ W')).
  split; [|exact W'].
  (* 4. run the code *)
  rewrite <- (upd_maps_id h) at 1. rewrite (wf_lnk _ _ W), (wf_dat _ _ W), HL, HD.
  unfold cJSON_DetachItemViaPointer. cbn [is_null orb].
  rewrite (run_get_child_bind _ _ _ _ _ _ (Hlive p (or_introl eq_refl)) (lookup_insert _ _ _)).
  change (nd_child (mk_dat d ks)) with (child_of d ks).
  assert (Hlx : x ∈ h_live h) by auto.
  assert (Hlp : p ∈ h_live h) by auto.
  pose proof (union_links_lookup ks M0 k x NDks Hkx) as HLx.
  destruct k as [|k'].
  - (* the item is the first child *)
    rewrite (ref_ok_child_of_nonempty d ks x Hkx). rewrite ptr_eqb_refl. cbn [negb]. rewrite bindM_ret.
    rewrite (run_get_child_bind _ _ _ _ _ _ Hlp (lookup_insert _ _ _)).
    change (nd_child (mk_dat d ks)) with (child_of d ks). rewrite (ref_ok_child_of_nonempty d ks x Hkx).
    rewrite ptr_eqb_refl. cbn [negb when]. rewrite bindM_ret.
    rewrite (run_get_next_bind _ _ _ _ _ _ Hlx HLx). rewrite link_at_0. cbn [fst].
    destruct ks as [|x' l']; [done|]. injection Hkx as ->.
    pose proof (links_delete_head x l' NDks) as Hdel. change (delete 0 (x :: l')) with l' in *.
    destruct l' as [|n' l''].
    + (* it is the only child *)
      cbn [lookup list_lookup is_null negb when]. rewrite bindM_ret.
      rewrite (run_get_child_bind _ _ _ _ _ _ Hlp (lookup_insert _ _ _)).
      cbn [nd_child mk_dat child_of]. rewrite ptr_eqb_refl.
      rewrite ?bindM_assoc. rewrite (run_get_next_bind _ _ _ _ _ _ Hlx HLx). rewrite link_at_0. cbn [fst lookup list_lookup].
      rewrite (run_set_child_bind _ _ _ _ _ _ _ Hlp (lookup_insert _ _ _)).
      rewrite run_set_prev_bind by (auto using union_links_is_Some).
      rewrite run_set_next_bind by (auto || (rewrite is_Some_upd_prev; auto using union_links_is_Some)).
      unfold ret. do 2 f_equal. unfold L', D'. f_equal.
      * rewrite upd_next_prev_reset by (auto using union_links_is_Some).
        rewrite insert_union_l. f_equal. rewrite Hdel. by rewrite insert_delete_insert.
      * rewrite insert_insert. f_equal. unfold nd_set_child, mk_dat. cbn. by rewrite Hnoref.
    + (* at least two children: the new head inherits head.prev = tail *)
      assert (n' <> x) by (intros ->; apply Hxdel; by left).
      assert (Hn'ks : n' ∈ x :: n' :: l'') by (right; by left).
      remember (x :: n' :: l'') as ks eqn:Eks.
      assert (Hk1 : ks !! 1 = Some n') by (by subst ks).
      rewrite Hk1. cbn [is_null negb when]. rewrite ?bindM_assoc.
      rewrite (run_get_next_bind _ _ _ _ _ _ Hlx HLx). rewrite link_at_0. cbn [fst snd]. rewrite Hk1. mn.
      rewrite (run_get_prev_bind _ _ _ _ _ _ Hlx HLx). rewrite link_at_0. cbn [fst snd]. mn.
      rewrite run_set_prev_bind by (auto using union_links_is_Some).
      rewrite (run_get_child_bind _ _ _ _ _ _ Hlp (lookup_insert _ _ _)).
      change (nd_child (mk_dat d ks)) with (child_of d ks).
      rewrite (ref_ok_child_of_nonempty d ks x) by (by subst ks).
      rewrite ptr_eqb_refl. rewrite ?bindM_assoc.
      rewrite (run_get_next_bind _ _ _ _ _ (link_at ks 0) Hlx) by (by rewrite lookup_upd_prev_ne).
      rewrite link_at_0. cbn [fst]. rewrite Hk1.
      rewrite (run_set_child_bind _ _ _ _ _ _ _ Hlp (lookup_insert _ _ _)).
      rewrite run_set_prev_bind by (auto || (rewrite is_Some_upd_prev; auto using union_links_is_Some)).
      rewrite run_set_next_bind by (auto || (rewrite !is_Some_upd_prev; auto using union_links_is_Some)).
      unfold ret. do 2 f_equal. unfold L', D'. f_equal.
      * rewrite upd_next_prev_reset by (rewrite is_Some_upd_prev; auto using union_links_is_Some).
        rewrite upd_prev_union_l by (by apply links_lookup_is_Some).
        rewrite insert_union_l. f_equal. rewrite Hdel. by rewrite insert_delete_insert.
      * rewrite insert_insert. f_equal.
  - (* the item is not the first child *)
    destruct (ks !! 0) as [c0|] eqn:Hc0; [|apply lookup_ge_None in Hc0; apply lookup_lt_Some in Hkx; lia].
    destruct (ks !! k') as [pv|] eqn:Hpv; [|apply lookup_ge_None in Hpv; apply lookup_lt_Some in Hkx; lia].
    assert (c0 <> x) by (eapply (NoDup_lookup_ne ks 0 (S k')); eauto).
    assert (pv <> x) by (eapply (NoDup_lookup_ne ks k' (S k')); eauto; lia).
    assert (Hc0ks : c0 ∈ ks) by (by eapply elem_of_list_lookup_2).
    assert (Hpvks : pv ∈ ks) by (by eapply elem_of_list_lookup_2).
    assert (Hchild : child_of d ks = Some c0) by (by apply ref_ok_child_of_nonempty).
    assert (Hdat : mk_dat d (delete (S k') ks) = mk_dat d ks).
    { apply mk_dat_head; [|by rewrite head_lookup, lookup_delete_lt by lia; rewrite Hc0].
      rewrite !head_lookup. by rewrite lookup_delete_lt by lia. }
    rewrite Hchild. rewrite (ptr_eqb_Some_ne x c0) by done. cbn [negb]. mn.
    rewrite (run_get_prev_bind _ _ _ _ _ _ Hlx HLx). rewrite link_at_S. cbn [fst snd]. rewrite Hpv.
    cbn [is_null]. rewrite bindM_ret.
    rewrite (run_get_child_bind _ _ _ _ _ _ Hlp (lookup_insert _ _ _)).
    change (nd_child (mk_dat d ks)) with (child_of d ks). rewrite Hchild.
    rewrite (ptr_eqb_Some_ne x c0) by done. cbn [negb when]. mn.
    rewrite (run_get_prev_bind _ _ _ _ _ _ Hlx HLx). rewrite link_at_S. cbn [fst snd]. rewrite Hpv. mn.
    rewrite (run_get_next_bind _ _ _ _ _ _ Hlx HLx). rewrite link_at_S. cbn [fst snd]. mn.
    rewrite run_set_next_bind by (auto using union_links_is_Some).
    rewrite (run_get_next_bind _ _ _ _ _ (link_at ks (S k')) Hlx) by (by rewrite lookup_upd_next_ne).
    rewrite link_at_S. cbn [fst snd].
    destruct (ks !! S (S k')) as [n'|] eqn:Hn.
    + (* a middle child *)
      assert (n' <> x) by (eapply (NoDup_lookup_ne ks (S (S k')) (S k')); eauto).
      assert (Hn'ks : n' ∈ ks) by (by eapply elem_of_list_lookup_2).
      cbn [is_null negb when]. mn.
      rewrite (run_get_next_bind _ _ _ _ _ (link_at ks (S k')) Hlx) by (by rewrite lookup_upd_next_ne).
      rewrite link_at_S. cbn [fst snd]. rewrite Hn. mn.
      rewrite (run_get_prev_bind _ _ _ _ _ (link_at ks (S k')) Hlx) by (by rewrite lookup_upd_next_ne).
      rewrite link_at_S. cbn [fst snd]. rewrite Hpv. mn.
      rewrite run_set_prev_bind by (auto || (rewrite is_Some_upd_next; auto using union_links_is_Some)).
      rewrite (run_get_child_bind _ _ _ _ _ _ Hlp (lookup_insert _ _ _)).
      change (nd_child (mk_dat d ks)) with (child_of d ks). rewrite Hchild.
      rewrite (ptr_eqb_Some_ne x c0) by done. mn.
      rewrite (run_get_next_bind _ _ _ _ _ (link_at ks (S k')) Hlx)
        by (by rewrite lookup_upd_prev_ne, lookup_upd_next_ne).
      rewrite link_at_S. cbn [fst snd]. rewrite Hn. cbn [is_null when]. rewrite bindM_ret.
      rewrite run_set_prev_bind
        by (auto || (rewrite is_Some_upd_prev, is_Some_upd_next; auto using union_links_is_Some)).
      rewrite run_set_next_bind
        by (auto || (rewrite !is_Some_upd_prev, is_Some_upd_next; auto using union_links_is_Some)).
      unfold ret. do 2 f_equal. unfold L', D'. f_equal.
      * rewrite upd_next_prev_reset by (rewrite is_Some_upd_prev, is_Some_upd_next; auto using union_links_is_Some).
        rewrite upd_next_union_l by (by apply links_lookup_is_Some).
        rewrite upd_prev_union_l by (rewrite is_Some_upd_next; by apply links_lookup_is_Some).
        rewrite insert_union_l. f_equal.
        rewrite (links_delete_mid ks (S k') x pv n' NDks Hkx ltac:(lia) Hpv Hn).
        by rewrite insert_delete_insert.
      * by rewrite Hdat.
    + (* the last child: head.prev must designate the new tail *)
      cbn [is_null negb when]. rewrite bindM_ret.
      rewrite (run_get_child_bind _ _ _ _ _ _ Hlp (lookup_insert _ _ _)).
      change (nd_child (mk_dat d ks)) with (child_of d ks). rewrite Hchild.
      rewrite (ptr_eqb_Some_ne x c0) by done. mn.
      rewrite (run_get_next_bind _ _ _ _ _ (link_at ks (S k')) Hlx) by (by rewrite lookup_upd_next_ne).
      rewrite link_at_S. cbn [fst snd]. rewrite Hn. cbn [is_null when]. mn.
      rewrite (run_get_child_bind _ _ _ _ _ _ Hlp (lookup_insert _ _ _)).
      change (nd_child (mk_dat d ks)) with (child_of d ks). rewrite Hchild. mn.
      rewrite (run_get_prev_bind _ _ _ _ _ (link_at ks (S k')) Hlx) by (by rewrite lookup_upd_next_ne).
      rewrite link_at_S. cbn [fst snd]. rewrite Hpv.
      rewrite run_set_prev_bind by (auto || (rewrite is_Some_upd_next; auto using union_links_is_Some)).
      rewrite run_set_prev_bind
        by (auto || (rewrite is_Some_upd_prev, is_Some_upd_next; auto using union_links_is_Some)).
      rewrite run_set_next_bind
        by (auto || (rewrite !is_Some_upd_prev, is_Some_upd_next; auto using union_links_is_Some)).
      unfold ret. do 2 f_equal. unfold L', D'. f_equal.
      * rewrite upd_next_prev_reset by (rewrite is_Some_upd_prev, is_Some_upd_next; auto using union_links_is_Some).
        rewrite upd_next_union_l by (by apply links_lookup_is_Some).
        rewrite upd_prev_union_l by (rewrite is_Some_upd_next; by apply links_lookup_is_Some).
        rewrite insert_union_l. f_equal.
        rewrite (links_delete_last ks (S k') x pv c0 NDks Hkx ltac:(lia) Hpv Hn) by (by rewrite head_lookup).
        by rewrite insert_delete_insert.
      * by rewrite Hdat.
Qed.

Local Open Scope Z_scope.

(** * cJSON_InsertItemInArray *)
Lemma find_tree_remove_root F x tx p n :
  NoDup (ids F) -> find_root x F = Some tx -> find_tree p (remove_root x F) = Some n -> find_tree p F = Some n.
Proof.
  intros ND Hx Hp. destruct (find_root_split _ _ _ (NoDup_roots _ ND) Hx) as (F1 & F2 & HF & HF0).
  apply find_tree_Some in Hp as [Hn Hp]. apply find_tree_unique; [done| |done].
  rewrite HF0 in Hn. rewrite HF. rewrite nodes_app in *. rewrite nodes_cons.
  apply elem_of_app in Hn as [Hn|Hn]; apply elem_of_app; [by left|right]. apply elem_of_app. by right.
Qed.

Lemma fmap_insert_at {A B} (f : A -> B) (k : nat) (a : A) (l : list A) :
  f <$> insert_at k a l = insert_at k (f a) (f <$> l).
Proof. unfold insert_at. by rewrite fmap_app, fmap_cons, fmap_take, fmap_drop. Qed.

Lemma insert_at_not_head {A} (k : nat) (a : A) (l : list A) :
  k <> 0%nat -> l <> [] -> head (insert_at k a l) = head l.
Proof. intros Hk Hl. unfold insert_at. destruct k; [done|]. by destruct l. Qed.

Lemma cJSON_InsertItemInArray_sim_append h F p x tx d cs which :
  WF h F -> p <> x ->
  find_root x F = Some tx ->
  find_tree p (remove_root x F) = Some (T p d cs) ->
  is_ref d = false -> 0 <= which -> (length cs <= Z.to_nat which)%nat ->
  let F' := set_children p (cs ++ [tx]) (remove_root x F) in
  spec_insert F (Some p) which (Some x) = (F', true) /\
  cJSON_InsertItemInArray (Some p) which (Some x) h = Ret (true, upd_maps h (heap_lnk_of F') (heap_dat_of F')) /\
  WF (upd_maps h (heap_lnk_of F') (heap_dat_of F')) F'.
Proof.
  intros W Hpx Hx Hp Href Hw Hlen F'.
  pose proof (find_tree_remove_root _ _ _ _ _ (wf_nodup _ _ W) Hx Hp) as HpF.
  destruct (add_item_to_array_sim h F p x tx d cs W Hpx Hx Hp Href) as (S1 & S2 & S3).
  assert (Hidx : spec_get_index F (Some p) which = None).
  { unfold spec_get_index, children_of. rewrite HpF. cbn. apply lookup_ge_None. by rewrite fmap_length. }
  split; [|split; [|exact S3]].
  - unfold spec_insert. destruct (Z.ltb_spec which 0); [lia|]. cbn [orb].
    rewrite bool_decide_eq_false_2 by congruence. by rewrite Hidx.
  - unfold cJSON_InsertItemInArray. destruct (Z.ltb_spec which 0); [lia|]. cbn [orb is_null].
    rewrite (ptr_eqb_Some_ne _ _ Hpx).
    rewrite (bindM_Ret _ _ _ _ _ (get_array_item_sim h F p d cs which W HpF Href Hw)).
    rewrite Hidx. cbn [is_null]. exact S2.
Qed.

Lemma cJSON_InsertItemInArray_sim_before h F p x tx d cs which :
  WF h F -> p <> x ->
  find_root x F = Some tx ->
  find_tree p (remove_root x F) = Some (T p d cs) ->
  is_ref d = false -> 0 <= which -> (Z.to_nat which < length cs)%nat ->
  let F' := set_children p (insert_at (Z.to_nat which) tx cs) (remove_root x F) in
  spec_insert F (Some p) which (Some x) = (F', true) /\
  cJSON_InsertItemInArray (Some p) which (Some x) h = Ret (true, upd_maps h (heap_lnk_of F') (heap_dat_of F')) /\
  WF (upd_maps h (heap_lnk_of F') (heap_dat_of F')) F'.
Proof.
  intros W Hpx Hx Hp Href Hw Hlen F'.
  pose proof (wf_nodup _ _ W) as ND.
  pose proof (find_tree_remove_root _ _ _ _ _ ND Hx Hp) as HpF.
  set (k := Z.to_nat which) in *.
  (* 2. focus *)
  destruct (focus_root_container _ _ _ _ _ _ ND Hx Hp) as (FL0 & Htx & ND0 & HFp & E1 & E2).
  set (F0 := remove_root x F) in *.
  set (FL := flat cs ++ flat_t tx ++ FL0) in *.
  assert (HR : roots F ≡ₚ x :: roots F0) by (rewrite HFp; cbn; by rewrite Htx).
  assert (HFL' : flat F' ≡ₚ (p, d, insert_at k x (tid <$> cs)) :: FL).
  { unfold F'. rewrite E2. rewrite fmap_insert_at, Htx. apply Permutation_skip.
    unfold FL. rewrite insert_at_perm, flat_cons. rewrite <- !app_assoc.
    rewrite !app_assoc. apply Permutation_app_tail. apply Permutation_app_comm. }
  assert (HR' : roots F' ≡ₚ roots F0) by (unfold F'; by rewrite roots_set_children).
  assert (Hidx : spec_get_index F (Some p) which = (tid <$> cs) !! k).
  { unfold spec_get_index, children_of. rewrite HpF. reflexivity. }
  assert (Hlen' : (k < length (tid <$> cs))%nat) by (by rewrite fmap_length).
  remember (tid <$> cs) as ks eqn:Eks.
  destruct (ks !! k) as [a|] eqn:Ha; [|apply lookup_ge_None in Ha; lia].
  (* 1. the specification *)
  split.
  { unfold spec_insert. destruct (Z.ltb_spec which 0); [lia|]. cbn [orb].
    rewrite bool_decide_eq_false_2 by congruence. rewrite Hidx. rewrite Hx. unfold children_of. fold F0. by rewrite Hp. }
  clear Eks.
  destruct (heap_lnk_of_focus _ _ _ _ _ _ ND HR E1) as [HL NDk].
  destruct (heap_dat_of_focus _ _ _ _ _ ND E1) as [HD HpFL].
  rewrite lnk_of_cons_root in HL. set (M0 := lnk_of (roots F0) FL) in *.
  assert (Hxks : x ∉ ks).
  { apply NoDup_app in NDk as (_ & H & _). intros Hin. apply (H _ Hin). unfold lnk_keys. cbn. by left. }
  assert (NDks : NoDup ks) by (by apply NoDup_app in NDk as (? & _ & _)).
  assert (NDxks : NoDup (x :: ks)) by (by apply NoDup_cons).
  assert (Hlive : forall c, c = p \/ c = x \/ c ∈ ks -> c ∈ h_live h).
  { intros c Hc. apply (WF_ids_live _ _ _ W). destruct Hc as [->|[->|Hc]].
    - rewrite ids_flat, E1. cbn. by left.
    - apply roots_subseteq_ids. rewrite HR. by left.
    - eapply (cids_in_ids F p d ks); [|done]. rewrite E1. by left. }
  assert (Hlx : x ∈ h_live h) by auto. assert (Hlp : p ∈ h_live h) by auto.
  assert (Haks : a ∈ ks) by (by eapply elem_of_list_lookup_2).
  assert (Hax : a <> x) by (intros ->; done).
  destruct (ks !! 0%nat) as [c0|] eqn:Hc0; [|apply lookup_ge_None in Hc0; lia].
  assert (Hchild : child_of d ks = Some c0) by (by apply ref_ok_child_of_nonempty).
  (* 3. the target *)
  set (L' := links (insert_at k x ks) ∪ M0). set (D' := <[p := mk_dat d (insert_at k x ks)]> (dat_of FL)).
  assert (W' : WF (upd_maps h L' D') F').
  { eapply (WF_refocus h _ F F' (roots F0) p d ks (insert_at k x ks) FL W E1 HR' HFL'); try done. congruence. }
  assert (heap_lnk_of F' = L') as -> by (symmetry; apply (wf_lnk _ _ W')).
  assert (heap_dat_of F' = D') as -> by (symmetry; apply (wf_dat _ _ W')).
  split; [|exact W'].
  (* 4. run the code *)
  unfold cJSON_InsertItemInArray. destruct (Z.ltb_spec which 0); [lia|]. cbn [orb is_null].
  rewrite (ptr_eqb_Some_ne _ _ Hpx).
  rewrite (bindM_Ret _ _ _ _ _ (get_array_item_sim h F p d cs which W HpF Href Hw)).
  rewrite Hidx. cbn [is_null].
  rewrite <- (upd_maps_id h) at 1. rewrite (wf_lnk _ _ W), (wf_dat _ _ W), HL, HD.
  rewrite (union_insert_move _ _ _ _ (links_lookup_None _ _ Hxks)).
  rewrite (run_get_child_bind _ _ _ _ _ _ Hlp (lookup_insert _ _ _)).
  change (nd_child (mk_dat d ks)) with (child_of d ks). rewrite Hchild.
  pose proof (focus_lookup x (None, None) ks M0 k a NDks Ha Hax) as HLa.
  assert (HLx0 : is_Some (<[x:=(None, None)]> (links ks) !! x)) by (apply focus_left_is_Some; auto).
  destruct (decide (k = 0%nat)) as [Hk0|Hk0].
  - (* before the first child *)
    rewrite Hk0 in *. assert (a = c0) as -> by congruence.
    rewrite ptr_eqb_refl. cbn [negb]. rewrite bindM_ret.
    rewrite run_set_next_bind by (auto using focus_is_Some).
    rewrite (run_get_prev_bind _ _ _ _ c0 (link_at ks 0) (Hlive c0 ltac:(auto))) by (by rewrite lookup_upd_next_ne).
    rewrite link_at_0. cbn [snd].
    rewrite run_set_prev_bind by (auto || (rewrite is_Some_upd_next; auto using focus_is_Some)).
    rewrite run_set_prev_bind by (auto || (rewrite is_Some_upd_prev, is_Some_upd_next; auto using focus_is_Some)).
    rewrite (run_get_child_bind _ _ _ _ _ _ Hlp (lookup_insert _ _ _)).
    change (nd_child (mk_dat d ks)) with (child_of d ks). rewrite Hchild. rewrite ptr_eqb_refl.
    rewrite (run_set_child_bind _ _ _ _ _ _ _ Hlp (lookup_insert _ _ _)).
    unfold ret. do 2 f_equal. unfold L', D'. rewrite Hk0, insert_at_0. f_equal.
    + rewrite upd_next_union_l by done.
      rewrite upd_prev_union_l by (by rewrite is_Some_upd_next).
      rewrite upd_prev_next_insert.
      rewrite upd_prev_union_l by (apply focus_left_is_Some; auto).
      f_equal. symmetry. apply links_insert_head; [done|by rewrite head_lookup].
    + rewrite insert_insert. reflexivity.
  - (* before a later child *)
    destruct (ks !! pred k) as [pv|] eqn:Hpv; [|apply lookup_ge_None in Hpv; lia].
    assert (Hpvks : pv ∈ ks) by (by eapply elem_of_list_lookup_2).
    assert (pv <> x) by (intros ->; done).
    assert (a <> c0) by (eapply (NoDup_lookup_ne ks k 0); eauto).
    rewrite (ptr_eqb_Some_ne a c0) by done. cbn [negb]. mn.
    rewrite (run_get_prev_bind _ _ _ _ a _ (Hlive a ltac:(auto)) HLa). rewrite (link_at_pos ks k Hk0). cbn [snd]. rewrite Hpv.
    cbn [is_null]. rewrite bindM_ret.
    rewrite run_set_next_bind by (auto using focus_is_Some).
    rewrite (run_get_prev_bind _ _ _ _ a (link_at ks k) (Hlive a ltac:(auto))) by (by rewrite lookup_upd_next_ne).
    rewrite (link_at_pos ks k Hk0). cbn [snd]. rewrite Hpv.
    rewrite run_set_prev_bind by (auto || (rewrite is_Some_upd_next; auto using focus_is_Some)).
    rewrite run_set_prev_bind by (auto || (rewrite is_Some_upd_prev, is_Some_upd_next; auto using focus_is_Some)).
    rewrite (run_get_child_bind _ _ _ _ _ _ Hlp (lookup_insert _ _ _)).
    change (nd_child (mk_dat d ks)) with (child_of d ks). rewrite Hchild.
    rewrite (ptr_eqb_Some_ne a c0) by done. mn.
    rewrite (run_get_prev_bind _ _ _ _ _ (Some a, Some pv) Hlx).
    2:{ rewrite lookup_upd_prev_ne by done. rewrite lookup_upd_prev, lookup_upd_next, focus_lookup_x. reflexivity. }
    cbn [snd].
    rewrite run_set_next_bind by (auto || (rewrite !is_Some_upd_prev, is_Some_upd_next; auto using focus_is_Some)).
    unfold ret. do 2 f_equal. unfold L', D'. f_equal.
    + rewrite upd_next_union_l by done.
      rewrite upd_prev_union_l by (by rewrite is_Some_upd_next).
      rewrite upd_prev_next_insert.
      rewrite upd_prev_union_l by (apply focus_left_is_Some; auto).
      rewrite upd_next_union_l by (rewrite is_Some_upd_prev; apply focus_left_is_Some; auto).
      f_equal. symmetry. by apply links_insert_mid.
    + f_equal. apply mk_dat_head.
      * symmetry. apply insert_at_not_head; [done|]. intros ->. done.
      * rewrite head_lookup, Hc0. done.
Qed.
