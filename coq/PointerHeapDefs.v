(** PointerHeapDefs.v — HEAP-LEVEL transliteration of [cJSONUtils_FindPointerFromObjectTo] of cJSON_Utils.c on
    the memory model of Heap.v (property C15 "at heap level").  The lookup direction
    ([cJSONUtils_GetPointer], [cJSONUtils_GetPointerCaseSensitive], [get_item_from_pointer]) is already
    transliterated in PatchHeapDefs.v and proved in PatchHeapPointer.v; PointerDefs.v is the VALUE-level model
    of both directions.  No proofs here.

    The C text:

        size_t child_index = 0; cJSON *current_child = 0;
        if ((object == NULL) || (target == NULL)) return NULL;
        if (object == target) return (char* )cJSONUtils_strdup((const unsigned char* )"");          /* found */
        for (current_child = object->child; current_child != NULL;
             (void)(current_child = current_child->next), child_index++) {
            unsigned char *target_pointer = (unsigned char* )cJSONUtils_FindPointerFromObjectTo(current_child, target);
            if (target_pointer != NULL) {
                if (cJSON_IsArray(object)) {
                    unsigned char *full_pointer = (unsigned char* )cJSON_malloc(strlen((char* )target_pointer) + 20 + sizeof("/"));
                    if (child_index > ULONG_MAX) { cJSON_free(target_pointer); cJSON_free(full_pointer); return NULL; }
                    sprintf((char* )full_pointer, "/%lu%s", (unsigned long)child_index, target_pointer);
                    cJSON_free(target_pointer);
                    return (char* )full_pointer; }
                if (cJSON_IsObject(object)) {
                    unsigned char *full_pointer = (unsigned char* )cJSON_malloc(strlen((char* )target_pointer)
                                                    + pointer_encoded_length((unsigned char* )current_child->string) + 2);
                    full_pointer[0] = '/';
                    encode_string_as_pointer(full_pointer + 1, (unsigned char* )current_child->string);
                    strcat((char* )full_pointer, (char* )target_pointer);
                    cJSON_free(target_pointer);
                    return (char* )full_pointer; }
                cJSON_free(target_pointer);                         /* reached leaf of the tree, found nothing */
                return NULL; } }
        return NULL;                                                /* not found */

    NONE of the [cJSON_malloc] results of the loop body is tested (only [cJSONUtils_strdup] tests its own): with
    a failing allocator [sprintf] / [full_pointer[0] = '/'] write through NULL (here: [NullDeref]); the theorems
    are for the never-failing allocator (DESIGN 11.6).

    MEMORY.  A freshly allocated block holds arbitrary bytes: [junk n] ([n] bytes chosen by the environment; the
    theorems hold for every [junk]).  Writes are checked against the size of the block ([OutOfBounds]), so the
    size computations of the C code ([strlen + 20 + sizeof("/")], [strlen + pointer_encoded_length + 2]) are
    part of what is verified:
      [sprintf(dst, "/%lu%s", n, s)]   one checked store of ['/'], the decimal digits of [n]
                                       ([PointerDefs.print_lu]), the bytes of the C string [s] and the terminator;
      [pointer_encoded_length]         a forward read of the C string ([ld_cstr]) and the loop [pel_loop];
      [encode_string_as_pointer]       the loop [esp_loop] on the bytes of the destination block, every store
                                       checked ([Base.wr]), reading the source C string;
      [strcat(dst, src)]               [strlen(dst)] (the terminator must exist inside the block), then a checked
                                       store of the bytes of [src] and the terminator behind it.
    [ULONG_MAX] is [SIZE_MAX] on the LP64 target ([c_SIZEOF_SIZE_T = 8]); the test is kept.

    The recursion runs on [dfuel], the child loop on [lfuel]; the entry point takes both from the heap. *)
From stdpp Require Import gmap.
From CJ Require Import Base Dbl Heap CoreDefs Forest MergeHeapDefs PatchHeapDefs.
From CJ Require Tree PointerDefs CoreSpec.
From CJ.gen Require Import Constants.
Local Open Scope Z_scope.

Definition ULONG_MAX : Z := PointerDefs.SIZE_MAX.

(** [pointer_encoded_length]: [for (length = 0; *string != '\0'; (void)string++, length++) if (( *string == '~') || ( *string == '/')) length++;] *)
Fixpoint pel_loop (string : bytes) (length : nat) : nat :=
  match string with
  | [] => length
  | c :: r => pel_loop r (S (if (c =? 126) || (c =? 47) then S length else length))
  end.

(** [encode_string_as_pointer(destination, source)] on the bytes [dst] of the destination block, [d] = the
    offset of [destination] in it, [src] = the source C string *)
Fixpoint esp_loop (dst : bytes) (d : nat) (src : bytes) : res bytes :=
  match src with
  | [] => wr dst d 0                                                   (* destination[0] = '\0'; *)
  | c :: r =>
      if c =? 47 then                                                  (* '/' *)
        b1 <- wr dst d 126 ;; b2 <- wr b1 (S d) 49 ;; esp_loop b2 (S (S d)) r
      else if c =? 126 then                                            (* '~' *)
        b1 <- wr dst d 126 ;; b2 <- wr b1 (S d) 48 ;; esp_loop b2 (S (S d)) r
      else
        b1 <- wr dst d c ;; esp_loop b1 (S d) r
  end.

(** a checked store of the bytes [bs] at offset [off] of block [p] *)
Definition st_bytes (p : ptr) (off : nat) (bs : bytes) : M unit :=
  old <~ ld_str p ;;
  if (off + length bs <=? length old)%nat then st_str p (take off old ++ bs ++ drop (off + length bs) old)
  else fail OutOfBounds.

Section PointerHeap.
  Variable oracle : nat -> bool.
  Variable junk : nat -> bytes.          (* contents of fresh memory: [length (junk n) = n] *)

  (** static unsigned char* cJSONUtils_strdup(const unsigned char* const string), for a string argument
      ([PatchHeapDefs.cstring]: here the literal "") *)
  Definition cJSONUtils_strdup_s (string : cstring) : M ptr :=
    s <~ ld_cs string ;;                                               (* length = strlen(string) + sizeof("") *)
    copy <~ cJSON_malloc oracle (junk (S (length s))) ;;
    if is_null copy then ret None else
    st_str copy (s ++ [0]) ;;;                                         (* memcpy(copy, string, length) *)
    ret copy.

  Definition pointer_encoded_length (string : ptr) : M nat :=
    s <~ ld_cstr string ;;
    ret (pel_loop s 0).

  Definition encode_string_as_pointer (destination : cstring) (source : ptr) : M unit :=
    match destination with
    | CNull => fail NullDeref
    | CAt b off =>
        bs <~ ld_str (Some b) ;;
        s <~ ld_cstr source ;;
        match esp_loop bs off s with
        | Ok bs' => st_str (Some b) bs'
        | _ => fail OutOfBounds
        end
    | CLit _ => fail ForeignWrite
    end.

  (** sprintf(dst, "/%lu%s", n, s) *)
  Definition sprintf_slash_lu_s (dst : ptr) (n : Z) (s : ptr) : M unit :=
    str <~ ld_cstr s ;;
    st_bytes dst 0 (47 :: PointerDefs.print_lu n ++ str ++ [0]).

  (** strcat(dst, src) *)
  Definition c_strcat (dst src : ptr) : M unit :=
    d <~ ld_cstr dst ;;
    s <~ ld_cstr src ;;
    st_bytes dst (length d) (s ++ [0]).

  Fixpoint FindPointerFromObjectTo_fuel (dfuel lfuel : nat) (object target : ptr) {struct dfuel} : M ptr :=
    match dfuel with
    | O => fail NoFuel
    | S df =>
        if is_null object || is_null target then ret None else
        if ptr_eqb object target then cJSONUtils_strdup_s (CLit []) else        (* found *)
        first_child <~ get_child object ;;
        let fix loop (lf : nat) (current_child : ptr) (child_index : Z) {struct lf} : M ptr :=
          match lf with
          | O => fail NoFuel
          | S lf' =>
              if is_null current_child then ret None else                          (* not found *)
              target_pointer <~ FindPointerFromObjectTo_fuel df lfuel current_child target ;;
              if negb (is_null target_pointer) then
                isarr <~ cJSON_IsArray object ;;
                if isarr then
                  tp <~ ld_cstr target_pointer ;;                                  (* strlen(target_pointer) *)
                  full_pointer <~ cJSON_malloc oracle (junk (length tp + 20 + 2)) ;;
                  if child_index >? ULONG_MAX then
                    cJSON_free target_pointer ;;; cJSON_free full_pointer ;;; ret None
                  else
                  sprintf_slash_lu_s full_pointer child_index target_pointer ;;;
                  cJSON_free target_pointer ;;;
                  ret full_pointer
                else
                isobj <~ cJSON_IsObject object ;;
                if isobj then
                  tp <~ ld_cstr target_pointer ;;                                  (* strlen(target_pointer) *)
                  k1 <~ get_key current_child ;;
                  el <~ pointer_encoded_length k1 ;;
                  full_pointer <~ cJSON_malloc oracle (junk (length tp + el + 2)) ;;
                  st_byte (cs_of_ptr full_pointer) 0 47 ;;;                        (* full_pointer[0] = '/'; *)
                  k2 <~ get_key current_child ;;
                  encode_string_as_pointer (cs_plus (cs_of_ptr full_pointer) 1) k2 ;;;
                  c_strcat full_pointer target_pointer ;;;
                  cJSON_free target_pointer ;;;
                  ret full_pointer
                else
                  (* reached leaf of the tree, found nothing *)
                  cJSON_free target_pointer ;;;
                  ret None
              else
                nx <~ get_next current_child ;;
                loop lf' nx (child_index + 1)
          end in
        loop lfuel first_child 0
    end.

  (** CJSON_PUBLIC(char * ) cJSONUtils_FindPointerFromObjectTo(const cJSON * const object, const cJSON * const target) *)
  Definition cJSONUtils_FindPointerFromObjectTo (object target : ptr) : M ptr :=
    fuel <~ heap_fuel ;;
    FindPointerFromObjectTo_fuel fuel fuel object target.

  (** the child loop as a separate function (PointerHeapProofs.v: [reflexivity]) *)
  Definition fp_loop (rec : ptr -> M ptr) (object : ptr) : nat -> ptr -> Z -> M ptr :=
    fix loop (lf : nat) (current_child : ptr) (child_index : Z) {struct lf} : M ptr :=
      match lf with
      | O => fail NoFuel
      | S lf' =>
          if is_null current_child then ret None else
          target_pointer <~ rec current_child ;;
          if negb (is_null target_pointer) then
            isarr <~ cJSON_IsArray object ;;
            if isarr then
              tp <~ ld_cstr target_pointer ;;
              full_pointer <~ cJSON_malloc oracle (junk (length tp + 20 + 2)) ;;
              if child_index >? ULONG_MAX then
                cJSON_free target_pointer ;;; cJSON_free full_pointer ;;; ret None
              else
              sprintf_slash_lu_s full_pointer child_index target_pointer ;;;
              cJSON_free target_pointer ;;;
              ret full_pointer
            else
            isobj <~ cJSON_IsObject object ;;
            if isobj then
              tp <~ ld_cstr target_pointer ;;
              k1 <~ get_key current_child ;;
              el <~ pointer_encoded_length k1 ;;
              full_pointer <~ cJSON_malloc oracle (junk (length tp + el + 2)) ;;
              st_byte (cs_of_ptr full_pointer) 0 47 ;;;
              k2 <~ get_key current_child ;;
              encode_string_as_pointer (cs_plus (cs_of_ptr full_pointer) 1) k2 ;;;
              c_strcat full_pointer target_pointer ;;;
              cJSON_free target_pointer ;;;
              ret full_pointer
            else
              cJSON_free target_pointer ;;;
              ret None
          else
            nx <~ get_next current_child ;;
            loop lf' nx (child_index + 1)
      end.
End PointerHeap.

(** * the search on a labelled tree: what the heap-level code computes, with identities in place of addresses *)
Definition fpt_result (St : gmap positive bytes) (ty : Z) (idx : nat) (c : tree) (tp : bytes) : option bytes :=
  if Z.land ty 255 =? c_cJSON_Array then Some (47 :: PointerDefs.print_lu (Z.of_nat idx) ++ tp)
  else if Z.land ty 255 =? c_cJSON_Object then
    match CoreSpec.key_string St c with
    | Some k => Some (47 :: PointerDefs.encode_string_as_pointer k ++ tp)
    | None => None
    end
  else None.

Fixpoint find_ptr_t (St : gmap positive bytes) (x : tree) (q : positive) {struct x} : option bytes :=
  match x with
  | T i d cs =>
      if decide (i = q) then Some []
      else
        (fix go (l : list tree) (idx : nat) : option bytes :=
           match l with
           | [] => None
           | c :: r =>
               match find_ptr_t St c q with
               | Some tp => fpt_result St (rd_type d) idx c tp
               | None => go r (S idx)
               end
           end) cs 0%nat
  end.

(** * hypotheses on the tree the search runs over *)

(** every member of an object node has a name ([current_child->string] is dereferenced without a test) *)
Definition members_named (x : tree) : Prop :=
  forall n, n ∈ nodes_t x -> Z.land (rd_type (tdata n)) 255 = c_cJSON_Object ->
    forall c, c ∈ tchildren n -> rd_key (tdata c) <> None.
(** no node has more than ULONG_MAX children (the test [child_index > ULONG_MAX] never fires) *)
Definition small_nodes (x : tree) : Prop :=
  forall n, n ∈ nodes_t x -> (Z.of_nat (length (tchildren n)) <= ULONG_MAX)%Z.

(** * the post-condition of one call *)
Record FPost (g g' : heap) (res : ptr) (v : option bytes) : Prop := mkFPost {
  fp_lnk : h_lnk g' = h_lnk g;                         (* the trees are not written *)
  fp_dat : h_dat g' = h_dat g;
  fp_hooks : h_hooks g' = h_hooks g;
  fp_next : (h_next g <= h_next g')%positive;
  fp_own : forall b, (b < h_next g)%positive -> h_own g' !! b = h_own g !! b;
  fp_res :
    match v with
    | None => res = None /\ h_str g' = h_str g /\ h_live g' = h_live g          (* nothing stays allocated *)
    | Some p =>
        exists (r : positive) (blk : bytes),
          res = Some r /\ (h_next g <= r)%positive /\ (r < h_next g')%positive /\
          h_str g' = <[r := blk]> (h_str g) /\ h_live g' = {[r]} ∪ h_live g /\    (* exactly one new block *)
          h_own g' !! r = Some Lib /\ cstr blk = p /\ existsb (Z.eqb 0) blk = true
    end
}.
