(** RoundTripNum.v — property C04, the number level: what one print_number / parse_number
    cycle does to a double.

    * facts about the SpecFloat doubles cJSON computes with (no libc involved): [deq] means
      identical representation up to the sign of zero, the saturating conversion [sat_int]
      of a well-formed double is a C int, [compare_double] against a finite double is true
      only for finite doubles;
    * the contract [LibcRoundTripSpec] on the C library conversions (a Record of named
      hypotheses — never an axiom);
    * [number_roundtrip]: the text print_number chooses for a finite double d (with
      valueint = (int) d saturated) is converted back by strtod to a double d' with
      compare_double d' d, d' == d when d is an integer below 10^15, and print_number
      chooses the very same text for d' again. *)
From CJ Require Import Base Dbl Tree CompareProofs PrintDefs.
Local Open Scope Z_scope.

(** * Doubles *)

(** The model's [dbl] is SpecFloat's [spec_float], which also contains non-normalised
    (mantissa, exponent) pairs that no C double has.  A C double is a well-formed one. *)
Definition dbl_ok (d : dbl) : Prop := valid_binary prec emax d = true.

Definition is_zero (d : dbl) : bool := match d with S754_zero _ => true | _ => false end.

(** [==] on doubles: the same representation, or two zeros (of any signs) *)
Lemma deq_true_cases a b : deq a b = true -> a = b \/ (is_zero a = true /\ is_zero b = true).
Proof.
  unfold deq, SFeqb.
  destruct a as [[|]|[|]| |[|] ma ea], b as [[|]|[|]| |[|] mb eb]; cbn [SFcompare is_zero]; intro H;
    try discriminate; try (right; split; reflexivity); try (left; reflexivity).
  - change (Pos.compare_cont Eq ma mb) with (ma ?= mb)%positive in H.
    destruct (ea ?= eb) eqn:Ee; try discriminate.
    apply Z.compare_eq in Ee. destruct (ma ?= mb)%positive eqn:Em; try discriminate.
    apply Pos.compare_eq in Em. subst. left; reflexivity.
  - change (Pos.compare_cont Eq ma mb) with (ma ?= mb)%positive in H.
    destruct (ea ?= eb) eqn:Ee; try discriminate.
    apply Z.compare_eq in Ee. destruct (ma ?= mb)%positive eqn:Em; try discriminate.
    apply Pos.compare_eq in Em. subst. left; reflexivity.
Qed.

Lemma finite_not_nan d : is_finite d = true -> is_nan d = false.
Proof. destruct d; cbn; congruence. Qed.

Lemma deq_refl_finite d : is_finite d = true -> deq d d = true.
Proof. intro H. unfold deq, SFeqb. rewrite SFcompare_refl by (apply finite_not_nan; exact H). reflexivity. Qed.

Lemma is_zero_finite d : is_zero d = true -> is_finite d = true.
Proof. destruct d; cbn; congruence. Qed.

Lemma finite_nan_inf d : is_finite d = true -> is_nan d || is_inf d = false.
Proof. destruct d; cbn; congruence. Qed.

Lemma dbl_of_int_0 : dbl_of_int 0 = S754_zero false.
Proof. reflexivity. Qed.

Lemma sat_int_zero d : is_zero d = true -> sat_int d = 0.
Proof. destruct d as [s| | |]; try discriminate. intros _. destruct s; vm_compute; reflexivity. Qed.

(** a zero is integer-valued: print_number takes the %d branch for it *)
Lemma zero_is_int d : is_zero d = true -> deq d (dbl_of_int (sat_int d)) = true.
Proof.
  intro H. rewrite (sat_int_zero d H). destruct d as [s| | |]; try discriminate.
  destruct s; reflexivity.
Qed.

Lemma compare_double_zeros a b : is_zero a = true -> is_zero b = true -> compare_double a b = true.
Proof.
  destruct a as [sa| | |], b as [sb| | |]; try discriminate. intros _ _.
  destruct sa, sb; vm_compute; reflexivity.
Qed.

Lemma compare_double_finite_l a b : compare_double a b = true -> is_finite b = true -> is_finite a = true.
Proof.
  intros H Hb. destruct (is_finite a) eqn:Ha; [reflexivity|].
  rewrite compare_double_sym in H. rewrite (compare_double_fin_nonfin b a Hb Ha) in H. discriminate.
Qed.

(** [deq] implies [compare_double] on finite doubles *)
Lemma deq_compare_double a b : is_finite a = true -> deq a b = true -> compare_double a b = true.
Proof.
  intros Ha H. destruct (deq_true_cases a b H) as [E | [Za Zb]].
  - subst b. apply compare_double_refl. apply finite_not_nan. exact Ha.
  - apply compare_double_zeros; assumption.
Qed.

(** ** the saturating conversion of a well-formed double is a C int *)
Lemma pos_lt_pow_digits m : Zpos m < 2 ^ Zpos (digits2_pos m).
Proof.
  induction m as [p IH|p IH|]; cbn [digits2_pos].
  - rewrite Pos2Z.inj_succ, Z.pow_succ_r by lia. lia.
  - rewrite Pos2Z.inj_succ, Z.pow_succ_r by lia. lia.
  - reflexivity.
Qed.

Lemma bounded_mantissa m e : bounded prec emax m e = true -> Zpos m < 2 ^ 53.
Proof.
  unfold bounded, canonical_mantissa. intro H. apply andb_true_iff in H as [H _].
  apply Zeq_bool_eq in H. unfold fexp, emin, prec, emax in H.
  pose proof (pos_lt_pow_digits m) as Hd.
  assert (Hle : Zpos (digits2_pos m) <= 53) by lia.
  pose proof (Z.pow_le_mono_r 2 _ 53 ltac:(lia) Hle). lia.
Qed.

Lemma imax_dbl : dbl_of_int c_INT_MAX = S754_finite false 9007199250546688 (-22).
Proof. reflexivity. Qed.
Lemma imin_dbl : dbl_of_int c_INT_MIN = S754_finite true 4503599627370496 (-21).
Proof. reflexivity. Qed.

Lemma div_pow_small m k b : 0 <= m < 2 ^ 53 -> 53 - b <= k -> 0 <= b -> m / 2 ^ k < 2 ^ b.
Proof.
  intros Hm Hk Hb. assert (0 <= k \/ k < 0) as [K|K] by lia.
  - apply Z.div_lt_upper_bound; [apply Z.pow_pos_nonneg; lia|].
    rewrite <- Z.pow_add_r by lia.
    pose proof (Z.pow_le_mono_r 2 53 (k + b) ltac:(lia) ltac:(lia)). lia.
  - rewrite (Z.pow_neg_r 2 k K). rewrite Zdiv_0_r. apply Z.pow_pos_nonneg; lia.
Qed.

Lemma sat_int_range d : dbl_ok d -> int_range (sat_int d) = true.
Proof.
  unfold dbl_ok. intro Hv. unfold sat_int.
  destruct (dle (dbl_of_int c_INT_MAX) d) eqn:Hmax; [reflexivity|].
  destruct (dle d (dbl_of_int c_INT_MIN)) eqn:Hmin; [reflexivity|].
  destruct (is_nan d) eqn:Hn; [reflexivity|].
  destruct d as [s|s| |s m e]; try reflexivity; try discriminate.
  cbn [valid_binary] in Hv. pose proof (bounded_mantissa m e Hv) as Hm.
  rewrite imax_dbl in Hmax. rewrite imin_dbl in Hmin.
  unfold dle, SFleb in Hmax, Hmin. cbn [SFcompare] in Hmax, Hmin.
  unfold int_range, c_INT_MIN, c_INT_MAX. cbn [trunc_dbl].
  destruct s.
  - (* negative *)
    clear Hmax.
    assert (Hb : (if 0 <=? e then Z.pos m * 2 ^ e else Z.pos m / 2 ^ (- e)) < 2 ^ 31).
    { destruct (e ?= -21) eqn:Ee.
      - apply Z.compare_eq in Ee. subst e.
        destruct (Pos.compare_cont Eq m 4503599627370496) eqn:Em; cbn [CompOpp] in Hmin; try discriminate.
        assert (Em' : (m < 4503599627370496)%positive) by exact Em. clear Em.
        replace (0 <=? -21) with false by reflexivity. replace (- -21) with 21 by reflexivity.
        apply Z.div_lt_upper_bound; [reflexivity|]. change (2 ^ 21 * 2 ^ 31) with 4503599627370496. exact Em'.
      - rewrite Z.compare_lt_iff in Ee. destruct (Z.leb_spec 0 e); [lia|].
        apply div_pow_small; lia.
      - discriminate. }
    assert (H0 : 0 <= (if 0 <=? e then Z.pos m * 2 ^ e else Z.pos m / 2 ^ (- e))).
    { destruct (Z.leb_spec 0 e).
      - apply Z.mul_nonneg_nonneg; [lia|]. apply Z.pow_nonneg. lia.
      - apply Z.div_pos; [lia|]. apply Z.pow_pos_nonneg; lia. }
    change (2 ^ 31) with 2147483648 in Hb.
    apply andb_true_iff; split; [apply Z.leb_le|apply Z.leb_le]; lia.
  - (* non-negative *)
    clear Hmin.
    assert (Hb : (if 0 <=? e then Z.pos m * 2 ^ e else Z.pos m / 2 ^ (- e)) < 2147483647).
    { destruct (-22 ?= e) eqn:Ee.
      - apply Z.compare_eq in Ee. subst e.
        destruct (Pos.compare_cont Eq 9007199250546688 m) eqn:Em; try discriminate.
        assert (Em' : (m < 9007199250546688)%positive) by (apply Pos.compare_gt_iff; exact Em). clear Em.
        replace (0 <=? -22) with false by reflexivity. replace (- -22) with 22 by reflexivity.
        apply Z.div_lt_upper_bound; [reflexivity|]. change (2 ^ 22 * 2147483647) with 9007199250546688. exact Em'.
      - discriminate.
      - rewrite Z.compare_gt_iff in Ee. destruct (Z.leb_spec 0 e); [lia|].
        pose proof (div_pow_small (Z.pos m) (- e) 30 ltac:(lia) ltac:(lia) ltac:(lia)) as H30.
        change (2 ^ 30) with 1073741824 in H30. lia. }
    assert (H0 : 0 <= (if 0 <=? e then Z.pos m * 2 ^ e else Z.pos m / 2 ^ (- e))).
    { destruct (Z.leb_spec 0 e).
      - apply Z.mul_nonneg_nonneg; [lia|]. apply Z.pow_nonneg. lia.
      - apply Z.div_pos; [lia|]. apply Z.pow_pos_nonneg; lia. }
    apply andb_true_iff; split; [apply Z.leb_le|apply Z.leb_le]; lia.
Qed.

(** * The contract on the C library *)

(** [int15 d]: d is an integer of magnitude below 10^15 (as a C comparison: d == (double) z) *)
Definition int15 (d : dbl) : Prop := exists z, Z.abs z < 10 ^ 15 /\ deq d (dbl_of_int z) = true.

(** What C04 assumes about strtod, sprintf "%d" / "%1.15g" / "%1.17g" and sscanf "%lg".
    Every clause except N4z is a fact about the C library alone (no cJSON code involved); each is
    used by a named step of [number_roundtrip] and is evaluated on a table of boundary doubles
    with the reference implementations in RoundTripEvidence.v.  S, V, N2 are proved for the
    reference implementations (RoundTripEvidence.v, RoundTripRefValid.v, RoundTripRef.v); N4z is
    proved for every library (RoundTripZero.v); the whole record is proved for an artificial
    library (RoundTripModel.v: the clauses are jointly satisfiable).
    [dbl_ok] restricts the "%g" clauses to values a C double can have. *)
Record LibcRoundTripSpec (strtod : bytes -> option (dbl * nat)) (fmt_d : Z -> bytes)
       (fmt_g15 fmt_g17 : dbl -> bytes) (sscanf_lg : bytes -> option dbl) : Prop := {
  (* S: sscanf "%lg" and strtod are the same conversion *)
  lr_scan : forall t d, sscanf_lg t = Some d <-> exists k, strtod t = Some (d, k);
  (* V: what strtod returns is a double (a well-formed SpecFloat value) *)
  lr_valid : forall t d k, strtod t = Some (d, k) -> dbl_ok d;
  (* N2: "%d" of an int reads back as exactly (double) of that int *)
  lr_d : forall z, int_range z = true -> exists k, strtod (fmt_d z) = Some (dbl_of_int z, k);
  (* N3: 17 significant digits identify a double (IEEE 754 round trip) *)
  lr_g17 : forall d, is_finite d = true -> dbl_ok d -> exists k, strtod (fmt_g17 d) = Some (d, k);
  (* N4: 15 significant digits survive decimal -> double -> decimal (DBL_DIG = 15) *)
  lr_g15_stable : forall d t k, is_finite d = true -> dbl_ok d ->
      strtod (fmt_g15 d) = Some (t, k) -> is_finite t = true -> fmt_g15 t = fmt_g15 d;
  (* N4z: reading back "%1.15g" of a nonzero double does not give a zero that compare_double
     accepts.  This clause holds for EVERY library — compare_double never equates zero with a
     nonzero well-formed double: [RoundTripZero.g15_nonzero_free], proved with Flocq — and is a
     field only so that the C04 theorems themselves do not depend on the axioms of the Reals *)
  lr_g15_nonzero : forall d t k, is_finite d = true -> dbl_ok d ->
      strtod (fmt_g15 d) = Some (t, k) -> compare_double t d = true -> is_zero t = true -> is_zero d = true;
  (* N5a: "%1.15g" of (double) of an int is what "%d" prints for that int *)
  lr_g15_int : forall z, int_range z = true -> fmt_g15 (dbl_of_int z) = fmt_d z;
  (* N5b: "%1.15g" of an integer below 10^15 reads back exactly *)
  lr_g15_exact : forall z, Z.abs z < 10 ^ 15 ->
      exists k, strtod (fmt_g15 (dbl_of_int z)) = Some (dbl_of_int z, k)
}.

(** * One number through print_number and parse_number *)
Section Number.
  Variable strtod : bytes -> option (dbl * nat).
  Variable fmt_d : Z -> bytes.
  Variable fmt_g15 fmt_g17 : dbl -> bytes.
  Variable sscanf_lg : bytes -> option dbl.
  Hypothesis R : LibcRoundTripSpec strtod fmt_d fmt_g15 fmt_g17 sscanf_lg.

  Notation number_text := (number_text fmt_d fmt_g15 fmt_g17 sscanf_lg).

  (** the double parse_number stores for a literal (as in [Grammar.tree_of]) *)
  Definition read_back (t : bytes) : dbl :=
    match strtod t with Some (d, _) => d | None => dzero end.

  Lemma read_back_eq t d k : strtod t = Some (d, k) -> read_back t = d.
  Proof. unfold read_back. intros ->. reflexivity. Qed.

  Lemma int_of_ok d : dbl_ok d -> int_range (sat_int d) = true.
  Proof. apply sat_int_range. Qed.

  (** re-printing a double that print_number printed with 15 digits *)
  Lemma reprint_g15 d t k : is_finite d = true -> dbl_ok d -> is_zero d = false ->
    strtod (fmt_g15 d) = Some (t, k) -> compare_double t d = true ->
    number_text (sat_int t) t = fmt_g15 d.
  Proof.
    intros Hd Hvd Hnz Hs Hc.
    pose proof (compare_double_finite_l t d Hc Hd) as Ht.
    pose proof (lr_g15_stable _ _ _ _ _ R d t k Hd Hvd Hs Ht) as Hst.
    pose proof (lr_valid _ _ _ _ _ R _ _ _ Hs) as Hv.
    assert (Hsc : sscanf_lg (fmt_g15 d) = Some t) by (apply (lr_scan _ _ _ _ _ R); exists k; exact Hs).
    unfold PrintDefs.number_text. rewrite (finite_nan_inf t Ht).
    destruct (deq t (dbl_of_int (sat_int t))) eqn:E2.
    - destruct (deq_true_cases _ _ E2) as [E | [Zt _]].
      + rewrite <- (lr_g15_int _ _ _ _ _ R (sat_int t) (int_of_ok t Hv)). rewrite <- E. exact Hst.
      + rewrite (lr_g15_nonzero _ _ _ _ _ R d t k Hd Hvd Hs Hc Zt) in Hnz. discriminate.
    - rewrite Hst, Hsc. rewrite (compare_double_refl t (finite_not_nan t Ht)). reflexivity.
  Qed.

  Theorem number_roundtrip vi d :
    is_finite d = true -> dbl_ok d -> vi = sat_int d ->
    let d' := read_back (number_text vi d) in
    is_finite d' = true /\ dbl_ok d' /\
    compare_double d' d = true /\
    (int15 d -> deq d' d = true) /\
    number_text (sat_int d') d' = number_text vi d.
  Proof.
    intros Hf Hv Hvi. cbv zeta.
    pose proof (int_of_ok d Hv) as Hr. rewrite <- Hvi in Hr.
    destruct (deq d (dbl_of_int vi)) eqn:Eint.
    - (* the %d branch *)
      assert (Htxt : number_text vi d = fmt_d vi).
      { unfold PrintDefs.number_text. rewrite (finite_nan_inf d Hf), Eint. reflexivity. }
      rewrite Htxt.
      destruct (lr_d _ _ _ _ _ R vi Hr) as [k Hk]. rewrite (read_back_eq _ _ _ Hk).
      assert (Hf' : is_finite (dbl_of_int vi) = true).
      { destruct (deq_true_cases _ _ Eint) as [E | [_ Z]]; [rewrite <- E; exact Hf|apply is_zero_finite; exact Z]. }
      assert (Hs' : sat_int (dbl_of_int vi) = vi).
      { destruct (deq_true_cases _ _ Eint) as [E | [Zd Z]].
        - rewrite <- E. symmetry. exact Hvi.
        - rewrite (sat_int_zero _ Z). rewrite Hvi. symmetry. apply sat_int_zero. exact Zd. }
      split; [exact Hf'|]. split; [exact (lr_valid _ _ _ _ _ R _ _ _ Hk)|].
      split; [apply deq_compare_double; [exact Hf'|rewrite deq_sym; exact Eint]|].
      split; [intros _; rewrite deq_sym; exact Eint|].
      unfold PrintDefs.number_text. rewrite (finite_nan_inf _ Hf'). rewrite Hs'.
      rewrite (deq_refl_finite _ Hf'). reflexivity.
    - (* not an int *)
      assert (Hnz : is_zero d = false).
      { destruct (is_zero d) eqn:Z; [|reflexivity].
        rewrite Hvi in Eint. rewrite (zero_is_int d Z) in Eint. discriminate. }
      assert (G17 : number_text vi d = fmt_g17 d ->
                let d' := read_back (fmt_g17 d) in
                is_finite d' = true /\ dbl_ok d' /\ compare_double d' d = true /\ (int15 d -> deq d' d = true) /\
                number_text (sat_int d') d' = fmt_g17 d).
      { intro Htxt. destruct (lr_g17 _ _ _ _ _ R d Hf Hv) as [k Hk]. cbv zeta. rewrite (read_back_eq _ _ _ Hk).
        split; [exact Hf|]. split; [exact Hv|].
        split; [apply compare_double_refl, finite_not_nan, Hf|]. split; [intros _; apply deq_refl_finite, Hf|].
        rewrite <- Hvi. exact Htxt. }
      destruct (sscanf_lg (fmt_g15 d)) as [test|] eqn:Es.
      + destruct (compare_double test d) eqn:Ec.
        * (* 15 digits *)
          assert (Htxt : number_text vi d = fmt_g15 d).
          { unfold PrintDefs.number_text. rewrite (finite_nan_inf d Hf), Eint, Es, Ec. reflexivity. }
          rewrite Htxt.
          destruct (proj1 (lr_scan _ _ _ _ _ R _ _) Es) as [k Hk]. rewrite (read_back_eq _ _ _ Hk).
          split; [exact (compare_double_finite_l _ _ Ec Hf)|].
          split; [exact (lr_valid _ _ _ _ _ R _ _ _ Hk)|].
          split; [exact Ec|]. split.
          -- intros [z [Hz Ez]]. destruct (deq_true_cases _ _ Ez) as [E | [Zd _]].
             ++ destruct (lr_g15_exact _ _ _ _ _ R z Hz) as [k' Hk']. rewrite <- E in Hk'.
                rewrite Hk in Hk'. injection Hk' as Et _. rewrite Et. apply deq_refl_finite, Hf.
             ++ rewrite Zd in Hnz. discriminate.
          -- exact (reprint_g15 d test k Hf Hv Hnz Hk Ec).
        * (* 17 digits: the 15-digit text does not compare equal *)
          assert (Htxt : number_text vi d = fmt_g17 d).
          { unfold PrintDefs.number_text. rewrite (finite_nan_inf d Hf), Eint, Es, Ec. reflexivity. }
          rewrite Htxt. exact (G17 Htxt).
      + (* 17 digits: sscanf failed *)
        assert (Htxt : number_text vi d = fmt_g17 d).
        { unfold PrintDefs.number_text. rewrite (finite_nan_inf d Hf), Eint, Es. reflexivity. }
        rewrite Htxt. exact (G17 Htxt).
  Qed.
End Number.
