(** CoreLedgerAll.v — the C07 ledger over the full history alphabet (CoreHistoryAll.v):

    * [Abs3_ledger]: in every represented state the live library blocks are EXACTLY the blocks
      owned by the forest ([NoLeak] + [wf_owned_live] + [wf_owned_lib]);
    * [delete_roots], [delete_roots_sim]: deleting every remaining root with [cJSON_Delete] never
      errs and ends with no live library block — the allocator's initial balance
      ([ledger_balanced]: after any history accepted by the checker, from the empty heap);
    * [foreign_untouched]: over any accepted history (and over the final clean-up) every block the
      library only borrows — tag [Foreign]: caller strings, constant keys, referenced strings —
      stays live, keeps its tag and its contents, bit for bit;
    * [reference_release]: deleting a reference node releases its own node block and (if it has
      one) its own copy of the member name, and nothing else: every block of every other tree —
      in particular the referenced tree and the referenced string — keeps its links, data,
      contents and liveness. *)
From CJ Require Import Base Dbl Heap Forest ForestLemmas CoreSpec CoreDefs CoreRefineBase CoreRefine
  CoreRefineDelete CoreRefineReplace CoreRefineMore CoreRefineFrame CoreRefineHistory CoreRefineObject
  CoreRefineByKey CoreRefineAddObject CoreRefineHistoryObj CoreRefineHistoryObjEx
  CoreRefineCreate CoreLedgerGen CoreHistoryAllSteps CoreHistoryAll.
From CJ.gen Require Import Constants.
From stdpp Require Import gmap.
Implicit Types (h : heap) (F : forest) (d : rdata).
Local Open Scope Z_scope.

(** * live library blocks = blocks owned by the forest *)
Lemma Abs3_ledger h S : Abs3 h S -> forall b, b ∈ lib_live h <-> b ∈ owned (a_forest S).
Proof.
  intros [((W & NL & _) & _) _] b. split; [apply NL|]. intros Hb. apply elem_of_filter.
  split; [by apply (wf_owned_lib _ _ W)|by apply (wf_owned_live _ _ W)].
Qed.
Lemma lib_live_empty : lib_live empty_heap = ∅.
Proof. apply set_eq. intros b. unfold lib_live. rewrite elem_of_filter. cbn. set_solver. Qed.
Lemma Abs3_no_roots h S : Abs3 h S -> a_forest S = [] -> lib_live h = ∅.
Proof.
  intros HA HF. apply set_eq. intros b. rewrite (Abs3_ledger h S HA b), HF. cbn. split; [intros H; by apply elem_of_nil in H|set_solver].
Qed.

(** * the final clean-up: cJSON_Delete of every remaining root *)
Fixpoint delete_roots (rs : list positive) : M unit :=
  match rs with
  | [] => ret tt
  | r :: rs => cJSON_Delete (Some r) ;;; delete_roots rs
  end.
Lemma Cons_delete_roots rs : Cons (delete_roots rs).
Proof. induction rs as [|r rs IH]; cbn [delete_roots]; cons; auto with cons. Qed.

Lemma remove_root_head t F : tid t ∉ roots F -> remove_root (tid t) (t :: F) = F.
Proof.
  intros Hn. unfold remove_root. cbn. rewrite bool_decide_true by done. cbn.
  induction F as [|u F IH]; [done|]. cbn. apply not_elem_of_cons in Hn as [H1 H2].
  rewrite bool_decide_false by done. cbn. by rewrite IH.
Qed.
Lemma find_root_head t F : find_root (tid t) (t :: F) = Some t.
Proof. unfold find_root. cbn. by rewrite bool_decide_true. Qed.

Lemma delete_roots_sim F : forall S h,
  a_forest S = F -> Abs3 h S ->
  exists h' S', delete_roots (roots F) h = Ret (tt, h') /\ Abs3 h' S' /\ a_forest S' = [] /\ lib_live h' = ∅.
Proof.
  induction F as [|t F IH]; intros S h HF HA.
  - exists h, S. split; [done|]. split; [done|]. split; [done|]. by apply (Abs3_no_roots h S).
  - pose proof HA as [((W & _) & _) _]. pose proof (NoDup_roots _ (wf_nodup _ _ W)) as NDr.
    change (as_forest (a_st S)) with (a_forest S) in NDr. rewrite HF in NDr.
    cbn in NDr. apply NoDup_cons in NDr as [Hn _].
    assert (Hpre : pre_ok2 S (OArr (ODelete (Some (tid t))))).
    { cbn. right. exists (tid t), t. split; [done|]. unfold a_forest in HF. rewrite HF. apply find_root_head. }
    destruct (Step_cJSON_Delete S (Some (tid t)) Hpre h HA) as (h1 & E1 & HA1).
    destruct (IH (s2 S (OArr (ODelete (Some (tid t))))).1 h1) as (h2 & S2 & E2 & HA2 & HF2 & HL2); [|exact HA1|].
    { unfold s2, spec_step2, a_forest. cbn. unfold a_forest in HF. rewrite HF. by apply remove_root_head. }
    exists h2, S2. split; [|done]. cbn [roots fmap list_fmap delete_roots].
    rewrite (bindM_Ret _ _ _ _ _ E1). exact E2.
Qed.

(** * C07_balanced *)
Theorem ledger_balanced ops :
  pre_ok_all3b S0 ops = true ->
  let S1 := spec_run3 S0 ops in
  exists h1 h2,
    run_ops3 ops empty_heap = Ret (spec_results3 S0 ops, h1) /\        (* no error outcome *)
    Abs3 h1 S1 /\
    (forall b, b ∈ lib_live h1 <-> b ∈ owned (a_forest S1)) /\       (* live library blocks = owned blocks *)
    delete_roots (roots (a_forest S1)) h1 = Ret (tt, h2) /\          (* the clean-up never errs *)
    lib_live h2 = ∅ /\ lib_live empty_heap = ∅ /\                    (* back to the initial balance *)
    (forall b, h_own h1 !! b = Some Foreign -> b ∈ h_live h1 ->
       b ∈ h_live h2 /\ h_str h2 !! b = h_str h1 !! b).               (* borrowed memory survives the clean-up *)
Proof.
  intros Hpre S1. destruct (history3_checked ops Hpre) as (h1 & E1 & HA1). fold S1 in HA1.
  destruct (delete_roots_sim (a_forest S1) S1 h1 eq_refl HA1) as (h2 & S2 & E2 & HA2 & _ & HL2).
  exists h1, h2. refine (conj E1 (conj HA1 (conj _ (conj E2 (conj HL2 (conj lib_live_empty _)))))).
  - by apply Abs3_ledger.
  - intros b Ho Hl. apply (cp_foreign _ _ (Cons_delete_roots _ _ _ _ E2 (proj2 HA1)) b Ho Hl).
Qed.

(** the same at every moment of a history: for every prefix *)
Theorem ledger_every_moment ops1 ops2 :
  pre_ok_all3 S0 (ops1 ++ ops2) ->
  exists h1, run_ops3 ops1 empty_heap = Ret (spec_results3 S0 ops1, h1) /\ Abs3 h1 (spec_run3 S0 ops1) /\
    (forall b, b ∈ lib_live h1 <-> b ∈ owned (a_forest (spec_run3 S0 ops1))).
Proof.
  intros Hpre. destruct (pre_ok_all3_app _ _ _ Hpre) as [H1 _].
  destruct (history3_from_empty ops1 H1) as (h1 & E1 & HA1). exists h1. split_and!; try done. by apply Abs3_ledger.
Qed.

(** * C07_foreign_untouched *)
Theorem foreign_untouched ops h S :
  Abs3 h S -> pre_ok_all3 S ops ->
  exists h', run_ops3 ops h = Ret (spec_results3 S ops, h') /\ Abs3 h' (spec_run3 S ops) /\
    forall b, h_own h !! b = Some Foreign -> b ∈ h_live h ->
      h_own h' !! b = Some Foreign /\ b ∈ h_live h' /\ h_str h' !! b = h_str h !! b.
Proof.
  intros HA Hpre. destruct (history_sim3 ops h S HA Hpre) as (h' & E & HA'). exists h'. split_and!; try done.
  intros b Ho Hl. pose proof (Cons_run_ops3 ops _ _ _ E (proj2 HA)) as CP.
  destruct (cp_foreign _ _ CP b Ho Hl) as [H1 H2]. split_and!; try done.
  rewrite (cp_own _ _ CP); [done|]. by apply (hk_live _ (proj2 HA)).
Qed.
(** which blocks these are: everything the abstract state lists as caller-owned — the caller's
    strings, among them every constant key ([KeysOK]) *)
Lemma foreign_blocks h S b : Abs3 h S -> b ∈ a_foreign S -> h_own h !! b = Some Foreign /\ b ∈ h_live h.
Proof.
  intros [(_ & _ & [SI1 SI2] & _) _] Hb. destruct (SI2 b Hb) as [Ho [s Hs]]. split; [done|]. by apply (SI1 b s).
Qed.
Lemma constant_keys_foreign h S e b :
  Abs3 h S -> e ∈ datas (a_forest S) -> rd_key e.2 = Some b -> is_const e.2 = true -> b ∈ a_foreign S.
Proof. intros [(_ & _ & _ & KO) _] He Hb Hc. by destruct (KO e b He Hb) as [_ H]; apply H. Qed.

(** * C07_reference_release *)
Theorem reference_release h S r d :
  Abs3 h S -> find_root r (a_forest S) = Some (T r d []) -> is_ref d = true ->
  let S' := (s2 S (OArr (ODelete (Some r)))).1 in
  exists h', cJSON_Delete (Some r) h = Ret (tt, h') /\ Abs3 h' S' /\
    a_forest S' = remove_root r (a_forest S) /\
    (* exactly the node block and its own key copy are released *)
    (forall b, b ∈ h_live h' <-> b ∈ h_live h /\ b ∉ r :: owned_strs d) /\
    (forall b, b ∈ owned_strs d -> is_const d = false /\ rd_key d = Some b) /\
    (* every other block is as it was: links, data, contents *)
    (forall b, b ∉ r :: owned_strs d ->
       h_lnk h' !! b = h_lnk h !! b /\ h_dat h' !! b = h_dat h !! b /\ h_str h' !! b = h_str h !! b) /\
    (* in particular every block of every other tree of the forest (the referenced tree included) *)
    (forall b, b ∈ owned (remove_root r (a_forest S)) -> b ∉ r :: owned_strs d).
Proof.
  intros HA Hr Href S'. pose proof HA as [((W & NL & _) & _) K].
  assert (Hpre : pre_ok2 S (OArr (ODelete (Some r)))) by (cbn; right; eauto).
  destruct (Step_cJSON_Delete S (Some r) Hpre h HA) as (h' & E & HA'). exists h'. split; [done|]. split; [done|].
  destruct (cJSON_Delete_sim h _ r _ W Hr) as (_ & E' & _ & _). cbn zeta in E'. rewrite E in E'. injection E' as ->.
  rewrite ?app_nil_r.
  assert (Hmem : forall b, b ∈ owned_strs d ++ [r] <-> b ∈ r :: owned_strs d) by (intros b; set_solver).
  split_and!.
  - done.
  - intros b. rewrite free_all_live, Hmem. done.
  - intros b Hb. unfold owned_strs in Hb. rewrite Href in Hb. cbn in Hb.
    destruct (is_const d); [by apply elem_of_nil in Hb|]. split; [done|].
    destruct (rd_key d) as [k|]; cbn in Hb; [|by apply elem_of_nil in Hb]. by apply elem_of_list_singleton in Hb as ->.
  - intros b Hb. rewrite <- Hmem in Hb.
    by rewrite free_all_lnk_lookup, free_all_dat_lookup, CoreRefineFrame.free_all_str_lookup.
  - intros b Hb Hin. pose proof (wf_owned_nodup _ _ W) as NDo.
    rewrite owned_datas, (datas_remove_root _ r _ (wf_nodup _ _ W) Hr), owned_of_app in NDo.
    apply NoDup_app in NDo as (_ & N12 & _). apply (N12 b); [|by rewrite <- owned_datas].
    unfold datas. rewrite flat_singleton. cbn. rewrite app_nil_r. done.
Qed.

(** * key arguments that ALIAS memory of the item being added / used as replacement
      (the C code duplicates the name BEFORE it releases the item's old key: repaired defect F5) *)
Lemma own_key_name_ok h S x d cs kb :
  Abs3 h S -> find_root x (a_forest S) = Some (T x d cs) -> rd_key d = Some kb -> name_ok S (Some kb).
Proof.
  intros [(_ & _ & _ & KO) _] Hx Hk. apply find_root_Some in Hx as [Hx _].
  assert (He : (x, d) ∈ datas (a_forest S)).
  { unfold datas. apply elem_of_list_fmap. exists (flat_of (T x d cs)). split; [done|]. by apply elem_of_flat, roots_in_nodes. }
  destruct (KO (x, d) kb He Hk) as [(s & Hs & Hz) _]. by exists kb, s.
Qed.

(** cJSON_AddItemToObject(object, item->string, item) *)
Theorem add_with_own_key h S p x d cs kb :
  Abs3 h S -> find_root x (a_forest S) = Some (T x d cs) -> rd_key d = Some kb ->
  movable_into (a_forest S) p x ->
  exists h', add_item_to_object nv (Some p) (Some kb) (Some x) false h = Ret (true, h') /\
             Abs3 h' (s2 S (OAddObj (Some p) (Some kb) (Some x) false)).1.
Proof.
  intros HA Hx Hk Hmov. pose proof (own_key_name_ok h S x d cs kb HA Hx Hk) as Hn.
  assert (Hpre : pre_ok2 S (OAddObj (Some p) (Some kb) (Some x) false)).
  { cbn. right. exists p, x. split_and!; try done. }
  destruct (Step_add_item_to_object S (Some p) (Some kb) (Some x) false Hpre h HA) as (h' & E & HA').
  exists h'. split; [|done]. rewrite E. do 2 f_equal.
  (* the model says: accepted *)
  destruct Hmov as (Hpx & tx & dp & csp & Hx' & Hp & Hr). rewrite Hx in Hx'. injection Hx' as <-.
  pose proof HA as [((W & _ & Hnext & Hreq) & Hs & [SI1 _] & _) _].
  destruct Hn as (nb & s & [= <-] & Hs1 & Hz).
  assert (HR : CoreRefineObject.Readable h kb).
  { split; [by apply (SI1 _ _ Hs1)|]. exists s. by rewrite Hs. }
  destruct (add_item_to_object_sim_owned nv h _ p x kb d dp cs csp W Hpx Hx Hp Hr s HR ltac:(by rewrite Hs) eq_refl) as (Hspec & _).
  unfold s2, spec_step2. rewrite decide_False by done. cbn [nv never]. unfold a_forest. rewrite <- Hnext, Hspec. done.
Qed.

(** cJSON_ReplaceItemInObject(object, replacement->string, replacement) *)
Theorem replace_with_own_key h S p r d cs kb case_sensitive :
  Abs3 h S -> find_root r (a_forest S) = Some (T r d cs) -> rd_key d = Some kb ->
  movable_into (a_forest S) p r ->
  exists h', replace_item_in_object nv (Some p) (Some kb) (Some r) case_sensitive h =
               Ret ((spec_replace_key3 S (Some p) (Some kb) (Some r) case_sensitive).2, h') /\
             Abs3 h' (spec_replace_key3 S (Some p) (Some kb) (Some r) case_sensitive).1.
Proof.
  intros HA Hx Hk Hmov. pose proof (own_key_name_ok h S r d cs kb HA Hx Hk) as Hn.
  apply (Step_replace_key S (Some p) (Some kb) (Some r) case_sensitive); [|done].
  right. left. exists p, r. done.
Qed.
