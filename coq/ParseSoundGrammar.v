(** ParseSoundGrammar.v — C03, facts about the grammar family of Grammar.v alone (no parser):
    monotonicity in the three leaf predicates, so that the lenient dialect and RFC 8259 differ
    ONLY in which whitespace bytes, raw string bytes and number tokens they allow; the nesting
    index bounds the nesting of the denoted value. *)
From CJ Require Import Base Dbl Tree Grammar.
Local Open Scope Z_scope.

(** * monotonicity in the leaves *)

Section Mono.
  Variables ws1 ws2 raw1 raw2 : Z -> bool.
  Variables num1 num2 : bytes -> Prop.
  Hypothesis Hws : forall c, ws1 c = true -> ws2 c = true.
  Hypothesis Hraw : forall c, raw1 c = true -> raw2 c = true.
  Hypothesis Hnum : forall t, num1 t -> num2 t.

  Lemma ws_mono w : ws ws1 w -> ws ws2 w.
  Proof.
    unfold ws. induction w as [|c w IH]; [reflexivity|]. cbn [forallb]. intro H.
    apply andb_true_iff in H as [H1 H2]. rewrite (Hws _ H1), (IH H2). reflexivity.
  Qed.

  Lemma chars_mono b s : chars raw1 b s -> chars raw2 b s.
  Proof.
    induction 1.
    - apply ch_nil.
    - apply ch_raw; auto.
    - eapply ch_esc; eauto.
    - apply ch_u; auto.
    - eapply ch_pair; eauto.
  Qed.

  Lemma grammar_mono :
    (forall d t v, value ws1 raw1 num1 d t v -> value ws2 raw2 num2 d t v) /\
    (forall d b l, elements ws1 raw1 num1 d b l -> elements ws2 raw2 num2 d b l) /\
    (forall d b m, members ws1 raw1 num1 d b m -> members ws2 raw2 num2 d b m).
  Proof.
    apply (grammar_mutind ws1 raw1 num1
             (fun d t v _ => value ws2 raw2 num2 d t v)
             (fun d b l _ => elements ws2 raw2 num2 d b l)
             (fun d b m _ => members ws2 raw2 num2 d b m)); intros.
    - apply v_null.
    - apply v_false.
    - apply v_true.
    - apply v_num. auto.
    - apply v_str. apply chars_mono. assumption.
    - apply v_arr0. apply ws_mono. assumption.
    - apply v_arr. assumption.
    - apply v_obj0. apply ws_mono. assumption.
    - apply v_obj. assumption.
    - apply e_one; auto using ws_mono.
    - apply e_cons; auto using ws_mono.
    - apply m_one; auto using ws_mono, chars_mono.
    - apply m_cons; auto using ws_mono, chars_mono.
  Qed.

  Lemma value_mono d t v : value ws1 raw1 num1 d t v -> value ws2 raw2 num2 d t v.
  Proof. apply grammar_mono. Qed.

  Lemma text_mono n txt v : text ws1 raw1 num1 n txt v -> text ws2 raw2 num2 n txt v.
  Proof.
    intros (bom & w1 & t & w2 & -> & Hbom & Hw1 & Hw2 & Hv).
    exists bom, w1, t, w2. repeat split; auto using ws_mono, value_mono.
  Qed.
End Mono.

(** * monotonicity relative to the bytes of the text and the number literals of the value *)

(** every number literal occurring in the value satisfies Q *)
Fixpoint jv_nums (Q : bytes -> Prop) (v : jv) : Prop :=
  match v with
  | JNull | JBool _ | JStr _ => True
  | JNum t => Q t
  | JArr l => (fix go (l : list jv) : Prop := match l with [] => True | x :: r => jv_nums Q x /\ go r end) l
  | JObj m => (fix go (m : list (bytes * jv)) : Prop :=
                 match m with [] => True | (_, x) :: r => jv_nums Q x /\ go r end) m
  end.

Section MonoRel.
  Variables ws1 ws2 raw1 raw2 : Z -> bool.
  Variables num1 num2 : bytes -> Prop.
  Variable P : Z -> Prop.          (* what is known of every byte of the text *)
  Variable Q : bytes -> Prop.      (* what is known of every number literal of the value *)
  Hypothesis Hws : forall c, P c -> ws1 c = true -> ws2 c = true.
  Hypothesis Hraw : forall c, P c -> raw1 c = true -> raw2 c = true.
  Hypothesis Hnum : forall t, Q t -> num1 t -> num2 t.

  Lemma ws_mono_rel w : Forall P w -> ws ws1 w -> ws ws2 w.
  Proof.
    unfold ws. induction w as [|c w IH]; [reflexivity|]. cbn [forallb]. intros HP H.
    apply andb_true_iff in H as [Hc Hw].
    rewrite (Hws c (Forall_inv HP) Hc), (IH (Forall_inv_tail HP) Hw). reflexivity.
  Qed.

  Lemma chars_mono_rel b s : chars raw1 b s -> Forall P b -> chars raw2 b s.
  Proof.
    intro Hc.
    induction Hc as [|c b s Hq Hb Hr Hc IH|e v b s He Hc IH|h1 h2 h3 h4 u b s Hu Hh Hl Hc IH
                     |h1 h2 h3 h4 l1 l2 l3 l4 hi lo b s Hhi Hh Hlo Hl Hc IH]; intro HP.
    - apply ch_nil.
    - apply ch_raw; auto.
      + apply Hraw; [exact (Forall_inv HP)|exact Hr].
      + apply IH. exact (Forall_inv_tail HP).
    - eapply ch_esc; [exact He|]. apply IH. do 2 apply Forall_inv_tail in HP. exact HP.
    - apply ch_u; auto. apply IH. do 6 apply Forall_inv_tail in HP. exact HP.
    - eapply ch_pair; eauto. apply IH. do 12 apply Forall_inv_tail in HP. exact HP.
  Qed.

  Ltac fa :=
    repeat match goal with
    | H : Forall P (_ ++ _) |- _ => apply Forall_app in H; destruct H
    | H : Forall P (_ :: _) |- _ => apply Forall_cons_iff in H; destruct H
    end.

  Lemma grammar_mono_rel :
    (forall d t v, value ws1 raw1 num1 d t v -> Forall P t -> jv_nums Q v -> value ws2 raw2 num2 d t v) /\
    (forall d b l, elements ws1 raw1 num1 d b l -> Forall P b -> jv_nums Q (JArr l) -> elements ws2 raw2 num2 d b l) /\
    (forall d b m, members ws1 raw1 num1 d b m -> Forall P b -> jv_nums Q (JObj m) -> members ws2 raw2 num2 d b m).
  Proof.
    apply (grammar_mutind ws1 raw1 num1
             (fun d t v _ => Forall P t -> jv_nums Q v -> value ws2 raw2 num2 d t v)
             (fun d b l _ => Forall P b -> jv_nums Q (JArr l) -> elements ws2 raw2 num2 d b l)
             (fun d b m _ => Forall P b -> jv_nums Q (JObj m) -> members ws2 raw2 num2 d b m));
      intros; cbn [jv_nums] in *; fa.
    - apply v_null.
    - apply v_false.
    - apply v_true.
    - apply v_num. auto.
    - apply v_str. eapply chars_mono_rel; eassumption.
    - apply v_arr0. apply ws_mono_rel; assumption.
    - apply v_arr. auto.
    - apply v_obj0. apply ws_mono_rel; assumption.
    - apply v_obj. auto.
    - apply e_one; auto using ws_mono_rel. apply H; tauto.
    - apply e_cons; auto using ws_mono_rel; [apply H|apply H0]; tauto.
    - apply m_one; auto using ws_mono_rel; [eapply chars_mono_rel; eassumption|apply H; tauto].
    - apply m_cons; auto using ws_mono_rel; [eapply chars_mono_rel; eassumption|apply H; tauto|apply H0; tauto].
  Qed.

  Lemma text_mono_rel n txt v :
    text ws1 raw1 num1 n txt v -> Forall P txt -> jv_nums Q v -> text ws2 raw2 num2 n txt v.
  Proof.
    intros (bom & w1 & t & w2 & -> & Hbom & Hw1 & Hw2 & Hv) HP HQ. fa.
    exists bom, w1, t, w2. repeat split; auto using ws_mono_rel.
    apply grammar_mono_rel; assumption.
  Qed.
End MonoRel.

(** * the nesting index bounds the nesting of the value *)

Fixpoint depth_of (v : jv) : nat :=
  match v with
  | JNull | JBool _ | JNum _ | JStr _ => O
  | JArr l => S ((fix go (l : list jv) : nat := match l with [] => O | x :: r => Nat.max (depth_of x) (go r) end) l)
  | JObj m => S ((fix go (m : list (bytes * jv)) : nat :=
                    match m with [] => O | (_, x) :: r => Nat.max (depth_of x) (go r) end) m)
  end.

Section Depth.
  Variables is_ws raw_ok : Z -> bool.
  Variable num_tok : bytes -> Prop.

  Lemma grammar_depth :
    (forall d t v, value is_ws raw_ok num_tok d t v -> (depth_of v <= d)%nat) /\
    (forall d b l, elements is_ws raw_ok num_tok d b l -> (depth_of (JArr l) <= S d)%nat) /\
    (forall d b m, members is_ws raw_ok num_tok d b m -> (depth_of (JObj m) <= S d)%nat).
  Proof.
    apply (grammar_mutind is_ws raw_ok num_tok
             (fun d t v _ => (depth_of v <= d)%nat)
             (fun d b l _ => (depth_of (JArr l) <= S d)%nat)
             (fun d b m _ => (depth_of (JObj m) <= S d)%nat));
      intros; cbn [depth_of] in *; lia.
  Qed.

  Lemma value_depth d t v : value is_ws raw_ok num_tok d t v -> (depth_of v <= d)%nat.
  Proof. apply grammar_depth. Qed.

  (** no text derives a value that nests deeper than the index *)
  Lemma text_depth n txt v : text is_ws raw_ok num_tok n txt v -> (depth_of v <= n)%nat.
  Proof. intros (bom & w1 & t & w2 & _ & _ & _ & _ & Hv). eapply value_depth. exact Hv. Qed.

  (** a larger index allows more *)
  Lemma grammar_depth_mono :
    (forall d t v, value is_ws raw_ok num_tok d t v -> forall d', (d <= d')%nat -> value is_ws raw_ok num_tok d' t v) /\
    (forall d b l, elements is_ws raw_ok num_tok d b l -> forall d', (d <= d')%nat -> elements is_ws raw_ok num_tok d' b l) /\
    (forall d b m, members is_ws raw_ok num_tok d b m -> forall d', (d <= d')%nat -> members is_ws raw_ok num_tok d' b m).
  Proof.
    apply (grammar_mutind is_ws raw_ok num_tok
             (fun d t v _ => forall d', (d <= d')%nat -> value is_ws raw_ok num_tok d' t v)
             (fun d b l _ => forall d', (d <= d')%nat -> elements is_ws raw_ok num_tok d' b l)
             (fun d b m _ => forall d', (d <= d')%nat -> members is_ws raw_ok num_tok d' b m)); intros.
    - apply v_null.
    - apply v_false.
    - apply v_true.
    - apply v_num. assumption.
    - apply v_str. assumption.
    - destruct d' as [|d']; [lia|]. apply v_arr0. assumption.
    - destruct d' as [|d']; [lia|]. apply v_arr. apply H. lia.
    - destruct d' as [|d']; [lia|]. apply v_obj0. assumption.
    - destruct d' as [|d']; [lia|]. apply v_obj. apply H. lia.
    - apply e_one; auto.
    - apply e_cons; auto.
    - apply m_one; auto.
    - apply m_cons; auto.
  Qed.
End Depth.

(** * the two dialects differ only in the leaves *)

(** the leaf predicates of a derivation that uses, of the lenient forms, only those RFC 8259 has *)
Definition strict_ws (c : Z) : bool := len_ws c && rfc_ws c.
Definition strict_raw (c : Z) : bool := len_raw c && rfc_raw c.
Definition strict_num (strtod : bytes -> option (dbl * nat)) (t : bytes) : Prop :=
  len_num_tok strtod t /\ rfc_number t = true.
Definition STRICT_value strtod := value strict_ws strict_raw (strict_num strtod).
Definition STRICT_text strtod := text strict_ws strict_raw (strict_num strtod) nesting_limit.

Lemma strict_ws_l c : strict_ws c = true -> len_ws c = true.
Proof. unfold strict_ws. intro H. apply andb_true_iff in H. tauto. Qed.
Lemma strict_ws_r c : strict_ws c = true -> rfc_ws c = true.
Proof. unfold strict_ws. intro H. apply andb_true_iff in H. tauto. Qed.
Lemma strict_raw_l c : strict_raw c = true -> len_raw c = true.
Proof. reflexivity. Qed.
Lemma strict_raw_r c : strict_raw c = true -> rfc_raw c = true.
Proof. unfold strict_raw. intro H. apply andb_true_iff in H. tauto. Qed.

(** a lenient derivation all of whose whitespace bytes are RFC whitespace, all of whose raw string
    bytes are >= 0x20 and all of whose number tokens are RFC numbers is an RFC 8259 derivation of
    the same value from the same text ... *)
Theorem only_leniencies_value strtod d t v : STRICT_value strtod d t v -> RFC_value d t v.
Proof.
  apply value_mono.
  - exact strict_ws_r.
  - exact strict_raw_r.
  - intros tok [_ H]. exact H.
Qed.

Theorem only_leniencies strtod txt v : STRICT_text strtod txt v -> RFC_text txt v.
Proof.
  apply text_mono.
  - exact strict_ws_r.
  - exact strict_raw_r.
  - intros tok [_ H]. exact H.
Qed.

(** ... and it is a derivation of the lenient dialect (so STRICT = the derivations LEN and RFC share) *)
Theorem strict_is_lenient strtod txt v : STRICT_text strtod txt v -> LEN_text strtod txt v.
Proof.
  apply text_mono.
  - exact strict_ws_l.
  - exact strict_raw_l.
  - intros tok [H _]. exact H.
Qed.

(** Derivation-independent form: a text of the lenient dialect that contains no byte below 0x20
    at all (so the only whitespace is the space) and whose value contains only RFC 8259 number
    literals is an RFC 8259 text of the same value. *)
Theorem only_leniencies_bytes strtod txt v :
  LEN_text strtod txt v -> Forall (fun c => 32 <= c) txt -> jv_nums (fun t => rfc_number t = true) v ->
  RFC_text txt v.
Proof.
  apply text_mono_rel.
  - intros c Hc Hw. unfold len_ws in Hw. apply Z.leb_le in Hw.
    assert (c = 32) as -> by lia. reflexivity.
  - intros c Hc _. unfold rfc_raw. apply Z.leb_le. exact Hc.
  - intros t Hq _. exact Hq.
Qed.

(** RFC whitespace is lenient whitespace; RFC raw bytes are lenient raw bytes *)
Lemma rfc_ws_len_ws c : rfc_ws c = true -> len_ws c = true.
Proof.
  unfold rfc_ws, len_ws. intro H.
  apply orb_true_iff in H as [H|H]; [apply orb_true_iff in H as [H|H]; [apply orb_true_iff in H as [H|H]|]|];
    apply Z.eqb_eq in H; subst; reflexivity.
Qed.
