"""coregen.py — histories of tree-API calls for the `core` area (C06, C07, C11): an independent list-model
oracle (`Sim`) that predicts every call result, every container's content and the ledger from the case
line alone, and a generator that builds histories respecting the documented ownership rules by
construction, plus a separate stream of refused calls.

The oracle is deliberately NOT a pointer model: a container is a python list of its children, a key or a
value string is a `Blk` object with an identity (so aliasing is expressible), a reference node remembers
the node its `child` pointer designates and shows that node and its following siblings.  It knows nothing
about next/prev: that the implementation's sibling chain encodes these lists is exactly what is checked.
"""
import random, struct, copy
from .common import Case, hx, dbl_bits, sat_int, T_FALSE, T_TRUE, T_NULL, T_NUMBER, T_STRING, T_ARRAY, T_OBJECT, T_RAW, F_REF, F_CONST

class Unpredictable(Exception):
    """the history leaves what the list model can predict (misuse of the API, allocation failure)"""

class Blk:
    __slots__ = ('data', 'lib', 'live')
    def __init__(self, data, lib): self.data = bytes(data); self.lib = lib; self.live = True

class Node:
    __slots__ = ('ty', 'vs', 'vi', 'vd', 'key', 'children', 'refchild', 'parent', 'live')
    def __init__(self, ty):
        self.ty = ty; self.vs = None; self.vi = 0; self.vd = 0.0; self.key = None
        self.children = []; self.refchild = None; self.parent = None; self.live = True

def cstr(b):
    i = b.find(b'\0')
    return b if i < 0 else b[:i]
def fold(b): return bytes((c + 32) if 65 <= c <= 90 else c for c in b)
def dshort(x):
    x = float(x)
    return 'nan' if x != x else '%x' % dbl_bits(x)
def hxb(blk):
    if blk is None: return '-'
    if not blk.live: raise Unpredictable('dangling string')
    return hx(cstr(blk.data))
def parse_dbl(t):
    return float('nan') if t == 'nan' else struct.unpack('<d', struct.pack('<Q', int(t, 16)))[0]

class Sim:
    def __init__(self):
        self.items = []; self.strs = []; self.live = 0; self.reqs = 0; self.nodes = []; self.last = {}

    # ---- allocator
    def new_node(self, ty=0):
        self.reqs += 1; self.live += 1; n = Node(ty); self.nodes.append(n); return n
    def new_blk(self, data):
        self.reqs += 1; self.live += 1; return Blk(data, True)
    def strdup(self, b):
        if b is None: return None
        if not b.live: raise Unpredictable('read of a released string')
        return self.new_blk(cstr(b.data))
    def free(self, b):
        if b is None: return
        if not b.lib or not b.live: raise Unpredictable('release of a foreign or dead block')
        b.live = False; self.live -= 1
    def free_node(self, n):
        if not n.live: raise Unpredictable('double release of a node')
        n.live = False; self.live -= 1

    # ---- structure
    def chain(self, n):
        if n is None: return []
        if not n.live: raise Unpredictable('dangling reference')
        if n.parent is None: return [n]
        ch = n.parent.children
        return ch[[id(x) for x in ch].index(id(n)):]
    def kids(self, n):
        return self.chain(n.refchild) if n.ty & F_REF else n.children
    def child_ptr(self, n):
        if n.ty & F_REF: return n.refchild
        return n.children[0] if n.children else None
    def root_of(self, n):
        while n.parent is not None: n = n.parent
        return n
    def subtree(self, n, out=None):
        """owned nodes below n (references are not followed)"""
        if out is None: out = []
        out.append(n)
        if not (n.ty & F_REF):
            for c in n.children: self.subtree(c, out)
        return out
    def delete(self, n):
        if n is None: return
        if not (n.ty & F_REF):
            for c in list(n.children): c.parent = None; self.delete(c)
            n.children = []
            if n.vs is not None: self.free(n.vs); n.vs = None
        if not (n.ty & F_CONST) and n.key is not None: self.free(n.key); n.key = None
        self.free_node(n)
    def dump(self, n, depth=0, maxdepth=300):
        if depth > maxdepth: raise Unpredictable('too deep (or cyclic through a reference)')
        if not n.live: raise Unpredictable('dangling node')
        return '{%d,%s,%d,%s,%s%s}' % (n.ty, hxb(n.vs), n.vi, dshort(n.vd), hxb(n.key), ''.join(self.dump(c, depth + 1, maxdepth) for c in self.kids(n)))

    # ---- arguments
    def I(self, t):
        if t == '-': return None
        h = int(t)
        return self.items[h] if 0 <= h < len(self.items) else None
    def S(self, t):
        if t == '-': return None
        r = t[1:]
        if t[0] == 's':
            k = int(r); return self.strs[k] if 0 <= k < len(self.strs) else None
        if t[0] == 'x':
            b = Blk(bytes.fromhex(r) + b'\0', False); self.strs.append(b); return b
        n = self.items[int(r)]
        if n is None: raise Unpredictable('field of a NULL handle')
        return n.key if t[0] == 'k' else n.vs

    # ---- results
    def push(self, n):
        self.items.append(n); return ('ptr', n)
    def canon(self, n):
        if n is None: return '-'
        for i, x in enumerate(self.items):
            if x is n: return 'h%d' % i
        return 'h?'

    # ---- the library, as list operations
    def get_array_item(self, a, idx):
        if a is None: return None
        k = self.kids(a)
        return k[idx] if 0 <= idx < len(k) else None
    def get_object_item(self, o, name, cs):
        if o is None or name is None: return None
        nm = cstr(name.data)
        for c in self.kids(o):
            if cs:
                if c.key is None: return None
                if cstr(c.key.data) == nm: return c
            else:
                if c.key is None: continue
                if c.key is name or fold(cstr(c.key.data)) == fold(nm): return c
        return None
    def owning(self, c, what):
        if c.ty & F_REF: raise Unpredictable('%s on a reference node' % what)
    def append(self, a, item):
        if item is None or a is None or a is item: return False
        self.owning(a, 'append')
        if item.parent is not None: raise Unpredictable('item already has a parent')
        a.children.append(item); item.parent = a
        return True
    def create_reference(self, item):
        if item is None: return None
        r = self.new_node(item.ty | F_REF); r.vs = item.vs; r.vi = item.vi; r.vd = item.vd; r.refchild = self.child_ptr(item)
        return r
    def add_to_object(self, o, s, item, const):
        if o is None or s is None or item is None or o is item: return False
        if const:
            newkey = s; newty = item.ty | F_CONST
            if item.key is s and not (item.ty & F_CONST): raise Unpredictable('constant key aliasing an owned key')
        else:
            newkey = self.strdup(s); newty = item.ty & ~F_CONST
        if not (item.ty & F_CONST) and item.key is not None: self.free(item.key)
        item.key = newkey; item.ty = newty
        return self.append(o, item)
    def detach(self, parent, item):
        if parent is None or item is None: return None
        if item.parent is not parent:
            if item.parent is None and not (self.child_ptr(parent) is item): return None       # no prev link, not the head: refused
            raise Unpredictable('detach through a foreign parent')
        self.owning(parent, 'detach')
        ch = parent.children; del ch[[id(x) for x in ch].index(id(item))]; item.parent = None
        return item
    def replace(self, parent, item, repl):
        if parent is None or self.child_ptr(parent) is None or repl is None or item is None: return False
        if repl is item: return True
        self.owning(parent, 'replace')
        if item.parent is not parent or repl.parent is not None: raise Unpredictable('replace outside the rules')
        ch = parent.children; i = [id(x) for x in ch].index(id(item)); ch[i] = repl; repl.parent = parent; item.parent = None
        self.delete(item)
        return True
    def replace_in_object(self, o, s, repl, cs):
        if repl is None or s is None: return False
        newkey = self.strdup(s)
        if not (repl.ty & F_CONST) and repl.key is not None: self.free(repl.key)
        repl.key = newkey; repl.ty &= ~F_CONST
        return self.replace(o, self.get_object_item(o, newkey, cs), repl)
    def create_string_like(self, ty, s):
        n = self.new_node(ty); n.vs = self.strdup(s)
        if n.vs is None: self.delete(n); return None
        return n
    def create_number(self, d):
        n = self.new_node(T_NUMBER); n.vd = d; n.vi = sat_int(d); return n
    def duplicate(self, item, recurse, depth=0):
        if item is None: return None
        if depth > 300: raise Unpredictable('too deep (or cyclic through a reference)')
        n = self.new_node(item.ty & ~F_REF); n.vi = item.vi; n.vd = item.vd
        if item.vs is not None: n.vs = self.strdup(item.vs)
        if item.key is not None: n.key = item.key if item.ty & F_CONST else self.strdup(item.key)
        if recurse:
            for c in self.kids(item):
                d = self.duplicate(c, True, depth + 1); d.parent = n; n.children.append(d)
        return n
    def add_helper(self, o, s, item):
        if self.add_to_object(o, s, item, False): return self.push(item)
        self.delete(item); return self.push(None)

    def op(self, text):
        a = text.split(':'); o = a[0]; I = self.I; S = self.S
        if o == 'null': return self.push(self.new_node(T_NULL))
        if o == 'true': return self.push(self.new_node(T_TRUE))
        if o == 'false': return self.push(self.new_node(T_FALSE))
        if o == 'bool': return self.push(self.new_node(T_TRUE if a[1] != '0' else T_FALSE))
        if o == 'num': return self.push(self.create_number(parse_dbl(a[1])))
        if o == 'str': s = S(a[1]); return self.push(self.create_string_like(T_STRING, s))
        if o == 'raw': s = S(a[1]); return self.push(self.create_string_like(T_RAW, s))
        if o == 'arr': return self.push(self.new_node(T_ARRAY))
        if o == 'obj': return self.push(self.new_node(T_OBJECT))
        if o == 'sref': s = S(a[1]); n = self.new_node(T_STRING | F_REF); n.vs = s; return self.push(n)
        if o in ('oref', 'aref'):
            n = self.new_node((T_OBJECT if o == 'oref' else T_ARRAY) | F_REF); n.refchild = I(a[1]); return self.push(n)
        if o in ('ints', 'floats', 'doubles', 'strs'):
            count = int(a[1])
            if a[2] == '-' or count < 0:
                if a[2] not in ('-', '=') and o == 'strs': [S(t) for t in a[2].split(',')]
                return self.push(None)
            l = [] if a[2] == '=' else a[2].split(',')
            if o == 'strs': l = [S(t) for t in l]
            if count > len(l): raise Unpredictable('count beyond the caller array')
            arr = self.new_node(T_ARRAY)
            for i in range(count):
                if o == 'ints': c = self.create_number(float(int(l[i])))
                elif o == 'strs':
                    c = self.create_string_like(T_STRING, l[i])
                    if c is None: self.delete(arr); return self.push(None)
                else: c = self.create_number(parse_dbl(l[i]))
                c.parent = arr; arr.children.append(c)
            return self.push(arr)
        if o == 'dup': return self.push(self.duplicate(I(a[1]), a[2] != '0'))
        if o == 'add': return ('flag', self.append(I(a[1]), I(a[2])))
        if o == 'addo': s = S(a[2]); return ('flag', self.add_to_object(I(a[1]), s, I(a[3]), False))
        if o == 'addcs': s = S(a[2]); return ('flag', self.add_to_object(I(a[1]), s, I(a[3]), True))
        if o == 'addref':
            if I(a[1]) is None: return ('flag', False)
            return ('flag', self.append(I(a[1]), self.create_reference(I(a[2]))))
        if o == 'addrefo':
            s = S(a[2])
            if I(a[1]) is None or s is None: return ('flag', False)
            r = self.create_reference(I(a[3]))
            if self.add_to_object(I(a[1]), s, r, False): return ('flag', True)
            self.delete(r); return ('flag', False)
        if o == 'anull': s = S(a[2]); return self.add_helper(I(a[1]), s, self.new_node(T_NULL))
        if o == 'atrue': s = S(a[2]); return self.add_helper(I(a[1]), s, self.new_node(T_TRUE))
        if o == 'afalse': s = S(a[2]); return self.add_helper(I(a[1]), s, self.new_node(T_FALSE))
        if o == 'abool': s = S(a[2]); return self.add_helper(I(a[1]), s, self.new_node(T_TRUE if a[3] != '0' else T_FALSE))
        if o == 'anum': s = S(a[2]); return self.add_helper(I(a[1]), s, self.create_number(parse_dbl(a[3])))
        if o == 'astr': s = S(a[2]); v = S(a[3]); return self.add_helper(I(a[1]), s, self.create_string_like(T_STRING, v))
        if o == 'araw': s = S(a[2]); v = S(a[3]); return self.add_helper(I(a[1]), s, self.create_string_like(T_RAW, v))
        if o == 'aobj': s = S(a[2]); return self.add_helper(I(a[1]), s, self.new_node(T_OBJECT))
        if o == 'aarr': s = S(a[2]); return self.add_helper(I(a[1]), s, self.new_node(T_ARRAY))
        if o == 'detp': return self.push(self.detach(I(a[1]), I(a[2])))
        if o == 'deta':
            w = int(a[2]); return self.push(None if w < 0 else self.detach(I(a[1]), self.get_array_item(I(a[1]), w)))
        if o in ('deto', 'detocs'): s = S(a[2]); return self.push(self.detach(I(a[1]), self.get_object_item(I(a[1]), s, o == 'detocs')))
        if o == 'del':
            n = I(a[1])
            if n is not None and n.parent is not None: raise Unpredictable('delete of an attached item')
            self.delete(n); return ('unit',)
        if o == 'dela':
            w = int(a[2]); self.delete(None if w < 0 else self.detach(I(a[1]), self.get_array_item(I(a[1]), w))); return ('unit',)
        if o in ('delo', 'delocs'):
            s = S(a[2]); self.delete(self.detach(I(a[1]), self.get_object_item(I(a[1]), s, o == 'delocs'))); return ('unit',)
        if o == 'ins':
            arr, w, it = I(a[1]), int(a[2]), I(a[3])
            if w < 0 or it is None or arr is it: return ('flag', False)
            after = self.get_array_item(arr, w)
            if after is None: return ('flag', self.append(arr, it))
            self.owning(arr, 'insert')
            if it.parent is not None: raise Unpredictable('item already has a parent')
            arr.children.insert(w, it); it.parent = arr; return ('flag', True)
        if o == 'repp': return ('flag', self.replace(I(a[1]), I(a[2]), I(a[3])))
        if o == 'repa':
            w = int(a[2]); return ('flag', False if w < 0 else self.replace(I(a[1]), self.get_array_item(I(a[1]), w), I(a[3])))
        if o in ('repo', 'repocs'): s = S(a[2]); return ('flag', self.replace_in_object(I(a[1]), s, I(a[3]), o == 'repocs'))
        if o == 'size': return ('int', 0 if I(a[1]) is None else len(self.kids(I(a[1]))))
        if o == 'get':
            w = int(a[2]); return self.push(None if w < 0 else self.get_array_item(I(a[1]), w))
        if o in ('geto', 'getocs'): s = S(a[2]); return self.push(self.get_object_item(I(a[1]), s, o == 'getocs'))
        if o == 'has': s = S(a[2]); return ('flag', self.get_object_item(I(a[1]), s, False) is not None)
        if o == 'gets':
            n = I(a[1]); return ('str', n.vs if n is not None and (n.ty & 0xFF) == T_STRING else None)
        if o == 'getn':
            n = I(a[1]); return ('dbl', n.vd if n is not None and (n.ty & 0xFF) == T_NUMBER else float('nan'))
        if o == 'each': return ('ints', [] if I(a[1]) is None else [c.ty for c in self.kids(I(a[1]))])
        if o == 'setn':
            n = I(a[1]); d = parse_dbl(a[2])
            if n is not None: n.vi = sat_int(d); n.vd = d
            return ('dbl', d)
        if o == 'seti':
            n = I(a[1]); v = int(a[2])
            if n is not None: n.vd = float(v); n.vi = v
            return ('int', v)
        if o == 'sets':
            s = S(a[2]); n = I(a[1])
            if n is None or not (n.ty & T_STRING) or (n.ty & F_REF): return ('str', None)
            if n.vs is None or s is None: return ('str', None)
            v1 = cstr(s.data); v2 = cstr(n.vs.data)
            if len(v1) <= len(v2):
                if s is n.vs: return ('str', None)
                if not n.vs.lib: raise Unpredictable('write to a foreign block')
                n.vs.data = v1 + b'\0' + n.vs.data[len(v1) + 1:]
                return ('str', n.vs)
            c = self.strdup(s); self.free(n.vs); n.vs = c
            return ('str', c)
        if o == 'setb':
            n = I(a[1])
            if n is None or not (n.ty & 3): return ('int', 0)
            n.ty = (n.ty & ~3) | (T_TRUE if a[2] != '0' else T_FALSE); return ('int', n.ty)
        if o == 'mal':
            b = self.new_blk(b'' if a[1] == '=' else bytes.fromhex(a[1])); self.strs.append(b); return ('flag', True)
        if o == 'free':
            b = S(a[1])
            if b is not None: self.free(b)
            return ('unit',)
        if o == 'string': self.strs.append(Blk((b'' if a[1] == '=' else bytes.fromhex(a[1])) + b'\0', False)); return ('unit',)
        if o == 'chain':
            cur = self.new_node(T_ARRAY)
            for _ in range(int(a[1]) - 1):
                outer = self.new_node(T_ARRAY); outer.children.append(cur); cur.parent = outer; cur = outer
            return self.push(cur)
        if o == 'depth':
            n = I(a[1]); d = 0
            while n is not None and d <= 20000: n = self.child_ptr(n); d += 1
            return ('int', -1 if n is not None else d)
        if o in ('print', 'printbuf', 'printpre', 'minify', 'findptr', 'hooks', 'seal', 'unseal'): return ('ext',)      # no effect on trees or ledger; result not predicted
        raise Unpredictable('operation %s is outside the list model' % o)

    def sweep(self):
        self.items = [n if (n is not None and n.live) else None for n in self.items]
        self.strs = [b if (b is not None and b.live) else None for b in self.strs]
        if len(self.nodes) > 64: self.nodes = [n for n in self.nodes if n.live]

    def render(self, r):
        k = r[0]
        if k == 'ext': return '?'
        if k == 'unit': return '.'
        if k == 'flag': return '1' if r[1] else '0'
        if k == 'ptr': return self.canon(r[1])
        if k == 'int': return str(r[1])
        if k == 'dbl': return dshort(r[1])
        if k == 'str': return hxb(r[1])
        return ','.join(str(x) for x in r[1]) if r[1] else '='

    def roots(self):
        out = []
        for i, n in enumerate(self.items):
            if n is not None and n.parent is None and self.canon(n) == 'h%d' % i: out.append((i, n))
        return out

    def step(self, text, with_dumps):
        """runs one call; returns its output segment (without the separator)"""
        r = self.op(text)
        self.sweep()
        seg = self.render(r)
        if text.startswith('dup:') and r[1] is not None:
            pass    # the list model copies by construction; sharing is what the implementation is checked for
        if with_dumps:
            now = dict((i, self.dump(n)) for i, n in self.roots())
            ch = [(i, '~') for i in self.last if i not in now] + [(i, d) for i, d in now.items() if self.last.get(i) != d]
            for i, d in ch:
                if d == '~': del self.last[i]
                else: self.last[i] = d
            seg += ''.join(' %d:%s' % (i, d) for i, d in sorted(ch))
        return seg + ' L%d' % self.live

def expected(line):
    """the full result line the implementation must produce for a `hist` case without allocation failures,
    or None when the list model cannot predict it"""
    t = line.split(' ')
    if t[0] != 'hist' or t[2] != '0': return None
    cfg = t[1]; sim = Sim(); out = []
    ops = [x for x in (t[3].split(';') if len(t) > 3 else []) if x]
    try:
        for o in ops: out.append(sim.step(o, 'D' in cfg) + ' ; ')
        s = ''.join(out) + 'END live=%d reqs=%d' % (sim.live, sim.reqs)
        if 'X' in cfg:
            for i in range(len(sim.items)):
                n = sim.items[i]
                if n is not None and n.parent is None and sim.canon(n) == 'h%d' % i: sim.delete(n); sim.sweep()
            s += ' X live=%d' % sim.live
        return s
    except Unpredictable:
        return None

# ---------------------------------------------------------------- observables
def segments(out):
    return out.split(' ; ')
def results_only(out):
    """per-call results, dumps and link health — without the ledger"""
    segs = []
    for s in segments(out):
        segs.append(' '.join(t for t in s.split(' ') if not (t.startswith('L') and t[1:].isdigit()) and not t.startswith('live=') and not t.startswith('reqs=')))
    return ' ; '.join(segs)
def ledger_only(out):
    """the ledger after every call and at the end, and the allocator's complaints"""
    keep = []
    for s in segments(out):
        for t in s.split(' '):
            if (t.startswith('L') and t[1:].isdigit()) or t.startswith('live=') or t in ('END', 'X') or t.startswith('DOUBLEFREE') or t.startswith('FOREIGN') \
               or t.startswith('MODELERR') or t.startswith('CRASH') or t == 'NOOUTPUT': keep.append(t)
    return ' '.join(keep)
def health_problem(out):
    if out.startswith('CRASH') or out == 'NOOUTPUT': return 'crash / memory error: ' + out[:80]
    for t in out.split(' '):
        if t.startswith('DOUBLEFREE'): return 'a block was released twice (%s)' % t
        if t.startswith('FOREIGNFREE'): return 'caller memory was released by the library (%s)' % t
        if t.startswith('WRONGALLOCATOR'): return 'a block was handed to the release function of the other allocator (%s)' % t
        if t == 'FOREIGNDAMAGED': return 'caller memory was modified by the library'
        if t.endswith('}!'): return 'sibling chain inconsistent: ' + t[:60]
        if t.endswith(':CYCLE'): return 'malformed / cyclic structure: ' + t
        if t.endswith(',SHARED'): return 'duplicate shares an owned block with its source'
    return None

# ---------------------------------------------------------------- generator
KEYS = [b'a', b'A', b'b', b'B', b'key', b'Key', b'KEY', b'', b'ab', b'aB', b'k2', b'[]', b'{}', b'a\\b', b'a|b', b'^', b'~', b'_', b'\x7f', b'@', b'`']
VALS = [b'', b'x', b'hello', b'a longer string value', b'\xc3\xa9', b'q"\\', b'zz']
NUMS = [0.0, 1.0, -1.0, 2.5, -0.0, 42.0, 1e15, -1e15, 2147483647.0, 2147483648.0, -2147483648.0, -2147483649.0, 0.1, 1e-7, 1.7976931348623157e308, float('inf'), 3.999, -3.999, 123456789.0]
INTS = [0, 1, -1, 7, 2147483647, -2147483648, 100000]
FLOATS = [0.0, 1.5, -2.25, 3.4028234663852886e38, 1.401298464324817e-45, 100.0]

def dt(x): return 'nan' if x != x else '%016x' % dbl_bits(x)

class Gen:
    """builds one history; every choice is made on the oracle's current state so that the documented rules hold"""
    def __init__(self, rng, profile='edit', max_roots=8, with_print=False):
        self.rng = rng; self.sim = Sim(); self.ops = []; self.tags = set(); self.profile = profile; self.max_roots = max_roots; self.with_print = with_print

    # ---- views of the state
    def handles(self, pred):
        return [i for i, n in enumerate(self.sim.items) if n is not None and pred(n)]
    def roots(self): return [i for i, n in self.sim.roots()]
    def containers(self, kind=None):
        return self.handles(lambda n: not (n.ty & F_REF) and (n.ty & 0xFF) in ((T_ARRAY, T_OBJECT) if kind is None else (kind,)))
    def external_refs(self, tree_nodes):
        """live reference nodes outside `tree_nodes` that look into it (child pointer or value string)"""
        ids = set(id(x) for x in tree_nodes); blks = set(id(x.vs) for x in tree_nodes if x.vs is not None and not (x.ty & F_REF))
        out = []
        for r in self.sim.nodes:
            if r.live and (r.ty & F_REF) and id(r) not in ids:
                if (r.refchild is not None and id(r.refchild) in ids) or (r.vs is not None and id(r.vs) in blks): out.append(r)
        return out
    def refs_into(self, tree_nodes, target_nodes):
        ids = set(id(x) for x in target_nodes)
        return any((r.ty & F_REF) and r.refchild is not None and id(r.refchild) in ids for r in tree_nodes)
    def movable(self, dest):
        """live roots that may be attached below container `dest` without creating a cycle"""
        s = self.sim; droot = s.root_of(dest); dnodes = None; out = []
        for i, n in s.roots():
            if n is droot: continue
            if dnodes is None: dnodes = s.subtree(droot)
            if self.refs_into(s.subtree(n), dnodes): continue
            out.append(i)
        return out
    def deletable(self, n):
        return not self.external_refs(self.sim.subtree(n))

    # ---- emitting
    def emit(self, text, tag=None):
        # while reference nodes exist a call may leave a reference dangling or close a cycle through it (both are
        # outside the documented rules): such a call is tried on the oracle and dropped
        risky = text.split(':')[0] in ('oref', 'aref', 'addref', 'addrefo') or any(n.live and (n.ty & F_REF) for n in self.sim.nodes)
        snap = copy.deepcopy(self.sim) if risky else None
        try:
            self.sim.step(text, False)
            if risky:
                for _, n in self.sim.roots(): self.sim.dump(n, 0, 80)
        except Unpredictable:
            if snap is None: raise
            self.sim = snap; self.tags.add('dropped-call'); return False
        self.ops.append(text)
        self.tags.add(tag or text.split(':')[0])
        return True

    def key(self, item=None, const=False):
        """a key argument: literal, pooled, or a pointer into an existing item"""
        r = self.rng; s = self.sim
        x = r.random()
        if item is not None and x < 0.22:
            n = s.items[item]
            if n.key is not None and ((n.ty & F_CONST) or not const): self.tags.add('key-aliases-own-key'); return 'k%d' % item
        if x < 0.32 and not const:
            c = self.handles(lambda n: n.key is not None)
            if c: self.tags.add('key-aliases-other-key'); return 'k%d' % r.choice(c)
        if x < 0.5:
            c = [k for k, b in enumerate(s.strs) if b is not None and not b.lib]
            if c: return 's%d' % r.choice(c)
        return 'x' + r.choice(KEYS).hex()
    def present_key(self, o, fuzz=True):
        """a key text related to the members of container o: exact, case variant, or missing"""
        r = self.rng; ks = [cstr(c.key.data) for c in self.sim.kids(o) if c.key is not None]
        x = r.random()
        if ks and x < 0.55: k = r.choice(ks)
        elif ks and x < 0.8: k = r.choice(ks).swapcase()
        else: k = r.choice(KEYS)
        return 'x' + k.hex()
    def index(self, a):
        n = len(self.sim.kids(a)); return self.rng.choice([-1, 0, 1, n - 1, n, n + 1, n // 2])

    # ---- one random legal call
    def create(self):
        r = self.rng; k = r.randrange(16)
        if k == 0: self.emit('null')
        elif k == 1: self.emit(r.choice(['true', 'false', 'bool:1', 'bool:0']))
        elif k in (2, 3): self.emit('num:' + dt(r.choice(NUMS)))
        elif k in (4, 5): self.emit('str:x' + r.choice(VALS).hex())
        elif k == 6: self.emit('raw:x' + r.choice(VALS).hex())
        elif k in (7, 8, 9): self.emit('arr')
        elif k in (10, 11, 12): self.emit('obj')
        elif k == 13:
            n = r.randrange(0, 5); l = [r.choice(INTS) for _ in range(n)]; c = r.choice([n, n, max(0, n - 1)])
            self.emit('ints:%d:%s' % (c, ','.join(map(str, l)) if l else '='))
        elif k == 14:
            n = r.randrange(0, 4); kind = r.choice(['floats', 'doubles']); l = [r.choice(FLOATS if kind == 'floats' else NUMS) for _ in range(n)]
            self.emit('%s:%d:%s' % (kind, n, ','.join(dt(x) for x in l) if l else '='))
        else:
            n = r.randrange(0, 4); self.emit('strs:%d:%s' % (n, ','.join('x' + r.choice(VALS).hex() for _ in range(n)) if n else '='))

    def step(self):
        r = self.rng; s = self.sim; roots = self.roots()
        if not roots or (len(roots) < 3 and r.random() < 0.5): return self.create()
        w = {'edit': [('create', 10), ('add', 22), ('detach', 10), ('delete', 7), ('insert', 8), ('replace', 10), ('query', 14), ('set', 7), ('ref', 4), ('dup', 3), ('refused', 8)],
             'own':  [('create', 8), ('add', 24), ('detach', 10), ('delete', 8), ('insert', 4), ('replace', 14), ('query', 4), ('set', 8), ('ref', 10), ('dup', 5), ('refused', 5)],
             'dup':  [('create', 8), ('add', 24), ('detach', 5), ('delete', 4), ('insert', 4), ('replace', 6), ('query', 4), ('set', 5), ('ref', 10), ('dup', 14), ('refused', 3)]}[self.profile]
        kind = r.choices([k for k, _ in w], [x for _, x in w])[0]
        if kind == 'create':
            if len(roots) < self.max_roots: return self.create()
            kind = 'add'
        if kind == 'add':
            cs = self.containers()
            if not cs: return self.create()
            c = r.choice(cs); cn = s.items[c]; mv = self.movable(cn)
            is_obj = (cn.ty & 0xFF) == T_OBJECT
            x = r.random()
            if x < 0.3 and is_obj:       # helpers create and add in one call
                k = self.key(); h = r.choice(['anull', 'atrue', 'afalse', 'abool', 'anum', 'astr', 'araw', 'aobj', 'aarr'])
                extra = {'abool': ':%d' % r.randrange(2), 'anum': ':' + dt(r.choice(NUMS)), 'astr': ':x' + r.choice(VALS).hex(), 'araw': ':x' + r.choice(VALS).hex()}.get(h, '')
                return self.emit('%s:%d:%s%s' % (h, c, k, extra))
            if not mv: return self.create() if len(roots) < self.max_roots else self.query()
            it = r.choice(mv)
            if is_obj:
                if r.random() < 0.3: return self.emit('addcs:%d:%s:%d' % (c, self.key(it, const=True), it))
                return self.emit('addo:%d:%s:%d' % (c, self.key(it), it))
            if r.random() < 0.12 and s.items[it].key is not None and not (s.items[it].ty & F_CONST):
                return self.emit('addo:%d:k%d:%d' % (c, it, it), 'addo-own-key')   # an array can be used as an object container too
            return self.emit('add:%d:%d' % (c, it))
        if kind == 'insert':
            cs = self.containers()
            if not cs: return self.create()
            c = r.choice(cs); mv = self.movable(s.items[c])
            if not mv: return self.query()
            return self.emit('ins:%d:%d:%d' % (c, self.index(s.items[c]), r.choice(mv)))
        if kind == 'detach':
            if len(roots) >= self.max_roots + 2: kind = 'delete'
            else:
                cs = [c for c in self.containers() if s.items[c].children]
                if not cs: return self.query()
                c = r.choice(cs); cn = s.items[c]; x = r.random()
                if x < 0.35: return self.emit('deta:%d:%d' % (c, self.index(cn)))
                if x < 0.6: return self.emit('%s:%d:%s' % (r.choice(['deto', 'detocs']), c, self.present_key(cn)))
                ch = r.choice(cn.children); hs = [i for i, n in enumerate(s.items) if n is ch]
                if not hs: return self.emit('get:%d:%d' % (c, cn.children.index(ch)))
                return self.emit('detp:%d:%d' % (c, hs[0]))
        if kind == 'delete':
            x = r.random()
            cs = [c for c in self.containers() if s.items[c].children]
            if x < 0.45 or not cs:
                cand = [i for i in roots if self.deletable(s.items[i])]
                if not cand: return self.query()
                return self.emit('del:%d' % r.choice(cand))
            c = r.choice(cs); cn = s.items[c]
            if x < 0.75:
                w_ = self.index(cn); t = s.get_array_item(cn, w_) if w_ >= 0 else None
                if t is not None and not self.deletable(t): return self.query()
                return self.emit('dela:%d:%d' % (c, w_))
            cs_ = r.random() < 0.5; k = self.present_key(cn)
            probe = Blk(bytes.fromhex(k[1:]) + b'\0', False); t = s.get_object_item(cn, probe, cs_)
            if t is not None and not self.deletable(t): return self.query()
            return self.emit('%s:%d:%s' % ('delocs' if cs_ else 'delo', c, k))
        if kind == 'replace':
            cs = [c for c in self.containers() if s.items[c].children]
            if not cs: return self.create()
            c = r.choice(cs); cn = s.items[c]; mv = self.movable(cn)
            if not mv: return self.create() if len(roots) < self.max_roots else self.query()
            rp = r.choice(mv); x = r.random()
            if x < 0.3:
                w_ = self.index(cn); t = s.get_array_item(cn, w_) if w_ >= 0 else None
                if t is not None and not self.deletable(t): return self.query()
                return self.emit('repa:%d:%d:%d' % (c, w_, rp))
            if x < 0.75:
                cs_ = r.random() < 0.5; rn = s.items[rp]
                if rn.key is not None and r.random() < 0.45:
                    k = 'k%d' % rp; probe = rn.key; self.tags.add('replace-key-aliases-own-key')
                else:
                    k = self.present_key(cn); probe = Blk(bytes.fromhex(k[1:]) + b'\0', False)
                t = s.get_object_item(cn, probe, cs_)
                if t is not None and not self.deletable(t): return self.query()
                return self.emit('%s:%d:%s:%d' % ('repocs' if cs_ else 'repo', c, k, rp))
            ch = r.choice(cn.children); hs = [i for i, n in enumerate(s.items) if n is ch]
            if not hs: return self.emit('get:%d:%d' % (c, cn.children.index(ch)))
            if not self.deletable(ch): return self.query()
            return self.emit('repp:%d:%d:%d' % (c, hs[0], rp))
        if kind == 'query': return self.query()
        if kind == 'set':
            hs = self.handles(lambda n: True); h = r.choice(hs); n = s.items[h]; x = r.random()
            if x < 0.3: return self.emit('setn:%d:%s' % (h, dt(r.choice(NUMS))))
            if x < 0.4: return self.emit('seti:%d:%d' % (h, r.choice(INTS)))
            if x < 0.55:
                # aim at booleans (the only items the call changes), and among them at the ones carrying flag bits (constant key, reference)
                bs = self.handles(lambda n: n.ty & 3); fs = [i for i in bs if s.items[i].ty & ~0xff]
                if fs and r.random() < 0.5: h = r.choice(fs); self.tags.add('setbool-flagged')
                elif bs and r.random() < 0.7: h = r.choice(bs)
                return self.emit('setb:%d:%d' % (h, r.randrange(2)))
            ss = self.handles(lambda n: (n.ty & T_STRING) and n.vs is not None)
            if ss and r.random() < 0.8: h = r.choice(ss); n = s.items[h]
            y = r.random()
            if y < 0.12 and n.vs is not None: return self.emit('sets:%d:v%d' % (h, h), 'sets-own-value')
            v = r.choice(VALS)
            grows = n.vs is not None and (n.ty & T_STRING) and not (n.ty & F_REF) and len(cstr(v)) > len(cstr(n.vs.data))
            if grows and any(x_.live and (x_.ty & F_REF) and x_.vs is n.vs for x_ in s.nodes): return self.query()
            return self.emit('sets:%d:x%s' % (h, v.hex()))
        if kind == 'ref':
            x = r.random()
            if x < 0.2 and len(roots) < self.max_roots: return self.emit('sref:x' + r.choice(VALS).hex())
            if x < 0.4 and len(roots) < self.max_roots:
                hs = self.handles(lambda n: True)
                return self.emit('%s:%d' % (r.choice(['oref', 'aref']), r.choice(hs)))
            cs = self.containers()
            if not cs: return self.create()
            c = r.choice(cs); cn = s.items[c]
            t = r.choice(self.handles(lambda n: True))     # (a reference that would close a cycle is dropped by emit)
            if (cn.ty & 0xFF) == T_OBJECT: return self.emit('addrefo:%d:%s:%d' % (c, self.key(), t))
            return self.emit('addref:%d:%d' % (c, t))
        if kind == 'dup':
            if len(roots) >= self.max_roots: return self.query()
            hs = self.handles(lambda n: True)
            return self.emit('dup:%d:%d' % (r.choice(hs), r.choice([1, 1, 1, 0])))
        return self.refused()

    def query(self):
        r = self.rng; s = self.sim; hs = self.handles(lambda n: True)
        if not hs: return self.create()
        h = r.choice(hs); n = s.items[h]; x = r.random()
        cs = self.handles(lambda n: (n.ty & 0xFF) in (T_ARRAY, T_OBJECT))
        if cs and x < 0.75: h = r.choice(cs); n = s.items[h]
        k = r.randrange(8)
        if self.with_print and r.random() < 0.25:
            if any(x.live and (x.ty & 0xFF) == T_RAW and x.vs is None for x in s.subtree(n)): return self.emit('size:%d' % h)
            return self.emit(r.choice(['print:%d:0', 'print:%d:1', 'printbuf:%d:1:1', 'printbuf:%d:300:0']) % h, 'print')
        if k == 0: return self.emit('size:%d' % h)
        if k == 1: return self.emit('each:%d' % h)
        if k in (2, 3): return self.emit('get:%d:%d' % (h, self.index(n)))
        if k in (4, 5): return self.emit('%s:%d:%s' % (r.choice(['geto', 'getocs', 'has']), h, self.present_key(n)))
        if k == 6: return self.emit('gets:%d' % h)
        return self.emit('getn:%d' % h)

    def refused(self):
        """calls the library must refuse (or treat as no-ops): the state of every container stays as it is"""
        r = self.rng; s = self.sim; hs = self.handles(lambda n: True); roots = self.roots()
        cs = self.containers() or self.handles(lambda n: not (n.ty & F_REF))
        if not cs: return self.emit('size:-', 'refused:size')
        c = r.choice(cs); cn = s.items[c]; it = r.choice(roots); k = 'x' + r.choice(KEYS).hex()
        n = len(s.kids(cn))
        opts = ['add:-:%d' % it, 'add:%d:-' % c, 'add:%d:%d' % (c, c), 'addo:%d:-:%d' % (c, it), 'addo:-:%s:%d' % (k, it), 'addo:%d:%s:-' % (c, k),
                'addo:%d:%s:%d' % (c, k, c), 'addcs:%d:-:%d' % (c, it), 'addcs:-:%s:%d' % (k, it), 'addcs:%d:%s:%d' % (c, k, c), 'addref:-:%d' % it, 'addref:%d:-' % c,
                'addrefo:-:%s:%d' % (k, it), 'addrefo:%d:-:%d' % (c, it), 'addrefo:%d:%s:-' % (c, k),
                'anull:-:%s' % k, 'anum:%d:-:%s' % (c, dt(1.0)), 'astr:%d:%s:-' % (c, k), 'astr:-:%s:x61' % k, 'aobj:%d:-' % c, 'aarr:-:%s' % k, 'araw:%d:-:x61' % c, 'abool:-:%s:1' % k,
                'atrue:%d:-' % c, 'afalse:-:%s' % k,
                'detp:-:%d' % it, 'detp:%d:-' % c, 'deta:-:0', 'deta:%d:-1' % c, 'deta:%d:%d' % (c, n), 'deta:%d:%d' % (c, n + 1), 'deto:%d:-' % c, 'deto:-:%s' % k, 'detocs:%d:x6e6f6e65' % c, 'deto:%d:x6e6f6e65' % c,
                'del:-', 'dela:-:0', 'dela:%d:-1' % c, 'dela:%d:%d' % (c, n), 'delo:%d:-' % c, 'delo:-:%s' % k, 'delocs:%d:x6e6f6e65' % c, 'delo:%d:x6e6f6e65' % c,
                'ins:%d:-1:%d' % (c, it), 'ins:%d:0:-' % c, 'ins:%d:0:%d' % (c, c), 'ins:%d:%d:%d' % (c, n, c), 'ins:-:0:%d' % it,
                'repp:-:%d:%d' % (it, it), 'repp:%d:-:%d' % (c, it), 'repa:%d:-1:%d' % (c, it), 'repa:%d:%d:%d' % (c, n, it), 'repa:%d:0:-' % c, 'repa:-:0:%d' % it,
                'repo:%d:-:%d' % (c, it), 'repo:%d:%s:-' % (c, k), 'repocs:%d:-:%d' % (c, it),
                'size:-', 'get:-:0', 'get:%d:-1' % c, 'get:%d:%d' % (c, n), 'geto:%d:-' % c, 'geto:-:%s' % k, 'getocs:%d:-' % c, 'has:-:%s' % k, 'has:%d:-' % c, 'gets:-', 'getn:-', 'each:-',
                'setn:-:%s' % dt(2.0), 'seti:-:5', 'sets:-:x61', 'sets:%d:-' % it, 'setb:-:1', 'str:-', 'raw:-', 'ints:-1:1,2', 'ints:2:-', 'doubles:-1:=', 'floats:1:-', 'strs:-1:=', 'strs:1:-',
                'floats:-1:%s,%s' % (dt(1.5), dt(2.5)), 'doubles:-1:%s,%s' % (dt(1.5), dt(2.5)), 'strs:-1:x61,x62', 'floats:-3:%s' % dt(0.5), 'doubles:-2:%s' % dt(0.5), 'ints:-3:7', 'dup:-:1', 'oref:-', 'sref:-']
        # detaching an item through a container that is not its parent: refused when the item is a detached root
        if s.items[it] is not s.root_of(cn): opts += ['detp:%d:%d' % (c, it)] * 3
        # a replacement by key that finds nothing still renames the replacement (documented side effect of the call order)
        if s.items[it] is not s.root_of(cn) and not (cn.ty & F_REF): opts += ['repo:%d:x6e6f6e65:%d' % (c, it), 'repocs:%d:x6e6f6e65:%d' % (c, it)] * 2
        t = r.choice(opts)
        if t.split(':')[0] in ('oref', 'sref', 'str', 'raw', 'dup') and len(roots) >= self.max_roots + 4: t = 'size:-'
        self.emit(t, 'refused:' + t.split(':')[0])

    def run(self, nops):
        for _ in range(nops):
            self.step()
        return self

def history_case(rng, profile, nops, cfg='DX', max_roots=8, extra_tags=(), with_print=False):
    g = Gen(rng, profile, max_roots, with_print).run(nops)
    line = 'hist %s 0 %s' % (cfg, ';'.join(g.ops))
    return Case(line, {'tags': sorted(g.tags) + list(extra_tags), 'nops': len(g.ops)})

# ---------------------------------------------------------------- directed families
def directed_link_cases():
    """every position of every relinking call on containers of 1..4 children, followed by an append and the queries
    (the tail link head->prev and the cleared links of a detached item only show in what happens NEXT)"""
    cases = []
    for obj in (False, True):
        for n in (1, 2, 3, 4):
            for pos in range(n):
                for what in ('deta', 'dela', 'detp', 'repa', 'repp', 'ins', 'deto', 'delocs', 'repo', 'repocs'):
                    if not obj and what in ('deto', 'delocs', 'repo', 'repocs'): continue
                    ops = ['obj' if obj else 'arr']
                    for i in range(n):
                        ops.append('num:' + dt(float(i + 1)))
                        ops.append(('addo:0:x%s:%d' % (bytes([107, 48 + i]).hex(), i + 1)) if obj else 'add:0:%d' % (i + 1))
                    nh = n + 1                      # next free handle
                    key = 'x' + bytes([107, 48 + pos]).hex()
                    if what == 'deta': ops += ['deta:0:%d' % pos]; nh += 1; moved = nh - 1
                    elif what == 'dela': ops += ['dela:0:%d' % pos]; moved = None
                    elif what == 'detp': ops += ['detp:0:%d' % (pos + 1)]; nh += 1; moved = pos + 1
                    elif what == 'deto': ops += ['deto:0:%s' % key.replace('6b', '4b', 1)]; nh += 1; moved = pos + 1
                    elif what == 'delocs': ops += ['delocs:0:%s' % key]; moved = None
                    elif what in ('repa', 'repp', 'repo', 'repocs'):
                        ops += ['str:x7265706c']; r = nh; nh += 1
                        ops += [{'repa': 'repa:0:%d:%d' % (pos, r), 'repp': 'repp:0:%d:%d' % (pos + 1, r), 'repo': 'repo:0:%s:%d' % (key.replace('6b', '4b', 1), r),
                                 'repocs': 'repocs:0:%s:%d' % (key, r)}[what]]
                        moved = None
                    else:
                        ops += ['true']; r = nh; nh += 1; ops += ['ins:0:%d:%d' % (pos, r)]; moved = None
                    # what comes next: the detached item is used again, the container is appended to and walked
                    if moved is not None: ops += ['arr']; a2 = nh; nh += 1; ops += ['add:%d:%d' % (a2, moved), 'size:%d' % a2]
                    ops += ['null']; x = nh; nh += 1
                    ops += [('addo:0:x7a:%d' % x) if obj else 'add:0:%d' % x, 'size:0', 'each:0']
                    ops += ['get:0:%d' % i for i in range(n + 1)]
                    ops += ['deta:0:0', 'false']; f = nh + n + 2
                    ops += ['ins:0:0:%d' % f, 'size:0']
                    cases.append(Case('hist DX 0 ' + ';'.join(ops), {'tags': ['directed', 'directed:' + what, 'size%d' % n]}))
    return cases

def setbool_cases():
    """cJSON_SetBoolValue on booleans that carry ownership flags (constant key; reference to a boolean): only the two value bits may change"""
    res = []
    for b0 in ('true', 'false'):
        for v in (0, 1):
            res.append(Case('hist DX 0 obj;%s;addcs:0:x636b:1;setb:1:%d;each:0;dup:0:1;each:2;del:2;geto:0:x636b;del:0' % (b0, v), {'tags': ['directed', 'setbool-flagged']}))
            res.append(Case('hist DX 0 obj;%s;addcs:0:x636b:1;setb:1:%d;setb:1:%d;deto:0:x636b;del:1;del:0' % (b0, v, 1 - v), {'tags': ['directed', 'setbool-flagged']}))
            res.append(Case('hist DX 0 obj;%s;addcs:0:x636b:1;%s;setb:1:%d;repocs:0:x636b:2;del:0' % (b0, b0, v), {'tags': ['directed', 'setbool-flagged']}))
            res.append(Case('hist DX 0 arr;%s;addref:0:1;get:0:0;setb:2:%d;each:0;del:0;del:1' % (b0, v), {'tags': ['directed', 'setbool-flagged']}))
    # cJSON_SetValuestring on reference nodes (borrowed value: caller string / string of another tree): refused for every length
    for v in ('x61', 'x6c6f6e676572', 'x6c6f6e676572207468616e20746865206f6c642076616c7565', 'x'):
        res.append(Case('hist DX 0 sref:x6c6f6e676572;sets:0:%s;gets:0;del:0' % v, {'tags': ['directed', 'setvaluestring-on-reference']}))
        res.append(Case('hist DX 0 str:x6c6f6e676572;arr;addref:1:0;get:1:0;sets:2:%s;gets:0;gets:2;del:1;gets:0;del:0' % v, {'tags': ['directed', 'setvaluestring-on-reference']}))
    # bulk string-array constructor with a NULL entry at every position: the documented NULL result, and every element built before it released
    for l in ('-', 'x61,-', '-,x61', 'x61,x6262,-', 'x61,-,x6262', 'x61,x6262,x63,x64,-'):
        n = len(l.split(','))
        res.append(Case('hist DX 0 strs:%d:%s;size:0;arr;strs:%d:%s;del:1' % (n, l, n, l), {'tags': ['directed', 'string-array-null-entry']}))
    # an item replaced BY ITSELF (a caller that "normalises" members and hands back the existing one): a no-op that returns true
    three = 'arr;null;add:0:1;true;add:0:2;false;add:0:3'
    for h in (1, 2, 3):
        res.append(Case('hist DX 0 %s;repp:0:%d:%d;size:0;each:0;repa:0:%d:%d;each:0;del:0' % (three, h, h, h - 1, h), {'tags': ['directed', 'self-replacement']}))
    res.append(Case('hist DX 0 arr;null;add:0:1;repp:0:1:1;repa:0:0:1;size:0;add:0:-;del:0', {'tags': ['directed', 'self-replacement']}))
    for rep in ('repo', 'repocs'):
        res.append(Case('hist DX 0 obj;null;addo:0:x6b31:1;true;addo:0:x6b32:2;false;addcs:0:x6b33:3;%s:0:x6b32:2;each:0;%s:0:x6b31:1;%s:0:x6b33:3;each:0;geto:0:x6b33;del:0'
                        % (rep, rep, rep), {'tags': ['directed', 'self-replacement']}))
    return res

def directed_key_cases():
    """objects whose keys collide under ASCII case folding, in every order, queried with every spelling through every
    by-key call (first exact match / first folded match)"""
    import itertools
    cases = []
    spell = [b'Key', b'key', b'KEY']
    for perm in itertools.permutations(spell):
        for q in (b'key', b'Key', b'KEY', b'kEy', b'ke'):
            for what in ('geto', 'getocs', 'has', 'deto', 'detocs', 'delo', 'delocs', 'repo', 'repocs'):
                ops = ['obj']
                for i, k in enumerate(perm):
                    ops += ['num:' + dt(float(i + 1)), 'addo:0:x%s:%d' % (k.hex(), i + 1)]
                ops += ['anull:0:x6f74686572']          # handle 4
                if what.startswith('rep'): ops += ['str:x6e6577', '%s:0:x%s:5' % (what, q.hex())]
                else: ops += ['%s:0:x%s' % (what, q.hex())]
                ops += ['size:0', 'each:0', 'geto:0:x%s' % q.hex(), 'getocs:0:x%s' % q.hex()]
                cases.append(Case('hist DX 0 ' + ';'.join(ops), {'tags': ['directed', 'directed-keys:' + what]}))
    # the boundaries of the ASCII fold: bytes that differ from a letter's neighbours only in bit 0x20 must NOT be identified
    pairs = [(b'[]', b'{}'), (b'a\\b', b'a|b'), (b'^', b'~'), (b'_', b'\x7f'), (b'@', b'`'), (b'Z[', b'z{'), (b'a', b'A')]
    for k1, k2 in pairs:
        for first, second in ((k1, k2), (k2, k1)):
            for q in (k1, k2):
                for what in ('geto', 'getocs', 'has', 'deto', 'delo', 'repo', 'repocs', 'detocs'):
                    ops = ['obj', 'num:' + dt(1.0), 'addo:0:x%s:1' % first.hex(), 'anull:0:x6f74686572']        # only `first` is present; handle 2 = other
                    if what.startswith('rep'): ops += ['str:x6e6577', '%s:0:x%s:3' % (what, q.hex())]
                    else: ops += ['%s:0:x%s' % (what, q.hex())]
                    ops += ['size:0', 'each:0', 'num:' + dt(2.0)]
                    nh = 4 if what.startswith('rep') else 3
                    if what in ('deto', 'detocs') : nh += 1     # a detached item (or NULL) was pushed
                    cases.append(Case('hist DX 0 ' + ';'.join(ops), {'tags': ['directed', 'directed-fold:' + what]}))
    return cases

def print_failure_cases():
    """printing with the k-th allocation request of the print call failing (custom hooks: manual buffer growth);
    the ledger must be what it was and nothing may be released twice"""
    cases = []
    long_s = (b'long string value ' * 20).hex()
    build = 'obj;astr:0:x6b:x%s;arr;add:0:2;anum:0:x6e:4000000000000000' % long_s      # handles 0 obj, 1 str, 2 arr, 3 num
    for call in ('print:0:0', 'print:0:1', 'printbuf:0:8:0', 'printbuf:0:8:1', 'printbuf:0:300:1', 'print:1:0', 'printbuf:1:1:0'):
        for k in range(1, 6):
            cases.append(Case('hist DX @5.%d %s;%s;size:0' % (k, build, call), {'tags': ['print-under-failure', 'fail-request-%d' % k]}))
    return cases

def wide_cases(limit):
    """containers with about CJSON_CIRCULAR_LIMIT children (the limit bounds depth, not width), also a few levels down"""
    cases = []
    for w, wrap in ((limit - 1, 0), (limit + 1, 0), (limit - 1, 3), (limit // 2 + 1, limit // 2)):
        lst = ','.join(['7'] * w)
        e = [('ints:%d:%s' % (w, lst), 'h0 L%d' % (w + 1))]; top = 0; n = w + 1
        if wrap:
            e.append(('chain:%d' % wrap, 'h1 L%d' % (n + wrap))); n += wrap
            # the chain's innermost array is reached through its handles: get the innermost by walking down
            cur = 1; h = 2
            for _ in range(wrap - 1): e.append(('get:%d:0' % cur, 'h%d L%d' % (h, n))); cur = h; h += 1
            e.append(('add:%d:0' % cur, '1 L%d' % n)); top = 1
        else: h = 1
        e += [('dup:%d:1' % top, 'h%d L%d' % (h, 2 * n)), ('depth:%d' % h, '%d L%d' % ((wrap + 2) if w else wrap + 1, 2 * n)), ('del:%d' % h, '. L%d' % n), ('del:%d' % top, '. L0')]
        ops = [o for o, _ in e]; segs = [x for _, x in e]
        cases.append(Case('hist TXS 0 ' + ';'.join(ops), {'tags': ['deep', 'wide', 'wide:%d/depth:%d' % (w, wrap)], 'expect_segments': segs}))
    return cases

def circular_limit(repo):
    import re, os
    try:
        m = re.search(r'#\s*define\s+CJSON_CIRCULAR_LIMIT\s+(\d+)', open(os.path.join(repo, 'cJSON.h')).read())
        return int(m.group(1))
    except Exception:
        return 10000

def deep_cases(limit, model_too=()):
    """chains around CJSON_CIRCULAR_LIMIT and hand-built 1-/2-/3-cycles, duplicated on a thread with a small stack.
    info['expect_segments'] = the per-call results and ledger the property demands (request counts are not part of it).
    The extracted model needs minutes for 10^4 live blocks (set union in Heap.v is linear), so these cases carry the
    S flag (model driver answers MODEL-SKIPPED, the verdict alone judges the implementation) unless their tag is in model_too."""
    cases = []
    def mk(ops_exp, tags):
        ops = [o for o, _ in ops_exp]; segs = [e for _, e in ops_exp]
        cfg = 'TX' if any(t in model_too for t in tags) else 'TXS'
        cases.append(Case('hist %s 0 ' % cfg + ';'.join(ops), {'tags': ['deep'] + tags, 'expect_segments': segs}))
    for n in (limit - 1, limit, limit + 1, limit + 2, limit + 3):
        ok = n <= limit + 1          # the deepest node that has a child sits at depth n-2, which must be below the limit
        e = [('chain:%d' % n, 'h0 L%d' % n), ('depth:0', '%d L%d' % (n if n <= 20000 else -1, n))]
        if ok:
            e += [('dup:0:1', 'h1 L%d' % (2 * n)), ('depth:1', '%d L%d' % (n, 2 * n)), ('depth:0', '%d L%d' % (n, 2 * n)), ('del:1', '. L%d' % n)]
        else:
            e += [('dup:0:1', '- L%d' % n), ('depth:0', '%d L%d' % (n, n))]
        e += [('dup:0:0', 'h2 L%d' % (n + 1)), ('depth:2', '1 L%d' % (n + 1)), ('del:2', '. L%d' % n), ('del:0', '. L0')]
        mk(e, ['chain', 'chain:limit%+d' % (n - limit), 'dup-ok' if ok else 'dup-refused'])
    # an over-deep chain as the LAST of several children: the refused duplicate must release the copies of the earlier siblings too
    for n in (limit + 2, limit + 3):
        L = n + 4
        e = [('arr', 'h0 L1'), ('str:x61', 'h1 L3'), ('add:0:1', '1 L3'), ('num:3ff0000000000000', 'h2 L4'), ('add:0:2', '1 L4'), ('chain:%d' % n, 'h3 L%d' % L),
             ('add:0:3', '1 L%d' % L), ('dup:0:1', '- L%d' % L), ('dup:0:0', 'h5 L%d' % (L + 1)), ('del:5', '. L%d' % L), ('del:0', '. L0')]
        mk(e, ['chain', 'deep-last-sibling', 'dup-refused'])
    for k in (1, 2, 3):
        e = [('arr', 'h%d L%d' % (i, i + 1)) for i in range(k)]
        for i in range(k):
            j = (i + 1) % k
            e += [('setchild:%d:%d' % (i, j), '. L%d' % k), ('setlinks:%d:-:%d' % (j, j), '. L%d' % k)]
        e += [('dup:0:1', '- L%d' % k), ('depth:0', '-1 L%d' % k), ('dup:%d:1' % (k - 1), '- L%d' % k), ('dup:0:0', 'h%d L%d' % (k + 2, k + 1)),
              ('depth:%d' % (k + 2), '1 L%d' % (k + 1)), ('del:%d' % (k + 2), '. L%d' % k)]
        # open the cycle again and release it
        e += [('setchild:%d:-' % (k - 1), '. L%d' % k), ('setlinks:0:-:-', '. L%d' % k), ('depth:0', '%d L%d' % (k, k)), ('del:0', '. L0')]
        mk(e, ['cycle', 'cycle%d' % k])
    return cases

def deep_verdict(case, out):
    """for the deep / cyclic cases: results and ledger as demanded, final balance"""
    segs = out.split(' ; ')
    exp = case.info['expect_segments']
    for i, e in enumerate(exp):
        if i >= len(segs): return 'output ends after call %d' % i
        if segs[i].strip() != e: return 'call %d (%s): expected "%s", got "%s"' % (i, case.line.split(' ')[3].split(';')[i], e, segs[i][:80])
    tail = segs[len(exp)] if len(segs) > len(exp) else ''
    if 'END live=0' not in tail or 'X live=0' not in tail: return 'ledger not balanced at the end: ' + tail[:80]
    return None

def diff_report(line, out, exp, view):
    a = view(out).split(' ; '); b = view(exp).split(' ; ')
    ops = [x for x in line.split(' ')[3].split(';') if x] if len(line.split(' ')) > 3 else []
    for i in range(max(len(a), len(b))):
        x = a[i] if i < len(a) else '<nothing>'; y = b[i] if i < len(b) else '<nothing>'
        if x != y:
            return 'call %d (%s): the list model predicts "%s", the implementation did "%s"' % (i, ops[i] if i < len(ops) else 'end', y[:160], x[:160])
    return None
