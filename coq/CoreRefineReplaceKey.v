(** CoreRefineReplaceKey.v — [replace_item_in_object] (= cJSON_ReplaceItemInObject /
    cJSON_ReplaceItemInObjectCaseSensitive; the site of finding F5, repaired in /repo: the name
    is copied BEFORE the replacement's old key is released, and the member is looked up by the
    copy).  [rk_state]: the state after the re-keying of the replacement (well-formed, keys
    readable, the copy readable); [replace_item_in_object_sim]: then [get_object_item_sim] on
    that state and [cJSON_ReplaceItemViaPointer_sim] (member found) or the refusal lemma (not
    found: [false], but the replacement keeps its new key — as in the C code);
    [replace_item_in_object_nomem], [replace_item_in_object_refused].
    Hypotheses beyond [WF]/[KeysReadable]: constant keys are not library blocks of the forest,
    key blocks lie below [h_next] (both are parts of [CoreRefineHistoryObj.Abs2]). *)
From CJ Require Import Base Dbl Heap Forest ForestLemmas CoreSpec CoreDefs CoreRefineBase CoreRefine
  CoreRefineDelete CoreRefineReplace CoreRefineMore CoreRefineFrame CoreRefineHistory CoreRefineObject CoreRefineByKey CoreRefineAddObject.
From CJ.gen Require Import Constants.
From stdpp Require Import gmap.
Implicit Types (h : heap) (F : forest) (p x y r : positive) (d : rdata).
Local Open Scope Z_scope.

(** * replace_item_in_object *)

(** the re-keying statements of replace_item_in_object (the type word is re-read after the key store) *)
Lemma rekey_run2 {B} (K : M B) h F x d (ks : list positive) nk :
  WF h F -> (x, d, ks) ∈ flat F ->
  let h1 := free_all (old_key d) h in
  let h2 := set_dat h1 (<[x := mk_dat (rd_set_key_type d nk (clear_flag (rd_type d) c_cJSON_StringIsConst)) ks]> (h_dat h1)) in
  (t <~ get_type (Some x) ;;
   (if has_flag t c_cJSON_StringIsConst then ret tt else
      k <~ get_key (Some x) ;;
      when (negb (is_null k)) (k2 <~ get_key (Some x) ;; cJSON_free k2)) ;;;
   set_key (Some x) nk ;;;
   t2 <~ get_type (Some x) ;;
   set_type (Some x) (clear_flag t2 c_cJSON_StringIsConst) ;;; K) h = K h2.
Proof.
  intros W Hn h1 h2.
  assert (Hlx : x ∈ h_live h).
  { apply (WF_ids_live _ _ _ W). rewrite ids_flat. apply elem_of_list_fmap. by exists (x, d, ks). }
  pose proof (WF_lookup_dat _ _ _ _ _ W Hn) as Hdx.
  rewrite (bindM_Ret _ _ _ _ _ (run_get_type_plain _ _ _ Hlx Hdx)).
  change (nd_type (mk_dat d ks)) with (rd_type d). rewrite has_flag_is_const.
  assert (Hstep : forall (K' : M B),
    ((if is_const d then ret tt else
        k <~ get_key (Some x) ;; when (negb (is_null k)) (k2 <~ get_key (Some x) ;; cJSON_free k2)) ;;; K') h = K' h1).
  { intros K'. unfold h1, old_key. destruct (is_const d) eqn:Hc; [reflexivity|].
    rewrite bindM_assoc. rewrite (bindM_Ret _ _ _ _ _ (run_get_key_plain _ _ _ Hlx Hdx)).
    change (nd_key (mk_dat d ks)) with (rd_key d).
    destruct (rd_key d) as [k|] eqn:Hk; [|reflexivity]. cbn [is_null negb when opt_list].
    rewrite !bindM_assoc. rewrite (bindM_Ret _ _ _ _ _ (run_get_key_plain _ _ _ Hlx Hdx)).
    change (nd_key (mk_dat d ks)) with (rd_key d). rewrite Hk.
    assert (Hko : k ∈ owned F).
    { apply elem_of_owned_fl. exists (x, d, ks). split; [done|]. right. unfold owned_strs. cbn.
      rewrite Hc, Hk. apply elem_of_app. right. by left. }
    unfold cJSON_free.
    rewrite (bindM_Ret _ _ _ _ _ (run_free_block _ _ (wf_owned_live _ _ W _ Hko) (wf_owned_lib _ _ W _ Hko))).
    reflexivity. }
  rewrite Hstep. clear Hstep.
  assert (Hxk : x ∉ old_key d).
  { unfold old_key. destruct (is_const d) eqn:Hc; [apply not_elem_of_nil|].
    destruct (rd_key d) as [k|] eqn:Hk; [|apply not_elem_of_nil]. cbn. intros Hin%elem_of_list_singleton. subst k.
    pose proof (wf_owned_nodup _ _ W) as NDo. apply elem_of_Permutation in Hn as [FL HFL].
    unfold owned in NDo. rewrite HFL, owned_fl_cons in NDo. unfold owned_fn, owned_strs in NDo. cbn in NDo.
    rewrite Hc, Hk in NDo. apply NoDup_cons in NDo as [NDo _]. apply NDo. apply elem_of_app. left.
    apply elem_of_app. right. by left. }
  assert (Hlx1 : x ∈ h_live h1) by (apply free_all_live; done).
  assert (Hdx1 : h_dat h1 !! x = Some (mk_dat d ks)) by (unfold h1; by rewrite free_all_dat_lookup).
  rewrite (bindM_Ret _ _ _ _ _ (run_set_key_plain _ _ _ nk Hlx1 Hdx1)).
  match goal with |- bindM _ _ ?hh = _ => set (h1' := hh) end.
  assert (Hlx1' : x ∈ h_live h1') by done.
  assert (Hdx1' : h_dat h1' !! x = Some (nd_set_key (mk_dat d ks) nk)) by (unfold h1'; cbn; by rewrite lookup_insert).
  rewrite (bindM_Ret _ _ _ _ _ (run_get_type_plain _ _ _ Hlx1' Hdx1')).
  change (nd_type (nd_set_key (mk_dat d ks) nk)) with (rd_type d).
  rewrite (bindM_Ret _ _ _ _ _ (run_set_type_plain _ _ _ (clear_flag (rd_type d) c_cJSON_StringIsConst) Hlx1' Hdx1')).
  unfold h1'. rewrite set_dat_set_dat. cbn [h_dat set_dat upd_maps]. rewrite insert_insert. reflexivity.
Qed.

Section ReplaceKey.
  Context (oracle : nat -> bool) (h : heap) (F : forest) (p r sb : positive) (d dp : rdata)
          (cs csp : list tree) (s : bytes).
  Hypothesis W : WF h F.
  Hypothesis KR : KeysReadable h F.
  (** constant keys are not library blocks of the forest *)
  Hypothesis Hconst : forall e b, e ∈ flat F -> rd_key (fn_data e) = Some b -> is_const (fn_data e) = true -> b ∉ owned F.
  (** key blocks were handed out by the allocator model *)
  Hypothesis Hbelow : forall e b, e ∈ flat F -> rd_key (fn_data e) = Some b -> (b < h_next h)%positive.
  Hypothesis Hr : find_root r F = Some (T r d cs).
  Hypothesis Hp : find_tree p (remove_root r F) = Some (T p dp csp).
  Hypothesis Href : is_ref dp = false.
  Hypothesis Hrd : Readable h sb.
  Hypothesis Hs : h_str h !! sb = Some s.

  Let ND : NoDup (ids F) := wf_nodup _ _ W.
  Let nk := h_next h.
  Let d' := rd_owned_key d nk.
  Let F1 := set_data r d' F.
  Let ha := alloc_str h (cstr s ++ [0]).
  Let h2 := set_dat (free_all (old_key d) ha) (<[r := mk_dat d' (tid <$> cs)]> (h_dat (free_all (old_key d) ha))).

  (** the state after the re-keying of the replacement *)
  Lemma rk_state :
    WF h2 F1 /\ KeysReadable h2 F1 /\ Readable h2 nk /\ h_str h2 !! nk = Some (cstr s ++ [0]) /\
    find_root r F1 = Some (T r d' cs) /\ remove_root r F1 = remove_root r F /\
    find_tree p F1 = Some (T p dp csp).
  Proof.
    destruct (set_data_root F r d cs d' ND Hr) as (Hin & Hr1 & Hrr).
    destruct (flat_set_data F r d cs ND Hin) as (FL & E1 & E2).
    pose proof (WF_alloc_str h F (cstr s ++ [0]) W) as Wa. fold ha in Wa.
    assert (W2 : WF h2 F1).
    { eapply (rekey_WF ha F F1 r d d' _ FL Wa E1 (E2 d')); try done.
      - unfold F1. by rewrite roots_set_data.
      - apply is_ref_set_key_clear.
      - intros b Hb. unfold old_key, d' in Hb. rewrite is_const_set_key_clear in Hb. cbn in Hb.
        apply elem_of_list_singleton in Hb as ->. split_and!.
        + intros Hin'. exact (Pos.lt_irrefl _ (wf_fresh _ _ W _ Hin')).
        + unfold ha. cbn. set_solver.
        + unfold ha. cbn. by rewrite lookup_insert.
        + unfold ha. cbn. apply Pos.lt_succ_diag_r.
      - unfold old_key, d'. rewrite is_const_set_key_clear. cbn. apply NoDup_singleton. }
    assert (Hko_owned : forall b, b ∈ old_key d -> b ∈ owned F).
    { intros b Hb. apply elem_of_owned_fl. exists (r, d, tid <$> cs). split; [rewrite E1; by left|].
      right. rewrite owned_strs_split. apply elem_of_app. by right. }
    assert (Hnk_fresh : nk ∉ owned F).
    { intros Hin'. exact (Pos.lt_irrefl _ (wf_fresh _ _ W _ Hin')). }
    assert (Hnk_str : h_str h2 !! nk = Some (cstr s ++ [0])).
    { unfold h2. cbn [h_str set_dat upd_maps]. rewrite free_all_str_lookup.
      - unfold ha. cbn. by rewrite lookup_insert.
      - intros Hin'. by apply Hnk_fresh, Hko_owned. }
    assert (Hnk_live : nk ∈ h_live h2).
    { unfold h2. cbn [h_live set_dat upd_maps]. apply free_all_live. split; [unfold ha; cbn; set_solver|].
      intros Hin'. by apply Hnk_fresh, Hko_owned. }
    split_and!; [exact W2| | |exact Hnk_str|exact Hr1|exact Hrr|].
    - (* keys stay readable *)
      intros e b He Hb. unfold F1 in He. rewrite (E2 d') in He. apply elem_of_cons in He as [->|He].
      + cbn in Hb. injection Hb as <-. split; [done|]. exists (cstr s ++ [0]). split; [done|].
        rewrite existsb_app. cbn. by rewrite orb_true_r.
      + assert (He0 : e ∈ flat F) by (rewrite E1; by right).
        destruct (KR e b He0 Hb) as (Hl & sb' & Hsb' & Hz').
        assert (Hbk : b ∉ old_key d).
        { intros Hko. destruct (is_const (fn_data e)) eqn:Hc.
          - by apply (Hconst e b He0 Hb Hc), Hko_owned.
          - pose proof (wf_owned_nodup _ _ W) as NDo. unfold owned in NDo. rewrite E1, owned_fl_cons in NDo.
            apply NoDup_app in NDo as (_ & N12 & _). apply (N12 b).
            + right. rewrite owned_strs_split. apply elem_of_app. by right.
            + apply elem_of_owned_fl. exists e. split; [done|]. right. unfold owned_strs. rewrite Hc, Hb.
              apply elem_of_app. right. by left. }
        assert (Hbn : b <> nk).
        { intros ->. exact (Pos.lt_irrefl _ (Hbelow e _ He0 Hb)). }
        split.
        * unfold h2. cbn [h_live set_dat upd_maps]. apply free_all_live. split; [unfold ha; cbn; set_solver|done].
        * exists sb'. split; [|done]. unfold h2. cbn [h_str set_dat upd_maps]. rewrite free_all_str_lookup by done.
          unfold ha. cbn. by rewrite lookup_insert_ne.
    - split; [done|]. exists (cstr s ++ [0]). split; [done|]. rewrite existsb_app. cbn. by rewrite orb_true_r.
    - apply (find_tree_remove_root F1 r (T r d' cs) p); [apply W2|done|]. unfold F1. by rewrite Hrr.
  Qed.

  (** copy of the name succeeds: re-key the replacement, look the member up by the copy, replace it
      (or find nothing: refused, but the replacement keeps its new key) *)
  Lemma replace_item_in_object_sim (case_sensitive : bool) :
    oracle (h_req h) = false ->
    let it := spec_get_key (h_str h2) F1 (Some p) (Some nk) case_sensitive in
    spec_replace_key (h_str h2) F (Some p) (Some sb) (Some r) case_sensitive (Some nk) =
      spec_replace F1 (Some p) it (Some r) /\
    exists h', replace_item_in_object oracle (Some p) (Some sb) (Some r) case_sensitive h =
                 Ret ((spec_replace F1 (Some p) it (Some r)).2, h') /\
               WF h' (spec_replace F1 (Some p) it (Some r)).1.
  Proof.
    intros Ho it. split.
    { unfold spec_replace_key. by rewrite Hr. }
    destruct rk_state as (W2 & KR2 & [Hnl (sk & Hsk & Hzk)] & Hnks & Hr1 & Hrr & Hp1).
    destruct (set_data_root F r d cs d' ND Hr) as (Hin & _ & _).
    pose proof (WF_alloc_str h F (cstr s ++ [0]) W) as Wa. fold ha in Wa.
    unfold replace_item_in_object. cbn [is_null orb].
    rewrite (bindM_Ret _ _ _ _ _ (cJSON_strdup_ok oracle h sb s Hrd Hs Ho)). cbn [is_null]. fold ha nk.
    rewrite (rekey_run2 _ ha F r d (tid <$> cs) (Some nk) Wa (elem_of_flat _ _ Hin)).
    change (set_dat (free_all (old_key d) ha) _) with h2.
    rewrite (bindM_Ret _ _ _ _ _ (get_object_item_sim h2 F1 p dp csp nk sk W2 KR2 Hp1 Hnl Hsk Hzk case_sensitive Href)).
    fold it.
    destruct it as [y|] eqn:Hit.
    - assert (exists k ty, csp !! k = Some ty /\ tid ty = y) as (k & ty & Hk & Hy).
      { unfold it, spec_get_key, children_of in Hit. rewrite Hp1, Hsk in Hit. cbn in Hit.
        destruct case_sensitive; [by eapply find_key_cs_child|by eapply find_key_ci_child]. }
      assert (Hp1' : find_tree p (remove_root r F1) = Some (T p dp csp)) by (by rewrite Hrr).
      destruct (cJSON_ReplaceItemViaPointer_sim h2 F1 p y r (T r d' cs) ty dp csp k W2 Hr1 Hp1' Hk Hy)
        as (S1 & S2 & S3 & _).
      rewrite S1. cbn [fst snd]. eexists. split; [exact S2|exact S3].
    - destruct (cJSON_ReplaceItemViaPointer_refused h2 F1 p dp csp None (Some r) W2 Hp1 Href
                  (or_intror (or_introl eq_refl))) as [S1 S2].
      rewrite S1. cbn [fst snd]. exists h2. by split.
  Qed.

  (** copy of the name fails: refused, nothing changes but the request counter *)
  Lemma replace_item_in_object_nomem (case_sensitive : bool) :
    oracle (h_req h) = true ->
    spec_replace_key (h_str h) F (Some p) (Some sb) (Some r) case_sensitive None = (F, false) /\
    replace_item_in_object oracle (Some p) (Some sb) (Some r) case_sensitive h = Ret (false, bump h) /\
    WF (bump h) F.
  Proof.
    intros Ho. split; [|split].
    - unfold spec_replace_key. done.
    - unfold replace_item_in_object. cbn [is_null orb].
      by rewrite (bindM_Ret _ _ _ _ _ (cJSON_strdup_fail oracle h sb s Hrd Hs Ho)).
    - by apply WF_bump.
  Qed.
End ReplaceKey.

Lemma replace_item_in_object_refused oracle strs F object string replacement cs copy h :
  replacement = None \/ string = None ->
  spec_replace_key strs F object string replacement cs copy = (F, false) /\
  replace_item_in_object oracle object string replacement cs h = Ret (false, h).
Proof.
  intros H. unfold spec_replace_key, replace_item_in_object.
  destruct replacement as [r|], string as [sb|]; cbn; try done. by destruct H.
Qed.
