(** RoundTripRefValid.v — property C04: clause V of [LibcRoundTripSpec] PROVED for the
    reference strtod: whatever [strtod_ref] returns is a well-formed double.

    Uses Flocq (4.1): [RoundTripFlocq.normalize_equiv] / [valid_binary_B2SF] (SpecFloat's
    integer -> double rounding returns well-formed values) and [Bdiv_correct_aux] (so does the division, for arbitrary —
    also unnormalised — mantissas, which is how [LibcNum.div_to_dbl] uses it).  Flocq is built
    on Coq's real numbers, so [Print Assumptions] lists the standard axioms of the Reals library
    for this file's theorems (and only for them). *)
From Coq Require Import ZArith List Bool Floats.SpecFloat.
From Flocq Require Import IEEE754.BinarySingleNaN.
From CJ Require Import Base Dbl LibcNum ParseComplete RoundTripNum RoundTripFlocq.
Local Open Scope Z_scope.

Lemma SFopp_valid d : valid_binary Dbl.prec Dbl.emax d = true -> valid_binary Dbl.prec Dbl.emax (SFopp d) = true.
Proof. destruct d; intro H; exact H. Qed.

Lemma normalize_valid z e : valid_binary Dbl.prec Dbl.emax (SpecFloat.binary_normalize Dbl.prec Dbl.emax z e false) = true.
Proof.
  change (SpecFloat.binary_normalize Dbl.prec Dbl.emax z e false)
    with (SpecFloat.binary_normalize P E z e false).
  rewrite normalize_equiv. apply valid_binary_B2SF.
Qed.

Lemma div_valid neg m d : valid_binary Dbl.prec Dbl.emax (div_to_dbl neg m d) = true.
Proof.
  unfold div_to_dbl.
  assert (H : valid_binary Dbl.prec Dbl.emax
                (SFdiv Dbl.prec Dbl.emax (S754_finite false (Z.to_pos m) 0) (S754_finite false (Z.to_pos d) 0)) = true).
  { cbn [SFdiv].
    pose proof (Bdiv_correct_aux 53 1024 Hp53 Hm1024 mode_NE false (Z.to_pos m) 0 false (Z.to_pos d) 0) as B.
    cbv zeta in B.
    change Dbl.prec with 53. change Dbl.emax with 1024.
    destruct (SFdiv_core_binary 53 1024 (Z.pos (Z.to_pos m)) 0 (Z.pos (Z.to_pos d)) 0) as [[mz ez] lz].
    rewrite round_aux_equiv. exact (proj1 B). }
  destruct neg; [apply SFopp_valid, H|exact H].
Qed.

Lemma dec_to_dbl_exact_valid neg m e : valid_binary Dbl.prec Dbl.emax (dec_to_dbl_exact neg m e) = true.
Proof.
  unfold dec_to_dbl_exact.
  destruct (m =? 0); [reflexivity|].
  destruct (400 <? ndigits 2000 m + e); [reflexivity|].
  destruct (ndigits 2000 m + e <? -400); [reflexivity|].
  destruct (0 <=? e).
  - destruct neg; [apply SFopp_valid|]; apply normalize_valid.
  - apply div_valid.
Qed.

(** clause V for the reference strtod *)
Theorem ref_valid t d k : strtod_ref t = Some (d, k) -> dbl_ok d.
Proof.
  rewrite strtod_ref_eq.
  destruct (sign_split t) as [[neg s1] nsign].
  destruct (take_digits s1 0 0) as [[ip nint] s2].
  destruct (frac_part ip nint s2) as [[[m nfrac] s3] ndot].
  destruct ((nint + nfrac =? 0)%nat); [discriminate|].
  destruct (exp_part s3) as [e nexp].
  intro H. injection H as <- _. apply dec_to_dbl_exact_valid.
Qed.
