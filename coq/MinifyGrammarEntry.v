(** MinifyGrammarEntry.v — the last clause of C13 end to end at BUFFER level: the
    transliterated cJSON_Minify (MinifyDefs.v) followed by the transliterated parser entry
    points (ParseDefs.v) on the very buffer Minify leaves behind.  Composition of
    MinifyGrammar.cJSON_Minify_CJ (Minify computes the erasure, in bounds) with
    ParseCompleteEntry.entry_points_complete (every RFC 8259 text within the limits parses to
    [tree_of] at every entry point, whatever lies beyond the terminator). *)
From CJ Require Import Base Dbl Tree LibcNum MinifyDefs MinifyProofs MinifyValue ParseDefs ParseSpec
  Grammar ParseSafe ParseComplete ParseCompleteEntry MinifyGrammarDefs MinifyGrammar.
Local Open Scope Z_scope.

(** a buffer whose C string is shorter than the buffer is that string, a zero, and a rest *)
Lemma cstr_split : forall b, (length (cstr b) < length b)%nat -> exists r, b = cstr b ++ 0 :: r.
Proof.
  induction b as [|c b IH]; cbn [cstr length]; intro H; [lia|].
  destruct (Z.eqb_spec c 0) as [->|Hc].
  - exists b. reflexivity.
  - cbn [length] in H. destruct IH as [r Er]; [lia|]. exists r. cbn [app]. rewrite <- Er. reflexivity.
Qed.

(** Minify leaves [min], its terminator, and the stale tail of the original text *)
Lemma cJSON_Minify_CJ_layout txt min v : CJ_erase txt min v -> nz txt ->
  exists beyond, cJSON_Minify (txt ++ [0]) = Ok (min ++ 0 :: beyond) /\
                 length (min ++ 0 :: beyond) = length (txt ++ [0]).
Proof.
  intros H Hnz. destruct (cJSON_Minify_CJ txt min v H Hnz) as [b' [E [L [C Len]]]].
  destruct (cstr_split b') as [r Er].
  - rewrite C, L, app_length. cbn [length]. lia.
  - rewrite C in Er. exists r. rewrite <- Er. auto.
Qed.

(** JSON with comments: Minify, then any parse entry point on the resulting buffer, yields
    the tree of the value the commented text denotes *)
Theorem minify_then_parse strtod txt v :
  strtod_ok strtod -> strtod_rfc strtod -> CJ_text txt v -> jv_ok v -> nz txt ->
  forall rnt, exists min beyond r1 r2,
    CJ_erase txt min v /\
    cJSON_Minify (txt ++ [0]) = Ok (min ++ 0 :: beyond) /\
    cJSON_Parse strtod never_fails (min ++ 0 :: beyond) = Ok r1 /\
    cJSON_ParseWithOpts strtod never_fails (min ++ 0 :: beyond) rnt = Ok r2 /\
    pr_tree r1 = Some (tree_of strtod v) /\ pr_tree r2 = Some (tree_of strtod v).
Proof.
  intros Hok Hrfc Ht Hv Hnz rnt.
  destruct (CJ_text_erase txt v Ht) as [min Hm].
  destruct (cJSON_Minify_CJ_layout txt min v Hm Hnz) as [beyond [E _]].
  destruct (entry_points_complete strtod min v Hok Hrfc (CJ_erase_rfc txt min v Hm) Hv beyond rnt)
    as [r1 [r2 [r3 [r4 [r5 [E1 [E2 [_ [_ [_ [T1 [T2 _]]]]]]]]]]]].
  exists min, beyond, r1, r2. auto 10.
Qed.

(** the clause as stated: if the buffer held a valid JSON text (one the parser accepts: gaps of
    whitespace only), parsing the buffer before and after Minify gives equal trees *)
Theorem minify_preserves_parse strtod txt v :
  strtod_ok strtod -> strtod_rfc strtod -> RFC_text txt v -> jv_ok v ->
  forall rnt, exists b' r0 r1 r0' r1',
    cJSON_Minify (txt ++ [0]) = Ok b' /\
    cJSON_Parse strtod never_fails (txt ++ [0]) = Ok r0 /\
    cJSON_Parse strtod never_fails b' = Ok r1 /\
    cJSON_ParseWithOpts strtod never_fails (txt ++ [0]) rnt = Ok r0' /\
    cJSON_ParseWithOpts strtod never_fails b' rnt = Ok r1' /\
    pr_tree r1 = pr_tree r0 /\ pr_tree r1' = pr_tree r0' /\ pr_tree r0 = pr_tree r0' /\
    pr_tree r0 = Some (tree_of strtod v).
Proof.
  intros Hok Hrfc Ht Hv rnt.
  destruct (minify_then_parse strtod txt v Hok Hrfc (RFC_text_CJ txt v Ht) Hv (rfc_text_nzb txt v Ht) rnt)
    as [min [beyond [r1 [r1' [Hm [E [E1 [E1' [T1 T1']]]]]]]]].
  destruct (entry_points_complete strtod txt v Hok Hrfc Ht Hv [] rnt)
    as [r0 [r0' [r3 [r4 [r5 [E0 [E0' [_ [_ [_ [T0 [T0' _]]]]]]]]]]]].
  exists (min ++ 0 :: beyond), r0, r1, r0', r1'.
  repeat split; try assumption; congruence.
Qed.

(** no hypothesis about the C library left: the executable reference strtod *)
Corollary minify_preserves_parse_ref txt v : RFC_text txt v -> jv_ok v ->
  forall rnt, exists b' r0 r1 r0' r1',
    cJSON_Minify (txt ++ [0]) = Ok b' /\
    cJSON_Parse strtod_ref never_fails (txt ++ [0]) = Ok r0 /\
    cJSON_Parse strtod_ref never_fails b' = Ok r1 /\
    cJSON_ParseWithOpts strtod_ref never_fails (txt ++ [0]) rnt = Ok r0' /\
    cJSON_ParseWithOpts strtod_ref never_fails b' rnt = Ok r1' /\
    pr_tree r1 = pr_tree r0 /\ pr_tree r1' = pr_tree r0' /\ pr_tree r0 = pr_tree r0' /\
    pr_tree r0 = Some (tree_of strtod_ref v).
Proof. exact (minify_preserves_parse strtod_ref txt v strtod_ref_ok strtod_ref_rfc). Qed.

(** non-vacuity by evaluation on the example of MinifyGrammarExample.v: the commented text is
    minified in its buffer and the buffer parsed; the comment-free spelling is parsed before
    and after *)
From CJ Require Import MinifyGrammarExample.
Theorem minify_then_parse_example :
  (exists b' r, cJSON_Minify (cx_txt ++ [0]) = Ok b' /\ cstr b' = cx_min /\
                cJSON_Parse strtod_ref never_fails b' = Ok r /\
                pr_tree r = Some (tree_of strtod_ref cx_v)) /\
  (exists b' r0 r1, cJSON_Minify (cx_plain ++ [0]) = Ok b' /\
                cJSON_Parse strtod_ref never_fails (cx_plain ++ [0]) = Ok r0 /\
                cJSON_Parse strtod_ref never_fails b' = Ok r1 /\
                pr_tree r0 = Some (tree_of strtod_ref cx_v) /\ pr_tree r1 = pr_tree r0).
Proof.
  split.
  - eexists. eexists. split; [vm_compute; reflexivity|]. split; [vm_compute; reflexivity|].
    split; vm_compute; reflexivity.
  - eexists. eexists. eexists. split; [vm_compute; reflexivity|]. split; [vm_compute; reflexivity|].
    split; [vm_compute; reflexivity|]. split; vm_compute; reflexivity.
Qed.
