(** MergeProofs.v — the statements of property C18 assembled from MergeApply / MergePerm / MergeGenerate /
    MergeTotal / MergeTransfer, and the concrete non-vacuity instances. *)
From Coq Require Import Permutation Sorted.
From CJ Require Import Base Dbl Tree CompareDefs CompareProofs MergeDefs Rfc7396 MergeLemmas MergeSort MergeApply MergePerm
  MergeGen MergeGenerate MergeTotal MergeTransfer MergeLibrary MergeDocEq MergeComplete.
Local Open Scope Z_scope.

(** * application *)
Theorem c18_apply : forall target patch,
  m7396_doc target = true -> m7396_doc patch = true -> m7396_depth_ok patch = true ->
  exists r, cJSONUtils_MergePatchCaseSensitive (Some target) (Some patch) = Some r /\
            doc_eq r (merge (Some target) patch) = true /\
            strip_flags r = strip_flags (merge (Some target) patch).
Proof. exact apply_conforms. Qed.

Theorem c18_apply_absent : forall patch,
  m7396_doc patch = true -> m7396_depth_ok patch = true ->
  exists r, cJSONUtils_MergePatchCaseSensitive None (Some patch) = Some r /\
            doc_eq r (merge None patch) = true /\
            strip_flags r = strip_flags (merge None patch).
Proof. exact apply_conforms_absent. Qed.

(** * generation *)
Theorem c18_generate : forall from to,
  m7396_doc from = true -> m7396_doc to = true -> no_null_member to = true -> m7396_depth_ok to = true ->
  exists p from' to',
    cJSONUtils_GenerateMergePatchCaseSensitive (Some from) (Some to) = Ok (p, Some from', Some to') /\
    doc_eq (merge_opt from p) to = true /\
    doc_eq (merge_opt from' p) to' = true.
Proof.
  intros from to Df Dt Hn Hd.
  destruct (generate_entry_total true from to (m7396_doc_gd _ Df) (m7396_doc_gd _ Dt)) as [p [f' [t' E]]].
  exists p, f', t'. split; [exact E|]. split.
  - apply (generate_roundtrip from to p (Some f') (Some t') Df Dt Hn Hd E).
  - destruct (generate_roundtrip_post from to p (Some f') (Some t') Df Dt Hn Hd E) as [f2 [t2 [E1 [E2 [_ [_ H]]]]]].
    injection E1 as <-. injection E2 as <-. exact H.
Qed.

(* the statement at an inner level of the recursion: any two documents, any fuel the call was given *)
Theorem c18_generate_every_level : forall fuel from to p from' to',
  gd from -> gd to -> no_null_member to = true -> depth_ok to ->
  mp_generate_merge_patch fuel true from to = Ok (p, from', to') ->
  doc_eq (merge_opt from' p) to' = true /\ dperm from from' /\ dperm to to'.
Proof.
  intros fuel from to p from' to' Gf Gt Hn Hd E.
  destruct (generate_dperm true _ _ _ _ _ _ E) as [D1 D2]. split; [|split; assumption].
  apply (generate_sound _ _ _ _ _ _ E Gf Gt Hn Hd).
Qed.

(* the same round trip through the model's own merge_patch, as the harness performs it: duplicate [from],
   apply the generated patch (nothing when it is NULL), obtain [to] *)
Theorem c18_generate_library : forall from to,
  m7396_doc from = true -> m7396_doc to = true -> no_null_member to = true ->
  m7396_depth_ok from = true -> m7396_depth_ok to = true ->
  exists p from' to' d,
    cJSONUtils_GenerateMergePatchCaseSensitive (Some from) (Some to) = Ok (p, Some from', Some to') /\
    mp_Duplicate (Some from) = Some d /\
    match p with
    | None => doc_eq d to = true
    | Some s => exists r, cJSONUtils_MergePatchCaseSensitive (Some d) (Some s) = Some r /\ doc_eq r to = true
    end.
Proof.
  intros from to Df Dt Hn Hdf Hdt.
  destruct (generate_entry_total true from to (m7396_doc_gd _ Df) (m7396_doc_gd _ Dt)) as [p [f' [t' E]]].
  destruct (library_roundtrip from to p (Some f') (Some t') Df Dt Hn Hdf Hdt E) as [d [Hdup Hr]].
  exists p, f', t', d. split; [exact E|]. split; [exact Hdup|exact Hr].
Qed.

(* for two objects: no patch is generated (NULL) exactly when the documents are equal *)
Theorem c18_no_patch_iff_equal : forall from to p from' to',
  m7396_doc from = true -> m7396_doc to = true -> no_null_member to = true -> m7396_depth_ok to = true ->
  is_object from = true -> is_object to = true ->
  cJSONUtils_GenerateMergePatchCaseSensitive (Some from) (Some to) = Ok (p, from', to') ->
  (p = None <-> doc_eq from to = true).
Proof.
  intros from to p from' to' Df Dt Hn Hd Of Ot H. split.
  - intros ->. apply (generate_roundtrip from to None from' to' Df Dt Hn Hd H).
  - intro He. unfold cJSONUtils_GenerateMergePatchCaseSensitive, mp_GenerateMergePatch_gen in H.
    destruct (mp_generate_merge_patch (node_depth to) true from to) as [[[p0 f'] t']| |] eqn:E; cbn [bind] in H; try discriminate.
    injection H as <- _ _. apply (generate_none_of_equal _ _ _ _ _ _ (m7396_doc_gd _ Df) (m7396_doc_gd _ Dt) Of He E).
Qed.

(* doc_eq decides its declarative reading *)
Theorem c18_doc_eq_declarative : forall a b, doc_eq a b = true <-> doc_equiv a b.
Proof. exact doc_eq_iff. Qed.

(** * the inputs afterwards *)
Lemma sorted_keys l l' : map n_key l = map n_key l' -> StronglySorted key_le l -> StronglySorted key_le l'.
Proof.
  revert l'. induction l as [|x l IH]; intros [|y l'] E S; try discriminate; [constructor|].
  cbn [map] in E. injection E as Exy E. inversion S as [|? ? S' Hx]; subst. constructor; [apply IH; assumption|].
  apply Forall_forall. intros c Hc. unfold key_le. rewrite <- Exy.
  assert (Hk : In (n_key c) (map n_key l)) by (rewrite E; apply in_map; exact Hc).
  apply in_map_iff in Hk. destruct Hk as [c0 [Ek Hc0]]. rewrite <- Ek. rewrite Forall_forall in Hx. apply (Hx c0 Hc0).
Qed.

Theorem c18_inputs_intact : forall cs from to p from' to',
  mp_GenerateMergePatch_gen cs from to = Ok (p, from', to') -> odperm from from' /\ odperm to to'.
Proof. exact generate_inputs_intact. Qed.

Theorem c18_inputs_sorted : forall fuel from to p from' to',
  mp_generate_merge_patch fuel true from to = Ok (p, from', to') ->
  is_object from = true -> is_object to = true ->
  Forall has_key (n_children from) -> Forall has_key (n_children to) ->
  StronglySorted key_le (n_children from') /\ StronglySorted key_le (n_children to').
Proof.
  intros [|f] from to p from' to' H Of Ot Kf Kt; [discriminate|].
  cbn [mp_generate_merge_patch] in H. rewrite Of, Ot in H. cbn [negb orb] in H.
  destruct (mp_sort_members true (n_children from)) as [sf| |] eqn:Esf; cbn [bind] in H; try discriminate.
  destruct (mp_sort_members true (n_children to)) as [st| |] eqn:Est; cbn [bind] in H; try discriminate.
  destruct (mp_gen_walk (mp_compare_json_top true) (mp_generate_merge_patch f true) sf st) as [[[pm fl] tl]| |] eqn:E; cbn [bind] in H; try discriminate.
  injection H as <- <- <-. rewrite !set_children_children.
  destruct (gen_walk_dperm _ _ (compare_json_top_dperm true) (generate_dperm true f) _ _ _ _ _ E) as [D1 D2].
  split.
  - apply (sorted_keys sf fl (dperm_keys _ _ D1)). apply (sort_list_sorted _ _ _ Kf Esf).
  - apply (sorted_keys st tl (dperm_keys _ _ D2)). apply (sort_list_sorted _ _ _ Kt Est).
Qed.

(* reordering members at any level does not change the value *)
Theorem c18_dperm_same_value : forall a a', dperm a a' -> m7396_doc a = true -> doc_eq a a' = true /\ doc_eq a' a = true.
Proof.
  intros a a' D Hd. apply m7396_doc_gd in Hd. split.
  - rewrite <- (doc_eq_dperm_r a a a' D Hd). apply doc_eq_refl. exact Hd.
  - rewrite <- (doc_eq_dperm_l a a' a D Hd). apply doc_eq_refl. exact Hd.
Qed.

(** * concrete instances (non-vacuity) *)
Definition ex_one : dbl := S754_finite false 4503599627370496 (-52).
Definition ex_two : dbl := S754_finite false 4503599627370496 (-51).
Definition ex_num (k : option bytes) (i : Z) (d : dbl) : node := Node c_cJSON_Number None i d k [].
Definition ex_str (k : option bytes) (s : bytes) : node := Node c_cJSON_String (Some s) 0 dzero k [].
Definition ex_lit (k : option bytes) (t : Z) : node := Node t None 0 dzero k [].
Definition ex_obj (k : option bytes) (ch : list node) : node := Node c_cJSON_Object None 0 dzero k ch.
Definition ex_arr (k : option bytes) (ch : list node) : node := Node c_cJSON_Array None 0 dzero k ch.

(* target {"a":1,"A":{"k":1,"K":2},"b":"x"}   (the key "b" is a constant string, flag 512) *)
Definition ex_target : node :=
  ex_obj None [ex_num (Some [97]) 1 ex_one;
               ex_obj (Some [65]) [ex_num (Some [107]) 1 ex_one; ex_num (Some [75]) 2 ex_two];
               Node (c_cJSON_String + c_cJSON_StringIsConst) (Some [120]) 0 dzero (Some [98]) []].
(* patch {"A":{"K":null,"n":{"q":null,"r":true}},"b":null,"c":[null],"a":{"z":null}} *)
Definition ex_patch : node :=
  ex_obj None [ex_obj (Some [65]) [ex_lit (Some [75]) c_cJSON_NULL;
                                   ex_obj (Some [110]) [ex_lit (Some [113]) c_cJSON_NULL; ex_lit (Some [114]) c_cJSON_True]];
               ex_lit (Some [98]) c_cJSON_NULL;
               ex_arr (Some [99]) [ex_lit None c_cJSON_NULL];
               ex_obj (Some [97]) [ex_lit (Some [122]) c_cJSON_NULL]].
(* RFC 7396: {"A":{"k":1,"n":{"r":true}},"c":[null],"a":{}} *)
Definition ex_merged : node :=
  ex_obj None [ex_obj (Some [65]) [ex_num (Some [107]) 1 ex_one; ex_obj (Some [110]) [ex_lit (Some [114]) c_cJSON_True]];
               ex_arr (Some [99]) [ex_lit None c_cJSON_NULL];
               ex_obj (Some [97]) []].

Lemma ex_apply_ok :
  m7396_doc ex_target = true /\ m7396_doc ex_patch = true /\ m7396_depth_ok ex_patch = true /\
  cJSONUtils_MergePatchCaseSensitive (Some ex_target) (Some ex_patch) = Some ex_merged /\
  merge (Some ex_target) ex_patch = ex_merged.
Proof. vm_compute. repeat split. Qed.

(* from {"b":1,"a":{"y":2,"x":[1,null]},"c":"s"}    to {"c":"t","a":{"x":[1,null],"z":{"w":true}},"d":false} *)
Definition ex_from : node :=
  ex_obj None [ex_num (Some [98]) 1 ex_one;
               ex_obj (Some [97]) [ex_num (Some [121]) 2 ex_two; ex_arr (Some [120]) [ex_num None 1 ex_one; ex_lit None c_cJSON_NULL]];
               ex_str (Some [99]) [115]].
Definition ex_to : node :=
  ex_obj None [ex_str (Some [99]) [116];
               ex_obj (Some [97]) [ex_arr (Some [120]) [ex_num None 1 ex_one; ex_lit None c_cJSON_NULL];
                                   ex_obj (Some [122]) [ex_lit (Some [119]) c_cJSON_True]];
               ex_lit (Some [100]) c_cJSON_False].
(* generated: {"a":{"y":null,"z":{"w":true}},"b":null,"c":"t","d":false} *)
Definition ex_generated : node :=
  ex_obj None [ex_obj (Some [97]) [ex_lit (Some [121]) c_cJSON_NULL; ex_obj (Some [122]) [ex_lit (Some [119]) c_cJSON_True]];
               ex_lit (Some [98]) c_cJSON_NULL;
               ex_str (Some [99]) [116];
               ex_lit (Some [100]) c_cJSON_False].
Definition ex_from_after : node :=
  ex_obj None [ex_obj (Some [97]) [ex_arr (Some [120]) [ex_num None 1 ex_one; ex_lit None c_cJSON_NULL]; ex_num (Some [121]) 2 ex_two];
               ex_num (Some [98]) 1 ex_one;
               ex_str (Some [99]) [115]].
Definition ex_to_after : node :=
  ex_obj None [ex_obj (Some [97]) [ex_arr (Some [120]) [ex_num None 1 ex_one; ex_lit None c_cJSON_NULL];
                                   ex_obj (Some [122]) [ex_lit (Some [119]) c_cJSON_True]];
               ex_str (Some [99]) [116];
               ex_lit (Some [100]) c_cJSON_False].

Lemma ex_generate_ok :
  m7396_doc ex_from = true /\ m7396_doc ex_to = true /\ no_null_member ex_to = true /\ m7396_depth_ok ex_to = true /\
  cJSONUtils_GenerateMergePatchCaseSensitive (Some ex_from) (Some ex_to) = Ok (Some ex_generated, Some ex_from_after, Some ex_to_after) /\
  doc_eq (merge (Some ex_from) ex_generated) ex_to = true /\
  ex_from_after <> ex_from /\ doc_eq ex_from ex_from_after = true.
Proof. vm_compute. repeat split; discriminate. Qed.

(* the hypothesis "no null member in to" is needed: {"a":null} cannot be reached by a merge patch *)
Definition ex_to_null : node := ex_obj None [ex_lit (Some [97]) c_cJSON_NULL].
Lemma ex_null_member_needed :
  m7396_doc ex_to_null = true /\ no_null_member ex_to_null = false /\
  exists p f t, cJSONUtils_GenerateMergePatchCaseSensitive (Some (ex_obj None [])) (Some ex_to_null) = Ok (Some p, f, t) /\
                doc_eq (merge (Some (ex_obj None [])) p) ex_to_null = false.
Proof. split; [reflexivity|]. split; [reflexivity|]. eexists _, _, _. split; vm_compute; reflexivity. Qed.
