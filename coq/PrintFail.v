(** PrintFail.v — C08 for the printers: the allocator ledger of print / cJSON_PrintBuffered under
    EVERY allocation-failure schedule [oracle : nat -> bool].

    The invariant carried through the whole of print_value is [owns]: the print buffer is the only
    block the call owns —
        pb_live p = 1  when  pb_buf p = Some _ ,      pb_live p = 0  when  pb_buf p = None.
    It is preserved by [ensure] on each of its exits (a failed realloc / a failed allocate of the
    manual growth release the old buffer and clear the pointer: 1 -> 0 with [None]; a successful
    manual growth goes 1 -> 2 -> 1), by every write, by update_offset, hence (induction on the tree)
    by print_value whatever it returns.  The entry points then release the buffer on each failure
    exit, including the failure of the final shrink-to-fit request of [print].

    The invariant lemmas are partial-correctness statements ("if the step returns Ok ...");  that the
    outcome IS always [Ok] (no out-of-bounds access) is PrintProofs.print_spec / print_buffered_spec,
    with which they are combined at the end.  Proofs only. *)
From CJ Require Import Base Dbl Tree PrintDefs PrintLemmas PrintString PrintProofs.
From Coq Require Import Lia ZArith List Bool.
Import ListNotations.
Local Open Scope Z_scope.

Lemma bind_ok {A B} (m : res A) (f : A -> res B) (r : B) :
  bind m f = Ok r -> exists a, m = Ok a /\ f a = Ok r.
Proof. destruct m as [a| |]; cbn [bind]; intros H; [exists a; auto|discriminate|discriminate]. Qed.

(* [H : bind m f = Ok r]  ~>  [E : m = Ok a], [H : f a = Ok r] *)
Ltac bind_inv H a E :=
  apply bind_ok in H; destruct H as (a & E & H); cbn beta in H.

Section Ledger.
  Variable oracle : nat -> bool.
  Variable junk : nat -> Z.

  Notation printbuffer := PrintDefs.printbuffer.
  Notation ensure := (PrintDefs.ensure oracle junk).

  (** the print buffer is the only block the call owns *)
  Definition owns (p : printbuffer) : Prop :=
    pb_live p = match pb_buf p with Some _ => 1 | None => 0 end.

  (** a step that keeps the ledger invariant whatever it returns *)
  Definition keeps (f : printbuffer -> res (bool * printbuffer)) : Prop :=
    forall p ok p', f p = Ok (ok, p') -> owns p -> owns p'.

  Lemma owns_set_offset p o : owns p -> owns (set_offset p o). Proof. exact (fun H => H). Qed.
  Lemma owns_set_depth p o : owns p -> owns (set_depth p o). Proof. exact (fun H => H). Qed.

  (** ensure: all exits *)
  Lemma ensure_owns needed : keeps (fun p => ensure p needed).
  Proof.
    intros p ok p' E O. unfold PrintDefs.ensure in E. unfold owns in O.
    destruct (pb_buf p) as [buf|] eqn:Hb.
    2: { injection E as <- <-. unfold owns. rewrite Hb. exact O. }
    assert (Osame : owns p) by (unfold owns; rewrite Hb; exact O).
    destruct ((0 <? pb_length p) && (pb_length p <=? pb_offset p)); [injection E as <- <-; exact Osame|].
    destruct (c_INT_MAX <? needed); [injection E as <- <-; exact Osame|].
    destruct (needed + pb_offset p + 1 <=? pb_length p); [injection E as <- <-; exact Osame|].
    destruct (pb_noalloc p); [injection E as <- <-; exact Osame|].
    destruct ((c_INT_MAX / 2 <? needed + pb_offset p + 1) && negb (needed + pb_offset p + 1 <=? c_INT_MAX));
      [injection E as <- <-; exact Osame|].
    destruct (pb_realloc p).
    - (* realloc: failure releases the old buffer *)
      unfold reallocate in E. destruct (oracle (pb_req p)).
      + injection E as <- <-. unfold owns. cbn. lia.
      + injection E as <- <-. unfold owns. cbn. exact O.
    - (* manual growth: allocate, copy, release the old block; failure releases the old block *)
      unfold allocate in E. destruct (oracle (pb_req p)).
      + injection E as <- <-. unfold owns. cbn. lia.
      + bind_inv E nb Enb. injection E as <- <-. unfold owns. cbn. lia.
  Qed.

  (** ensure returning true leaves a buffer *)
  Lemma ensure_true_buf p needed p' : ensure p needed = Ok (true, p') -> pb_buf p' <> None.
  Proof.
    intros E. unfold PrintDefs.ensure in E.
    destruct (pb_buf p) as [buf|] eqn:Hb; [|discriminate].
    destruct ((0 <? pb_length p) && (pb_length p <=? pb_offset p)); [discriminate|].
    destruct (c_INT_MAX <? needed); [discriminate|].
    destruct (needed + pb_offset p + 1 <=? pb_length p); [injection E as <-; rewrite Hb; discriminate|].
    destruct (pb_noalloc p); [discriminate|].
    destruct ((c_INT_MAX / 2 <? needed + pb_offset p + 1) && negb (needed + pb_offset p + 1 <=? c_INT_MAX)); [discriminate|].
    destruct (pb_realloc p).
    - unfold reallocate in E. destruct (oracle (pb_req p)); [discriminate|]. injection E as <-. cbn. discriminate.
    - unfold allocate in E. destruct (oracle (pb_req p)); [discriminate|].
      bind_inv E nb Enb. injection E as <-. cbn. discriminate.
  Qed.

  Lemma put_owns p i l p' : put p i l = Ok p' -> owns p -> owns p'.
  Proof.
    unfold put, owns. destruct (pb_buf p) as [buf|]; [|discriminate].
    intros E O. bind_inv E b' Eb. injection E as <-. cbn. exact O.
  Qed.

  Lemma update_offset_owns p p' : update_offset p = Ok p' -> owns p -> owns p'.
  Proof.
    unfold update_offset, owns. destruct (pb_buf p) as [buf|] eqn:Hb.
    - intros E O. bind_inv E k Ek. injection E as <-. cbn. rewrite Hb. exact O.
    - intros [= <-] O. rewrite Hb. exact O.
  Qed.

  Lemma print_literal_owns needed lit : keeps (fun p => print_literal oracle junk p needed lit).
  Proof.
    intros p ok p' E O. unfold print_literal in E.
    bind_inv E r1 E1. destruct r1 as (ok1 & p1). pose proof (ensure_owns needed p ok1 p1 E1 O) as O1.
    destruct ok1; cbn [negb] in E.
    - bind_inv E p2 E2. injection E as <- <-. eapply put_owns; eauto.
    - injection E as <- <-. exact O1.
  Qed.

  Section Libc.
    Variable fmt_d : Z -> bytes.
    Variable fmt_g15 fmt_g17 : dbl -> bytes.
    Variable sscanf_lg : bytes -> option dbl.

    Notation print_value := (PrintDefs.print_value fmt_d fmt_g15 fmt_g17 sscanf_lg oracle junk).
    Notation print_number := (PrintDefs.print_number fmt_d fmt_g15 fmt_g17 sscanf_lg oracle junk).

    Lemma print_number_owns vi d : keeps (print_number vi d).
    Proof.
      intros p ok p' E O. unfold PrintDefs.print_number in E.
      bind_inv E txt Etxt.
      destruct (c_NUMBER_BUFFER_SIZE - 1 <? zlen txt); [injection E as <- <-; exact O|].
      bind_inv E r1 E1. destruct r1 as (ok1 & p1). pose proof (ensure_owns _ p ok1 p1 E1 O) as O1.
      destruct ok1; cbn [negb] in E.
      - bind_inv E p2 E2. injection E as <- <-. apply owns_set_offset. eapply put_owns; eauto.
      - injection E as <- <-. exact O1.
    Qed.

    Lemma print_string_ptr_owns input : keeps (print_string_ptr oracle junk input).
    Proof.
      intros p ok p' E O. unfold print_string_ptr in E. destruct input as [s0|].
      - bind_inv E r1 E1. destruct r1 as (ok1 & p1). pose proof (ensure_owns _ p ok1 p1 E1 O) as O1.
        destruct ok1; cbn [negb] in E; [|injection E as <- <-; exact O1].
        destruct (escape_characters (cstr s0) =? 0).
        + bind_inv E p2 E2. bind_inv E p3 E3. bind_inv E p4 E4. bind_inv E p5 E5. injection E as <- <-.
          eapply put_owns; [exact E5|]. eapply put_owns; [exact E4|]. eapply put_owns; [exact E3|].
          eapply put_owns; [exact E2|exact O1].
        + bind_inv E p2 E2. pose proof (put_owns _ _ _ _ E2 O1) as O2.
          destruct (pb_buf p2) as [buf|] eqn:Hb2; [|discriminate].
          bind_inv E r3 E3. destruct r3 as (buf' & op).
          bind_inv E p4 E4. bind_inv E p5 E5. injection E as <- <-.
          eapply put_owns; [exact E5|]. eapply put_owns; [exact E4|].
          unfold owns in *. cbn. rewrite Hb2 in O2. exact O2.
      - bind_inv E r1 E1. destruct r1 as (ok1 & p1). pose proof (ensure_owns _ p ok1 p1 E1 O) as O1.
        destruct ok1; cbn [negb] in E; [|injection E as <- <-; exact O1].
        bind_inv E p2 E2. injection E as <- <-. eapply put_owns; eauto.
    Qed.

    (** the loops, for any print_value that keeps the invariant on the elements *)
    Lemma elements_owns pv : forall l, Forall (fun n => keeps (pv n)) l ->
      keeps (print_array_elements oracle junk pv l).
    Proof.
      induction 1 as [|c next Hc Hnext IH]; intros p ok p' E O.
      - cbn in E. injection E as <- <-. exact O.
      - cbn [print_array_elements] in E.
        bind_inv E r1 E1. destruct r1 as (ok1 & p1). pose proof (Hc p ok1 p1 E1 O) as O1.
        destruct ok1; cbn [negb] in E; [|injection E as <- <-; exact O1].
        bind_inv E p2 E2. pose proof (update_offset_owns _ _ E2 O1) as O2.
        destruct next as [|c' next'].
        + cbn in E. injection E as <- <-. exact O2.
        + bind_inv E r3 E3. destruct r3 as (ok3 & p3). pose proof (ensure_owns _ p2 ok3 p3 E3 O2) as O3.
          destruct ok3; cbn [negb] in E; [|injection E as <- <-; exact O3].
          bind_inv E p4 E4. pose proof (put_owns _ _ _ _ E4 O3) as O4.
          eapply IH; [exact E|]. apply owns_set_offset. exact O4.
    Qed.

    Lemma array_owns pv ch : Forall (fun n => keeps (pv n)) ch -> keeps (print_array oracle junk pv ch).
    Proof.
      intros Hch p ok p' E O. unfold print_array in E.
      bind_inv E r1 E1. destruct r1 as (ok1 & p1). pose proof (ensure_owns _ p ok1 p1 E1 O) as O1.
      destruct ok1; cbn [negb] in E; [|injection E as <- <-; exact O1].
      bind_inv E p2 E2. pose proof (put_owns _ _ _ _ E2 O1) as O2.
      bind_inv E r4 E4. destruct r4 as (ok4 & p4).
      pose proof (elements_owns pv ch Hch _ ok4 p4 E4 (owns_set_depth _ _ (owns_set_offset _ _ O2))) as O4.
      destruct ok4; cbn [negb] in E; [|injection E as <- <-; exact O4].
      bind_inv E r5 E5. destruct r5 as (ok5 & p5). pose proof (ensure_owns _ p4 ok5 p5 E5 O4) as O5.
      destruct ok5; cbn [negb] in E; [|injection E as <- <-; exact O5].
      bind_inv E p6 E6. injection E as <- <-. apply owns_set_depth. eapply put_owns; eauto.
    Qed.

    Lemma members_owns pv : forall l, Forall (fun n => keeps (pv n)) l ->
      keeps (print_object_members oracle junk pv l).
    Proof.
      induction 1 as [|c next Hc Hnext IH]; intros p ok p' E O.
      - cbn in E. injection E as <- <-. exact O.
      - cbn [print_object_members] in E.
        bind_inv E r0 E0. destruct r0 as (ok0 & p3).
        assert (O3 : owns p3).
        { destruct (pb_format p).
          - bind_inv E0 r1 E1. destruct r1 as (ok1 & p1). pose proof (ensure_owns _ p ok1 p1 E1 O) as O1.
            destruct ok1; cbn [negb] in E0; [|injection E0 as <- <-; exact O1].
            bind_inv E0 p2 E2. injection E0 as <- <-. apply owns_set_offset. eapply put_owns; eauto.
          - injection E0 as <- <-. exact O. }
        destruct ok0; cbn [negb] in E; [|injection E as <- <-; exact O3].
        bind_inv E r4 E4. destruct r4 as (ok4 & p4). pose proof (print_string_ptr_owns _ p3 ok4 p4 E4 O3) as O4.
        destruct ok4; cbn [negb] in E; [|injection E as <- <-; exact O4].
        bind_inv E p5 E5. pose proof (update_offset_owns _ _ E5 O4) as O5.
        bind_inv E r6 E6. destruct r6 as (ok6 & p6). pose proof (ensure_owns _ p5 ok6 p6 E6 O5) as O6.
        destruct ok6; cbn [negb] in E; [|injection E as <- <-; exact O6].
        bind_inv E p7 E7. pose proof (put_owns _ _ _ _ E7 O6) as O7.
        bind_inv E r9 E9. destruct r9 as (ok9 & p9).
        pose proof (Hc _ ok9 p9 E9 (owns_set_offset _ _ O7)) as O9.
        destruct ok9; cbn [negb] in E; [|injection E as <- <-; exact O9].
        bind_inv E p10 E10. pose proof (update_offset_owns _ _ E10 O9) as O10.
        bind_inv E r11 E11. destruct r11 as (ok11 & p11). pose proof (ensure_owns _ p10 ok11 p11 E11 O10) as O11.
        destruct ok11; cbn [negb] in E; [|injection E as <- <-; exact O11].
        bind_inv E p12 E12. pose proof (put_owns _ _ _ _ E12 O11) as O12.
        eapply IH; [exact E|]. apply owns_set_offset. exact O12.
    Qed.

    Lemma object_owns pv ch : Forall (fun n => keeps (pv n)) ch -> keeps (print_object oracle junk pv ch).
    Proof.
      intros Hch p ok p' E O. unfold print_object in E.
      bind_inv E r1 E1. destruct r1 as (ok1 & p1). pose proof (ensure_owns _ p ok1 p1 E1 O) as O1.
      destruct ok1; cbn [negb] in E; [|injection E as <- <-; exact O1].
      bind_inv E p2 E2. pose proof (put_owns _ _ _ _ E2 O1) as O2.
      bind_inv E r4 E4. destruct r4 as (ok4 & p4).
      pose proof (members_owns pv ch Hch _ ok4 p4 E4 (owns_set_offset _ _ (owns_set_depth _ _ O2))) as O4.
      destruct ok4; cbn [negb] in E; [|injection E as <- <-; exact O4].
      bind_inv E r5 E5. destruct r5 as (ok5 & p5). pose proof (ensure_owns _ p4 ok5 p5 E5 O4) as O5.
      destruct ok5; cbn [negb] in E; [|injection E as <- <-; exact O5].
      bind_inv E p6 E6. injection E as <- <-. apply owns_set_depth. eapply put_owns; eauto.
    Qed.

    (** print_value keeps the invariant, on every tree, whatever it returns *)
    Theorem print_value_owns : forall n, keeps (print_value n).
    Proof.
      induction n as [t s i dv k cs IH] using node_ind'. intros p ok p' E O.
      cbn [PrintDefs.print_value] in E.
      destruct (tymask t =? c_cJSON_NULL); [eapply print_literal_owns; eauto|].
      destruct (tymask t =? c_cJSON_False); [eapply print_literal_owns; eauto|].
      destruct (tymask t =? c_cJSON_True); [eapply print_literal_owns; eauto|].
      destruct (tymask t =? c_cJSON_Number); [eapply print_number_owns; eauto|].
      destruct (tymask t =? c_cJSON_Raw).
      { destruct s as [s0|]; [|injection E as <- <-; exact O].
        eapply (print_literal_owns (zlen (cstr s0) + 1) (cstr s0)); eauto. }
      destruct (tymask t =? c_cJSON_String); [eapply print_string_ptr_owns; eauto|].
      destruct (tymask t =? c_cJSON_Array); [eapply array_owns; eauto|].
      destruct (tymask t =? c_cJSON_Object); [eapply object_owns; eauto|].
      injection E as <- <-. exact O.
    Qed.

    (** ---------------------------------------------------------------- entry points *)
    Notation print := (PrintDefs.print fmt_d fmt_g15 fmt_g17 sscanf_lg oracle junk).
    Notation cJSON_PrintBuffered := (PrintDefs.cJSON_PrintBuffered fmt_d fmt_g15 fmt_g17 sscanf_lg oracle junk).

    (** what the call leaves allocated: nothing when it returns NULL, exactly the returned block otherwise *)
    Definition ledger_ok (r : print_result) : Prop :=
      (prr_block r = None -> prr_live r = 0) /\ (forall b, prr_block r = Some b -> prr_live r = 1).

    Lemma deallocate_owned p : owns p -> pb_live (deallocate p (pb_buf p)) = 0.
    Proof. unfold owns, deallocate. destruct (pb_buf p); cbn; lia. Qed.

    (** print: initial allocation, print_value, final shrink-to-fit (realloc, or allocate + copy + free) *)
    Lemma print_ledger_inv (t : node) (fmt hr : bool) r : print t fmt hr = Ok r -> ledger_ok r.
    Proof.
      intros E. unfold PrintDefs.print, allocate in E. cbn [pb_req pb_live] in E.
      destruct (oracle 0).
      { injection E as <-. split; [reflexivity|discriminate]. }
      match type of E with context [print_value t ?q] => set (p2 := q) in * end.
      assert (O2 : owns p2) by reflexivity.
      bind_inv E r3 E3. destruct r3 as (ok & p3). pose proof (print_value_owns t p2 ok p3 E3 O2) as O3.
      destruct ok; cbn [negb] in E.
      2: { injection E as <-. split; [intros _; apply deallocate_owned; exact O3|discriminate]. }
      bind_inv E p4 E4. pose proof (update_offset_owns _ _ E4 O3) as O4.
      unfold owns in O4. destruct (pb_buf p4) as [buf|] eqn:Hb4; [|discriminate].
      destruct hr.
      - (* shrink with realloc: on failure the fail path releases buffer->buffer *)
        unfold reallocate in E. destruct (oracle (pb_req p4)).
        + injection E as <-. split; [intros _; cbn; lia|discriminate].
        + injection E as <-. split; [discriminate|intros b _; cbn; exact O4].
      - (* copy into a new block: on failure the fail path releases buffer->buffer *)
        unfold allocate in E. destruct (oracle (pb_req p4)).
        + injection E as <-. split; [intros _; cbn; lia|discriminate].
        + bind_inv E pr1 E5. bind_inv E pr2 E6. injection E as <-.
          split; [discriminate|intros b _; cbn; lia].
    Qed.

    (** cJSON_PrintBuffered: a failed first request returns NULL with nothing allocated *)
    Lemma print_buffered_ledger_inv (t : node) (prebuffer : Z) (fmt hr : bool) r :
      cJSON_PrintBuffered t prebuffer fmt hr = Ok r -> ledger_ok r.
    Proof.
      intros E. unfold PrintDefs.cJSON_PrintBuffered, allocate in E. cbn [pb_req pb_live] in E.
      destruct (prebuffer <? 0).
      { injection E as <-. split; [reflexivity|discriminate]. }
      destruct (oracle 0).
      { injection E as <-. split; [reflexivity|discriminate]. }
      match type of E with context [print_value t ?q] => set (p2 := q) in * end.
      assert (O2 : owns p2) by reflexivity.
      bind_inv E r3 E3. destruct r3 as (ok & p3). pose proof (print_value_owns t p2 ok p3 E3 O2) as O3.
      destruct ok; cbn [negb] in E.
      2: { injection E as <-. split; [intros _; apply deallocate_owned; exact O3|discriminate]. }
      injection E as <-. unfold owns in O3. cbn [prr_block prr_live result_of].
      destruct (pb_buf p3); split; try discriminate; auto.
    Qed.
  End Libc.
End Ledger.

(** ------------------------------------------------------------------ the C08 statements for the printers *)
Section C08.
  Variable fmt_d : Z -> bytes.
  Variable fmt_g15 fmt_g17 : dbl -> bytes.
  Variable sscanf_lg : bytes -> option dbl.
  Hypothesis libc : LibcPrintSpec fmt_d fmt_g15 fmt_g17.
  Variable oracle : nat -> bool.
  Variable junk : nat -> Z.
  Notation render := (PrintDefs.render fmt_d fmt_g15 fmt_g17 sscanf_lg).
  Notation print := (PrintDefs.print fmt_d fmt_g15 fmt_g17 sscanf_lg oracle junk).
  Notation cJSON_PrintBuffered := (PrintDefs.cJSON_PrintBuffered fmt_d fmt_g15 fmt_g17 sscanf_lg oracle junk).

  (** print (cJSON_Print / cJSON_PrintUnformatted), every failure schedule, both allocator configurations:
      never out of bounds; NULL => nothing allocated by the call remains allocated; a block => it is the
      only block left and holds exactly the rendered text and its terminator *)
  Lemma print_ledger (t : node) (fmt hr : bool) :
    fields_ok t = true ->
    exists r, print t fmt hr = Ok r /\
      (prr_block r = None -> prr_live r = 0) /\
      (forall block, prr_block r = Some block ->
         prr_live r = 1 /\ exists txt, render fmt 0 t = Some txt /\ block = txt ++ [0]).
  Proof.
    intros Hi.
    destruct (print_spec fmt_d fmt_g15 fmt_g17 sscanf_lg libc oracle junk t fmt hr Hi) as (r & E & S & _).
    destruct (print_ledger_inv oracle junk fmt_d fmt_g15 fmt_g17 sscanf_lg t fmt hr r E) as (L0 & L1).
    exists r. split; [exact E|]. split; [exact L0|]. intros block Hb. split; [exact (L1 block Hb)|exact (S block Hb)].
  Qed.

  (** a call that meets no failing request completes normally *)
  Lemma print_completes (t : node) (fmt hr : bool) txt :
    fields_ok t = true -> (forall i, oracle i = false) -> render fmt 0 t = Some txt -> zlen txt + 2 <= c_INT_MAX ->
    exists r, print t fmt hr = Ok r /\ prr_block r = Some (txt ++ [0]) /\ prr_live r = 1.
  Proof.
    intros Hi NF R Hsz.
    destruct (print_spec fmt_d fmt_g15 fmt_g17 sscanf_lg libc oracle junk t fmt hr Hi) as (r & E & _ & C).
    destruct (print_ledger_inv oracle junk fmt_d fmt_g15 fmt_g17 sscanf_lg t fmt hr r E) as (_ & L1).
    pose proof (C NF txt R Hsz) as Hb. exists r. split; [exact E|]. split; [exact Hb|exact (L1 _ Hb)].
  Qed.

  Lemma print_buffered_ledger (t : node) (prebuffer : Z) (fmt hr : bool) :
    fields_ok t = true -> 0 <= prebuffer ->
    exists r, cJSON_PrintBuffered t prebuffer fmt hr = Ok r /\
      (prr_block r = None -> prr_live r = 0) /\
      (forall block, prr_block r = Some block ->
         prr_live r = 1 /\ exists txt rest, render fmt 0 t = Some txt /\ block = txt ++ 0 :: rest).
  Proof.
    intros Hi Hpre.
    destruct (print_buffered_spec fmt_d fmt_g15 fmt_g17 sscanf_lg libc oracle junk t prebuffer fmt hr Hi Hpre) as (r & E & S & _).
    destruct (print_buffered_ledger_inv oracle junk fmt_d fmt_g15 fmt_g17 sscanf_lg t prebuffer fmt hr r E) as (L0 & L1).
    exists r. split; [exact E|]. split; [exact L0|]. intros block Hb. split; [exact (L1 block Hb)|exact (S block Hb)].
  Qed.

  Lemma print_buffered_completes (t : node) (prebuffer : Z) (fmt hr : bool) txt :
    fields_ok t = true -> 0 <= prebuffer -> (forall i, oracle i = false) ->
    render fmt 0 t = Some txt -> zlen txt + 2 <= c_INT_MAX ->
    exists r rest, cJSON_PrintBuffered t prebuffer fmt hr = Ok r /\ prr_block r = Some (txt ++ 0 :: rest) /\ prr_live r = 1.
  Proof.
    intros Hi Hpre NF R Hsz.
    destruct (print_buffered_spec fmt_d fmt_g15 fmt_g17 sscanf_lg libc oracle junk t prebuffer fmt hr Hi Hpre) as (r & E & _ & C).
    destruct (print_buffered_ledger_inv oracle junk fmt_d fmt_g15 fmt_g17 sscanf_lg t prebuffer fmt hr r E) as (_ & L1).
    destruct (C NF txt R Hsz) as (rest & Hb). exists r, rest. split; [exact E|]. split; [exact Hb|exact (L1 _ Hb)].
  Qed.

  (** a negative prebuffer is refused before any request is made *)
  Lemma print_buffered_negative (t : node) (prebuffer : Z) (fmt hr : bool) :
    prebuffer < 0 ->
    cJSON_PrintBuffered t prebuffer fmt hr = Ok (mkprr None 0 0).
  Proof.
    intros H. unfold PrintDefs.cJSON_PrintBuffered. destruct (Z.ltb_spec prebuffer 0); [reflexivity|lia].
  Qed.
End C08.

(** ------------------------------------------------------------------ non-vacuity *)
(** Concrete runs with the guarded reference libc of PrintProofs.v (it satisfies [LibcPrintSpec]:
    [guarded_libc_spec]).  The tree ["aaa…a" (default buffer size + 44 bytes), 1.5, -7] prints to more bytes than the
    default buffer holds: request 1 is the initial buffer, request 2 the growth inside
    print_string_ptr (ensure), request 3 the final shrink-to-fit of print.  *)
From CJ Require Import LibcNum LibcPrint ParseEntry.

(* the string is longer than the default print buffer WHATEVER its size is in the source under test, so the run
   always consists of the same three requests *)
Definition nvf_len : nat := Z.to_nat c_DEFAULT_BUFFER_SIZE + 44.
Definition nvf_tree : node :=
  Node c_cJSON_Array None 0 (S754_zero false) None
    [ Node c_cJSON_String (Some (repeat 97 nvf_len)) 0 (S754_zero false) None [];
      Node c_cJSON_Number None 1 (S754_finite false 6755399441055744 (-52)) None [];
      Node c_cJSON_Number None (-7) (S754_finite true 7881299347898368 (-50)) None [] ].
Definition nvf_text : bytes := [91; 34] ++ repeat 97 nvf_len ++ [34; 44; 49; 46; 53; 44; 45; 55; 93].

(* print with the k-th request (1-based, 0 = none) failing; fresh memory is 0xA5 *)
Definition nvf_print (hr : bool) (k : nat) : res print_result :=
  print guarded_fmt_d guarded_fmt_g15 guarded_fmt_g17 sscanf_lg (fail_kth k) (fun _ => 165) nvf_tree false hr.
Definition nvf_print_buffered (prebuffer : Z) (hr : bool) (k : nat) : res print_result :=
  cJSON_PrintBuffered guarded_fmt_d guarded_fmt_g15 guarded_fmt_g17 sscanf_lg (fail_kth k) (fun _ => 165) nvf_tree prebuffer false hr.

Lemma C08_print_nonvacuous_proof :
  fields_ok nvf_tree = true /\
  render guarded_fmt_d guarded_fmt_g15 guarded_fmt_g17 sscanf_lg false 0 nvf_tree = Some nvf_text /\
  (forall hr, nvf_print hr 0 = Ok (mkprr (Some (nvf_text ++ [0])) 1 3)) /\     (* no failure: 3 requests *)
  (forall hr, nvf_print hr 1 = Ok (mkprr None 0 1)) /\                         (* initial buffer refused *)
  (forall hr, nvf_print hr 2 = Ok (mkprr None 0 2)) /\                         (* growth in mid-string refused *)
  (forall hr, nvf_print hr 3 = Ok (mkprr None 0 3)) /\                         (* final shrink refused *)
  (forall hr, nvf_print hr 4 = Ok (mkprr (Some (nvf_text ++ [0])) 1 3)).       (* k beyond the requests made *)
Proof.
  split; [vm_compute; reflexivity|]. split; [vm_compute; reflexivity|].
  repeat split; intros [|]; vm_compute; reflexivity.
Qed.

Lemma C08_print_buffered_nonvacuous_proof :
  (forall hr, exists rest, nvf_print_buffered 16 hr 0 = Ok (mkprr (Some (nvf_text ++ 0 :: rest)) 1 2)) /\
  (forall hr, nvf_print_buffered 16 hr 1 = Ok (mkprr None 0 1)) /\            (* prebuffer refused: nothing allocated *)
  (forall hr, nvf_print_buffered 16 hr 2 = Ok (mkprr None 0 2)) /\            (* growth refused *)
  (forall hr, nvf_print_buffered 0 hr 2 = Ok (mkprr None 0 2)).               (* growth of an empty buffer refused *)
Proof.
  split; [intros [|]; eexists; vm_compute; reflexivity|].
  repeat split; intros [|]; vm_compute; reflexivity.
Qed.

(** ------------------------------------------------------------------ sensitivity: seeded change C08_A *)
(** [print] with the final shrink as seeded change C08_A writes it: buffer->buffer is cleared right after
    the reallocate call and BEFORE its result is checked, so the fail path finds nothing to release.  The
    ledger statement [print_ledger_inv] is false of this variant: the run of [nvf_tree] with the third
    request (the shrink) refused returns NULL with the print buffer still allocated. *)
Definition print_C08_A fmt_d fmt_g15 fmt_g17 sscanf_lg (oracle : nat -> bool) (junk : nat -> Z)
           (item : node) (format : bool) : res print_result :=
  let p0 := mkpb None 0 0 0 false format true 0 0 in
  let '(b, p1) := allocate oracle junk p0 c_DEFAULT_BUFFER_SIZE in
  let p2 := set_length (set_buf p1 b) c_DEFAULT_BUFFER_SIZE in
  match b with
  | None => Ok (result_of None p2)
  | Some _ =>
      '(ok, p3) <- print_value fmt_d fmt_g15 fmt_g17 sscanf_lg oracle junk item p2 ;;
      if negb ok then Ok (result_of None (deallocate p3 (pb_buf p3)))
      else
        p4 <- update_offset p3 ;;
        match pb_buf p4 with
        | None => OOB
        | Some buf =>
            let '(printed, p5) := reallocate oracle junk p4 buf (pb_offset p4 + 1) in
            let p6 := set_buf p5 None in                                   (* buffer->buffer = NULL; *)
            match printed with
            | None => Ok (result_of None (deallocate p6 (pb_buf p6)))      (* goto fail: buffer->buffer is NULL *)
            | Some pr => Ok (result_of (Some pr) p6)
            end
        end
  end.

Lemma C08_A_violates_ledger_proof :
  print_C08_A guarded_fmt_d guarded_fmt_g15 guarded_fmt_g17 sscanf_lg (fail_kth 3) (fun _ => 165) nvf_tree false
  = Ok (mkprr None 1 3).
Proof. vm_compute. reflexivity. Qed.
