(** PointerHeapProofs.v — the heap-level [cJSONUtils_FindPointerFromObjectTo] (PointerHeapDefs.v), run with the
    never-failing allocator on a heap that READS as the labelled tree [x] from the object ([src_t], with
    readable keys, every member of an object named, fewer than ULONG_MAX + 1 children per node), for ANY
    contents of fresh memory ([junk]):

      * returns — no memory-error outcome, no [OutOfBounds]: the block sizes computed by the C code suffice
        for what [sprintf], [encode_string_as_pointer] and [strcat] write;
      * the result is what the search [find_ptr_t] on the labelled tree yields: NULL, or a block that reads as
        that C string;
      * [FPost]: the node maps are untouched, every string block that existed keeps its contents, and the live
        set grows by exactly the result block (by nothing when the result is NULL): every [target_pointer] of
        every level has been released.

    PointerHeapForest.v instantiates the view from a well-formed forest and relates [find_ptr_t] to the
    value-level [PointerDefs.find_pointer]. *)
From CJ Require Import Base Dbl Heap Forest ForestLemmas CoreSpec CoreDefs CoreRefineBase CoreRefineObject
  CoreRefineDupBase CoreRefineDupTree CoreRefineDupLoop CoreRefineDupValue CoreRefineDupForest.
From CJ Require Import TierBridgeDefs TierBridgeSort TierBridgeLemmas MergeHeapDefs PatchHeapDefs PatchHeapPointer.
From CJ Require Import CompareHeapViewDefs CompareHeapProofs PointerHeapDefs.
From CJ Require Tree PointerDefs PointerProofs PatchProofs SortSpec.
From CJ.gen Require Import Constants.
From stdpp Require Import gmap.
From Coq Require Import Lia.

(** * the function is built from the loop function *)
Lemma FindPointer_fuel_S oracle junk df lf object target :
  FindPointerFromObjectTo_fuel oracle junk (S df) lf object target =
  (if is_null object || is_null target then ret None else
   if ptr_eqb object target then cJSONUtils_strdup_s oracle junk (CLit []) else
   first_child <~ get_child object ;;
   fp_loop oracle junk (fun c => FindPointerFromObjectTo_fuel oracle junk df lf c target) object lf first_child 0%Z).
Proof. reflexivity. Qed.

(** * pure facts: the two string loops, the digits *)
Lemma pel_loop_spec s : forall n, pel_loop s n = n + length (PointerDefs.encode_string_as_pointer s).
Proof.
  induction s as [|c r IH]; intros n; cbn [pel_loop PointerDefs.encode_string_as_pointer]; [cbn; lia|].
  rewrite IH. destruct (Z.eqb_spec c 47) as [->|H47]; [cbn; lia|].
  destruct (Z.eqb_spec c 126) as [->|H126]; cbn; lia.
Qed.

Lemma esp_loop_spec src : forall pre rest,
  length (PointerDefs.encode_string_as_pointer src) + 1 <= length rest ->
  esp_loop (pre ++ rest) (length pre) src =
  Ok (pre ++ PointerDefs.encode_string_as_pointer src ++ [0%Z] ++ drop (length (PointerDefs.encode_string_as_pointer src) + 1) rest).
Proof.
  assert (Hwr : forall (pre : bytes) x r v, wr (pre ++ x :: r) (length pre) v = Ok (pre ++ v :: r)).
  { intros pre x r v. rewrite PatchProofs.wr_ok by (rewrite app_length; cbn; lia). by rewrite PatchProofs.upd_at_app. }
  assert (Hsnoc : forall (pre : bytes) c, S (length pre) = length (pre ++ [c])) by (intros; rewrite app_length; cbn; lia).
  induction src as [|c r IH]; intros pre rest; cbn [esp_loop PointerDefs.encode_string_as_pointer].
  - intros Hlen. destruct rest as [|x rest']; [cbn in Hlen; lia|]. rewrite Hwr. done.
  - destruct (Z.eqb_spec c 47) as [->|H47]; [|destruct (Z.eqb_spec c 126) as [->|H126]]; intros Hlen; cbn [length] in Hlen.
    + destruct rest as [|x [|y rest']]; try (cbn in Hlen; lia).
      rewrite Hwr. cbn [bind]. rewrite (Hsnoc pre 126%Z). replace (pre ++ 126%Z :: y :: rest') with ((pre ++ [126%Z]) ++ y :: rest') by (by rewrite <- app_assoc).
      rewrite Hwr. cbn [bind]. rewrite (Hsnoc (pre ++ [126%Z]) 49%Z).
      replace ((pre ++ [126%Z]) ++ 49%Z :: rest') with (((pre ++ [126%Z]) ++ [49%Z]) ++ rest') by (by rewrite <- !app_assoc).
      rewrite IH by (cbn in Hlen; lia). f_equal. rewrite <- !app_assoc. cbn. done.
    + destruct rest as [|x [|y rest']]; try (cbn in Hlen; lia).
      rewrite Hwr. cbn [bind]. rewrite (Hsnoc pre 126%Z). replace (pre ++ 126%Z :: y :: rest') with ((pre ++ [126%Z]) ++ y :: rest') by (by rewrite <- app_assoc).
      rewrite Hwr. cbn [bind]. rewrite (Hsnoc (pre ++ [126%Z]) 48%Z).
      replace ((pre ++ [126%Z]) ++ 48%Z :: rest') with (((pre ++ [126%Z]) ++ [48%Z]) ++ rest') by (by rewrite <- !app_assoc).
      rewrite IH by (cbn in Hlen; lia). f_equal. rewrite <- !app_assoc. cbn. done.
    + destruct rest as [|x rest']; [cbn in Hlen; lia|].
      rewrite Hwr. cbn [bind]. rewrite (Hsnoc pre c). replace (pre ++ c :: rest') with ((pre ++ [c]) ++ rest') by (by rewrite <- app_assoc).
      rewrite IH by (cbn in Hlen; lia). f_equal. rewrite <- !app_assoc. cbn. done.
Qed.

Lemma encode_zfree s : SortSpec.zfree s -> SortSpec.zfree (PointerDefs.encode_string_as_pointer s).
Proof.
  induction s as [|c r IH]; intros Hz; [constructor|]. apply Forall_cons in Hz as [Hc Hr]. cbn [PointerDefs.encode_string_as_pointer].
  destruct (c =? 47)%Z; [repeat constructor; [lia|lia|by apply IH]|].
  destruct (c =? 126)%Z; [repeat constructor; [lia|lia|by apply IH]|]. constructor; [done|by apply IH].
Qed.

Lemma dec_digits_length fuel : forall (m : nat) n acc, (1 <= m)%nat -> (0 <= n < 10 ^ Z.of_nat m)%Z ->
  length (PointerDefs.dec_digits fuel n acc) <= m + length acc.
Proof.
  induction fuel as [|f IH]; intros m n acc Hm Hn; cbn [PointerDefs.dec_digits]; [lia|].
  destruct (Z.ltb_spec n 10) as [L|L]; [cbn; lia|].
  destruct m as [|[|m']]; [lia|change (10 ^ Z.of_nat 1)%Z with 10%Z in Hn; lia|].
  assert (Hn' : (0 <= n / 10 < 10 ^ Z.of_nat (S m'))%Z).
  { rewrite (Nat2Z.inj_succ (S m')), Z.pow_succ_r in Hn by lia. revert Hn. generalize (10 ^ Z.of_nat (S m'))%Z. intros P Hn.
    split; [apply Z.div_pos; lia|]. apply Z.div_lt_upper_bound; lia. }
  specialize (IH (S m') (n / 10)%Z ((48 + n mod 10)%Z :: acc) ltac:(lia) Hn'). cbn [length] in IH. lia.
Qed.

Lemma print_lu_length n : (0 <= n <= ULONG_MAX)%Z -> length (PointerDefs.print_lu n) <= 20.
Proof.
  intros Hn. unfold PointerDefs.print_lu. pose proof (dec_digits_length 25 20 n [] ltac:(lia)) as H. cbn [length] in H.
  rewrite Nat.add_0_r in H. apply H. unfold ULONG_MAX, PointerDefs.SIZE_MAX in Hn. change (8 * c_SIZEOF_SIZE_T)%Z with 64%Z in Hn.
  change (Z.of_nat 20) with 20%Z. lia.
Qed.

Lemma print_lu_zfree n : (0 <= n <= ULONG_MAX)%Z -> SortSpec.zfree (PointerDefs.print_lu n).
Proof. intros Hn. destruct (PointerProofs.print_lu_spec n Hn) as [_ D]. exact (PointerProofs.digit_nz _ D). Qed.

Lemma cstr_zfree_app (p rest : bytes) : SortSpec.zfree p -> cstr (p ++ 0%Z :: rest) = p.
Proof. intros Hz. rewrite <- (cstr_zfree_id p Hz) at 1. rewrite cstr_cstr_app. by apply cstr_zfree_id. Qed.
Lemma has0_app (p rest : bytes) : existsb (Z.eqb 0) (p ++ 0%Z :: rest) = true.
Proof. rewrite existsb_app. cbn. by rewrite orb_true_r. Qed.

(** * steps on string blocks *)
Lemma run_malloc_ok junk_bytes g : cJSON_malloc nofail junk_bytes g = Ret (Some (h_next g), alloc_str_h g junk_bytes).
Proof. reflexivity. Qed.

Definition set_str (h : heap) (S : gmap positive bytes) : heap :=
  mkHeap (h_lnk h) (h_dat h) S (h_own h) (h_live h) (h_next h) (h_req h) (h_hooks h) (h_trace h).

Lemma run_st_str' g (b : positive) (old s : bytes) :
  b ∈ h_live g -> h_str g !! b = Some old -> h_own g !! b = Some Lib -> length s = length old ->
  st_str (Some b) s g = Ret (tt, set_str g (<[b := s]> (h_str g))).
Proof.
  intros H1 H2 H3 H4. unfold st_str, chk, bindM. rewrite decide_True by done. unfold bytes in *. rewrite H2, H3.
  apply Nat.eqb_eq in H4. by rewrite H4.
Qed.

Lemma run_st_bytes g (b : positive) (old bs : bytes) off :
  b ∈ h_live g -> h_str g !! b = Some old -> h_own g !! b = Some Lib -> off + length bs <= length old ->
  st_bytes (Some b) off bs g = Ret (tt, set_str g (<[b := take off old ++ bs ++ drop (off + length bs) old]> (h_str g))).
Proof.
  intros H1 H2 H3 H4. unfold st_bytes. stp (run_ld_str g b old H1 H2).
  destruct (Nat.leb_spec (off + length bs) (length old)) as [_|]; [|lia].
  apply (run_st_str' g b old); try done. rewrite !app_length, take_length, drop_length. lia.
Qed.

(** * the post-condition *)
Lemma FPost_none_refl g : FPost g g None None.
Proof. constructor; (done || lia). Qed.

Lemma FPost_none_trans g g1 g2 res v : FPost g g1 None None -> FPost g1 g2 res v -> FPost g g2 res v.
Proof.
  intros [A1 A2 A3 A4 A5 (_ & A6 & A7)] [B1 B2 B3 B4 B5 B6]. constructor.
  - congruence.
  - congruence.
  - congruence.
  - lia.
  - intros b Hb. rewrite B5 by lia. by apply A5.
  - destruct v as [p|].
    + destruct B6 as (r & blk & -> & R1 & R2 & R3 & R4 & R5 & R6 & R7). exists r, blk. split_and!; try done; try lia; congruence.
    + destruct B6 as (-> & R1 & R2). split_and!; congruence.
Qed.

(** one fresh block that reads as [p] *)
Lemma fresh_block_post g jk new p :
  Closed g -> cstr new = p -> existsb (Z.eqb 0) new = true ->
  FPost g (set_str (alloc_str_h g jk) (<[h_next g := new]> (h_str g))) (Some (h_next g)) (Some p) /\
  Closed (set_str (alloc_str_h g jk) (<[h_next g := new]> (h_str g))).
Proof.
  intros C Hp Hz. split.
  - constructor; cbn; try done; try lia.
    + intros b Hb. rewrite lookup_insert_ne; [done|]. lia.
    + exists (h_next g), new. split_and!; try done; try lia. by rewrite lookup_insert.
  - intros k Hk. cbn in Hk. destruct (C k ltac:(lia)) as (H1 & H2 & H3 & H4). cbn. split_and!; try done.
    + intros Hin. apply elem_of_union in Hin as [Hin|Hin]; [apply elem_of_singleton in Hin; lia|done].
    + rewrite lookup_insert_ne; [done|]. lia.
Qed.

(** the child's block is replaced by the parent's *)
Lemma replace_block_post g g1 g2 r1 r2 tp p :
  Closed g -> FPost g g1 (Some r1) (Some tp) -> FPost g1 g2 (Some r2) (Some p) -> Closed g2 ->
  FPost g (free1 r1 g2) (Some r2) (Some p) /\ Closed (free1 r1 g2).
Proof.
  intros C [A1 A2 A3 A4 A5 A6] [B1 B2 B3 B4 B5 B6] C2.
  destruct A6 as (r1' & blk1 & E1 & R1 & R2 & R3 & R4 & R5 & R6 & R7). injection E1 as <-.
  destruct B6 as (r2' & blk2 & E2 & S1 & S2 & S3 & S4 & S5 & S6 & S7). injection E2 as <-.
  destruct (C r1 R1) as (N1 & N2 & N3 & N4).
  assert (Hne : r1 <> r2) by lia.
  split.
  - constructor; cbn.
    + rewrite B1, A1. by apply delete_notin.
    + rewrite B2, A2. by apply delete_notin.
    + congruence.
    + lia.
    + intros b Hb. rewrite B5 by lia. by apply A5.
    + exists r2, blk2. split_and!; try done; try lia.
      * rewrite S3, R3. rewrite delete_insert_ne by done. by rewrite delete_insert.
      * rewrite S4, R4. set_solver.
  - intros k Hk. cbn in Hk. destruct (C2 k Hk) as (H1 & H2 & H3 & H4). cbn. split_and!.
    + set_solver.
    + by rewrite lookup_delete_None; right.
    + by rewrite lookup_delete_None; right.
    + by rewrite lookup_delete_None; right.
Qed.

(** the child's block is dropped *)
Lemma drop_block_post g g1 r1 tp :
  Closed g -> FPost g g1 (Some r1) (Some tp) -> Closed g1 ->
  FPost g (free1 r1 g1) None None /\ Closed (free1 r1 g1).
Proof.
  intros C [A1 A2 A3 A4 A5 A6] C1.
  destruct A6 as (r1' & blk1 & E1 & R1 & R2 & R3 & R4 & R5 & R6 & R7). injection E1 as <-.
  destruct (C r1 R1) as (N1 & N2 & N3 & N4).
  split.
  - constructor; cbn.
    + rewrite A1. by apply delete_notin.
    + rewrite A2. by apply delete_notin.
    + done.
    + done.
    + done.
    + split_and!; [done| |].
      * rewrite R3. by rewrite delete_insert.
      * rewrite R4. set_solver.
  - intros k Hk. cbn in Hk. destruct (C1 k Hk) as (H1 & H2 & H3 & H4). cbn. split_and!.
    + set_solver.
    + by rewrite lookup_delete_None; right.
    + by rewrite lookup_delete_None; right.
    + by rewrite lookup_delete_None; right.
Qed.

(** * the tree-level search, unfolded *)
Fixpoint fpt_go (St : gmap positive bytes) (ty : Z) (q : positive) (l : list tree) (idx : nat) : option bytes :=
  match l with
  | [] => None
  | c :: r =>
      match find_ptr_t St c q with
      | Some tp => fpt_result St ty idx c tp
      | None => fpt_go St ty q r (S idx)
      end
  end.
Lemma find_ptr_t_unfold St i d cs q :
  find_ptr_t St (T i d cs) q = if decide (i = q) then Some [] else fpt_go St (rd_type d) q cs 0.
Proof.
  cbn [find_ptr_t]. destruct (decide (i = q)); [done|].
  generalize 0. induction cs as [|c r IH]; intros idx; [done|]. cbn [fpt_go]. by rewrite <- IH.
Qed.

(** * hypotheses on the tree ([members_named], [small_nodes]: PointerHeapDefs.v) *)

Lemma nodes_t_child_sub i d cs c n : c ∈ cs -> n ∈ nodes_t c -> n ∈ nodes_t (T i d cs).
Proof. intros Hc Hn. rewrite nodes_t_unfold. right. apply elem_of_nodes. by exists c. Qed.
Lemma members_named_child i d cs c : members_named (T i d cs) -> c ∈ cs -> members_named c.
Proof. intros H Hc n Hn. apply H. by eapply nodes_t_child_sub. Qed.
Lemma small_nodes_child i d cs c : small_nodes (T i d cs) -> c ∈ cs -> small_nodes c.
Proof. intros H Hc n Hn. apply H. by eapply nodes_t_child_sub. Qed.

(** * views in heaps with the same memory *)
Definition same_mem (g g1 : heap) : Prop :=
  h_lnk g1 = h_lnk g /\ h_dat g1 = h_dat g /\ h_str g1 = h_str g /\ h_live g1 = h_live g.
Lemma same_mem_pt g g1 : same_mem g g1 -> pt_mono g g1.
Proof.
  intros (E1 & E2 & E3 & E4). unfold pt_mono, nd_at, lk_at, str_is. rewrite E1, E2, E3, E4. done.
Qed.
Lemma FPost_none_same g g1 : FPost g g1 None None -> same_mem g g1.
Proof. intros [A1 A2 _ _ _ (_ & A6 & A7)]. done. Qed.

Definition fview (g : heap) (lf k : nat) (x : tree) : Prop := src_t g lf k x /\ complete x /\ keys_readable g x.
Lemma readable_pt g g1 b : pt_mono g g1 -> readable g b -> readable g1 b.
Proof. apply readable_mono. Qed.
Lemma fview_pt g g1 lf k x : pt_mono g g1 -> fview g lf k x -> fview g1 lf k x.
Proof.
  intros P (H1 & H2 & H3). split_and!; [by eapply src_t_mono|done|].
  intros i d ks He b Hb. eapply readable_mono; [done|]. by eapply H3.
Qed.

Lemma fview_unfold g lf k i d cs :
  fview g lf k (T i d cs) ->
  src_node g lf i d (tid <$> cs) /\ child_of d (tid <$> cs) = head (tid <$> cs) /\
  src_list g lf (Nat.pred k) cs /\ Forall (fview g lf (Nat.pred k)) cs /\ (cs = [] \/ 0 < k).
Proof.
  intros (Hs & Hc & Hk). pose proof (complete_children _ _ _ Hc) as Hcc.
  destruct k as [|k].
  - rewrite src_t_O in Hs. destruct Hs as [Hn ->]. split; [done|]. split.
    + apply child_of_complete. intros _. by apply (complete_root i).
    + split; [done|]. split; [constructor|by left].
  - rewrite src_t_S in Hs. destruct Hs as (Hn & Hr & Hl). split; [done|]. split.
    + apply child_of_complete. intros E. apply fmap_nil_inv in E. by apply Hr.
    + cbn [Nat.pred]. split; [done|]. split; [|right; lia].
      apply Forall_forall. intros c Hin. rewrite Forall_forall in Hcc. split_and!.
      * pose proof (src_list_Forall _ _ _ _ Hl) as HF. rewrite Forall_forall in HF. by apply HF.
      * by apply Hcc.
      * by eapply keys_readable_child.
Qed.

Lemma src_list_pt g g1 lf k l : pt_mono g g1 -> src_list g lf k l -> src_list g1 lf k l.
Proof. apply src_list_mono. Qed.

Lemma FPost_pt g g1 res v : Closed g -> FPost g g1 res v -> pt_mono g g1.
Proof.
  intros C [A1 A2 _ _ _ A6]. destruct v as [p|].
  - destruct A6 as (r & blk & _ & R1 & _ & R3 & R4 & _). destruct (C r R1) as (N1 & _ & _ & N4).
    unfold pt_mono, nd_at, lk_at, str_is. rewrite A1, A2, R3, R4. split_and!.
    + intros i nd [H1 H2]. split; [set_solver|done].
    + intros i e [H1 H2]. split; [set_solver|done].
    + intros b s [H1 H2]. split; [set_solver|]. rewrite lookup_insert_ne; [done|]. intros <-. by rewrite N4 in H2.
  - destruct A6 as (_ & A6 & A7). apply same_mem_pt. done.
Qed.

(** writing the contents of one block *)
Definition wrb (g : heap) (b : positive) (s : bytes) : heap := set_str g (<[b := s]> (h_str g)).
Lemma wrb_wrb g b s s' : wrb (wrb g b s) b s' = wrb g b s'.
Proof. unfold wrb, set_str. cbn. by rewrite insert_insert. Qed.
Lemma wrb_pt g b s : h_str g !! b <> None -> forall b' s', b' <> b -> str_is g b' s' -> str_is (wrb g b s) b' s'.
Proof. intros _ b' s' Hne [H1 H2]. split; [done|]. cbn. by rewrite lookup_insert_ne. Qed.

Section Find.
  Variable junk : nat -> bytes.
  Hypothesis Hjunk : forall n, length (junk n) = n.
  Variable q : positive.
  Variables lf lfuel : nat.
  Hypothesis Hlf : lf <= lfuel.
  Notation FP := (FindPointerFromObjectTo_fuel nofail junk).

  Definition rec_at (df k' : nat) (c : tree) : Prop :=
    forall g, fview g lf k' c -> members_named c -> small_nodes c -> Closed g ->
      exists res g', FP df lfuel (Some (tid c)) (Some q) g = Ret (res, g') /\
        FPost g g' res (find_ptr_t (h_str g) c q) /\ Closed g'.

  (** the block built for an array element *)
  Lemma run_array_block g1 (r1 : positive) (blk1 : bytes) (idx : nat) :
    Closed g1 -> r1 ∈ h_live g1 -> h_str g1 !! r1 = Some blk1 -> existsb (Z.eqb 0) blk1 = true -> h_own g1 !! r1 = Some Lib ->
    (Z.of_nat idx <= ULONG_MAX)%Z ->
    exists new,
      (tp <~ ld_cstr (Some r1) ;;
       full_pointer <~ cJSON_malloc nofail (junk (length tp + 20 + 2)) ;;
       if (Z.of_nat idx >? ULONG_MAX)%Z then cJSON_free (Some r1) ;;; cJSON_free full_pointer ;;; ret None
       else sprintf_slash_lu_s full_pointer (Z.of_nat idx) (Some r1) ;;; cJSON_free (Some r1) ;;; ret full_pointer) g1 =
      Ret (Some (h_next g1), free1 r1 (set_str (alloc_str_h g1 (junk (length (cstr blk1) + 20 + 2))) (<[h_next g1 := new]> (h_str g1)))) /\
      cstr new = (47 :: PointerDefs.print_lu (Z.of_nat idx) ++ cstr blk1)%Z /\ existsb (Z.eqb 0) new = true.
  Proof.
    intros C1 Hl1 Hs1 Hz1 Ho1 Hidx. set (tp := cstr blk1). set (r2 := h_next g1).
    assert (Hne : r1 <> r2) by (pose proof (Closed_live _ _ C1 Hl1); unfold r2; lia).
    set (jk := junk (length tp + 20 + 2)). set (g2 := alloc_str_h g1 jk).
    set (bs := (47 :: PointerDefs.print_lu (Z.of_nat idx) ++ tp ++ [0])%Z).
    pose proof (print_lu_length (Z.of_nat idx) ltac:(lia)) as Hpl.
    assert (Hbs : 0 + length bs <= length jk).
    { unfold jk, bs. rewrite Hjunk. cbn [length]. rewrite !app_length. cbn [length]. lia. }
    assert (Enew : take 0 jk ++ bs ++ drop (0 + length bs) jk =
                   ((47 :: PointerDefs.print_lu (Z.of_nat idx) ++ tp) ++ 0 :: drop (0 + length bs) jk)%Z).
    { cbn [take app]. unfold bs at 1. cbn [app]. f_equal. by rewrite <- !app_assoc. }
    exists (take 0 jk ++ bs ++ drop (0 + length bs) jk). split; [|split].
    - stp (run_ld_cstr g1 r1 blk1 Hl1 Hs1 Hz1). fold tp. stp (run_malloc_ok jk g1). fold r2 g2.
      destruct (Z.gtb_spec (Z.of_nat idx) ULONG_MAX) as [|_]; [lia|].
      assert (Hl12 : r1 ∈ h_live g2) by (cbn; set_solver).
      assert (Hs12 : h_str g2 !! r1 = Some blk1) by (cbn; by rewrite lookup_insert_ne).
      unfold sprintf_slash_lu_s. stp (run_ld_cstr g2 r1 blk1 Hl12 Hs12 Hz1). fold tp bs.
      assert (Hl22 : r2 ∈ h_live g2) by (cbn; set_solver).
      assert (Hs22 : h_str g2 !! r2 = Some jk) by (cbn; by rewrite lookup_insert).
      assert (Ho22 : h_own g2 !! r2 = Some Lib) by (cbn; by rewrite lookup_insert).
      stp (run_st_bytes g2 r2 jk bs 0 Hl22 Hs22 Ho22 Hbs).
      unfold cJSON_free.
      set (g3 := set_str g2 (<[r2:=take 0 jk ++ bs ++ drop (0 + length bs) jk]> (h_str g2))).
      assert (Hl13 : r1 ∈ h_live g3) by (cbn; set_solver).
      assert (Ho13 : h_own g3 !! r1 = Some Lib) by (cbn; by rewrite lookup_insert_ne).
      stp (run_free_block g3 r1 Hl13 Ho13). unfold ret. do 3 f_equal. unfold g3. f_equal. cbn [h_str g2 alloc_str_h].
      unfold g2. cbn [h_str alloc_str_h]. by rewrite insert_insert.
    - rewrite Enew. apply cstr_zfree_app. constructor; [lia|]. apply Forall_app. split; [apply print_lu_zfree; lia|apply SortSpec.cstr_zfree].
    - rewrite Enew. apply has0_app.
  Qed.

  (** the block built for an object member *)
  Lemma run_object_block g1 (r1 : positive) (blk1 : bytes) (cid kb : positive) ndc (sk : bytes) :
    Closed g1 -> r1 ∈ h_live g1 -> h_str g1 !! r1 = Some blk1 -> existsb (Z.eqb 0) blk1 = true -> h_own g1 !! r1 = Some Lib ->
    nd_at g1 cid ndc -> nd_key ndc = Some kb ->
    kb ∈ h_live g1 -> h_str g1 !! kb = Some sk -> existsb (Z.eqb 0) sk = true ->
    exists new jk,
      (tp <~ ld_cstr (Some r1) ;;
       k1 <~ get_key (Some cid) ;;
       el <~ pointer_encoded_length k1 ;;
       full_pointer <~ cJSON_malloc nofail (junk (length tp + el + 2)) ;;
       st_byte (cs_of_ptr full_pointer) 0 47 ;;;
       k2 <~ get_key (Some cid) ;;
       encode_string_as_pointer (cs_plus (cs_of_ptr full_pointer) 1) k2 ;;;
       c_strcat full_pointer (Some r1) ;;;
       cJSON_free (Some r1) ;;;
       ret full_pointer) g1 =
      Ret (Some (h_next g1), free1 r1 (set_str (alloc_str_h g1 jk) (<[h_next g1 := new]> (h_str g1)))) /\
      cstr new = (47 :: PointerDefs.encode_string_as_pointer (cstr sk) ++ cstr blk1)%Z /\ existsb (Z.eqb 0) new = true.
  Proof.
    intros C1 Hl1 Hs1 Hz1 Ho1 [Hlc Hdc] Hkey Hlk Hsk Hzk.
    set (tp := cstr blk1). set (ks := cstr sk). set (enc := PointerDefs.encode_string_as_pointer ks). set (r2 := h_next g1).
    assert (Hne1 : r1 <> r2) by (pose proof (Closed_live _ _ C1 Hl1); unfold r2; lia).
    assert (Hnek : kb <> r2) by (pose proof (Closed_live _ _ C1 Hlk); unfold r2; lia).
    assert (Hnec : cid <> r2) by (pose proof (Closed_live _ _ C1 Hlc); unfold r2; lia).
    set (jk := junk (length tp + pel_loop ks 0 + 2)).
    assert (Hjl : length jk = length tp + length enc + 2) by (unfold jk; rewrite Hjunk, pel_loop_spec; fold enc; lia).
    destruct jk as [|x jr] eqn:Ejk; [cbn in Hjl; lia|]. cbn [length] in Hjl.
    assert (Hzt : SortSpec.zfree tp) by apply SortSpec.cstr_zfree.
    assert (Hze : SortSpec.zfree enc) by (apply encode_zfree, SortSpec.cstr_zfree).
    set (s1 := (47 :: jr)%Z).
    set (s2 := ([47] ++ enc ++ [0] ++ drop (length enc + 1) jr)%Z).
    set (s3 := take (length (47 :: enc)%Z) s2 ++ (tp ++ [0%Z]) ++ drop (length (47 :: enc)%Z + length (tp ++ [0%Z])) s2).
    assert (Hl2 : length s2 = length s1).
    { unfold s2, s1. rewrite !app_length, drop_length. cbn [length]. lia. }
    assert (Es2 : s2 = ((47 :: enc) ++ 0 :: drop (length enc + 1) jr)%Z) by reflexivity.
    assert (Hc2 : cstr s2 = (47 :: enc)%Z) by (rewrite Es2; apply cstr_zfree_app; constructor; [lia|done]).
    assert (Hz2 : existsb (Z.eqb 0) s2 = true) by (rewrite Es2; apply has0_app).
    assert (Hb3 : length (47 :: enc)%Z + length (tp ++ [0%Z]) <= length s2).
    { rewrite Hl2. unfold s1. rewrite app_length. cbn [length]. lia. }
    assert (Es3 : s3 = ((47 :: enc ++ tp) ++ 0 :: drop (length (47 :: enc)%Z + length (tp ++ [0%Z])) s2)%Z).
    { unfold s3. rewrite Es2 at 1. rewrite take_app. cbn [app]. f_equal. rewrite <- !app_assoc. done. }
    exists s3, (x :: jr). split; [|split].
    2:{ rewrite Es3. apply cstr_zfree_app. constructor; [lia|]. by apply Forall_app. }
    2:{ rewrite Es3. apply has0_app. }
    stp (run_ld_cstr g1 r1 blk1 Hl1 Hs1 Hz1). fold tp.
    stp (run_get_key_plain g1 cid ndc Hlc Hdc). rewrite Hkey.
    unfold pointer_encoded_length. stp (run_ld_cstr g1 kb sk Hlk Hsk Hzk). fold ks. rewrite bindM_ret.
    stp (run_malloc_ok (junk (length tp + pel_loop ks 0 + 2)) g1). fold jk. rewrite Ejk. fold r2.
    set (g2 := alloc_str_h g1 (x :: jr)).
    (* full_pointer[0] = '/' *)
    cbn [cs_of_ptr]. unfold st_byte.
    stp (run_ld_str g2 r2 (x :: jr) ltac:(cbn; set_solver) ltac:(cbn; by rewrite lookup_insert)).
    cbn [Nat.add length Nat.ltb Nat.leb].
    assert (Eu : upd (x :: jr) 0 47 = s1) by reflexivity. rewrite Eu.
    stp (run_st_str' g2 r2 (x :: jr) s1 ltac:(cbn; set_solver) ltac:(cbn; by rewrite lookup_insert) ltac:(cbn; by rewrite lookup_insert) eq_refl).
    fold (wrb g2 r2 s1). set (g3 := wrb g2 r2 s1).
    stp (run_get_key_plain g3 cid ndc ltac:(cbn; set_solver) Hdc). rewrite Hkey.
    (* encode_string_as_pointer(full_pointer + 1, key) *)
    cbn [cs_plus]. unfold encode_string_as_pointer.
    stp (run_ld_str g3 r2 s1 ltac:(cbn; set_solver) ltac:(cbn; by rewrite lookup_insert)).
    stp (run_ld_cstr g3 kb sk ltac:(cbn; set_solver) ltac:(cbn; by rewrite !lookup_insert_ne) Hzk). fold ks.
    change (0 + 1) with (length [47%Z]). change s1 with ([47%Z] ++ jr).
    rewrite (esp_loop_spec ks [47%Z] jr ltac:(fold enc; lia)). fold enc. fold s2.
    stp (run_st_str' g3 r2 s1 s2 ltac:(cbn; set_solver) ltac:(cbn; by rewrite lookup_insert) ltac:(cbn; by rewrite lookup_insert) Hl2).
    fold (wrb g3 r2 s2). set (g4 := wrb g3 r2 s2).
    (* strcat(full_pointer, target_pointer) *)
    unfold c_strcat.
    stp (run_ld_cstr g4 r2 s2 ltac:(cbn; set_solver) ltac:(cbn; by rewrite lookup_insert) Hz2). rewrite Hc2.
    stp (run_ld_cstr g4 r1 blk1 ltac:(cbn; set_solver) ltac:(cbn; by rewrite !lookup_insert_ne) Hz1). fold tp.
    stp (run_st_bytes g4 r2 s2 (tp ++ [0%Z]) (length (47 :: enc)%Z) ltac:(cbn; set_solver) ltac:(cbn; by rewrite lookup_insert)
           ltac:(cbn; by rewrite lookup_insert) Hb3).
    fold s3. fold (wrb g4 r2 s3). set (g5 := wrb g4 r2 s3).
    unfold cJSON_free.
    stp (run_free_block g5 r1 ltac:(cbn; set_solver) ltac:(cbn; by rewrite lookup_insert_ne)).
    unfold ret. do 3 f_equal. unfold g5, g4, g3. rewrite !wrb_wrb. unfold wrb, set_str, g2. cbn. by rewrite insert_insert.
  Qed.

  (** the child loop *)
  Lemma fp_loop_view df k' (i : positive) nd :
    forall l (idx : nat) g n,
      (forall c, c ∈ l -> rec_at df k' c) ->
      nd_at g i nd -> src_list g lf k' l -> Forall (fview g lf k') l ->
      Forall members_named l -> Forall small_nodes l ->
      (Z.land (nd_type nd) 255 = c_cJSON_Object -> Forall (fun c => rd_key (tdata c) <> None) l) ->
      (Z.of_nat (idx + length l) <= ULONG_MAX + 1)%Z -> Closed g -> length l < n ->
      exists res g',
        fp_loop nofail junk (fun c => FP df lfuel c (Some q)) (Some i) n (head (tid <$> l)) (Z.of_nat idx) g = Ret (res, g') /\
        FPost g g' res (fpt_go (h_str g) (nd_type nd) q l idx) /\ Closed g'.
  Proof.
    induction l as [|c r IH]; intros idx g n Hrec Hnd Hsl HF HM HS HK Hidx C Hn; (destruct n as [|n]; [cbn in Hn; lia|]).
    { cbn [fp_loop fmap list_fmap head is_null fpt_go]. exists None, g. split; [done|]. split; [apply FPost_none_refl|done]. }
    cbn [fp_loop fmap list_fmap head is_null fpt_go].
    apply Forall_cons in HF as [Hvc HF]. apply Forall_cons in HM as [Hmc HM]. apply Forall_cons in HS as [Hsc HS].
    destruct (Hrec c ltac:(by left) g Hvc Hmc Hsc C) as (res1 & g1 & Hrun1 & P1 & C1). stp Hrun1.
    pose proof (FPost_pt _ _ _ _ C P1) as PT.
    destruct Hnd as [Hli Hdi].
    assert (Hli1 : i ∈ h_live g1) by (by apply (proj1 PT i nd (conj Hli Hdi))).
    assert (Hdi1 : h_dat g1 !! i = Some nd) by (by apply (proj1 PT i nd (conj Hli Hdi))).
    destruct (find_ptr_t (h_str g) c q) as [tp|] eqn:Ef.
    - (* found below this child *)
      pose proof P1 as [_ _ _ _ _ (r1 & blk1 & -> & R1 & R2 & R3 & R4 & R5 & R6 & R7)]. cbn [is_null negb].
      assert (Hl1 : r1 ∈ h_live g1) by (rewrite R4; set_solver).
      assert (Hs1 : h_str g1 !! r1 = Some blk1) by (rewrite R3; by rewrite lookup_insert).
      unfold cJSON_IsArray. cbn [is_null]. unfold type_is. stp (run_get_type_plain g1 i nd Hli1 Hdi1). rewrite bindM_ret.
      unfold fpt_result.
      assert (Hix : (Z.of_nat idx <= ULONG_MAX)%Z) by (cbn [length] in Hidx; lia).
      destruct (Z.land (nd_type nd) 255 =? c_cJSON_Array)%Z eqn:Earr.
      + (* array *)
        destruct (run_array_block g1 r1 blk1 idx C1 Hl1 Hs1 R7 R5 Hix) as (new & Hrun & Hc & Hz).
        rewrite Hrun. eexists _, _. split; [reflexivity|]. rewrite R6 in Hc.
        destruct (fresh_block_post g1 (junk (length (cstr blk1) + 20 + 2)) new _ C1 Hc Hz) as [P2 C2].
        exact (replace_block_post g g1 _ r1 (h_next g1) tp _ C P1 P2 C2).
      + unfold cJSON_IsObject. cbn [is_null]. unfold type_is. stp (run_get_type_plain g1 i nd Hli1 Hdi1). rewrite bindM_ret.
        destruct (Z.eqb_spec (Z.land (nd_type nd) 255) c_cJSON_Object) as [Eobj|Eobj].
        * (* object *)
          specialize (HK Eobj). apply Forall_cons in HK as [Hkc _].
          destruct c as [ci cd ccs]. cbn [tid tdata] in *.
          pose proof Hvc as (Hsc' & _ & Hkr). apply src_t_node in Hsc' as (Hndc & _).
          destruct (rd_key cd) as [kb|] eqn:Ekey; [|done].
          destruct (readable_run g kb (keys_readable_root _ _ _ _ _ Hkr Ekey)) as (sk & Hlk & Hsk & Hzk & _).
          pose proof (proj1 PT _ _ Hndc) as Hndc1.
          pose proof (proj2 (proj2 PT) kb sk (conj Hlk Hsk)) as [Hlk1 Hsk1].
          destruct (run_object_block g1 r1 blk1 ci kb _ sk C1 Hl1 Hs1 R7 R5 Hndc1 Ekey Hlk1 Hsk1 Hzk) as (new & jk & Hrun & Hc & Hz).
          rewrite Hrun. eexists _, _. split; [reflexivity|].
          unfold key_string. cbn [tdata]. rewrite Ekey. cbn [mbind option_bind]. rewrite Hsk. cbn [mbind option_bind].
          rewrite R6 in Hc.
          destruct (fresh_block_post g1 jk new _ C1 Hc Hz) as [P2 C2].
          exact (replace_block_post g g1 _ r1 (h_next g1) tp _ C P1 P2 C2).
        * (* neither: reached a leaf with children *)
          unfold cJSON_free. stp (run_free_block g1 r1 Hl1 R5). eexists _, _. split; [reflexivity|].
          exact (drop_block_post g g1 r1 tp C P1 C1).
    - (* not below this child: next *)
      pose proof P1 as [_ _ _ _ _ (-> & R1 & R2)]. cbn [is_null negb].
      pose proof Hsl as Hsl'. rewrite src_list_cons in Hsl'. destruct Hsl' as ((pv & Hlk) & _ & Hslr).
      destruct (proj1 (proj2 PT) _ _ Hlk) as [Hl1 He1]. stp (run_get_next_plain g1 (tid c) _ Hl1 He1). cbn [fst].
      replace (Z.of_nat idx + 1)%Z with (Z.of_nat (S idx)) by lia.
      destruct (IH (S idx) g1 n) as (res & g' & Hrun & P2 & C2).
      + intros c' Hc'. apply Hrec. by right.
      + done.
      + by eapply src_list_pt.
      + eapply Forall_impl; [exact HF|]. intros c'. by apply fview_pt.
      + done.
      + done.
      + intros E. specialize (HK E). by apply Forall_cons in HK as [_ ?].
      + cbn [length] in Hidx. lia.
      + done.
      + cbn [length] in Hn. lia.
      + exists res, g'. split; [done|]. split; [|done]. rewrite R1 in P2. exact (FPost_none_trans g g1 g' res _ P1 P2).
  Qed.

  (** one node *)
  Lemma fp_node df k i d cs : (forall c, c ∈ cs -> rec_at df (Nat.pred k) c) -> rec_at (S df) k (T i d cs).
  Proof.
    intros Hrec g Hv Hm Hs C. cbn [tid]. rewrite FindPointer_fuel_S, find_ptr_t_unfold. cbn [is_null orb ptr_eqb].
    destruct (Pos.eqb_spec i q) as [->|Hne].
    - (* object == target: strdup("") *)
      rewrite decide_True by done. unfold cJSONUtils_strdup_s. cbn [ld_cs]. rewrite bindM_ret. cbn [length].
      stp (run_malloc_ok (junk 1) g). cbn [is_null app].
      set (g2 := alloc_str_h g (junk 1)).
      stp (run_st_str' g2 (h_next g) (junk 1) [0%Z] ltac:(cbn; set_solver) ltac:(cbn; by rewrite lookup_insert)
             ltac:(cbn; by rewrite lookup_insert) ltac:(by rewrite Hjunk)).
      eexists _, _. split; [reflexivity|]. unfold g2. cbn [h_str alloc_str_h]. rewrite insert_insert.
      exact (fresh_block_post g (junk 1) [0%Z] [] C eq_refl eq_refl).
    - rewrite decide_False by done.
      destruct (fview_unfold _ _ _ _ _ _ Hv) as (([Hl Hd] & Hlen & _) & Hch & Hsl & HF & _).
      stp (run_get_child_plain g i _ Hl Hd). change (nd_child (mk_dat d (tid <$> cs))) with (child_of d (tid <$> cs)). rewrite Hch.
      rewrite fmap_length in Hlen.
      destruct (fp_loop_view df (Nat.pred k) i (mk_dat d (tid <$> cs)) cs 0 g lfuel Hrec (conj Hl Hd) Hsl HF) as (res & g' & Hrun & P & C').
      + apply Forall_forall. intros c Hc. by eapply members_named_child.
      + apply Forall_forall. intros c Hc. by eapply small_nodes_child.
      + cbn [nd_type mk_dat]. intros E. apply Forall_forall. intros c Hc. exact (Hm (T i d cs) (nodes_t_self _) E c Hc).
      + pose proof (Hs (T i d cs) (nodes_t_self _)) as H0. cbn [tchildren] in H0. cbn [Nat.add]. lia.
      + done.
      + lia.
      + exists res, g'. split; [exact Hrun|]. split; [exact P|done].
  Qed.

  (** THE RECURSION: views of depth [k], recursion fuel above [k] *)
  Theorem fp_view : forall k df c, k < df -> rec_at df k c.
  Proof.
    induction k as [|k IH]; intros df c Hdf; (destruct df as [|df]; [lia|]); destruct c as [i d cs].
    - intros g Hv Hm Hs C. assert (cs = []) as -> by (destruct Hv as (Hs0 & _); rewrite src_t_O in Hs0; tauto).
      apply (fp_node df 0 i d []); try done. intros c Hc. by apply elem_of_nil in Hc.
    - apply fp_node. intros c _. cbn [Nat.pred]. apply IH. lia.
  Qed.
End Find.
