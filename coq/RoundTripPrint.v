(** RoundTripPrint.v — property C04 at the buffer-level print entry points: composition of
    RoundTrip.v with the printer refinement theorems of PrintProofs.v (print =
    cJSON_Print / cJSON_PrintUnformatted, cJSON_PrintBuffered, cJSON_PrintPreallocated return
    exactly [render fmt 0 n] with its terminator).

    * [buffer_independent]: when no allocation fails, the bytes returned do not depend on the
      allocator configuration ([hr]: realloc available or not), on the contents of fresh memory
      ([junk]), on the prebuffer size, or on the caller's buffer (beyond being large enough);
    * [print_parse_print]: cJSON_Print, then cJSON_Parse on the returned block, then cJSON_Print
      again — the tree in the middle has the shape of the original, the two blocks are
      byte-identical. *)
From CJ Require Import Base Dbl Tree Grammar ParseDefs ParseSpec ParseComplete ParseCompleteEntry
  PrintDefs PrintLemmas PrintProofs PrintStrict PrintStrictWs RoundTripNum RoundTrip.
Local Open Scope Z_scope.

Lemma fields_ok_eq ty vs vi vd key ch :
  fields_ok (Node ty vs vi vd key ch) = int_range vi && valid_dbl vd && forallb fields_ok ch.
Proof. reflexivity. Qed.

Definition no_failure : nat -> bool := fun _ => false.

Section BufferIndependent.
  Variable fmt_d : Z -> bytes.
  Variable fmt_g15 fmt_g17 : dbl -> bytes.
  Variable sscanf_lg : bytes -> option dbl.
  Hypothesis P : LibcPrintSpec fmt_d fmt_g15 fmt_g17.

  Notation render := (PrintDefs.render fmt_d fmt_g15 fmt_g17 sscanf_lg).
  Notation print := (PrintDefs.print fmt_d fmt_g15 fmt_g17 sscanf_lg).
  Notation cJSON_PrintBuffered := (PrintDefs.cJSON_PrintBuffered fmt_d fmt_g15 fmt_g17 sscanf_lg).
  Notation cJSON_PrintPreallocated := (PrintDefs.cJSON_PrintPreallocated fmt_d fmt_g15 fmt_g17 sscanf_lg).

  (** every print entry point returns the same bytes [render fmt 0 n] followed by the
      terminator, for every allocator configuration, every contents of fresh memory, every
      prebuffer >= 0, every sufficiently large caller buffer, when no allocation fails *)
  Theorem buffer_independent n fmt txt :
    fields_ok n = true -> render fmt 0 n = Some txt -> zlen txt + 2 <= c_INT_MAX ->
    (forall hr junk, exists r,
        print no_failure junk n fmt hr = Ok r /\ prr_block r = Some (txt ++ [0])) /\
    (forall hr junk prebuffer, 0 <= prebuffer -> exists r rest,
        cJSON_PrintBuffered no_failure junk n prebuffer fmt hr = Ok r /\
        prr_block r = Some (txt ++ 0 :: rest)) /\
    (forall hr junk oracle buf, zlen txt + 2 <= zlen buf -> zlen buf <= c_INT_MAX -> exists r rest,
        cJSON_PrintPreallocated oracle junk n (Some buf) (zlen buf) fmt hr = Ok r /\
        par_flag r = true /\ par_buffer r = Some (txt ++ 0 :: rest) /\
        zlen (txt ++ 0 :: rest) = zlen buf).
  Proof.
    intros Hf Hr Hsz. split; [|split].
    - intros hr junk.
      destruct (print_spec fmt_d fmt_g15 fmt_g17 sscanf_lg P no_failure junk n fmt hr Hf) as (r & E & _ & S).
      exists r. split; [exact E|]. apply S; [reflexivity|exact Hr|exact Hsz].
    - intros hr junk prebuffer Hpre.
      destruct (print_buffered_spec fmt_d fmt_g15 fmt_g17 sscanf_lg P no_failure junk n prebuffer fmt hr Hf Hpre)
        as (r & E & _ & S).
      destruct (S (fun _ => eq_refl) txt Hr Hsz) as [rest Hb].
      exists r, rest. split; [exact E|exact Hb].
    - intros hr junk oracle buf Hfit Hmax.
      destruct (prealloc_spec fmt_d fmt_g15 fmt_g17 sscanf_lg P oracle junk n buf fmt hr Hf)
        as (r & E & _ & S & C).
      pose proof (C Hmax txt Hr Hfit) as Hflag.
      destruct (S Hflag) as (txt' & rest & Hr' & Hb & Hlen & _).
      rewrite Hr in Hr'. injection Hr' as <-.
      exists r, rest. repeat split; assumption.
  Qed.
End BufferIndependent.

Section EndToEnd.
  Variable strtod : bytes -> option (dbl * nat).
  Variable fmt_d : Z -> bytes.
  Variable fmt_g15 fmt_g17 : dbl -> bytes.
  Variable sscanf_lg : bytes -> option dbl.
  Hypothesis Hsok : strtod_ok strtod.
  Hypothesis Hrfc : strtod_rfc strtod.
  Hypothesis L : LibcStrictSpec fmt_d fmt_g15 fmt_g17.
  Hypothesis R : LibcRoundTripSpec strtod fmt_d fmt_g15 fmt_g17 sscanf_lg.

  Notation render := (PrintDefs.render fmt_d fmt_g15 fmt_g17 sscanf_lg).
  Notation print := (PrintDefs.print fmt_d fmt_g15 fmt_g17 sscanf_lg).
  Notation val_of := (PrintStrict.val_of fmt_d fmt_g15 fmt_g17 sscanf_lg).
  Notation reparsed := (RoundTrip.reparsed strtod fmt_d fmt_g15 fmt_g17 sscanf_lg).

  Ltac split_hyps Hp Ho :=
    rewrite printable_eq in Hp; rewrite rt_ok_eq in Ho; cbv zeta in Hp, Ho;
    apply andb_true_iff in Hp as [Hp Pch]; apply andb_true_iff in Hp as [Hp Pkeys];
    apply andb_true_iff in Hp as [Hp Pstr]; apply andb_true_iff in Hp as [Pty Pint];
    apply andb_true_iff in Ho as [Ho Och]; apply andb_true_iff in Ho as [Ho Okeys];
    apply andb_true_iff in Ho as [Onum Ostr].

  Lemma fields_ok_set_key k n : fields_ok (set_key k n) = fields_ok n.
  Proof. destruct n; reflexivity. Qed.

  (** every node of the re-parsed tree carries a C int and a well-formed double *)
  Lemma reparsed_fields_ok : forall n, printable n = true -> rt_ok n = true -> fields_ok (reparsed n) = true.
  Proof.
    induction n as [ty vs vi vd key ch IH] using node_ind'. intros Hp Ho.
    split_hyps Hp Ho.
    destruct (ty_cases _ Pty) as [E|[E|[E|[E|[E|[E|E]]]]]].
    - unfold RoundTrip.reparsed. rewrite val_of_eq. tysimpl. rewrite E. reflexivity.
    - unfold RoundTrip.reparsed. rewrite val_of_eq. tysimpl. rewrite E. reflexivity.
    - unfold RoundTrip.reparsed. rewrite val_of_eq. tysimpl. rewrite E. reflexivity.
    - rewrite E in Onum. tysimpl_in Onum.
      apply andb_true_iff in Onum as [Ho' Hvi]. apply andb_true_iff in Ho' as [Hf Hv]. apply Z.eqb_eq in Hvi.
      destruct (reparsed_number strtod fmt_d fmt_g15 fmt_g17 sscanf_lg R ty vs vi vd key ch E Hf Hv Hvi)
        as [d' [Er [_ [Hv' _]]]].
      rewrite Er, fields_ok_eq. rewrite (sat_int_range d' Hv'). unfold valid_dbl. rewrite Hv'. reflexivity.
    - unfold RoundTrip.reparsed. rewrite val_of_eq. tysimpl. rewrite E. reflexivity.
    - unfold RoundTrip.reparsed. rewrite val_of_eq. tysimpl. rewrite E. tysimpl. rewrite tree_of_arr.
      rewrite E in Pch, Och. tysimpl_in Pch. tysimpl_in Och.
      rewrite fields_ok_eq. change (int_range 0 && valid_dbl dzero) with true. cbn [andb].
      rewrite map_map. clear - IH Pch Och. induction ch as [|c ch IHch]; [reflexivity|].
      cbn [forallb] in Pch, Och. apply andb_true_iff in Pch as [Hc Hr]. apply andb_true_iff in Och as [Hc0 Hr0].
      inversion IH as [|? ? IHc IHr]; subst. cbn [map forallb].
      pose proof (IHc Hc Hc0) as Hx. unfold RoundTrip.reparsed in Hx. rewrite Hx. exact (IHch IHr Hr Hr0).
    - unfold RoundTrip.reparsed. rewrite val_of_eq. tysimpl. rewrite E. tysimpl. rewrite tree_of_obj.
      rewrite E in Pch, Och. tysimpl_in Pch. tysimpl_in Och.
      rewrite fields_ok_eq. change (int_range 0 && valid_dbl dzero) with true. cbn [andb].
      rewrite map_map. cbn [fst snd]. clear - IH Pch Och. induction ch as [|c ch IHch]; [reflexivity|].
      cbn [forallb] in Pch, Och. apply andb_true_iff in Pch as [Hc Hr]. apply andb_true_iff in Och as [Hc0 Hr0].
      inversion IH as [|? ? IHc IHr]; subst. cbn [map forallb].
      rewrite fields_ok_set_key. pose proof (IHc Hc Hc0) as Hx. unfold RoundTrip.reparsed in Hx. rewrite Hx.
      exact (IHch IHr Hr Hr0).
  Qed.

  (** cJSON_Print / cJSON_PrintUnformatted, cJSON_Parse on the returned block, print again *)
  Theorem print_parse_print n fmt :
    printable n = true -> rt_ok n = true -> (cdepth n <= nesting_limit)%nat -> fields_ok n = true ->
    (forall txt, render fmt 0 n = Some txt -> zlen txt + 2 <= c_INT_MAX) ->
    exists txt, render fmt 0 n = Some txt /\
    forall hr junk, exists r pr,
      print no_failure junk n fmt hr = Ok r /\ prr_block r = Some (txt ++ [0]) /\
      cJSON_Parse strtod never_fails (txt ++ [0]) = Ok pr /\ pr_tree pr = Some (reparsed n) /\
      same_shape n (reparsed n) /\
      forall hr2 junk2, exists r2,
        print no_failure junk2 (reparsed n) fmt hr2 = Ok r2 /\ prr_block r2 = Some (txt ++ [0]).
  Proof.
    intros Hp Ho Hd Hf Hsz.
    pose proof (strict_spec_print_spec fmt_d fmt_g15 fmt_g17 L) as P.
    destruct (roundtrip_entry_points strtod fmt_d fmt_g15 fmt_g17 sscanf_lg Hrfc L R n Hp Ho Hd fmt Hsok)
      as [txt [Hr Hparse]].
    exists txt. split; [exact Hr|]. intros hr junk.
    destruct (buffer_independent fmt_d fmt_g15 fmt_g17 sscanf_lg P n fmt txt Hf Hr (Hsz txt Hr)) as [B1 _].
    destruct (B1 hr junk) as [r [Er Hb]].
    destruct (Hparse [] false) as (r1 & _ & _ & _ & _ & E1 & _ & _ & _ & _ & T1 & _ & _ & _ & _ & Hs & Hre).
    exists r, r1. split; [exact Er|]. split; [exact Hb|]. split; [exact E1|]. split; [exact T1|].
    split; [exact Hs|]. intros hr2 junk2.
    assert (Hr2 : render fmt 0 (reparsed n) = Some txt) by (rewrite Hre; exact Hr).
    destruct (buffer_independent fmt_d fmt_g15 fmt_g17 sscanf_lg P (reparsed n) fmt txt
                (reparsed_fields_ok n Hp Ho) Hr2 (Hsz txt Hr)) as [B2 _].
    exact (B2 hr2 junk2).
  Qed.
End EndToEnd.
