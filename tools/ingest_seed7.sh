#!/bin/sh
# ingest_seed3.sh <PID> — round 7: copies mutation_L/_M of /tmp/wt/<PID>r3 into seeded/, verifies, runs the property's check against each, removes the worktree
pid=$1; wt=/tmp/wt/${pid}r7
for m in L M; do
  if [ -d $wt/mutation_$m ]; then
    rm -rf /verif/seeded/${pid}_$m; mkdir -p /verif/seeded/${pid}_$m
    cp $wt/mutation_$m/patch.diff $wt/mutation_$m/demo.c $wt/mutation_$m/meta.json /verif/seeded/${pid}_$m/ 2>/dev/null
  fi
done
git -C /repo worktree remove --force $wt; rm -f $wt.property.txt
python3 /verif/tools/verify_seeds.py ${pid}_L ${pid}_M 2>&1 | grep -v conda | cut -c1-120
for m in L M; do
  if [ "$pid" = "C20" ] || [ "$pid" = "C14" ]; then sh /verif/tools/try_seed.sh ${pid}_$m $pid 2>&1 | grep -v conda | tail -2
  else python3 /verif/tools/trial.py $pid ${pid}_$m 2>&1 | tail -1 | cut -c1-110; fi
done
