"""parsegen.py — input streams for the parser properties (C01, C02, C03, C10) and two independent
python oracles: the exact decoding of RFC 8259 texts (expected tree) and a recogniser of the
library's lenient dialect (RFC 8259 + bytes <= 0x20 as whitespace + raw control bytes in strings +
number spellings strtod accepts + trailing bytes when termination is not required)."""
import random, itertools, re, sys
sys.setrecursionlimit(20000)
from .common import *

WS_RFC = [b' ', b'\t', b'\n', b'\r']
BOM = b'\xef\xbb\xbf'
NESTING_LIMIT = 1000

def rfc_ws(rng, p=0.35):
    return b''.join(rng.choice(WS_RFC) for _ in range(rng.choice([0, 1, 2]))) if rng.random() < p else b''

def weave_rfc(toks, rng):
    out = rfc_ws(rng)
    for t in toks: out += t + rfc_ws(rng)
    return out

NUM_TEXTS = ['0', '-0', '1', '-1', '10', '123', '2147483647', '2147483648', '-2147483648', '-2147483649', '4294967296', '0.5', '-0.25', '1e5', '1E5', '1e+5', '1e-5',
             '1.5e300', '1e400', '-1e400', '1e-400', '0.1', '0.30000000000000004', '123456789012345678901234567890', '1.7976931348623157e308', '1.7976931348623159e308',
             '4.9e-324', '2.4703282292062327e-324', '2.4703282292062328e-324', '2.2250738585072011e-308', '9007199254740993', '0.1e1', '1.0', '100e-2', '1e0', '0e0', '0.0', '-0.0e-0',
             '999999999999999', '1000000000000000', '5e-1', '17976931348623157' + '0' * 292, '0.' + '0' * 50 + '1', '1' + '0' * 62, '1.' + '1' * 61, '1' * 63, '3.141592653589793',
             # one unit and half a unit on either side of both ends of the int range (valueint saturates, valuedouble does not)
             '2147483646', '2147483646.5', '2147483647.5', '-2147483646', '-2147483647', '-2147483647.5', '-2147483648.5', '-2147483647.0000001', '2147483646.9999999']

NUM_TEXTS_OK = [t for t in NUM_TEXTS if len(t) <= 63]

class NumLit:
    """a number given by its literal text"""
    def __init__(self, text): self.text = text

def rand_rfc_value(rng, depth):
    r = rng.random()
    if depth <= 0 or r < 0.4:
        k = rng.randrange(7)
        if k == 0: return None
        if k == 1: return rng.random() < 0.5
        if k in (2, 3): return NumLit(rng.choice(NUM_TEXTS_OK)) if rng.random() < 0.7 else NumLit(repr(rng.uniform(-1e6, 1e6)) if rng.random() < 0.5 else str(rng.randrange(-10**6, 10**6)))
        return rand_string(rng)
    if r < 0.7: return [rand_rfc_value(rng, depth - 1) for _ in range(rng.choice([0, 1, 1, 2, 3, 5]))]
    return Obj([(rand_string(rng) if rng.random() < 0.6 else rng.choice(KEYS), rand_rfc_value(rng, depth - 1)) for _ in range(rng.choice([0, 1, 2, 2, 3]))])

CPS = [0x20, 0x21, 0x22, 0x2f, 0x5c, 0x7e, 0x7f, 0x80, 0xe9, 0x7ff, 0x800, 0xfff, 0x1000, 0xd7ff, 0xe000, 0xfffd, 0xffff, 0x10000, 0x10001, 0x1f600, 0x3ffff, 0x40000, 0x4ffff, 0x50000,
       0xfffff, 0x100000, 0x10ffff, 0x10fc00, 0x41, 0x61, 0x30, 0x08, 0x09, 0x0a, 0x0c, 0x0d, 0x01, 0x1f, 0x103ff, 0x10400, 0xd7fe]
def rand_string(rng):
    n = rng.choice([0, 1, 1, 2, 3, 5, 8])
    return ''.join(chr(rng.choice(CPS)) if rng.random() < 0.7 else chr(rng.randrange(0x20, 0x7f)) for _ in range(n))

def lit_of_string(s, rng):
    """an RFC 8259 string literal for s with random choices between the admissible spellings"""
    out = ['"']
    for ch in s:
        o = ord(ch); r = rng.random()
        if ch == '"': out.append('\\"' if r < 0.8 else '\\u0022')
        elif ch == '\\': out.append('\\\\' if r < 0.8 else '\\u005c')
        elif o < 0x20:
            short = {8: '\\b', 9: '\\t', 10: '\\n', 12: '\\f', 13: '\\r'}
            out.append(short[o] if o in short and r < 0.6 else '\\u%04x' % o if r < 0.8 else '\\u%04X' % o)
        elif ch == '/' and r < 0.4: out.append('\\/')
        elif r < 0.25 or (0xd800 <= o <= 0xdfff):
            if o >= 0x10000:
                o2 = o - 0x10000; hi, lo = 0xD800 + (o2 >> 10), 0xDC00 + (o2 & 0x3ff)
                out.append(('\\u%04X\\u%04x' if r < 0.1 else '\\u%04x\\u%04X') % (hi, lo))
            else: out.append('\\u%04x' % o if r < 0.15 else '\\u%04X' % o)
        else: out.append(ch)
    out.append('"')
    return ''.join(out).encode('utf-8')

def rfc_tokens(v, rng):
    if v is None: return [b'null']
    if v is True: return [b'true']
    if v is False: return [b'false']
    if isinstance(v, NumLit): return [v.text.encode()]
    if isinstance(v, str): return [lit_of_string(v, rng)]
    if isinstance(v, Obj):
        t = [b'{']
        for i, (k, e) in enumerate(v):
            if i: t.append(b',')
            t += [lit_of_string(k, rng), b':'] + rfc_tokens(e, rng)
        return t + [b'}']
    t = [b'[']
    for i, e in enumerate(v):
        if i: t.append(b',')
        t += rfc_tokens(e, rng)
    return t + [b']']

def expected_tokens(v, key=None):
    """tree tokens the parser must produce for an RFC value (strings cut at an embedded zero never occur: no U+0000 generated)"""
    kb = None if key is None else key.encode('utf-8')
    if v is None: return node_tokens(T_NULL, key=kb)
    if v is True: return node_tokens(T_TRUE, vi=1, key=kb)
    if v is False: return node_tokens(T_FALSE, key=kb)
    if isinstance(v, NumLit):
        d = float(v.text)           # python's float() is correctly rounded
        return node_tokens(T_NUMBER, vi=sat_int(d), vd=d, key=kb)
    if isinstance(v, str): return node_tokens(T_STRING, vs=v.encode('utf-8'), key=kb)
    if isinstance(v, Obj): return node_tokens(T_OBJECT, key=kb, children=[expected_tokens(e, k) for k, e in v])
    return node_tokens(T_ARRAY, key=kb, children=[expected_tokens(e) for e in v])

# ------------------------------------------------------------------ lenient recogniser (independent of the Coq model)
NUMSET = b'0123456789+-eE.'
_num_re = re.compile(rb'[+-]?(?:[0-9]+\.?[0-9]*|\.[0-9]+)(?:[eE][+-]?[0-9]+)?')
def strtod_len(run):
    m = _num_re.match(run)
    return len(m.group(0)) if m else 0

class Lenient:
    """returns the end offset of the first value in buf[:n] (after optional BOM / bytes <= 0x20), or None if malformed"""
    def __init__(self, buf, n): self.b = buf[:n]; self.n = min(n, len(buf))
    def ws(self, i):
        while i < self.n and self.b[i] <= 32: i += 1
        return i
    def value(self, i, depth):
        b, n = self.b, self.n
        if b[i:i + 4] == b'null' or b[i:i + 4] == b'true': return i + 4
        if b[i:i + 5] == b'false': return i + 5
        if i >= n: return None
        c = b[i]
        if c == 0x22: return self.string(i)
        if c == 0x2d or 0x30 <= c <= 0x39:
            j = i
            while j < n and j - i < 63 and b[j] in NUMSET: j += 1
            k = strtod_len(b[i:j])
            return i + k if k else None
        if c == 0x5b or c == 0x7b:
            if depth >= NESTING_LIMIT: return None
            close = 0x5d if c == 0x5b else 0x7d
            j = self.ws(i + 1)
            if j < n and b[j] == close: return j + 1
            if j >= n: return None
            while True:
                if c == 0x7b:
                    if j >= n or b[j] != 0x22: return None
                    j = self.string(j)
                    if j is None: return None
                    j = self.ws(j)
                    if j >= n or b[j] != 0x3a: return None
                    j = self.ws(j + 1)
                j = self.value(j, depth + 1)
                if j is None: return None
                j = self.ws(j)
                if j >= n: return None
                if b[j] == close: return j + 1
                if b[j] != 0x2c: return None
                if c == 0x7b and j + 1 >= n: return None
                j = self.ws(j + 1)
        return None
    def string(self, i):
        b, n = self.b, self.n
        j = i + 1
        while True:
            if j >= n: return None
            c = b[j]
            if c == 0x22: return j + 1
            if c == 0x5c:
                if j + 1 >= n: return None
                e = b[j + 1]
                if e in b'bfnrt"\\/': j += 2; continue
                if e == 0x75:
                    h = b[j + 2:j + 6]
                    if len(h) < 4 or not all(x in b'0123456789abcdefABCDEF' for x in h): return None
                    # the closing quote must come after the complete escape
                    cp = int(h, 16)
                    if 0xDC00 <= cp <= 0xDFFF: return None
                    if 0xD800 <= cp <= 0xDBFF:
                        if b[j + 6:j + 8] != b'\\u': return None
                        h2 = b[j + 8:j + 12]
                        if len(h2) < 4 or not all(x in b'0123456789abcdefABCDEF' for x in h2): return None
                        if not (0xDC00 <= int(h2, 16) <= 0xDFFF): return None
                        j += 12
                    else: j += 6
                    continue
                return None
            j += 1

def lenient_end(buf, n):
    """offset just after the first value, or None"""
    L = Lenient(buf, n)
    if n <= 0: return None
    i = 3 if L.b[:3] == BOM else 0
    i = L.ws(i)
    if i >= L.n: return None
    return L.value(i, 0)

def lenient_accepts(buf, n, rnt):
    e = lenient_end(buf, n)
    if e is None: return False
    if rnt:
        b = buf[:n]; i = e
        while i < len(b) and b[i] != 0 and b[i] <= 32: i += 1
        return i < len(b) and b[i] == 0
    return True

# ------------------------------------------------------------------ case construction
def pcase(entry, rnt, n, content, info, failk=0):
    line = 'parse %s %d %d %s' % (entry, rnt, n, hx(content)) + ((' %d' % failk) if failk else '')
    info = dict(info); info.update({'entry': entry, 'rnt': rnt, 'n': n, 'content': content})
    return Case(line, info)

def parse_corpus(ctx, pid, extra_info=None):
    init(ctx)
    """corpus lines `parse <entry> <rnt> <n> <hex> [failk]` with their info rebuilt, so the verdict oracles apply to them"""
    out = []
    for c in load_corpus(ctx['verif'], pid):
        t = c.line.split()
        if len(t) >= 5 and t[0] == 'parse':
            info = dict(c.info); info.update(extra_info or {})
            info.update({'entry': t[1], 'rnt': int(t[2]), 'n': int(t[3]), 'content': unhx(t[4])})
            out.append(Case(c.line, info))
        else: out.append(c)
    return out

def variants(text, rng, info, all_entries=False):
    """the same text through the entry points: exact-length / +NUL, both rnt values"""
    out = []
    n = len(text)
    ents = ['L', 'l', 'W', 'O', 'o', 'P'] if all_entries else [rng.choice(['L', 'L', 'l', 'W']), rng.choice(['O', 'o', 'P'])]
    for e in ents:
        for rnt in ((0, 1) if all_entries else (rng.choice([0, 1]),)):
            if e in 'LlW':
                out.append(pcase(e, rnt, n, text, dict(info, term=False)))                      # exact length, next byte inaccessible
                if all_entries or rng.random() < 0.5: out.append(pcase(e, rnt, n + 1, text + b'\0', dict(info, term=True)))
            elif b'\0' not in text:
                out.append(pcase(e, rnt, 0, text + b'\0', dict(info, term=True)))
    return out

def stream_valid(rng, count, all_entries=False):
    cases = []
    for _ in range(count):
        v = rand_rfc_value(rng, rng.choice([0, 1, 2, 3, 4]))
        toks = rfc_tokens(v, rng)
        text = weave_rfc(toks, rng)
        if rng.random() < 0.25: text = BOM + text
        cases += variants(text, rng, {'tags': ['valid'], 'value': v}, all_entries)
    # tiny payloads after a BOM, scalars alone
    for t in [b'1', b'0', b'""', b'[]', b'{}', b'-1', b'null', b'true', b'false', b'1 ', b' 1']:
        v = {b'1': NumLit('1'), b'0': NumLit('0'), b'""': '', b'[]': [], b'{}': Obj(), b'-1': NumLit('-1'), b'null': None, b'true': True, b'false': False, b'1 ': NumLit('1'), b' 1': NumLit('1')}[t]
        cases += variants(t, rng, {'tags': ['valid', 'tiny'], 'value': v}, True)
        cases += variants(BOM + t, rng, {'tags': ['valid', 'tiny', 'bom'], 'value': v}, True)
    return cases

def deep_text(kind, d, closed=True):
    if kind == '[': return b'[' * d + (b']' * d if closed else b'')
    return b'{"a":' * d + (b'1' + b'}' * d if closed else b'')

def stream_depth(rng):
    cases = []
    for d in (NESTING_LIMIT - 2, NESTING_LIMIT - 1, NESTING_LIMIT, NESTING_LIMIT + 1, NESTING_LIMIT + 2):
        for kind in '[{':
            t = deep_text(kind, d)
            cases.append(pcase('L', 0, len(t), t, {'tags': ['depth', 'depth%d' % d], 'depth': d}))
    t = b'[' * 100000
    cases.append(pcase('L', 0, len(t), t, {'tags': ['depth', 'depth1e5'], 'depth': 100000}))
    t = b'{"a":' * 30000
    cases.append(pcase('W', 0, len(t), t, {'tags': ['depth', 'depth3e4'], 'depth': 30000}))
    return cases

TRUNC_SHAPES = [b'"abc\\', b'[', b'{', b'[1,', b'{"a":', b'{"a"', b'{"a":1,', b'123', b'-', b'1.', b'1e', b'1e+', b'"\\u', b'"\\u12', b'"\\uD83D', b'"\\uD83D\\', b'"\\uD83D\\u', b'"\\uD83D\\uDE0',
                b'\xef', b'\xef\xbb', b'\xef\xbb\xbf', b'\xef\xbb\xbf ', b'nul', b'tru', b'fals', b't', b'"', b'""', b'[""', b' ', b'', b'[[', b'[{', b'{"":', b'{"":[', b'/', b'[1 ', b'{"a" ', b'{ ',
                b'[ ', b'[1 ,', b'[1, ', b'"\\"', b'"\\\\', b'"a\\\\"', b'1' * 62, b'1' * 63, b'1' * 64, b'1' * 65, b'1' * 66, b'-' + b'1' * 63, b'1.' + b'0' * 62, b'[' + b'1' * 64 + b']', b'1' * 63 + b'e5',
                b'1' * 62 + b'e5', b'1' * 61 + b'e+5', b'0.' + b'1' * 61 + b'e1', b'12345678901234567890123456789012345678901234567890123456789012.5']
def stream_truncations(rng, count):
    cases = []
    for t in TRUNC_SHAPES:
        for e in ('L', 'W'):
            cases.append(pcase(e, 0, len(t), t, {'tags': ['shape']}))
        cases.append(pcase('L', 1, len(t), t, {'tags': ['shape']}))
        if b'\0' not in t:
            cases.append(pcase('O', 0, 0, t + b'\0', {'tags': ['shape']})); cases.append(pcase('O', 1, 0, t + b'\0', {'tags': ['shape']}))
    for _ in range(count):
        v = rand_rfc_value(rng, rng.choice([1, 2, 3]))
        text = weave_rfc(rfc_tokens(v, rng), rng)
        if rng.random() < 0.2: text = BOM + text
        for k in range(len(text) + 1):          # every prefix
            e = rng.choice(['L', 'L', 'W', 'l'])
            cases.append(pcase(e, rng.choice([0, 0, 1]), k, text[:k], {'tags': ['prefix']}))
            if rng.random() < 0.15 and b'\0' not in text[:k]: cases.append(pcase(rng.choice(['O', 'P', 'o']), rng.choice([0, 1]), 0, text[:k] + b'\0', {'tags': ['prefix']}))
    return cases

STRUCT = b'[]{},:"\\/ \t\n0123456789-+.eEtrufalsn\x00\x01\x1f\x7f\xef\xbb\xbf'
def stream_edits(rng, count):
    cases = []
    for _ in range(count):
        v = rand_rfc_value(rng, rng.choice([1, 2, 3]))
        text = bytearray(weave_rfc(rfc_tokens(v, rng), rng))
        if not text: continue
        for _ in range(6):
            b = bytearray(text); k = rng.randrange(4); i = rng.randrange(len(b))
            if k == 0: del b[i]
            elif k == 1: b.insert(i, b[i])
            elif k == 2: b[i] = rng.choice(STRUCT)
            elif i + 1 < len(b): b[i], b[i + 1] = b[i + 1], b[i]
            cases += variants(bytes(b), rng, {'tags': ['edit']})
    return cases

SOUP = [b'[', b']', b'{', b'}', b',', b':', b'"a"', b'1', b'true', b'nul', b'tru e', b'-', b'"\\uD800"', b' ', b'null', b'"', b'\\', b'1.5', b'e', b'.', b'+', b'\'a\'', b'False', b'NULL', b'\x00', b'\x0b', b'/**/', b'01', b'"\\x"']
def stream_soup(rng, maxlen, exhaustive_len):
    cases = []
    base = SOUP[:14]
    for L in range(1, exhaustive_len + 1):
        for t in itertools.product(base, repeat=L):
            s = b''.join(t)
            cases.append(pcase('L', 0, len(s), s, {'tags': ['soup-exhaustive<=%d' % exhaustive_len]}))
    for _ in range(maxlen):
        s = b''.join(rng.choice(SOUP) for _ in range(rng.randrange(1, 9)))
        cases += variants(s, rng, {'tags': ['soup']})
    return cases

def stream_escapes(rng, quick):
    cases = []
    for c in range(0x00, 0x100):       # every byte after a backslash (0x00 included: length-delimited buffers may hold it), bare and inside text
        for s in (b'"\\' + bytes([c]) + b'"', b'["a\\' + bytes([c]) + b'b"]', b'{"k\\' + bytes([c]) + b'":1}'):
            cases.append(pcase('L', 0, len(s), s, {'tags': ['escape']}))
            if c < 0x20 or c >= 0x7f: cases.append(pcase('L', 1, len(s) + 1, s + b'\0', {'tags': ['escape', 'rnt']}))
    # truncated \u escapes (fewer than four hex digits before the next backslash / quote / end) after a plain prefix: the size
    # estimate of the first pass and the decoder of the second pass must agree on every such shape
    for k in (0, 1, 2, 3, 8, 16, 40):
        for n in (1, 2, 3, 5, 9):
            for frag in (b'\\u', b'\\u1', b'\\u12', b'\\u123', b'\\uD83D', b'\\uD83D\\u', b'\\uD83D\\uDE'):
                for tail in (b'"', b'', b'\\', b'x"'):
                    s = b'"' + b'a' * k + frag * n + tail
                    cases.append(pcase('L', 0, len(s), s, {'tags': ['escape-u-truncated']}))
                    if k == 8: cases.append(pcase('P', 0, 0, s + b'\0', {'tags': ['escape-u-truncated']}))
    digs = b'09aFgG/:@`'
    tuples = list(itertools.product(digs, repeat=4))
    if quick: tuples = rng.sample(tuples, 600)
    for t in tuples:
        s = b'"\\u' + bytes(t) + b'"'
        cases.append(pcase('L', 0, len(s), s, {'tags': ['escape-u']}))
    # every byte value at every hex-digit position of a single escape and of the low half of a surrogate pair (the digit classes
    # '0'-'9', 'A'-'F', 'a'-'f' and nothing else: not the control bytes that OR-ing 0x20 would fold onto digits, not bytes >= 0x80)
    for pos in range(4):
        for c in range(0x100):
            d = bytearray(b'1a2B'); d[pos] = c
            s = b'"\\u' + bytes(d) + b'"'; cases.append(pcase('L', 0, len(s), s, {'tags': ['escape-u', 'hex-digit-byte']}))
            d = bytearray(b'DE1f'); d[pos] = c
            s = b'"\\uD83D\\u' + bytes(d) + b'"'; cases.append(pcase('L', 0, len(s), s, {'tags': ['escape-u', 'hex-digit-byte']}))
    sur = [0xD7FF, 0xD800, 0xD801, 0xDBFF, 0xDC00, 0xDC01, 0xDFFF, 0xE000, 0x0041, 0xFFFF, 0xD83D, 0xDE00]
    for a in sur:
        for b2 in sur:
            for sep in (b'', b'x', b'\\n'):
                s = b'"' + (b'\\u%04X' % a) + sep + (b'\\u%04x' % b2) + b'"'
                cases.append(pcase('L', 0, len(s), s, {'tags': ['surrogates']}))
        s = b'"' + (b'\\u%04X' % a) + b'"'
        cases.append(pcase('L', 0, len(s), s, {'tags': ['surrogates']}))
    return cases

LENIENT = [b'01', b'00', b'1.', b'-', b'+1', b'.5', b'1.e3', b'0x10', b'1e', b'1E+', b'-.5', b'--1', b'1-2', b'1e5', b'1.5.6', b'1e1e1', b'-0', b'- 1', b'1 2', b'[1 2]', b'[1,,2]', b'[,1]', b'[1,]',
           b'{"a":1,}', b'{,"a":1}', b'{"a":1 "b":2}', b'{"a"}', b'{"a":}', b'{1:2}', b'{a:1}', b"{'a':1}", b'{"a":1}}', b'[1]]', b'[1}', b'{"a":1]', b'"a\x01b"', b'"a\nb"', b'\x0b1', b'\x001', b'1\x0b',
           b'[\x011\x02,\x1f2]', b'nulL', b'Null', b'TRUE', b'tRue', b'falsE', b'nullx', b'truefalse', b'null null', b'"a"b', b'""""', b'[]]', b'{}{}', b'1,2', b'[1],', b'/*c*/1', b'//c\n1', b'\xef\xbb\xbf\xef\xbb\xbf1',
           b' \xef\xbb\xbf1', b'\xfe\xff1', b'NaN', b'Infinity', b'-Infinity', b'1e999', b'-1e999', b'[1e999]', b'"\\u0000"', b'"a\\u0000b"', b'"\xff\xfe"', b'"\xc3"', b'{"a":1,"a":2}', b'{"":1}', b'[[]]', b'[{}]',
           b'{"a":{}}', b'{"a":[]}', b'\t\r\n 1 \t\r\n', b'1\x00', b'1 \x00', b'1\x00\x00', b'1 \x00 ', b'1\x00x', b'1x\x00', b'[1]\x00junk', b' ', b'\x00', b'\x00\x00']
def stream_lenient(rng):
    cases = []
    for t in LENIENT:
        for e in ('L', 'W'):
            cases.append(pcase(e, 0, len(t), t, {'tags': ['lenient-forms']}))
        cases.append(pcase('L', 1, len(t), t, {'tags': ['lenient-forms', 'rnt']}))
        cases.append(pcase('L', 1, len(t) + 1, t + b'\0', {'tags': ['lenient-forms', 'rnt']}))
        cases.append(pcase('L', 1, len(t) + 3, t + b' \0x', {'tags': ['lenient-forms', 'rnt']}))
        if b'\0' not in t:
            cases.append(pcase('O', 1, 0, t + b'\0', {'tags': ['lenient-forms', 'rnt']})); cases.append(pcase('P', 0, 0, t + b'\0', {'tags': ['lenient-forms']}))
    return cases

def stream_number_soup(rng, n):
    """runs of number bytes (0-9 + - e E .) of length 1..70 starting with '-' or a digit: valid and invalid spellings around the
    63/64-byte boundary of parse_number's copy, top level and inside containers, with and without a terminator"""
    cases = []; alph = b'0123456789+-eE.'
    shapes = [b'-', b'--', b'-e', b'-.', b'-+', b'0e', b'1e+', b'1.e', b'-.-', b'1..', b'1e1e', b'00', b'-00', b'1-', b'1+1', b'.5', b'-e5']
    for _ in range(n):
        k = rng.choice([1, 2, 3, 5, 30, 62, 63, 64, 65, 66, 70, 100, 200])
        head = rng.choice(shapes) if rng.random() < 0.6 else bytes([rng.choice(b'-0123456789')])
        fill = rng.choice([b'0', b'9', b'-', b'e', b'.', None])
        body = (fill * k) if fill else bytes(rng.choice(alph) for _ in range(k))
        tok = (head + body)[:max(k, len(head))]
        for text in (tok, b'[' + tok + b']', b'{"a":' + tok + b'}', b'[1,' + tok):
            if rng.random() < 0.5: cases.append(pcase(rng.choice('LlW'), 0, len(text), text, {'tags': ['number-soup']}))
            else: cases.append(pcase(rng.choice('OoP'), 0, 0, text + b'\0', {'tags': ['number-soup']}))
    return cases

def stream_wide(rng):
    """shallow but WIDE documents: more sibling containers than CJSON_NESTING_LIMIT (the depth counter must be restored after every container,
    empty ones included)"""
    cases = []
    for unit in (b'[]', b'{}', b'[1]', b'{"a":{}}'):
        n = NESTING_LIMIT + 1
        text = b'[' + b','.join([unit] * n) + b']'
        cases.append(pcase('L', 0, len(text), text, {'tags': ['valid', 'wide'], 'accept_only': True}))
        cases.append(pcase('P', 0, 0, text + b'\0', {'tags': ['valid', 'wide'], 'accept_only': True}))
    return cases

def init(ctx):
    """reads CJSON_NESTING_LIMIT from the source under test (the python oracles and the depth streams follow it)"""
    global NESTING_LIMIT
    NESTING_LIMIT = nesting_limit(ctx['repo'])

def all_streams(ctx, salt):
    init(ctx)
    rng = random.Random(ctx['seed'] * 6700417 + salt)
    quick = ctx['tier'] == 'quick'
    cases = []
    cases += stream_valid(rng, 150 if quick else 4000, all_entries=False)
    cases += stream_valid(rng, 15 if quick else 300, all_entries=True)
    cases += stream_truncations(rng, 25 if quick else 600)
    cases += stream_edits(rng, 40 if quick else 1500)
    cases += stream_soup(rng, 150 if quick else 5000, 3 if quick else 4)
    cases += stream_escapes(rng, quick)
    cases += stream_lenient(rng)
    cases += stream_number_soup(rng, 60 if quick else 1500)
    cases += stream_depth(rng)
    cases += stream_wide(rng)
    return cases

# ------------------------------------------------------------------ output parsing
def fields(out):
    """splits the driver output into the tree dump and the key=value fields"""
    toks = out.split(' ')
    kv = {}; tree = []
    for t in toks:
        if '=' in t and not t.startswith('N') and t.split('=')[0] in ('end', 'err', 'live', 'reqs', 'printed', 'live2', 'reparse', 'DOUBLEFREE', 'FOREIGNFREE', 'LINKS'):
            k, v = t.split('=', 1); kv[k] = v
        elif t == 'ROOTLINKS': kv['ROOTLINKS'] = '1'
        else: tree.append(t)
    return ' '.join(tree), kv

def project_fields(out, keys):
    tree, kv = fields(out)
    return tree + ' ' + ' '.join('%s=%s' % (k, kv.get(k, '?')) for k in keys)
