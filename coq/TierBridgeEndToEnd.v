(** TierBridgeEndToEnd.v — the Tier-B presupposition END TO END for the primitives that leave the string
    heap alone: the heap-level code (CoreDefs.v / TierBridgeUtilsDefs.v / SortDefs.v), run on a heap that
    encodes the forest [F] ([WF h F], the C06 invariant), returns normally, re-establishes the invariant
    for a forest [F'], and the container [p] of [F'], reified, IS what the value-level primitive of
    PatchDefs.v / MergeDefs.v computes from the reified container of [F].  Each theorem is the
    composition of a C06 simulation lemma (or of TierBridgeUtils.v / TierBridgeSortHeap.v) with the
    commutation lemma of TierBridgeLemmas.v — no new proof idea, but the statement no longer mentions the
    forest-level model [spec_*].

    Primitives that allocate or release strings: cJSON_AddItemToObject and cJSON_DeleteItemFromObject are
    composed in TierBridgeEndToEndStr.v (their result heaps have a different string heap, and [reify] of the
    untouched trees is preserved only if no BORROWED string of a remaining node — constant key, string
    reference — aliases a released block: an aliasing condition the value-level models cannot express, which
    becomes a hypothesis there).  cJSON_ReplaceItemInObject (not called by any Tier-B model) and
    cJSON_Duplicate are not composed: for them the two halves stay separate — C06 / C11 (heap ⊑ forest) and
    [tier_b_presupposition] clauses 10-11 (forest ↦ value). *)
From CJ Require Import Base Dbl Heap Forest ForestLemmas CoreSpec CoreDefs CoreRefineBase CoreRefine CoreRefineMore
  CoreRefineObject CoreRefineByKey CoreRefineDupValue.
From CJ Require Import TierBridgeDefs TierBridgeSort TierBridgeForest TierBridgeLemmas TierBridgeUtilsDefs TierBridgeUtils.
From CJ Require Tree CompareDefs PointerDefs PatchDefs MergeDefs.
From stdpp Require Import gmap.
From Coq Require Import Lia.
Local Open Scope Z_scope.

Section Container.
  Context (h : heap) (F : forest) (p : positive) (d : rdata) (cs : list tree).
  Hypothesis W : WF h F.
  Hypothesis Hp : find_tree p F = Some (T p d cs).
  Hypothesis Href : is_ref d = false.
  Notation St := (h_str h).
  Notation obj := (reify St (T p d cs)).
  Let ND : NoDup (ids F) := wf_nodup _ _ W.

  (** cJSON_GetArrayItem, cJSON_GetArraySize *)
  Theorem e2e_get_array_item idx :
    exists r, cJSON_GetArrayItem (Some p) idx h = Ret (r, h) /\
              reify St <$> (r ≫= fun x => find_tree x F) = PointerDefs.nth_z (Tree.n_children obj) idx.
  Proof.
    eexists. split; [by eapply cJSON_GetArrayItem_sim|]. symmetry. by eapply bridge_get_index_commutes.
  Qed.
  Theorem e2e_get_array_size : cJSON_GetArraySize (Some p) h = Ret (v_array_size obj, h).
  Proof. rewrite (cJSON_GetArraySize_sim h F p d cs W Hp Href). do 2 f_equal. by eapply bridge_get_size. Qed.

  (** detach an array element: the core function and Utils' own *)
  Theorem e2e_detach_from_array idx : 0 <= idx ->
    exists r h' F',
      cJSON_DetachItemFromArray (Some p) idx h = Ret (r, h') /\
      detach_item_from_array (Some p) idx h = Ret (r, h') /\
      WF h' F' /\ h_str h' = St /\
      match v_detach_from_array obj idx with
      | Some (item, obj') =>
          reify St <$> find_tree p F' = Some obj' /\ reify St <$> (r ≫= fun x => find_root x F') = Some item
      | None => F' = F /\ r = None /\ h' = h
      end.
  Proof.
    intros Hi. pose proof (bridge_detach_index St F p d cs ND Hp idx) as B.
    rewrite (u_detach_eq_core h F p d cs idx W Hp Href Hi).
    destruct (cs !! Z.to_nat idx) as [tx|] eqn:E.
    - destruct (cJSON_DetachItemFromArray_sim h F p d cs idx tx W Hp Href Hi E) as (S1 & S2 & S3).
      rewrite S1 in B. do 3 eexists. split; [exact S2|]. split; [exact S2|]. split; [exact S3|]. split; [done|].
      destruct (v_detach_from_array obj idx) as [[item obj']|]; [exact B|]. destruct B as [B1 B2]. discriminate B2.
    - destruct (u_detach_refused h F p d cs idx W Hp Href Hi E) as [S1 S2].
      rewrite (u_detach_eq_core h F p d cs idx W Hp Href Hi) in S2.
      rewrite S1 in B. exists None, h, F. split; [exact S2|]. split; [exact S2|]. split; [exact W|]. split; [done|].
      destruct (v_detach_from_array obj idx) as [[item obj']|]; [|done]. destruct B as [_ B2]. discriminate B2.
  Qed.

  (** by key: the caller's name is the readable block [nb] *)
  Context (nb : positive) (sn : bytes).
  Hypothesis KR : KeysReadable h F.
  Hypothesis Hnl : nb ∈ h_live h.
  Hypothesis Hns : St !! nb = Some sn.
  Hypothesis Hnz : existsb (Z.eqb 0) sn = true.

  (** get_object_item / cJSON_GetObjectItem[CaseSensitive] *)
  Theorem e2e_get_object_item (flag : bool) :
    exists r, get_object_item (Some p) (Some nb) flag h = Ret (r, h) /\
              reify St <$> (r ≫= fun x => find_tree x F) = snd <$> CompareDefs.get_object_item obj (Some (cstr sn)) flag.
  Proof.
    eexists. split; [by eapply (get_object_item_sim h F p d cs nb sn)|]. symmetry. by eapply bridge_get_key_commutes.
  Qed.

  (** cJSON_DetachItemFromObject[CaseSensitive] (= lookup, then detach via pointer) *)
  Theorem e2e_detach_from_object (flag : bool) :
    exists r h' F',
      (to_detach <~ get_object_item (Some p) (Some nb) flag ;; cJSON_DetachItemViaPointer (Some p) to_detach) h = Ret (r, h') /\
      WF h' F' /\ h_str h' = St /\
      (let '(item, obj') := MergeDefs.mp_DetachItemFromObject obj (Some (cstr sn)) flag in
       reify St <$> find_tree p F' = Some obj' /\ reify St <$> (r ≫= fun x => find_root x F') = item) /\
      match v_detach_from_object obj (cstr sn) flag with
      | Some (item, obj') =>
          reify St <$> find_tree p F' = Some obj' /\ reify St <$> (r ≫= fun x => find_root x F') = Some item
      | None => F' = F /\ r = None /\ h' = h
      end.
  Proof.
    pose proof (bridge_detach_key St F p d cs ND Hp nb sn flag Hns) as B1.
    pose proof (bridge_detach_key_patch St F p d cs ND Hp nb sn flag Hns) as B2.
    pose proof (bridge_detach_key_explicit St F p d cs ND Hp nb sn flag Hns) as E.
    pose proof (proj2 (bridge_get_key St F p d cs Hp nb sn flag Hns)) as G.
    rewrite (bindM_Ret _ _ _ _ _ (get_object_item_sim h F p d cs nb sn W KR Hp Hnl Hns Hnz flag Href)). rewrite G.
    rewrite E in B1, B2.
    destruct (found_member St flag (cstr sn) cs) as [[k tx]|] eqn:Ef; cbn [fmap option_fmap option_map snd].
    - pose proof (found_member_lookup _ _ _ _ _ _ Ef) as Hk.
      destruct (cJSON_DetachItemViaPointer_sim h F p (tid tx) d cs k tx W Hp Hk eq_refl) as (_ & S2 & S3).
      do 3 eexists. split; [exact S2|]. split; [exact S3|]. split; [done|].
      split.
      + destruct (MergeDefs.mp_DetachItemFromObject obj (Some (cstr sn)) flag) as [item obj'].
        destruct B1 as (H1 & H2 & _). by split.
      + destruct (v_detach_from_object obj (cstr sn) flag) as [[item obj']|]; [exact B2|]. destruct B2 as [_ B2]. discriminate B2.
    - exists None, h, F. split; [done|]. split; [exact W|]. split; [done|]. split.
      + destruct (MergeDefs.mp_DetachItemFromObject obj (Some (cstr sn)) flag) as [item obj'].
        destruct B1 as (H1 & H2 & _). by split.
      + destruct (v_detach_from_object obj (cstr sn) flag) as [[item obj']|]; [|done]. destruct B2 as [_ B2]. discriminate B2.
  Qed.
End Container.

(** the named entry points are the composition used above *)
Lemma cJSON_DetachItemFromObject_is object name :
  cJSON_DetachItemFromObject object name =
  (to_detach <~ get_object_item object name false ;; cJSON_DetachItemViaPointer object to_detach) /\
  cJSON_DetachItemFromObjectCaseSensitive object name =
  (to_detach <~ get_object_item object name true ;; cJSON_DetachItemViaPointer object to_detach).
Proof. split; reflexivity. Qed.

Section RootItem.
  Context (h : heap) (F : forest) (p x : positive) (d dx : rdata) (cs csx : list tree).
  Hypothesis W : WF h F.
  Hypothesis Hpx : p <> x.
  Hypothesis Hx : find_root x F = Some (T x dx csx).
  Hypothesis Hp : find_tree p (remove_root x F) = Some (T p d cs).
  Hypothesis Href : is_ref d = false.
  Notation St := (h_str h).
  Notation obj := (reify St (T p d cs)).
  Notation item := (reify St (T x dx csx)).
  Let ND : NoDup (ids F) := wf_nodup _ _ W.

  (** cJSON_AddItemToArray *)
  Theorem e2e_add_to_array :
    exists h' F', cJSON_AddItemToArray (Some p) (Some x) h = Ret (true, h') /\ WF h' F' /\ h_str h' = St /\
                  reify St <$> find_tree p F' = Some (v_add_to_array obj item).
  Proof.
    destruct (add_item_to_array_sim h F p x (T x dx csx) d cs W Hpx Hx Hp Href) as (S1 & S2 & S3).
    destruct (bridge_add_to_array St F p x d dx cs csx Hpx Hx Hp) as [B1 B2]. rewrite B1 in B2.
    do 2 eexists. split; [exact S2|]. split; [exact S3|]. split; [done|exact B2].
  Qed.

  (** Utils' own insert_item_in_array (and the core function) for an index within the array or at its end *)
  Theorem e2e_insert_in_array which : 0 <= which <= Z.of_nat (length cs) ->
    exists h' F',
      insert_item_in_array (Some p) which (Some x) h = Ret (true, h') /\
      cJSON_InsertItemInArray (Some p) which (Some x) h = Ret (true, h') /\
      WF h' F' /\ h_str h' = St /\
      reify St <$> find_tree p F' = v_insert_in_array obj which item.
  Proof.
    intros Hw. rewrite (u_insert_eq_core h F p x (T x dx csx) d cs W Hpx Hx Hp Href which Hw).
    destruct (bridge_insert_in_range St F p x d dx cs csx ND Hpx Hx Hp which Hw) as [_ B].
    destruct (Nat.ltb_spec (Z.to_nat which) (length cs)) as [Hl|Hl].
    - destruct (cJSON_InsertItemInArray_sim_before h F p x (T x dx csx) d cs which W Hpx Hx Hp Href ltac:(lia) Hl)
        as (S1 & S2 & S3).
      rewrite S1 in B. do 2 eexists. split; [exact S2|]. split; [exact S2|]. split; [exact S3|]. split; [done|exact B].
    - destruct (cJSON_InsertItemInArray_sim_append h F p x (T x dx csx) d cs which W Hpx Hx Hp Href ltac:(lia) Hl)
        as (S1 & S2 & S3).
      rewrite S1 in B. do 2 eexists. split; [exact S2|]. split; [exact S2|]. split; [exact S3|]. split; [done|exact B].
  Qed.

  (** past the end: the Utils function refuses (value level: [None], apply_patch status 10) and leaves the
      heap alone; the core function appends *)
  Theorem e2e_insert_past_end which : Z.of_nat (length cs) < which ->
    insert_item_in_array (Some p) which (Some x) h = Ret (false, h) /\
    v_insert_in_array obj which item = None /\
    exists h' F', cJSON_InsertItemInArray (Some p) which (Some x) h = Ret (true, h') /\ WF h' F' /\ h_str h' = St /\
                  reify St <$> find_tree p F' = Some (v_add_to_array obj item).
  Proof.
    intros Hw. split; [by apply (u_insert_refused h F p x (T x dx csx) d cs)|].
    destruct (insert_past_end_differs St F p x d dx cs csx ND Hpx Hx Hp which Hw) as (B1 & B2 & B3).
    split; [exact B1|].
    destruct (cJSON_InsertItemInArray_sim_append h F p x (T x dx csx) d cs which W Hpx Hx Hp Href ltac:(lia) ltac:(lia))
      as (S1 & S2 & S3).
    rewrite S1 in B3. do 2 eexists. split; [exact S2|]. split; [exact S3|]. split; [done|exact B3].
  Qed.
End RootItem.
