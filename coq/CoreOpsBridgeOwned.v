(** CoreOpsBridgeOwned.v — PART 3 of the bridge: the check "a pushed result is NULL or a block the model
    owns" of [CoreOpsBridgeHist.post_okb] is REDUNDANT: whenever the ownership rules hold, the item a
    call of the alphabet returns (constructors, detach, lookups, the Add…ToObject helpers) is a node
    of the model's forest after the call ([push_owned]).  Hence acceptance can be stated with the
    rule checker alone: [stepR] / [runR] / [accepted_rules], and [history_extracted_rules] is the
    history theorem for the extracted interpreter under that acceptance.  What remains next to
    [pre_ok3b] are the two rules about what the CALLER does with a result: it reads a returned
    [char *] only when that is NULL or a readable string, and iterates (cJSON_ArrayForEach) only over
    NULL or a container that is not a reference node. *)
From CJ Require Import Base Dbl Heap Forest ForestLemmas CoreSpec CoreDefs CoreRefineBase CoreRefine CoreRefineObject
  CoreRefineFrame CoreRefineHistory CoreRefineAddObject CoreRefineHistoryObj CoreRefineHistoryObjEx CoreRefineCreate
  CoreLedgerGen CoreHistoryAllSteps CoreHistoryAllArr CoreHistoryAllArrStep CoreHistoryAll CoreLedgerAll
  CoreOpsBridge CoreOpsBridgeHist.
From CJ Require CoreOps.
From CJ.gen Require Import Constants.
From Coq Require Import Floats.SpecFloat.
From stdpp Require Import gmap.
Local Open Scope Z_scope.

(** * the calls whose result is pushed as an item handle *)
Definition is_push (m : op3) : bool :=
  match m with
  | O2 (OArr (OCreate _)) | O2 (OArr (ODetach _ _)) | O2 (OArr (ODetachIdx _ _)) | O2 (OArr (OGet _ _))
  | O2 (OGetKey _ _ _) | O2 (ODetachKey _ _ _)
  | OCreateNumber _ | OCreateString _ | OCreateRaw _ | OCreateStringReference _ | OCreateObjectReference _
  | OCreateArrayReference _ | OAddToObject _ _ _
  | OCreateIntArray _ _ | OCreateFloatArray _ _ | OCreateDoubleArray _ _ | OCreateStringArray _ _ => true
  | _ => false
  end.

Lemma tr_push_main V st o t :
  tr V st o = Some t -> t_kind t = KPush -> exists m, t_main t = Some m /\ is_push m = true.
Proof.
  intros E Hk.
  destruct o; cbn [tr] in E; try discriminate E; unfold T0, T1, T2 in E;
    repeat match type of E with
           | context [match ?X with _ => _ end] =>
               lazymatch X with
               | tr_str _ _ _ => destruct X as [[[[? ?] ?] ?]|]; try discriminate E
               end
           end;
    try (destruct strs as [l|]; [destruct (tr_strs V st l) as [[[[? ?] ?] ?]|]; try discriminate E|]);
    injection E as <-; cbn [t_main t_kind] in *; try discriminate Hk; eexists; split; reflexivity.
Qed.

(** * membership lemmas on forests *)
Lemma tid_in_ids_t t : tid t ∈ ids_t t.
Proof. destruct t as [x d cs]. cbn. by left. Qed.
Lemma root_in_ids F t : t ∈ F -> tid t ∈ ids F.
Proof. intros H. unfold ids. apply elem_of_list_fmap. exists t. split; [done|]. by apply roots_in_nodes. Qed.
Lemma ids_snoc F t : tid t ∈ ids (F ++ [t]).
Proof. apply root_in_ids. apply elem_of_app. right. by left. Qed.
Lemma ids_datas F : ids F = fst <$> datas F.
Proof. rewrite ids_flat. unfold datas. by rewrite <- list_fmap_compose. Qed.

Lemma children_ids F p cs x : children_of F p = Some cs -> x ∈ tid <$> cs -> x ∈ ids F.
Proof.
  unfold children_of. intros H Hx. destruct (find_tree p F) as [n|] eqn:En; [|done]. injection H as <-.
  apply find_tree_Some in En as [Hn _]. apply elem_of_list_fmap in Hx as (c & -> & Hc).
  unfold ids. apply elem_of_list_fmap. exists c. split; [done|]. by apply (child_in_nodes _ n).
Qed.

Lemma find_key_cs_in strs name cs x : find_key_cs strs name cs = Some x -> x ∈ tid <$> cs.
Proof.
  induction cs as [|c r IH]; [done|]. cbn [find_key_cs]. destruct (key_string strs c); [|done].
  destruct (bool_decide _).
  - intros [= <-]. rewrite fmap_cons. by left.
  - intros H. rewrite fmap_cons. right. by apply IH.
Qed.
Lemma find_key_ci_in strs name cs x : find_key_ci strs name cs = Some x -> x ∈ tid <$> cs.
Proof.
  induction cs as [|c r IH]; [done|]. cbn [find_key_ci]. rewrite fmap_cons. destruct (key_string strs c).
  - destruct (bool_decide _); [intros [= <-]; by left|]. intros H. right. by apply IH.
  - intros H. right. by apply IH.
Qed.

Lemma spec_get_index_ids F a i x : spec_get_index F a i = Some x -> x ∈ ids F.
Proof.
  unfold spec_get_index. destruct a as [p|]; [|done]. destruct (children_of F p) as [cs|] eqn:Ec; [|done].
  intros H. apply (children_ids _ _ _ _ Ec). by apply elem_of_list_lookup_2 in H.
Qed.
Lemma spec_get_key_ids strs F ob n cs x : spec_get_key strs F ob n cs = Some x -> x ∈ ids F.
Proof.
  unfold spec_get_key. destruct ob as [p|]; [|done]. destruct n as [nb|]; [|done].
  destruct (children_of F p) as [l|] eqn:Ec; [|done]. destruct (strs !! nb) as [s|]; [|done].
  intros H. apply (children_ids _ _ _ _ Ec). destruct cs; [by eapply find_key_cs_in|by eapply find_key_ci_in].
Qed.
Lemma spec_detach_ids F pa it F' x : spec_detach F pa it = (F', Some x) -> x ∈ ids F'.
Proof.
  unfold spec_detach. destruct pa as [p|]; [|done]. destruct it as [y|]; [|done].
  destruct (children_of F p) as [cs|]; [|done]. destruct (index_of y (tid <$> cs)) as [k|] eqn:Ek; [|done].
  destruct (cs !! k) as [tx|] eqn:Etx; [|done]. intros [= <- <-].
  apply index_of_Some in Ek. rewrite list_lookup_fmap, Etx in Ek. injection Ek as <-. apply ids_snoc.
Qed.

(** a successful cJSON_AddItemToObject keeps the item in the forest *)
Lemma addobj_true_ids S1 p nb x :
  NoDup (ids (a_forest S1)) -> movable_into (a_forest S1) p x ->
  x ∈ ids (a_forest (s2 S1 (OAddObj (Some p) (Some nb) (Some x) false)).1).
Proof.
  intros ND (Hpx & tx & d & cs & Hx & Hp & Hr). unfold s2. cbn [spec_step2].
  rewrite decide_False by congruence. unfold never.
  destruct tx as [x' d0 cs0]. pose proof (find_root_Some _ _ _ Hx) as [_ Hxx]. cbn in Hxx. subst x'.
  set (F := a_forest S1) in *. set (nk := as_next (a_st S1)).
  set (d' := rd_owned_key d0 nk).
  assert (E : spec_add_to_object F (Some p) (Some nb) (Some x) false (Some nk) =
              (set_children p (cs ++ [T x d' cs0]) (remove_root x F), true)).
  { unfold spec_add_to_object. rewrite decide_False by congruence. rewrite Hx. cbn [tdata]. fold d'.
    destruct (set_data_root F x d0 cs0 d' ND Hx) as (_ & Hx1 & Hrr).
    unfold spec_add_to_array. rewrite decide_False by congruence. rewrite Hx1, Hrr.
    unfold children_of. rewrite Hp. reflexivity. }
  rewrite E. cbn [fst a_forest a_st as_forest].
  destruct (datas_add_to_object F x d0 cs0 p d cs ND Hx Hp) as (DR & _ & HD).
  rewrite ids_datas, (HD d'). cbn. by left.
Qed.

Lemma ids_spec_create F id d : id ∈ ids (spec_create F id d).
Proof. apply (ids_snoc F (T id d [])). Qed.

(** THE RESULT OF A PUSHING CALL IS A NODE OF THE MODEL'S FOREST *)
Lemma push_ids h S m x :
  Abs3 h S -> pre_ok3 S m -> is_push m = true -> (spec_step3 S m).2 = R (RPtr (Some x)) ->
  x ∈ ids (a_forest (spec_step3 S m).1).
Proof.
  intros HA Hpre Hm Hr.
  destruct m as [o|n|s|s|s|c|c|a i|ob n i|ob n r cs|y n|y z|y b|y v|k ob n|ob n|y|y|l c|l c|l c|l c]; try discriminate Hm.
  - destruct o as [o|c|ob n i ck|ob n cs|ob n cs|ob n cs]; try discriminate Hm.
    + destruct o as [ty|a i|pa it|a w|a w n|pa it rp|a w n|it|a w|a|a i]; try discriminate Hm.
      * (* constructors without payload *)
        cbn -[ids spec_create] in Hr |- *. injection Hr as <-. apply ids_spec_create.
      * (* cJSON_DetachItemViaPointer *)
        cbn [spec_step3 s2 spec_step2 spec_step fst snd] in Hr |- *.
        destruct (spec_detach (as_forest (a_st S)) pa it) as [F' q] eqn:E. cbn -[ids spec_create] in Hr |- *.
        injection Hr as ->. by eapply spec_detach_ids.
      * (* cJSON_DetachItemFromArray *)
        cbn [spec_step3 s2 spec_step2 spec_step fst snd] in Hr |- *.
        destruct (spec_detach_index (as_forest (a_st S)) a w) as [F' q] eqn:E. cbn -[ids spec_create] in Hr |- *.
        injection Hr as ->. unfold spec_detach_index in E. destruct (w <? 0); [done|]. by eapply spec_detach_ids.
      * (* cJSON_GetArrayItem *)
        cbn -[ids spec_create] in Hr |- *. injection Hr as Hr. unfold spec_get_array_item in Hr. destruct (i <? 0); [done|].
        by eapply spec_get_index_ids.
    + (* cJSON_GetObjectItem[CaseSensitive] *)
      cbn -[ids spec_create] in Hr |- *. injection Hr as Hr. by eapply spec_get_key_ids.
    + (* cJSON_DetachItemFromObject[CaseSensitive] *)
      cbn [spec_step3 s2 spec_step2 fst snd] in Hr |- *.
      destruct (spec_detach_key (a_str S) (a_forest S) ob n cs) as [F' q] eqn:E. cbn -[ids spec_create] in Hr |- *.
      injection Hr as ->. unfold spec_detach_key in E. by eapply spec_detach_ids.
  - cbn -[ids spec_create] in Hr |- *. injection Hr as <-. apply ids_spec_create.
  - (* cJSON_CreateString *)
    cbn [spec_step3 fst snd] in Hr |- *. unfold spec_new_string in *. destruct s as [b|]; [|done].
    destruct (a_str S !! b); [|done]. cbn -[ids spec_create] in Hr |- *. injection Hr as <-. apply ids_spec_create.
  - cbn [spec_step3 fst snd] in Hr |- *. unfold spec_new_string in *. destruct s as [b|]; [|done].
    destruct (a_str S !! b); [|done]. cbn -[ids spec_create] in Hr |- *. injection Hr as <-. apply ids_spec_create.
  - cbn -[ids spec_create] in Hr |- *. injection Hr as <-. apply ids_spec_create.
  - cbn -[ids spec_create] in Hr |- *. injection Hr as <-. apply ids_spec_create.
  - cbn -[ids spec_create] in Hr |- *. injection Hr as <-. apply ids_spec_create.
  - (* the cJSON_Add…ToObject helpers *)
    destruct Hpre as [Hk [Hadd _]]. destruct (Step_created S k Hk h HA) as (hc & _ & HAc).
    cbn [spec_step3 fst snd] in Hr |- *. cbn zeta in Hr |- *. unfold spec_add_or_delete in Hr |- *. cbn zeta in Hr |- *.
    set (c := spec_created S k) in *.
    destruct (res_bool (s2 c.1 (OAddObj ob n c.2 false)).2) eqn:Eb; cbn [fst snd] in Hr |- *; [|done].
    injection Hr as Hc. rewrite Hc in *.
    pose proof (wf_nodup _ _ (Abs3_WF' _ _ HAc)) as ND.
    destruct Hadd as [Href|(p & x' & -> & [= <-] & Hmv & (nb & s0 & -> & _) & _)].
    + exfalso. destruct ob as [p|]; [|done]. destruct n as [nb|]; [|done].
      destruct Href as [?|[?|[?|[= ->]]]]; try done.
      unfold s2 in Eb. cbn [spec_step2] in Eb. by rewrite decide_True in Eb.
    + by apply addobj_true_ids.
  - (* the bulk constructors *)
    cbn [spec_step3] in Hr |- *. unfold spec_bulk in *. destruct l as [l|]; [|done]. destruct (c <? 0); [done|].
    cbn [fst snd] in Hr |- *. unfold spec_number_array in *. cbn -[ids] in Hr |- *. injection Hr as <-.
    apply (ids_snoc (a_forest S) (T _ _ _)).
  - cbn [spec_step3] in Hr |- *. unfold spec_bulk in *. destruct l as [l|]; [|done]. destruct (c <? 0); [done|].
    cbn [fst snd] in Hr |- *. unfold spec_number_array in *. cbn -[ids] in Hr |- *. injection Hr as <-.
    apply (ids_snoc (a_forest S) (T _ _ _)).
  - cbn [spec_step3] in Hr |- *. unfold spec_bulk in *. destruct l as [l|]; [|done]. destruct (c <? 0); [done|].
    cbn [fst snd] in Hr |- *. unfold spec_number_array in *. cbn -[ids] in Hr |- *. injection Hr as <-.
    apply (ids_snoc (a_forest S) (T _ _ _)).
  - cbn [spec_step3] in Hr |- *. unfold spec_bulk in *. destruct l as [l|]; [|done]. destruct (c <? 0); [done|].
    cbn [fst snd] in Hr |- *. unfold spec_string_array in *. cbn -[ids] in Hr |- *. injection Hr as <-.
    apply (ids_snoc (a_forest S) (T _ _ _)).
Qed.

Lemma spec_results3_length l : forall S, length (spec_results3 S l) = length l.
Proof. induction l as [|o l IH]; intros S; [done|]. cbn [spec_results3 length]. by rewrite IH. Qed.

(** the same for a translated call: string declarations first, then the call *)
Lemma push_owned_tr h S st o t x :
  Abs3 h S -> tr (sview S) st o = Some t -> t_kind t = KPush -> pre_ok_all3 S (tr_ops t) ->
  res_ptr3 (main_res t (spec_results3 S (tr_ops t))) = Some x -> x ∈ owned (a_forest (spec_run3 S (tr_ops t))).
Proof.
  intros HA Et Hk Hpre Hx. destruct (tr_push_main _ _ _ _ Et Hk) as (m & Hm & Hp).
  unfold tr_ops, main_res in *. rewrite Hm in *. set (pre := (fun c => O2 (OForeign c)) <$> t_pre t) in *.
  destruct (pre_ok_all3_app _ _ _ Hpre) as [Hpre1 [Hpm _]].
  destruct (history_sim3 pre h S HA Hpre1) as (h1 & _ & HA1).
  rewrite spec_results3_app in Hx. cbn [spec_results3] in Hx.
  assert (Hlen : length (t_pre t) = length (spec_results3 S pre)).
  { rewrite spec_results3_length. unfold pre. by rewrite fmap_length. }
  rewrite Hlen, nth_middle in Hx. rewrite spec_run3_app. unfold spec_run3 at 1. cbn [fold_left].
  apply ids_subseteq_owned. eapply push_ids; [exact HA1|exact Hpm|exact Hp|].
  destruct (spec_step3 (spec_run3 S pre) m).2 as [[q| | |]|]; cbn in Hx; try done. by rewrite Hx.
Qed.

(** * acceptance by the rules alone *)
Definition post_rules (k : kind) (S' : astate2) (r : res3) : bool :=
  match k with KPush => true | _ => post_okb k S' r end.

Definition stepR (st : CoreOps.state) (S : astate2) (o : CoreOps.op) : option (CoreOps.result * CoreOps.state * astate2) :=
  match tr (sview S) st o with
  | None => None
  | Some t =>
      let l := tr_ops t in
      let S' := spec_run3 S l in
      let r := main_res t (spec_results3 S l) in
      if pre_ok_all3b S l && post_rules (t_kind t) S' r
      then Some (encS (t_kind t) S' r, sweepS S' (new_pools (t_kind t) (t_st t) r), S')
      else None
  end.

Fixpoint runR (st : CoreOps.state) (S : astate2) (ops : list CoreOps.op) : option (list CoreOps.result * CoreOps.state * astate2) :=
  match ops with
  | [] => Some ([], st, S)
  | o :: r =>
      match stepR st S o with
      | Some (x, st1, S1) =>
          match runR st1 S1 r with
          | Some (xs, st2, S2) => Some (x :: xs, st2, S2)
          | None => None
          end
      | None => None
      end
  end.

(** ACCEPTED (rules only): the translation of every call, in the pools and the model state of its
    moment, passes the checker of the documented ownership rules *)
Definition accepted_rules (ops : list CoreOps.op) : bool :=
  match runR CoreOps.empty_state S0 ops with Some _ => true | None => false end.

Lemma stepR_stepS h st S o y : Abs3 h S -> stepR st S o = Some y -> stepS st S o = Some y.
Proof.
  intros HA. unfold stepR, stepS. destruct (tr (sview S) st o) as [t|] eqn:Et; [|done]. cbn zeta.
  destruct (pre_ok_all3b S (tr_ops t)) eqn:Hpre; [|done]. cbn [andb].
  destruct (t_kind t) eqn:Hk; cbn [post_rules]; try done.
  cbn [post_okb]. destruct (res_ptr3 _) as [x|] eqn:Ex; [|done].
  rewrite bool_decide_eq_true_2; [done|].
  apply (push_owned_tr h S st o t x HA Et Hk); [by apply pre_ok_all3b_sound|done].
Qed.

Lemma stepS_stepR st S o y : stepS st S o = Some y -> stepR st S o = Some y.
Proof.
  unfold stepR, stepS. destruct (tr (sview S) st o) as [t|]; [|done]. cbn zeta.
  destruct (pre_ok_all3b S (tr_ops t)); [|done]. cbn [andb].
  destruct (t_kind t); cbn [post_rules]; try done. by destruct (post_okb _ _ _).
Qed.

Lemma runR_runS ops : forall h st S y, Abs3 h S -> PoolsOK h st S -> runR st S ops = Some y -> runS st S ops = Some y.
Proof.
  induction ops as [|o r IH]; intros h st S y HA HP E; cbn [runR runS] in *; [done|].
  destruct (stepR st S o) as [[[x st1] S1]|] eqn:Es; [|done].
  rewrite (stepR_stepS _ _ _ _ _ HA Es).
  destruct (stepS_sim _ _ _ _ _ _ _ HA HP (stepR_stepS _ _ _ _ _ HA Es)) as (h1 & _ & _ & _ & HA1 & HP1).
  destruct (runR st1 S1 r) as [[[xs st2] S2]|] eqn:Er; [|done].
  by rewrite (IH _ _ _ _ HA1 HP1 Er).
Qed.

Lemma runS_runR ops : forall st S y, runS st S ops = Some y -> runR st S ops = Some y.
Proof.
  induction ops as [|o r IH]; intros st S y E; cbn [runR runS] in *; [done|].
  destruct (stepS st S o) as [[[x st1] S1]|] eqn:Es; [|done]. rewrite (stepS_stepR _ _ _ _ Es).
  destruct (runS st1 S1 r) as [[[xs st2] S2]|] eqn:Er; [|done]. by rewrite (IH _ _ _ Er).
Qed.

(** the two notions of acceptance coincide on histories from the empty state *)
Theorem accepted_rules_iff ops : accepted_rules ops = accepted ops.
Proof.
  unfold accepted_rules, accepted.
  destruct (runR CoreOps.empty_state S0 ops) as [y|] eqn:Er.
  - by rewrite (runR_runS ops _ _ _ _ Abs3_empty PoolsOK_empty Er).
  - destruct (runS CoreOps.empty_state S0 ops) as [y|] eqn:Es; [|done]. by rewrite (runS_runR _ _ _ _ Es) in Er.
Qed.

(** THE HISTORY THEOREM FOR THE EXTRACTED INTERPRETER, acceptance by the rules alone *)
Theorem runR_sim ops h st S xs st2 S2 :
  Abs3 h S -> PoolsOK h st S -> runR st S ops = Some (xs, st2, S2) ->
  exists h', CoreOps.run_ops nv st ops h = Ret ((xs, st2), h') /\
             run_ops3 (tr_hist st S ops) h = Ret (spec_results3 S (tr_hist st S ops), h') /\
             S2 = spec_run3 S (tr_hist st S ops) /\ Abs3 h' S2 /\ PoolsOK h' st2 S2.
Proof. intros HA HP E. apply runS_sim; [done|done|]. by eapply runR_runS. Qed.

Theorem history_extracted_rules ops xs st' S' :
  runR CoreOps.empty_state S0 ops = Some (xs, st', S') ->
  exists h', CoreOps.run_ops nv CoreOps.empty_state ops empty_heap = Ret ((xs, st'), h') /\
             run_ops3 (tr_hist CoreOps.empty_state S0 ops) empty_heap =
               Ret (spec_results3 S0 (tr_hist CoreOps.empty_state S0 ops), h') /\
             S' = spec_run3 S0 (tr_hist CoreOps.empty_state S0 ops) /\ Abs3 h' S'.
Proof. intros E. apply history_extracted. by eapply runR_runS; [apply Abs3_empty|apply PoolsOK_empty|]. Qed.

(** what acceptance by the rules means, spelled out *)
Lemma stepR_spec st S o x st1 S1 :
  stepR st S o = Some (x, st1, S1) <->
  exists t, tr (sview S) st o = Some t /\
    pre_ok_all3b S (tr_ops t) = true /\
    S1 = spec_run3 S (tr_ops t) /\
    post_rules (t_kind t) S1 (main_res t (spec_results3 S (tr_ops t))) = true /\
    x = encS (t_kind t) S1 (main_res t (spec_results3 S (tr_ops t))) /\
    st1 = sweepS S1 (new_pools (t_kind t) (t_st t) (main_res t (spec_results3 S (tr_ops t)))).
Proof.
  unfold stepR. split.
  - destruct (tr (sview S) st o) as [t|]; [|done]. cbn zeta.
    destruct (pre_ok_all3b S (tr_ops t) && _) eqn:Eb; [|done]. intros [= <- <- <-].
    apply andb_true_iff in Eb as [H1 H2]. by exists t.
  - intros (t & -> & H1 & -> & H2 & -> & ->). cbn zeta. by rewrite H1, H2.
Qed.

(** the ledger (C07) for the extracted interpreter, acceptance by the rules alone *)
Theorem ledger_extracted_rules ops xs st' S' :
  runR CoreOps.empty_state S0 ops = Some (xs, st', S') ->
  exists h1 h2,
    CoreOps.run_ops nv CoreOps.empty_state ops empty_heap = Ret ((xs, st'), h1) /\ Abs3 h1 S' /\
    (forall b, b ∈ lib_live h1 <-> b ∈ owned (a_forest S')) /\
    CoreOps.live_count h1 = length (owned (a_forest S')) /\
    delete_roots (roots (a_forest S')) h1 = Ret (tt, h2) /\ lib_live h2 = ∅ /\ CoreOps.live_count h2 = 0%nat /\
    (forall b, h_own h1 !! b = Some Foreign -> b ∈ h_live h1 -> b ∈ h_live h2 /\ h_str h2 !! b = h_str h1 !! b).
Proof. intros E. apply ledger_extracted. by eapply runR_runS; [apply Abs3_empty|apply PoolsOK_empty|]. Qed.

(** every moment: acceptance is prefix-closed *)
Lemma runR_app ops1 : forall st S ops2 xs st2 S2,
  runR st S (ops1 ++ ops2) = Some (xs, st2, S2) ->
  exists xs1 st1 S1 xs2, runR st S ops1 = Some (xs1, st1, S1) /\ runR st1 S1 ops2 = Some (xs2, st2, S2) /\ xs = xs1 ++ xs2.
Proof.
  induction ops1 as [|o r IH]; intros st S ops2 xs st2 S2 E; cbn [app runR] in *.
  - by exists [], st, S, xs.
  - destruct (stepR st S o) as [[[x sta] Sa]|]; [|done].
    destruct (runR sta Sa (r ++ ops2)) as [[[xr st3] S3]|] eqn:Er; [|done]. injection E as <- <- <-.
    destruct (IH _ _ _ _ _ _ Er) as (xs1 & st1 & S1 & xs2 & -> & E2 & ->). by exists (x :: xs1), st1, S1, xs2.
Qed.

(** one step, acceptance by the rules alone *)
Theorem stepR_sim h st S o x st1 S1 :
  Abs3 h S -> PoolsOK h st S -> stepR st S o = Some (x, st1, S1) ->
  exists h', CoreOps.run_op nv st o h = Ret ((x, st1), h') /\
             run_ops3 (step_ops st S o) h = Ret (spec_results3 S (step_ops st S o), h') /\
             S1 = spec_run3 S (step_ops st S o) /\ Abs3 h' S1 /\ PoolsOK h' st1 S1.
Proof. intros HA HP E. apply stepS_sim; [done|done|]. by eapply stepR_stepS. Qed.
